#!/bin/sh
# usage: trymut.sh <mutant dir> <family> [report...]  — build the harness against a scratch worktree with the patch, run the family, list violations
export GOFLAGS=-mod=mod GOPROXY=off GOSUMDB=off GOTOOLCHAIN=local
d=$1; fam=$2; shift 2
wt=/tmp/repo-mut-$$
git -C /repo worktree add -q --detach $wt HEAD || exit 1
(cd $wt && git apply $d/patch.diff) || { echo "patch failed"; git -C /repo worktree remove --force $wt; exit 1; }
cd /verif/harness
sed "s#=> /repo#=> $wt#" go.mod > /tmp/mut-$$.mod; cp $wt/go.sum /tmp/mut-$$.sum
go build -modfile=/tmp/mut-$$.mod -tags verif -o /tmp/sbverif_mut_$$ . || { echo build failed; }
out=/tmp/mutout-$$; rm -rf $out; mkdir -p $out
timeout 900 /tmp/sbverif_mut_$$ $fam -seed 1 -tier quick -out $out > /dev/null 2>&1
python3 - $out "$@" <<'P'
import json,sys,glob,os
out=sys.argv[1]; want=set(sys.argv[2:])
for f in sorted(glob.glob(out+'/*.json')):
    d=json.load(open(f))
    vs=[v for v in (d.get('oracle_violations') or []) if v['key'] not in ('ptr-to-nil-ptr','iface-key-composite','tied-map-keys')]
    props={}
    for v in vs: props.setdefault((v['property'],v['key']),0); props[(v['property'],v['key'])]+=1
    print(os.path.basename(f), d['evaluations'], d['cases'], props)
P
echo "casefiles in $out"
git -C /repo worktree remove --force $wt; rm -f /tmp/sbverif_mut_$$ /tmp/mut-$$.mod /tmp/mut-$$.sum
