#!/usr/bin/env python3
"""confirm.py <srcdir> : suite passes with the change, demo fails with it, passes without; writes <srcdir>/confirm.json"""
import sys, os, json, subprocess, shutil
ENV = dict(os.environ, GOFLAGS='-mod=mod', GOPROXY='off', GOSUMDB='off', GOTOOLCHAIN='local')
def sh(cmd, cwd=None, timeout=2400):
    p = subprocess.run(cmd, cwd=cwd, shell=True, env=ENV, stdout=subprocess.PIPE, stderr=subprocess.STDOUT, text=True, timeout=timeout)
    return p.returncode, p.stdout
src = sys.argv[1]
wt = '/tmp/cw-%d' % os.getpid()
sh('git -C /repo worktree add -q --detach %s HEAD' % wt)
res = {}
try:
    patch = os.path.abspath(os.path.join(src, 'patch.diff'))
    rc, out = sh('git apply %s' % patch, cwd=wt); res['patch_applies'] = rc == 0
    if rc == 0:
        rc, out = sh('go build ./... && go test -vet=off -count=1 ./...', cwd=wt); res['suite_passes_with_change'] = rc == 0
        shutil.copy(os.path.join(src, 'demo_test.go'), os.path.join(wt, 'zz_demo_test.go'))
        rc, out = sh('go test -vet=off -count=1 -run TestDemo ./...', cwd=wt); res['demo_fails_with_change'] = rc != 0
        res['demo_output_with_change'] = out[-600:]
        sh('git apply -R %s' % patch, cwd=wt)
        rc, out = sh('go test -vet=off -count=1 -run TestDemo ./...', cwd=wt); res['demo_passes_without_change'] = rc == 0
        if rc != 0: res['demo_output_without_change'] = out[-600:]
finally:
    sh('git -C /repo worktree remove --force %s' % wt)
res['confirmed'] = bool(res.get('suite_passes_with_change') and res.get('demo_fails_with_change') and res.get('demo_passes_without_change'))
json.dump(res, open(os.path.join(src, 'confirm.json'), 'w'), indent=1)
print(os.path.basename(src), res['confirmed'], {k: v for k, v in res.items() if not k.startswith('demo_output')})
