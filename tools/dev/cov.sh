#!/bin/sh
export GOFLAGS=-mod=mod GOPROXY=off GOSUMDB=off GOTOOLCHAIN=local
cd /verif/harness && go build -modfile=/tmp/dev.mod -tags verif -cover -coverpkg=all -o /tmp/sbverif_cov . || exit 1
rm -rf /tmp/cov /tmp/covout; mkdir -p /tmp/cov /tmp/covout
cd /tmp
for f in codec compare hash streams typed json heap pipeline conc concplain golden; do GOCOVERDIR=/tmp/cov timeout 900 /tmp/sbverif_cov $f -seed 1 -tier quick -out /tmp/covout >/dev/null 2>&1; done
cd /verif/harness
go tool covdata textfmt -i=/tmp/cov -pkg=github.com/reusee/sb -o /tmp/cov.txt
go tool cover -func=/tmp/cov.txt | tail -1
awk '$NF==0' /tmp/cov.txt | grep -v 'fuzz.go\|kind_string\|demo.go\|cmd_types' | sed 's#github.com/reusee/sb/##' | sort -t: -k1,1 -k2,2n > /tmp/uncovered.txt
wc -l /tmp/uncovered.txt
rm -rf /tmp/covout
