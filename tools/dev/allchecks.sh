#!/bin/sh
cd /verif
for s in "$@"; do
for i in 01 02 03 04 05 06 07 08 09 10 11 12 13 14 15 16 17 18 19 20; do
  VERIF_SEED=$s ./check C$i --tier quick 2>&1 | grep -v "^WARNING" | grep "VIOLATION\|oracle:\|mismatch\|broken\|differs\|quick seed" | cut -c1-400
done
done
