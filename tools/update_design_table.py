#!/usr/bin/env python3
"""replaces the table under '### Breaking changes' in DESIGN.md by the output of tools/mutant_table.py"""
import subprocess, re
out = subprocess.run(['python3', '/verif/tools/mutant_table.py'], capture_output=True, text=True).stdout
p = '/verif/DESIGN.md'
s = open(p).read()
i = s.index('### Breaking changes')
j = s.index('| seeded change |', i)
k = j
lines = s[j:].split('\n')
n = 0
for l in lines:
    if l.startswith('|'):
        n += 1
    else:
        break
end = j + len('\n'.join(lines[:n]))
s = s[:j] + out.rstrip('\n') + s[end:]
open(p, 'w').write(s)
print('rows:', out.count('\n') - 2)
