#!/usr/bin/env python3
"""tools/genmod.py <spec.json> — appends module-scoped restatements to a hand-written property file.
For lemmas proved inside Sections / Modules the CLOSED statement (all section variables quantified) is
obtained from Coq itself (`Check lemma.` printed by coqtop) and pasted as the theorem's statement, which is
then closed by `exact lemma` - so the property file shows exactly what is proved, and Coq re-checks that the
printed statement is the lemma's type.
spec: {"file": "Properties/C17.v", "marker": "(* ---- generated ---- *)", "blocks": [
  {"module": "Snapshots", "header": ["From SbModel Require Import Proofs.PathsP.", "Import PathsP.AliasP."],
   "theorems": [{"name": "...", "lemma": "...", "comment": "..."}]}]}"""
import sys, json, re, subprocess, tempfile, os
spec = json.load(open(sys.argv[1]))
COQ = '/verif/coq'
path = os.path.join(COQ, 'theories', spec['file'])
text = open(path).read()
marker = spec['marker']
if marker in text:
    text = text[:text.index(marker)]
out = [marker, '']
allnames = []
for b in spec['blocks']:
    hdr = b.get('header', [])
    with tempfile.NamedTemporaryFile('w', suffix='.v', delete=False) as f:
        f.write('\n'.join(hdr) + '\nSet Printing Width 110.\n')
        for th in b['theorems']:
            f.write('Check %s.\n' % th['lemma'])
        tmp = f.name
    r = subprocess.run(['coqtop', '-Q', 'theories', 'SbModel', '-batch', '-l', tmp], cwd=COQ, capture_output=True, text=True)
    os.unlink(tmp)
    if r.returncode != 0:
        raise SystemExit('coqtop failed: ' + r.stdout[-2000:] + r.stderr[-2000:])
    chunks = re.split(r'^(?=\S)', r.stdout, flags=re.M)
    types = {}
    for c in chunks:
        m = re.match(r'(\S+)\n\s+: (.*)', c, re.S)
        if m:
            types[m.group(1)] = m.group(2).rstrip()
    out += [l for l in hdr if l.startswith('From ') or l.startswith('Require ')]
    out += ['Module %s.' % b['module']] + [l for l in hdr if not (l.startswith('From ') or l.startswith('Require '))] + ['']
    for th in b['theorems']:
        ty = types.get(th['lemma'])
        if ty is None:
            raise SystemExit('no type printed for ' + th['lemma'])
        if th.get('comment'):
            out.append('(* %s *)' % th['comment'])
        out.append('Theorem %s :' % th['name'])
        out.append('  ' + '\n  '.join(l.strip() and ('  ' + l.lstrip() if False else l.rstrip()) for l in ty.split('\n')) + '.')
        out.append('Proof. exact %s. Qed.' % th['lemma'])
        out.append('')
        allnames.append('%s.%s' % (b['module'], th['name']))
    out += ['End %s.' % b['module'], '']
for n in allnames:
    out.append('Print Assumptions %s.' % n)
open(path, 'w').write(text.rstrip('\n') + '\n\n' + '\n'.join(out) + '\n')
