#!/usr/bin/env python3
"""prints the markdown table of seeded changes (DESIGN.md II.7) from seeded/*/meta.json"""
import json, glob, os, re
rows = []
for m in sorted(glob.glob(os.path.join(os.path.dirname(__file__), '..', 'seeded', '*', 'meta.json'))):
    d = json.load(open(m))
    name = os.path.basename(os.path.dirname(m))
    val = d.get('validation', {})
    cr = d.get('checks_run', {})
    det = []
    for c, r in cr.items():
        if r.get('detected'):
            how = ''
            for l in r.get('lines', []):
                l = l.strip()
                if l.startswith('oracle:'):
                    how = 'oracle `%s`' % l.split(':')[1].strip(); break
                if l.startswith('mismatch:'):
                    how = 'model/impl mismatch (%s)' % l.split(':')[1].strip().split(' ')[0]; break
                if l.startswith('differs from the reference'):
                    how = 'output differs from the reference model (concrete input)'; break
                if l.startswith('widened'):
                    how = 'widened search: `%s`' % l.split('found:')[1].strip().split(':')[0]; break
            nf = any('no-failing-input-found' in l for l in r.get('lines', []))
            det.append('%s — %s%s' % (c, how or 'VIOLATION', ' (no failing input found)' if nf else ''))
    summ = re.sub(r'\s+', ' ', d.get('summary', ''))
    if len(summ) > 150:
        summ = summ[:147] + '...'
    rows.append('| %s | %s | %s | %s |' % (name, summ.replace('|', '/'), 'yes' if val.get('confirmed') else 'NO', '; '.join(det) or '**missed**'))
print('| seeded change | what was changed | confirmed (suite passes, demo fails) | caught by |')
print('|---|---|---|---|')
print('\n'.join(rows))
