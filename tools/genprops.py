#!/usr/bin/env python3
"""tools/genprops.py — (re)generate a Properties/Cxx.v skeleton by copying the statements of the named lemmas
verbatim from the proof files, so that each property theorem restates the full statement and is closed by
`exact (lemma ...)`.  Used once per property file; the generated file is then committed (and may be edited)."""
import re, sys, json

def find_stmt(src, name):
    m = re.search(r'^(Theorem|Lemma|Corollary|Example)\s+' + re.escape(name) + r'\b(.*?)\.\s*\nProof', src, re.S | re.M)
    if not m:
        raise SystemExit('lemma %s not found' % name)
    return m.group(2).strip()

def split_binders(stmt):
    # binders are everything before the first ':' at bracket depth 0
    depth = 0
    for i, c in enumerate(stmt):
        if c in '([{': depth += 1
        elif c in ')]}': depth -= 1
        elif c == ':' and depth == 0 and stmt[i:i+2] != ':=':
            return stmt[:i].strip(), stmt[i+1:].strip()
    return '', stmt

def binder_names(b):
    names = []
    depth = 0
    tok = ''
    i = 0
    # remove parenthesised type annotations: (x y : T) -> x y
    out = []
    while i < len(b):
        c = b[i]
        if c == '(':
            j = b.index(')', i) if ')' in b[i:] else len(b)
            # handle nested parens
            d = 0
            for j in range(i, len(b)):
                if b[j] == '(': d += 1
                elif b[j] == ')':
                    d -= 1
                    if d == 0: break
            inner = b[i+1:j]
            out.append(inner.split(':')[0])
            i = j + 1
        else:
            out.append(c); i += 1
    return ''.join(out).split()

def main():
    spec = json.load(open(sys.argv[1]))
    lines = ['(* %s *)' % spec['title'], 'From SbModel Require Import %s.' % ' '.join(spec['imports']), 'Local Open Scope %s.' % spec.get('scope', 'N_scope'), '']
    if spec.get('preamble'):
        lines += [spec['preamble'], '']
    names = []
    srcs = {f: open('/verif/coq/theories/' + f).read() for f in spec['sources']}
    for th in spec['theorems']:
        stmt = None
        for f, src in srcs.items():
            try:
                stmt = find_stmt(src, th['lemma']); break
            except SystemExit:
                continue
        if stmt is None:
            raise SystemExit('lemma %s not found' % th['lemma'])
        binders, typ = split_binders(stmt)
        extra = th.get('extra_args', '')
        args = ' '.join(binder_names(binders))
        if th.get('scope'):
            lines.append('Local Open Scope %s.' % th['scope'])
        if th.get('comment'):
            lines.append('(* %s *)' % th['comment'])
        lines.append('Theorem %s %s%s :' % (th['name'], (extra + ' ') if extra else '', binders))
        lines.append('  ' + typ + '.')
        lines.append('Proof. exact (%s %s%s). Qed.' % (th['lemma'], (th.get('extra_pass', '') + ' ') if th.get('extra_pass') else '', args))
        lines.append('')
        names.append(th['name'])
    for n in names:
        lines.append('Print Assumptions %s.' % n)
    open('/verif/coq/theories/Properties/%s.v' % spec['id'], 'w').write('\n'.join(lines) + '\n')

main()
