(* C06 — Compare is the documented total order on token streams. *)
From SbModel Require Import Model.Compare Spec.LexOrder Proofs.CompareP Proofs.LexFirstDiffP.
Local Open Scope N_scope.

Notation wfs := (Forall (fun t => wf_cmp t = true)).

(* the mirror of Compare is the lexicographic order of Spec/LexOrder.v *)
Theorem c06_is_lex a b : wfs a -> wfs b -> cmp_tokens a b = Some (lex a b).
Proof. exact (cmp_is_lex a b). Qed.

Theorem c06_refl a : lex a a = Eq.
Proof. exact (lex_refl a). Qed.
Theorem c06_antisym a b : lex b a = CompOpp (lex a b).
Proof. exact (lex_antisym a b). Qed.
Theorem c06_trans a b c : wfs a -> wfs b -> wfs c -> lex a b <> Gt -> lex b c <> Gt -> lex a c <> Gt.
Proof. exact (lex_trans a b c). Qed.
Theorem c06_trans_lt a b c : wfs a -> wfs b -> wfs c -> lex a b = Lt -> lex b c <> Gt -> lex a c = Lt.
Proof. exact (lex_trans_lt a b c). Qed.

(* 0 exactly for token-for-token identical streams (numerically equal floats count as equal) *)
Theorem c06_eq_iff a b : lex a b = Eq <-> Forall2 tok_same a b.
Proof. exact (lex_eq_iff a b). Qed.
Theorem c06_same_is_identical s t : wf_cmp s = true -> wf_cmp t = true -> tok_same s t ->
  s = t \/ (exists x y, kind s = kind t /\
             ((val s = VF32 x /\ val t = VF32 y /\ f32_key x = 0%Z /\ f32_key y = 0%Z) \/
              (val s = VF64 x /\ val t = VF64 y /\ f64_key x = 0%Z /\ f64_key y = 0%Z))).
Proof. exact (tok_same_wf s t). Qed.

(* a proper prefix sorts first *)
Theorem c06_prefix_first a b : b <> [] -> lex a (a ++ b) = Lt.
Proof. exact (lex_prefix a b). Qed.

(* "lexicographically, token by token": every pair of streams splits into a pairwise-same
   prefix and two rests; both rests empty: Eq; one empty: the shorter stream first; otherwise
   the heads of the rests differ and their order is the answer, WHATEVER follows them *)
Theorem c06_decomposition a b : lex_split a b (lex a b).
Proof. exact (lex_decomposition a b). Qed.
Theorem c06_split_decides a b c : lex_split a b c -> lex a b = c.
Proof. exact (lex_split_sound a b c). Qed.
Theorem c06_first_difference p q x y a b :
  Forall2 tok_same p q -> tok_ord x y <> Eq -> lex (p ++ x :: a) (q ++ y :: b) = tok_ord x y.
Proof. exact (lex_first_difference p q x y a b). Qed.
Theorem c06_tails_irrelevant p q x y a b a2 b2 :
  wfs (p ++ x :: a) -> wfs (q ++ y :: b) -> wfs (p ++ x :: a2) -> wfs (q ++ y :: b2) ->
  Forall2 tok_same p q -> tok_ord x y <> Eq ->
  cmp_tokens (p ++ x :: a) (q ++ y :: b) = Some (tok_ord x y) /\
  cmp_tokens (p ++ x :: a2) (q ++ y :: b2) = cmp_tokens (p ++ x :: a) (q ++ y :: b).
Proof. exact (cmp_tokens_first_difference p q x y a b a2 b2). Qed.

(* Min and Max sort strictly below and above every other value *)
Theorem c06_min_max t : wf_cmp t = true -> kind t <> KMin -> kind t <> KMax ->
  lex [T KMin VNone] [t] = Lt /\ lex [t] [T KMax VNone] = Lt.
Proof. exact (min_max t). Qed.

(* the edge of the domain, recorded so that nobody mistakes it for "all bit patterns":
   a float token whose PAYLOAD is a NaN is not equal to itself under Compare *)
Theorem c06_nan_payload_irreflexive : exists t, wf_token t = true /\ cmp_tokens [t] [t] = Some Gt.
Proof. exact nan_payload_irreflexive. Qed.

Print Assumptions c06_is_lex.
Print Assumptions c06_refl.
Print Assumptions c06_antisym.
Print Assumptions c06_trans.
Print Assumptions c06_trans_lt.
Print Assumptions c06_eq_iff.
Print Assumptions c06_same_is_identical.
Print Assumptions c06_prefix_first.
Print Assumptions c06_decomposition.
Print Assumptions c06_split_decides.
Print Assumptions c06_first_difference.
Print Assumptions c06_tails_irrelevant.
Print Assumptions c06_min_max.
Print Assumptions c06_nan_payload_irreflexive.
