(* C15 — Faults surface as errors at the point they occur. *)
From SbModel Require Import Model.Codec Model.Procs Spec.StreamSpec Spec.DecodeGrammar Proofs.CodecP Proofs.SinksP Proofs.StreamsP.
Local Open Scope nat_scope.

Local Open Scope nat_scope.
(* a writer failing at its k-th call: the error is reported, and exactly the first k-1 writes were accepted *)
Theorem c15_writer_fault k ws :
  let '(acc, failed) := write_until k ws in
  (failed = true <-> (1 <= k <= length ws)%nat) /\
  (failed = true -> acc = concat (firstn (k - 1) ws)) /\
  (failed = false -> acc = concat ws).
Proof. exact (write_until_spec k ws). Qed.

Local Open Scope nat_scope.
(* ... which is a prefix of the fault-free output *)
Theorem c15_writer_fault_prefix k ts :
  exists suffix, encode ts = fst (write_until k (stream_writes ts)) ++ suffix.
Proof. exact (writer_fault_prefix k ts). Qed.

Local Open Scope N_scope.
(* a reader that fails after k bytes never yields a clean end of stream *)
Theorem c15_reader_fault_never_done maxlen bs off :
  snd (decode_all (S (length bs)) maxlen true bs off) <> Done.
Proof. exact (fault_never_done maxlen bs off). Qed.

Local Open Scope N_scope.
Theorem c15_reader_fault_never_done_cmp maxlen bs off :
  snd (decode_cmp_all (S (length bs)) maxlen true bs off) <> Done.
Proof. exact (fault_never_done_cmp maxlen bs off). Qed.

Local Open Scope N_scope.
(* the tokens delivered before the fault are those of the fault-free decoding of the same bytes (nothing fabricated) *)
Theorem c15_reader_fault_tokens maxlen bs off :
  fst (decode_all (S (length bs)) maxlen true bs off) =
  fst (decode_all (S (length bs)) maxlen false bs off).
Proof. exact (fault_tokens_same maxlen bs off). Qed.

Local Open Scope N_scope.
(* the decode error carries an in-range offset *)
Theorem c15_reader_fault_offset maxlen fault bs off ts e o :
  decode_all (S (length bs)) maxlen fault bs off = (ts, Fail e o) -> off <= o <= off + lenN bs.
Proof. exact (fail_offset_in_range maxlen fault bs off ts e o). Qed.

Local Open Scope N_scope.
Theorem c15_reader_fault_offset_cmp maxlen fault bs off ts e o :
  decode_cmp_all (S (length bs)) maxlen fault bs off = (ts, Fail e o) -> off <= o <= off + lenN bs.
Proof. exact (fail_offset_in_range_cmp maxlen fault bs off ts e o). Qed.

Local Open Scope nat_scope.
(* a source failing at token k under Copy: the error is the injected one, every sink saw a prefix of its fault-free log, and no end-of-stream signal is delivered *)
Theorem c15_source_fault_copy ts sinks e :
  (forall s, In s sinks -> is_rec_or_nil s = true) ->
  NoDup (flat_map (fun s => match rec_id s with Some i => [i] | None => [] end) sinks) ->
  (exists id l, In (SRec id l) sinks /\ outlives (length ts) l) ->
  exists n, forall fuel, n <= fuel ->
    let r := copy fuel (Some (PTokens ts (PFail e))) sinks [] 0 in
    cr_err r = e /\ cr_pulls r = length ts /\
    (forall id l, In (SRec id l) sinks ->
       log_of id (cr_log r) = map Some (firstn (needs (length ts) (SRec id l)) ts) /\
       ~ In None (log_of id (cr_log r)) /\
       exists q, expected ts l = log_of id (cr_log r) ++ q).
Proof. exact (copy_source_fault ts sinks e). Qed.

Local Open Scope nat_scope.
(* a sink failing at its k-th call under Copy: Copy returns the error, the failing sink was called exactly k times, every other sink saw a prefix of its fault-free log *)
Theorem c15_sink_fault_copy ts recs fid k :
  (forall s, In s recs -> is_rec_or_nil s = true) ->
  NoDup (fid :: flat_map (fun s => match rec_id s with Some i => [i] | None => [] end) recs) ->
  1 <= k <= length ts + 1 ->
  exists n, forall fuel, n <= fuel ->
    let r := copy fuel (Some (PTokens ts PNil)) (recs ++ [SFail fid k]) [] 0 in
    cr_err r = EFault /\
    log_of fid (cr_log r) = firstn k (calls_of ts) /\ length (log_of fid (cr_log r)) = k /\
    (forall id l, In (SRec id l) recs -> exists q, expected ts l = log_of id (cr_log r) ++ q).
Proof. exact (copy_sink_fault ts recs fid k). Qed.

Local Open Scope nat_scope.
(* through every stream combinator: what is emitted before a fault is a prefix of the fault-free output *)
Theorem c15_stream_fault_prefix p :
  is_prefix (fst (den p)) (fst (den (heal p))).
Proof. exact (den_fault_prefix p). Qed.

Local Open Scope nat_scope.
(* a fault is never turned into a clean end of stream: if the stream ends cleanly it is the fault-free stream *)
Theorem c15_clean_end_means_no_fault p :
  snd (den p) = ENone -> den p = den (heal p).
Proof. exact (den_clean_means_no_fault p). Qed.

Local Open Scope nat_scope.
Theorem c15_fail_iter s c e :
  snd (den s) = e -> e <> ENone -> den (PIterStream s c) = (fst (den s), e).
Proof. exact (den_fail_iter s c e). Qed.

Local Open Scope nat_scope.
Theorem c15_fail_tee s k c e :
  snd (den s) = e -> e <> ENone -> den (PTee s k c) = (fst (den s), e).
Proof. exact (den_fail_tee s k c e). Qed.

Local Open Scope nat_scope.
Theorem c15_fail_filter s pr c e :
  snd (den s) = e -> e <> ENone -> den (PFilter s pr c) = (filter (holds pr) (fst (den s)), e).
Proof. exact (den_fail_filter s pr c e). Qed.

Local Open Scope nat_scope.
Theorem c15_fail_concat pre s post e :
  Forall (fun a => snd (den a) = ENone) pre -> snd (den s) = e -> e <> ENone ->
  den (PConcat (pre ++ s :: post)) = (flat_map (fun a => fst (den a)) pre ++ fst (den s), e).
Proof. exact (den_fail_concat pre s post e). Qed.

Local Open Scope nat_scope.
Theorem c15_fail_deref s res c e :
  snd (den s) = e -> e <> ENone -> snd (deref_list res (fst (den s))) = ENone ->
  den (PDeref s res c) = (fst (deref_list res (fst (den s))), e).
Proof. exact (den_fail_deref s res c e). Qed.

Local Open Scope nat_scope.
Theorem c15_run_fail_propagates p e :
  tame p = true -> real_faults p = true -> snd (den p) = e ->
  exists n, forall fuel, n <= fuel -> snd (fst (run fuel p)) = e.
Proof. exact (run_fail_propagates p e). Qed.

Print Assumptions c15_writer_fault.
Print Assumptions c15_writer_fault_prefix.
Print Assumptions c15_reader_fault_never_done.
Print Assumptions c15_reader_fault_never_done_cmp.
Print Assumptions c15_reader_fault_tokens.
Print Assumptions c15_reader_fault_offset.
Print Assumptions c15_reader_fault_offset_cmp.
Print Assumptions c15_source_fault_copy.
Print Assumptions c15_sink_fault_copy.
Print Assumptions c15_stream_fault_prefix.
Print Assumptions c15_clean_end_means_no_fault.
Print Assumptions c15_fail_iter.
Print Assumptions c15_fail_tee.
Print Assumptions c15_fail_filter.
Print Assumptions c15_fail_concat.
Print Assumptions c15_fail_deref.
Print Assumptions c15_run_fail_propagates.
