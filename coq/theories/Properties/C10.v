(* C10 — Reference substitution preserves hashes; dereferencing restores streams. *)
From SbModel Require Import Model.Hash Model.Tree Spec.TreeSpec Proofs.HashP Proofs.TreeP.
Local Open Scope N_scope.

(* replacing any set of disjoint sub-values (given by the stream indices of their first
   tokens; a selected node is not descended into) by reference tokens carrying their hashes
   leaves the hash of every enclosing value, including the root, unchanged *)
Theorem c10_subst_hash H sel i v : mhash H (subst_at H sel i v) = mhash H v.
Proof. exact (subst_hash H sel i v). Qed.

Theorem c10_subst_stream_hash H sel i v : wf_value v = true -> (forall x, wf_bytes (H x)) ->
  hash_result H (flatten (subst_at H sel i v)) = inl (mhash H v).
Proof. exact (subst_then_hash H sel i v). Qed.

(* the mapping iterator over the hashed tree produces exactly that substituted stream *)
Theorem c10_iterfunc_is_subst H sel i v : (forall j, In j sel -> ~ In j (end_indices i v)) ->
  iter_func (ref_fn sel) (full_tree H i v) = flatten (subst_at H sel i v).
Proof. exact (iter_func_subst H sel i v). Qed.

(* dereferencing with a resolver that returns the original sub-streams restores the stream *)
Theorem c10_deref_restores H resolve sel i v : wf_value v = true -> ref_free v = true ->
  (forall j s, In (j, s) (selected sel i v) -> resolve (mhash H s) = RStream (flatten s)) ->
  deref resolve (flatten (subst_at H sel i v)) = (flatten v, ENone).
Proof. exact (deref_restores_partial H resolve sel i v). Qed.

(* references the resolver declines are passed through unchanged *)
Theorem c10_declined_pass_through resolve ts : (forall h, resolve h = RDecline) ->
  (forall t, In t ts -> wf_token t = true) -> deref resolve ts = (ts, ENone).
Proof. exact (deref_declined_partial resolve ts). Qed.

(* resolver errors are reported, after exactly the tokens before the failing reference *)
Theorem c10_resolver_error resolve pre h post : (forall t, In t pre -> kind t <> KRef) -> resolve h = RFail ->
  deref resolve (pre ++ T KRef (VBytes h) :: post) = (pre, EFault).
Proof. exact (deref_error resolve pre h post). Qed.

Print Assumptions c10_subst_hash.
Print Assumptions c10_subst_stream_hash.
Print Assumptions c10_iterfunc_is_subst.
Print Assumptions c10_deref_restores.
Print Assumptions c10_declined_pass_through.
Print Assumptions c10_resolver_error.
