(* C03 — Wire format conforms to the fixed layout and does not drift. *)
From SbModel Require Import Model.Codec Spec.WireGrammar Proofs.CodecP.
Local Open Scope N_scope.

(* the bytes of a token are exactly the layout stated in Spec/WireGrammar.v *)
Theorem c03_layout t : wf_token t = true ->
  match val t with VStr s | VBytes s => lenN s < 2 ^ 64 | _ => True end ->
  layout_token t (encode_token t).
Proof. exact (encode_layout t). Qed.

(* the layout pins the bytes: any two byte strings meeting it are equal, so the encoder is
   a pure function of the token (no room for drift across runs, writers, scratch buffers) *)
Theorem c03_layout_unique t b1 b2 : layout_token t b1 -> layout_token t b2 -> b1 = b2.
Proof. exact (layout_token_unique t b1 b2). Qed.

Theorem c03_stream_layout ts :
  Forall (fun t => wf_token t = true /\ match val t with VStr s | VBytes s => lenN s < 2 ^ 64 | _ => True end) ts ->
  layout_stream ts (encode ts).
Proof. exact (encode_layout_stream ts). Qed.

(* the kind numbering the model (and every theorem about order and layout) uses is the frozen one;
   Gen/ConstsOK.v re-checks on every run that the built package has the same numbers *)
Theorem c03_kinds_frozen : model_consts = frozen_kinds.
Proof. reflexivity. Qed.

Print Assumptions c03_layout.
Print Assumptions c03_layout_unique.
Print Assumptions c03_stream_layout.
Print Assumptions c03_kinds_frozen.
