(* C14 — Copy, tee and sink combinators deliver each token exactly once, in order. *)
From SbModel Require Import Model.Procs Spec.StreamSpec Proofs.SinksP Proofs.StreamsP.
Local Open Scope nat_scope.

(* each recording sink observes, in order and exactly once each, the tokens pulled while it is live and - if still live once the source is drained - a single end-of-stream signal; nobody else observes anything *)
Theorem c14_copy_delivery ts sinks :
  (forall s, In s sinks -> is_rec_or_nil s = true) ->
  NoDup (flat_map (fun s => match rec_id s with Some i => [i] | None => [] end) sinks) ->
  exists n, forall fuel, n <= fuel ->
    let r := copy fuel (Some (PTokens ts PNil)) sinks [] 0 in
    cr_err r = ENone /\
    (forall id l, In (SRec id l) sinks ->
       map snd (filter (fun d => Nat.eqb (fst d) id) (cr_log r)) = expected ts l) /\
    (forall d, In d (cr_log r) -> exists l, In (SRec (fst d) l) sinks).
Proof. exact (copy_delivery ts sinks). Qed.

(* the source is never pulled beyond what the longest-lived consumer needs (with only nil sinks Copy fetches one token before it notices; with no sinks nothing) *)
Theorem c14_copy_pulls ts sinks :
  (forall s, In s sinks -> is_rec_or_nil s = true) ->
  NoDup (flat_map (fun s => match rec_id s with Some i => [i] | None => [] end) sinks) ->
  exists n, forall fuel, n <= fuel ->
    cr_pulls (copy fuel (Some (PTokens ts PNil)) sinks [] 0) =
    match sinks with
    | [] => 0
    | _ => if forallb is_nil sinks then Nat.min 1 (length ts) else needed (length ts) sinks
    end.
Proof. exact (copy_pulls ts sinks). Qed.

Theorem c14_copy_no_sinks fuel src lg p :
  1 <= fuel -> copy fuel src [] lg p = CR ENone lg p.
Proof. exact (copy_no_sinks fuel src lg p). Qed.

(* a filtered sink receives exactly the matching tokens (and the end-of-stream signal) *)
Theorem c14_filter_sink id p ts :
  sink_run (SFilter (SRec id ToEnd) p) (calls_of ts) [] =
  SRDone (map (fun t => (id, Some t)) (filter (holds p) ts) ++ [(id, None)]) [].
Proof. exact (filter_sink id p ts). Qed.

(* sequenced sinks receive consecutive values one after another *)
Theorem c14_concat_sinks a k b l ts :
  1 <= k <= length ts ->
  exists rest,
    sink_run (mk_concat [SRec a (Fin k); SRec b l]) (calls_of ts) [] =
    SRDone (map (fun t => (a, Some t)) (firstn k ts) ++
            map (fun c => (b, c)) (expected (skipn k ts) l)) rest.
Proof. exact (concat_sinks_seq a k b l ts). Qed.

Theorem c14_concat_sinks_nary b l :
  forall specs ts lg, fits specs ts ->
  exists rest,
    sink_run (mk_concat (map (fun s => SRec (fst s) (Fin (snd s))) specs ++ [SRec b l])) (calls_of ts) lg =
    SRDone (lg ++ fst (chunks specs ts) ++ map (fun c => (b, c)) (expected (snd (chunks specs ts)) l)) rest.
Proof. exact (concat_sinks_nary b l). Qed.

(* an alternative sink succeeds iff at least one alternative accepts the stream *)
Theorem c14_alt_sink alts ts :
  alts <> [] -> (forall a, In a alts -> is_nil a = false) ->
  (sink_ok (SAlt alts) ts <-> exists a, In a alts /\ sink_ok a ts).
Proof. exact (alt_sink alts ts). Qed.

(* the documented edge: AltSink() with no alternatives accepts everything *)
Theorem c14_alt_empty_accepts ts :
  sink_ok (SAlt []) ts.
Proof. exact (alt_empty_accepts ts). Qed.

(* the single-value collector gathers exactly the first complete value ... *)
Theorem c14_collect_value id v rest :
  wf_value v = true ->
  sink_run (SCollectValue id []) (map Some (flatten v) ++ rest) [] =
  SRDone (map (fun t => (id, Some t)) (flatten v)) rest.
Proof. exact (collect_value id v rest). Qed.

(* ... and rejects unbalanced input *)
Theorem c14_collect_value_stray_end id t rest :
  is_end_kind (kind t) = true ->
  sink_run (SCollectValue id []) (Some t :: rest) [] = SRErr EUnexpEndTok [(id, Some t)].
Proof. exact (collect_value_stray_end id t rest). Qed.

Theorem c14_collect_value_unclosed id ko kc items :
  wf_value (Comp ko kc items) = true ->
  sink_run (SCollectValue id []) (map Some (T ko VNone :: flat_map flatten items) ++ [None]) [] =
  SRErr EEnd (map (fun t => (id, Some t)) (T ko VNone :: flat_map flatten items)).
Proof. exact (collect_value_unclosed id ko kc items). Qed.

(* Tee side sinks see what the consumer pulls; the stream itself is unchanged *)
Theorem c14_tee_transparent s sinks :
  tame (PTee s sinks PNil) = true -> real_faults s = true ->
  exists n, forall fuel, n <= fuel ->
    let '(ts, e, _) := run fuel (PTee s sinks PNil) in (ts, e) = den s.
Proof. exact (run_tee_transparent s sinks). Qed.

Print Assumptions c14_copy_delivery.
Print Assumptions c14_copy_pulls.
Print Assumptions c14_copy_no_sinks.
Print Assumptions c14_filter_sink.
Print Assumptions c14_concat_sinks.
Print Assumptions c14_concat_sinks_nary.
Print Assumptions c14_alt_sink.
Print Assumptions c14_alt_empty_accepts.
Print Assumptions c14_collect_value.
Print Assumptions c14_collect_value_stray_end.
Print Assumptions c14_collect_value_unclosed.
Print Assumptions c14_tee_transparent.
