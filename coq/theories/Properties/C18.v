(* C18 — Marshalling always terminates: cycles are errors, depth is not.
   Model/Heap.v mirrors the indirection bookkeeping of MarshalValue over heaps of pointers,
   interfaces, slices and maps (depth counter, detection switched on at the threshold, the
   visited list carried BY VALUE in the context, hence per path). *)
From Coq Require Import List NArith Lia.
From SbModel Require Import Model.Heap Proofs.HeapP.
Import ListNotations.

(* marshalling ANY heap from ANY root terminates: a fuel that depends only on the threshold
   and the number of heap cells always suffices (OutOfFuel excluded in the conclusion) *)
Theorem c18_terminates h root : marshal_heap h root <> HOutOfFuel.
Proof. exact (marshal_heap_terminates h root). Qed.

Theorem c18_terminates_any_threshold THRESH h root : (0 < THRESH)%N ->
  mar THRESH (N.to_nat THRESH + length h + 2) h hctx0 root <> HOutOfFuel.
Proof. intros Hpos. exact (mar_terminates THRESH Hpos h root). Qed.

(* a reference that is already on the current path (once detection is on) is the
   cyclic-pointer error - for pointers, slices and maps alike ... *)
Theorem c18_revisit_is_cyclic THRESH c a :
  detect (deeper THRESH c) = true -> In a (visited c) -> enter THRESH c a = None.
Proof. exact (enter_revisit THRESH c a). Qed.

(* ... and only then *)
Theorem c18_cyclic_only_on_revisit THRESH c a :
  enter THRESH c a = None -> detect (deeper THRESH c) = true /\ In a (visited c).
Proof. exact (enter_none THRESH c a). Qed.

(* acyclic values of ANY nesting depth marshal successfully; sub-objects shared by several
   paths are not cycles (ranked = every reference leads to a strictly smaller rank) *)
Theorem c18_acyclic_ok h rk root :
  ranked rk h -> (forall b, In b (refs root) -> In b (dom h)) ->
  exists ks, marshal_heap h root = HOk ks.
Proof. exact (marshal_heap_acyclic_ok h rk root). Qed.

Print Assumptions c18_terminates.
Print Assumptions c18_terminates_any_threshold.
Print Assumptions c18_revisit_is_cyclic.
Print Assumptions c18_cyclic_only_on_revisit.
Print Assumptions c18_acyclic_ok.
