(* C16 — Struct decoding tolerates schema evolution as configured.  Skip-empty clause (Proofs/SkipEmptyP.v): se_opts = skip-empty on; empty_field ft x = is_zero ft x || (ft is a slice type and x has length 0) is the marshaller's own test (is_zero mirrors reflect.Value.IsZero: -0.0 IS zero); kept_fields = the exported, non-empty fields in declaration order; fields_stream = their name tokens each followed by the field's own stream; normal_se = normal with every omitted field (at every depth) replaced by the zero of its type; deq = deep equality that identifies +0.0/-0.0, NaNs, and nil/empty containers. *)
From SbModel Require Import Model.Marshal Model.Unmarshal Spec.Conform Proofs.MarshalP Proofs.UnmarshalP Proofs.SkipEmptyP.
Local Open Scope nat_scope.

(* data written by one version of a struct type is readable by another that shares field names: fields are assigned by exact name regardless of their order, absent fields are left untouched, unknown fields are skipped whatever they carry (maps, interfaces, funcs included).  Common fields must have the same type, taken from the round-trip universe, and start from zero content (by_name_refuted: unmarshalling MERGES into non-zero targets) *)
Theorem c16_by_name pf o R W Rt wfs rfs wvals rvals ts rest :
  strict o = false ->
  underlying W = TStruct wfs -> underlying Rt = TStruct rfs ->
  wf_ty W = true -> wf_ty Rt = true ->
  has_type W (GStruct wvals) = true ->
  length rvals = length rfs ->
  marshal default_opts W (GStruct wvals) = Ok ts ->
  (forall wf wv i ft, In (wf, wv) (combine wfs wvals) -> fexported wf = true ->
     find_field (fname wf) rfs 0 = Some (i, ft) ->
     ft = snd wf /\ nth i rvals (zero ft) = zero ft /\
     simple_ty ft = true /\ no_ptr_to_nil wv = true) ->
  exists f, unm pf f o R Rt (GStruct rvals) (ts ++ rest)
            = Ok (GStruct (assign_by_name wfs rfs wvals rvals), rest).
Proof. exact (by_name_partial pf o R W Rt wfs rfs wvals rvals ts rest). Qed.

Theorem c16_by_name_fuel pf o R W Rt wfs rfs wvals rvals ts rest f :
  strict o = false ->
  underlying W = TStruct wfs -> underlying Rt = TStruct rfs ->
  wf_ty W = true -> wf_ty Rt = true ->
  has_type W (GStruct wvals) = true ->
  length rvals = length rfs ->
  marshal default_opts W (GStruct wvals) = Ok ts ->
  (forall wf wv i ft, In (wf, wv) (combine wfs wvals) -> fexported wf = true ->
     find_field (fname wf) rfs 0 = Some (i, ft) ->
     ft = snd wf /\ nth i rvals (zero ft) = zero ft /\
     simple_ty ft = true /\ no_ptr_to_nil wv = true) ->
  (2 * vsize (GStruct wvals) < f)%nat ->
  unm pf f o R Rt (GStruct rvals) (ts ++ rest) = Ok (GStruct (assign_by_name wfs rfs wvals rvals), rest).
Proof. exact (by_name_fuel pf o R W Rt wfs rfs wvals rvals ts rest f). Qed.

(* in strict mode an unknown field is an error ... *)
Theorem c16_strict_unknown_rejected pf f o R g fs depr vals name rest :
  strict o = true -> find_field name fs 0 = None -> existsb (bytes_eqb name) depr = false ->
  struct_loop o (unm pf (S f) o R) (S g) fs depr vals (T KString (VStr name) :: rest) = Err EUnknownField.
Proof. exact (strict_unknown_rejected_loop pf f o R g fs depr vals name rest). Qed.

(* ... unless the target type declares it deprecated *)
Theorem c16_strict_deprecated_skipped pf f o R g fs depr vals name ot wt wv a rest :
  find_field name fs 0 = None -> existsb (bytes_eqb name) depr = true ->
  marshal ot wt wv = Ok a ->
  struct_loop o (unm pf (S f) o R) (S g) fs depr vals (T KString (VStr name) :: a ++ rest)
  = struct_loop o (unm pf (S f) o R) g fs depr vals rest.
Proof. exact (strict_deprecated_skipped pf f o R g fs depr vals name ot wt wv a rest). Qed.

Theorem c16_unknown_skipped pf f o R g fs depr vals name ot wt wv a rest :
  strict o = false -> find_field name fs 0 = None ->
  marshal ot wt wv = Ok a ->
  struct_loop o (unm pf (S f) o R) (S g) fs depr vals (T KString (VStr name) :: a ++ rest)
  = struct_loop o (unm pf (S f) o R) g fs depr vals rest.
Proof. exact (unknown_field_skipped pf f o R g fs depr vals name ot wt wv a rest). Qed.

(* every marshalled value is exactly one skippable unit *)
Theorem c16_skip_is_structural o t v ts rest :
  marshal o t v = Ok ts -> skip_value 0 (ts ++ rest) = Ok rest.
Proof. exact (marshal_skip o t v ts rest). Qed.

(* the edge: a reader that already holds data is merged into, not overwritten *)
Theorem c16_merge_edge  :
  exists pf o R W Rt wfs rfs wvals rvals ts,
    strict o = false /\ underlying W = TStruct wfs /\ underlying Rt = TStruct rfs /\
    wf_ty W = true /\ wf_ty Rt = true /\ simple_ty Rt = true /\
    has_type W (GStruct wvals) = true /\ has_type Rt (GStruct rvals) = true /\
    no_ptr_to_nil (GStruct wvals) = true /\ no_ptr_to_nil (GStruct rvals) = true /\
    (forall wf wv i ft, In (wf, wv) (combine wfs wvals) -> fexported wf = true ->
       find_field (fname wf) rfs 0 = Some (i, ft) ->
       ft = snd wf /\ simple_ty ft = true /\ no_ptr_to_nil wv = true) /\
    marshal default_opts W (GStruct wvals) = Ok ts /\
    forall f, unm pf f o R Rt (GStruct rvals) (ts ++ []) <> Ok (GStruct (assign_by_name wfs rfs wvals rvals), []).
Proof. exact (by_name_refuted ). Qed.

Local Open Scope N_scope.
(* with empty-field skipping the marshaller omits EXACTLY the zero-valued fields and empty slices: the stream is Object, the kept fields (filter) in declaration order, ObjectEnd *)
Theorem c16_skip_empty_fields_exact t fs vals :
  underlying t = TStruct fs ->
  marshal se_opts t (GStruct vals) =
  bind (fields_stream se_opts
          (filter (fun p => fexported (fst p) && negb (empty_field (ftype (fst p)) (snd p))) (combine fs vals)))
       (fun body => Ok (reg_prefix t ++ T KObject VNone :: body ++ [T KObjectEnd VNone])).
Proof. exact (skip_empty_fields_exact t fs vals). Qed.

Local Open Scope N_scope.
(* what 'kept' means, field by field *)
Theorem c16_kept_fields_spec fs vals fd x :
  In (fd, x) (kept_fields se_opts fs vals) <->
  In (fd, x) (combine fs vals) /\ fexported fd = true /\
  is_zero (ftype fd) x = false /\ (is_slice_kind (ftype fd) && Nat.eqb (glen x) 0) = false.
Proof. exact (kept_fields_spec fs vals fd x). Qed.

Local Open Scope N_scope.
(* without the option every exported field is emitted *)
Theorem c16_noskip_all_fields o t fs vals :
  skip_empty o = false -> underlying t = TStruct fs ->
  marshal o t (GStruct vals) =
  bind (fields_stream o (filter (fun p => fexported (fst p)) (combine fs vals)))
       (fun body => Ok (reg_prefix t ++ T KObject VNone :: body ++ [T KObjectEnd VNone])).
Proof. exact (noskip_all_exported_fields o t fs vals). Qed.

(* the shortened stream still round-trips to an equivalent value (option applied at every depth: nested structs behind slices, arrays, pointers) *)
Theorem c16_skip_empty_roundtrip pf o R t v ts rest :
  wf_ty t = true -> simple_ty t = true ->
  has_type t v = true -> no_ptr_to_nil v = true ->
  marshal se_opts t v = Ok ts ->
  exists f v', unm pf f o R t (zero t) (ts ++ rest) = Ok (v', rest) /\
               v' = normal_se t v /\ deq v' (normal t v) = true.
Proof. exact (skip_empty_roundtrip pf o R t v ts rest). Qed.

(* with an explicit fuel bound *)
Theorem c16_skip_empty_roundtrip_fuel pf o R t v ts rest f :
  wf_ty t = true -> simple_ty t = true ->
  has_type t v = true -> no_ptr_to_nil v = true ->
  marshal se_opts t v = Ok ts -> (2 * vsize v < f)%nat ->
  unm pf f o R t (zero t) (ts ++ rest) = Ok (normal_se t v, rest) /\
  deq (normal_se t v) (normal t v) = true.
Proof. exact (skip_empty_roundtrip_fuel pf o R t v ts rest f). Qed.

Local Open Scope N_scope.
(* what comes back is deeply equal (deq) to what the full stream gives *)
Theorem c16_normal_se_equiv t v :
  has_type t v = true -> deq (normal_se t v) (normal t v) = true.
Proof. exact (normal_se_equiv t v). Qed.

Local Open Scope N_scope.
(* non-vacuity: struct{A int; B []bool; C float64; D struct{X int32; Y []string}; E string} = {0, []bool{}, -0.0, {0, nil}, "hi"} *)
Theorem c16_skip_empty_example_hyps  :
  wf_ty Ex5 = true /\ simple_ty Ex5 = true /\ has_type Ex5 ex5_v = true /\ no_ptr_to_nil ex5_v = true.
Proof. exact (ex5_hyps ). Qed.

Local Open Scope N_scope.
(* only E is kept *)
Theorem c16_skip_empty_example_kept  :
  kept_fields se_opts Ex5fs ex5_vals = [(([69], true, TString), GStr [104; 105])].
Proof. exact (ex5_kept ). Qed.

Local Open Scope N_scope.
(* and it reads back with C = +0.0, B = nil *)
Theorem c16_skip_empty_example_roundtrip pf o R rest :
  exists f v',
    unm pf f o R Ex5 (zero Ex5)
        ([T KObject VNone; T KString (VStr [69]); T KString (VStr [104; 105]); T KObjectEnd VNone] ++ rest) = Ok (v', rest) /\
    v' = GStruct [GInt 0; GList true []; GF64 0; GStruct [GInt 0; GList true []]; GStr [104; 105]] /\
    deq v' (normal Ex5 ex5_v) = true.
Proof. exact (ex5_thm pf o R rest). Qed.

Local Open Scope N_scope.
(* the edge: the theorem is about a ZERO target; an omitted field keeps whatever a non-zero target held *)
Theorem c16_skip_empty_merge_edge  :
  unm (fun _ _ => None) 20 default_opts [] Ex5
      (GStruct [GInt 7; GList true []; GF64 4607182418800017408; GStruct [GInt 0; GList true []]; GStr []])
      [T KObject VNone; T KString (VStr [69]); T KString (VStr [104; 105]); T KObjectEnd VNone]
  = Ok (GStruct [GInt 7; GList true []; GF64 4607182418800017408; GStruct [GInt 0; GList true []]; GStr [104; 105]], []).
Proof. exact (skip_empty_merge_edge ). Qed.

Print Assumptions c16_by_name.
Print Assumptions c16_by_name_fuel.
Print Assumptions c16_strict_unknown_rejected.
Print Assumptions c16_strict_deprecated_skipped.
Print Assumptions c16_unknown_skipped.
Print Assumptions c16_skip_is_structural.
Print Assumptions c16_merge_edge.
Print Assumptions c16_skip_empty_fields_exact.
Print Assumptions c16_kept_fields_spec.
Print Assumptions c16_noskip_all_fields.
Print Assumptions c16_skip_empty_roundtrip.
Print Assumptions c16_skip_empty_roundtrip_fuel.
Print Assumptions c16_normal_se_equiv.
Print Assumptions c16_skip_empty_example_hyps.
Print Assumptions c16_skip_empty_example_kept.
Print Assumptions c16_skip_empty_example_roundtrip.
Print Assumptions c16_skip_empty_merge_edge.

(* ---- a target that already holds data (a reader value recycled between messages): what a slice held before the
   call influences the result only as a prefix; the appended elements are the ones a fresh target receives, so
   fields the stream omits are zero in them whatever the previous message left behind (Proofs/RecycledP.v; the
   harness hands the model recycled targets: slices cut back to length 0 after a first message) ---- *)
From SbModel Require Import Proofs.UnmarshalP Proofs.RecycledP.

Theorem c16_slice_target_appends : forall pf f o R t e nb old tk rest,
  underlying t = TSlice e -> kind tk = KArray ->
  unm pf f o R t (GList nb old) (tk :: rest) =
  match unm pf f o R t (GList true []) (tk :: rest) with
  | Ok (GList _ vs, rest') =>
      Ok (GList (nb && match old ++ vs with [] => true | _ => false end) (old ++ vs), rest')
  | Ok (v, rest') => Ok (v, rest')          (* unreachable: unm_slice_array_shape *)
  | Err e => Err e
  | OutOfFuel => OutOfFuel
  end.
Proof. exact unm_slice_appends. Qed.

Theorem c16_slice_target_recycled : forall pf f o R t e tk rest,
  underlying t = TSlice e -> kind tk = KArray ->
  unm pf f o R t (GList false []) (tk :: rest) =
  match unm pf f o R t (GList true []) (tk :: rest) with
  | Ok (GList _ vs, rest') => Ok (GList false vs, rest')
  | Ok (v, rest') => Ok (v, rest')          (* unreachable: unm_slice_array_shape *)
  | Err e => Err e
  | OutOfFuel => OutOfFuel
  end.
Proof. exact unm_slice_recycled. Qed.

(* a Bytes token REPLACES what a byte slice held *)
Theorem c16_bytes_token_replaces : forall pf f o R t cur tk s rest,
  kind tk = KBytes -> val tk = VBytes s -> underlying t = TBytes ->
  unm pf (S f) o R t cur (tk :: rest) = Ok (GBytes false s, rest).
Proof. exact unm_bytes_token_replaces. Qed.

Print Assumptions c16_slice_target_appends.
Print Assumptions c16_slice_target_recycled.
Print Assumptions c16_bytes_token_replaces.
