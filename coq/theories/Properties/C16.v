(* C16 — Struct decoding tolerates schema evolution as configured. *)
From SbModel Require Import Model.Marshal Model.Unmarshal Spec.Conform Proofs.MarshalP Proofs.UnmarshalP.
Local Open Scope nat_scope.

(* data written by one version of a struct type is readable by another that shares field names: fields are assigned by exact name regardless of their order, absent fields are left untouched, unknown fields are skipped whatever they carry (maps, interfaces, funcs included).  Common fields must have the same type, taken from the round-trip universe, and start from zero content (by_name_refuted: unmarshalling MERGES into non-zero targets) *)
Theorem c16_by_name pf o R W Rt wfs rfs wvals rvals ts rest :
  strict o = false ->
  underlying W = TStruct wfs -> underlying Rt = TStruct rfs ->
  wf_ty W = true -> wf_ty Rt = true ->
  has_type W (GStruct wvals) = true ->
  length rvals = length rfs ->
  marshal default_opts W (GStruct wvals) = Ok ts ->
  (forall wf wv i ft, In (wf, wv) (combine wfs wvals) -> fexported wf = true ->
     find_field (fname wf) rfs 0 = Some (i, ft) ->
     ft = snd wf /\ nth i rvals (zero ft) = zero ft /\
     simple_ty ft = true /\ no_ptr_to_nil wv = true) ->
  exists f, unm pf f o R Rt (GStruct rvals) (ts ++ rest)
            = Ok (GStruct (assign_by_name wfs rfs wvals rvals), rest).
Proof. exact (by_name_partial pf o R W Rt wfs rfs wvals rvals ts rest). Qed.

Theorem c16_by_name_fuel pf o R W Rt wfs rfs wvals rvals ts rest f :
  strict o = false ->
  underlying W = TStruct wfs -> underlying Rt = TStruct rfs ->
  wf_ty W = true -> wf_ty Rt = true ->
  has_type W (GStruct wvals) = true ->
  length rvals = length rfs ->
  marshal default_opts W (GStruct wvals) = Ok ts ->
  (forall wf wv i ft, In (wf, wv) (combine wfs wvals) -> fexported wf = true ->
     find_field (fname wf) rfs 0 = Some (i, ft) ->
     ft = snd wf /\ nth i rvals (zero ft) = zero ft /\
     simple_ty ft = true /\ no_ptr_to_nil wv = true) ->
  (2 * vsize (GStruct wvals) < f)%nat ->
  unm pf f o R Rt (GStruct rvals) (ts ++ rest) = Ok (GStruct (assign_by_name wfs rfs wvals rvals), rest).
Proof. exact (by_name_fuel pf o R W Rt wfs rfs wvals rvals ts rest f). Qed.

(* in strict mode an unknown field is an error ... *)
Theorem c16_strict_unknown_rejected pf f o R g fs depr vals name rest :
  strict o = true -> find_field name fs 0 = None -> existsb (bytes_eqb name) depr = false ->
  struct_loop o (unm pf (S f) o R) (S g) fs depr vals (T KString (VStr name) :: rest) = Err EUnknownField.
Proof. exact (strict_unknown_rejected_loop pf f o R g fs depr vals name rest). Qed.

(* ... unless the target type declares it deprecated *)
Theorem c16_strict_deprecated_skipped pf f o R g fs depr vals name ot wt wv a rest :
  find_field name fs 0 = None -> existsb (bytes_eqb name) depr = true ->
  marshal ot wt wv = Ok a ->
  struct_loop o (unm pf (S f) o R) (S g) fs depr vals (T KString (VStr name) :: a ++ rest)
  = struct_loop o (unm pf (S f) o R) g fs depr vals rest.
Proof. exact (strict_deprecated_skipped pf f o R g fs depr vals name ot wt wv a rest). Qed.

Theorem c16_unknown_skipped pf f o R g fs depr vals name ot wt wv a rest :
  strict o = false -> find_field name fs 0 = None ->
  marshal ot wt wv = Ok a ->
  struct_loop o (unm pf (S f) o R) (S g) fs depr vals (T KString (VStr name) :: a ++ rest)
  = struct_loop o (unm pf (S f) o R) g fs depr vals rest.
Proof. exact (unknown_field_skipped pf f o R g fs depr vals name ot wt wv a rest). Qed.

(* every marshalled value is exactly one skippable unit *)
Theorem c16_skip_is_structural o t v ts rest :
  marshal o t v = Ok ts -> skip_value 0 (ts ++ rest) = Ok rest.
Proof. exact (marshal_skip o t v ts rest). Qed.

(* the edge: a reader that already holds data is merged into, not overwritten *)
Theorem c16_merge_edge  :
  exists pf o R W Rt wfs rfs wvals rvals ts,
    strict o = false /\ underlying W = TStruct wfs /\ underlying Rt = TStruct rfs /\
    wf_ty W = true /\ wf_ty Rt = true /\ simple_ty Rt = true /\
    has_type W (GStruct wvals) = true /\ has_type Rt (GStruct rvals) = true /\
    no_ptr_to_nil (GStruct wvals) = true /\ no_ptr_to_nil (GStruct rvals) = true /\
    (forall wf wv i ft, In (wf, wv) (combine wfs wvals) -> fexported wf = true ->
       find_field (fname wf) rfs 0 = Some (i, ft) ->
       ft = snd wf /\ simple_ty ft = true /\ no_ptr_to_nil wv = true) /\
    marshal default_opts W (GStruct wvals) = Ok ts /\
    forall f, unm pf f o R Rt (GStruct rvals) (ts ++ []) <> Ok (GStruct (assign_by_name wfs rfs wvals rvals), []).
Proof. exact (by_name_refuted ). Qed.

Print Assumptions c16_by_name.
Print Assumptions c16_by_name_fuel.
Print Assumptions c16_strict_unknown_rejected.
Print Assumptions c16_strict_deprecated_skipped.
Print Assumptions c16_unknown_skipped.
Print Assumptions c16_skip_is_structural.
Print Assumptions c16_merge_edge.
