(* C11 — Schema-less decoding is lossless.  The canonical domain `any_ok` (Proofs/AnyP.v) is stated on abstract values of the token grammar: scalar leaves of every width (no NaN payloads), Nil, NaN, strings, bytes, arrays, tuples of at most 50 items, objects with distinct exported identifier field names and non-Nil field values, maps keyed by scalar leaves in strictly ascending order.  Type names of registered types are not in the proved domain (they are covered by the correspondence: every generated stream marshalled from catalogue values of registered types is decoded into `any`, re-marshalled and compared, in Go and in the Coq model). *)
From SbModel Require Import Model.Marshal Model.Unmarshal Spec.LexOrder Proofs.UnmarshalP Proofs.AnyP.
Local Open Scope nat_scope.

(* unmarshalling a canonical stream into an untyped target and marshalling the result again yields the identical token stream (widths, bytes versus strings, tuples, key types and nesting are part of token equality) *)
Theorem c11_any_roundtrip pf o R v rest :
  any_ok R v ->
  exists f g, unm pf f o R TAny (GAny None) (flatten v ++ rest) = Ok (g, rest) /\
              marshal default_opts TAny g = Ok (flatten v).
Proof. exact (any_roundtrip pf o R v rest). Qed.

(* with an explicit fuel bound and the explicit decoded value *)
Theorem c11_any_decodes pf o R v f rest :
  any_ok R v -> (length (flatten v) <= f)%nat ->
  unm pf f o R TAny (GAny None) (flatten v ++ rest) = Ok (dec v, rest).
Proof. exact (any_unm pf o R v f rest). Qed.

Theorem c11_any_remarshals R v :
  any_ok R v -> marshal default_opts TAny (dec v) = Ok (flatten v).
Proof. exact (any_marshal R v). Qed.

(* streams outside the domain are rejected with an error, never decoded to something that re-marshals differently: an object field holding Nil ... *)
Theorem c11_rejects_nil_field pf o R pre n more f :
  obj_ok any_okb [] pre = true -> is_exported_ident n = true ->
  existsb (fun s => bytes_eqb s n) (field_names pre) = false ->
  (length (flat_map flatten pre) + 3 <= f)%nat ->
  unm pf f o R TAny (GAny None)
      (T KObject VNone :: flat_map flatten pre ++ T KString (VStr n) :: T KNil VNone :: more) = Err EEnd.
Proof. exact (any_rejects_nil_field pf o R pre n more f). Qed.

(* ... a map keyed by a composite value ... *)
Theorem c11_rejects_composite_key pf o R ko kc items more f :
  any_okb (Comp ko kc items) = true -> ko <> KObject ->
  (length (flatten (Comp ko kc items)) + 1 <= f)%nat ->
  unm pf f o R TAny (GAny None) (T KMap VNone :: flatten (Comp ko kc items) ++ more) = Err EBadMapKey.
Proof. exact (any_rejects_composite_key pf o R ko kc items more f). Qed.

Theorem c11_rejects_nil_key pf o R more f :
  unm pf (S (S f)) o R TAny (GAny None) (T KMap VNone :: T KNil VNone :: more) = Err EBadMapKey.
Proof. exact (any_rejects_nil_key pf o R more f). Qed.

Theorem c11_rejects_nan_key pf o R more f :
  unm pf (S (S f)) o R TAny (GAny None) (T KMap VNone :: T KNaN VNone :: more) = Err EBadMapKey.
Proof. exact (any_rejects_nan_key pf o R more f). Qed.

(* ... a tuple of more than 50 items ... *)
Theorem c11_rejects_big_tuple pf o R items rest f :
  forallb any_okb items = true -> (50 < length items)%nat ->
  (length (flatten (Comp KTuple KTupleEnd items)) <= f)%nat ->
  unm pf f o R TAny (GAny None) (flatten (Comp KTuple KTupleEnd items) ++ rest) = Err ETooMany.
Proof. exact (any_rejects_big_tuple pf o R items rest f). Qed.

(* ... literal, Min, Max and reference tokens *)
Theorem c11_rejects_literal pf o R f cur s rest :
  unm pf (S f) o R TAny cur (T KLiteral (VStr s) :: rest) = Err EBadTarget.
Proof. exact (any_rejects_literal pf o R f cur s rest). Qed.

Theorem c11_rejects_min pf o R f cur rest :
  unm pf (S f) o R TAny cur (T KMin VNone :: rest) = Err EBadKind.
Proof. exact (any_rejects_min pf o R f cur rest). Qed.

Theorem c11_rejects_max pf o R f cur rest :
  unm pf (S f) o R TAny cur (T KMax VNone :: rest) = Err EBadKind.
Proof. exact (any_rejects_max pf o R f cur rest). Qed.

Theorem c11_rejects_ref pf o R f cur v rest :
  unm pf (S f) o R TAny cur (T KRef v :: rest) = Err EBadKind.
Proof. exact (any_rejects_ref pf o R f cur v rest). Qed.

(* an UNREGISTERED type name is erased (such streams are not produced by marshalling) *)
Theorem c11_unregistered_name_dropped pf o R f cur n ts :
  reg_lookup R n = None ->
  unm pf (S f) o R TAny cur (T KTypeName (VStr n) :: ts) = unm pf f o R TAny cur ts.
Proof. exact (any_unregistered_name_dropped pf o R f cur n ts). Qed.

(* the edge that makes ascending keys part of the domain: a map stream with descending keys is accepted and re-marshals reordered *)
Theorem c11_unsorted_map_edge  :
  let ts := [T KMap VNone; T KInt (VI WNat 2); T KNil VNone; T KInt (VI WNat 1); T KNil VNone; T KMapEnd VNone] in
  let g := GAny (Some (TMap TAny TAny, GMap false [(GAny (Some (TInt WNat, GInt 2)), GAny None);
                                                  (GAny (Some (TInt WNat, GInt 1)), GAny None)])) in
  unm pf0 20 default_opts [] TAny (GAny None) ts = Ok (g, []) /\
  marshal default_opts TAny g =
    Ok [T KMap VNone; T KInt (VI WNat 1); T KNil VNone; T KInt (VI WNat 2); T KNil VNone; T KMapEnd VNone].
Proof. exact (any_unsorted_map_normalized ). Qed.

Print Assumptions c11_any_roundtrip.
Print Assumptions c11_any_decodes.
Print Assumptions c11_any_remarshals.
Print Assumptions c11_rejects_nil_field.
Print Assumptions c11_rejects_composite_key.
Print Assumptions c11_rejects_nil_key.
Print Assumptions c11_rejects_nan_key.
Print Assumptions c11_rejects_big_tuple.
Print Assumptions c11_rejects_literal.
Print Assumptions c11_rejects_min.
Print Assumptions c11_rejects_max.
Print Assumptions c11_rejects_ref.
Print Assumptions c11_unregistered_name_dropped.
Print Assumptions c11_unsorted_map_edge.
