(* C11 — Schema-less decoding is lossless.  The canonical domain `any_ok` (Proofs/AnyP.v) is stated on abstract values of the token grammar: scalar leaves of every width (no NaN payloads), Nil, NaN, strings, bytes, arrays, tuples of at most 50 items, objects with distinct exported identifier field names and non-Nil field values, maps keyed by scalar leaves in strictly ascending order.  Type names of registered types are not in the proved domain (they are covered by the correspondence: every generated stream marshalled from catalogue values of registered types is decoded into `any`, re-marshalled and compared, in Go and in the Coq model).  Registered names (Proofs/AnyRegP.v): any_ok_reg R v extends the schema-less domain by `Named n w` nodes at any depth (array items, tuple items, object field values, map values, the top of the stream) whose name the registry maps to a type t and whose sub-stream is the marshalled stream of a typed value of t in the typed round-trip domain (reg_typed); resurrected R v g says that g is the decoded value and every Named node decodes to an interface value whose dynamic type is EXACTLY the registered type. *)
From SbModel Require Import Model.Marshal Model.Unmarshal Spec.Conform Spec.LexOrder Proofs.UnmarshalP Proofs.AnyP Proofs.RoundTripFullP Proofs.AnyRegP.
Local Open Scope nat_scope.

(* unmarshalling a canonical stream into an untyped target and marshalling the result again yields the identical token stream (widths, bytes versus strings, tuples, key types and nesting are part of token equality) *)
Theorem c11_any_roundtrip pf o R v rest :
  any_ok R v ->
  exists f g, unm pf f o R TAny (GAny None) (flatten v ++ rest) = Ok (g, rest) /\
              marshal default_opts TAny g = Ok (flatten v).
Proof. exact (any_roundtrip pf o R v rest). Qed.

(* with an explicit fuel bound and the explicit decoded value *)
Theorem c11_any_decodes pf o R v f rest :
  any_ok R v -> (length (flatten v) <= f)%nat ->
  unm pf f o R TAny (GAny None) (flatten v ++ rest) = Ok (dec v, rest).
Proof. exact (any_unm pf o R v f rest). Qed.

Theorem c11_any_remarshals R v :
  any_ok R v -> marshal default_opts TAny (dec v) = Ok (flatten v).
Proof. exact (any_marshal R v). Qed.

(* streams outside the domain are rejected with an error, never decoded to something that re-marshals differently: an object field holding Nil ... *)
Theorem c11_rejects_nil_field pf o R pre n more f :
  obj_ok any_okb [] pre = true -> is_exported_ident n = true ->
  existsb (fun s => bytes_eqb s n) (field_names pre) = false ->
  (length (flat_map flatten pre) + 3 <= f)%nat ->
  unm pf f o R TAny (GAny None)
      (T KObject VNone :: flat_map flatten pre ++ T KString (VStr n) :: T KNil VNone :: more) = Err EEnd.
Proof. exact (any_rejects_nil_field pf o R pre n more f). Qed.

(* ... a map keyed by a composite value ... *)
Theorem c11_rejects_composite_key pf o R ko kc items more f :
  any_okb (Comp ko kc items) = true -> ko <> KObject ->
  (length (flatten (Comp ko kc items)) + 1 <= f)%nat ->
  unm pf f o R TAny (GAny None) (T KMap VNone :: flatten (Comp ko kc items) ++ more) = Err EBadMapKey.
Proof. exact (any_rejects_composite_key pf o R ko kc items more f). Qed.

Theorem c11_rejects_nil_key pf o R more f :
  unm pf (S (S f)) o R TAny (GAny None) (T KMap VNone :: T KNil VNone :: more) = Err EBadMapKey.
Proof. exact (any_rejects_nil_key pf o R more f). Qed.

Theorem c11_rejects_nan_key pf o R more f :
  unm pf (S (S f)) o R TAny (GAny None) (T KMap VNone :: T KNaN VNone :: more) = Err EBadMapKey.
Proof. exact (any_rejects_nan_key pf o R more f). Qed.

(* ... a tuple of more than 50 items ... *)
Theorem c11_rejects_big_tuple pf o R items rest f :
  forallb any_okb items = true -> (50 < length items)%nat ->
  (length (flatten (Comp KTuple KTupleEnd items)) <= f)%nat ->
  unm pf f o R TAny (GAny None) (flatten (Comp KTuple KTupleEnd items) ++ rest) = Err ETooMany.
Proof. exact (any_rejects_big_tuple pf o R items rest f). Qed.

(* ... literal, Min, Max and reference tokens *)
Theorem c11_rejects_literal pf o R f cur s rest :
  unm pf (S f) o R TAny cur (T KLiteral (VStr s) :: rest) = Err EBadTarget.
Proof. exact (any_rejects_literal pf o R f cur s rest). Qed.

Theorem c11_rejects_min pf o R f cur rest :
  unm pf (S f) o R TAny cur (T KMin VNone :: rest) = Err EBadKind.
Proof. exact (any_rejects_min pf o R f cur rest). Qed.

Theorem c11_rejects_max pf o R f cur rest :
  unm pf (S f) o R TAny cur (T KMax VNone :: rest) = Err EBadKind.
Proof. exact (any_rejects_max pf o R f cur rest). Qed.

Theorem c11_rejects_ref pf o R f cur v rest :
  unm pf (S f) o R TAny cur (T KRef v :: rest) = Err EBadKind.
Proof. exact (any_rejects_ref pf o R f cur v rest). Qed.

(* an UNREGISTERED type name is erased (such streams are not produced by marshalling) *)
Theorem c11_unregistered_name_dropped pf o R f cur n ts :
  reg_lookup R n = None ->
  unm pf (S f) o R TAny cur (T KTypeName (VStr n) :: ts) = unm pf f o R TAny cur ts.
Proof. exact (any_unregistered_name_dropped pf o R f cur n ts). Qed.

(* the edge that makes ascending keys part of the domain: a map stream with descending keys is accepted and re-marshals reordered *)
Theorem c11_unsorted_map_edge  :
  let ts := [T KMap VNone; T KInt (VI WNat 2); T KNil VNone; T KInt (VI WNat 1); T KNil VNone; T KMapEnd VNone] in
  let g := GAny (Some (TMap TAny TAny, GMap false [(GAny (Some (TInt WNat, GInt 2)), GAny None);
                                                  (GAny (Some (TInt WNat, GInt 1)), GAny None)])) in
  unm pf0 20 default_opts [] TAny (GAny None) ts = Ok (g, []) /\
  marshal default_opts TAny g =
    Ok [T KMap VNone; T KInt (VI WNat 1); T KNil VNone; T KInt (VI WNat 2); T KNil VNone; T KMapEnd VNone].
Proof. exact (any_unsorted_map_normalized ). Qed.

(* type-name prefixes of registered types resurrect values of exactly those types: the decoded interface value has dynamic type t itself, an equivalent content, and re-marshals to the identical stream *)
Theorem c11_registered_resurrects pf o R n depr u x ts rest :
  let t := TNamed n true depr u in
  reg_lookup R n = Some t -> wf_ty t = true -> ty_ok t = true -> has_type t x = true -> dom R t x ->
  marshal default_opts t x = Ok ts ->
  exists f x', unm pf f o R TAny (GAny None) (ts ++ rest) = Ok (GAny (Some (t, x')), rest) /\
               equiv t x x' /\ marshal default_opts TAny (GAny (Some (t, x'))) = Ok ts.
Proof. exact (any_registered_resurrects pf o R n depr u x ts rest). Qed.

(* one result for every sufficient fuel *)
Theorem c11_registered_resurrects_stable pf o R n depr u x ts rest :
  let t := TNamed n true depr u in
  reg_lookup R n = Some t -> wf_ty t = true -> ty_ok t = true -> has_type t x = true -> dom R t x ->
  marshal default_opts t x = Ok ts ->
  exists x', equiv t x x' /\ marshal default_opts TAny (GAny (Some (t, x'))) = Ok ts /\
             forall f, (2 * fsz x + length ts + 2 <= f)%nat ->
               unm pf f o R TAny (GAny None) (ts ++ rest) = Ok (GAny (Some (t, x')), rest).
Proof. exact (any_registered_resurrects_stable pf o R n depr u x ts rest). Qed.

(* registered values NESTED at any depth of an untyped stream: decode, re-marshal = identity, and every named position holds a value of exactly the registered type *)
Theorem c11_reg_roundtrip pf o R v rest :
  any_ok_reg R v ->
  exists f g, unm pf f o R TAny (GAny None) (flatten v ++ rest) = Ok (g, rest) /\
              marshal default_opts TAny g = Ok (flatten v) /\ resurrected R v g.
Proof. exact (any_reg_roundtrip_resurrected pf o R v rest). Qed.

Theorem c11_reg_roundtrip_stable pf o R v rest :
  any_ok_reg R v ->
  exists g, resurrected R v g /\ marshal default_opts TAny g = Ok (flatten v) /\
            exists f0, forall f, (f0 <= f)%nat -> unm pf f o R TAny (GAny None) (flatten v ++ rest) = Ok (g, rest).
Proof. exact (any_reg_roundtrip_stable pf o R v rest). Qed.

(* what `resurrected` says at a named position *)
Theorem c11_resurrected_named R n w g :
  resurrected R (Named n w) g ->
  exists t x', g = GAny (Some (t, x')) /\ reg_lookup R n = Some t /\ reg_name t = Some n /\
               marshal default_opts t x' = Ok (flatten (Named n w)).
Proof. exact (resurrected_named R n w g). Qed.

(* the domain with registered names contains the one without *)
Theorem c11_domain_extends R v :
  any_ok R v -> any_ok_reg R v.
Proof. exact (any_ok_reg_of_any_ok R v). Qed.

(* an unregistered name is erased: such a stream does not round-trip (marshalling never produces it) *)
Theorem c11_unregistered_name_lost pf o R n v rest f :
  reg_lookup R n = None -> any_ok R v -> (length (flatten v) < f)%nat ->
  unm pf f o R TAny (GAny None) (flatten (Named n v) ++ rest) = Ok (dec v, rest) /\
  marshal default_opts TAny (dec v) = Ok (flatten v) /\
  flatten v <> flatten (Named n v).
Proof. exact (any_unregistered_name_lost pf o R n v rest f). Qed.

(* non-vacuity: []any{R1{1,"s"}, 5, R1{2, R1{3,nil}}} with R1 registered *)
Theorem c11_reg_example  :
  forall pf o rest,
  exists f g, unm pf f o RegR1 TAny (GAny None) (ex_reg_ts ++ rest) = Ok (g, rest) /\
              marshal default_opts TAny g = Ok ex_reg_ts /\
              exists gs t0 x0 t2 x2, g = GAny (Some (TSlice TAny, GList false gs)) /\
                nth_error gs 0 = Some (GAny (Some (t0, x0))) /\ t0 = R1 /\
                nth_error gs 2 = Some (GAny (Some (t2, x2))) /\ t2 = R1.
Proof. exact (ex_reg_thm ). Qed.

Theorem c11_reg_example_ok  :
  any_ok_reg RegR1 ex_reg_v.
Proof. exact (ex_reg_ok ). Qed.

Print Assumptions c11_any_roundtrip.
Print Assumptions c11_any_decodes.
Print Assumptions c11_any_remarshals.
Print Assumptions c11_rejects_nil_field.
Print Assumptions c11_rejects_composite_key.
Print Assumptions c11_rejects_nil_key.
Print Assumptions c11_rejects_nan_key.
Print Assumptions c11_rejects_big_tuple.
Print Assumptions c11_rejects_literal.
Print Assumptions c11_rejects_min.
Print Assumptions c11_rejects_max.
Print Assumptions c11_rejects_ref.
Print Assumptions c11_unregistered_name_dropped.
Print Assumptions c11_unsorted_map_edge.
Print Assumptions c11_registered_resurrects.
Print Assumptions c11_registered_resurrects_stable.
Print Assumptions c11_reg_roundtrip.
Print Assumptions c11_reg_roundtrip_stable.
Print Assumptions c11_resurrected_named.
Print Assumptions c11_domain_extends.
Print Assumptions c11_unregistered_name_lost.
Print Assumptions c11_reg_example.
Print Assumptions c11_reg_example_ok.
