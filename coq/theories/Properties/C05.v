(* C05 — Unmarshal accepts exactly conforming streams and is safe on untrusted input.  The model `unm` IS the reference interpretation (total Gallina function: it cannot panic; panics of the implementation are correspondence observables); the theorems state its termination for every stream and target, the consumption discipline and the reporting clauses. *)
From SbModel Require Import Model.Marshal Model.Unmarshal Spec.Conform Proofs.UnmarshalP.
Local Open Scope nat_scope.

(* never fails to terminate: an explicit fuel bound (linear in the stream, scaled by the depth of registered types) always suffices, for EVERY token stream and EVERY target type *)
Theorem c05_total pf o R t cur ts :
  unm pf (length ts * S (reg_depth R) + ty_depth t + 1) o R t cur ts <> OutOfFuel.
Proof. exact (unm_total_bound pf o R t cur ts). Qed.

Theorem c05_total_exists pf o R t cur ts :
  exists f, unm pf f o R t cur ts <> OutOfFuel.
Proof. exact (unm_total pf o R t cur ts). Qed.

(* more fuel never changes a result *)
Theorem c05_fuel_monotone pf o R :
  forall f t cur ts r,
  unm pf f o R t cur ts = r -> r <> OutOfFuel ->
  forall f', (f <= f')%nat -> unm pf f' o R t cur ts = r.
Proof. exact (unm_fuel_mono pf o R). Qed.

(* a successful unmarshal consumes a non-empty prefix of the stream and leaves the rest untouched *)
Theorem c05_consumes_prefix pf f o R t cur ts v rest :
  unm pf f o R t cur ts = Ok (v, rest) -> exists used, ts = used ++ rest /\ used <> [].
Proof. exact (unm_suffix pf f o R t cur ts v rest). Qed.

(* Nil leaves the target untouched *)
Theorem c05_nil_leaves_untouched pf o R f t cur rest :
  underlying t <> TTime ->
  unm pf (S f) o R t cur (T KNil VNone :: rest) = Ok (cur, rest).
Proof. exact (nil_leaves_untouched pf o R f t cur rest). Qed.

Theorem c05_end_token_rejected pf o R f t cur tk rest :
  underlying t <> TTime -> is_end_kind (kind tk) = true ->
  unm pf (S f) o R t cur (tk :: rest) = Err EUnexpEndTok.
Proof. exact (end_token_rejected pf o R f t cur tk rest). Qed.

(* end of stream inside a value is an error *)
Theorem c05_empty_is_eof pf o R f t cur :
  underlying t <> TTime -> unm pf (S f) o R t cur [] = Err EEnd.
Proof. exact (empty_is_eof pf o R f t cur). Qed.

(* scalar kinds match the target kind exactly ... *)
Theorem c05_scalar_exact_kind pf o R f t cur tk rest :
  is_scalar_ty (underlying t) = true -> scalar_tok tk = true -> tok_matches t tk = true ->
  exists v, any_of_token tk = Some (underlying t, v) /\ unm pf (S f) o R t cur (tk :: rest) = Ok (v, rest).
Proof. exact (scalar_match pf o R f t cur tk rest). Qed.

(* ... and a kind mismatch is reported with the offending token kind and the target kind *)
Theorem c05_mismatch_reported pf o R f t cur tk rest :
  is_scalar_ty (underlying t) = true -> scalar_tok tk = true -> tok_matches t tk = false ->
  unm pf (S f) o R t cur (tk :: rest) = Err (EMismatch (kind tk) (rk_of t)).
Proof. exact (scalar_mismatch pf o R f t cur tk rest). Qed.

(* object fields are matched by exported name and unknown ones skipped, whatever value they carry *)
Theorem c05_unknown_field_skipped pf f o R g fs depr vals name ot wt wv a rest :
  strict o = false -> find_field name fs 0 = None ->
  marshal ot wt wv = Ok a ->
  struct_loop o (unm pf (S f) o R) (S g) fs depr vals (T KString (VStr name) :: a ++ rest)
  = struct_loop o (unm pf (S f) o R) g fs depr vals rest.
Proof. exact (unknown_field_skipped pf f o R g fs depr vals name ot wt wv a rest). Qed.

Theorem c05_skip_any_value o t v ts rest :
  marshal o t v = Ok ts -> skip_value 0 (ts ++ rest) = Ok rest.
Proof. exact (marshal_skip o t v ts rest). Qed.

Print Assumptions c05_total.
Print Assumptions c05_total_exists.
Print Assumptions c05_fuel_monotone.
Print Assumptions c05_consumes_prefix.
Print Assumptions c05_nil_leaves_untouched.
Print Assumptions c05_end_token_rejected.
Print Assumptions c05_empty_is_eof.
Print Assumptions c05_scalar_exact_kind.
Print Assumptions c05_mismatch_reported.
Print Assumptions c05_unknown_field_skipped.
Print Assumptions c05_skip_any_value.
