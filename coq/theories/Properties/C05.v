(* C05 — Unmarshal accepts exactly conforming streams and is safe on untrusted input.  The model `unm` IS the reference interpretation (total Gallina function: it cannot panic; panics of the implementation are correspondence observables); the theorems state its termination for every stream and target, the consumption discipline and the reporting clauses.  CONFORMANCE (Spec/ConformSpec.v, 288 lines of definitions; Proofs/ConformP.v): `Conforms pf o R t cur ts v rest` is the declarative statement of 'the stream structurally conforms to the target': one rule per clause of the property (Nil leaves the target; a scalar token whose kind is exactly the target's kind; bytes into []byte / [n]byte with length s <= n; literal conversion; type-name prefix skipped for a concrete target; pointer = fresh pointee; array = at most n items in place; slice = items appended; map = entries with comparable keys; struct = fields matched by exported name, unknown names skipped by structure unless strict and not deprecated; tuple funcs; and nine rules for untyped targets), mutually with seven loop relations; no fuel, no error classes.  The executable `unm` succeeds EXACTLY on the conforming streams, with exactly that result. *)
From SbModel Require Import Model.Marshal Model.Unmarshal Spec.Conform Proofs.UnmarshalP Spec.ConformSpec Proofs.ConformP.
Local Open Scope nat_scope.

(* unmarshalling succeeds exactly when the stream structurally conforms to the target, and the result is the reference interpretation *)
Theorem c05_ok_iff_conforms pf o R t cur ts v rest :
  (exists f, unm pf f o R t cur ts = Ok (v, rest)) <-> Conforms pf o R t cur ts v rest.
Proof. exact (unm_ok_iff_conforms pf o R t cur ts v rest). Qed.

Theorem c05_conforms_sound pf o R t cur ts v rest :
  Conforms pf o R t cur ts v rest -> exists f, unm pf f o R t cur ts = Ok (v, rest).
Proof. exact (conforms_sound pf o R t cur ts v rest). Qed.

Theorem c05_conforms_complete pf o R :
  forall f t cur ts v rest,
  unm pf f o R t cur ts = Ok (v, rest) -> Conforms pf o R t cur ts v rest.
Proof. exact (conforms_complete pf o R). Qed.

(* with an explicit fuel bound: conformance is decidable by running the model *)
Theorem c05_conforms_iff_bound pf o R t cur ts v rest :
  Conforms pf o R t cur ts v rest <-> unm pf (fuel_bound R t ts) o R t cur ts = Ok (v, rest).
Proof. exact (conforms_iff_bound pf o R t cur ts v rest). Qed.

(* the interpretation is unique *)
Theorem c05_conforms_functional pf o R t cur ts v rest v' rest' :
  Conforms pf o R t cur ts v rest -> Conforms pf o R t cur ts v' rest' -> v = v' /\ rest = rest'.
Proof. exact (conforms_functional pf o R t cur ts v rest v' rest'). Qed.

Theorem c05_conforms_fuel_independent pf o R t cur ts v rest f :
  Conforms pf o R t cur ts v rest ->
  unm pf f o R t cur ts = OutOfFuel \/ unm pf f o R t cur ts = Ok (v, rest).
Proof. exact (conforms_fuel_independent pf o R t cur ts v rest f). Qed.

(* a stream is rejected exactly when it does not conform (never both, never neither: c05_total) *)
Theorem c05_err_iff_not_conforms pf o R t cur ts :
  (exists f e, unm pf f o R t cur ts = Err e) <-> ~ (exists v rest, Conforms pf o R t cur ts v rest).
Proof. exact (unm_err_iff_not_conforms pf o R t cur ts). Qed.

Theorem c05_conforms_consumes pf o R t cur ts v rest :
  Conforms pf o R t cur ts v rest -> exists used, ts = used ++ rest /\ used <> [].
Proof. exact (conforms_consumes pf o R t cur ts v rest). Qed.

(* scalar kinds match the target kind exactly *)
Theorem c05_scalar_conforms_iff pf o R t cur tk rest v rest' :
  is_scalar_ty (underlying t) = true -> scalar_tok tk = true ->
  (Conforms pf o R t cur (tk :: rest) v rest' <->
   tok_matches t tk = true /\ any_of_token tk = Some (underlying t, v) /\ rest' = rest).
Proof. exact (scalar_conforms_iff pf o R t cur tk rest v rest'). Qed.

(* a kind mismatch is reported with the offending token kind and the target kind - for every target that is not a pointer, an interface or time.Time *)
Theorem c05_mismatch_reported_general pf o R f t cur tk rest :
  scalar_tok tk = true -> tok_matches t tk = false ->
  underlying t <> TTime -> underlying t <> TAny -> (forall e, underlying t <> TPtr e) ->
  unm pf (S f) o R t cur (tk :: rest) = Err (EMismatch (kind tk) (rk_of t)).
Proof. exact (mismatch_reported pf o R f t cur tk rest). Qed.

(* the same for NaN / Bytes / Array / Object / Map / Tuple tokens against a target of another shape.  (That the error of an item or field value is the error of the whole value - array_error_propagates, field_error_propagates, array_item_mismatch_reported - is proved in Proofs/ConformP.v over section-local prefix relations and checked by Print Assumptions there.) *)
Theorem c05_mismatch_reported_structural pf o R f t cur k x rest :
  In k [KNaN; KBytes; KArray; KObject; KMap; KTuple] -> open_accepts k (underlying t) = false ->
  underlying t <> TTime -> (forall e, underlying t <> TPtr e) ->
  unm pf (S f) o R t cur (T k x :: rest) = Err (EMismatch k (rk_of t)).
Proof. exact (mismatch_reported_structural pf o R f t cur k x rest). Qed.

(* a derivation: unknown field skipped, pointer field allocated, unexported field kept *)
Theorem c05_conforms_example  :
  Conforms cpf0 default_opts [] ExS ex_s_cur ex_s_stream ex_s_result [T KBool (VBool true)].
Proof. exact (conforms_struct_ex ). Qed.

(* arrays are not longer than the target array *)
Theorem c05_array_longer_example  :
  unm cpf0 3 default_opts [] (TArray 1 (TInt WNat)) (GList false [GInt 9]) ex_arr_stream = Err ETooMany /\
  ~ (exists v rest, Conforms cpf0 default_opts [] (TArray 1 (TInt WNat)) (GList false [GInt 9]) ex_arr_stream v rest).
Proof. exact (array_longer_ex ). Qed.

Local Open Scope N_scope.
(* the same for the bytes form (this edge was found by the proof: the code truncated silently; repaired in /repo 64bf42e) *)
Theorem c05_bytes_longer_than_array  :
  unm cpf0 1 default_opts [] (TByteArray 2) (GBytes false [9; 9]) [T KBytes (VBytes [1; 2; 3])] = Err ETooMany /\
  ~ (exists v rest, Conforms cpf0 default_opts [] (TByteArray 2) (GBytes false [9; 9]) [T KBytes (VBytes [1; 2; 3])] v rest) /\
  unm cpf0 3 default_opts [] (TByteArray 2) (GBytes false [9; 9])
      [T KArray VNone; T KUint8 (VU W8 1); T KUint8 (VU W8 2); T KUint8 (VU W8 3); T KArrayEnd VNone] = Err ETooMany /\
  unm cpf0 1 default_opts [] (TByteArray 3) (GBytes false [9; 9; 9]) [T KBytes (VBytes [1])] = Ok (GBytes false [1; 9; 9], []) /\
  Conforms cpf0 default_opts [] (TByteArray 3) (GBytes false [9; 9; 9]) [T KBytes (VBytes [1])] (GBytes false [1; 9; 9]) [].
Proof. exact (bytes_longer_than_array_edge ). Qed.

(* never fails to terminate: an explicit fuel bound (linear in the stream, scaled by the depth of registered types) always suffices, for EVERY token stream and EVERY target type *)
Theorem c05_total pf o R t cur ts :
  unm pf (length ts * S (reg_depth R) + ty_depth t + 1) o R t cur ts <> OutOfFuel.
Proof. exact (unm_total_bound pf o R t cur ts). Qed.

Theorem c05_total_exists pf o R t cur ts :
  exists f, unm pf f o R t cur ts <> OutOfFuel.
Proof. exact (unm_total pf o R t cur ts). Qed.

(* more fuel never changes a result *)
Theorem c05_fuel_monotone pf o R :
  forall f t cur ts r,
  unm pf f o R t cur ts = r -> r <> OutOfFuel ->
  forall f', (f <= f')%nat -> unm pf f' o R t cur ts = r.
Proof. exact (unm_fuel_mono pf o R). Qed.

(* a successful unmarshal consumes a non-empty prefix of the stream and leaves the rest untouched *)
Theorem c05_consumes_prefix pf f o R t cur ts v rest :
  unm pf f o R t cur ts = Ok (v, rest) -> exists used, ts = used ++ rest /\ used <> [].
Proof. exact (unm_suffix pf f o R t cur ts v rest). Qed.

(* Nil leaves the target untouched *)
Theorem c05_nil_leaves_untouched pf o R f t cur rest :
  underlying t <> TTime ->
  unm pf (S f) o R t cur (T KNil VNone :: rest) = Ok (cur, rest).
Proof. exact (nil_leaves_untouched pf o R f t cur rest). Qed.

Theorem c05_end_token_rejected pf o R f t cur tk rest :
  underlying t <> TTime -> is_end_kind (kind tk) = true ->
  unm pf (S f) o R t cur (tk :: rest) = Err EUnexpEndTok.
Proof. exact (end_token_rejected pf o R f t cur tk rest). Qed.

(* end of stream inside a value is an error *)
Theorem c05_empty_is_eof pf o R f t cur :
  underlying t <> TTime -> unm pf (S f) o R t cur [] = Err EEnd.
Proof. exact (empty_is_eof pf o R f t cur). Qed.

(* scalar kinds match the target kind exactly ... *)
Theorem c05_scalar_exact_kind pf o R f t cur tk rest :
  is_scalar_ty (underlying t) = true -> scalar_tok tk = true -> tok_matches t tk = true ->
  exists v, any_of_token tk = Some (underlying t, v) /\ unm pf (S f) o R t cur (tk :: rest) = Ok (v, rest).
Proof. exact (scalar_match pf o R f t cur tk rest). Qed.

(* ... and a kind mismatch is reported with the offending token kind and the target kind *)
Theorem c05_mismatch_reported pf o R f t cur tk rest :
  is_scalar_ty (underlying t) = true -> scalar_tok tk = true -> tok_matches t tk = false ->
  unm pf (S f) o R t cur (tk :: rest) = Err (EMismatch (kind tk) (rk_of t)).
Proof. exact (scalar_mismatch pf o R f t cur tk rest). Qed.

(* object fields are matched by exported name and unknown ones skipped, whatever value they carry *)
Theorem c05_unknown_field_skipped pf f o R g fs depr vals name ot wt wv a rest :
  strict o = false -> find_field name fs 0 = None ->
  marshal ot wt wv = Ok a ->
  struct_loop o (unm pf (S f) o R) (S g) fs depr vals (T KString (VStr name) :: a ++ rest)
  = struct_loop o (unm pf (S f) o R) g fs depr vals rest.
Proof. exact (unknown_field_skipped pf f o R g fs depr vals name ot wt wv a rest). Qed.

Theorem c05_skip_any_value o t v ts rest :
  marshal o t v = Ok ts -> skip_value 0 (ts ++ rest) = Ok rest.
Proof. exact (marshal_skip o t v ts rest). Qed.

Print Assumptions c05_ok_iff_conforms.
Print Assumptions c05_conforms_sound.
Print Assumptions c05_conforms_complete.
Print Assumptions c05_conforms_iff_bound.
Print Assumptions c05_conforms_functional.
Print Assumptions c05_conforms_fuel_independent.
Print Assumptions c05_err_iff_not_conforms.
Print Assumptions c05_conforms_consumes.
Print Assumptions c05_scalar_conforms_iff.
Print Assumptions c05_mismatch_reported_general.
Print Assumptions c05_mismatch_reported_structural.
Print Assumptions c05_conforms_example.
Print Assumptions c05_array_longer_example.
Print Assumptions c05_bytes_longer_than_array.
Print Assumptions c05_total.
Print Assumptions c05_total_exists.
Print Assumptions c05_fuel_monotone.
Print Assumptions c05_consumes_prefix.
Print Assumptions c05_nil_leaves_untouched.
Print Assumptions c05_end_token_rejected.
Print Assumptions c05_empty_is_eof.
Print Assumptions c05_scalar_exact_kind.
Print Assumptions c05_mismatch_reported.
Print Assumptions c05_unknown_field_skipped.
Print Assumptions c05_skip_any_value.

(* ---- sb.Tuple / sb.TypedTuple targets (tuple.go; Model/Tuples.v): arity, the opening token, termination ---- *)
From SbModel Require Import Model.Tuples Proofs.TuplesP.

Theorem c05_tuple_head_rejects : forall A (k : list token -> res A) tk rest,
  (kind tk =? KLiteral) = false -> (kind tk =? KTuple) = false ->
  tuple_head (tk :: rest) k = Err (EMismatch (kind tk) 19).
Proof. exact tuple_head_rejects. Qed.

Theorem c05_tuple_head_empty : forall A (k : list token -> res A), tuple_head [] k = Err EEnd.
Proof. exact tuple_head_empty. Qed.

(* a typed tuple takes exactly as many items as it has types *)
Theorem c05_typed_tuple_too_few : forall pf o R types vals t more body rest f,
  all_ok types vals -> marshal_all types vals = Ok body -> (2 * vsize_all vals + 2 < f)%nat ->
  typed_tuple_unm pf f o R (types ++ t :: more) [] (T KTuple VNone :: body ++ T KTupleEnd VNone :: rest)
    = Err ETooFew.
Proof. exact typed_tuple_too_few. Qed.

Theorem c05_typed_tuple_too_many : forall pf o R types1 vals1 t v types2 vals2 body rest f,
  all_ok types1 vals1 -> all_ok (t :: types2) (v :: vals2) ->
  marshal_all (types1 ++ t :: types2) (vals1 ++ v :: vals2) = Ok body ->
  (2 * vsize_all (vals1 ++ v :: vals2) + 2 < f)%nat ->
  typed_tuple_unm pf f o R types1 [] (T KTuple VNone :: body ++ T KTupleEnd VNone :: rest)
    = Err ETooMany.
Proof. exact typed_tuple_too_many. Qed.

(* both targets terminate on every input (enough fuel exists and more never changes the outcome's being defined) *)
Theorem c05_typed_tuple_total : forall pf o R types items ts,
  exists f0, forall f, (f0 <= f)%nat -> typed_tuple_unm pf f o R types items ts <> OutOfFuel.
Proof. exact typed_tuple_total. Qed.

Theorem c05_tuple_total : forall pf o R items ts,
  exists f0, forall f, (f0 <= f)%nat -> tuple_unm pf f o R items ts <> OutOfFuel.
Proof. exact tuple_unm_total. Qed.

Print Assumptions c05_tuple_head_rejects.
Print Assumptions c05_tuple_head_empty.
Print Assumptions c05_typed_tuple_too_few.
Print Assumptions c05_typed_tuple_too_many.
Print Assumptions c05_typed_tuple_total.
Print Assumptions c05_tuple_total.
