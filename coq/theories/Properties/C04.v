(* C04 — Decoding arbitrary bytes is total, exact, and never silently truncated. *)
From SbModel Require Import Model.Codec Spec.DecodeGrammar Proofs.CodecP.
Local Open Scope N_scope.

(* total: with fuel length+1 the decoder never runs out of fuel, for every byte string
   (Gallina functions cannot panic; panics of the implementation are correspondence observables) *)
Theorem c04_total maxlen fault bs off : snd (decode_all (S (length bs)) maxlen fault bs off) <> DOutOfFuel.
Proof. exact (decode_total maxlen fault bs off). Qed.
Theorem c04_total_cmp maxlen fault bs off : snd (decode_cmp_all (S (length bs)) maxlen fault bs off) <> DOutOfFuel.
Proof. exact (decode_cmp_total maxlen fault bs off). Qed.

(* exact: the delivered tokens are those of a prefix that is a concatenation of complete
   token encodings (the declarative grammar `accepts`); the decoder ends cleanly only when
   that prefix is the whole input, and otherwise fails exactly where one more step fails *)
Theorem c04_exact maxlen fault bs off ts r : wf_bytes bs ->
  decode_all (S (length bs)) maxlen fault bs off = (ts, r) ->
  exists pieces rest, bs = concat pieces ++ rest /\ Forall2 (accepts maxlen) ts pieces /\
    ((r = Done /\ rest = [] /\ fault = false) \/
     (exists e o, r = Fail e o /\ decode_step maxlen fault rest (off + lenN (concat pieces)) = SErr e o)).
Proof. exact (decode_exact maxlen fault bs off ts r). Qed.

(* the grammar is prefix-free, so "the longest prefix" is well defined: a step accepts
   exactly the encodings of the grammar *)
Theorem c04_prefix_free maxlen t1 t2 p1 p2 r1 r2 :
  accepts maxlen t1 p1 -> accepts maxlen t2 p2 -> p1 ++ r1 = p2 ++ r2 -> p1 = p2 /\ t1 = t2.
Proof. exact (accepts_prefix_free maxlen t1 t2 p1 p2 r1 r2). Qed.
Theorem c04_step_sound maxlen fault bs off t rest off' : wf_bytes bs ->
  decode_step maxlen fault bs off = STok t rest off' ->
  exists piece, bs = piece ++ rest /\ off' = off + lenN piece /\ accepts maxlen t piece.
Proof. exact (step_sound maxlen fault bs off t rest off'). Qed.
Theorem c04_step_complete maxlen fault t piece rest off : accepts maxlen t piece ->
  decode_step maxlen fault (piece ++ rest) off = STok t rest (off + lenN piece).
Proof. exact (step_complete maxlen fault t piece rest off). Qed.

(* every proper prefix of a valid encoding that cuts through a token is an error, never a
   shorter successful stream; the offset lies inside the cut token *)
Theorem c04_no_silent_truncation maxlen ts t (n : nat) :
  Forall (wf_enc maxlen) ts -> wf_enc maxlen t -> (0 < n < length (encode_token t))%nat ->
  exists o, decode maxlen (encode ts ++ firstn n (encode_token t)) = (ts, Fail EEnd o) /\
            lenN (encode ts) <= o <= lenN (encode ts) + N.of_nat n.
Proof. exact (no_silent_truncation maxlen ts t n). Qed.

(* error offsets are in range *)
Theorem c04_offset_in_range maxlen fault bs off ts e o :
  decode_all (S (length bs)) maxlen fault bs off = (ts, Fail e o) -> off <= o <= off + lenN bs.
Proof. exact (fail_offset_in_range maxlen fault bs off ts e o). Qed.

(* limit boundary: length = limit accepted (instance of c02_step_exact), limit + 1 rejected *)
Theorem c04_limit_boundary maxlen k s rest off : is_str_kind k = true -> lenN s = maxlen + 1 -> lenN s < 2 ^ 56 ->
  wf_bytes s -> exists o, decode_step maxlen false (encode_token (T k (VStr s)) ++ rest) off = SErr EStrTooLong o.
Proof. exact (limit_boundary_reject maxlen k s rest off). Qed.

(* the comparison-oriented decoder accepts and rejects exactly the same inputs, with the
   same error class, and its segmented output re-assembles to the plain output *)
Theorem c04_cmp_same_language maxlen bs : wf_bytes bs ->
  (snd (decode maxlen bs) = Done <-> snd (decode_cmp maxlen bs) = Done).
Proof. exact (cmp_same_language maxlen bs). Qed.
Theorem c04_cmp_same_class maxlen bs : wf_bytes bs ->
  match snd (decode maxlen bs), snd (decode_cmp maxlen bs) with
  | Done, Done => True | Fail e1 _, Fail e2 _ => e1 = e2 | _, _ => False end.
Proof. exact (cmp_same_class maxlen bs). Qed.
Theorem c04_cmp_desegment maxlen bs : wf_bytes bs -> snd (decode maxlen bs) = Done ->
  desegment (fst (decode_cmp maxlen bs)) = fst (decode maxlen bs).
Proof. exact (cmp_desegment maxlen bs). Qed.

Print Assumptions c04_total.
Print Assumptions c04_total_cmp.
Print Assumptions c04_exact.
Print Assumptions c04_prefix_free.
Print Assumptions c04_step_sound.
Print Assumptions c04_step_complete.
Print Assumptions c04_no_silent_truncation.
Print Assumptions c04_offset_in_range.
Print Assumptions c04_limit_boundary.
Print Assumptions c04_cmp_same_language.
Print Assumptions c04_cmp_same_class.
Print Assumptions c04_cmp_desegment.
