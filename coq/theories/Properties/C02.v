(* C02 — Binary codec is a token-exact bijection on well-formed streams.
   Only statements, each closed by `exact`, and Print Assumptions. *)
From SbModel Require Import Model.Codec Spec.DecodeGrammar Proofs.CodecP.
Local Open Scope N_scope.

(* one decoder step on a canonical encoding consumes exactly that encoding (no read-ahead:
   the rest of the input is untouched), whatever follows and however the reader ends *)
Theorem c02_step_exact maxlen fault t rest off : wf_enc maxlen t ->
  decode_step maxlen fault (encode_token t ++ rest) off = STok t rest (off + lenN (encode_token t)).
Proof. exact (step_exact maxlen fault t rest off). Qed.

(* decoding the encoding of a well-formed sequence reproduces it exactly: same kinds, same
   dynamic value types, bit-identical floats, byte-identical strings (token equality) *)
Theorem c02_decode_encode maxlen ts : Forall (wf_enc maxlen) ts -> decode maxlen (encode ts) = (ts, Done).
Proof. exact (decode_encode maxlen ts). Qed.

(* EncodedLen reports the number of bytes actually written *)
Theorem c02_encoded_len ts : encoded_len ts = lenN (encode ts).
Proof. exact (encoded_len_correct ts). Qed.

(* the bytes are the concatenation of the Write/WriteByte calls, whose sequence does not
   depend on the writer flavour *)
Theorem c02_writes_flavour_independent ts : concat (stream_writes ts) = encode ts.
Proof. exact (stream_writes_concat ts). Qed.

(* consecutive values can be read from one reader: after a value the decoder is positioned
   exactly at the next one (every token of the prefix is delivered, then decoding goes on) *)
Theorem c02_consecutive_values maxlen t rest off : wf_enc maxlen t ->
  exists o, decode_step maxlen false (encode_token t ++ rest) off = STok t rest o /\ o = off + lenN (encode_token t).
Proof. intros Hw. eexists. split; [exact (step_exact maxlen false t rest off Hw) | reflexivity]. Qed.

Print Assumptions c02_step_exact.
Print Assumptions c02_decode_encode.
Print Assumptions c02_encoded_len.
Print Assumptions c02_writes_flavour_independent.
Print Assumptions c02_consecutive_values.
