(* C08 — Marshalling is canonical and deterministic.  (`marshal` is a Gallina function: repeated calls and process runs cannot differ in the model; for the Go code that half is carried by the correspondence, which rebuilds every map through another insertion/deletion history.) *)
From SbModel Require Import Model.Marshal Spec.LexOrder Spec.Conform Proofs.CompareP Proofs.MarshalP.
Local Open Scope N_scope.

From Coq Require Import Permutation Sorting.

(* scalars map to the kind of their underlying type (named types included) *)
Theorem c08_scalar_int o t w z :
  reg_prefix t = [] -> underlying t = TInt w ->
  marshal o t (GInt z) = Ok [T (kind_of_int w) (VI w z)].
Proof. exact (marshal_int_under o t w z). Qed.

Theorem c08_scalar_uint o t w n :
  reg_prefix t = [] -> underlying t = TUint w ->
  marshal o t (GUint n) = Ok [T (kind_of_uint w) (VU w n)].
Proof. exact (marshal_uint_under o t w n). Qed.

Theorem c08_scalar_uintptr o t n :
  reg_prefix t = [] -> underlying t = TUintptr ->
  marshal o t (GUint n) = Ok [T KPointer (VPtr n)].
Proof. exact (marshal_uintptr_under o t n). Qed.

Theorem c08_scalar_bool o t b :
  marshal o t (GBool b) = Ok (reg_prefix t ++ [T KBool (VBool b)]).
Proof. exact (marshal_bool_any o t b). Qed.

Theorem c08_scalar_string o t s :
  marshal o t (GStr s) = Ok (reg_prefix t ++ [T KString (VStr s)]).
Proof. exact (marshal_string_any o t s). Qed.

(* NaN maps to the NaN token, every other float keeps its exact bits *)
Theorem c08_nan64 o b :
  f64_is_nan b = true -> marshal o TF64 (GF64 b) = Ok [T KNaN VNone].
Proof. exact (marshal_f64_nan o b). Qed.

Theorem c08_num64 o b :
  f64_is_nan b = false -> marshal o TF64 (GF64 b) = Ok [T KFloat64 (VF64 b)].
Proof. exact (marshal_f64_num o b). Qed.

Theorem c08_nan32 o b :
  f32_is_nan b = true -> marshal o TF32 (GF32 b) = Ok [T KNaN VNone].
Proof. exact (marshal_f32_nan o b). Qed.

Theorem c08_num32 o b :
  f32_is_nan b = false -> marshal o TF32 (GF32 b) = Ok [T KFloat32 (VF32 b)].
Proof. exact (marshal_f32_num o b). Qed.

(* nil pointers and interfaces map to Nil *)
Theorem c08_nil_ptr o t :
  marshal o (TPtr t) (GPtr None) = Ok [T KNil VNone].
Proof. exact (marshal_nil_ptr o t). Qed.

Theorem c08_nil_any o :
  marshal o TAny (GAny None) = Ok [T KNil VNone].
Proof. exact (marshal_nil_any o). Qed.

(* byte slices and byte arrays map to a single bytes token *)
Theorem c08_bytes o n s :
  marshal o TBytes (GBytes n s) = Ok [T KBytes (VBytes s)].
Proof. exact (marshal_bytes o n s). Qed.

Theorem c08_byte_array o k n s :
  marshal o (TByteArray k) (GBytes n s) = Ok [T KBytes (VBytes s)].
Proof. exact (marshal_byte_array o k n s). Qed.

(* structs map to their exported fields in declaration order (struct_body filters the exported fields of the declaration list) *)
Theorem c08_struct o fs vals :
  skip_empty o = false ->
  marshal o (TStruct fs) (GStruct vals) =
  bind (struct_body o fs vals) (fun body => Ok (T KObject VNone :: body ++ [T KObjectEnd VNone])).
Proof. exact (marshal_struct o fs vals). Qed.

(* tuple funcs map to their results *)
Theorem c08_tuple o outs items :
  ignore_funcs o = false -> length items = length outs ->
  marshal o (TFunc outs) (GFunc (Some items)) =
  bind (concat_res (map (fun p => marshal o (snd p) (fst p)) (combine items outs)))
       (fun body => Ok (T KTuple VNone :: body ++ [T KTupleEnd VNone])).
Proof. exact (marshal_func o outs items). Qed.

(* registered types are prefixed by their type name *)
Theorem c08_registered_prefix o n d u v :
  reg_prefix u = [] ->
  marshal o (TNamed n true d u) v = bind (marshal o u v) (fun ts => Ok (T KTypeName (VStr n) :: ts)).
Proof. exact (marshal_named_reg o n d u v). Qed.

Theorem c08_unregistered_no_prefix o n d u v :
  reg_prefix u = [] ->
  marshal o (TNamed n false d u) v = marshal o u v.
Proof. exact (marshal_named_unreg o n d u v). Qed.

(* map entries appear in ascending order of their key streams - strictly ascending when the key streams are pairwise distinct *)
Theorem c08_map_sorted o kt vt isnil entries ts :
  wf_ty (TMap kt vt) = true -> has_type (TMap kt vt) (GMap isnil entries) = true ->
  wf_dyn (GMap isnil entries) = true ->
  marshal o (TMap kt vt) (GMap isnil entries) = Ok ts ->
  exists es0 es : list entry,
    Forall2 (entry_rel o kt vt) entries es0 /\ Permutation es0 es /\
    ts = T KMap VNone :: flat_map (fun e => snd (fst e) ++ snd e) es ++ [T KMapEnd VNone] /\
    StronglySorted (fun a b => lex (fst (fst a)) (fst (fst b)) <> Gt) es /\
    (keys_distinct kt entries -> StronglySorted (fun a b => lex (fst (fst a)) (fst (fst b)) = Lt) es).
Proof. exact (map_sorted o kt vt isnil entries ts). Qed.

(* the stream does not depend on the insertion / iteration order of the map *)
Theorem c08_map_order_independent o kt vt n1 n2 m1 m2 :
  Permutation m1 m2 ->
  wf_ty (TMap kt vt) = true -> has_type (TMap kt vt) (GMap n1 m1) = true -> wf_dyn (GMap n1 m1) = true ->
  keys_distinct kt m1 ->
  marshal o (TMap kt vt) (GMap n1 m1) = marshal o (TMap kt vt) (GMap n2 m2).
Proof. exact (marshal_map_perm o kt vt n1 n2 m1 m2). Qed.

(* ... nor on levels of pointer or interface indirection *)
Theorem c08_indirection_ptr o t v :
  marshal o (TPtr t) (GPtr (Some v)) = marshal o t v.
Proof. exact (marshal_ptr o t v). Qed.

Theorem c08_indirection_any o t v :
  marshal o TAny (GAny (Some (t, v))) = marshal o t v.
Proof. exact (marshal_any o t v). Qed.

(* NaN keys are rejected as BadMapKey *)
Theorem c08_bad_key_rejected o t kt vt isnil m k x :
  underlying t = TMap kt vt -> has_type t (GMap isnil m) = true -> In (k, x) m ->
  marshal default_opts kt k = Ok [T KNaN VNone] ->
  marshal o t (GMap isnil m) = Err EBadMapKey.
Proof. exact (bad_key_rejected_anywhere o t kt vt isnil m k x). Qed.

(* every emitted token is well-formed and no float token carries a NaN payload *)
Theorem c08_tokens_wf o t v ts :
  wf_ty t = true -> has_type t v = true -> wf_dyn v = true -> marshal o t v = Ok ts ->
  Forall (fun tk => wf_cmp tk = true) ts.
Proof. exact (marshal_tokens_wf o t v ts). Qed.

(* marshalling a typed value succeeds unless a map key is NaN-like *)
Theorem c08_total o t v :
  has_type t v = true -> no_bad_keys v = true -> exists ts, marshal o t v = Ok ts.
Proof. exact (marshal_total_strong o t v). Qed.

Theorem c08_only_error_is_bad_key o t v :
  has_type t v = true ->
  (exists ts, marshal o t v = Ok ts) \/ (marshal o t v = Err EBadMapKey /\ no_bad_keys v = false).
Proof. exact (marshal_ok_or_bad_key o t v). Qed.

(* the domain edge: distinct keys with EQUAL key streams (+0 and -0) marshal in iteration order *)
Theorem c08_tied_keys_edge  :
  let m1 := [(GF64 0, GBool true); (GF64 9223372036854775808, GBool false)] in
  let m2 := [(GF64 9223372036854775808, GBool false); (GF64 0, GBool true)] in
  Permutation m1 m2 /\ has_type (TMap TF64 TBool) (GMap false m1) = true /\
  marshal default_opts (TMap TF64 TBool) (GMap false m1) <>
  marshal default_opts (TMap TF64 TBool) (GMap false m2).
Proof. exact (marshal_map_perm_needs_distinct ). Qed.

Print Assumptions c08_scalar_int.
Print Assumptions c08_scalar_uint.
Print Assumptions c08_scalar_uintptr.
Print Assumptions c08_scalar_bool.
Print Assumptions c08_scalar_string.
Print Assumptions c08_nan64.
Print Assumptions c08_num64.
Print Assumptions c08_nan32.
Print Assumptions c08_num32.
Print Assumptions c08_nil_ptr.
Print Assumptions c08_nil_any.
Print Assumptions c08_bytes.
Print Assumptions c08_byte_array.
Print Assumptions c08_struct.
Print Assumptions c08_tuple.
Print Assumptions c08_registered_prefix.
Print Assumptions c08_unregistered_no_prefix.
Print Assumptions c08_map_sorted.
Print Assumptions c08_map_order_independent.
Print Assumptions c08_indirection_ptr.
Print Assumptions c08_indirection_any.
Print Assumptions c08_bad_key_rejected.
Print Assumptions c08_tokens_wf.
Print Assumptions c08_total.
Print Assumptions c08_only_error_is_bad_key.
Print Assumptions c08_tied_keys_edge.
