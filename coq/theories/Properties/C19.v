(* C19 — Independent pipelines are safe to run concurrently  (partial: the protocol logic).
   Abstract/PoolSchedules.v is an interleaving model of the shared scratch-buffer pools
   (pr3.Pool as used by hash.go, tree_hash.go, decode.go: Get = CAS 0->1 on a randomly chosen
   slot, 16 tries, then a private fallback element; use = write then read the buffer; Put =
   release).  A schedule is an arbitrary list of (thread, slot choice) pairs.  What a Gallina
   model cannot exhibit - the Go memory model, data races on any other memory - is covered by
   the stress run under the race detector (see DESIGN.md, C19). *)
From Coq Require Import List Arith.
From SbModel Require Import Abstract.PoolSchedules.
Import ListNotations.

(* exclusivity: each pool slot has at most one holder, a held slot is marked taken, a written
   buffer holds its holder's data (shared or private element), all recorded results are correct;
   preserved by every atomic step of every thread under every slot choice *)
Theorem c19_pool_exclusive s t c : Inv s -> Inv (step s t c).
Proof. exact (step_inv s t c). Qed.

Theorem c19_init progs : Inv (init progs).
Proof. exact (init_inv progs). Qed.

(* under EVERY schedule each operation reads back exactly what it wrote, i.e. the result it
   obtains running alone *)
Theorem c19_results_schedule_independent progs sched t e r :
  In (t, e, r) (results (run (init progs) sched)) -> r = e.
Proof. exact (schedule_independent progs sched t e r). Qed.

Print Assumptions c19_pool_exclusive.
Print Assumptions c19_init.
Print Assumptions c19_results_schedule_independent.

(* ---- the shared CACHES and REGISTRIES: restated from Abstract/MemoSchedules.v (statements printed by Coq, see tools/genmod.py) ---- *)

From SbModel Require Abstract.MemoSchedules.
Module Caches.
Import MemoSchedules.

(* the memo tables (type name by type, deprecation verdict by (type, field): Load, compute, Store - in Go with a deferred Store, so the result is returned BEFORE it is stored; also the LoadOrStore form): every entry is (k, f k), every value a thread holds is f of its key; preserved by every atomic step of every thread *)
Theorem c19_memo_inv :
  forall (f : key -> val) (s : sys) (t : tid), Inv f s -> Inv f (step f s t).
Proof. exact step_inv. Qed.

(* under EVERY schedule every lookup obtains f key - what it obtains alone - although several threads may miss and store the same key *)
Theorem c19_memo_schedule_independent :
  forall (f : key -> val) (progs : tid -> list op) (sched : schedule) (t : tid) (k : key) (v : val),
         List.In (t, k, v) (results (run f (init progs) sched)) -> v = f k.
Proof. exact memo_schedule_independent. Qed.

(* C19 literally, for the caches: a thread's whole log equals the log of the same program run alone *)
Theorem c19_memo_same_as_alone :
  forall (f : key -> val) (progs : tid -> list op) (sched : schedule) (t : tid),
         th (run f (init progs) sched) t = Finished ->
         log_of t (results (run f (init progs) sched)) =
         log_of t (results (run f (init progs) (alone_schedule (progs t) t))).
Proof. exact memo_same_as_alone. Qed.

Theorem c19_memo_table_grows :
  forall (f : key -> val) (progs : tid -> list op) (sched1 : schedule) (sched2 : list tid)
           (k : key) (v : val),
         tbl (run f (init progs) sched1) k = Some v ->
         tbl (run f (init progs) (sched1 ++ sched2)%list) k = Some v.
Proof. exact memo_table_grows. Qed.

(* the recursive form (TypeName of a pointer type looks its element type up between its own Load and its deferred Store) *)
Theorem c19_nested_memo_schedule_independent :
  forall (sub : key -> option key) (g : key -> option val -> val) (f : key -> val),
         (forall k : key, f k = g k (option_map f (sub k))) ->
         forall (progs : tid -> list key) (sched : schedule) (t : tid) (k : key) (v : val),
         List.In (t, k, v) (nresults (nrun sub g (ninit progs) sched)) -> v = f k.
Proof. exact nested_memo_schedule_independent. Qed.

(* the registries (name -> type and type -> name, two LoadOrStores per Register): an entry once seen is seen forever *)
Theorem c19_registry_entries_never_change :
  forall (nm : ty -> name) (s : rsys) (sched : schedule) (q : query) (x : nat),
         answer s q = Some x -> answer (rrun nm s sched) q = Some x.
Proof. exact registry_entries_never_change. Qed.

Theorem c19_registry_monotone :
  forall (nm : ty -> name) (progs : tid -> list rop) (sched1 : schedule) (sched2 : list tid)
           (r : tid) (q : query) (x : nat),
         List.In (r, q, Some x) (robs (rrun nm (rinit progs) sched1)) ->
         exists later : list (tid * query * option nat),
           robs (rrun nm (rinit progs) (sched1 ++ sched2)%list) =
           (later ++ robs (rrun nm (rinit progs) sched1))%list /\
           (forall (r' : tid) (a : option nat), List.In (r', q, a) later -> a = Some x).
Proof. exact registry_monotone. Qed.

(* a Register that completed before a reader starts is seen in both directions (names do not collide) *)
Theorem c19_registry_consistent_pairs :
  forall (nm : ty -> name) (progs : tid -> list rop) (sched1 : schedule) (sched2 : list tid)
           (w : tid) (x : ty),
         (forall x' : ty, nm x' = nm x -> x' = x) ->
         List.In (Reg x) (progs w) ->
         rth (rrun nm (rinit progs) sched1) w = RFinished ->
         exists later : list (tid * query * option nat),
           robs (rrun nm (rinit progs) (sched1 ++ sched2)%list) =
           (later ++ robs (rrun nm (rinit progs) sched1))%list /\
           (forall (r : tid) (a : option nat), List.In (r, QT x, a) later -> a = Some (nm x)) /\
           (forall (r : tid) (a : option nat), List.In (r, QN (nm x), a) later -> a = Some x).
Proof. exact registry_consistent_pairs. Qed.

(* a pipeline whose types were all registered before it started obtains, under every schedule of other threads registering other types, exactly the answers it obtains alone *)
Theorem c19_registered_before_start_independent :
  forall (nm : ty -> name) (s0 : rsys) (r : tid) (qs : list query),
         rth s0 r = RIdle (List.map Look qs) ->
         (forall q : query, List.In q qs -> stable nm s0 q) ->
         forall sched : schedule,
         rth (rrun nm s0 sched) r = RFinished ->
         rlog_of r (robs (rrun nm s0 sched)) = rlog_of r (robs (rrun nm s0 (ralone_schedule r qs))).
Proof. exact registered_before_start_independent. Qed.

(* the edges: Register is not atomic for a concurrent reader of the SAME type (one direction visible before the other) ... *)
Theorem c19_registry_window_edge :
  exists (progs : tid -> list rop) (sched : schedule) (r : tid) (x : ty),
           rth (rrun ex_nm (rinit progs) sched) 0 = RHalf x nil /\
           robs (rrun ex_nm (rinit progs) sched) = ((r, QT x, None) :: (r, QN (ex_nm x), Some x) :: nil)%list.
Proof. exact registry_window_refuted. Qed.

(* ... and two types with the same name make the owner of the name depend on the schedule: both are outside 'independent data' *)
Theorem c19_registry_name_collision_edge :
  exists
           (nm : ty -> name) (progs : tid -> list rop) (sched1 : schedule) (sched2 : list tid)
         (w : tid) (x : ty) (r : tid) (a : option nat),
           List.In (Reg x) (progs w) /\
           rth (rrun nm (rinit progs) sched1) w = RFinished /\
           robs (rrun nm (rinit progs) (sched1 ++ sched2)%list) =
           (((r, QN (nm x), a) :: nil) ++ robs (rrun nm (rinit progs) sched1))%list /\
           a <> Some x.
Proof. exact registry_consistent_pairs_refuted. Qed.

(* non-vacuity: two threads both miss and both store *)
Theorem c19_memo_example :
  let s := run ex_f (init ex_progs) (0 :: 1 :: 2 :: 0 :: 1 :: nil)%list in
         (th s 0, th s 1, tbl s 3, results s) =
         (DeferStore 3 10 ((Plain, 4) :: nil), Returning 3 10 ((LOS, 4) :: nil), Some 10,
          ((0, 3, 10) :: nil)%list) /\
         (let s' := step ex_f s 0 in (th s' 0, tbl s' 3) = (Idle ((Plain, 4) :: nil), Some 10)).
Proof. exact ex_both_store. Qed.

End Caches.

Print Assumptions Caches.c19_memo_inv.
Print Assumptions Caches.c19_memo_schedule_independent.
Print Assumptions Caches.c19_memo_same_as_alone.
Print Assumptions Caches.c19_memo_table_grows.
Print Assumptions Caches.c19_nested_memo_schedule_independent.
Print Assumptions Caches.c19_registry_entries_never_change.
Print Assumptions Caches.c19_registry_monotone.
Print Assumptions Caches.c19_registry_consistent_pairs.
Print Assumptions Caches.c19_registered_before_start_independent.
Print Assumptions Caches.c19_registry_window_edge.
Print Assumptions Caches.c19_registry_name_collision_edge.
Print Assumptions Caches.c19_memo_example.
