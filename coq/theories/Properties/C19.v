(* C19 — Independent pipelines are safe to run concurrently  (partial: the protocol logic).
   Abstract/PoolSchedules.v is an interleaving model of the shared scratch-buffer pools
   (pr3.Pool as used by hash.go, tree_hash.go, decode.go: Get = CAS 0->1 on a randomly chosen
   slot, 16 tries, then a private fallback element; use = write then read the buffer; Put =
   release).  A schedule is an arbitrary list of (thread, slot choice) pairs.  What a Gallina
   model cannot exhibit - the Go memory model, data races on any other memory - is covered by
   the stress run under the race detector (see DESIGN.md, C19). *)
From Coq Require Import List Arith.
From SbModel Require Import Abstract.PoolSchedules.
Import ListNotations.

(* exclusivity: each pool slot has at most one holder, a held slot is marked taken, a written
   buffer holds its holder's data (shared or private element), all recorded results are correct;
   preserved by every atomic step of every thread under every slot choice *)
Theorem c19_pool_exclusive s t c : Inv s -> Inv (step s t c).
Proof. exact (step_inv s t c). Qed.

Theorem c19_init progs : Inv (init progs).
Proof. exact (init_inv progs). Qed.

(* under EVERY schedule each operation reads back exactly what it wrote, i.e. the result it
   obtains running alone *)
Theorem c19_results_schedule_independent progs sched t e r :
  In (t, e, r) (results (run (init progs) sched)) -> r = e.
Proof. exact (schedule_independent progs sched t e r). Qed.

Print Assumptions c19_pool_exclusive.
Print Assumptions c19_init.
Print Assumptions c19_results_schedule_independent.
