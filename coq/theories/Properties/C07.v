(* C07 — All comparison routes agree. *)
From SbModel Require Import Model.Compare Spec.LexOrder Proofs.CompareP.
Local Open Scope N_scope.

(* comparing the token streams, comparing their encodings with the byte-level comparator,
   and comparing the encodings through the segmenting decoder all give the same sign *)
Theorem c07_routes_agree maxlen a b : Forall wf_route a -> Forall wf_route b ->
  (forall t, In t (a ++ b) -> match val t with VStr s | VBytes s => lenN s <= maxlen | _ => True end) ->
  exists c, cmp_tokens a b = Some c /\ cmp_bytes (encode a) (encode b) = CB c /\
            cmp_segmented maxlen (encode a) (encode b) = Some c.
Proof. exact (routes_agree maxlen a b). Qed.

Theorem c07_bytes_route a b : Forall wf_route a -> Forall wf_route b ->
  cmp_bytes (encode a) (encode b) = CB (lex a b).
Proof. exact (bytes_route a b). Qed.

Theorem c07_segmented_route maxlen a b : Forall wf_route a -> Forall wf_route b ->
  (forall t, In t (a ++ b) -> match val t with VStr s | VBytes s => lenN s <= maxlen | _ => True end) ->
  cmp_segmented maxlen (encode a) (encode b) = Some (lex a b).
Proof. exact (segmented_route maxlen a b). Qed.

(* long strings and blobs split into segments compare exactly like the unsplit values ... *)
Theorem c07_segments_like_unsplit strk x y ra rb :
  cmp_tokens (seg_of strk x ++ ra) (seg_of strk y ++ rb)
  = cmp_tokens (mkseg (seg_kind strk) strk x :: ra) (mkseg (seg_kind strk) strk y :: rb).
Proof. exact (segments_like_unsplit strk x y ra rb). Qed.

(* ... including when one is a prefix of the other *)
Theorem c07_segments_prefix strk x z ra rb : z <> [] ->
  cmp_tokens (seg_of strk x ++ ra) (seg_of strk (x ++ z) ++ rb) = Some Lt.
Proof. exact (segments_prefix strk x z ra rb). Qed.

Print Assumptions c07_routes_agree.
Print Assumptions c07_bytes_route.
Print Assumptions c07_segmented_route.
Print Assumptions c07_segments_like_unsplit.
Print Assumptions c07_segments_prefix.
