(* C01 — Typed value round trip through tokens and through bytes.  PARTIAL as a theorem: the round trip is proved for the universe simple_ty (scalars of every width, strings, byte slices and byte arrays, arrays, slices, structs with exported and unexported fields, pointers, time values, named and registered types - no maps, interfaces, tuple funcs); those three type constructors are covered by the correspondence (Model/Marshal.v, Model/Unmarshal.v evaluated on every generated case) and by the direct round-trip oracle of the harness.  `normal` (Spec/Conform.v) is the property's equivalence made functional: unexported fields stay zero, nil and empty slices coincide, NaN comes back as NaN. *)
From SbModel Require Import Model.Marshal Model.Unmarshal Spec.Conform Proofs.MarshalP Proofs.UnmarshalP.
Local Open Scope nat_scope.

From SbModel Require Import Model.Codec Spec.DecodeGrammar Proofs.CodecP.

Local Open Scope N_scope.
(* marshalling a typed value succeeds (NaN-like map keys are BadMapKey by design) *)
Theorem c01_marshal_total o t v :
  has_type t v = true -> no_bad_keys v = true -> exists ts, marshal o t v = Ok ts.
Proof. exact (marshal_total_strong o t v). Qed.

(* marshalling v and unmarshalling the stream into a zero T yields the equivalent value, whatever follows in the stream.  Hypothesis no_ptr_to_nil is the known finding (a non-nil pointer to a nil pointer is not expressible on the wire).  Registered types of every underlying type are included (the two counterexamples of an earlier version of this file - a registered named pointer type, a registered time.Time - were reproduced on the code and repaired in /repo commit 7c4eea8; they are the positive examples below) *)
Theorem c01_roundtrip_tokens_partial pf o R t v ts rest :
  wf_ty t = true -> simple_ty t = true ->
  has_type t v = true -> no_ptr_to_nil v = true ->
  marshal default_opts t v = Ok ts ->
  exists f, unm pf f o R t (zero t) (ts ++ rest) = Ok (normal t v, rest).
Proof. exact (roundtrip_simple pf o R t v ts rest). Qed.

(* with an explicit fuel bound *)
Theorem c01_roundtrip_tokens_fuel pf o R t v ts rest f :
  wf_ty t = true -> simple_ty t = true ->
  has_type t v = true -> no_ptr_to_nil v = true ->
  marshal default_opts t v = Ok ts -> (2 * vsize v < f)%nat ->
  unm pf f o R t (zero t) (ts ++ rest) = Ok (normal t v, rest).
Proof. exact (roundtrip_simple_fuel pf o R t v ts rest f). Qed.

(* for values in normal form the round trip is the identity *)
Theorem c01_roundtrip_exact pf o R t v ts rest :
  wf_ty t = true -> simple_ty t = true ->
  has_type t v = true -> no_ptr_to_nil v = true -> canonical_val t v ->
  marshal default_opts t v = Ok ts ->
  exists f, unm pf f o R t (zero t) (ts ++ rest) = Ok (v, rest).
Proof. exact (roundtrip_simple_exact pf o R t v ts rest). Qed.

(* a registered named POINTER type: the nil value marshals to TypeName P, Nil and comes back nil *)
Theorem c01_registered_pointer_roundtrip pf o R rest :
  marshal default_opts RegPtr (GPtr None) = Ok [T KTypeName (VStr [80]); T KNil VNone] /\
  exists f, unm pf f o R RegPtr (zero RegPtr) ([T KTypeName (VStr [80]); T KNil VNone] ++ rest) = Ok (GPtr None, rest).
Proof. exact (roundtrip_regptr_nil pf o R rest). Qed.

(* and a non-nil one comes back with its pointee *)
Theorem c01_registered_pointer_nonnil pf o R rest :
  exists f, unm pf f o R RegPtr (zero RegPtr) ([T KTypeName (VStr [80]); T KInt (VI WNat 7)] ++ rest)
            = Ok (GPtr (Some (GInt 7)), rest).
Proof. exact (roundtrip_regptr_nonnil pf o R rest). Qed.

(* a registered time.Time (any registered Binary/TextUnmarshaler): the type name is skipped before the bridge reads the string token *)
Theorem c01_registered_time_roundtrip pf o R rest :
  marshal default_opts RegTime (GTime zero_time) = Ok [T KTypeName (VStr [84]); T KString (VStr zero_time)] /\
  exists f, unm pf f o R RegTime (zero RegTime) ([T KTypeName (VStr [84]); T KString (VStr zero_time)] ++ rest)
            = Ok (GTime zero_time, rest).
Proof. exact (roundtrip_regtime pf o R rest). Qed.

(* non-vacuity: a nested value (arrays of pointers to structs with unexported fields, NaN, nil bytes, nil slice, time, pointer to pointer) meets every hypothesis *)
Theorem c01_example_hypotheses  :
  wf_ty ExOuter = true /\ simple_ty ExOuter = true /\
  has_type ExOuter ex_outer = true /\ no_ptr_to_nil ex_outer = true /\
  exists ts, marshal default_opts ExOuter ex_outer = Ok ts.
Proof. exact (roundtrip_ex_hyps ). Qed.

(* and the theorem applied to it *)
Theorem c01_example_roundtrip  :
  forall pf o R ts rest,
  marshal default_opts ExOuter ex_outer = Ok ts ->
  exists f, unm pf f o R ExOuter (zero ExOuter) (ts ++ rest) = Ok (normal ExOuter ex_outer, rest).
Proof. exact (roundtrip_ex_thm ). Qed.

Print Assumptions c01_marshal_total.
Print Assumptions c01_roundtrip_tokens_partial.
Print Assumptions c01_roundtrip_tokens_fuel.
Print Assumptions c01_roundtrip_exact.
Print Assumptions c01_registered_pointer_roundtrip.
Print Assumptions c01_registered_pointer_nonnil.
Print Assumptions c01_registered_time_roundtrip.
Print Assumptions c01_example_hypotheses.
Print Assumptions c01_example_roundtrip.
