(* C01 — Typed value round trip through tokens and through bytes.  PARTIAL as a theorem: the round trip is proved for the universe simple_ty (scalars of every width, strings, byte slices and byte arrays, arrays, slices, structs with exported and unexported fields, pointers, time values, named and registered types - no maps, interfaces, tuple funcs); those three type constructors are covered by the correspondence (Model/Marshal.v, Model/Unmarshal.v evaluated on every generated case) and by the direct round-trip oracle of the harness.  `normal` (Spec/Conform.v) is the property's equivalence made functional: unexported fields stay zero, nil and empty slices coincide, NaN comes back as NaN. *)
From SbModel Require Import Model.Marshal Model.Unmarshal Spec.Conform Proofs.MarshalP Proofs.UnmarshalP.
Local Open Scope nat_scope.

From SbModel Require Import Model.Codec Spec.DecodeGrammar Proofs.CodecP.

Local Open Scope N_scope.
(* marshalling a typed value succeeds (NaN-like map keys are BadMapKey by design) *)
Theorem c01_marshal_total o t v :
  has_type t v = true -> no_bad_keys v = true -> exists ts, marshal o t v = Ok ts.
Proof. exact (marshal_total_strong o t v). Qed.

(* marshalling v and unmarshalling the stream into a zero T yields the equivalent value, whatever follows in the stream.  Hypotheses: no_ptr_to_nil (the known finding: a non-nil pointer to a nil pointer is not expressible on the wire) and reg_ok (a REGISTERED defined type whose underlying type is a pointer or time.Time does not round-trip: see the two _refuted theorems) *)
Theorem c01_roundtrip_tokens_partial pf o R t v ts rest :
  wf_ty t = true -> simple_ty t = true -> reg_ok t = true ->
  has_type t v = true -> no_ptr_to_nil v = true ->
  marshal default_opts t v = Ok ts ->
  exists f, unm pf f o R t (zero t) (ts ++ rest) = Ok (normal t v, rest).
Proof. exact (roundtrip_simple_partial pf o R t v ts rest). Qed.

(* with an explicit fuel bound *)
Theorem c01_roundtrip_tokens_fuel pf o R t v ts rest f :
  wf_ty t = true -> simple_ty t = true -> reg_ok t = true ->
  has_type t v = true -> no_ptr_to_nil v = true ->
  marshal default_opts t v = Ok ts -> (2 * vsize v < f)%nat ->
  unm pf f o R t (zero t) (ts ++ rest) = Ok (normal t v, rest).
Proof. exact (roundtrip_simple_fuel pf o R t v ts rest f). Qed.

(* for values in normal form the round trip is the identity *)
Theorem c01_roundtrip_exact pf o R t v ts rest :
  wf_ty t = true -> simple_ty t = true -> reg_ok t = true ->
  has_type t v = true -> no_ptr_to_nil v = true -> canonical_val t v ->
  marshal default_opts t v = Ok ts ->
  exists f, unm pf f o R t (zero t) (ts ++ rest) = Ok (v, rest).
Proof. exact (roundtrip_simple_exact pf o R t v ts rest). Qed.

(* a registered named POINTER type: the nil value comes back non-nil (TypeName P, Nil is read through the pointer first) *)
Theorem c01_registered_pointer_refuted  :
  exists pf o R t v ts,
    wf_ty t = true /\ simple_ty t = true /\ has_type t v = true /\ no_ptr_to_nil v = true /\
    marshal default_opts t v = Ok ts /\
    forall f, unm pf f o R t (zero t) (ts ++ []) <> Ok (normal t v, []).
Proof. exact (roundtrip_simple_refuted ). Qed.

(* a registered time.Time (any registered Binary/TextUnmarshaler): the bridge meets the TypeName token and reports a mismatch *)
Theorem c01_registered_time_refuted  :
  exists pf o R t v ts,
    wf_ty t = true /\ simple_ty t = true /\ has_type t v = true /\ no_ptr_to_nil v = true /\
    marshal default_opts t v = Ok ts /\
    forall f, unm pf f o R t (zero t) (ts ++ []) <> Ok (normal t v, []).
Proof. exact (roundtrip_simple_refuted_time ). Qed.

Print Assumptions c01_marshal_total.
Print Assumptions c01_roundtrip_tokens_partial.
Print Assumptions c01_roundtrip_tokens_fuel.
Print Assumptions c01_roundtrip_exact.
Print Assumptions c01_registered_pointer_refuted.
Print Assumptions c01_registered_time_refuted.
