(* C01 — Typed value round trip through tokens and through bytes.  Two layers.  (1) c01_roundtrip_full*: the whole universe - maps, interface-typed positions, tuple funcs, structs, pointers, named and registered types - under the domain predicates ty_ok / dom (Proofs/RoundTripFullP.v): map keys with pairwise distinct key streams, a nil tuple func has no results, a registered dynamic type in an interface position is known to the reader's registry, other interface contents lie in the domain where schema-less decoding is lossless (any_stream_ok), interface-typed map keys hold a one-token value; equivalence `equiv` = the property's: deep equality where nil and empty slices/maps coincide, NaN equals NaN, tuple funcs are compared by their results, interface positions by their canonical stream.  PARTIAL: not covered - interface values nested below the top of a map key, registered types nested inside []any / map[string]any held in an interface, funcs with more than 50 results (see c01_roundtrip_full_refuted for the six edges, each cut away by exactly one clause).  (2) c01_roundtrip_tokens*: the universe simple_ty (no maps, interfaces, tuple funcs) with the FUNCTIONAL normal form `normal` (unexported fields zero, nil/empty coincide, NaN canonical); c01_equiv_normal ties the two.  The byte route composes with c02_decode_encode.  Everything outside the proved domains is decided by the correspondence (Model/Marshal.v, Model/Unmarshal.v evaluated on every generated case) and the Go round-trip oracle. *)
From SbModel Require Import Model.Marshal Model.Unmarshal Spec.Conform Proofs.MarshalP Proofs.UnmarshalP Proofs.AnyP Proofs.RoundTripFullP.
Local Open Scope nat_scope.

From SbModel Require Import Model.Codec Spec.DecodeGrammar Proofs.CodecP.

Local Open Scope N_scope.
(* marshalling a typed value succeeds (NaN-like map keys are BadMapKey by design) *)
Theorem c01_marshal_total o t v :
  has_type t v = true -> no_bad_keys v = true -> exists ts, marshal o t v = Ok ts.
Proof. exact (marshal_total_strong o t v). Qed.

(* marshalling v and unmarshalling the stream into a zero T yields the equivalent value, whatever follows in the stream.  Hypothesis no_ptr_to_nil is the known finding (a non-nil pointer to a nil pointer is not expressible on the wire).  Registered types of every underlying type are included (the two counterexamples of an earlier version of this file - a registered named pointer type, a registered time.Time - were reproduced on the code and repaired in /repo commit 7c4eea8; they are the positive examples below) *)
Theorem c01_roundtrip_tokens_partial pf o R t v ts rest :
  wf_ty t = true -> simple_ty t = true ->
  has_type t v = true -> no_ptr_to_nil v = true ->
  marshal default_opts t v = Ok ts ->
  exists f, unm pf f o R t (zero t) (ts ++ rest) = Ok (normal t v, rest).
Proof. exact (roundtrip_simple pf o R t v ts rest). Qed.

(* with an explicit fuel bound *)
Theorem c01_roundtrip_tokens_fuel pf o R t v ts rest f :
  wf_ty t = true -> simple_ty t = true ->
  has_type t v = true -> no_ptr_to_nil v = true ->
  marshal default_opts t v = Ok ts -> (2 * vsize v < f)%nat ->
  unm pf f o R t (zero t) (ts ++ rest) = Ok (normal t v, rest).
Proof. exact (roundtrip_simple_fuel pf o R t v ts rest f). Qed.

(* for values in normal form the round trip is the identity *)
Theorem c01_roundtrip_exact pf o R t v ts rest :
  wf_ty t = true -> simple_ty t = true ->
  has_type t v = true -> no_ptr_to_nil v = true -> canonical_val t v ->
  marshal default_opts t v = Ok ts ->
  exists f, unm pf f o R t (zero t) (ts ++ rest) = Ok (v, rest).
Proof. exact (roundtrip_simple_exact pf o R t v ts rest). Qed.

(* a registered named POINTER type: the nil value marshals to TypeName P, Nil and comes back nil *)
Theorem c01_registered_pointer_roundtrip pf o R rest :
  marshal default_opts RegPtr (GPtr None) = Ok [T KTypeName (VStr [80]); T KNil VNone] /\
  exists f, unm pf f o R RegPtr (zero RegPtr) ([T KTypeName (VStr [80]); T KNil VNone] ++ rest) = Ok (GPtr None, rest).
Proof. exact (roundtrip_regptr_nil pf o R rest). Qed.

(* and a non-nil one comes back with its pointee *)
Theorem c01_registered_pointer_nonnil pf o R rest :
  exists f, unm pf f o R RegPtr (zero RegPtr) ([T KTypeName (VStr [80]); T KInt (VI WNat 7)] ++ rest)
            = Ok (GPtr (Some (GInt 7)), rest).
Proof. exact (roundtrip_regptr_nonnil pf o R rest). Qed.

(* a registered time.Time (any registered Binary/TextUnmarshaler): the type name is skipped before the bridge reads the string token *)
Theorem c01_registered_time_roundtrip pf o R rest :
  marshal default_opts RegTime (GTime zero_time) = Ok [T KTypeName (VStr [84]); T KString (VStr zero_time)] /\
  exists f, unm pf f o R RegTime (zero RegTime) ([T KTypeName (VStr [84]); T KString (VStr zero_time)] ++ rest)
            = Ok (GTime zero_time, rest).
Proof. exact (roundtrip_regtime pf o R rest). Qed.

(* non-vacuity: a nested value (arrays of pointers to structs with unexported fields, NaN, nil bytes, nil slice, time, pointer to pointer) meets every hypothesis *)
Theorem c01_example_hypotheses  :
  wf_ty ExOuter = true /\ simple_ty ExOuter = true /\
  has_type ExOuter ex_outer = true /\ no_ptr_to_nil ex_outer = true /\
  exists ts, marshal default_opts ExOuter ex_outer = Ok ts.
Proof. exact (roundtrip_ex_hyps ). Qed.

(* and the theorem applied to it *)
Theorem c01_example_roundtrip  :
  forall pf o R ts rest,
  marshal default_opts ExOuter ex_outer = Ok ts ->
  exists f, unm pf f o R ExOuter (zero ExOuter) (ts ++ rest) = Ok (normal ExOuter ex_outer, rest).
Proof. exact (roundtrip_ex_thm ). Qed.

(* maps, interface positions, tuple funcs included: marshalling v and unmarshalling into a zero T yields an EQUIVALENT value, whatever follows in the stream *)
Theorem c01_roundtrip_full_partial pf o R t v ts rest :
  wf_ty t = true -> ty_ok t = true -> has_type t v = true -> no_ptr_to_nil v = true -> dom R t v ->
  marshal default_opts t v = Ok ts ->
  exists f v', unm pf f o R t (zero t) (ts ++ rest) = Ok (v', rest) /\ equiv t v v'.
Proof. exact (roundtrip_full_partial pf o R t v ts rest). Qed.

(* explicit fuel; moreover the result re-marshals to the identical stream *)
Theorem c01_roundtrip_full_partial_fuel pf o R t v ts rest f :
  wf_ty t = true -> ty_ok t = true -> has_type t v = true -> dom R t v ->
  marshal default_opts t v = Ok ts -> (2 * fsz v + length ts < f)%nat ->
  exists v', unm pf f o R t (zero t) (ts ++ rest) = Ok (v', rest) /\ equiv t v v' /\
             marshal default_opts t v' = Ok ts.
Proof. exact (roundtrip_full_partial_fuel pf o R t v ts rest f). Qed.

(* one result for every sufficient fuel *)
Theorem c01_roundtrip_full_stable pf o R t v ts rest :
  wf_ty t = true -> ty_ok t = true -> has_type t v = true -> dom R t v ->
  marshal default_opts t v = Ok ts ->
  exists v', equiv t v v' /\ marshal default_opts t v' = Ok ts /\
             forall f, (2 * fsz v + length ts < f)%nat -> unm pf f o R t (zero t) (ts ++ rest) = Ok (v', rest).
Proof. exact (roundtrip_full_partial_stable pf o R t v ts rest). Qed.

(* on the first universe the equivalence agrees with the functional normal form *)
Theorem c01_equiv_normal  :
  forall v t, simple_ty t = true -> has_type t v = true -> equiv t v (normal t v).
Proof. exact (equiv_normal ). Qed.

Local Open Scope N_scope.
(* non-vacuity: a ten-field struct (map[string][]int8 with two entries, any holding an int, a two-result func, a pointer to map[int]float64 with a NaN value, any holding a registered struct that has an any field, an unexported field, a nil func, a map keyed by structs, a defined interface type, map[any]string with string / defined-int / nil keys) meets every hypothesis *)
Theorem c01_full_example_hyps  :
  wf_ty ExFull = true /\ ty_ok ExFull = true /\ has_type ExFull ex_full = true /\
  no_ptr_to_nil ex_full = true /\ dom ExRegistry ExFull ex_full /\
  marshal default_opts ExFull ex_full = Ok ex_full_ts /\ length ex_full_ts = 65%nat.
Proof. exact (roundtrip_full_ex_hyps ). Qed.

(* and the theorem applied to it *)
Theorem c01_full_example_roundtrip  :
  forall pf o rest,
  exists f v', unm pf f o ExRegistry ExFull (zero ExFull) (ex_full_ts ++ rest) = Ok (v', rest) /\
               equiv ExFull ex_full v'.
Proof. exact (roundtrip_full_ex_thm ). Qed.

Local Open Scope N_scope.
(* map[any]int{[2]byte{1,2}: 5}: refuted by an earlier version of this proof, reproduced on the code, repaired in /repo (toComparable in the typed map path) *)
Theorem c01_bytes_key_in_any  :
  (wf_ty ExBytesKeyT = true /\ ty_ok ExBytesKeyT = true /\ has_type ExBytesKeyT ex_bytes_key = true /\
   no_ptr_to_nil ex_bytes_key = true /\ dom [] ExBytesKeyT ex_bytes_key /\
   marshal default_opts ExBytesKeyT ex_bytes_key =
     Ok [T KMap VNone; T KBytes (VBytes [1; 2]); T KInt (VI WNat 5); T KMapEnd VNone]) /\
  unm (fun _ _ => None) 20 default_opts [] ExBytesKeyT (zero ExBytesKeyT)
      ([T KMap VNone; T KBytes (VBytes [1; 2]); T KInt (VI WNat 5); T KMapEnd VNone] ++ [T KBool (VBool true)])
    = Ok (ex_bytes_key, [T KBool (VBool true)]) /\
  (forall pf o R rest, exists f v',
     unm pf f o R ExBytesKeyT (zero ExBytesKeyT)
         ([T KMap VNone; T KBytes (VBytes [1; 2]); T KInt (VI WNat 5); T KMapEnd VNone] ++ rest) = Ok (v', rest) /\
     equiv ExBytesKeyT ex_bytes_key v').
Proof. exact (roundtrip_bytes_key_in_any ). Qed.

Local Open Scope N_scope.
(* the edges of the domain, each a concrete value that does NOT round-trip in the model: 1 = the known finding (pointer to nil interface), 2 = model only (Go's Register panics on type P *any), 3 = recorded finding ([2]int in an interface-typed map key; reproduced on the code), 4 = nil func with results (outside the property's quantifier), 5 = any holding a struct with a nil pointer field (outside the schema-less domain, C11), 6 = reader registry does not know the type *)
Theorem c01_roundtrip_full_refuted  :
  (* 1. *any pointing at a nil interface: marshals to Nil, comes back as a nil pointer
        (the interface-typed variant of the known **T finding; cut away by [dom]: nilish) *)
  refutes [] (TPtr TAny) (GPtr (Some (GAny None))) /\
  (* 2. a REGISTERED defined type over *any (type P *any; sb.Register(P)): the target does not
        skip its own TypeName, the interface it points to looks P up and receives a P value;
        the interface position holds [Int 5] before and [TypeName P, Int 5] after
        (cut away by [ty_ok]) *)
  refutes [([80], RegPtrAny)] RegPtrAny (GPtr (Some (GAny (Some (TInt WNat, GInt 5))))) /\
  (* 3. map[any]int with an array of ints as key: marshals, but the key is decoded schema-less into
        a []any, which is unhashable: BadMapKey (cut away by [dom]: [keyin]; confirmed on the Go
        code and recorded as a finding.  The byte-array variant of it was repaired - toComparable in
        the typed map path - and is now the positive example roundtrip_bytes_key_in_any) *)
  refutes [] (TMap TAny (TInt WNat))
    (GMap false [(GAny (Some (TArray 2 (TInt WNat), GList false [GInt 1; GInt 2])), GInt 5)]) /\
  (* 4. a nil tuple func with results: marshals to the empty tuple, TooFew on the way back
        (the stated edge; cut away by [dom]) *)
  refutes [] (TFunc [TInt WNat]) (GFunc None) /\
  (* 5. an interface holding a struct with a nil pointer field: schema-less decoding rejects a Nil
        field value (the edge of Proofs/AnyP.v; cut away by [dom]: any_stream_ok) *)
  refutes [] TAny (GAny (Some (TStruct [([65], true, TPtr TBool)], GStruct [GPtr None]))) /\
  (* 6. the hypothesis on the registry is needed: an interface holding a value of a registered
        type the READER's registry does not know: the TypeName is dropped, the position holds
        [TypeName R, Int 5] before and [Int 5] after *)
  refutes [] TAny (GAny (Some (TNamed [82] true [] (TInt WNat), GInt 5))).
Proof. exact (roundtrip_full_refuted ). Qed.

Local Open Scope N_scope.
(* each of them violates exactly one clause of ty_ok / dom *)
Theorem c01_refuted_outside_domain  :
  ~ dom [] (TPtr TAny) (GPtr (Some (GAny None))) /\
  ty_ok RegPtrAny = false /\
  ~ dom [] (TMap TAny (TInt WNat))
      (GMap false [(GAny (Some (TArray 2 (TInt WNat), GList false [GInt 1; GInt 2])), GInt 5)]) /\
  ~ dom [] (TFunc [TInt WNat]) (GFunc None) /\
  ~ dom [] TAny (GAny (Some (TStruct [([65], true, TPtr TBool)], GStruct [GPtr None]))) /\
  ~ dom [] TAny (GAny (Some (TNamed [82] true [] (TInt WNat), GInt 5))).
Proof. exact (refuted_outside_domain ). Qed.

Print Assumptions c01_marshal_total.
Print Assumptions c01_roundtrip_tokens_partial.
Print Assumptions c01_roundtrip_tokens_fuel.
Print Assumptions c01_roundtrip_exact.
Print Assumptions c01_registered_pointer_roundtrip.
Print Assumptions c01_registered_pointer_nonnil.
Print Assumptions c01_registered_time_roundtrip.
Print Assumptions c01_example_hypotheses.
Print Assumptions c01_example_roundtrip.
Print Assumptions c01_roundtrip_full_partial.
Print Assumptions c01_roundtrip_full_partial_fuel.
Print Assumptions c01_roundtrip_full_stable.
Print Assumptions c01_equiv_normal.
Print Assumptions c01_full_example_hyps.
Print Assumptions c01_full_example_roundtrip.
Print Assumptions c01_bytes_key_in_any.
Print Assumptions c01_roundtrip_full_refuted.
Print Assumptions c01_refuted_outside_domain.

(* ---- sb.Tuple / sb.TypedTuple as targets (tuple.go; Model/Tuples.v on top of the unmarshal model, compared with
   the code by the tuples correspondence family) ---- *)
From SbModel Require Import Model.Tuples Proofs.TuplesP.

(* a typed tuple read from the canonical streams of its items gives the items back, in normal form, whatever follows *)
Theorem c01_typed_tuple_roundtrip : forall pf o R types vals body rest f,
  all_ok types vals -> marshal_all types vals = Ok body -> (2 * vsize_all vals + 2 < f)%nat ->
  typed_tuple_unm pf f o R types [] (T KTuple VNone :: body ++ T KTupleEnd VNone :: rest)
    = Ok (items_of types (map2_normal types vals), rest).
Proof. exact typed_tuple_roundtrip. Qed.

(* a typed tuple with an empty target accepts what a func-typed target of the unmarshal model accepts, with the same
   values: every theorem about `unm` on TFunc carries over to sb.TypedTuple *)
Theorem c01_typed_tuple_is_func : forall pf f o R types cur ts items rest,
  Forall (fun t => t <> TAny) types -> (length types <= 50)%nat ->
  typed_tuple_unm pf f o R types [] ts = Ok (items, rest) ->
  unm pf (S f) o R (TFunc types) cur ts =
    Ok (GFunc (Some (map (fun d => match d with Some (_, v) => v | None => GAny None end) items)), rest).
Proof. exact typed_tuple_is_func. Qed.

(* a plain tuple with an empty target reads what the schema-less target reads on a Tuple token *)
Theorem c01_tuple_is_any : forall pf f o R ts items rest,
  tuple_unm pf f o R [] ts = Ok (items, rest) -> (length items <= 50)%nat ->
  unm pf (S f) o R TAny (GAny None) ts =
    Ok (GAny (Some (TFunc (map (fun d => match d with Some (t, _) => t | None => TAny end) items),
                    GFunc (Some (map (fun d => match d with Some (_, v) => v | None => GAny None end) items)))), rest).
Proof. exact tuple_unm_is_any. Qed.

Print Assumptions c01_typed_tuple_roundtrip.
Print Assumptions c01_typed_tuple_is_func.
Print Assumptions c01_tuple_is_any.
