(* C12 — Token trees are faithful to their streams. *)
From SbModel Require Import Model.Hash Model.Tree Spec.TreeSpec Proofs.HashP Proofs.TreeP.
Local Open Scope N_scope.

(* building a tree from a single-value stream gives THE tree of that value: each node's
   children are exactly its direct sub-values, every end marker is paired with its opening node *)
Theorem c12_children v : wf_value v = true -> build (flatten v) = inl (Some (plain_tree 0 v)).
Proof. exact (build_tree_of v). Qed.

(* iterating it (plainly, or through a mapping iterator that replaces nothing) reproduces the stream *)
Theorem c12_build_iter v : wf_value v = true ->
  exists t, build (flatten v) = inl (Some t) /\ iter t = flatten v /\ iter_func (fun _ => None) t = flatten v.
Proof. exact (build_iter v). Qed.

(* a stray end marker or more than one top-level value is rejected *)
Theorem c12_stray_end v k rest : wf_value v = true -> is_end_kind k = true ->
  build (flatten v ++ T k VNone :: rest) = inr EUnexpEndTok.
Proof. exact (stray_end v k rest). Qed.
Theorem c12_stray_end_first k rest : is_end_kind k = true -> build (T k VNone :: rest) = inr EUnexpEndTok.
Proof. exact (stray_end_first k rest). Qed.
Theorem c12_more_than_one v w : wf_value v = true -> wf_value w = true ->
  build (flatten v ++ flatten w) = inr EMoreThanOne.
Proof. exact (more_than_one v w). Qed.

(* hashes attached to nodes equal the hash of the sub-stream rooted at that node:
   FillHash attaches the Merkle hash to every node, WithHash to leaves, end markers and the root *)
Theorem c12_fill_hashes H v i : wf_value v = true -> fill_hash H (plain_tree i v) = inl (full_tree H i v).
Proof. intros Hw. exact (fill_hash_full H v Hw i). Qed.
Theorem c12_with_hash_nodes H v : wf_value v = true -> build_with_hash H (flatten v) = inl (Some (hashed_tree H v)).
Proof. exact (build_with_hash_tree H v). Qed.

(* looking a hash up returns a sub-stream with that hash whenever some sub-value has it ... *)
Theorem c12_find_complete H v s : wf_value v = true -> subvalue s v -> mhash H s <> [] ->
  exists ts, find_by_hash H (flatten v) (mhash H s) = inl ts.
Proof. exact (find_complete H v s). Qed.
Theorem c12_find_sound H v h ts : wf_value v = true -> find_by_hash H (flatten v) h = inl ts ->
  h <> [] /\ ((exists s, subvalue s v /\ mhash H s = h /\ ts = flatten s) \/
              (exists kc, is_end_kind kc = true /\ h = H [kc] /\ ts = [T kc VNone])).
Proof. exact (find_sound H v h ts). Qed.
Theorem c12_find_result_hash H v h ts : wf_value v = true -> find_by_hash H (flatten v) h = inl ts ->
  hash_result H ts = inl h.
Proof. exact (find_result_hash H v h ts). Qed.
(* ... and a not-found error otherwise *)
Theorem c12_not_found H v h : wf_value v = true ->
  (forall s, subvalue s v -> mhash H s <> h) -> (forall kc, is_end_kind kc = true -> H [kc] <> h) ->
  find_by_hash H (flatten v) h = inr ENotFound.
Proof. exact (find_absent H v h). Qed.

Print Assumptions c12_children.
Print Assumptions c12_build_iter.
Print Assumptions c12_stray_end.
Print Assumptions c12_stray_end_first.
Print Assumptions c12_more_than_one.
Print Assumptions c12_fill_hashes.
Print Assumptions c12_with_hash_nodes.
Print Assumptions c12_find_complete.
Print Assumptions c12_find_sound.
Print Assumptions c12_find_result_hash.
Print Assumptions c12_not_found.
