(* C20 — JSON token source mirrors the JSON document.  encoding/json's tokenizer is a contract (json_tokens: the delimiters, keys, strings, booleans, null and number texts of the AST in document order); DecodeJson's token map is mirrored by json_map / decode_json.  Agreement of the unmarshalled value with encoding/json.Unmarshal on the same target is decided by the harness against the real encoding/json on every generated document (the oracle the property names); the integer-range part of it is proved here (the literal theorems). *)
From SbModel Require Import Model.Json Proofs.JsonP.
Local Open Scope N_scope.

(* decoding a JSON text yields the token stream that mirrors it: arrays/objects as brackets, keys and strings as string tokens with their exact text, true/false as bool tokens, null as Nil, numbers as literal tokens carrying their source text *)
Theorem c20_mirror j :
  decode_json (json_tokens j) = (mirror j, ENone).
Proof. exact (decode_json_mirror j). Qed.

Theorem c20_mirror_map j :
  json_map (json_tokens j) = (mirror j, ENone).
Proof. exact (json_map_mirror j). Qed.

(* several top-level values, as encoding/json's tokenizer accepts them *)
Theorem c20_several_documents js :
  decode_json (flat_map json_tokens js) = (flat_map mirror js, ENone).
Proof. exact (decode_json_app js). Qed.

(* a document that ends inside a container is an error ... *)
Theorem c20_truncated ts :
  (0 < jdepth 0 ts)%Z ->
  (forall t, In t ts -> exists tk, json_map_tok t = inl tk) ->
  snd (decode_json ts) = EEnd.
Proof. exact (decode_json_truncated ts). Qed.

(* ... for EVERY cut point inside a container document: never a shorter successful stream *)
Theorem c20_truncated_document j k :
  is_container j -> (0 < k < length (json_tokens j))%nat ->
  snd (decode_json (firstn k (json_tokens j))) = EEnd.
Proof. exact (decode_json_truncated_doc j k). Qed.

Theorem c20_mirror_wf j :
  wf_json j -> Forall (fun t => wf_token t = true) (mirror j).
Proof. exact (mirror_tokens_wf j). Qed.

(* an integer literal is accepted exactly when it fits the target's width (no silent wrap-around), as the standard decoder does *)
Theorem c20_literal_int_range pf w s z :
  parse_int 64 s = Some z ->
  convert_literal pf (TInt w) s =
  if in_irange w z then Ok (T (kind_of_int w) (VI w z)) else Err EParse.
Proof. exact (literal_int_iff_range pf w s z). Qed.

Theorem c20_literal_uint_range pf w s n :
  parse_uint 64 s = Some n ->
  convert_literal pf (TUint w) s =
  if in_urange w n then Ok (T (kind_of_uint w) (VU w n)) else Err EParse.
Proof. exact (literal_uint_iff_range pf w s n). Qed.

Theorem c20_literal_not_int pf w s :
  parse_int 64 s = None -> convert_literal pf (TInt w) s = Err EParse.
Proof. exact (literal_int_not_int64 pf w s). Qed.

(* ---- the second sentence: the value.  Spec/JsonDecode.v defines, by recursion on the DOCUMENT, the value a JSON
   decoder gives for bool / integer / float / string / slice / struct / pointer targets (jdec: null leaves the
   position, other documents reach through the pointer levels, arrays append, objects assign their members by
   exact exported name in document order, unknown names skipped or - strict - rejected); the correspondence
   family jdec compares it with the real encoding/json on every generated document.  Unmarshalling the
   mirroring stream computes exactly that value - and fails exactly when it fails, with the same error. ---- *)
From SbModel Require Import Spec.JsonDecode Proofs.UnmarshalP Proofs.JsonDecodeP.

Theorem c20_unmarshal_is_reference_decoding : forall pf o R t cur j rest,
  jtarget t = true ->
  exists f0, forall f, (f0 <= f)%nat ->
    unm pf f o R t cur (mirror j ++ rest) =
    match jdec pf o t cur j with Ok v => Ok (v, rest) | Err e => Err e | OutOfFuel => OutOfFuel end.
Proof. exact unm_mirror_jdec. Qed.

(* the whole pipeline on a document: DecodeJson, then Unmarshal into a zero target *)
Theorem c20_document_into_zero_target : forall pf o R t j,
  jtarget t = true ->
  exists f0, forall f, (f0 <= f)%nat ->
    decode_json (json_tokens j) = (mirror j, ENone) /\
    unm pf f o R t (zero t) (mirror j) =
    match jdec pf o t (zero t) j with Ok v => Ok (v, []) | Err e => Err e | OutOfFuel => OutOfFuel end.
Proof.
  intros pf o R t j Ht. destruct (unm_mirror_jdec_doc pf o R t j Ht) as (f0 & H).
  exists f0. intros f Hf. split; [exact (decode_json_mirror j) | exact (H f Hf)].
Qed.

Theorem c20_reference_decoding_total : forall pf o t cur j, jdec pf o t cur j <> OutOfFuel.
Proof. exact jdec_never_out_of_fuel. Qed.

(* a member of an object that the target does not know is skipped whole, whatever it contains *)
Theorem c20_unknown_member_skipped : forall j rest, skip_value 0 (mirror j ++ rest) = Ok rest.
Proof. exact skip_value_mirror. Qed.

Print Assumptions c20_mirror.
Print Assumptions c20_mirror_map.
Print Assumptions c20_several_documents.
Print Assumptions c20_truncated.
Print Assumptions c20_truncated_document.
Print Assumptions c20_mirror_wf.
Print Assumptions c20_literal_int_range.
Print Assumptions c20_literal_uint_range.
Print Assumptions c20_literal_not_int.
Print Assumptions c20_unmarshal_is_reference_decoding.
Print Assumptions c20_document_into_zero_target.
Print Assumptions c20_reference_decoding_total.
Print Assumptions c20_unknown_member_skipped.

(* ---- laws of the reference decoding that users of JSON rely on, transported to the unmarshaller (Proofs/JsonLawsP.v):
   an accepted object does not depend on the order of two adjacent members with different names; without the strict
   option a member the target does not know changes nothing, wherever it stands and whatever it holds; with the strict
   option it is rejected ---- *)
From SbModel Require Import Spec.Conform Proofs.JsonLawsP.

Theorem c20_object_member_order : forall pf o R t cur l1 m1 m2 l2 v rest,
  jtarget t = true -> wf_ty t = true -> fst m1 <> fst m2 ->
  (exists f0, forall f, (f0 <= f)%nat ->
     unm pf f o R t cur (mirror (JObj (l1 ++ m1 :: m2 :: l2)) ++ rest) = Ok (v, rest)) ->
  exists f0, forall f, (f0 <= f)%nat ->
     unm pf f o R t cur (mirror (JObj (l1 ++ m2 :: m1 :: l2)) ++ rest) = Ok (v, rest).
Proof. exact unm_json_member_order. Qed.

Theorem c20_unknown_member_changes_nothing : forall pf o R t cur l1 name x l2 n b fs rest,
  jtarget t = true ->
  ptr_strip t = (n, b) -> underlying b = TStruct fs -> find_field name fs 0 = None -> strict o = false ->
  exists f0, forall f, (f0 <= f)%nat ->
    unm pf f o R t cur (mirror (JObj (l1 ++ (name, x) :: l2)) ++ rest) =
    unm pf f o R t cur (mirror (JObj (l1 ++ l2)) ++ rest).
Proof. exact unm_json_unknown_member. Qed.

Theorem c20_strict_unknown_member_rejected : forall pf o R t cur l1 name x l2 n b fs rest,
  jtarget t = true ->
  ptr_strip t = (n, b) -> underlying b = TStruct fs -> find_field name fs 0 = None -> strict o = true ->
  existsb (bytes_eqb name) (depr_of b) = false ->
  (exists v, jdec pf o t cur (JObj l1) = Ok v) ->
  exists f0, forall f, (f0 <= f)%nat ->
    unm pf f o R t cur (mirror (JObj (l1 ++ (name, x) :: l2)) ++ rest) = Err EUnknownField.
Proof. exact unm_json_strict_unknown_member. Qed.

Print Assumptions c20_object_member_order.
Print Assumptions c20_unknown_member_changes_nothing.
Print Assumptions c20_strict_unknown_member_rejected.
