(* C17 — Reported paths identify the element being processed.
   The hazard is physical: Ctx.Path is a slice extended with `append` on a by-value context, so
   sibling contexts can share a backing array.  Abstract/PathsAlias.v models exactly that
   (slices as (array, len, cap) over a store; append in place when there is room, else copy to
   a fresh array of ANY larger capacity) and the traversal that copies the slice header per
   child.  Which path each element of a typed value is marshalled under is Model/MarshalTaps.v,
   tied to the code by the tap-log correspondence; unmarshal taps and error paths are checked
   by the harness against a reference path computation. *)
From Coq Require Import List Arith Lia.
From SbModel Require Import Abstract.PathsAlias.
Import ListNotations.

(* Go's append: the result reads old ++ [x]; only cells (arr p, >= len p) or fresh arrays are
   written (the frame) *)
Theorem c17_append_spec (grow : nat -> nat) (grow_ok : forall n, n < grow n) st p x st1 p1 :
  wf st p -> append grow st p x = (st1, p1) ->
  wf st1 p1 /\ read st1 p1 = read st p ++ [x] /\ len p1 = S (len p) /\
  frame st st1 (arr p) (len p) /\ (arr p1 = arr p \/ next st <= arr p1).
Proof. exact (append_spec grow grow_ok st p x st1 p1). Qed.

(* sibling elements never observe each other's path: a traversal started with path slice p
   hands out true paths and writes only inside its own frame *)
Theorem c17_siblings_isolated (grow : nat -> nat) (grow_ok : forall n, n < grow n) t st p pi :
  wf st p -> read st p = pi ->
  let '(st', taps) := visit grow st p t in
  taps = paths pi t /\ frame st st' (arr p) (len p).
Proof. exact (visit_all_ok grow grow_ok t st p pi). Qed.

(* every element is tapped with exactly its own path, whatever capacities append chooses,
   however deep or wide the value *)
Theorem c17_taps_are_true_paths (grow : nat -> nat) (grow_ok : forall n, n < grow n) t :
  snd (visit grow st0 p0 t) = paths [] t.
Proof. exact (taps_are_true_paths grow grow_ok t). Qed.

Print Assumptions c17_append_spec.
Print Assumptions c17_siblings_isolated.
Print Assumptions c17_taps_are_true_paths.
