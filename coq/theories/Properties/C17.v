(* C17 — Reported paths identify the element being processed.
   The hazard is physical: Ctx.Path is a slice extended with `append` on a by-value context, so
   sibling contexts can share a backing array.  Abstract/PathsAlias.v models exactly that
   (slices as (array, len, cap) over a store; append in place when there is room, else copy to
   a fresh array of ANY larger capacity) and the traversal that copies the slice header per
   child.  Which path each element of a typed value is marshalled under is Model/MarshalTaps.v,
   tied to the code by the tap-log correspondence; unmarshal taps and error paths are checked
   by the harness against a reference path computation. *)
From Coq Require Import List Arith Lia.
From SbModel Require Import Abstract.PathsAlias.
Import ListNotations.

(* Go's append: the result reads old ++ [x]; only cells (arr p, >= len p) or fresh arrays are
   written (the frame) *)
Theorem c17_append_spec (grow : nat -> nat) (grow_ok : forall n, n < grow n) st p x st1 p1 :
  wf st p -> append grow st p x = (st1, p1) ->
  wf st1 p1 /\ read st1 p1 = read st p ++ [x] /\ len p1 = S (len p) /\
  frame st st1 (arr p) (len p) /\ (arr p1 = arr p \/ next st <= arr p1).
Proof. exact (append_spec grow grow_ok st p x st1 p1). Qed.

(* sibling elements never observe each other's path: a traversal started with path slice p
   hands out true paths and writes only inside its own frame *)
Theorem c17_siblings_isolated (grow : nat -> nat) (grow_ok : forall n, n < grow n) t st p pi :
  wf st p -> read st p = pi ->
  let '(st', taps) := visit grow st p t in
  taps = paths pi t /\ frame st st' (arr p) (len p).
Proof. exact (visit_all_ok grow grow_ok t st p pi). Qed.

(* every element is tapped with exactly its own path, whatever capacities append chooses,
   however deep or wide the value *)
Theorem c17_taps_are_true_paths (grow : nat -> nat) (grow_ok : forall n, n < grow n) t :
  snd (visit grow st0 p0 t) = paths [] t.
Proof. exact (taps_are_true_paths grow grow_ok t). Qed.

Print Assumptions c17_append_spec.
Print Assumptions c17_siblings_isolated.
Print Assumptions c17_taps_are_true_paths.

(* ---- restated from Proofs/PathsP.v (statements printed by Coq, see tools/genmod.py) ---- *)

From SbModel Require Import Proofs.PathsP.
Module Snapshots.
Import PathsP.AliasP.

(* a path that was reported stays what it was: the COPY an error carries (snapshot) is the true path whatever is processed afterwards (`later`: any sequence of appends / traversals from the parent's or the child's slice) *)
Theorem c17_snapshot_stable :
  forall grow : nat -> nat,
         (forall n : nat, n < grow n) ->
         forall (st : PathsAlias.store) (p : PathsAlias.slice) (pi : list nat) (x : nat)
           (st1 : PathsAlias.store) (p1 : PathsAlias.slice),
         PathsAlias.wf st p ->
         PathsAlias.read st p = pi ->
         PathsAlias.append grow st p x = (st1, p1) ->
         let e := snapshot st1 p1 in
         forall st' : PathsAlias.store, later grow (p :: p1 :: nil) st1 st' -> e = (pi ++ x :: nil)%list.
Proof. exact snapshot_stable. Qed.

(* why the copy is needed: a kept slice HEADER of a child context is rewritten by the next sibling's append when the parent path has spare capacity (len 3, cap 4, doubling growth) - the defect a change that keeps views instead of copies introduces *)
Theorem c17_view_refuted :
  exists
           (grow : nat -> nat) (st : PathsAlias.store) (p : PathsAlias.slice) (pi : list nat)
         (x y : nat) (st1 : PathsAlias.store) (p1 : PathsAlias.slice) (st2 : PathsAlias.store)
         (p2 : PathsAlias.slice),
           (forall n : nat, n < grow n) /\
           PathsAlias.wf st p /\
           PathsAlias.read st p = pi /\
           x <> y /\
           PathsAlias.append grow st p x = (st1, p1) /\
           PathsAlias.append grow st1 p y = (st2, p2) /\
           later grow (p :: p1 :: nil) st1 st2 /\
           snapshot st1 p1 = (pi ++ x :: nil)%list /\
           view p1 st1 = (pi ++ x :: nil)%list /\
           view p1 st2 = (pi ++ y :: nil)%list /\ view p1 st2 <> view p1 st1.
Proof. exact view_refuted. Qed.

(* and when it would be harmless: a parent path without spare capacity *)
Theorem c17_view_stable_when_full :
  forall grow : nat -> nat,
         (forall n : nat, n < grow n) ->
         forall (st : PathsAlias.store) (p : PathsAlias.slice) (x : nat) (st1 : PathsAlias.store)
           (p1 : PathsAlias.slice),
         PathsAlias.wf st p ->
         PathsAlias.len p = PathsAlias.cap p ->
         PathsAlias.append grow st p x = (st1, p1) ->
         forall st' : PathsAlias.store, later grow (p :: p1 :: nil) st1 st' -> view p1 st' = view p1 st1.
Proof. exact view_stable_when_full. Qed.

Theorem c17_view_stable_own :
  forall grow : nat -> nat,
         (forall n : nat, n < grow n) ->
         forall (st st' : PathsAlias.store) (p : PathsAlias.slice),
         PathsAlias.wf st p -> later grow (p :: nil) st st' -> view p st' = view p st.
Proof. exact view_stable_own. Qed.

(* the same on a whole traversal: the taps SAW the true paths, the headers read at the end do not show them *)
Theorem c17_hdrs_refuted :
  exists (grow : nat -> nat) (t : PathsAlias.tree),
           (forall n : nat, n < grow n) /\
           (let
            '(st', hs) := visit_h grow PathsAlias.st0 PathsAlias.p0 t in
             snd (PathsAlias.visit grow PathsAlias.st0 PathsAlias.p0 t) =
             (nil :: (1 :: nil) :: (1 :: 2 :: nil) :: (1 :: 3 :: nil) :: nil)%list /\
             List.map (fun h : PathsAlias.slice => PathsAlias.read st' h) hs =
             (nil :: (1 :: nil) :: (1 :: 3 :: nil) :: (1 :: 3 :: nil) :: nil)%list /\
             List.map (fun h : PathsAlias.slice => PathsAlias.read st' h) hs <> PathsAlias.paths nil t).
Proof. exact hdrs_refuted. Qed.

(* several documents processed one after the other from the same base context: every run's taps are the true paths of its own tree *)
Theorem c17_runs_taps_true_paths :
  forall grow : nat -> nat,
         (forall n : nat, n < grow n) ->
         forall (ts : list PathsAlias.tree) (st : PathsAlias.store) (p : PathsAlias.slice) (pi : list nat),
         PathsAlias.wf st p ->
         PathsAlias.read st p = pi ->
         let
         '(st', tapss) := runs grow st p ts in
          tapss = List.map (PathsAlias.paths pi) ts /\
          PathsAlias.frame st st' (PathsAlias.arr p) (PathsAlias.len p).
Proof. exact runs_taps_true_paths. Qed.

(* each run reports what it reports alone *)
Theorem c17_runs_independent :
  forall grow : nat -> nat,
         (forall n : nat, n < grow n) ->
         forall (ts : list PathsAlias.tree) (st : PathsAlias.store) (p : PathsAlias.slice),
         PathsAlias.wf st p ->
         snd (runs grow st p ts) = List.map (fun t : PathsAlias.tree => snd (PathsAlias.visit grow st p t)) ts.
Proof. exact runs_independent. Qed.

End Snapshots.

From SbModel Require Import Proofs.PathsP.
Module MarshalTaps.
Import PathsP.TapsP.

(* the tap log of the marshal model (Model/MarshalTaps.v, compared with the code's tap log on every run) is exactly the declarative path of every element in pre-order (paths_of: struct fields by name in declaration order, unexported ones skipped; items by index; map entries by key in marshalled order; pointers and interfaces add nothing; tuple results by index) - for every value whose maps have pairwise distinct key streams (maps_ok) *)
Theorem c17_marshal_taps_are_paths :
  forall (o : Types.copts) (t : Types.ty) (v : Types.gval) (pi : list MarshalTaps.pelem),
         maps_ok t v = true -> MarshalTaps.mtaps o t v pi = paths_of o t v pi.
Proof. exact marshal_taps_are_paths. Qed.

Theorem c17_marshal_taps_are_paths_no_maps :
  forall (o : Types.copts) (t : Types.ty) (v : Types.gval) (pi : list MarshalTaps.pelem),
         no_maps v = true -> MarshalTaps.mtaps o t v pi = paths_of o t v pi.
Proof. exact marshal_taps_are_paths_no_maps. Qed.

(* the domain edge: two keys with equal key streams (+0 / -0) - the same edge as c08_tied_keys_edge; the tap cases of the harness exclude tied keys *)
Theorem c17_marshal_taps_tied_keys_edge :
  exists (o : Types.copts) (t : Types.ty) (v : Types.gval),
           Conform.has_type t v = true /\
           maps_ok t v = false /\ MarshalTaps.mtaps o t v nil <> paths_of o t v nil.
Proof. exact marshal_taps_are_paths_refuted. Qed.

Theorem c17_root_tap_path :
  forall (o : Types.copts) (t : Types.ty) (v : Types.gval) (pi : list MarshalTaps.pelem),
         exists tl : list (list MarshalTaps.pelem * BinNums.N),
           MarshalTaps.mtaps o t v pi = ((pi, MarshalTaps.tap_kind t) :: tl)%list.
Proof. exact root_tap_path. Qed.

Theorem c17_taps_extend_root :
  forall (o : Types.copts) (t : Types.ty) (v : Types.gval) (pi : list MarshalTaps.pelem)
           (tp : MarshalTaps.tap),
         maps_ok t v = true ->
         List.In tp (MarshalTaps.mtaps o t v pi) -> exists s : list MarshalTaps.pelem, fst tp = (pi ++ s)%list.
Proof. exact taps_extend_root. Qed.

(* no two elements under different path elements share a path *)
Theorem c17_sibling_taps_disjoint :
  forall (o : Types.copts) (pi : list MarshalTaps.pelem) (e1 e2 : MarshalTaps.pelem)
           (t1 : Types.ty) (v1 : Types.gval) (t2 : Types.ty) (v2 : Types.gval) (a b : MarshalTaps.tap),
         e1 <> e2 ->
         maps_ok t1 v1 = true ->
         maps_ok t2 v2 = true ->
         List.In a (MarshalTaps.mtaps o t1 v1 (pi ++ e1 :: nil)) ->
         List.In b (MarshalTaps.mtaps o t2 v2 (pi ++ e2 :: nil)) -> fst a <> fst b.
Proof. exact sibling_taps_disjoint. Qed.

(* one tap per element *)
Theorem c17_taps_count :
  forall (o : Types.copts) (t : Types.ty) (v : Types.gval) (pi : list MarshalTaps.pelem),
         maps_ok t v = true -> length (MarshalTaps.mtaps o t v pi) = vsize (elements o t v).
Proof. exact taps_count. Qed.

End MarshalTaps.

Print Assumptions Snapshots.c17_snapshot_stable.
Print Assumptions Snapshots.c17_view_refuted.
Print Assumptions Snapshots.c17_view_stable_when_full.
Print Assumptions Snapshots.c17_view_stable_own.
Print Assumptions Snapshots.c17_hdrs_refuted.
Print Assumptions Snapshots.c17_runs_taps_true_paths.
Print Assumptions Snapshots.c17_runs_independent.
Print Assumptions MarshalTaps.c17_marshal_taps_are_paths.
Print Assumptions MarshalTaps.c17_marshal_taps_are_paths_no_maps.
Print Assumptions MarshalTaps.c17_marshal_taps_tied_keys_edge.
Print Assumptions MarshalTaps.c17_root_tap_path.
Print Assumptions MarshalTaps.c17_taps_extend_root.
Print Assumptions MarshalTaps.c17_sibling_taps_disjoint.
Print Assumptions MarshalTaps.c17_taps_count.

(* ---- unmarshalling: the executable model of UnmarshalValue with its context path made explicit
   (Model/UnmarshalPaths.v: result, path carried by the error, tap log of TapUnmarshal), compared with the
   code on every run (family utaps: value / error class / error path / tap log) ---- *)
Module UnmarshalPaths.
From SbModel Require Import Spec.UnmarshalPathsSpec Proofs.UnmarshalP Proofs.UnmarshalPathsP.
Local Open Scope N_scope.

(* forgetting paths and log gives the unmarshal model of C05 / C01 back: every theorem about `unm` (acceptance,
   termination, round trip) speaks about the value part of `unmp` *)
Theorem c17_unmarshal_paths_erase : forall pf f o R t cur ts p,
  erase (unmp pf f o R t cur ts p) = unm pf f o R t cur ts.
Proof. exact unmp_erase. Qed.

(* paths are relative to the context: running under a longer context path prefixes every reported path
   (taps and error) and changes nothing else *)
Theorem c17_unmarshal_paths_shift : forall pf f o R t cur ts q p,
  unmp pf f o R t cur ts (q ++ p) =
  (shift_res q (fst (unmp pf f o R t cur ts p)), shift_log q (snd (unmp pf f o R t cur ts p))).
Proof. exact unmp_shift. Qed.

(* every tap path and the path an error carries extend the path of the context the run started under *)
Theorem c17_unmarshal_paths_extend : forall pf f o R t cur ts p,
  Forall (fun e => exists s, fst (fst e) = p ++ s) (snd (unmp pf f o R t cur ts p)) /\
  (forall e ep, fst (unmp pf f o R t cur ts p) = PErr e ep -> exists s, ep = p ++ s).
Proof. exact unmp_paths_extend. Qed.

(* the first token is offered under the context path itself, with the kind of the target *)
Theorem c17_unmarshal_first_tap : forall pf f o R t cur tk rest p,
  exists l, snd (unmp pf (S f) o R t cur (tk :: rest) p) = (p, kind tk, rk_of t) :: l.
Proof. exact unmp_first_tap. Qed.

(* THE PATH STATEMENT for unmarshalling: reading the canonical stream of a value v : t back into a zero t
   (whatever follows it in the stream, whatever the registry and the options) succeeds with the normal form of v
   and announces, in order, exactly the declarative paths of its elements (Spec/UnmarshalPathsSpec.v upaths:
   each element once under its own path; a pointee under the pointer's path; item i under path ++ [i]; a field's
   name under the struct's path and its value under path ++ [name]) - on the universe without maps, interfaces,
   funcs and registered names *)
Theorem c17_unmarshal_roundtrip_paths : forall pf o R t v ts rest f p,
  wf_ty t = true -> simple_ty t = true -> noreg_ty t = true ->
  has_type t v = true -> no_ptr_to_nil v = true ->
  marshal default_opts t v = Ok ts -> (2 * vsize v < f)%nat ->
  fst (unmp pf f o R t (zero t) (ts ++ rest) p) = POk (normal t v, rest) /\
  log_paths (snd (unmp pf f o R t (zero t) (ts ++ rest) p)) = upaths t v p.
Proof. exact unmp_roundtrip_paths. Qed.

End UnmarshalPaths.

Print Assumptions UnmarshalPaths.c17_unmarshal_paths_erase.
Print Assumptions UnmarshalPaths.c17_unmarshal_paths_shift.
Print Assumptions UnmarshalPaths.c17_unmarshal_paths_extend.
Print Assumptions UnmarshalPaths.c17_unmarshal_first_tap.
Print Assumptions UnmarshalPaths.c17_unmarshal_roundtrip_paths.
