(* C13 — Stream combinators and pipelines of them are transparent. *)
From SbModel Require Import Proofs.UnmarshalP Proofs.AnyP Proofs.AnyRegP Proofs.PipelineAnyP Model.Procs Spec.StreamSpec Spec.Pipeline Spec.DecodeGrammar Proofs.SinksP Proofs.StreamsP Proofs.HashP Proofs.PipelineP.
Local Open Scope nat_scope.

Local Open Scope nat_scope.
(* every term built from the stream combinators yields exactly the tokens its definition (the denotation `den`: pass-through, concatenation, matching subsequence, splicing) implies and ends exactly when its sources end; real_faults only excludes the degenerate 'failure with a nil error' *)
Theorem c13_run_is_den p :
  tame p = true -> real_faults p = true ->
  exists n, forall fuel, n <= fuel ->
    let '(ts, e, _) := run fuel p in (ts, e) = den p.
Proof. exact (run_den_partial p). Qed.

Local Open Scope nat_scope.
(* tee passes the source through unchanged *)
Theorem c13_tee s sinks :
  den (PTee s sinks PNil) = den s.
Proof. exact (tee_transparent s sinks). Qed.

Local Open Scope nat_scope.
(* stream iteration passes the source through unchanged *)
Theorem c13_iter_stream s :
  den (PIterStream s PNil) = den s.
Proof. exact (iter_stream_transparent s). Qed.

Local Open Scope nat_scope.
Theorem c13_iter_stream_then s c :
  den (PIterStream s c) = seq_den (den s) (den c).
Proof. exact (iter_stream_then s c). Qed.

Local Open Scope nat_scope.
(* concatenation yields the concatenation *)
Theorem c13_concat ss :
  den (PConcat ss) = fold_right (fun s acc => seq_den (den s) acc) ([], ENone) ss.
Proof. exact (concat_is_concat ss). Qed.

Local Open Scope nat_scope.
Theorem c13_concat_tokens tss :
  den (PConcat (map (fun ts => PTokens ts PNil) tss)) = (concat tss, ENone).
Proof. exact (concat_tokens tss). Qed.

Local Open Scope nat_scope.
(* filtering yields the matching subsequence *)
Theorem c13_filter ts p :
  den (PFilter (PTokens ts PNil) p PNil) = (filter (holds p) ts, ENone).
Proof. exact (filter_is_filter ts p). Qed.

Local Open Scope nat_scope.
Theorem c13_run_tee s sinks :
  tame (PTee s sinks PNil) = true -> real_faults s = true ->
  exists n, forall fuel, n <= fuel ->
    let '(ts, e, _) := run fuel (PTee s sinks PNil) in (ts, e) = den s.
Proof. exact (run_tee_transparent s sinks). Qed.

Local Open Scope N_scope.
(* every one of the 16 identity-preserving stage kinds maps a value stream in the domain to the identical stream *)
Theorem c13_stage_identity H R pf v s :
  wf_value v = true -> ref_free v = true ->
  Forall (wf_enc default_maxlen) (flatten v) ->
  (forall x, H x <> []) ->
  any_roundtrip R pf (flatten v) = Ok (flatten v) ->
  stage_side H v s ->
  run_stage H R pf s (flatten v) = Ok (flatten v).
Proof. exact (stage_identity H R pf v s). Qed.

Local Open Scope N_scope.
(* consequently ANY program composed of such stages maps every value stream in the domain to an identical stream ... (the schema-less round trip of the input stream is property C11, a premise here; no_collision says the hash does not collide on the substituted sub-values) *)
Theorem c13_pipeline H R pf v p :
  wf_value v = true -> ref_free v = true ->
  Forall (wf_enc default_maxlen) (flatten v) ->
  (forall x, H x <> []) ->
  any_roundtrip R pf (flatten v) = Ok (flatten v) ->
  Forall (stage_side H v) p ->
  run_pipeline H R pf p (flatten v) = Ok (flatten v).
Proof. exact (pipeline_identity H R pf v p). Qed.

Local Open Scope N_scope.
(* ... with an identical hash *)
Theorem c13_pipeline_hash H R pf v p :
  wf_value v = true -> ref_free v = true ->
  Forall (wf_enc default_maxlen) (flatten v) ->
  (forall x, H x <> []) ->
  any_roundtrip R pf (flatten v) = Ok (flatten v) ->
  Forall (stage_side H v) p ->
  exists out, run_pipeline H R pf p (flatten v) = Ok out /\ hash_result H out = inl (mhash H v).
Proof. exact (pipeline_hash H R pf v p). Qed.

Local Open Scope nat_scope.
Theorem c13_pipeline_injective_hash H R pf v p L :
  wf_value v = true -> ref_free v = true ->
  Forall (wf_enc default_maxlen) (flatten v) ->
  inj H -> fixed_len H L -> 0 < L ->
  any_roundtrip R pf (flatten v) = Ok (flatten v) ->
  (forall sel, In (StSubstDeref sel) p -> forall j, In j sel -> ~ In j (end_indices 0 v)) ->
  run_pipeline H R pf p (flatten v) = Ok (flatten v).
Proof. exact (pipeline_identity_inj H R pf v p L). Qed.

Local Open Scope N_scope.
(* the premise of the pipeline theorems (the schema-less round trip of the input, property C11) holds on the whole schema-less domain ... *)
Theorem c13_c11_premise_discharged R pf v :
  any_ok R v -> Pipeline.any_roundtrip R pf (flatten v) = Ok (flatten v).
Proof. exact (any_roundtrip_of_any_ok R pf v). Qed.

Local Open Scope N_scope.
(* ... so every program of identity-preserving stages maps every value stream of that domain to the identical stream, without premise *)
Theorem c13_pipeline_any H R pf v p :
  wf_value v = true -> ref_free v = true ->
  Forall (wf_enc default_maxlen) (flatten v) ->
  (forall x, H x <> []) ->
  any_ok R v ->
  Forall (stage_side H v) p ->
  run_pipeline H R pf p (flatten v) = Ok (flatten v).
Proof. exact (pipeline_identity_any H R pf v p). Qed.

Local Open Scope N_scope.
(* with an identical hash *)
Theorem c13_pipeline_hash_any H R pf v p :
  wf_value v = true -> ref_free v = true ->
  Forall (wf_enc default_maxlen) (flatten v) ->
  (forall x, H x <> []) ->
  any_ok R v ->
  Forall (stage_side H v) p ->
  exists out, run_pipeline H R pf p (flatten v) = Ok out /\ hash_result H out = inl (mhash H v).
Proof. exact (pipeline_hash_any H R pf v p). Qed.

Local Open Scope N_scope.
(* with registered names nested in the input, provided the fuel constant of the stage model suffices (any_fuel_ok: true whenever the registry's types nest at most 3 deep, c13_fuel_ok_depth3) *)
Theorem c13_pipeline_any_reg H R pf v p :
  wf_value v = true -> ref_free v = true ->
  Forall (wf_enc default_maxlen) (flatten v) ->
  (forall x, H x <> []) ->
  any_ok_reg R v -> any_fuel_ok R pf (flatten v) ->
  Forall (stage_side H v) p ->
  run_pipeline H R pf p (flatten v) = Ok (flatten v).
Proof. exact (pipeline_identity_any_reg H R pf v p). Qed.

Local Open Scope nat_scope.
Theorem c13_fuel_ok_depth3 R pf ts :
  reg_depth R <= 3 -> any_fuel_ok R pf ts.
Proof. exact (any_fuel_ok_depth3 R pf ts). Qed.

Local Open Scope N_scope.
(* the edge that makes the side condition necessary: a registered type 2100 pointers deep exhausts the constant 2000 + 4*len of the STAGE MODEL (Spec/Pipeline.v); the Go code has no fuel - nothing to replay *)
Theorem c13_fuel_constant_edge  :
  exists R pf v, any_ok_reg R v /\ Pipeline.any_roundtrip R pf (flatten v) <> Ok (flatten v).
Proof. exact (any_roundtrip_of_any_ok_reg_refuted ). Qed.

Print Assumptions c13_run_is_den.
Print Assumptions c13_tee.
Print Assumptions c13_iter_stream.
Print Assumptions c13_iter_stream_then.
Print Assumptions c13_concat.
Print Assumptions c13_concat_tokens.
Print Assumptions c13_filter.
Print Assumptions c13_run_tee.
Print Assumptions c13_stage_identity.
Print Assumptions c13_pipeline.
Print Assumptions c13_pipeline_hash.
Print Assumptions c13_pipeline_injective_hash.
Print Assumptions c13_c11_premise_discharged.
Print Assumptions c13_pipeline_any.
Print Assumptions c13_pipeline_hash_any.
Print Assumptions c13_pipeline_any_reg.
Print Assumptions c13_fuel_ok_depth3.
Print Assumptions c13_fuel_constant_edge.
