(* C13 — Stream combinators and pipelines of them are transparent. *)
From SbModel Require Import Model.Procs Spec.StreamSpec Proofs.SinksP Proofs.StreamsP.
Local Open Scope nat_scope.

(* every term built from the stream combinators yields exactly the tokens its definition (the denotation `den`: pass-through, concatenation, matching subsequence, splicing) implies and ends exactly when its sources end; real_faults only excludes the degenerate 'failure with a nil error' *)
Theorem c13_run_is_den p :
  tame p = true -> real_faults p = true ->
  exists n, forall fuel, n <= fuel ->
    let '(ts, e, _) := run fuel p in (ts, e) = den p.
Proof. exact (run_den_partial p). Qed.

(* tee passes the source through unchanged *)
Theorem c13_tee s sinks :
  den (PTee s sinks PNil) = den s.
Proof. exact (tee_transparent s sinks). Qed.

(* stream iteration passes the source through unchanged *)
Theorem c13_iter_stream s :
  den (PIterStream s PNil) = den s.
Proof. exact (iter_stream_transparent s). Qed.

Theorem c13_iter_stream_then s c :
  den (PIterStream s c) = seq_den (den s) (den c).
Proof. exact (iter_stream_then s c). Qed.

(* concatenation yields the concatenation *)
Theorem c13_concat ss :
  den (PConcat ss) = fold_right (fun s acc => seq_den (den s) acc) ([], ENone) ss.
Proof. exact (concat_is_concat ss). Qed.

Theorem c13_concat_tokens tss :
  den (PConcat (map (fun ts => PTokens ts PNil) tss)) = (concat tss, ENone).
Proof. exact (concat_tokens tss). Qed.

(* filtering yields the matching subsequence *)
Theorem c13_filter ts p :
  den (PFilter (PTokens ts PNil) p PNil) = (filter (holds p) ts, ENone).
Proof. exact (filter_is_filter ts p). Qed.

Theorem c13_run_tee s sinks :
  tame (PTee s sinks PNil) = true -> real_faults s = true ->
  exists n, forall fuel, n <= fuel ->
    let '(ts, e, _) := run fuel (PTee s sinks PNil) in (ts, e) = den s.
Proof. exact (run_tee_transparent s sinks). Qed.

Print Assumptions c13_run_is_den.
Print Assumptions c13_tee.
Print Assumptions c13_iter_stream.
Print Assumptions c13_iter_stream_then.
Print Assumptions c13_concat.
Print Assumptions c13_concat_tokens.
Print Assumptions c13_filter.
Print Assumptions c13_run_tee.
