(* C09 — Structural hash is the specified Merkle function; all implementations agree.
   Every theorem holds for EVERY hash function H. *)
From SbModel Require Import Model.Hash Model.Tree Spec.TreeSpec Proofs.HashP Proofs.TreeP.
Local Open Scope N_scope.

(* the streaming sink (tokens, then the end-of-stream signal) computes the Merkle function *)
Theorem c09_sink H v : wf_value v = true -> hash_result H (flatten v) = inl (mhash H v).
Proof. exact (sink_hash_is_merkle H v). Qed.

(* ... and stops after the first complete value, whatever follows *)
Theorem c09_sink_first_value H v more : wf_value v = true -> hash_result H (flatten v ++ more) = inl (mhash H v).
Proof. exact (hash_two_values H v more). Qed.

(* the last callback event reports the root hash for the root token *)
Theorem c09_sink_last_event H v more : wf_value v = true ->
  exists evs, hash_stream H (flatten v ++ more) = (HDone (mhash H v), evs ++ [(Some (mhash H v), 0%nat)]).
Proof. exact (sink_events_last_strong H v more). Qed.

(* the in-place tree hash *)
Theorem c09_fill H v : wf_value v = true ->
  exists t t', build (flatten v) = inl (Some t) /\ fill_hash H t = inl t' /\ t_hash t' = Some (mhash H v).
Proof. exact (fill_hash_root H v). Qed.

(* the hash computed while building a tree (WithHash): the root carries the stream's hash *)
Theorem c09_build_with_hash H v : wf_value v = true ->
  build_with_hash H (flatten v) = inl (Some (hashed_tree H v)).
Proof. exact (build_with_hash_tree H v). Qed.

(* error cases *)
Theorem c09_empty H : hash_result H [] = inr EEnd.
Proof. exact (hash_empty H). Qed.
Theorem c09_unclosed H ko kc items : wf_value (Comp ko kc items) = true ->
  hash_result H (removelast (flatten (Comp ko kc items))) = inr EEnd.
Proof. exact (hash_unclosed H ko kc items). Qed.

(* with an ideal (injective, fixed-length) hash two reference-free streams have equal hashes
   exactly when they are token-for-token identical *)
Theorem c09_injective H L v1 v2 : inj H -> fixed_len H L -> (0 < L)%nat ->
  wf_value v1 = true -> wf_value v2 = true -> ref_free v1 = true -> ref_free v2 = true ->
  mhash H v1 = mhash H v2 -> flatten v1 = flatten v2.
Proof. exact (mhash_injective H L v1 v2). Qed.

Print Assumptions c09_sink.
Print Assumptions c09_sink_first_value.
Print Assumptions c09_sink_last_event.
Print Assumptions c09_fill.
Print Assumptions c09_build_with_hash.
Print Assumptions c09_empty.
Print Assumptions c09_unclosed.
Print Assumptions c09_injective.
