(* Spec/ConformSpec.v — C05: a DECLARATIVE statement of "the stream structurally conforms to
   the target".  [Conforms pf o R t cur ts v rest] reads: a target of static type [t] whose
   current content is [cur] accepts a prefix of the stream [ts], holds [v] afterwards, and
   [rest] is what follows the consumed prefix.  There is no fuel and no error class here:
   one constructor per rule of the property's sentence.  Proofs/ConformP.v proves
   [Conforms pf o R t cur ts v rest <-> exists f, unm pf f o R t cur ts = Ok (v, rest)].
   Definitions only. *)
From SbModel Require Export Model.Unmarshal.
Local Open Scope N_scope.

(* ---- vocabulary ---- *)

(* the token kinds with a structural role; every other kind is "plain": it carries one scalar
   and is decided by the dynamic type of the token's value alone *)
Definition structural_kinds : list N :=
  [KNil; KArrayEnd; KObjectEnd; KMapEnd; KTupleEnd; KNaN; KBytes; KArray; KObject; KMap; KTuple;
   KTypeName; KRef; KLiteral].
Definition plain_kind (k : N) : bool := negb (existsb (N.eqb k) structural_kinds).

(* the target is concrete: no interface is reached through its pointers, so a TypeName prefix
   carries no information for it *)
Definition concrete_target (t : ty) : bool := match ptr_base t with TAny => false | _ => true end.

Definition is_empty {A} (l : list A) : bool := match l with [] => true | _ => false end.

(* the field values a struct target starts from, the entries a map target starts from *)
Definition struct_vals (fs : list (bytes * bool * ty)) (cur : gval) : list gval :=
  match cur with GStruct vs => vs | _ => map (fun fd => zero (snd fd)) fs end.
Definition map_isnil (cur : gval) : bool := match cur with GMap n _ => n | _ => true end.
Definition map_entries (cur : gval) : list (gval * gval) := match cur with GMap _ m => m | _ => [] end.

(* a NaN can never be found again in a Go map: refused as a key of map[any]any *)
Definition nan_key (kv : gval) : bool :=
  match kv with GF64 b => f64_is_nan b | GF32 b => f32_is_nan b | _ => false end.

Section ConformSpec.
Variable pf : bytes -> N -> option N.     (* strconv.ParseFloat, for Literal tokens *)
Variable o : copts.
Variable R : registry.

Inductive Conforms : ty -> gval -> list token -> gval -> list token -> Prop :=

(* ---- rules for every target ---- *)

(* Nil leaves the target untouched (time.Time excepted: its unmarshaler bridge sees the token first) *)
| C_nil t cur x rest :
    underlying t <> TTime ->
    Conforms t cur (T KNil x :: rest) cur rest

(* a TypeName prefix in front of a concrete target is skipped *)
| C_typename_skip t cur x ts v rest :
    concrete_target t = true ->
    Conforms t cur ts v rest ->
    Conforms t cur (T KTypeName x :: ts) v rest

(* a Literal is converted to the token of the target's own scalar kind, then decoded as that token
   (in front of a pointer the literal is handed to the pointee: rule C_ptr) *)
| C_literal t cur s tk ts v rest :
    (forall e, underlying t <> TPtr e) ->
    convert_literal pf t s = Ok tk ->
    Conforms t cur (tk :: ts) v rest ->
    Conforms t cur (T KLiteral (VStr s) :: ts) v rest

(* pointer target: allocate a fresh pointee and decode it from the same token; Nil is C_nil, and a
   TypeName in front of a concrete pointer is C_typename_skip *)
| C_ptr t e cur tk ts v rest :
    underlying t = TPtr e ->
    kind tk <> KNil ->
    (kind tk = KTypeName -> concrete_target t = false) ->
    Conforms e (zero e) (tk :: ts) v rest ->
    Conforms t cur (tk :: ts) (GPtr (Some v)) rest

(* ---- scalar targets: the token's value has exactly the target's type ---- *)
| C_bool t cur k b rest :
    underlying t = TBool -> plain_kind k = true ->
    Conforms t cur (T k (VBool b) :: rest) (GBool b) rest
| C_int t w cur k z rest :                              (* signed, by width *)
    underlying t = TInt w -> plain_kind k = true ->
    Conforms t cur (T k (VI w z) :: rest) (GInt z) rest
| C_uint t w cur k n rest :                             (* unsigned, by width *)
    underlying t = TUint w -> plain_kind k = true ->
    Conforms t cur (T k (VU w n) :: rest) (GUint n) rest
| C_uintptr t cur k n rest :
    underlying t = TUintptr -> plain_kind k = true ->
    Conforms t cur (T k (VPtr n) :: rest) (GUint n) rest
| C_f32 t cur k b rest :
    underlying t = TF32 -> plain_kind k = true ->
    Conforms t cur (T k (VF32 b) :: rest) (GF32 b) rest
| C_f64 t cur k b rest :
    underlying t = TF64 -> plain_kind k = true ->
    Conforms t cur (T k (VF64 b) :: rest) (GF64 b) rest
| C_nan32 t cur x rest :
    underlying t = TF32 ->
    Conforms t cur (T KNaN x :: rest) (GF32 f32_nan_bits) rest
| C_nan64 t cur x rest :
    underlying t = TF64 ->
    Conforms t cur (T KNaN x :: rest) (GF64 f64_nan_bits) rest
| C_string t cur s rest :
    underlying t = TString ->
    Conforms t cur (T KString (VStr s) :: rest) (GStr s) rest
(* time.Time, bridged through a String token holding its binary image *)
| C_time t cur s rest :
    underlying t = TTime -> valid_time_enc s = true ->
    Conforms t cur (T KString (VStr s) :: rest) (GTime s) rest

(* ---- a Bytes token ---- *)
| C_bytes t cur s rest :
    underlying t = TBytes ->
    Conforms t cur (T KBytes (VBytes s) :: rest) (GBytes false s) rest
(* into [n]byte: at most n bytes, copied over the front of the array; the bytes beyond len(s) stay
   (more than n bytes is TooManyElement, as for an Array token: no rule) *)
| C_bytes_array t n cur s rest :
    underlying t = TByteArray n -> (length s <= n)%nat ->
    Conforms t cur (T KBytes (VBytes s) :: rest)
             (GBytes false (s ++ skipn (length s) (bytes_of_gval cur))) rest

(* ---- an Array token ---- *)
(* array target: items decoded in place, at most as many as the array holds *)
| C_array t n e cur x ts items rest :
    underlying t = TArray n e ->
    ConformsArr e (items_of_gval cur) 0 ts items rest ->
    Conforms t cur (T KArray x :: ts) (GList false items) rest
| C_array_bytes t n cur x ts items rest :               (* [n]byte written as an array of uint8 *)
    underlying t = TByteArray n ->
    ConformsArr (TUint W8) (items_of_gval cur) 0 ts items rest ->
    Conforms t cur (T KArray x :: ts) (GBytes false (to_bytes items)) rest
(* slice target: each item decoded into a fresh element and appended to the current content;
   a nil slice stays nil only if nothing is appended *)
| C_slice t e cur x ts items rest :
    underlying t = TSlice e ->
    ConformsSeq KArrayEnd e ts items rest ->
    Conforms t cur (T KArray x :: ts)
             (GList (is_nil_container cur && is_empty (items_of_gval cur ++ items)) (items_of_gval cur ++ items)) rest
| C_slice_bytes t cur x ts items rest :                 (* []byte written as an array of uint8 *)
    underlying t = TBytes ->
    ConformsSeq KArrayEnd (TUint W8) ts items rest ->
    Conforms t cur (T KArray x :: ts)
             (GBytes (is_nil_container cur && is_empty (items_of_gval cur ++ items))
                     (to_bytes (items_of_gval cur ++ items))) rest

(* ---- an Object token into a struct target ---- *)
| C_struct t fs cur x ts vals rest :
    underlying t = TStruct fs ->
    ConformsFields fs (depr_of t) (struct_vals fs cur) ts vals rest ->
    Conforms t cur (T KObject x :: ts) (GStruct vals) rest

(* ---- a Map token into a map target ---- *)
| C_map t kt vt cur x ts v rest :
    underlying t = TMap kt vt ->
    ConformsEntries kt vt (map_isnil cur) (map_entries cur) ts v rest ->
    Conforms t cur (T KMap x :: ts) v rest

(* ---- a Tuple token into a func target: exactly one value per result, at most 50 ---- *)
| C_func t outs cur x ts vals rest :
    underlying t = TFunc outs -> (length outs <= 50)%nat ->
    ConformsOuts outs ts vals rest ->
    Conforms t cur (T KTuple x :: ts) (GFunc (Some vals)) rest

(* ---- interface target: the stream chooses the dynamic type ---- *)
| A_scalar t cur tk d rest :
    underlying t = TAny -> plain_kind (kind tk) = true -> any_of_token tk = Some d ->
    Conforms t cur (tk :: rest) (GAny (Some d)) rest
| A_nan t cur x rest :
    underlying t = TAny ->
    Conforms t cur (T KNaN x :: rest) (GAny (Some (TF64, GF64 f64_nan_bits))) rest
| A_bytes t cur s rest :
    underlying t = TAny ->
    Conforms t cur (T KBytes (VBytes s) :: rest) (GAny (Some (TBytes, GBytes false s))) rest
| A_array t cur x ts items rest :                       (* []any *)
    underlying t = TAny ->
    ConformsSeq KArrayEnd TAny ts items rest ->
    Conforms t cur (T KArray x :: ts) (GAny (Some (TSlice TAny, GList (is_empty items) items))) rest
| A_object t cur x ts v rest :                          (* a struct type made up from the fields *)
    underlying t = TAny ->
    ConformsNewStruct [] [] ts v rest ->
    Conforms t cur (T KObject x :: ts) v rest
| A_map t cur x ts v rest :                             (* map[any]any *)
    underlying t = TAny ->
    ConformsGenEntries [] ts v rest ->
    Conforms t cur (T KMap x :: ts) v rest
| A_tuple t cur x ts items rest :                       (* a func type made up from the values *)
    underlying t = TAny ->
    ConformsSeq KTupleEnd TAny ts items rest -> (length items <= 50)%nat ->
    Conforms t cur (T KTuple x :: ts)
             (GAny (Some (TFunc (map dyn_ty items), GFunc (Some (map dyn_val items))))) rest
| A_typename_registered t cur name rt ts v rest :       (* a registered name resurrects its type *)
    underlying t = TAny -> reg_lookup R name = Some rt ->
    Conforms rt (zero rt) ts v rest ->
    Conforms t cur (T KTypeName (VStr name) :: ts) (GAny (Some (rt, v))) rest
| A_typename_unknown t cur x ts v rest :                (* an unknown name is dropped *)
    underlying t = TAny -> (forall name, x = VStr name -> reg_lookup R name = None) ->
    Conforms t cur ts v rest ->
    Conforms t cur (T KTypeName x :: ts) v rest

(* items of an array target, decoded in place from index idx on; fewer items than the array holds
   leave the remaining elements untouched; there is no rule for an item beyond the last element *)
with ConformsArr : ty -> list gval -> nat -> list token -> list gval -> list token -> Prop :=
| CA_end e items idx x rest :
    ConformsArr e items idx (T KArrayEnd x :: rest) items rest
| CA_item e items idx tk ts v ts1 items' rest :
    kind tk <> KArrayEnd -> (idx < length items)%nat ->
    Conforms e (nth idx items (zero e)) (tk :: ts) v ts1 ->
    ConformsArr e (set_nth idx v items) (S idx) ts1 items' rest ->
    ConformsArr e items idx (tk :: ts) items' rest

(* a sequence of values of type e, each decoded into a fresh element, up to the end marker endk *)
with ConformsSeq : N -> ty -> list token -> list gval -> list token -> Prop :=
| CS_end endk e x rest :
    ConformsSeq endk e (T endk x :: rest) [] rest
| CS_item endk e tk ts v ts1 items rest :
    kind tk <> endk ->
    Conforms e (zero e) (tk :: ts) v ts1 ->
    ConformsSeq endk e ts1 items rest ->
    ConformsSeq endk e (tk :: ts) (v :: items) rest

(* (name, value) pairs of an object, into the fields fs whose current values are vals *)
with ConformsFields : list (bytes * bool * ty) -> list bytes -> list gval -> list token -> list gval -> list token -> Prop :=
| CF_end fs depr vals x rest :
    ConformsFields fs depr vals (T KObjectEnd x :: rest) vals rest
(* a name that is an exported field: the value is decoded into that field, in place *)
| CF_field fs depr vals tk ts name ts1 i ft v ts2 vals' rest :
    kind tk <> KObjectEnd ->
    Conforms TString (GStr []) (tk :: ts) (GStr name) ts1 ->
    find_field name fs 0 = Some (i, ft) ->
    Conforms ft (nth i vals (zero ft)) ts1 v ts2 ->
    ConformsFields fs depr (set_nth i v vals) ts2 vals' rest ->
    ConformsFields fs depr vals (tk :: ts) vals' rest
(* any other name: one balanced value is skipped without being decoded; in strict mode only for
   the names the type declares deprecated *)
| CF_skip fs depr vals tk ts name ts1 ts2 vals' rest :
    kind tk <> KObjectEnd ->
    Conforms TString (GStr []) (tk :: ts) (GStr name) ts1 ->
    find_field name fs 0 = None ->
    (strict o = true -> existsb (bytes_eqb name) depr = true) ->
    skip_value 0 ts1 = Ok ts2 ->
    ConformsFields fs depr vals ts2 vals' rest ->
    ConformsFields fs depr vals (tk :: ts) vals' rest

(* entries of a map target: later entries overwrite equal keys; a key decoded into an interface
   must be comparable (a []byte there becomes a byte array: iface_key) *)
with ConformsEntries : ty -> ty -> bool -> list (gval * gval) -> list token -> gval -> list token -> Prop :=
| CM_end kt vt isnil m x rest :
    ConformsEntries kt vt isnil m (T KMapEnd x :: rest) (GMap isnil m) rest
| CM_entry kt vt isnil m tk ts k ts1 x ts2 res rest :
    kind tk <> KMapEnd ->
    Conforms kt (zero kt) (tk :: ts) k ts1 ->
    comparable_val (iface_key kt k) = true ->
    Conforms vt (zero vt) ts1 x ts2 ->
    ConformsEntries kt vt false (map_set (iface_key kt k) x m) ts2 res rest ->
    ConformsEntries kt vt isnil m (tk :: ts) res rest

(* the results of a func target, one value per declared result, then TupleEnd *)
with ConformsOuts : list ty -> list token -> list gval -> list token -> Prop :=
| CO_end x rest :
    ConformsOuts [] (T KTupleEnd x :: rest) [] rest
| CO_item ot outs tk ts v ts1 vals rest :
    kind tk <> KTupleEnd ->
    Conforms ot (zero ot) (tk :: ts) v ts1 ->
    ConformsOuts outs ts1 vals rest ->
    ConformsOuts (ot :: outs) (tk :: ts) (v :: vals) rest

(* an object into an interface: names must be exported identifiers, pairwise distinct, and no
   field value may be nil; the struct type is made of the dynamic types of the values *)
with ConformsNewStruct : list (bytes * bool * ty) -> list gval -> list token -> gval -> list token -> Prop :=
| CN_end fs vals x rest :
    ConformsNewStruct fs vals (T KObjectEnd x :: rest) (GAny (Some (TStruct fs, GStruct vals))) rest
| CN_field fs vals tk ts name ts1 vt v ts2 res rest :
    kind tk <> KObjectEnd ->
    Conforms TString (GStr []) (tk :: ts) (GStr name) ts1 ->
    is_exported_ident name = true ->
    existsb (fun fd => bytes_eqb (fname fd) name) fs = false ->
    Conforms TAny (GAny None) ts1 (GAny (Some (vt, v))) ts2 ->
    ConformsNewStruct (fs ++ [(name, true, vt)]) (vals ++ [v]) ts2 res rest ->
    ConformsNewStruct fs vals (tk :: ts) res rest

(* a map into an interface: map[any]any; keys non-nil, of a comparable dynamic type, not NaN *)
with ConformsGenEntries : list (gval * gval) -> list token -> gval -> list token -> Prop :=
| CG_end m x rest :
    ConformsGenEntries m (T KMapEnd x :: rest) (GAny (Some (TMap TAny TAny, GMap false m))) rest
| CG_entry m tk ts k ts1 kt kv x ts2 res rest :
    kind tk <> KMapEnd ->
    Conforms TAny (GAny None) (tk :: ts) k ts1 ->
    to_comparable k = GAny (Some (kt, kv)) ->
    comparable_ty kt = true -> nan_key kv = false ->
    Conforms TAny (GAny None) ts1 x ts2 ->
    ConformsGenEntries (map_set (to_comparable k) x m) ts2 res rest ->
    ConformsGenEntries m (tk :: ts) res rest.

End ConformSpec.
