(* Spec/DecodeGrammar.v — the language the decoder accepts (C04), declaratively:
   which byte strings ARE a complete encoding of which token, including the
   non-canonical ones (any non-zero bool byte, over-long length prefixes with
   ignored trailing bytes).  The two kind tables are shared with Model/Codec.v. *)
From SbModel Require Export Model.Codec.
Local Open Scope N_scope.

(* a terminated unsigned varint at the front of a buffer; bytes after the terminator are ignored *)
Inductive uv_parse : bytes -> N -> Prop :=
| uvp_last b junk : b < 128 -> uv_parse (b :: junk) b
| uvp_more b r v : 128 <= b -> uv_parse r v -> uv_parse (b :: r) ((b - 128) + 128 * v).

(* the length field: value and bytes *)
Inductive len_field (maxlen : N) : N -> bytes -> Prop :=
| lf_short b : b < 128 -> b <= maxlen -> len_field maxlen b [b]
| lf_long l u len : l <= 8 -> lenN u = l -> wf_bytes u -> uv_parse u len -> len <= maxlen ->
                    len_field maxlen len ((255 - l) :: u).

Inductive accepts (maxlen : N) : token -> bytes -> Prop :=
| acc_valueless k : is_valueless_kind k = true -> accepts maxlen (T k VNone) [k]
| acc_fixed k n mk img : fixed_kind k = Some (n, mk) -> lenN img = n -> wf_bytes img ->
                         accepts maxlen (T k (mk (le_val img))) (k :: img)
| acc_str k lf len pl : is_str_kind k = true -> len_field maxlen len lf -> lenN pl = len ->
                        accepts maxlen (T k (VStr pl)) (k :: lf ++ pl)
| acc_bytes k lf len pl : is_bytes_kind k = true -> len_field maxlen len lf -> lenN pl = len ->
                          accepts maxlen (T k (VBytes pl)) (k :: lf ++ pl).

(* tokens a conforming encoder may emit under a given limit *)
Definition wf_enc (maxlen : N) (t : token) : Prop :=
  wf_token t = true /\
  match val t with
  | VStr s | VBytes s => lenN s <= maxlen /\ lenN s < 2 ^ 56
  | _ => True
  end.

(* reassembling the segmented output of the comparison-oriented decoder:
   Begin, segments..., End  |->  one String / Bytes token *)
Fixpoint deseg (acc : option (bool * bytes)) (ts : list token) : list token :=
  match ts with
  | [] => []
  | t :: r =>
    match acc with
    | None =>
        if kind t =? KStringBegin then deseg (Some (true, [])) r
        else if kind t =? KBytesBegin then deseg (Some (false, [])) r
        else t :: deseg None r
    | Some (strk, a) =>
        if kind t =? (if strk then KStringEnd else KBytesEnd) then
          T (if strk then KString else KBytes) (if strk then VStr a else VBytes a) :: deseg None r
        else match val t with
             | VStr p | VBytes p => deseg (Some (strk, a ++ p)) r
             | _ => deseg acc r
             end
    end
  end.
Definition desegment (ts : list token) : list token := deseg None ts.
