(* Spec/StreamSpec.v — what the stream and sink combinators are supposed to do
   (C13, C14, C15), as list functions. *)
From SbModel Require Export Model.Procs.
Local Open Scope N_scope.

(* ---------------- sinks: lifetimes ---------------- *)
(* what a recording sink with lifetime l must observe when a stream with tokens ts is copied
   to it: in order, exactly once each, the tokens pulled while it is live and, if it is still
   live once the source is drained, a single end-of-stream signal *)
Definition expected (ts : list token) (l : life) : list (option token) :=
  match l with
  | ToEnd => map Some ts ++ [None]
  | Fin k => let k' := Nat.max k 1 in
             if Nat.leb k' (length ts) then map Some (firstn k' ts) else map Some ts ++ [None]
  end.

(* how many tokens a sink needs from the source *)
Definition needs (n : nat) (s : sink) : nat :=
  match s with
  | SRec _ ToEnd => n
  | SRec _ (Fin k) => Nat.min (Nat.max k 1) n
  | _ => 0%nat
  end.
Definition needed (n : nat) (sinks : list sink) : nat := fold_right (fun s acc => Nat.max (needs n s) acc) 0%nat sinks.

Definition rec_id (s : sink) : option nat := match s with SRec id _ => Some id | _ => None end.
Definition is_rec_or_nil (s : sink) : bool := match s with SRec _ _ | SNil => true | _ => false end.

(* feeding a sink a list of calls (Some token / None = EOS) until it returns nil or errors:
   what Copy does for one sink *)
Inductive srun := SRDone (lg : list delivery) (rest : list (option token))   (* sink returned nil; unconsumed calls *)
               | SRLive (s : sink) (lg : list delivery)                      (* calls exhausted, sink still live *)
               | SRErr (e : eclass) (lg : list delivery).
Fixpoint sink_run (s : sink) (calls : list (option token)) (lg : list delivery) : srun :=
  match calls with
  | [] => if is_nil s then SRDone lg [] else SRLive s lg
  | c :: r =>
      if is_nil s then SRDone lg calls
      else match feed s c with
           | FErr e lg' => SRErr e (lg ++ lg')
           | FOk s' lg' => sink_run s' r (lg ++ lg')
           end
  end.

(* a stream as Copy presents it to a sink: every token, then the end-of-stream signal *)
Definition calls_of (ts : list token) : list (option token) := map Some ts ++ [None].

(* "the sink accepts the stream": Copy(stream, sink) returns no error *)
Definition sink_ok (s : sink) (ts : list token) : Prop :=
  match sink_run s (calls_of ts) [] with SRErr _ _ => False | _ => True end.

(* ---------------- streams: denotation ---------------- *)
(* tame: side sinks of Tee are plain recorders (they never fail and end at EOS) *)
Fixpoint tame (p : proc) : bool :=
  match p with
  | PNil | PFail _ => true
  | PTokens _ c => tame c
  | PIterStream s c => tame s && tame c
  | PTee s sinks c => tame s && tame c && forallb (fun k => match k with SRec _ _ | SDiscard => true | _ => false end) sinks
  | PConcat ss => forallb tame ss
  | PFilter s _ c => tame s && tame c
  | PDeref s _ c => tame s && tame c
  | PDecode _ _ _ _ c => tame c
  end.

Definition seq_den (a : list token * eclass) (b : list token * eclass) : list token * eclass :=
  match snd a with ENone => (fst a ++ fst b, snd b) | e => (fst a, e) end.

Fixpoint deref_list (res : list (bytes * resolution)) (ts : list token) : list token * eclass :=
  match ts with
  | [] => ([], ENone)
  | t :: r =>
      if kind t =? KRef then
        match val t with
        | VBytes h =>
            match lookup_res res h with
            | RFail => ([], EFault)
            | RDecline => seq_den ([t], ENone) (deref_list res r)
            | RStream sub => seq_den (sub, ENone) (deref_list res r)
            end
        | _ => ([], EPanic)
        end
      else seq_den ([t], ENone) (deref_list res r)
  end.

Definition dend_class (d : dend) : eclass := match d with Done => ENone | Fail e _ => e | DOutOfFuel => EDiverge end.

(* the tokens a stream term yields and how it ends (ENone = clean end of stream) *)
Fixpoint den (p : proc) : list token * eclass :=
  match p with
  | PNil => ([], ENone)
  | PTokens ts c => seq_den (ts, ENone) (den c)
  | PFail e => ([], e)
  | PIterStream s c => seq_den (den s) (den c)            (* passes the source through, then cont *)
  | PTee s _ c => seq_den (den s) (den c)                  (* tee passes the source through unchanged *)
  | PConcat ss => fold_right (fun s acc => seq_den (den s) acc) ([], ENone) ss    (* the concatenation *)
  | PFilter s pr c =>
      let '(ts, e) := den s in seq_den (filter (holds pr) ts, e) (den c)          (* the matching subsequence *)
  | PDeref s res c =>
      let '(ts, e) := den s in
      let '(out, e') := deref_list res ts in
      seq_den (out, match e' with ENone => e | _ => e' end) (den c)
  | PDecode maxlen fault bs off c =>
      let '(ts, d) := decode_all (S (length bs)) maxlen fault bs off in
      seq_den (ts, dend_class d) (den c)
  end.

(* the fault-free version of a stream term: failing sources end cleanly instead *)
Fixpoint heal (p : proc) : proc :=
  match p with
  | PNil => PNil
  | PFail _ => PNil
  | PTokens ts c => PTokens ts (heal c)
  | PIterStream s c => PIterStream (heal s) (heal c)
  | PTee s k c => PTee (heal s) k (heal c)
  | PConcat ss => PConcat (map heal ss)
  | PFilter s pr c => PFilter (heal s) pr (heal c)
  | PDeref s res c => PDeref (heal s) res (heal c)
  | PDecode m f bs off c => PDecode m f bs off (heal c)
  end.

Definition is_prefix (a b : list token) : Prop := exists c, b = a ++ c.
