(* Spec/UnmarshalPathsSpec.v — declarative statement of "the reported path identifies the element
   being processed" for unmarshalling (C17): the (path, target kind) pairs a TapUnmarshal callback
   sees while the canonical stream of a value is read back into its type, written as a plain
   structural recursion on the value — the path of an element is the path of its container
   extended by its index / field name. *)
From SbModel Require Export Model.UnmarshalPaths Spec.Conform.
Local Open Scope N_scope.

(* no registered defined type anywhere: the canonical stream then carries no type names *)
Fixpoint noreg_ty (t : ty) : bool :=
  match t with
  | TArray _ e | TSlice e | TPtr e => noreg_ty e
  | TMap k v => noreg_ty k && noreg_ty v
  | TStruct fs => forallb (fun f => noreg_ty (snd f)) fs
  | TFunc outs => forallb noreg_ty outs
  | TNamed _ r _ u => negb r && noreg_ty u
  | _ => true
  end.

(* the element paths, in the order the elements are processed: each value is announced once under
   its own path (with the reflect kind of its type), a pointer's pointee under the pointer's path,
   the i-th element of an array or slice under path ++ [i], a struct field's NAME under the struct's
   path (it is read into a string) and its VALUE under path ++ [name]; end markers are not announced *)
Fixpoint upaths (t : ty) (v : gval) (p : path) {struct v} : list (path * N) :=
  (p, rk_of t) ::
  match v with
  | GPtr (Some x) => upaths (match underlying t with TPtr e => e | _ => TAny end) x p
  | GList _ items =>
      let et := match underlying t with TArray _ e | TSlice e => e | _ => TAny end in
      (fix go (l : list gval) (i : nat) : list (path * N) :=
         match l with
         | [] => []
         | x :: r => upaths et x (p ++ [PIdx (Z.of_nat i)]) ++ go r (S i)
         end) items 0%nat
  | GStruct vals =>
      let fs := match underlying t with TStruct fs => fs | _ => [] end in
      (fix go (l : list gval) (f : list (bytes * bool * ty)) : list (path * N) :=
         match l, f with
         | x :: r, fd :: fr =>
             if negb (fexported fd) then go r fr
             else (p, 24) :: upaths (snd fd) x (p ++ [PStr (fname fd)]) ++ go r fr
         | _, _ => []
         end) vals fs
  | _ => []
  end.

(* the (path, target kind) projection of a tap log *)
Definition log_paths (l : list utap) : list (path * N) := map (fun e => (fst (fst e), snd e)) l.

(* prefixing every path of an outcome *)
Definition shift_log (q : path) (l : list utap) : list utap := map (fun e => (q ++ fst (fst e), snd (fst e), snd e)) l.
Definition shift_res {A} (q : path) (r : pres A) : pres A :=
  match r with PErr e p => PErr e (q ++ p) | x => x end.
