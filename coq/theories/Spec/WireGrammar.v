(* Spec/WireGrammar.v — the wire layout, stated from the property text alone
   (C03), independently of Model/Codec.v: positional statements about byte
   images rather than a second encoder. *)
From SbModel Require Export Base.Tokens.
Local Open Scope N_scope.

(* byte i of the little-endian image of n *)
Definition le_digit (n : N) (i : nat) : N := (n / 256 ^ N.of_nat i) mod 256.

(* [img] is the w-byte little-endian image of n *)
Definition le_image (w : nat) (n : N) (img : bytes) : Prop :=
  length img = w /\ forall i, (i < w)%nat -> nth i img 0 = le_digit n i.

(* unsigned varint: base-128 digits, least significant first, high bit = "more follows" *)
Inductive uvarint_of : N -> bytes -> Prop :=
| uv_last n : n < 128 -> uvarint_of n [n]
| uv_more n bs : 128 <= n -> uvarint_of (n / 128) bs -> uvarint_of n ((128 + n mod 128) :: bs).

(* length prefix: a single byte below 128, otherwise the complemented count of
   varint bytes followed by the unsigned varint *)
Inductive prefix_of : N -> bytes -> Prop :=
| pf_short n : n < 128 -> prefix_of n [n]
| pf_long n u : 128 <= n -> uvarint_of n u -> prefix_of n ((255 - lenN u) :: u).

(* what follows the kind byte *)
Inductive layout_val : tval -> bytes -> Prop :=
| lv_none : layout_val VNone []
| lv_bool b : layout_val (VBool b) [if b then 1 else 0]
| lv_int w z img :                         (* two's complement, int = 8 bytes *)
    le_image (wbytes w) (Z.to_N (z mod 2 ^ (8 * Z.of_nat (wbytes w)))%Z) img -> layout_val (VI w z) img
| lv_uint w n img : le_image (wbytes w) n img -> layout_val (VU w n) img
| lv_ptr n img : le_image 8 n img -> layout_val (VPtr n) img
| lv_f32 b img : le_image 4 b img -> layout_val (VF32 b) img      (* IEEE-754 bit pattern *)
| lv_f64 b img : le_image 8 b img -> layout_val (VF64 b) img
| lv_str s p : prefix_of (lenN s) p -> layout_val (VStr s) (p ++ s)
| lv_bytes s p : prefix_of (lenN s) p -> layout_val (VBytes s) (p ++ s).

Definition layout_token (t : token) (bs : bytes) : Prop :=
  exists img, bs = kind t :: img /\ layout_val (val t) img.

Inductive layout_stream : list token -> bytes -> Prop :=
| ls_nil : layout_stream [] []
| ls_cons t ts b bs : layout_token t b -> layout_stream ts bs -> layout_stream (t :: ts) (b ++ bs).

(* the frozen kind numbering (ordering-significant) *)
Definition frozen_kinds : list N :=
  [0; 1; 10; 20; 25; 27; 30; 40; 49; 50; 51; 54; 55; 56; 60; 70; 80; 90; 100;
   110; 120; 130; 140; 150; 160; 170; 175; 180; 190; 200; 210; 230; 240; 245; 251; 255].
