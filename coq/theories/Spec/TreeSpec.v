(* Spec/TreeSpec.v — what the tree of a value IS (C12), which node carries which
   hash under WithHash, and reference substitution on values (C10). *)
From SbModel Require Export Model.Tree.
Local Open Scope N_scope.

Definition vlen (v : value) : nat := length (flatten v).

(* the tree of value v whose first token has stream index i: children are exactly
   the direct sub-values, followed (for compounds) by the end-marker node paired
   with the opening node.  [hl] decides the hash attached to leaf / end-marker nodes. *)
Section TreeOf.
Variable hl : token -> option bytes.

Fixpoint tree_of (i : nat) (v : value) : tree :=
  match v with
  | Leaf t => Node i t None (hl t) []
  | Comp ko kc items =>
      Node i (T ko VNone) None None
        ((fix subs (j : nat) (l : list value) : list tree :=
            match l with
            | [] => [Node j (T kc VNone) (Some i) (hl (T kc VNone)) []]
            | x :: r => tree_of j x :: subs (j + vlen x)%nat r
            end) (S i) items)
  | Named n v => Node i (T KTypeName (VStr n)) None None [tree_of (S i) v]
  end.
End TreeOf.

Definition plain_tree (i : nat) (v : value) : tree := tree_of (fun _ => None) i v.

Definition norm_hash (h : bytes) : option bytes := match h with [] => None | _ => Some h end.

(* under WithHash: leaves and end markers carry their own hash, inner compound and
   type-name nodes carry none, the root carries the hash of the whole stream *)
Definition hashed_tree (H : bytes -> bytes) (v : value) : tree :=
  set_hash (norm_hash (mhash H v)) (tree_of (fun t => norm_hash (leaf_hash H t)) 0 v).

(* sub-values *)
Inductive subvalue : value -> value -> Prop :=
| sv_refl v : subvalue v v
| sv_item s ko kc items x : In x items -> subvalue s x -> subvalue s (Comp ko kc items)
| sv_named s n v : subvalue s v -> subvalue s (Named n v).

Fixpoint ref_free (v : value) : bool :=
  match v with
  | Leaf t => negb (kind t =? KRef)
  | Comp _ _ items => forallb ref_free items
  | Named _ v => ref_free v
  end.

(* replacing the sub-values whose first token has an index in [sel] by reference tokens
   carrying their hashes (selected nodes are not descended into, so [sel] acts as an antichain) *)
Section Subst.
Variable H : bytes -> bytes.

Fixpoint subst_at (sel : list nat) (i : nat) (v : value) : value :=
  if existsb (Nat.eqb i) sel then Leaf (T KRef (VBytes (mhash H v)))
  else match v with
       | Leaf t => v
       | Comp ko kc items =>
           Comp ko kc
             ((fix go (j : nat) (l : list value) : list value :=
                 match l with
                 | [] => []
                 | x :: r => subst_at sel j x :: go (j + vlen x)%nat r
                 end) (S i) items)
       | Named n v' => Named n (subst_at sel (S i) v')
       end.

(* the stream index of every end marker of v (these are not sub-values and may not be selected) *)
Fixpoint end_indices (i : nat) (v : value) : list nat :=
  match v with
  | Leaf _ => []
  | Comp _ _ items =>
      (fix go (j : nat) (l : list value) : list nat :=
         match l with
         | [] => [j]
         | x :: r => end_indices j x ++ go (j + vlen x)%nat r
         end) (S i) items
  | Named _ v' => end_indices (S i) v'
  end.

(* the selected sub-values (outermost only), with their indices *)
Fixpoint selected (sel : list nat) (i : nat) (v : value) : list (nat * value) :=
  if existsb (Nat.eqb i) sel then [(i, v)]
  else match v with
       | Leaf _ => []
       | Comp _ _ items =>
           (fix go (j : nat) (l : list value) : list (nat * value) :=
              match l with
              | [] => []
              | x :: r => selected sel j x ++ go (j + vlen x)%nat r
              end) (S i) items
       | Named _ v' => selected sel (S i) v'
       end.
End Subst.
