(* Spec/JsonDecode.v — reference semantics of decoding a JSON document into a typed Go target,
   written by structural recursion on the DOCUMENT (not on tokens): the value a JSON decoder gives
   for bool / integer / float / string / slice / struct / pointer targets whose numeric positions
   have numeric types (C20, second sentence).  It is tied to the real encoding/json by the
   correspondence (every generated document and target: jdec vs json.Unmarshal, Corr_json), and
   to the unmarshaller by Proofs/JsonDecodeP.v: unmarshalling the mirroring stream of the document
   computes exactly jdec. *)
From SbModel Require Export Model.Json.
Local Open Scope N_scope.

(* the targets of the property: no maps, interfaces, funcs, times, byte slices or arrays *)
Fixpoint jtarget (t : ty) : bool :=
  match t with
  | TBool | TInt _ | TUint _ | TUintptr | TF32 | TF64 | TString => true
  | TSlice e | TPtr e => jtarget e
  | TStruct fs => forallb (fun f => jtarget (snd f)) fs
  | TNamed _ _ _ u => jtarget u
  | _ => false
  end.

(* the pointer levels of a type and what they lead to (a defined non-pointer type is kept as it is) *)
Fixpoint ptr_strip (t : ty) : nat * ty :=
  match t with
  | TPtr e => let '(n, b) := ptr_strip e in (S n, b)
  | TNamed _ _ _ u => match ptr_strip u with (O, _) => (O, t) | r => r end
  | _ => (O, t)
  end.

Fixpoint wrap_ptr (n : nat) (v : gval) : gval :=
  match n with O => v | S n' => GPtr (Some (wrap_ptr n' v)) end.

Section WithParseFloat.
Variable pf : bytes -> N -> option N.

(* a JSON scalar against a position *)
Definition jscalar (t : ty) (j : json) : res gval :=
  match j with
  | JBool b => set_scalar t (T KBool (VBool b))
  | JStr s => set_scalar t (T KString (VStr s))
  | JNum s => bind (convert_literal pf t s) (fun tk => set_scalar t tk)
  | _ => Err EOther
  end.

(* jdec o t cur j: the content of a position of type t, currently holding cur, after document j.
   null leaves the position as it is; any other document reaches through the pointer levels of t
   (fresh pointees); an array appends its items to a slice; an object assigns its members to the
   fields they name, in document order (a repeated name is assigned again), unknown names being
   skipped - or rejected under the strict option unless declared deprecated. *)
Fixpoint jdec (o : copts) (t : ty) (cur : gval) (j : json) {struct j} : res gval :=
  match j with
  | JNull => Ok cur
  | _ =>
    let '(n, b) := ptr_strip t in
    let cur0 := match n with O => cur | S _ => zero b end in
    bind
      match j with
      | JArr items =>
          match underlying b with
          | TSlice e =>
              bind ((fix go (l : list json) (acc : list gval) : res (list gval) :=
                       match l with
                       | [] => Ok acc
                       | x :: r => bind (jdec o e (zero e) x) (fun v => go r (acc ++ [v]))
                       end) items (items_of_gval cur0))
                   (fun acc => Ok (GList (is_nil_container cur0 && match acc with [] => true | _ => false end) acc))
          | _ => Err (EMismatch KArray (rk_of b))
          end
      | JObj members =>
          match underlying b with
          | TStruct fs =>
              let vals0 := match cur0 with GStruct vs => vs | _ => map (fun fd => zero (snd fd)) fs end in
              bind ((fix go (l : list (bytes * json)) (vals : list gval) : res (list gval) :=
                       match l with
                       | [] => Ok vals
                       | m :: r =>
                           match find_field (fst m) fs 0 with
                           | Some (i, ft) => bind (jdec o ft (nth i vals (zero ft)) (snd m)) (fun v => go r (set_nth i v vals))
                           | None => if strict o && negb (existsb (bytes_eqb (fst m)) (depr_of b)) then Err EUnknownField else go r vals
                           end
                       end) members vals0)
                   (fun vals => Ok (GStruct vals))
          | _ => Err (EMismatch KObject (rk_of b))
          end
      | _ => jscalar b j
      end
      (fun v => Ok (wrap_ptr n v))
  end.

End WithParseFloat.
