(* Spec/Pipeline.v — programs composed of the 16 identity-preserving stage kinds of fuzz.go
   (C13), each interpreted through the operational models of the components it uses. *)
From SbModel Require Export Model.Procs Model.Unmarshal Spec.TreeSpec Spec.StreamSpec.
Local Open Scope N_scope.

Inductive stage :=
| StAny                      (* unmarshal into `any`, marshal again *)
| StCodec                    (* encode to bytes, decode *)
| StTokens                   (* TokensFromStream, then iterate the tokens *)
| StTree                     (* TreeFromStream, then Iter *)
| StTreeFunc                 (* TreeFromStream, then IterFunc replacing nothing *)
| StSubstDeref (sel : list nat)   (* FillHash, replace the selected nodes by references, Deref them again *)
| StIterStream               (* IterStream(in, nil) *)
| StEmbedded                 (* Marshal(IterStream(in, nil)): a stream embedded in a marshalled value *)
| StFindRoot                 (* FindByHash with the stream's own hash *)
| StTee3 (pick : nat)        (* Tee to three Unmarshal(&any) sinks, marshal one of them *)
| StTee                      (* Tee(in) with no side sinks *)
| StTeeCodec                 (* Tee(in, Encode(buf)) copied to Discard, then Decode(buf) *)
| StCollect                  (* Copy to CollectTokens, iterate *)
| StCollectValue             (* Copy to CollectValueTokens, iterate *)
| StSinkMarshal              (* CollectTokens(&ts).Marshal(in) *)
| StTupleWrap.               (* unmarshal to any, wrap in a Tuple, marshal, unmarshal the Tuple, marshal its item *)

Section WithEnv.
Variable H : bytes -> bytes.                    (* the hash function *)
Variable R : registry.
Variable pf : bytes -> N -> option N.

Definition any_roundtrip (ts : list token) : res (list token) :=
  bind (unm pf (2000 + 4 * length ts) default_opts R TAny (GAny None) ts) (fun r =>
  marshal default_opts TAny (fst r)).

Definition run_tokens (p : proc) (n : nat) : res (list token) :=
  let '(ts, e, _) := run (S n + 8) p in
  match e with ENone => Ok ts | e => Err e end.

Definition codec_roundtrip (ts : list token) : res (list token) :=
  match decode default_maxlen (encode ts) with
  | (out, Done) => Ok out
  | (_, Fail e _) => Err e
  | (_, DOutOfFuel) => OutOfFuel
  end.

Definition of_sum {A} (r : A + eclass) : res A := match r with inl a => Ok a | inr e => Err e end.

Definition in_natb (i : nat) (l : list nat) : bool := existsb (Nat.eqb i) l.
Definition ref_fn (sel : list nat) (t : tree) : option token :=
  if in_natb (t_idx t) sel then match t_hash t with Some h => Some (T KRef (VBytes h)) | None => None end else None.
Fixpoint all_nodes (t : tree) : list tree := match t with Node _ _ _ _ subs => t :: flat_map all_nodes subs end.
Definition resolver_of (nodes : list tree) (sel : list nat) (h : bytes) : resolution :=
  match find (fun n => in_natb (t_idx n) sel && bytes_eq_opt (t_hash n) h) nodes with
  | Some n => RStream (iter n)
  | None => RDecline
  end.

Definition run_stage (s : stage) (ts : list token) : res (list token) :=
  match s with
  | StAny | StTee3 _ => any_roundtrip ts
  | StTupleWrap => bind (any_roundtrip ts) any_roundtrip
  | StCodec | StTeeCodec => codec_roundtrip ts
  | StTokens | StSinkMarshal | StEmbedded => Ok ts
  | StIterStream => run_tokens (PIterStream (PTokens ts PNil) PNil) (length ts)
  | StTee => run_tokens (PTee (PTokens ts PNil) [] PNil) (length ts)
  | StCollect =>
      match sink_run (SRec 0 ToEnd) (calls_of ts) [] with
      | SRDone lg _ => Ok (flat_map (fun d => match snd d with Some t => [t] | None => [] end) lg)
      | SRErr e _ => Err e
      | SRLive _ _ => Err EOther
      end
  | StCollectValue =>
      match sink_run (SCollectValue 0 []) (calls_of ts) [] with
      | SRDone lg _ => Ok (flat_map (fun d => match snd d with Some t => [t] | None => [] end) lg)
      | SRErr e _ => Err e
      | SRLive _ _ => Err EOther
      end
  | StTree => bind (of_sum (build ts)) (fun t => match t with Some t => Ok (iter t) | None => Ok [] end)
  | StTreeFunc => bind (of_sum (build ts)) (fun t => match t with Some t => Ok (iter_func (fun _ => None) t) | None => Ok [] end)
  | StSubstDeref sel =>
      bind (of_sum (build ts)) (fun t =>
      match t with
      | None => Ok []
      | Some t =>
          bind (of_sum (fill_hash H t)) (fun t' =>
          let sub := iter_func (ref_fn sel) t' in
          let '(out, e) := deref (resolver_of (all_nodes t') sel) sub in
          match e with ENone => Ok out | e => Err e end)
      end)
  | StFindRoot =>
      bind (of_sum (hash_result H ts)) (fun h => of_sum (find_by_hash H ts h))
  end.

Fixpoint run_pipeline (p : list stage) (ts : list token) : res (list token) :=
  match p with
  | [] => Ok ts
  | s :: r => bind (run_stage s ts) (run_pipeline r)
  end.

End WithEnv.
