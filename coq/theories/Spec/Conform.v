(* Spec/Conform.v — typing of values, the round-trip domain and the property's notion of
   equivalence (C01), field assignment by name (C16). *)
From SbModel Require Export Model.Unmarshal.
Local Open Scope N_scope.

(* v is a value of Go type t (shape and ranges) *)
Fixpoint has_type (t : ty) (v : gval) {struct v} : bool :=
  match v with
  | GBool _ => match underlying t with TBool => true | _ => false end
  | GInt z => match underlying t with TInt w => in_irange w z | _ => false end
  | GUint n => match underlying t with TUint w => in_urange w n | TUintptr => n <? 2 ^ 64 | _ => false end
  | GF32 b => match underlying t with TF32 => b <? 2 ^ 32 | _ => false end
  | GF64 b => match underlying t with TF64 => b <? 2 ^ 64 | _ => false end
  | GStr s => match underlying t with TString => wf_bytesb s | _ => false end
  | GBytes isnil s =>
      match underlying t with
      | TBytes => wf_bytesb s && (negb isnil || match s with [] => true | _ => false end)
      | TByteArray n => wf_bytesb s && Nat.eqb (length s) n && negb isnil
      | _ => false
      end
  | GTime enc => match underlying t with TTime => wf_bytesb enc && valid_time_enc enc | _ => false end
  | GList isnil items =>
      match underlying t with
      | TArray n e => negb isnil && Nat.eqb (length items) n &&
                      (fix all (l : list gval) : bool := match l with [] => true | x :: r => has_type e x && all r end) items
      | TSlice e => (negb isnil || match items with [] => true | _ => false end) &&
                    (fix all (l : list gval) : bool := match l with [] => true | x :: r => has_type e x && all r end) items
      | _ => false
      end
  | GMap isnil entries =>
      match underlying t with
      | TMap kt vt => (negb isnil || match entries with [] => true | _ => false end) &&
                      (fix all (l : list (gval * gval)) : bool :=
                         match l with [] => true | (k, x) :: r => has_type kt k && has_type vt x && all r end) entries
      | _ => false
      end
  | GStruct vals =>
      match underlying t with
      | TStruct fs =>
          (fix all (l : list gval) (f : list (bytes * bool * ty)) : bool :=
             match l, f with
             | [], [] => true
             | x :: r, fd :: fr => has_type (snd fd) x && all r fr
             | _, _ => false
             end) vals fs
      | _ => false
      end
  | GPtr p => match underlying t, p with
              | TPtr _, None => true
              | TPtr e, Some x => has_type e x
              | _, _ => false
              end
  | GAny d => match underlying t, d with
              | TAny, None => true
              | TAny, Some (t', x) => has_type t' x
              | _, _ => false
              end
  | GFunc r => match underlying t, r with
               | TFunc _, None => true
               | TFunc outs, Some items =>
                   (fix all (l : list gval) (ts : list ty) : bool :=
                      match l, ts with
                      | [], [] => true
                      | x :: r', xt :: tr => has_type xt x && all r' tr
                      | _, _ => false
                      end) items outs
               | _, _ => false
               end
  end.

(* the first round-trip universe: everything except maps, interfaces and tuple funcs
   (those are covered by the correspondence and by dedicated theorems) *)
Fixpoint simple_ty (t : ty) : bool :=
  match t with
  | TBool | TInt _ | TUint _ | TUintptr | TF32 | TF64 | TString | TBytes | TByteArray _ | TTime => true
  | TArray _ e | TSlice e | TPtr e => simple_ty e
  | TStruct fs => forallb (fun f => simple_ty (snd f)) fs
  | TNamed _ _ _ u => simple_ty u
  | TMap _ _ | TAny | TFunc _ => false
  end.

(* struct field names are well-formed byte strings and exported names are pairwise distinct
   (Go guarantees both) *)
Fixpoint wf_ty (t : ty) : bool :=
  match t with
  | TArray _ e | TSlice e | TPtr e => wf_ty e
  | TMap k v => wf_ty k && wf_ty v
  | TStruct fs =>
      forallb (fun f => wf_bytesb (fname f) && wf_ty (snd f)) fs &&
      (fix nodup (l : list (bytes * bool * ty)) : bool :=
         match l with
         | [] => true
         | f :: r => negb (existsb (fun g => bytes_eqb (fname f) (fname g)) r) && nodup r
         end) fs
  | TFunc outs => forallb wf_ty outs
  | TNamed n _ _ u => wf_bytesb n && wf_ty u
  | _ => true
  end.

(* a non-nil pointer whose pointee is (through further pointers) nil: not expressible on the wire *)
Fixpoint no_ptr_to_nil (v : gval) : bool :=
  match v with
  | GPtr (Some (GPtr None)) => false
  | GPtr (Some x) => no_ptr_to_nil x
  | GList _ items => forallb no_ptr_to_nil items
  | GStruct vals => forallb no_ptr_to_nil vals
  | GMap _ es => forallb (fun e => no_ptr_to_nil (fst e) && no_ptr_to_nil (snd e)) es
  | GAny (Some (_, x)) => no_ptr_to_nil x
  | GFunc (Some items) => forallb no_ptr_to_nil items
  | _ => true
  end.

(* the value a zero T holds after unmarshalling the stream of v: v itself, except that
   unexported struct fields stay zero, nil and empty slices coincide (both come back with
   the model's normal form), NaN comes back as the canonical NaN *)
Fixpoint normal (t : ty) (v : gval) {struct v} : gval :=
  match v with
  | GF32 b => if f32_is_nan b then GF32 f32_nan_bits else v
  | GF64 b => if f64_is_nan b then GF64 f64_nan_bits else v
  | GBytes isnil s => GBytes false s
  | GList isnil items =>
      match underlying t with
      | TArray _ e => GList false (map (normal e) items)
      | TSlice e => GList (match items with [] => true | _ => false end) (map (normal e) items)
      | _ => v
      end
  | GStruct vals =>
      match underlying t with
      | TStruct fs =>
          GStruct ((fix go (l : list gval) (f : list (bytes * bool * ty)) : list gval :=
                      match l, f with
                      | x :: r, fd :: fr => (if fexported fd then normal (snd fd) x else zero (snd fd)) :: go r fr
                      | _, _ => []
                      end) vals fs)
      | _ => v
      end
  | GPtr (Some x) => match underlying t with TPtr e => GPtr (Some (normal e x)) | _ => v end
  | _ => v
  end.

(* ---- C16: assignment by name ---- *)
(* the reader struct's fields after reading an object written from a writer struct: fields
   present in both (same exported name) take the writer's value, the others keep the
   reader's previous content *)
Definition assign_by_name (wfs rfs : list (bytes * bool * ty)) (wvals rvals : list gval) : list gval :=
  map (fun '(rf, rv) =>
         match find (fun '(wf, _) => fexported wf && fexported rf && bytes_eqb (fname wf) (fname rf))
                    (combine wfs wvals) with
         | Some (wf, wv) => normal (snd rf) wv
         | None => rv
         end) (combine rfs rvals).
