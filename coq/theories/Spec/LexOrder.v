(* Spec/LexOrder.v — the documented order on token streams (C06), stated from the
   property text: lexicographic, token by token; first by kind number, then by
   value (false<true, numeric order within each numeric kind, bytewise for
   strings and blobs); a proper prefix sorts first. *)
From SbModel Require Export Base.Floats Base.Tokens.
Local Open Scope N_scope.

Definition val_ord (v1 v2 : tval) : comparison :=
  match v1, v2 with
  | VBool x, VBool y => match x, y with false, true => Lt | true, false => Gt | _, _ => Eq end
  | VI _ x, VI _ y => (x ?= y)%Z
  | VU _ x, VU _ y => x ?= y
  | VPtr x, VPtr y => x ?= y
  | VF32 x, VF32 y => (f32_key x ?= f32_key y)%Z      (* numeric order; +0 and -0 coincide *)
  | VF64 x, VF64 y => (f64_key x ?= f64_key y)%Z
  | VStr x, VStr y => bytes_cmp x y
  | VBytes x, VBytes y => bytes_cmp x y
  | _, _ => Eq
  end.

Definition tok_ord (s t : token) : comparison :=
  match kind s ?= kind t with Eq => val_ord (val s) (val t) | c => c end.

Fixpoint lex (a b : list token) : comparison :=
  match a, b with
  | [], [] => Eq
  | [], _ :: _ => Lt
  | _ :: _, [] => Gt
  | x :: a', y :: b' => match tok_ord x y with Eq => lex a' b' | c => c end
  end.

(* the domain: well-formed tokens whose float payloads are numbers (the canonical
   NaN is the dedicated NaN kind, which IS in the domain) *)
Definition not_nan_payload (v : tval) : bool :=
  match v with VF32 b => negb (f32_is_nan b) | VF64 b => negb (f64_is_nan b) | _ => true end.
Definition wf_cmp (t : token) : bool := wf_token t && not_nan_payload (val t).

(* "token-for-token identical", numerically equal floats counting as equal *)
Definition tok_same (s t : token) : Prop := tok_ord s t = Eq.
