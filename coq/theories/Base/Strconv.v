(* Base/Strconv.v — the parts of strconv the unmarshaller uses on Literal tokens:
   ParseBool, ParseInt(s, 10, bits), ParseUint(s, 10, bits).  (ParseFloat is a parameter of
   the model: the harness supplies the table of float literals occurring in a case.) *)
From SbModel Require Export Base.Bytes.
Local Open Scope N_scope.

Definition parse_bool (s : bytes) : option bool :=
  if existsb (bytes_eqb s) [[49]; [116]; [84]; [84;82;85;69]; [116;114;117;101]; [84;114;117;101]] then Some true
  else if existsb (bytes_eqb s) [[48]; [102]; [70]; [70;65;76;83;69]; [102;97;108;115;101]; [70;97;108;115;101]] then Some false
  else None.

(* decimal digits -> value; None if empty or a non-digit occurs *)
Fixpoint digits_val (acc : N) (s : bytes) : option N :=
  match s with
  | [] => Some acc
  | c :: r => if (48 <=? c) && (c <=? 57) then digits_val (acc * 10 + (c - 48)) r else None
  end.
Definition parse_digits (s : bytes) : option N :=
  match s with [] => None | _ => digits_val 0 s end.

(* strconv.ParseUint(s, 10, bits): no sign, range checked *)
Definition parse_uint (bits : N) (s : bytes) : option N :=
  match parse_digits s with
  | Some n => if n <? 2 ^ bits then Some n else None
  | None => None
  end.

(* strconv.ParseInt(s, 10, bits): optional sign, range checked *)
Definition parse_int (bits : N) (s : bytes) : option Z :=
  let '(neg, body) := match s with
                      | 45 :: r => (true, r)
                      | 43 :: r => (false, r)
                      | _ => (false, s)
                      end in
  match parse_digits body with
  | None => None
  | Some n =>
      let h := 2 ^ (bits - 1) in
      if neg then (if n <=? h then Some (- Z.of_N n)%Z else None)
      else (if n <? h then Some (Z.of_N n) else None)
  end.
