(* Base/Values.v — abstract values (the domain of C09-C13) and their token streams. *)
From SbModel Require Export Base.Tokens.
Local Open Scope N_scope.

Inductive value :=
| Leaf (t : token)                                  (* any token that is a value by itself, incl. Ref *)
| Comp (ko kc : N) (items : list value)             (* opening kind, closing kind *)
| Named (name : bytes) (v : value).                 (* TypeName prefix *)

Section value_ind2.
  Variable P : value -> Prop.
  Hypothesis HL : forall t, P (Leaf t).
  Hypothesis HC : forall ko kc items, Forall P items -> P (Comp ko kc items).
  Hypothesis HN : forall n v, P v -> P (Named n v).
  Fixpoint value_ind2 (v : value) : P v :=
    match v with
    | Leaf t => HL t
    | Comp ko kc items =>
        HC ko kc items
          ((fix go (l : list value) : Forall P l :=
              match l with [] => Forall_nil _ | x :: r => Forall_cons _ (value_ind2 x) (go r) end) items)
    | Named n v => HN n v (value_ind2 v)
    end.
End value_ind2.

Fixpoint flatten (v : value) : list token :=
  match v with
  | Leaf t => [t]
  | Comp ko kc items => T ko VNone :: flat_map flatten items ++ [T kc VNone]
  | Named n v => T KTypeName (VStr n) :: flatten v
  end.

Definition is_open_kind (k : N) : bool := (k =? KArray) || (k =? KObject) || (k =? KMap) || (k =? KTuple).
Definition is_end_kind (k : N) : bool := (k =? KArrayEnd) || (k =? KObjectEnd) || (k =? KMapEnd) || (k =? KTupleEnd).
Definition end_of (k : N) : N :=
  if k =? KArray then KArrayEnd else if k =? KObject then KObjectEnd
  else if k =? KMap then KMapEnd else KTupleEnd.

(* leaf tokens: anything that is neither an opening kind, an end marker nor a type name *)
Definition is_leaf_token (t : token) : bool :=
  negb (is_open_kind (kind t)) && negb (is_end_kind (kind t)) && negb (kind t =? KTypeName).

(* well-formed value: leaves are leaf tokens, compounds are closed by their own end marker *)
Fixpoint wf_value (v : value) : bool :=
  match v with
  | Leaf t => is_leaf_token t && wf_token t
  | Comp ko kc items => is_open_kind ko && (kc =? end_of ko) && forallb wf_value items
  | Named n v => wf_bytesb n && wf_value v
  end.

(* parsing a value off the front of a token list (fuel = length) *)
Fixpoint parse_value (fuel : nat) (ts : list token) : option (value * list token) :=
  match fuel with
  | O => None
  | S f =>
    match ts with
    | [] => None
    | t :: r =>
        if is_open_kind (kind t) then
          (fix items (g : nat) (acc : list value) (l : list token) : option (value * list token) :=
             match g with
             | O => None
             | S g' =>
               match l with
               | [] => None
               | e :: l' =>
                   if is_end_kind (kind e) then Some (Comp (kind t) (kind e) (rev acc), l')
                   else match parse_value f l with
                        | Some (v, l'') => items g' (v :: acc) l''
                        | None => None
                        end
               end
             end) (S (length r)) [] r
        else if kind t =? KTypeName then
          match val t, parse_value f r with
          | VStr n, Some (v, r') => Some (Named n v, r')
          | _, _ => None
          end
        else if is_end_kind (kind t) then None
        else Some (Leaf t, r)
    end
  end.
