(* Base/Fnv.v — FNV-128 and FNV-128a (hash/fnv) in Gallina, used to instantiate the
   abstract hash function H when the model's digests are compared with the
   implementation's inside Coq.  Validated against hash/fnv by every hash case. *)
From SbModel Require Export Base.Bytes.
Local Open Scope N_scope.

Definition fnv_offset128 : N := 144066263297769815596495629667062367629.   (* 0x6c62272e07bb014262b821756295c58d *)
Definition fnv_prime128 : N := 309485009821345068724781371.                (* 2^88 + 0x13b *)
Definition two128 : N := 340282366920938463463374607431768211456.

Definition fnv128_step (h b : N) : N := N.lxor ((h * fnv_prime128) mod two128) b.
Definition fnv128a_step (h b : N) : N := ((N.lxor h b) * fnv_prime128) mod two128.

(* 16 bytes, big-endian *)
Fixpoint be_bytes (w : nat) (n : N) : bytes :=
  match w with O => [] | S w' => be_bytes w' (n / 256) ++ [n mod 256] end.

Definition fnv128 (bs : bytes) : bytes := be_bytes 16 (fold_left fnv128_step bs fnv_offset128).
Definition fnv128a (bs : bytes) : bytes := be_bytes 16 (fold_left fnv128a_step bs fnv_offset128).
