(* Base/Floats.v — IEEE-754 binary32/binary64 as bit patterns: NaN test and the
   order Go's < and == implement on non-NaN values (sign-magnitude key, both zeros = 0). *)
From SbModel Require Export Base.Bytes.
Local Open Scope N_scope.

Definition f64_is_nan (b : N) : bool := ((b / 2 ^ 52) mod 2 ^ 11 =? 2047) && (0 <? b mod 2 ^ 52).
Definition f32_is_nan (b : N) : bool := ((b / 2 ^ 23) mod 2 ^ 8 =? 255) && (0 <? b mod 2 ^ 23).

Definition f64_key (b : N) : Z := if b <? 2 ^ 63 then Z.of_N b else (- Z.of_N (b - 2 ^ 63))%Z.
Definition f32_key (b : N) : Z := if b <? 2 ^ 31 then Z.of_N b else (- Z.of_N (b - 2 ^ 31))%Z.

(* Go:  a < b  and  a == b  on float values *)
Definition f64_lt (a b : N) : bool := negb (f64_is_nan a) && negb (f64_is_nan b) && (f64_key a <? f64_key b)%Z.
Definition f64_eq (a b : N) : bool := negb (f64_is_nan a) && negb (f64_is_nan b) && (f64_key a =? f64_key b)%Z.
Definition f32_lt (a b : N) : bool := negb (f32_is_nan a) && negb (f32_is_nan b) && (f32_key a <? f32_key b)%Z.
Definition f32_eq (a b : N) : bool := negb (f32_is_nan a) && negb (f32_is_nan b) && (f32_key a =? f32_key b)%Z.
