(* Base/Bytes.v — bytes as N, little-endian images, two's complement, uvarint.
   Executable definitions only; proofs live in Proofs/BytesP.v. *)
From Coq Require Export List NArith ZArith Bool.
Export ListNotations.
Local Open Scope N_scope.

Definition bytes := list N.

Definition wf_byte (b : N) : Prop := b < 256.
Definition wf_bytes (l : bytes) : Prop := Forall wf_byte l.
Definition wf_byteb (b : N) : bool := b <? 256.
Definition wf_bytesb (l : bytes) : bool := forallb wf_byteb l.

(* run-length expansion used by the case files: (count, byte) pairs *)
Fixpoint rep (n : nat) (b : N) : bytes :=
  match n with O => [] | S k => b :: rep k b end.
Definition expand (r : list (N * N)) : bytes :=
  flat_map (fun p => rep (N.to_nat (fst p)) (snd p)) r.

(* little-endian image of n in w bytes: binary.LittleEndian.PutUintXX *)
Fixpoint le_bytes (w : nat) (n : N) : bytes :=
  match w with
  | O => []
  | S w' => (n mod 256) :: le_bytes w' (n / 256)
  end.

(* binary.LittleEndian.UintXX *)
Fixpoint le_val (bs : bytes) : N :=
  match bs with
  | [] => 0
  | b :: r => b + 256 * le_val r
  end.

(* two's complement image of z in w bytes (Go: uintN(intN value)) *)
Definition twos (w : nat) (z : Z) : N := Z.to_N (z mod 2 ^ (8 * Z.of_nat w))%Z.
(* back: intN(uintN value) *)
Definition untwos (w : nat) (n : N) : Z :=
  let m := (2 ^ (8 * Z.of_nat w))%Z in
  let z := (Z.of_N n mod m)%Z in
  if (z <? m / 2)%Z then z else (z - m)%Z.

(* binary.PutUvarint: 7 bits per byte, least significant group first *)
Fixpoint put_uvarint_f (fuel : nat) (n : N) : bytes :=
  match fuel with
  | O => [n mod 128]
  | S f => if n <? 128 then [n] else (n mod 128 + 128) :: put_uvarint_f f (n / 128)
  end.
Definition put_uvarint (n : N) : bytes := put_uvarint_f 10 n.

(* binary.ReadUvarint over a bytes.Reader holding exactly bs.
   Result: value, or one of the two end-of-input errors, or overflow. *)
Inductive uvres := UvOk (v : N) | UvEOF | UvUnexpEOF | UvOverflow.

(* i = index of the byte being read, x = accumulator, s = shift *)
Fixpoint read_uvarint_f (fuel : nat) (i : nat) (x : N) (s : N) (bs : bytes) : uvres :=
  match fuel with
  | O => UvOverflow                              (* more than MaxVarintLen64 bytes *)
  | S f =>
    match bs with
    | [] => match i with O => UvEOF | _ => UvUnexpEOF end
    | b :: r =>
        if b <? 128 then
          if (Nat.eqb i 9) && (1 <? b) then UvOverflow
          else UvOk ((x + b * 2 ^ s) mod 2 ^ 64)
        else read_uvarint_f f (S i) (x + (b - 128) * 2 ^ s) (s + 7) r
    end
  end.
Definition read_uvarint (bs : bytes) : uvres := read_uvarint_f 10 0 0 0 bs.

(* binary.Uvarint(buf): only the value is used by CompareBytes (n is dropped);
   0 when the buffer ends early or on overflow *)
Definition uvarint_val (bs : bytes) : N :=
  match read_uvarint bs with UvOk v => v | _ => 0 end.

(* ^b on a byte *)
Definition compl8 (b : N) : N := 255 - b.

Fixpoint bytes_eqb (a b : bytes) : bool :=
  match a, b with
  | [], [] => true
  | x :: a', y :: b' => (x =? y) && bytes_eqb a' b'
  | _, _ => false
  end.

(* bytes.Compare / Go string < : lexicographic, prefix first *)
Fixpoint bytes_cmp (a b : bytes) : comparison :=
  match a, b with
  | [], [] => Eq
  | [], _ => Lt
  | _, [] => Gt
  | x :: a', y :: b' =>
      match x ?= y with Eq => bytes_cmp a' b' | c => c end
  end.

Definition firstn_N (n : N) (l : bytes) : bytes := firstn (N.to_nat n) l.
Definition skipn_N (n : N) (l : bytes) : bytes := skipn (N.to_nat n) l.
Definition lenN (l : bytes) : N := N.of_nat (length l).
