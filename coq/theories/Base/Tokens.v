(* Base/Tokens.v — kinds, token values with their dynamic Go type, well-formedness. *)
From SbModel Require Export Base.Bytes.
Local Open Scope N_scope.

(* ---- the Kind constants of kind.go (re-checked against the built package on
        every run by Gen/ConstsOK.v) ---- *)
Definition KInvalid : N := 0.
Definition KMin : N := 1.
Definition KArrayEnd : N := 10.
Definition KObjectEnd : N := 20.
Definition KMapEnd : N := 25.
Definition KTupleEnd : N := 27.
Definition KNil : N := 30.
Definition KBool : N := 40.
Definition KStringEnd : N := 49.
Definition KString : N := 50.
Definition KStringBegin : N := 51.
Definition KBytesEnd : N := 54.
Definition KBytes : N := 55.
Definition KBytesBegin : N := 56.
Definition KInt : N := 60.
Definition KInt8 : N := 70.
Definition KInt16 : N := 80.
Definition KInt32 : N := 90.
Definition KInt64 : N := 100.
Definition KUint : N := 110.
Definition KUint8 : N := 120.
Definition KUint16 : N := 130.
Definition KUint32 : N := 140.
Definition KUint64 : N := 150.
Definition KFloat32 : N := 160.
Definition KFloat64 : N := 170.
Definition KNaN : N := 175.
Definition KArray : N := 180.
Definition KObject : N := 190.
Definition KMap : N := 200.
Definition KTuple : N := 210.
Definition KTypeName : N := 230.
Definition KLiteral : N := 240.
Definition KPointer : N := 245.
Definition KRef : N := 251.
Definition KMax : N := 255.

Definition model_consts : list N :=
  [KInvalid; KMin; KArrayEnd; KObjectEnd; KMapEnd; KTupleEnd; KNil; KBool;
   KStringEnd; KString; KStringBegin; KBytesEnd; KBytes; KBytesBegin;
   KInt; KInt8; KInt16; KInt32; KInt64; KUint; KUint8; KUint16; KUint32; KUint64;
   KFloat32; KFloat64; KNaN; KArray; KObject; KMap; KTuple; KTypeName; KLiteral;
   KPointer; KRef; KMax].

(* integer widths; WNat is Go's int/uint (8 bytes on the supported platform) *)
Inductive width := WNat | W8 | W16 | W32 | W64.
Definition wbytes (w : width) : nat :=
  match w with WNat => 8 | W8 => 1 | W16 => 2 | W32 => 4 | W64 => 8 end.
Definition width_eqb (a b : width) : bool :=
  match a, b with
  | WNat, WNat | W8, W8 | W16, W16 | W32, W32 | W64, W64 => true
  | _, _ => false
  end.

(* a token's Value together with its dynamic Go type *)
Inductive tval :=
| VNone                           (* nil interface *)
| VBool (b : bool)
| VI (w : width) (z : Z)          (* int, int8 .. int64 *)
| VU (w : width) (n : N)          (* uint, uint8 .. uint64 *)
| VPtr (n : N)                    (* uintptr *)
| VF32 (bits : N)
| VF64 (bits : N)
| VStr (s : bytes)
| VBytes (s : bytes).

Record token := T { kind : N; val : tval }.

Definition in_irange (w : width) (z : Z) : bool :=
  let h := (2 ^ (8 * Z.of_nat (wbytes w) - 1))%Z in
  ((- h <=? z) && (z <? h))%Z.
Definition in_urange (w : width) (n : N) : bool := n <? 2 ^ (8 * N.of_nat (wbytes w)).

(* range side conditions of a value (what the Go type can hold) *)
Definition wf_val (v : tval) : bool :=
  match v with
  | VNone | VBool _ => true
  | VI w z => in_irange w z
  | VU w n => in_urange w n
  | VPtr n => n <? 2 ^ 64
  | VF32 b => b <? 2 ^ 32
  | VF64 b => b <? 2 ^ 64
  | VStr s | VBytes s => wf_bytesb s
  end.

(* the value type each kind prescribes *)
Definition kind_shape (k : N) (v : tval) : bool :=
  match v with
  | VNone => existsb (N.eqb k) [KMin; KArrayEnd; KObjectEnd; KMapEnd; KTupleEnd; KNil; KNaN;
                                KArray; KObject; KMap; KTuple; KMax]
  | VBool _ => k =? KBool
  | VI WNat _ => k =? KInt | VI W8 _ => k =? KInt8 | VI W16 _ => k =? KInt16
  | VI W32 _ => k =? KInt32 | VI W64 _ => k =? KInt64
  | VU WNat _ => k =? KUint | VU W8 _ => k =? KUint8 | VU W16 _ => k =? KUint16
  | VU W32 _ => k =? KUint32 | VU W64 _ => k =? KUint64
  | VPtr _ => k =? KPointer
  | VF32 _ => k =? KFloat32
  | VF64 _ => k =? KFloat64
  | VStr _ => (k =? KString) || (k =? KTypeName) || (k =? KLiteral)
  | VBytes _ => (k =? KBytes) || (k =? KRef)
  end.

(* well-formed token: "each kind carrying the Go value type that kind prescribes" *)
Definition wf_token (t : token) : bool := kind_shape (kind t) (val t) && wf_val (val t).

(* ---- equality ---- *)
Definition tval_eqb (a b : tval) : bool :=
  match a, b with
  | VNone, VNone => true
  | VBool x, VBool y => Bool.eqb x y
  | VI w x, VI w' y => width_eqb w w' && (x =? y)%Z
  | VU w x, VU w' y => width_eqb w w' && (x =? y)
  | VPtr x, VPtr y => x =? y
  | VF32 x, VF32 y => x =? y
  | VF64 x, VF64 y => x =? y
  | VStr x, VStr y => bytes_eqb x y
  | VBytes x, VBytes y => bytes_eqb x y
  | _, _ => false
  end.
Definition token_eqb (a b : token) : bool := (kind a =? kind b) && tval_eqb (val a) (val b).
Fixpoint tokens_eqb (a b : list token) : bool :=
  match a, b with
  | [], [] => true
  | x :: a', y :: b' => token_eqb x y && tokens_eqb a' b'
  | _, _ => false
  end.

(* error classes shared by every correspondence family (projected with errors.Is/As on the Go side) *)
Inductive eclass :=
| ENone            (* success *)
| EEnd             (* io.EOF / io.ErrUnexpectedEOF *)
| EBadKind         (* sb.BadTokenKind *)
| EStrTooLong | EBytesTooLong | EBadStrLen
| EFault           (* the injected reader/writer/source/sink error *)
| EUnexpEndTok     (* sb.UnexpectedEndToken *)
| EMoreThanOne     (* sb.MoreThanOneValue *)
| ENotFound
| EMismatch (k : N) (rk : N)   (* ErrUnmarshalTypeMismatch: token kind, reflect.Kind number *)
| EBadMapKey | EBadField | EDupField | EBadTarget | EBadTuple | ETooMany | ETooFew | EUnknownField
| ECyclic
| EParse           (* a strconv error *)
| EPanic           (* the implementation panicked: never equal to a model output *)
| EDiverge         (* budget exceeded *)
| EOther.

Definition eclass_eqb (a b : eclass) : bool :=
  match a, b with
  | ENone, ENone | EEnd, EEnd | EBadKind, EBadKind | EStrTooLong, EStrTooLong
  | EBytesTooLong, EBytesTooLong | EBadStrLen, EBadStrLen | EFault, EFault
  | EUnexpEndTok, EUnexpEndTok | EMoreThanOne, EMoreThanOne | ENotFound, ENotFound
  | EBadMapKey, EBadMapKey | EBadField, EBadField | EDupField, EDupField
  | EBadTarget, EBadTarget | EBadTuple, EBadTuple | ETooMany, ETooMany | ETooFew, ETooFew
  | EUnknownField, EUnknownField | ECyclic, ECyclic | EParse, EParse | EOther, EOther => true
  | EMismatch k r, EMismatch k' r' => (k =? k') && (r =? r')
  | _, _ => false     (* EPanic and EDiverge equal nothing, not even themselves *)
  end.
