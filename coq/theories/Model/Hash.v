(* Model/Hash.v — operational mirror of hash.go (HashFunc / HashCompound as a
   defunctionalised machine with lazy finalisation), of tree_hash.go (FillHash)
   and the Merkle specification.  For every hash function H. *)
From SbModel Require Export Base.Values Model.Codec.
Local Open Scope N_scope.

(* what a leaf token feeds into its hash state after the kind byte *)
Definition hash_payload (v : tval) : bytes :=
  match v with
  | VNone => []
  | VBool b => [if b then 1 else 0]
  | VI w z => le_bytes (wbytes w) (twos (wbytes w) z)
  | VU w n => le_bytes (wbytes w) n
  | VPtr n => le_bytes 8 n
  | VF32 b => le_bytes 4 b
  | VF64 b => le_bytes 8 b
  | VStr s | VBytes s => s
  end.

(* kinds HashFunc / FillHash treat as leaves *)
Definition is_hash_leaf_kind (k : N) : bool :=
  existsb (N.eqb k) [KMin; KNil; KNaN; KMax; KArrayEnd; KObjectEnd; KMapEnd; KTupleEnd;
                     KBool; KString; KLiteral; KBytes; KInt; KInt8; KInt16; KInt32; KInt64;
                     KUint; KUint8; KUint16; KUint32; KUint64; KPointer; KFloat32; KFloat64].

Section WithH.
Variable H : bytes -> bytes.

(* ---------------- specification: the Merkle function ---------------- *)
Definition leaf_hash (t : token) : bytes :=
  if kind t =? KRef then match val t with VBytes h => h | _ => [] end
  else H (kind t :: hash_payload (val t)).

Fixpoint mhash (v : value) : bytes :=
  match v with
  | Leaf t => leaf_hash t
  | Comp ko kc items => H (ko :: flat_map mhash items ++ H [kc])
  | Named n v => H (KTypeName :: n ++ mhash v)
  end.

(* ---------------- operational mirror of the streaming sink ---------------- *)
(* a callback event of HashFunc's fn: (sum or nil, index of the token it refers to) *)
Definition event := (option bytes * nat)%type.

Inductive frame :=
| FItem (st : bytes) (idx : nat)      (* HashCompound opened by token idx: write the sub-hash into st, go on *)
| FClose (st : bytes) (idx : nat)     (* compound finished: write end-token hash, Sum, report for token idx *)
| FName (st : bytes) (idx : nat).     (* type name: write value hash, Sum, report for token idx *)

Inductive hstate :=
| HAwait (ks : list frame)                        (* HashFunc waiting for a value *)
| HIn (st : bytes) (idx : nat) (ks : list frame)  (* HashCompound with state st, opened by token idx *)
| HPend (sub : bytes) (ks : list frame)           (* a finished sub-hash waiting for the next token *)
| HDone (sum : bytes)                             (* sink returned nil; target holds sum *)
| HErr (e : eclass).

Definition deliver (sub : bytes) (ks : list frame) : hstate :=
  match ks with [] => HDone sub | _ => HPend sub ks end.

(* HashFunc applied to token t (index i) with continuation stack ks *)
Definition hf (ks : list frame) (i : nat) (t : token) : hstate * list event :=
  let k := kind t in
  if k =? KRef then
    match val t with
    | VBytes h => (deliver h ks, [(Some h, i)])
    | _ => (HErr EPanic, [])
    end
  else if is_hash_leaf_kind k then
    let sum := H (k :: hash_payload (val t)) in
    (deliver sum ks, [(None, i); (Some sum, i)])
  else if is_open_kind k then (HIn [k] i ks, [(None, i)])
  else if k =? KTypeName then
    match val t with
    | VStr n => (HAwait (FName (k :: n) i :: ks), [(None, i)])
    | _ => (HErr EPanic, [(None, i)])
    end
  else (HErr EPanic, [(None, i)]).

(* HashCompound(st) applied to token t: an end marker closes, anything else is an item *)
Definition hc (st : bytes) (idx : nat) (ks : list frame) (i : nat) (t : token) : hstate * list event :=
  if is_end_kind (kind t) then hf (FClose st idx :: ks) i t
  else hf (FItem st idx :: ks) i t.

(* run the pending continuations when the next token (Some) or the end-of-stream
   signal (None) arrives *)
Fixpoint unwind (fuel : nat) (sub : bytes) (ks : list frame) (i : nat) (t : option token)
  : hstate * list event :=
  match fuel with
  | O => (HErr EOther, [])
  | S f =>
    match ks with
    | [] => (HDone sub, [])
    | FItem st idx :: ks' =>
        match t with
        | Some t => hc (st ++ sub) idx ks' i t
        | None => (HErr EEnd, [])                   (* io.ErrUnexpectedEOF inside a compound *)
        end
    | FClose st idx :: ks' =>
        let sum := H (st ++ sub) in
        let '(s, ev) := unwind f sum ks' i t in (s, (Some sum, idx) :: ev)
    | FName st idx :: ks' =>
        let sum := H (st ++ sub) in
        let '(s, ev) := unwind f sum ks' i t in (s, (Some sum, idx) :: ev)
    end
  end.

Definition hstep (s : hstate) (i : nat) (t : option token) : hstate * list event :=
  match s with
  | HAwait ks => match t with Some t => hf ks i t | None => (HErr EEnd, []) end
  | HIn st idx ks => match t with Some t => hc st idx ks i t | None => (HErr EEnd, []) end
  | HPend sub ks => unwind (S (length ks)) sub ks i t
  | HDone sum => (HDone sum, [])        (* nil sink: no longer called *)
  | HErr e => (HErr e, [])
  end.

(* feed tokens i, i+1, ... and then (optionally) the end-of-stream signal *)
Fixpoint hrun (s : hstate) (i : nat) (ts : list token) : hstate * list event :=
  match ts with
  | [] => (s, [])
  | t :: r => let '(s1, e1) := hstep s i (Some t) in
              let '(s2, e2) := hrun s1 (S i) r in (s2, e1 ++ e2)
  end.

(* sb.Copy(tokens, sb.Hash(H, &sum, nil)): all tokens, then the end-of-stream signal
   while the sink is still live *)
Definition hash_stream (ts : list token) : hstate * list event :=
  let '(s, ev) := hrun (HAwait []) 0 ts in
  match s with
  | HDone _ | HErr _ => (s, ev)
  | _ => let '(s', ev') := hstep s (length ts) None in (s', ev ++ ev')
  end.

Definition hash_result (ts : list token) : bytes + eclass :=
  match fst (hash_stream ts) with
  | HDone sum => inl sum
  | HErr e => inr e
  | _ => inr EOther
  end.

End WithH.
