(* Model/Marshal.v — big-step semantic model of MarshalValue (marshal.go): the token
   stream of a typed value.  Structural recursion on the value. *)
From SbModel Require Export Model.Types Model.Compare.
Local Open Scope N_scope.

Definition kind_of_int (w : width) : N :=
  match w with WNat => KInt | W8 => KInt8 | W16 => KInt16 | W32 => KInt32 | W64 => KInt64 end.
Definition kind_of_uint (w : width) : N :=
  match w with WNat => KUint | W8 => KUint8 | W16 => KUint16 | W32 => KUint32 | W64 => KUint64 end.

(* the TypeName prefix MarshalValue emits when value.Type() is registered *)
Definition reg_prefix (t : ty) : list token :=
  match t with TNamed n true _ _ => [T KTypeName (VStr n)] | _ => [] end.

(* reflect.Value.IsZero *)
Fixpoint is_zero (t : ty) (v : gval) {struct v} : bool :=
  match v with
  | GBool b => negb b
  | GInt z => (z =? 0)%Z
  | GUint n => n =? 0
  | GF32 b => negb (f32_is_nan b) && (f32_key b =? 0)%Z
  | GF64 b => negb (f64_is_nan b) && (f64_key b =? 0)%Z
  | GStr s => match s with [] => true | _ => false end
  | GBytes isnil s =>
      match underlying t with
      | TByteArray _ => forallb (N.eqb 0) s
      | _ => isnil
      end
  | GList isnil items =>
      match underlying t with
      | TArray _ e => (fix all (l : list gval) : bool := match l with [] => true | x :: r => is_zero e x && all r end) items
      | _ => isnil
      end
  | GMap isnil _ => isnil
  | GStruct vals =>
      match underlying t with
      | TStruct fs =>
          (fix all (l : list gval) (f : list (bytes * bool * ty)) : bool :=
             match l, f with
             | x :: r, fd :: fr => is_zero (snd fd) x && all r fr
             | _, _ => true
             end) vals fs
      | _ => false
      end
  | GPtr p => match p with None => true | Some _ => false end
  | GAny d => match d with None => true | Some _ => false end
  | GFunc r => match r with None => true | Some _ => false end
  | GTime enc => bytes_eqb enc [1; 0; 0; 0; 0; 0; 0; 0; 0; 0; 0; 0; 0; 255; 255]
  end.

Definition is_slice_kind (t : ty) : bool :=
  match underlying t with TSlice _ | TBytes => true | _ => false end.
Definition glen (v : gval) : nat :=
  match v with GList _ l => length l | GBytes _ s => length s | _ => 1%nat end.

(* insertion sort of map entries by Compare on their key token lists (slices.SortFunc with
   MustCompare; stability is irrelevant when key streams are pairwise distinct) *)
Definition entry := (list token * list token * list token)%type.   (* sort key, emitted key, emitted value *)
Definition key_le (a b : entry) : bool :=
  match cmp_tokens (fst (fst a)) (fst (fst b)) with Some Gt => false | _ => true end.
Fixpoint insert_entry (e : entry) (l : list entry) : list entry :=
  match l with
  | [] => [e]
  | x :: r => if key_le e x then e :: l else x :: insert_entry e r
  end.
Definition sort_entries (l : list entry) : list entry := fold_right insert_entry [] l.

Definition bad_map_key (ts : list token) : bool :=
  match ts with
  | [] => true
  | [t] => kind t =? KNaN
  | _ => false
  end.

Fixpoint marshal (o : copts) (t : ty) (v : gval) {struct v} : res (list token) :=
  let body : res (list token) :=
    match v with
    | GBool b => Ok [T KBool (VBool b)]
    | GInt z => match underlying t with
                | TInt w => Ok [T (kind_of_int w) (VI w z)]
                | _ => Err EOther
                end
    | GUint n => match underlying t with
                 | TUint w => Ok [T (kind_of_uint w) (VU w n)]
                 | TUintptr => Ok [T KPointer (VPtr n)]
                 | _ => Err EOther
                 end
    | GF32 b => if f32_is_nan b then Ok [T KNaN VNone] else Ok [T KFloat32 (VF32 b)]
    | GF64 b => if f64_is_nan b then Ok [T KNaN VNone] else Ok [T KFloat64 (VF64 b)]
    | GStr s => Ok [T KString (VStr s)]
    | GBytes _ s => Ok [T KBytes (VBytes s)]
    | GTime enc => Ok [T KString (VStr enc)]
    | GList _ items =>
        let et := match underlying t with TArray _ e | TSlice e => e | _ => TAny end in
        bind ((fix go (l : list gval) : res (list token) :=
                 match l with
                 | [] => Ok []
                 | x :: r => bind (marshal o et x) (fun a => bind (go r) (fun b => Ok (a ++ b)))
                 end) items)
             (fun body => Ok (T KArray VNone :: body ++ [T KArrayEnd VNone]))
    | GMap _ entries =>
        let '(kt, vt) := match underlying t with TMap k v => (k, v) | _ => (TAny, TAny) end in
        bind ((fix go (l : list (gval * gval)) : res (list entry) :=
                 match l with
                 | [] => Ok []
                 | (k, x) :: r =>
                     bind (marshal default_opts kt k) (fun sortkey =>
                     if bad_map_key sortkey then Err EBadMapKey else
                     bind (go r) (fun rest =>
                     bind (marshal o kt k) (fun kts =>
                     bind (marshal o vt x) (fun vts => Ok ((sortkey, kts, vts) :: rest)))))
                 end) entries)
             (fun es => Ok (T KMap VNone :: flat_map (fun e => snd (fst e) ++ snd e) (sort_entries es) ++ [T KMapEnd VNone]))
    | GStruct vals =>
        let fs := match underlying t with TStruct fs => fs | _ => [] end in
        bind ((fix go (l : list gval) (f : list (bytes * bool * ty)) : res (list token) :=
                 match l, f with
                 | x :: r, fd :: fr =>
                     if skip_empty o && (is_zero (snd fd) x || (is_slice_kind (snd fd) && Nat.eqb (glen x) 0)) then go r fr
                     else if negb (fexported fd) then go r fr
                     else bind (marshal o (snd fd) x) (fun a =>
                          bind (go r fr) (fun b => Ok (T KString (VStr (fname fd)) :: a ++ b)))
                 | _, _ => Ok []
                 end) vals fs)
             (fun body => Ok (T KObject VNone :: body ++ [T KObjectEnd VNone]))
    | GPtr p =>
        match p with
        | None => Ok [T KNil VNone]
        | Some x => marshal o (match underlying t with TPtr e => e | _ => TAny end) x
        end
    | GAny d =>
        match d with
        | None => Ok [T KNil VNone]
        | Some (t', x) => marshal o t' x
        end
    | GFunc r =>
        if ignore_funcs o then Ok [T KNil VNone]
        else
          let outs := match underlying t with TFunc outs => outs | _ => [] end in
          match r with
          | None => Ok [T KTuple VNone; T KTupleEnd VNone]
          | Some items =>
              bind ((fix go (l : list gval) (ts : list ty) : res (list token) :=
                       match l, ts with
                       | x :: r', xt :: tr => bind (marshal o xt x) (fun a => bind (go r' tr) (fun b => Ok (a ++ b)))
                       | _, _ => Ok []
                       end) items outs)
                   (fun body => Ok (T KTuple VNone :: body ++ [T KTupleEnd VNone]))
          end
    end in
  bind body (fun ts => Ok (reg_prefix t ++ ts)).
