(* Model/Compare.v — operational mirror of compare.go: Compare on token streams
   and CompareBytes on encodings.  Executable definitions only. *)
From SbModel Require Export Base.Floats Model.Codec.
Local Open Scope N_scope.

(* Go interface equality t1.Value == t2.Value for non-[]byte values *)
Definition iface_eq (a b : tval) : bool :=
  match a, b with
  | VNone, VNone => true
  | VBool x, VBool y => Bool.eqb x y
  | VI w x, VI w' y => width_eqb w w' && (x =? y)%Z
  | VU w x, VU w' y => width_eqb w w' && (x =? y)
  | VPtr x, VPtr y => x =? y
  | VF32 x, VF32 y => f32_eq x y
  | VF64 x, VF64 y => f64_eq x y
  | VStr x, VStr y => bytes_eqb x y
  | _, _ => false
  end.

Definition lt_gt (b : bool) : option comparison := Some (if b then Lt else Gt).

(* the value part of one loop iteration of Compare, kinds already equal.
   None = the implementation panics (type assertion on a mismatched dynamic type) *)
Definition cmp_val (v1 v2 : tval) : option comparison :=
  match v1 with
  | VBytes a => match v2 with VBytes b => Some (bytes_cmp a b) | _ => Some Eq end
  | _ =>
    if iface_eq v1 v2 then Some Eq else
    match v1, v2 with
    | VBool x, VBool y => lt_gt (negb x && y)
    | VI w x, VI w' y => if width_eqb w w' then lt_gt (x <? y)%Z else None
    | VU w x, VU w' y => if width_eqb w w' then lt_gt (x <? y) else None
    | VPtr x, VPtr y => lt_gt (x <? y)
    | VF32 x, VF32 y => lt_gt (f32_lt x y)
    | VF64 x, VF64 y => lt_gt (f64_lt x y)
    | VStr x, VStr y => lt_gt (match bytes_cmp x y with Lt => true | _ => false end)
    | _, _ => None
    end
  end.

Fixpoint cmp_tokens (a b : list token) : option comparison :=
  match a, b with
  | [], [] => Some Eq
  | [], _ :: _ => Some Lt
  | _ :: _, [] => Some Gt
  | x :: a', y :: b' =>
      if kind x <? kind y then Some Lt
      else if kind y <? kind x then Some Gt
      else match cmp_val (val x) (val y) with
           | Some Eq => cmp_tokens a' b'
           | r => r
           end
  end.

(* ---------------- CompareBytes ---------------- *)

Inductive cbres := CB (c : comparison) | CBErr (e : eclass).

(* the length field as CompareBytes reads it (binary.Uvarint, value 0 rejected) *)
Definition cb_len (bs : bytes) : (N * bytes) + eclass :=
  match bs with
  | [] => inr EEnd
  | x :: r =>
      if x <? 128 then inl (x, r)
      else let l := compl8 x in
           if 8 <? l then inr EStrTooLong
           else match takeN l r with
                | None => inr EEnd
                | Some (u, r') =>
                    let n := uvarint_val u in
                    if n =? 0 then inr EBadStrLen else inl (n, r')
                end
  end.

Definition cb_field (bs : bytes) : (bytes * bytes) + eclass :=
  match cb_len bs with
  | inr e => inr e
  | inl (n, r) => match takeN n r with Some (p, r') => inl (p, r') | None => inr EEnd end
  end.

Definition ord_of (lt gt : bool) : comparison := if lt then Lt else if gt then Gt else Eq.

(* fixed-width comparison classes of CompareBytes: width in bytes and how the images are ordered *)
Inductive cbk := CbBool | CbUnsigned | CbSigned | CbF32 | CbF64.
Definition cb_fixed (k : N) : option (N * cbk) :=
  if k =? KBool then Some (1, CbBool)
  else if (k =? KInt) || (k =? KInt64) then Some (8, CbSigned)
  else if (k =? KUint) || (k =? KUint64) || (k =? KPointer) then Some (8, CbUnsigned)
  else if k =? KInt8 then Some (1, CbSigned)
  else if k =? KUint8 then Some (1, CbUnsigned)
  else if k =? KInt16 then Some (2, CbSigned)
  else if k =? KUint16 then Some (2, CbUnsigned)
  else if k =? KInt32 then Some (4, CbSigned)
  else if k =? KUint32 then Some (4, CbUnsigned)
  else if k =? KFloat32 then Some (4, CbF32)
  else if k =? KFloat64 then Some (8, CbF64)
  else None.

Definition cb_cmp_fixed (c : cbk) (w : N) (x y : N) : comparison :=
  match c with
  | CbBool => ord_of (negb (0 <? x) && (0 <? y)) ((0 <? x) && negb (0 <? y))
  | CbUnsigned => ord_of (x <? y) (y <? x)
  | CbSigned => let sx := untwos (N.to_nat w) x in let sy := untwos (N.to_nat w) y in
                ord_of (sx <? sy)%Z (sy <? sx)%Z
  | CbF32 => ord_of (f32_lt x y) (f32_lt y x)
  | CbF64 => ord_of (f64_lt x y) (f64_lt y x)
  end.

Definition cb_is_field_kind (k : N) : bool :=
  (k =? KString) || (k =? KBytes) || (k =? KTypeName) || (k =? KLiteral) || (k =? KRef).

Fixpoint cmp_bytes_f (fuel : nat) (a b : bytes) : cbres :=
  match fuel with
  | O => CBErr EOther
  | S f =>
    match a, b with
    | [], [] => CB Eq
    | [], _ :: _ => CB Lt
    | _ :: _, [] => CB Gt
    | ka :: a1, kb :: b1 =>
        if ka <? kb then CB Lt else if kb <? ka then CB Gt else
        match cb_fixed ka with
        | Some (w, c) =>
            match takeN w a1 with
            | None => CBErr EEnd
            | Some (ia, a2) =>
                match takeN w b1 with
                | None => CBErr EEnd
                | Some (ib, b2) =>
                    match cb_cmp_fixed c w (le_val ia) (le_val ib) with
                    | Eq => cmp_bytes_f f a2 b2
                    | r => CB r
                    end
                end
            end
        | None =>
            if cb_is_field_kind ka then
              match cb_field a1 with
              | inr e => CBErr e
              | inl (pa, a2) =>
                  match cb_field b1 with
                  | inr e => CBErr e
                  | inl (pb, b2) =>
                      match bytes_cmp pa pb with
                      | Eq => cmp_bytes_f f a2 b2
                      | r => CB r
                      end
                  end
              end
            else if is_valueless_kind ka then cmp_bytes_f f a1 b1
            else CBErr EBadKind
        end
    end
  end.

Definition cmp_bytes (a b : bytes) : cbres := cmp_bytes_f (S (length a)) a b.

(* the third route: Compare over the two segmenting decoders *)
Definition cmp_segmented (maxlen : N) (a b : bytes) : option comparison :=
  cmp_tokens (fst (decode_cmp maxlen a)) (fst (decode_cmp maxlen b)).
