(* Model/Types.v — a universe of Go types and values sufficient for the C01 grammar. *)
From SbModel Require Export Base.Floats Base.Values.
Local Open Scope N_scope.

Inductive ty :=
| TBool
| TInt (w : width) | TUint (w : width) | TUintptr
| TF32 | TF64
| TString
| TBytes                                   (* []byte and named byte slices assignable to it *)
| TByteArray (n : nat)                     (* [n]byte *)
| TArray (n : nat) (e : ty)
| TSlice (e : ty)
| TMap (k v : ty)
| TStruct (fs : list (bytes * bool * ty))  (* field name, exported?, type; in declaration order *)
| TPtr (e : ty)
| TAny                                     (* interface{} *)
| TFunc (outs : list ty)                   (* func() (T1, ..., Tn): a tuple *)
| TNamed (name : bytes) (reg : bool) (depr : list bytes) (under : ty)
      (* a defined type: its full name, whether it is registered (sb.Register), the field names
         it declares deprecated (SBDeprecatedFields), its underlying type *)
| TTime.                                   (* time.Time: an opaque value bridged through a string token *)

Inductive gval :=
| GBool (b : bool)
| GInt (z : Z)                             (* any signed width; the width is in the type *)
| GUint (n : N)                            (* any unsigned width and uintptr *)
| GF32 (bits : N) | GF64 (bits : N)
| GStr (s : bytes)
| GBytes (isnil : bool) (s : bytes)        (* []byte (nil or not); [n]byte uses isnil = false *)
| GList (isnil : bool) (items : list gval) (* arrays (isnil = false) and slices *)
| GMap (isnil : bool) (entries : list (gval * gval))   (* in some iteration / insertion order *)
| GStruct (fields : list gval)             (* one value per declared field, unexported ones included *)
| GPtr (p : option gval)
| GAny (d : option (ty * gval))            (* dynamic type and value; None = nil interface *)
| GFunc (r : option (list gval))           (* nil func, or the values the func returns *)
| GTime (enc : bytes).                     (* the MarshalBinary image of a time.Time *)

(* ---- induction principles for the nested inductives ---- *)
Section ty_ind2.
  Variable P : ty -> Prop.
  Hypothesis Hbool : P TBool.
  Hypothesis Hint : forall w, P (TInt w).
  Hypothesis Huint : forall w, P (TUint w).
  Hypothesis Huptr : P TUintptr.
  Hypothesis Hf32 : P TF32.
  Hypothesis Hf64 : P TF64.
  Hypothesis Hstr : P TString.
  Hypothesis Hbytes : P TBytes.
  Hypothesis Hbarr : forall n, P (TByteArray n).
  Hypothesis Harr : forall n e, P e -> P (TArray n e).
  Hypothesis Hslice : forall e, P e -> P (TSlice e).
  Hypothesis Hmap : forall k v, P k -> P v -> P (TMap k v).
  Hypothesis Hstruct : forall fs, Forall (fun f => P (snd f)) fs -> P (TStruct fs).
  Hypothesis Hptr : forall e, P e -> P (TPtr e).
  Hypothesis Hany : P TAny.
  Hypothesis Hfunc : forall outs, Forall P outs -> P (TFunc outs).
  Hypothesis Hnamed : forall n r d u, P u -> P (TNamed n r d u).
  Hypothesis Htime : P TTime.
  Fixpoint ty_ind2 (t : ty) : P t :=
    match t with
    | TBool => Hbool | TInt w => Hint w | TUint w => Huint w | TUintptr => Huptr
    | TF32 => Hf32 | TF64 => Hf64 | TString => Hstr | TBytes => Hbytes
    | TByteArray n => Hbarr n
    | TArray n e => Harr n e (ty_ind2 e)
    | TSlice e => Hslice e (ty_ind2 e)
    | TMap k v => Hmap k v (ty_ind2 k) (ty_ind2 v)
    | TStruct fs =>
        Hstruct fs ((fix go (l : list (bytes * bool * ty)) : Forall (fun f => P (snd f)) l :=
                       match l with [] => Forall_nil _ | f :: r => Forall_cons _ (ty_ind2 (snd f)) (go r) end) fs)
    | TPtr e => Hptr e (ty_ind2 e)
    | TAny => Hany
    | TFunc outs =>
        Hfunc outs ((fix go (l : list ty) : Forall P l :=
                       match l with [] => Forall_nil _ | x :: r => Forall_cons _ (ty_ind2 x) (go r) end) outs)
    | TNamed n r d u => Hnamed n r d u (ty_ind2 u)
    | TTime => Htime
    end.
End ty_ind2.

(* ---- helpers ---- *)
Fixpoint underlying (t : ty) : ty :=
  match t with TNamed _ _ _ u => underlying u | _ => t end.

Definition fname (f : bytes * bool * ty) : bytes := fst (fst f).
Definition fexported (f : bytes * bool * ty) : bool := snd (fst f).
Definition ftype (f : bytes * bool * ty) : ty := snd f.

(* the zero value of a type *)
Fixpoint zero (t : ty) : gval :=
  match t with
  | TBool => GBool false
  | TInt _ => GInt 0
  | TUint _ | TUintptr => GUint 0
  | TF32 => GF32 0 | TF64 => GF64 0
  | TString => GStr []
  | TBytes => GBytes true []
  | TByteArray n => GBytes false (rep n 0)
  | TArray n e => GList false (repeat (zero e) n)
  | TSlice _ => GList true []
  | TMap _ _ => GMap true []
  | TStruct fs => GStruct (map (fun f => zero (snd f)) fs)
  | TPtr _ => GPtr None
  | TAny => GAny None
  | TFunc _ => GFunc None
  | TNamed _ _ _ u => zero u
  | TTime => GTime [1; 0; 0; 0; 0; 0; 0; 0; 0; 0; 0; 0; 0; 255; 255]   (* time.Time{}.MarshalBinary() *)
  end.

(* reflect.Kind numbers (for ErrUnmarshalTypeMismatch.Target) *)
Definition rk_of (t : ty) : N :=
  match underlying t with
  | TBool => 1
  | TInt WNat => 2 | TInt W8 => 3 | TInt W16 => 4 | TInt W32 => 5 | TInt W64 => 6
  | TUint WNat => 7 | TUint W8 => 8 | TUint W16 => 9 | TUint W32 => 10 | TUint W64 => 11
  | TUintptr => 12
  | TF32 => 13 | TF64 => 14
  | TByteArray _ | TArray _ _ => 17
  | TFunc _ => 19
  | TAny => 20
  | TMap _ _ => 21
  | TPtr _ => 22
  | TBytes | TSlice _ => 23
  | TString => 24
  | TStruct _ | TTime => 25
  | TNamed _ _ _ _ => 0
  end.

(* ---- results ---- *)
Inductive res (A : Type) := Ok (a : A) | Err (e : eclass) | OutOfFuel.
Arguments Ok {A} a.
Arguments Err {A} e.
Arguments OutOfFuel {A}.

Definition bind {A B} (r : res A) (k : A -> res B) : res B :=
  match r with Ok a => k a | Err e => Err e | OutOfFuel => OutOfFuel end.

(* context options *)
Record copts := Opts { skip_empty : bool; strict : bool; ignore_funcs : bool }.
Definition default_opts : copts := Opts false false false.

(* the registry: registered type name -> type *)
Definition registry := list (bytes * ty).
Fixpoint reg_lookup (R : registry) (name : bytes) : option ty :=
  match R with
  | [] => None
  | (n, t) :: r => if bytes_eqb n name then Some t else reg_lookup r name
  end.

(* ---- equality on types and values (used by the correspondence and by map-key lookup) ---- *)
Fixpoint ty_eqb (a b : ty) {struct a} : bool :=
  match a, b with
  | TBool, TBool | TUintptr, TUintptr | TF32, TF32 | TF64, TF64 | TString, TString
  | TBytes, TBytes | TAny, TAny | TTime, TTime => true
  | TInt w, TInt w' | TUint w, TUint w' => width_eqb w w'
  | TByteArray n, TByteArray m => Nat.eqb n m
  | TArray n e, TArray m e' => Nat.eqb n m && ty_eqb e e'
  | TSlice e, TSlice e' | TPtr e, TPtr e' => ty_eqb e e'
  | TMap k v, TMap k' v' => ty_eqb k k' && ty_eqb v v'
  | TStruct fs, TStruct gs =>
      (fix go (l : list (bytes * bool * ty)) (m : list (bytes * bool * ty)) : bool :=
         match l, m with
         | [], [] => true
         | f :: l', g :: m' =>
             bytes_eqb (fname f) (fname g) && Bool.eqb (fexported f) (fexported g) && ty_eqb (snd f) (snd g) && go l' m'
         | _, _ => false
         end) fs gs
  | TFunc xs, TFunc ys =>
      (fix go (l : list ty) (m : list ty) : bool :=
         match l, m with
         | [], [] => true
         | x :: l', y :: m' => ty_eqb x y && go l' m'
         | _, _ => false
         end) xs ys
  | TNamed n r _ u, TNamed n' r' _ u' => bytes_eqb n n' && Bool.eqb r r' && ty_eqb u u'
  | _, _ => false
  end.
