(* Model/Codec.v — operational mirror of encode.go, encoded_len.go, decode.go.
   Executable definitions only. *)
From SbModel Require Export Base.Tokens.
Local Open Scope N_scope.

(* ------------------------------------------------------------------ *)
(* Encoder (encode.go)                                                 *)
(* ------------------------------------------------------------------ *)

(* length prefix: l < 128 one byte, else byte(^n) followed by the n uvarint bytes *)
Definition len_prefix (l : N) : bytes :=
  if l <? 128 then [l]
  else let u := put_uvarint l in compl8 (lenN u) :: u.

(* the value switch of EncodeBuffer: what follows the kind byte *)
Definition enc_val (v : tval) : bytes :=
  match v with
  | VNone => []
  | VBool b => [if b then 1 else 0]
  | VI w z => le_bytes (wbytes w) (twos (wbytes w) z)
  | VU w n => le_bytes (wbytes w) n
  | VPtr n => le_bytes 8 n
  | VF32 b => le_bytes 4 b
  | VF64 b => le_bytes 8 b
  | VStr s | VBytes s => len_prefix (lenN s) ++ s
  end.

Definition encode_token (t : token) : bytes := kind t :: enc_val (val t).
Definition encode (ts : list token) : bytes := flat_map encode_token ts.

(* the sequence of Write/WriteByte calls for one token (the same for both writer
   flavours: a ByteWriter only turns some one-byte Write calls into WriteByte) *)
Definition val_writes (v : tval) : list bytes :=
  match v with
  | VNone => []
  | VStr s | VBytes s =>
      let l := lenN s in
      if l <? 128 then [[l]; s]
      else let u := put_uvarint l in [[compl8 (lenN u)]; u; s]
  | v => [enc_val v]
  end.
Definition encode_writes (t : token) : list bytes := [kind t] :: val_writes (val t).
Definition stream_writes (ts : list token) : list bytes := flat_map encode_writes ts.

(* a writer that fails on its k-th call (1-based; 0 = never): bytes accepted, failed? *)
Fixpoint write_until (k : nat) (ws : list bytes) : bytes * bool :=
  match ws with
  | [] => ([], false)
  | w :: r =>
      match k with
      | 1%nat => ([], true)
      | _ => let '(acc, f) := write_until (pred k) r in (w ++ acc, f)
      end
  end.

(* EncodedLen (encoded_len.go): size arithmetic only *)
Definition val_len (v : tval) : N :=
  match v with
  | VNone => 0
  | VBool _ => 1
  | VI w _ | VU w _ => N.of_nat (wbytes w)
  | VPtr _ => 8
  | VF32 _ => 4
  | VF64 _ => 8
  | VStr s | VBytes s =>
      let l := lenN s in
      (if l <? 128 then 1 else 1 + lenN (put_uvarint l)) + l
  end.
Definition encoded_len (ts : list token) : N :=
  fold_left (fun acc t => acc + 1 + val_len (val t)) ts 0.

(* ------------------------------------------------------------------ *)
(* Decoder (decode.go)                                                 *)
(* ------------------------------------------------------------------ *)

(* The reader is a flat byte list plus a flag saying how it ends: [false] = io.EOF,
   [true] = an injected error.  Fragmentation is invisible to the decoder because
   every read goes through io.ReadFull / ReadByte / io.CopyBuffer+LimitReader
   (contracts stated in Proofs/ReaderP.v). *)
Definition end_err (fault : bool) : eclass := if fault then EFault else EEnd.

(* io.ReadFull of n bytes *)
Definition takeN (n : N) (bs : bytes) : option (bytes * bytes) :=
  if n <=? lenN bs then Some (firstn_N n bs, skipn_N n bs) else None.

Inductive dend := Done | Fail (e : eclass) (off : N) | DOutOfFuel.

(* fixed-width kinds: (byte count, constructor) *)
Definition fixed_kind (k : N) : option (N * (N -> tval)) :=
  if k =? KBool then Some (1, fun n => VBool (0 <? n))
  else if k =? KInt then Some (8, fun n => VI WNat (untwos 8 n))
  else if k =? KInt8 then Some (1, fun n => VI W8 (untwos 1 n))
  else if k =? KInt16 then Some (2, fun n => VI W16 (untwos 2 n))
  else if k =? KInt32 then Some (4, fun n => VI W32 (untwos 4 n))
  else if k =? KInt64 then Some (8, fun n => VI W64 (untwos 8 n))
  else if k =? KUint then Some (8, fun n => VU WNat n)
  else if k =? KUint8 then Some (1, fun n => VU W8 n)
  else if k =? KUint16 then Some (2, fun n => VU W16 n)
  else if k =? KUint32 then Some (4, fun n => VU W32 n)
  else if k =? KUint64 then Some (8, fun n => VU W64 n)
  else if k =? KPointer then Some (8, fun n => VPtr n)
  else if k =? KFloat32 then Some (4, fun n => VF32 n)
  else if k =? KFloat64 then Some (8, fun n => VF64 n)
  else None.

Definition is_str_kind (k : N) : bool := (k =? KString) || (k =? KTypeName) || (k =? KLiteral).
Definition is_bytes_kind (k : N) : bool := (k =? KBytes) || (k =? KRef).
Definition is_valueless_kind (k : N) : bool :=
  existsb (N.eqb k) [KMin; KArrayEnd; KObjectEnd; KMapEnd; KTupleEnd; KNil; KNaN;
                     KArray; KObject; KMap; KTuple; KMax].

(* the length field of string-like and bytes-like kinds (decode.go:201-236 / 292-327).
   [off] is the offset after the kind byte.  Result: declared length, remaining
   input, offset of the payload; or the error with its offset. *)
Inductive lenres := LenOk (len : N) (rest : bytes) (off : N) | LenErr (e : eclass) (off : N).

Definition read_len (maxlen : N) (fault strk : bool) (bs : bytes) (off : N) : lenres :=
  let toolong := if strk then EStrTooLong else EBytesTooLong in
  match bs with
  | [] => LenErr (end_err fault) off
  | b :: r =>
      let off1 := off + 1 in
      if b <? 128 then
        (if maxlen <? b then LenErr toolong off1 else LenOk b r off1)
      else
        let l := compl8 b in
        if 8 <? l then LenErr toolong off1
        else match takeN l r with
             | None => LenErr (end_err fault) off1
             | Some (u, r') =>
                 let off2 := off1 + l in
                 match read_uvarint u with
                 | UvOk len => if maxlen <? len then LenErr toolong off2 else LenOk len r' off2
                 | _ => LenErr EEnd off2
                 end
             end
  end.

(* one invocation of the decoding Proc in plain mode *)
Inductive dstep := SEnd | STok (t : token) (rest : bytes) (off : N) | SErr (e : eclass) (off : N).

Definition decode_step (maxlen : N) (fault : bool) (bs : bytes) (off : N) : dstep :=
  match bs with
  | [] => if fault then SErr EFault off else SEnd
  | k :: r =>
      let off1 := off + 1 in
      match fixed_kind k with
      | Some (n, mk) =>
          match takeN n r with
          | Some (img, r') => STok (T k (mk (le_val img))) r' (off1 + n)
          | None => SErr (end_err fault) off1
          end
      | None =>
          if is_str_kind k || is_bytes_kind k then
            match read_len maxlen fault (is_str_kind k) r off1 with
            | LenErr e o => SErr e o
            | LenOk len r' o =>
                match takeN len r' with
                | Some (pl, r'') =>
                    STok (T k (if is_str_kind k then VStr pl else VBytes pl)) r'' (o + len)
                | None => SErr (end_err fault) o
                end
            end
          else if is_valueless_kind k then STok (T k VNone) r off1
          else SErr EBadKind off1
      end
  end.

Fixpoint decode_all (fuel : nat) (maxlen : N) (fault : bool) (bs : bytes) (off : N)
  : list token * dend :=
  match fuel with
  | O => ([], DOutOfFuel)
  | S f =>
      match decode_step maxlen fault bs off with
      | SEnd => ([], Done)
      | SErr e o => ([], Fail e o)
      | STok t r o => let '(ts, e) := decode_all f maxlen fault r o in (t :: ts, e)
      end
  end.

Definition decode (maxlen : N) (bs : bytes) : list token * dend :=
  decode_all (S (length bs)) maxlen false bs 0.

(* ---- the comparison-oriented (segmenting) decoder ---- *)

(* segments of sizes step, 2*step, ... over a payload of declared length [len];
   [avail] is what the reader still holds.  Emits the segment tokens and either
   the remaining input or the error. *)
Fixpoint segments (fuel : nat) (k : N) (strk : bool) (fault : bool) (step len : N)
         (avail : bytes) (off : N) : list token * (bytes * N + eclass * N) :=
  match fuel with
  | O => ([], inr (EOther, off))
  | S f =>
      if len =? 0 then ([], inl (avail, off))
      else
        let l := N.min step len in
        match takeN l avail with
        | None => ([], inr (end_err fault, off))
        | Some (seg, r) =>
            let '(ts, out) := segments f k strk fault (2 * step) (len - l) r (off + l) in
            (T k (if strk then VStr seg else VBytes seg) :: ts, out)
        end
  end.

Definition init_step : N := 8.

(* one value of the compare decoder: a list of tokens (several for segmented kinds) *)
Inductive cstep := CEnd | CToks (ts : list token) (rest : bytes) (off : N)
                 | CErr (ts : list token) (e : eclass) (off : N).

Definition decode_cmp_step (maxlen : N) (fault : bool) (bs : bytes) (off : N) : cstep :=
  match bs with
  | [] => if fault then CErr [] EFault off else CEnd
  | k :: r =>
      if (k =? KString) || (k =? KBytes) then
        let strk := k =? KString in
        match read_len maxlen fault strk r (off + 1) with
        | LenErr e o => CErr [] e o
        | LenOk len r' o =>
            let bk := if strk then KStringBegin else KBytesBegin in
            let ek := if strk then KStringEnd else KBytesEnd in
            match segments (S (length r')) k strk fault init_step len r' o with
            | (ts, inl (r'', o')) => CToks (T bk VNone :: ts ++ [T ek VNone]) r'' o'
            | (ts, inr (e, o')) => CErr (T bk VNone :: ts) e o'
            end
        end
      else
        match decode_step maxlen fault bs off with
        | SEnd => CEnd
        | SErr e o => CErr [] e o
        | STok t r' o => CToks [t] r' o
        end
  end.

Fixpoint decode_cmp_all (fuel : nat) (maxlen : N) (fault : bool) (bs : bytes) (off : N)
  : list token * dend :=
  match fuel with
  | O => ([], DOutOfFuel)
  | S f =>
      match decode_cmp_step maxlen fault bs off with
      | CEnd => ([], Done)
      | CErr ts e o => (ts, Fail e o)
      | CToks ts r o => let '(more, e) := decode_cmp_all f maxlen fault r o in (ts ++ more, e)
      end
  end.

Definition decode_cmp (maxlen : N) (bs : bytes) : list token * dend :=
  decode_cmp_all (S (length bs)) maxlen false bs 0.

Definition default_maxlen : N := 4294967296.  (* MaxDecodeStringLength = 4 GiB *)
