(* Model/Sinks.v — operational mirror of the sink combinators: ConcatSinks, FilterSink,
   AltSink (alt_sink.go), CollectTokens, CollectValueTokens (tokens.go), Discard, and
   recording / failing test sinks.  A Go closure that mutates captured variables
   becomes a term; [feed] mirrors one call of the closure. *)
From SbModel Require Export Base.Values.
Local Open Scope N_scope.

(* decidable token predicates (the functions handed to FilterSink / FilterProc) *)
Inductive pred := PTrue | PFalse | PKindIn (ks : list N) | PNot (p : pred) | PKindLt (k : N).
Fixpoint holds (p : pred) (t : token) : bool :=
  match p with
  | PTrue => true
  | PFalse => false
  | PKindIn ks => existsb (N.eqb (kind t)) ks
  | PNot q => negb (holds q t)
  | PKindLt k => kind t <? k
  end.

(* lifetime of a recording sink: finishes (returns nil) on its k-th token, or runs to the
   end-of-stream signal and then returns nil; both return nil on the EOS signal *)
Inductive life := Fin (k : nat) | ToEnd.

(* frames of CollectValueTokens: the end kind a compound waits for, or a type name *)
Inductive cframe := CFEnd (k : N) | CFName.

Inductive sink :=
| SNil                                         (* the nil Sink *)
| SRec (id : nat) (l : life)                   (* records every call under its id *)
| SFail (id : nat) (k : nat)                   (* records; its k-th call (token or EOS) returns the injected error *)
| SConcat (ss : list sink)                     (* ConcatSinks, after construction (non-empty, head non-nil) *)
| SFilter (s : sink) (p : pred)                (* FilterSink *)
| SAlt (ss : list sink)                        (* AltSink *)
| SCollectValue (id : nat) (stack : list cframe)   (* CollectValueTokens appending to log id *)
| SDiscard.

(* a delivery: which recorder saw which token (None = the end-of-stream signal) *)
Definition delivery := (nat * option token)%type.

Inductive fres :=
| FOk (next : sink) (log : list delivery)      (* next = SNil means the closure returned nil *)
| FErr (e : eclass) (log : list delivery).

Definition is_nil (s : sink) : bool := match s with SNil => true | _ => false end.

Fixpoint drop_nil (ss : list sink) : list sink :=
  match ss with
  | s :: r => if is_nil s then drop_nil r else ss
  | [] => []
  end.

(* ConcatSinks(sinks...) at construction time *)
Definition mk_concat (ss : list sink) : sink :=
  match drop_nil ss with [] => SNil | l => SConcat l end.

(* one token against the CollectValueTokens state machine.
   Some (stack', done?) or the error *)
Definition collect_value_step (stack : list cframe) (t : token) : (list cframe * bool) + eclass :=
  let k := kind t in
  (* a completed value pops the type-name frames that were waiting for it *)
  let fix pop_names (st : list cframe) : list cframe :=
      match st with CFName :: r => pop_names r | _ => st end in
  let finish (st : list cframe) : (list cframe * bool) + eclass :=
      let st' := pop_names st in
      inl (st', match st' with [] => true | _ => false end) in
  if is_end_kind k then
    match stack with
    | CFEnd e :: r => if e =? k then finish r else inr EUnexpEndTok
    | _ => inr EUnexpEndTok
    end
  else if is_open_kind k then inl (CFEnd (end_of k) :: stack, false)
  else if k =? KTypeName then inl (CFName :: stack, false)
  else finish stack.

(* the loop of alt_sink.go over the alternatives' reactions; [done] = sinks[0..i) already
   updated, [todo] = sinks[i..) *)
Fixpoint alt_loop (fuel : nat) (done : list sink) (todo : list (bool * fres)) (lg : list delivery)
         (lasterr : option eclass) : fres :=
  match fuel with
  | O => FErr EOther lg
  | S f =>
    match todo with
    | [] =>
        match done with
        | [] => match lasterr with Some e => FErr e lg | None => FOk SNil lg end
        | [one] => FOk one lg
        | _ => FOk (SAlt done) lg
        end
    | (nil_alt, r) :: rest =>
        if nil_alt then FErr EPanic lg                 (* calling a nil Sink func panics *)
        else
        match r with
        | FErr e lg' =>
            (* sinks[i] = sinks[len-1]; sinks = sinks[:len-1]; continue *)
            let rest' := match rest with
                         | [] => []
                         | _ => last rest (true, FErr EOther []) :: removelast rest
                         end in
            alt_loop f done rest' (lg ++ lg') (Some e)
        | FOk a' lg' =>
            if is_nil a' then FOk SNil (lg ++ lg')     (* an alternative finished: success *)
            else alt_loop f (done ++ [a']) rest (lg ++ lg') lasterr
        end
    end
  end.

(* one call of a sink closure *)
Fixpoint feed (s : sink) (t : option token) {struct s} : fres :=
  match s with
  | SNil => FOk SNil []                              (* Sink.Sink on nil: (nil, nil) *)
  | SDiscard => match t with Some _ => FOk SDiscard [] | None => FOk SNil [] end
  | SRec id l =>
      match t with
      | None => FOk SNil [(id, None)]
      | Some _ =>
          match l with
          | ToEnd => FOk s [(id, t)]
          | Fin k => match k with
                     | O | 1%nat => FOk SNil [(id, t)]
                     | S k' => FOk (SRec id (Fin k')) [(id, t)]
                     end
          end
      end
  | SFail id k =>
      match k with
      | O | 1%nat => FErr EFault [(id, t)]
      | S k' => match t with
                | None => FOk SNil [(id, t)]
                | Some _ => FOk (SFail id k') [(id, t)]
                end
      end
  | SConcat ss =>
      match ss with
      | [] => FOk SNil []
      | h :: r =>
          match feed h t with
          | FErr e lg => FErr e lg
          | FOk h' lg => FOk (mk_concat (h' :: r)) lg
          end
      end
  | SFilter inner p =>
      let pass := match t with None => true | Some tk => holds p tk end in
      if pass then
        if is_nil inner then FOk SNil []
        else match feed inner t with
             | FErr e lg => FErr e lg
             | FOk inner' lg => if is_nil inner' then FOk SNil lg else FOk (SFilter inner' p) lg
             end
      else if is_nil inner then FOk SNil [] else FOk s []
  | SAlt ss =>
      (* every alternative's reaction to t, computed structurally; alt_loop decides which of
         them are actually called and in which order (swap-with-last deletion) *)
      alt_loop (S (length ss)) []
               ((fix reactions (l : list sink) : list (bool * fres) :=
                   match l with [] => [] | a :: r => (is_nil a, feed a t) :: reactions r end) ss)
               [] None
  | SCollectValue id stack =>
      match t with
      | None => match stack with [] => FOk SNil [] | _ => FErr EEnd [] end
      | Some tk =>
          match collect_value_step stack tk with
          | inr e => FErr e [(id, t)]
          | inl (st', done) => if done then FOk SNil [(id, t)] else FOk (SCollectValue id st') [(id, t)]
          end
      end
  end.
