(* Model/Tree.v — operational mirror of tree.go (TreeFromStream with its node
   stack, WithHash via the tee'd HashFunc callbacks), tree_hash.go (FillHash),
   tree_iter.go (Iter, IterFunc), find.go (FindByHash) and deref.go (Deref). *)
From SbModel Require Export Model.Hash.
Local Open Scope N_scope.

(* a tree node: index of its token in the stream, the token, for end markers the
   index of the opening node they are paired with, the attached hash (None = nil) *)
Inductive tree := Node (idx : nat) (tok : token) (paired : option nat) (hash : option bytes) (subs : list tree).

Section tree_ind2.
  Variable P : tree -> Prop.
  Hypothesis HN : forall i t p h subs, Forall P subs -> P (Node i t p h subs).
  Fixpoint tree_ind2 (t : tree) : P t :=
    match t with
    | Node i tk p h subs =>
        HN i tk p h subs
           ((fix go (l : list tree) : Forall P l :=
               match l with [] => Forall_nil _ | x :: r => Forall_cons _ (tree_ind2 x) (go r) end) subs)
    end.
End tree_ind2.

Definition t_idx (t : tree) := match t with Node i _ _ _ _ => i end.
Definition t_tok (t : tree) := match t with Node _ k _ _ _ => k end.
Definition t_hash (t : tree) := match t with Node _ _ _ h _ => h end.
Definition t_subs (t : tree) := match t with Node _ _ _ _ s => s end.

(* ---------------- TreeFromStream ---------------- *)
(* an open frame of the node stack: the node under construction, children in reverse.
   The root frame has no token. *)
Record oframe := OF { of_idx : nat; of_tok : option token; of_hash : option bytes; of_subs : list tree }.

Definition close_frame (f : oframe) : option tree :=
  match of_tok f with
  | Some t => Some (Node (of_idx f) t None (of_hash f) (rev (of_subs f)))
  | None => None
  end.

Definition add_sub (n : tree) (f : oframe) : oframe :=
  OF (of_idx f) (of_tok f) (of_hash f) (n :: of_subs f).

(* pop the top frame into its parent *)
Definition pop (stack : list oframe) : list oframe :=
  match stack with
  | f :: p :: rest => match close_frame f with Some n => add_sub n p :: rest | None => stack end
  | _ => stack
  end.

Definition is_filled_name (f : oframe) : bool :=
  match of_tok f with
  | Some t => (kind t =? KTypeName) && negb (match of_subs f with [] => true | _ => false end)
  | None => false
  end.

(* pop every filled type-name frame on top of the stack (the loop of tree.go:89-95) *)
Fixpoint pop_filled (fuel : nat) (stack : list oframe) : list oframe :=
  match fuel with
  | O => stack
  | S f =>
    match stack with
    | top :: _ :: _ => if is_filled_name top then pop_filled f (pop stack) else stack
    | _ => stack
    end
  end.

(* one loop iteration for token t (index i) created with hash h.
   inr = error *)
Definition tree_step (stack : list oframe) (i : nat) (t : token) (h : option bytes)
  : list oframe + eclass :=
  let stack := pop_filled (length stack) stack in
  let k := kind t in
  if is_open_kind k || (k =? KTypeName) then
    inl (OF i (Some t) h [] :: stack)                 (* node is linked to its parent when popped *)
  else if is_end_kind k then
    match stack with
    | [_] | [] => inr EUnexpEndTok
    | top :: rest =>
        let node := Node i t (Some (of_idx top)) h [] in
        inl (pop (add_sub node top :: rest))
    end
  else
    match stack with
    | top :: rest => inl (add_sub (Node i t None h []) top :: rest)
    | [] => inr EOther
    end.

Fixpoint flush (fuel : nat) (stack : list oframe) : list oframe :=
  match fuel with
  | O => stack
  | S f => match stack with _ :: _ :: _ => flush f (pop stack) | _ => stack end
  end.

Definition set_hash (h : option bytes) (t : tree) : tree :=
  match t with Node i k p _ s => Node i k p h s end.

(* result of TreeFromStream: None = the empty tree (nil Token) *)
Definition tree_finish (stack : list oframe) (h : option bytes) : option tree + eclass :=
  match flush (length stack) stack with
  | [root] =>
      match rev (of_subs root) with
      | [] => inl None
      | [n] => inl (Some (set_hash h n))
      | _ => inr EMoreThanOne
      end
  | _ => inr EOther
  end.

Definition root_frame : oframe := OF 0 None None [].

(* without options *)
Fixpoint build_from (stack : list oframe) (i : nat) (ts : list token) : list oframe + eclass :=
  match ts with
  | [] => inl stack
  | t :: r => match tree_step stack i t None with
              | inl st' => build_from st' (S i) r
              | inr e => inr e
              end
  end.
Definition build (ts : list token) : option tree + eclass :=
  match build_from [root_frame] 0 ts with
  | inl st => tree_finish st None
  | inr e => inr e
  end.

Section WithH.
Variable H : bytes -> bytes.

(* the `hash` variable of TreeFromStream after a batch of callback events *)
Definition last_hash (cur : option bytes) (ev : list event) : option bytes :=
  fold_left (fun _ e => match fst e with Some ((_ :: _) as h) => Some h | _ => None end) ev cur.

(* WithHash: the stream is teed through HashFunc; the callbacks for token i run before
   the node for token i is created *)
Fixpoint build_h_from (stack : list oframe) (hs : hstate) (cur : option bytes) (i : nat) (ts : list token)
  : (list oframe * hstate * option bytes) + eclass :=
  match ts with
  | [] => inl (stack, hs, cur)
  | t :: r =>
      let '(hs', ev) := hstep H hs i (Some t) in
      match hs' with
      | HErr e => inr e
      | _ =>
        let cur' := last_hash cur ev in
        match tree_step stack i t cur' with
        | inl st' => build_h_from st' hs' cur' (S i) r
        | inr e => inr e
        end
      end
  end.

Definition build_with_hash (ts : list token) : option tree + eclass :=
  match build_h_from [root_frame] (HAwait []) None 0 ts with
  | inr e => inr e
  | inl (st, hs, cur) =>
      (* Tee offers the end-of-stream signal to the hash sink while it is live *)
      let '(hs', ev) := match hs with
                        | HDone _ | HErr _ => (hs, [])
                        | _ => hstep H hs (length ts) None
                        end in
      match hs' with
      | HErr e => inr e
      | _ => tree_finish st (last_hash cur ev)
      end
  end.

(* ---------------- FillHash ---------------- *)
Definition has_hash (h : option bytes) : bool := match h with Some (_ :: _) => true | _ => false end.

(* returns the tree with hashes filled in, or an error class (EPanic for unexpected kinds) *)
Fixpoint fill_hash (t : tree) : tree + eclass :=
  match t with
  | Node i tok p h subs =>
    if has_hash h then inl t
    else
      let k := kind tok in
      let fill_subs :=
        (fix go (l : list tree) : (list tree * bytes) + eclass :=
           match l with
           | [] => inl ([], [])
           | s :: r => match fill_hash s with
                       | inr e => inr e
                       | inl s' => match go r with
                                   | inr e => inr e
                                   | inl (r', hs) => inl (s' :: r', match t_hash s' with Some x => x | None => [] end ++ hs)
                                   end
                       end
           end) in
      if k =? KRef then
        match val tok with VBytes x => inl (Node i tok p (Some x) subs) | _ => inr EPanic end
      else if is_hash_leaf_kind k then inl (Node i tok p (Some (H (k :: hash_payload (val tok)))) subs)
      else if is_open_kind k then
        match fill_subs subs with
        | inr e => inr e
        | inl (subs', hs) => inl (Node i tok p (Some (H (k :: hs))) subs')
        end
      else if k =? KTypeName then
        match val tok, fill_subs subs with
        | VStr n, inl (subs', hs) => inl (Node i tok p (Some (H (k :: n ++ hs))) subs')
        | _, inr e => inr e
        | _, _ => inr EPanic
        end
      else inr EPanic
  end.

End WithH.

(* ---------------- Iter / IterFunc ---------------- *)
Fixpoint iter (t : tree) : list token :=
  match t with Node _ tok _ _ subs => tok :: flat_map iter subs end.

(* fn: node -> replacement token (Some) or nil (None) *)
Fixpoint iter_func (fn : tree -> option token) (t : tree) : list token :=
  match fn t with
  | Some r => [r]
  | None => match t with Node _ tok _ _ subs => tok :: flat_map (iter_func fn) subs end
  end.

(* ---------------- FindByHash ---------------- *)
Fixpoint bytes_eq_opt (h : option bytes) (x : bytes) : bool :=
  match h with Some y => bytes_eqb y x | None => false end.

(* first node in pre-order whose hash equals h *)
Fixpoint find_node (h : bytes) (t : tree) : option tree :=
  if bytes_eq_opt (t_hash t) h && has_hash (t_hash t) then Some t
  else match t with
       | Node _ _ _ _ subs =>
           (fix go (l : list tree) : option tree :=
              match l with
              | [] => None
              | s :: r => match find_node h s with Some x => Some x | None => go r end
              end) subs
       end.

Definition find_by_hash (H : bytes -> bytes) (ts : list token) (h : bytes) : list token + eclass :=
  match build ts with
  | inr e => inr e
  | inl None => inr ENotFound
  | inl (Some t) =>
      match fill_hash H t with
      | inr e => inr e
      | inl t' => match find_node h t' with
                  | Some n => inl (iter n)
                  | None => inr ENotFound
                  end
      end
  end.

(* ---------------- Deref ---------------- *)
Inductive resolution := RStream (ts : list token) | RDecline | RFail.

Fixpoint deref (resolve : bytes -> resolution) (ts : list token) : list token * eclass :=
  match ts with
  | [] => ([], ENone)
  | t :: r =>
      if kind t =? KRef then
        match val t with
        | VBytes h =>
            match resolve h with
            | RFail => ([], EFault)
            | RDecline => let '(out, e) := deref resolve r in (t :: out, e)
            | RStream sub => let '(out, e) := deref resolve r in (sub ++ out, e)
            end
        | _ => ([], EPanic)
        end
      else let '(out, e) := deref resolve r in (t :: out, e)
  end.
