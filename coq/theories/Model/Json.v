(* Model/Json.v — the JSON token source (decode_json.go): a JSON document as an AST, and the
   sb token stream that mirrors it.  encoding/json's tokenizer (with UseNumber) is a
   contract: for a well-formed document it yields the delimiters, keys, strings, booleans,
   null and number texts of the AST in document order. *)
From SbModel Require Export Model.Unmarshal.
Local Open Scope N_scope.

Inductive json :=
| JNull
| JBool (b : bool)
| JNum (text : bytes)            (* the number's source text *)
| JStr (s : bytes)               (* the string's decoded text *)
| JArr (items : list json)
| JObj (members : list (bytes * json)).

Section json_ind2.
  Variable P : json -> Prop.
  Hypothesis Hn : P JNull.
  Hypothesis Hb : forall b, P (JBool b).
  Hypothesis Hnum : forall t, P (JNum t).
  Hypothesis Hs : forall s, P (JStr s).
  Hypothesis Ha : forall l, Forall P l -> P (JArr l).
  Hypothesis Ho : forall l, Forall (fun m => P (snd m)) l -> P (JObj l).
  Fixpoint json_ind2 (j : json) : P j :=
    match j with
    | JNull => Hn | JBool b => Hb b | JNum t => Hnum t | JStr s => Hs s
    | JArr l => Ha l ((fix go (l : list json) : Forall P l :=
                         match l with [] => Forall_nil _ | x :: r => Forall_cons _ (json_ind2 x) (go r) end) l)
    | JObj l => Ho l ((fix go (l : list (bytes * json)) : Forall (fun m => P (snd m)) l :=
                         match l with [] => Forall_nil _ | m :: r => Forall_cons _ (json_ind2 (snd m)) (go r) end) l)
    end.
End json_ind2.

(* what encoding/json's Decoder.Token yields *)
Inductive jtok := JDelim (c : N) | JTBool (b : bool) | JTNum (t : bytes) | JTStr (s : bytes) | JTNull.

Fixpoint json_tokens (j : json) : list jtok :=
  match j with
  | JNull => [JTNull]
  | JBool b => [JTBool b]
  | JNum t => [JTNum t]
  | JStr s => [JTStr s]
  | JArr l => JDelim 91 :: flat_map json_tokens l ++ [JDelim 93]
  | JObj l => JDelim 123 :: flat_map (fun m => JTStr (fst m) :: json_tokens (snd m)) l ++ [JDelim 125]
  end.

(* DecodeJson's token map (decode_json.go:22-68) *)
Definition json_map_tok (t : jtok) : token + eclass :=
  match t with
  | JDelim c => if c =? 91 then inl (T KArray VNone)
                else if c =? 93 then inl (T KArrayEnd VNone)
                else if c =? 123 then inl (T KObject VNone)
                else if c =? 125 then inl (T KObjectEnd VNone)
                else inr EOther
  | JTBool b => inl (T KBool (VBool b))
  | JTNum t => inl (T KLiteral (VStr t))
  | JTStr s => inl (T KString (VStr s))
  | JTNull => inl (T KNil VNone)
  end.

Fixpoint json_map (ts : list jtok) : list token * eclass :=
  match ts with
  | [] => ([], ENone)
  | t :: r => match json_map_tok t with
              | inr e => ([], e)
              | inl tk => let '(out, e) := json_map r in (tk :: out, e)
              end
  end.

(* the stream that mirrors a document *)
Fixpoint mirror (j : json) : list token :=
  match j with
  | JNull => [T KNil VNone]
  | JBool b => [T KBool (VBool b)]
  | JNum t => [T KLiteral (VStr t)]
  | JStr s => [T KString (VStr s)]
  | JArr l => T KArray VNone :: flat_map mirror l ++ [T KArrayEnd VNone]
  | JObj l => T KObject VNone :: flat_map (fun m => T KString (VStr (fst m)) :: mirror (snd m)) l ++ [T KObjectEnd VNone]
  end.

(* a truncated token sequence (the document ended inside a container) is an error:
   depth of open containers after the tokens *)
Fixpoint jdepth (d : Z) (ts : list jtok) : Z :=
  match ts with
  | [] => d
  | JDelim c :: r => jdepth (if (c =? 91) || (c =? 123) then (d + 1)%Z else (d - 1)%Z) r
  | _ :: r => jdepth d r
  end.

(* DecodeJson over the tokens the tokenizer yields before the input ends *)
Definition decode_json (ts : list jtok) : list token * eclass :=
  let '(out, e) := json_map ts in
  match e with
  | ENone => if (0 <? jdepth 0 ts)%Z then (out, EEnd) else (out, ENone)
  | _ => (out, e)
  end.
