(* Model/MarshalTaps.v — the (path, element) pairs handed to a TapMarshal callback (C17): the
   semantic statement of which path each element is marshalled under.  (How the path slice
   is physically shared between sibling contexts is the subject of Abstract/PathsAlias.v.) *)
From SbModel Require Export Model.Marshal.
Local Open Scope N_scope.

(* a path element is a Go value: an int index, a string field name, or a map key *)
Inductive pelem := PIdx (i : Z) | PStr (s : bytes) | PKey (t : ty) (v : gval).

(* the path element of a map key: tuple.Key.Interface() *)
Definition key_elem (kt : ty) (k : gval) : pelem :=
  let '(t, v) := match k with GAny (Some (t', x)) => (t', x) | _ => (kt, k) end in
  match t, v with
  | TInt WNat, GInt z => PIdx z
  | TString, GStr s => PStr s
  | _, _ => PKey t v
  end.

(* reflect.Kind of the tapped value *)
Definition tap_kind (t : ty) : N := rk_of t.

Definition tap := (list pelem * N)%type.

Fixpoint mtaps (o : copts) (t : ty) (v : gval) (path : list pelem) {struct v} : list tap :=
  (path, tap_kind t) ::
  match v with
  | GTime _ => [(path, 24)]                               (* bridged through ctx.Marshal(string) *)
  | GList _ items =>
      let et := match underlying t with TArray _ e | TSlice e => e | _ => TAny end in
      (fix go (l : list gval) (i : Z) : list tap :=
         match l with
         | [] => [(path, 22)]                              (* the end token: a *Token *)
         | x :: r => mtaps o et x (path ++ [PIdx i]) ++ go r (i + 1)%Z
         end) items 0%Z
  | GMap _ entries =>
      let '(kt, vt) := match underlying t with TMap k v => (k, v) | _ => (TAny, TAny) end in
      (* taps of each entry, keyed by the sort key; emitted in sorted order *)
      let es := (fix go (l : list (gval * gval)) : list entry * list (list token * list tap) :=
                   match l with
                   | [] => ([], [])
                   | (k, x) :: r =>
                       let sk := match marshal default_opts kt k with Ok ts => ts | _ => [] end in
                       let pe := key_elem kt k in
                       let tp := mtaps o kt k (path ++ [pe]) ++ mtaps o vt x (path ++ [pe]) in
                       let '(a, b) := go r in ((sk, [], []) :: a, (sk, tp) :: b)
                   end) entries in
      let sorted := sort_entries (fst es) in
      (* look the taps up by sort key (key streams are pairwise distinct in the domain) *)
      flat_map (fun e : entry =>
                  match find (fun p => match cmp_tokens (fst p) (fst (fst e)) with Some Eq => true | _ => false end) (snd es) with
                  | Some p => snd p
                  | None => []
                  end) sorted ++ [(path, 22)]
  | GStruct vals =>
      let fs := match underlying t with TStruct fs => fs | _ => [] end in
      (fix go (l : list gval) (f : list (bytes * bool * ty)) : list tap :=
         match l, f with
         | x :: r, fd :: fr =>
             if skip_empty o && (is_zero (snd fd) x || (is_slice_kind (snd fd) && Nat.eqb (glen x) 0)) then go r fr
             else if negb (fexported fd) then go r fr
             else let p := path ++ [PStr (fname fd)] in (p, 24) :: mtaps o (snd fd) x p ++ go r fr
         | _, _ => [(path, 22)]
         end) vals fs
  | GPtr (Some x) => mtaps o (match underlying t with TPtr e => e | _ => TAny end) x path
  | GAny (Some (t', x)) => mtaps o t' x path
  | GFunc r =>
      if ignore_funcs o then []
      else
        let outs := match underlying t with TFunc outs => outs | _ => [] end in
        match r with
        | None => [(path, 22)]
        | Some items =>
            (fix go (l : list gval) (ts : list ty) (i : Z) : list tap :=
               match l, ts with
               | x :: r', xt :: tr => mtaps o xt x (path ++ [PIdx i]) ++ go r' tr (i + 1)%Z
               | _, _ => [(path, 22)]
               end) items outs 0%Z
        end
  | _ => []
  end.
