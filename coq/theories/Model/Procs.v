(* Model/Procs.v — operational mirror of the stream combinators (proc.go, tokens_iter.go,
   stream_iter.go, tee.go, concat.go, filter.go, deref.go, decode.go as a source) and of
   Copy (copy.go).  A Proc closure becomes a term; [pstep] mirrors one call of the
   closure, [next] mirrors Proc.Next. *)
From SbModel Require Export Model.Sinks Model.Tree.
Local Open Scope N_scope.

Inductive proc :=
| PNil                                                  (* nil Proc: the stream has ended *)
| PTokens (ts : list token) (cont : proc)               (* IterTokens(ts, 0, cont) at its current index *)
| PFail (e : eclass)                                    (* a source whose next call returns an error *)
| PIterStream (s : proc) (cont : proc)                  (* IterStream(&s, cont) *)
| PTee (s : proc) (sinks : list sink) (cont : proc)     (* TeeProc(&s, sinks, cont) *)
| PConcat (ss : list proc)                              (* ConcatStreams(&s1, &s2, ...) after construction *)
| PFilter (s : proc) (p : pred) (cont : proc)           (* filterProc(&s, p, cont) *)
| PDeref (s : proc) (res : list (bytes * resolution)) (cont : proc)   (* deref(&s, resolver, cont) *)
| PDecode (maxlen : N) (fault : bool) (bs : bytes) (off : N) (cont : proc).   (* the plain decoder over a reader *)

(* result of one call of a Proc closure: the token it set (None = left invalid), the
   Proc it returned, deliveries to recording sinks made during the call *)
Inductive pres :=
| POk (t : option token) (p : proc) (log : list delivery)
| PErr (e : eclass) (log : list delivery).

Fixpoint lookup_res (res : list (bytes * resolution)) (h : bytes) : resolution :=
  match res with
  | [] => RDecline
  | (k, r) :: rest => if bytes_eqb k h then r else lookup_res rest h
  end.

(* Tee's inner loop: offer the token to every side sink, swap-with-last deletion *)
Fixpoint tee_pass (fuel : nat) (t : option token) (done todo : list sink) (lg : list delivery)
  : (list sink * list delivery) + (eclass * list delivery) :=
  match fuel with
  | O => inr (EOther, lg)
  | S f =>
    match todo with
    | [] => inl (done, lg)
    | s :: rest =>
        if is_nil s then inr (EPanic, lg)               (* Tee calls sinks[i](token) directly *)
        else match feed s t with
             | FErr e lg' => inr (e, lg ++ lg')
             | FOk s' lg' =>
                 if is_nil s' then
                   let rest' := match rest with [] => [] | _ => last rest SNil :: removelast rest end in
                   tee_pass f t done rest' (lg ++ lg')
                 else tee_pass f t (done ++ [s']) rest (lg ++ lg')
             end
    end
  end.

Fixpoint drop_nil_procs (ps : list proc) : list proc :=
  match ps with
  | PNil :: r => drop_nil_procs r
  | _ => ps
  end.

(* [pstep fuel p] one call; [next fuel p] = Proc.Next: call until the token is valid or
   the proc is nil.  Mutually recursive on fuel because combinators call Next on their source. *)
Fixpoint pstep (fuel : nat) (p : proc) {struct fuel} : pres :=
  match fuel with
  | O => PErr EDiverge []
  | S f =>
    let next := (fix next (g : nat) (q : proc) (lg : list delivery) {struct g} : pres :=
                   match g with
                   | O => PErr EDiverge lg
                   | S g' =>
                     match q with
                     | PNil => POk None PNil lg
                     | _ => match pstep f q with
                            | PErr e lg' => PErr e (lg ++ lg')
                            | POk (Some t) q' lg' => POk (Some t) q' (lg ++ lg')
                            | POk None q' lg' => next g' q' (lg ++ lg')
                            end
                     end
                   end) in
    match p with
    | PNil => POk None PNil []
    | PTokens ts cont =>
        match ts with
        | [] => POk None cont []
        | t :: r => POk (Some t) (PTokens r cont) []
        end
    | PFail e => PErr e []
    | PIterStream s cont =>
        match next f s [] with
        | PErr e lg => PErr e lg
        | POk None _ lg => POk None cont lg
        | POk (Some t) s' lg => POk (Some t) (PIterStream s' cont) lg
        end
    | PTee s sinks cont =>
        match next f s [] with
        | PErr e lg => PErr e lg
        | POk t s' lg =>
            match tee_pass (S (length sinks)) t [] sinks lg with
            | inr (e, lg') => PErr e lg'
            | inl (sinks', lg') =>
                match t, sinks' with
                | None, [] => POk None cont lg'
                | _, _ => POk t (PTee s' sinks' cont) lg'
                end
            end
        end
    | PConcat ss =>
        match ss with
        | [] => POk None PNil []
        | s :: rest =>
            match next f s [] with
            | PErr e lg => PErr e lg
            | POk (Some t) s' lg => POk (Some t) (PConcat (s' :: rest)) lg
            | POk None _ lg =>
                match rest with
                | [] => POk None PNil lg
                | _ => POk None (PConcat rest) lg
                end
            end
        end
    | PFilter s pr cont =>
        match next f s [] with
        | PErr e lg => PErr e lg
        | POk None _ lg => POk None cont lg
        | POk (Some t) s' lg =>
            if holds pr t then POk (Some t) (PFilter s' pr cont) lg
            else POk None (PFilter s' pr cont) lg
        end
    | PDeref s res cont =>
        match next f s [] with
        | PErr e lg => PErr e lg
        | POk None _ lg => POk None cont lg
        | POk (Some t) s' lg =>
            if kind t =? KRef then
              match val t with
              | VBytes h =>
                  match lookup_res res h with
                  | RFail => PErr EFault lg
                  | RDecline => POk (Some t) (PDeref s' res cont) lg
                  | RStream sub => POk None (PIterStream (PTokens sub PNil) (PDeref s' res cont)) lg
                  end
              | _ => PErr EPanic lg
              end
            else POk (Some t) (PDeref s' res cont) lg
        end
    | PDecode maxlen fault bs off cont =>
        match decode_step maxlen fault bs off with
        | SEnd => POk None cont []
        | SErr e o => PErr e []
        | STok t r o => POk (Some t) (PDecode maxlen fault r o cont) []
        end
    end
  end.

Fixpoint next (fuel : nat) (q : proc) (lg : list delivery) : pres :=
  match fuel with
  | O => PErr EDiverge lg
  | S g =>
    match q with
    | PNil => POk None PNil lg
    | _ => match pstep fuel q with
           | PErr e lg' => PErr e (lg ++ lg')
           | POk (Some t) q' lg' => POk (Some t) q' (lg ++ lg')
           | POk None q' lg' => next g q' (lg ++ lg')
           end
    end
  end.

(* ConcatStreams(streams...) at construction time: leading nil streams are dropped *)
Definition mk_pconcat (ss : list proc) : proc :=
  match drop_nil_procs ss with [] => PNil | l => PConcat l end.

(* TokensFromStream: pull until the end; tokens, how the stream ended, deliveries *)
Fixpoint run (fuel : nat) (p : proc) : list token * eclass * list delivery :=
  match fuel with
  | O => ([], EDiverge, [])
  | S f =>
    match next fuel p [] with
    | PErr e lg => ([], e, lg)
    | POk None _ lg => ([], ENone, lg)
    | POk (Some t) p' lg => let '(ts, e, lg') := run f p' in (t :: ts, e, lg ++ lg')
    end
  end.

(* ---------------- Copy ---------------- *)
(* one pass of Copy's inner loop over the live sinks (nil sinks are dropped, a sink that
   returns nil is deleted by swap-with-last) *)
Fixpoint copy_pass (fuel : nat) (t : option token) (done todo : list sink) (lg : list delivery)
  : (list sink * list delivery) + (eclass * list delivery) :=
  match fuel with
  | O => inr (EOther, lg)
  | S f =>
    match todo with
    | [] => inl (done, lg)
    | s :: rest =>
        let swap := match rest with [] => [] | _ => last rest SNil :: removelast rest end in
        if is_nil s then copy_pass f t done swap lg
        else match feed s t with
             | FErr e lg' => inr (e, lg ++ lg')
             | FOk s' lg' =>
                 if is_nil s' then copy_pass f t done swap (lg ++ lg')
                 else copy_pass f t (done ++ [s']) rest (lg ++ lg')
             end
    end
  end.

(* cr_pulls = number of valid tokens pulled from the source *)
Record copy_result := CR { cr_err : eclass; cr_log : list delivery; cr_pulls : nat }.

(* src = Some p: the stream is still to be pulled; None: it has reported its end *)
Fixpoint copy (fuel : nat) (src : option proc) (sinks : list sink) (lg : list delivery) (pulls : nat)
  : copy_result :=
  match fuel with
  | O => CR EDiverge lg pulls
  | S f =>
    match sinks with
    | [] => CR ENone lg pulls
    | _ =>
      (* fetch one valid token, or learn that the stream has ended *)
      let fetched :=
        match src with
        | None => inl (None, None, lg, pulls)
        | Some p =>
            match next fuel p [] with
            | PErr e lg' => inr (e, lg ++ lg')
            | POk None _ lg' => inl (None, None, lg ++ lg', pulls)
            | POk (Some t) p' lg' => inl (Some t, Some p', lg ++ lg', S pulls)
            end
        end in
      match fetched with
      | inr (e, lg') => CR e lg' pulls
      | inl (t, src', lg', pulls') =>
          match copy_pass (S (S (length sinks))) t [] sinks lg' with
          | inr (e, lg'') => CR e lg'' pulls'
          | inl (sinks', lg'') =>
              match sinks', src' with
              | [], None => CR ENone lg'' pulls'
              | _, _ => copy f src' sinks' lg'' pulls'
              end
          end
      end
    end
  end.
