(* Model/UnmarshalPaths.v — the unmarshal model with its Ctx.Path made explicit (C17):
   [unmp] is [unm] (Model/Unmarshal.v) threaded with the path of the context each step runs
   under.  Besides the result it yields
     - the tap log: one entry (path, token kind, target kind) for every call made through
       ctx.Unmarshal that is handed a valid token — what a TapUnmarshal callback sees
       (unmarshal.go:29-53);
     - on failure, the path the error carries: the path first attached to it, i.e. the path
       of the function that raised it (the deferred WithPath wrapper of UnmarshalValue /
       ExpectKind, or the explicit WithPath(ctx) of the element loops; ctx.go:41-48).
   Proofs/UnmarshalPathsP.v proves that forgetting paths and log gives [unm] back. *)
From SbModel Require Export Model.Unmarshal Model.MarshalTaps.
Local Open Scope N_scope.

Definition path := list pelem.
Definition utap := (path * N * N)%type.        (* ctx.Path, token.Kind, reflect kind of the target's element *)

Inductive pres (A : Type) := POk (a : A) | PErr (e : eclass) (p : path) | PFuel.
Arguments POk {A} a.
Arguments PErr {A} e p.
Arguments PFuel {A}.

Definition pr (A : Type) := (pres A * list utap)%type.

Definition pok {A} (a : A) : pr A := (POk a, []).
Definition perr {A} (e : eclass) (p : path) : pr A := (PErr e p, []).
Definition pfuel {A} : pr A := (PFuel, []).

Definition pbind {A B} (r : pr A) (k : A -> pr B) : pr B :=
  match r with
  | (POk a, l) => let r' := k a in (fst r', l ++ snd r')
  | (PErr e p, l) => (PErr e p, l)
  | (PFuel, l) => (PFuel, l)
  end.

(* a step of the pure model raised under a given path *)
Definition plift {A} (p : path) (r : res A) : pr A :=
  match r with Ok a => pok a | Err e => perr e p | OutOfFuel => pfuel end.

Definition ptap {A} (t : utap) (r : pr A) : pr A := (fst r, t :: snd r).

(* forgetting paths and log *)
Definition erase {A} (r : pr A) : res A :=
  match fst r with POk a => Ok a | PErr e _ => Err e | PFuel => OutOfFuel end.

Section WithParseFloat.
Variable pf : bytes -> N -> option N.

Fixpoint unmp (fuel : nat) (o : copts) (R : registry) (t : ty) (cur : gval) (ts : list token) (p : path) {struct fuel}
  : pr (gval * list token) :=
  match fuel with
  | O => pfuel
  | S f =>
    let arr_loop :=
      (fix arr_loop (g : nat) (et : ty) (items : list gval) (idx : nat) (ts : list token) : pr (list gval * list token) :=
         match g with
         | O => pfuel
         | S g' =>
           let ep := p ++ [PIdx (Z.of_nat idx)] in
           match ts with
           | tk :: rest =>
               if kind tk =? KArrayEnd then pok (items, rest)
               else if Nat.leb (length items) idx then perr ETooMany p
               else pbind (unmp f o R et (nth idx items (zero et)) ts ep) (fun r =>
                    arr_loop g' et (set_nth idx (fst r) items) (S idx) (snd r))
           | [] =>
               if Nat.leb (length items) idx then perr ETooMany p
               else pbind (unmp f o R et (nth idx items (zero et)) [] ep) (fun _ => perr EEnd ep)
           end
         end) in
    let slice_loop :=
      (fix slice_loop (g : nat) (et : ty) (acc : list gval) (ts : list token) : pr (list gval * list token) :=
         match g with
         | O => pfuel
         | S g' =>
           let ep := p ++ [PIdx (Z.of_nat (length acc))] in
           match ts with
           | [] => pbind (unmp f o R et (zero et) [] ep) (fun _ => perr EEnd ep)
           | tk :: rest =>
               if kind tk =? KArrayEnd then pok (acc, rest)
               else pbind (unmp f o R et (zero et) ts ep) (fun r => slice_loop g' et (acc ++ [fst r]) (snd r))
           end
         end) in
    let struct_loop :=
      (fix struct_loop (g : nat) (fs : list (bytes * bool * ty)) (depr : list bytes) (vals : list gval) (ts : list token)
         : pr (list gval * list token) :=
         match g with
         | O => pfuel
         | S g' =>
           match ts with
           | [] => perr EEnd p
           | tk :: rest =>
               if kind tk =? KObjectEnd then pok (vals, rest)
               else pbind (unmp f o R TString (GStr []) ts p) (fun nr =>
                    let name := match fst nr with GStr s => s | _ => [] end in
                    match find_field name fs 0 with
                    | Some (i, ft) =>
                        pbind (unmp f o R ft (nth i vals (zero ft)) (snd nr) (p ++ [PStr name])) (fun r =>
                        struct_loop g' fs depr (set_nth i (fst r) vals) (snd r))
                    | None =>
                        if strict o && negb (existsb (bytes_eqb name) depr) then perr EUnknownField p
                        else pbind (plift (p ++ [PStr name]) (skip_value 0 (snd nr))) (fun rest' => struct_loop g' fs depr vals rest')
                    end)
           end
         end) in
    let newstruct_loop :=
      (fix newstruct_loop (g : nat) (fs : list (bytes * bool * ty)) (vals : list gval) (ts : list token)
         : pr (gval * list token) :=
         match g with
         | O => pfuel
         | S g' =>
           match ts with
           | [] => perr EEnd p
           | tk :: rest =>
               if kind tk =? KObjectEnd then pok (GAny (Some (TStruct fs, GStruct vals)), rest)
               else pbind (unmp f o R TString (GStr []) ts p) (fun nr =>
                    let name := match fst nr with GStr s => s | _ => [] end in
                    if negb (is_exported_ident name) then perr EBadField p
                    else if existsb (fun fd => bytes_eqb (fname fd) name) fs then perr EDupField p
                    else pbind (unmp f o R TAny (GAny None) (snd nr) (p ++ [PStr name])) (fun r =>
                         match fst r with
                         | GAny (Some (vt, v)) => newstruct_loop g' (fs ++ [(name, true, vt)]) (vals ++ [v]) (snd r)
                         | _ => perr EEnd p
                         end))
           end
         end) in
    let map_loop :=
      (fix map_loop (g : nat) (kt vt : ty) (isnil : bool) (m : list (gval * gval)) (ts : list token)
         : pr (gval * list token) :=
         match g with
         | O => pfuel
         | S g' =>
           match ts with
           | [] => pbind (unmp f o R kt (zero kt) [] p) (fun _ => perr EEnd p)
           | tk :: rest =>
               if kind tk =? KMapEnd then pok (GMap isnil m, rest)
               else pbind (unmp f o R kt (zero kt) ts p) (fun kr =>
                    let key := iface_key kt (fst kr) in
                    if negb (comparable_val key) then perr EBadMapKey p
                    else
                    pbind (unmp f o R vt (zero vt) (snd kr) (p ++ [key_elem kt key])) (fun vr =>
                    map_loop g' kt vt false (map_set key (fst vr) m) (snd vr)))
           end
         end) in
    let genmap_loop :=
      (fix genmap_loop (g : nat) (m : list (gval * gval)) (ts : list token) : pr (gval * list token) :=
         match g with
         | O => pfuel
         | S g' =>
           match ts with
           | [] => perr EEnd p
           | tk :: rest =>
               if kind tk =? KMapEnd then pok (GAny (Some (TMap TAny TAny, GMap false m)), rest)
               else pbind (unmp f o R TAny (GAny None) ts p) (fun kr =>
                    let key := to_comparable (fst kr) in
                    match key with
                    | GAny None => perr EBadMapKey p
                    | GAny (Some (kt, kv)) =>
                        if negb (comparable_ty kt) then perr EBadMapKey p
                        else if match kv with GF64 b => f64_is_nan b | GF32 b => f32_is_nan b | _ => false end then perr EBadMapKey p
                        else pbind (unmp f o R TAny (GAny None) (snd kr) (p ++ [key_elem TAny key])) (fun vr =>
                             genmap_loop g' (map_set key (fst vr) m) (snd vr))
                    | _ => perr EOther p
                    end)
           end
         end) in
    let tuple_loop :=
      (fix tuple_loop (g : nat) (outs : list ty) (tys : list ty) (vals : list gval) (ts : list token)
         : pr (list ty * list gval * list ty * list token) :=
         match g with
         | O => pfuel
         | S g' =>
           let ep := p ++ [PIdx (Z.of_nat (length tys))] in
           match ts with
           | [] => perr EEnd p
           | tk :: rest =>
               if kind tk =? KTupleEnd then pok (outs, vals, tys, rest)
               else match outs with
                    | ot :: outs' =>
                        pbind (unmp f o R ot (zero ot) ts ep) (fun r => tuple_loop g' outs' (tys ++ [ot]) (vals ++ [fst r]) (snd r))
                    | [] =>
                        pbind (unmp f o R TAny (GAny None) ts ep) (fun r =>
                        tuple_loop g' [] (tys ++ [dyn_ty (fst r)]) (vals ++ [dyn_val (fst r)]) (snd r))
                    end
           end
         end) in
    match ts with
    | [] => match underlying t with
            | TTime => perr (EMismatch KInvalid 24) p
            | _ => perr EEnd p
            end
    | tk0 :: rest =>
      ptap (p, kind tk0, rk_of t) (
      let conv := if kind tk0 =? KLiteral
                  then match val tk0 with VStr s => convert_literal pf t s | _ => Err EOther end
                  else Ok tk0 in
      pbind (plift p conv) (fun tk =>
      let k := kind tk in
      if (k =? KTypeName) && negb (match ptr_base t with TAny => true | _ => false end) then unmp f o R t cur rest p
      else
      match underlying t with
      | TTime =>
          if k =? KString then
            match val tk with
            | VStr s => if valid_time_enc s then pok (GTime s, rest) else perr EOther p
            | _ => perr EOther p
            end
          else perr (EMismatch k 24) p
      | ut =>
        if k =? KNil then pok (cur, rest)
        else if is_end_kind k then perr EUnexpEndTok p
        else
        match ut with
        | TPtr e =>
            pbind (unmp f o R e (zero e) (tk :: rest) p) (fun r => pok (GPtr (Some (fst r)), snd r))
        | _ =>
          let mism : pr (gval * list token) := perr (EMismatch k (rk_of t)) p in
          if k =? KNaN then
            match ut with
            | TF32 => pok (GF32 f32_nan_bits, rest)
            | TF64 => pok (GF64 f64_nan_bits, rest)
            | TAny => pok (GAny (Some (TF64, GF64 f64_nan_bits)), rest)
            | _ => mism
            end
          else if k =? KBytes then
            match ut, val tk with
            | TBytes, VBytes s => pok (GBytes false s, rest)
            | TByteArray n, VBytes s =>
                let old := bytes_of_gval cur in
                if Nat.ltb n (length s) then perr ETooMany p
                else pok (GBytes false (firstn n s ++ skipn (length s) old), rest)
            | TAny, VBytes s => pok (GAny (Some (TBytes, GBytes false s)), rest)
            | _, _ => mism
            end
          else if k =? KArray then
            match ut with
            | TArray n e =>
                pbind (arr_loop (S (length rest)) e (items_of_gval cur) 0%nat rest) (fun r => pok (GList false (fst r), snd r))
            | TByteArray n =>
                pbind (arr_loop (S (length rest)) (TUint W8) (items_of_gval cur) 0%nat rest) (fun r => pok (GBytes false (to_bytes (fst r)), snd r))
            | TSlice e =>
                pbind (slice_loop (S (length rest)) e (items_of_gval cur) rest) (fun r =>
                pok (GList (is_nil_container cur && match fst r with [] => true | _ => false end) (fst r), snd r))
            | TBytes =>
                pbind (slice_loop (S (length rest)) (TUint W8) (items_of_gval cur) rest) (fun r =>
                pok (GBytes (is_nil_container cur && match fst r with [] => true | _ => false end) (to_bytes (fst r)), snd r))
            | TAny =>
                pbind (slice_loop (S (length rest)) TAny [] rest) (fun r =>
                pok (GAny (Some (TSlice TAny, GList (match fst r with [] => true | _ => false end) (fst r))), snd r))
            | _ => mism
            end
          else if k =? KObject then
            match ut with
            | TStruct fs =>
                let vals := match cur with GStruct vs => vs | _ => map (fun fd => zero (snd fd)) fs end in
                pbind (struct_loop (S (length rest)) fs (depr_of t) vals rest) (fun r => pok (GStruct (fst r), snd r))
            | TAny => newstruct_loop (S (length rest)) [] [] rest
            | _ => mism
            end
          else if k =? KMap then
            match ut with
            | TMap kt vt =>
                let '(isnil, m) := match cur with GMap n m => (n, m) | _ => (true, []) end in
                map_loop (S (length rest)) kt vt isnil m rest
            | TAny => genmap_loop (S (length rest)) [] rest
            | _ => mism
            end
          else if k =? KTuple then
            match ut with
            | TFunc outs =>
                pbind (tuple_loop (S (length rest)) outs [] [] rest) (fun r =>
                let '(outs', vals, tys, rest') := r in
                match outs' with
                | _ :: _ => perr ETooFew p
                | [] =>
                    if Nat.ltb 50 (length vals) then perr ETooMany p
                    else if Nat.eqb (length vals) (length outs) then pok (GFunc (Some vals), rest')
                    else perr EBadTuple p
                end)
            | TAny =>
                pbind (tuple_loop (S (length rest)) [] [] [] rest) (fun r =>
                let '(_, vals, tys, rest') := r in
                if Nat.ltb 50 (length vals) then perr ETooMany p
                else pok (GAny (Some (TFunc tys, GFunc (Some vals))), rest'))
            | _ => mism
            end
          else if k =? KTypeName then
            match ut, val tk with
            | TAny, VStr name =>
                match reg_lookup R name with
                | Some rt => pbind (unmp f o R rt (zero rt) rest p) (fun r => pok (GAny (Some (rt, fst r)), snd r))
                | None => unmp f o R t cur rest p
                end
            | _, _ => unmp f o R t cur rest p
            end
          else
            match val tk with
            | VNone => perr EBadKind p
            | _ =>
                if (k =? KRef) || (k =? KLiteral) then perr EBadKind p
                else match ut with
                     | TAny => match any_of_token tk with Some d => pok (GAny (Some d), rest) | None => perr EBadKind p end
                     | _ => pbind (plift p (set_scalar t tk)) (fun v => pok (v, rest))
                     end
            end
        end
      end))
    end
  end.

End WithParseFloat.
