(* Model/Unmarshal.v — big-step semantic model of UnmarshalValue (unmarshal.go):
   unmarshalling a token list into a target of static type t whose current content is
   [cur].  One fuel for all the mutually recursive loops; OutOfFuel is distinguished. *)
From SbModel Require Export Model.Marshal Base.Strconv.
Local Open Scope N_scope.

Definition f64_nan_bits : N := 9221120237041090561.   (* math.NaN(): 0x7FF8000000000001 *)
Definition f32_nan_bits : N := 2143289344.            (* float32(math.NaN()): 0x7FC00000 *)

Definition int_bits (w : width) : N := N.of_nat (8 * wbytes w).

(* the dynamic Go type and value an `any` target receives for a scalar token *)
Definition any_of_token (tk : token) : option (ty * gval) :=
  match val tk with
  | VBool b => Some (TBool, GBool b)
  | VI w z => Some (TInt w, GInt z)
  | VU w n => Some (TUint w, GUint n)
  | VPtr n => Some (TUintptr, GUint n)
  | VF32 b => Some (TF32, GF32 b)
  | VF64 b => Some (TF64, GF64 b)
  | VStr s => Some (TString, GStr s)
  | VBytes s => Some (TBytes, GBytes false s)
  | VNone => None
  end.

(* the reflect.Type of a dynamic value, for StructOf / FuncOf *)
Definition dyn_ty (v : gval) : ty := match v with GAny (Some (t, _)) => t | _ => TAny end.
Definition dyn_val (v : gval) : gval := match v with GAny (Some (_, x)) => x | x => x end.

(* reflect.Type.Comparable for dynamic types *)
Fixpoint comparable_ty (t : ty) : bool :=
  match t with
  | TSlice _ | TMap _ _ | TFunc _ | TBytes => false
  | TArray _ e => comparable_ty e
  | TStruct fs => forallb (fun f => comparable_ty (snd f)) fs
  | TNamed _ _ _ u => comparable_ty u
  | _ => true
  end.

(* reflect.Value.Comparable: deep, through interface-typed components *)
(* toComparable (unmarshal.go): a []byte decoded into an interface position that is used as a map key
   becomes a byte array of the same length *)
Definition to_comparable (k : gval) : gval :=
  match k with
  | GAny (Some (TBytes, GBytes _ s)) => GAny (Some (TByteArray (length s), GBytes false s))
  | k => k
  end.
(* the key of a typed map: converted only when the key type is an interface type *)
Definition iface_key (kt : ty) (k : gval) : gval :=
  match underlying kt with TAny => to_comparable k | _ => k end.

Fixpoint comparable_val (v : gval) : bool :=
  match v with
  | GAny (Some (t, x)) => comparable_ty t && comparable_val x
  | GList _ items => forallb comparable_val items
  | GStruct vals => forallb comparable_val vals
  | _ => true
  end.

(* go/token.IsIdentifier && IsExported for ASCII names (keywords are all lower case) *)
Definition is_upper (c : N) : bool := (65 <=? c) && (c <=? 90).
Definition is_ident_char (c : N) : bool :=
  is_upper c || ((97 <=? c) && (c <=? 122)) || ((48 <=? c) && (c <=? 57)) || (c =? 95).
Definition is_exported_ident (s : bytes) : bool :=
  match s with
  | c :: r => is_upper c && forallb is_ident_char r
  | [] => false
  end.

(* Go == on map keys *)
Fixpoint gkey_eqb (a b : gval) {struct a} : bool :=
  match a, b with
  | GBool x, GBool y => Bool.eqb x y
  | GInt x, GInt y => (x =? y)%Z
  | GUint x, GUint y => x =? y
  | GF32 x, GF32 y => f32_eq x y
  | GF64 x, GF64 y => f64_eq x y
  | GStr x, GStr y => bytes_eqb x y
  | GBytes _ x, GBytes _ y => bytes_eqb x y
  | GTime x, GTime y => bytes_eqb x y
  | GPtr None, GPtr None => true
  | GAny None, GAny None => true
  | GAny (Some (t, x)), GAny (Some (t', y)) => ty_eqb t t' && gkey_eqb x y
  | GList _ l, GList _ m =>
      (fix go (p : list gval) (q : list gval) : bool :=
         match p, q with [], [] => true | x :: p', y :: q' => gkey_eqb x y && go p' q' | _, _ => false end) l m
  | GStruct l, GStruct m =>
      (fix go (p : list gval) (q : list gval) : bool :=
         match p, q with [], [] => true | x :: p', y :: q' => gkey_eqb x y && go p' q' | _, _ => false end) l m
  | _, _ => false
  end.

Fixpoint map_set (k v : gval) (m : list (gval * gval)) : list (gval * gval) :=
  match m with
  | [] => [(k, v)]
  | (k', v') :: r => if gkey_eqb k' k then (k', v) :: r else (k', v') :: map_set k v r
  end.

Fixpoint set_nth {A} (n : nat) (x : A) (l : list A) : list A :=
  match l, n with
  | [], _ => []
  | _ :: r, O => x :: r
  | y :: r, S n' => y :: set_nth n' x r
  end.

(* exported field lookup by exact name: index of the field *)
Fixpoint find_field (name : bytes) (fs : list (bytes * bool * ty)) (i : nat) : option (nat * ty) :=
  match fs with
  | [] => None
  | f :: r => if fexported f && bytes_eqb (fname f) name then Some (i, snd f) else find_field name r (S i)
  end.

Definition depr_of (t : ty) : list bytes := match t with TNamed _ _ d _ => d | _ => [] end.

(* time.Time.UnmarshalBinary accepts version-1 (15 bytes) and version-2 (16 bytes) images *)
Definition valid_time_enc (s : bytes) : bool :=
  match s with
  | 1 :: _ => Nat.eqb (length s) 15
  | 2 :: _ => Nat.eqb (length s) 16
  | _ => false
  end.

(* skipValue (unmarshal.go): consume exactly one balanced value without decoding it *)
Fixpoint skip_value (depth : nat) (ts : list token) : res (list token) :=
  match ts with
  | [] => Err EEnd
  | tk :: rest =>
      let k := kind tk in
      if is_open_kind k then skip_value (S depth) rest
      else if k =? KTypeName then skip_value depth rest
      else if is_end_kind k then
        match depth with
        | O => Err EUnexpEndTok
        | S O => Ok rest
        | S d => skip_value d rest
        end
      else match depth with O => Ok rest | _ => skip_value depth rest end
  end.

(* the type reached through every level of pointer (and type definition) *)
Fixpoint ptr_base (t : ty) : ty :=
  match t with
  | TPtr e => ptr_base e
  | TNamed _ _ _ u => ptr_base u
  | _ => t
  end.

Section WithParseFloat.
(* strconv.ParseFloat(text, bits): bit pattern at that width, or failure *)
Variable pf : bytes -> N -> option N.

(* the literal conversion at the head of UnmarshalValue (unmarshal.go:61-159) *)
Definition convert_literal (t : ty) (s : bytes) : res token :=
  match underlying t with
  | TString => Ok (T KString (VStr s))
  | TBool => match parse_bool s with Some b => Ok (T KBool (VBool b)) | None => Err EParse end
  | TInt w => match parse_int (int_bits w) s with
              | Some z => Ok (T (kind_of_int w) (VI w z))
              | None => Err EParse
              end
  | TUint w => match parse_uint (int_bits w) s with
               | Some n => Ok (T (kind_of_uint w) (VU w n))
               | None => Err EParse
               end
  | TUintptr => match parse_uint 64 s with Some n => Ok (T KPointer (VPtr n)) | None => Err EParse end
  | TF32 => match pf s 32 with Some b => Ok (T KFloat32 (VF32 b)) | None => Err EParse end
  | TF64 => match pf s 64 with Some b => Ok (T KFloat64 (VF64 b)) | None => Err EParse end
  | TPtr _ => Ok (T KLiteral (VStr s))      (* converted once the pointer has been dereferenced *)
  | _ => Err EBadTarget
  end.

(* a scalar token against a concrete scalar target: exact kind or TypeMismatch *)
Definition set_scalar (t : ty) (tk : token) : res gval :=
  let mism := Err (EMismatch (kind tk) (rk_of t)) in
  match val tk, underlying t with
  | VBool b, TBool => Ok (GBool b)
  | VI w z, TInt w' => if width_eqb w w' then Ok (GInt z) else mism
  | VU w n, TUint w' => if width_eqb w w' then Ok (GUint n) else mism
  | VPtr n, TUintptr => Ok (GUint n)
  | VF32 b, TF32 => Ok (GF32 b)
  | VF64 b, TF64 => Ok (GF64 b)
  | VStr s, TString => if kind tk =? KString then Ok (GStr s) else mism
  | _, _ => mism
  end.

Definition bytes_of_gval (v : gval) : bytes := match v with GBytes _ s => s | _ => [] end.
Definition items_of_gval (v : gval) : list gval :=
  match v with
  | GList _ l => l
  | GBytes _ s => map GUint s
  | _ => []
  end.
Definition is_nil_container (v : gval) : bool :=
  match v with GList n _ | GBytes n _ | GMap n _ => n | _ => false end.
Definition to_bytes (l : list gval) : bytes := map (fun x => match x with GUint n => n | _ => 0 end) l.

Fixpoint unm (fuel : nat) (o : copts) (R : registry) (t : ty) (cur : gval) (ts : list token) {struct fuel}
  : res (gval * list token) :=
  match fuel with
  | O => OutOfFuel
  | S f =>
    (* ---- element loops; each iteration calls unm f ---- *)
    let arr_loop :=
      (fix arr_loop (g : nat) (et : ty) (items : list gval) (idx : nat) (ts : list token) : res (list gval * list token) :=
         match g with
         | O => OutOfFuel
         | S g' =>
           (* the end marker is looked for first, then the bound, then the element is unmarshalled
              (also on the end-of-stream signal, which the element's unmarshaller reports) *)
           match ts with
           | tk :: rest =>
               if kind tk =? KArrayEnd then Ok (items, rest)
               else if Nat.leb (length items) idx then Err ETooMany
               else bind (unm f o R et (nth idx items (zero et)) ts) (fun r =>
                    arr_loop g' et (set_nth idx (fst r) items) (S idx) (snd r))
           | [] =>
               if Nat.leb (length items) idx then Err ETooMany
               else bind (unm f o R et (nth idx items (zero et)) []) (fun _ => Err EEnd)
           end
         end) in
    let slice_loop :=
      (fix slice_loop (g : nat) (et : ty) (acc : list gval) (ts : list token) : res (list gval * list token) :=
         match g with
         | O => OutOfFuel
         | S g' =>
           match ts with
           | [] => bind (unm f o R et (zero et) []) (fun _ => Err EEnd)
           | tk :: rest =>
               if kind tk =? KArrayEnd then Ok (acc, rest)
               else bind (unm f o R et (zero et) ts) (fun r => slice_loop g' et (acc ++ [fst r]) (snd r))
           end
         end) in
    let struct_loop :=
      (fix struct_loop (g : nat) (fs : list (bytes * bool * ty)) (depr : list bytes) (vals : list gval) (ts : list token)
         : res (list gval * list token) :=
         match g with
         | O => OutOfFuel
         | S g' =>
           match ts with
           | [] => Err EEnd
           | tk :: rest =>
               if kind tk =? KObjectEnd then Ok (vals, rest)
               else bind (unm f o R TString (GStr []) ts) (fun nr =>
                    let name := match fst nr with GStr s => s | _ => [] end in
                    match find_field name fs 0 with
                    | Some (i, ft) =>
                        bind (unm f o R ft (nth i vals (zero ft)) (snd nr)) (fun r =>
                        struct_loop g' fs depr (set_nth i (fst r) vals) (snd r))
                    | None =>
                        if strict o && negb (existsb (bytes_eqb name) depr) then Err EUnknownField
                        else bind (skip_value 0 (snd nr)) (fun rest' => struct_loop g' fs depr vals rest')
                    end)
           end
         end) in
    let newstruct_loop :=
      (fix newstruct_loop (g : nat) (fs : list (bytes * bool * ty)) (vals : list gval) (ts : list token)
         : res (gval * list token) :=
         match g with
         | O => OutOfFuel
         | S g' =>
           match ts with
           | [] => Err EEnd
           | tk :: rest =>
               if kind tk =? KObjectEnd then Ok (GAny (Some (TStruct fs, GStruct vals)), rest)
               else bind (unm f o R TString (GStr []) ts) (fun nr =>
                    let name := match fst nr with GStr s => s | _ => [] end in
                    if negb (is_exported_ident name) then Err EBadField
                    else if existsb (fun fd => bytes_eqb (fname fd) name) fs then Err EDupField
                    else bind (unm f o R TAny (GAny None) (snd nr)) (fun r =>
                         match fst r with
                         | GAny (Some (vt, v)) => newstruct_loop g' (fs ++ [(name, true, vt)]) (vals ++ [v]) (snd r)
                         | _ => Err EEnd            (* a nil field value *)
                         end))
           end
         end) in
    let map_loop :=
      (fix map_loop (g : nat) (kt vt : ty) (isnil : bool) (m : list (gval * gval)) (ts : list token)
         : res (gval * list token) :=
         match g with
         | O => OutOfFuel
         | S g' =>
           match ts with
           | [] => bind (unm f o R kt (zero kt) []) (fun _ => Err EEnd)
           | tk :: rest =>
               if kind tk =? KMapEnd then Ok (GMap isnil m, rest)
               else bind (unm f o R kt (zero kt) ts) (fun kr =>
                    let key := iface_key kt (fst kr) in
                    if negb (comparable_val key) then Err EBadMapKey    (* an unhashable value in an interface-typed key *)
                    else
                    bind (unm f o R vt (zero vt) (snd kr)) (fun vr =>
                    map_loop g' kt vt false (map_set key (fst vr) m) (snd vr)))
           end
         end) in
    let genmap_loop :=
      (fix genmap_loop (g : nat) (m : list (gval * gval)) (ts : list token) : res (gval * list token) :=
         match g with
         | O => OutOfFuel
         | S g' =>
           match ts with
           | [] => Err EEnd
           | tk :: rest =>
               if kind tk =? KMapEnd then Ok (GAny (Some (TMap TAny TAny, GMap false m)), rest)
               else bind (unm f o R TAny (GAny None) ts) (fun kr =>
                    (* toComparable: a []byte key becomes a byte array *)
                    let key := to_comparable (fst kr) in
                    match key with
                    | GAny None => Err EBadMapKey
                    | GAny (Some (kt, kv)) =>
                        if negb (comparable_ty kt) then Err EBadMapKey
                        else if match kv with GF64 b => f64_is_nan b | GF32 b => f32_is_nan b | _ => false end then Err EBadMapKey
                        else bind (unm f o R TAny (GAny None) (snd kr)) (fun vr =>
                             genmap_loop g' (map_set key (fst vr) m) (snd vr))
                    | _ => Err EOther
                    end)
           end
         end) in
    let tuple_loop :=
      (fix tuple_loop (g : nat) (outs : list ty) (tys : list ty) (vals : list gval) (ts : list token)
         : res (list ty * list gval * list ty * list token) :=    (* remaining outs, values, value types, rest *)
         match g with
         | O => OutOfFuel
         | S g' =>
           match ts with
           | [] => Err EEnd
           | tk :: rest =>
               if kind tk =? KTupleEnd then Ok (outs, vals, tys, rest)
               else match outs with
                    | ot :: outs' =>
                        bind (unm f o R ot (zero ot) ts) (fun r => tuple_loop g' outs' (tys ++ [ot]) (vals ++ [fst r]) (snd r))
                    | [] =>
                        bind (unm f o R TAny (GAny None) ts) (fun r =>
                        tuple_loop g' [] (tys ++ [dyn_ty (fst r)]) (vals ++ [dyn_val (fst r)]) (snd r))
                    end
           end
         end) in
    (* ---- UnmarshalValue ---- *)
    match ts with
    | [] => match underlying t with
            | TTime => Err (EMismatch KInvalid 24)
            | _ => Err EEnd
            end
    | tk0 :: rest =>
      (* convert literal token *)
      let conv := if kind tk0 =? KLiteral
                  then match val tk0 with VStr s => convert_literal t s | _ => Err EOther end
                  else Ok tk0 in
      bind conv (fun tk =>
      let k := kind tk in
      (* a concrete target needs no type name: skipped before the marshaler bridge and before
         any pointer is allocated *)
      if (k =? KTypeName) && negb (match ptr_base t with TAny => true | _ => false end) then unm f o R t cur rest
      else
      match underlying t with
      | TTime =>
          (* encoding.BinaryUnmarshaler bridged through a string token; checked before Nil *)
          if k =? KString then
            match val tk with
            | VStr s => if valid_time_enc s then Ok (GTime s, rest) else Err EOther
            | _ => Err EOther
            end
          else Err (EMismatch k 24)
      | ut =>
        if k =? KNil then Ok (cur, rest)
        else if is_end_kind k then Err EUnexpEndTok
        else
        match ut with
        | TPtr e =>
            (* a fresh pointee is unmarshalled from the same token, then assigned *)
            bind (unm f o R e (zero e) (tk :: rest)) (fun r => Ok (GPtr (Some (fst r)), snd r))
        | _ =>
          let concrete := match ut with TAny => false | _ => true end in
          let mism := Err (EMismatch k (rk_of t)) in
          if k =? KNaN then
            match ut with
            | TF32 => Ok (GF32 f32_nan_bits, rest)
            | TF64 => Ok (GF64 f64_nan_bits, rest)
            | TAny => Ok (GAny (Some (TF64, GF64 f64_nan_bits)), rest)
            | _ => mism
            end
          else if k =? KBytes then
            match ut, val tk with
            | TBytes, VBytes s => Ok (GBytes false s, rest)
            | TByteArray n, VBytes s =>
                let old := bytes_of_gval cur in
                if Nat.ltb n (length s) then Err ETooMany      (* more bytes than the array holds: as for an Array token *)
                else Ok (GBytes false (firstn n s ++ skipn (length s) old), rest)
            | TAny, VBytes s => Ok (GAny (Some (TBytes, GBytes false s)), rest)
            | _, _ => mism
            end
          else if k =? KArray then
            match ut with
            | TArray n e =>
                bind (arr_loop (S (length rest)) e (items_of_gval cur) 0%nat rest) (fun r => Ok (GList false (fst r), snd r))
            | TByteArray n =>
                bind (arr_loop (S (length rest)) (TUint W8) (items_of_gval cur) 0%nat rest) (fun r => Ok (GBytes false (to_bytes (fst r)), snd r))
            | TSlice e =>
                bind (slice_loop (S (length rest)) e (items_of_gval cur) rest) (fun r =>
                Ok (GList (is_nil_container cur && match fst r with [] => true | _ => false end) (fst r), snd r))
            | TBytes =>
                bind (slice_loop (S (length rest)) (TUint W8) (items_of_gval cur) rest) (fun r =>
                Ok (GBytes (is_nil_container cur && match fst r with [] => true | _ => false end) (to_bytes (fst r)), snd r))
            | TAny =>
                bind (slice_loop (S (length rest)) TAny [] rest) (fun r =>
                Ok (GAny (Some (TSlice TAny, GList (match fst r with [] => true | _ => false end) (fst r))), snd r))
            | _ => mism
            end
          else if k =? KObject then
            match ut with
            | TStruct fs =>
                let vals := match cur with GStruct vs => vs | _ => map (fun fd => zero (snd fd)) fs end in
                bind (struct_loop (S (length rest)) fs (depr_of t) vals rest) (fun r => Ok (GStruct (fst r), snd r))
            | TAny => newstruct_loop (S (length rest)) [] [] rest
            | _ => mism
            end
          else if k =? KMap then
            match ut with
            | TMap kt vt =>
                let '(isnil, m) := match cur with GMap n m => (n, m) | _ => (true, []) end in
                map_loop (S (length rest)) kt vt isnil m rest
            | TAny => genmap_loop (S (length rest)) [] rest
            | _ => mism
            end
          else if k =? KTuple then
            match ut with
            | TFunc outs =>
                bind (tuple_loop (S (length rest)) outs [] [] rest) (fun r =>
                let '(outs', vals, tys, rest') := r in
                match outs' with
                | _ :: _ => Err ETooFew
                | [] =>
                    if Nat.ltb 50 (length vals) then Err ETooMany
                    else if Nat.eqb (length vals) (length outs) then Ok (GFunc (Some vals), rest')
                    else Err EBadTuple
                end)
            | TAny =>
                bind (tuple_loop (S (length rest)) [] [] [] rest) (fun r =>
                let '(_, vals, tys, rest') := r in
                if Nat.ltb 50 (length vals) then Err ETooMany
                else Ok (GAny (Some (TFunc tys, GFunc (Some vals))), rest'))
            | _ => mism
            end
          else if k =? KTypeName then
            match ut, val tk with
            | TAny, VStr name =>
                match reg_lookup R name with
                | Some rt => bind (unm f o R rt (zero rt) rest) (fun r => Ok (GAny (Some (rt, fst r)), snd r))
                | None => unm f o R t cur rest
                end
            | _, _ => unm f o R t cur rest
            end
          else
            match val tk with
            | VNone => Err EBadKind          (* Min, Max and the other valueless kinds no target accepts *)
            | _ =>
                if (k =? KRef) || (k =? KLiteral) then Err EBadKind
                else match ut with
                     | TAny => match any_of_token tk with Some d => Ok (GAny (Some d), rest) | None => Err EBadKind end
                     | _ => bind (set_scalar t tk) (fun v => Ok (v, rest))
                     end
            end
        end
      end)
    end
  end.

End WithParseFloat.
