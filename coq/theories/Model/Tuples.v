(* Model/Tuples.v — sb.Tuple and sb.TypedTuple as unmarshal targets (tuple.go): a tuple stream read
   into a list of dynamically typed items.  Built on the unmarshal model: every item is one call of
   [unm] into the type its position prescribes. *)
From SbModel Require Export Model.Unmarshal.
Local Open Scope N_scope.

(* an item of a Tuple: a Go `any` *)
Definition dyn := option (ty * gval).
Definition dyn_of (v : gval) : dyn := match v with GAny d => d | _ => None end.

Section WithParseFloat.
Variable pf : bytes -> N -> option N.

(* Tuple.unmarshal (tuple.go:54-90): position i of a pre-filled target keeps the TYPE of the item it holds
   (a nil item is read schema-less); positions behind the target's length are appended schema-less *)
Fixpoint tuple_items (g : nat) (fuel : nat) (o : copts) (R : registry) (items : list dyn) (i : nat) (ts : list token)
  : res (list dyn * list token) :=
  match g with
  | O => OutOfFuel
  | S g' =>
    match ts with
    | [] => Err EEnd
    | tk :: rest =>
        if kind tk =? KTupleEnd then Ok (items, rest)
        else match nth_error items i with
             | Some (Some (t, v)) =>
                 bind (unm pf fuel o R t v ts) (fun r =>
                 tuple_items g' fuel o R (set_nth i (Some (t, fst r)) items) (S i) (snd r))
             | Some None =>
                 bind (unm pf fuel o R TAny (GAny None) ts) (fun r =>
                 tuple_items g' fuel o R (set_nth i (dyn_of (fst r)) items) (S i) (snd r))
             | None =>
                 bind (unm pf fuel o R TAny (GAny None) ts) (fun r =>
                 tuple_items g' fuel o R (items ++ [dyn_of (fst r)]) (S i) (snd r))
             end
    end
  end.

(* the head shared by both hooks: reached through UnmarshalValue, whose literal conversion runs first and has
   no rule for a tuple target; then the opening token must be Tuple *)
Definition tuple_head {A} (ts : list token) (k : list token -> res A) : res A :=
  match ts with
  | [] => Err EEnd
  | tk :: rest =>
      if kind tk =? KLiteral then Err EBadTarget
      else if kind tk =? KTuple then k rest
      else Err (EMismatch (kind tk) 19)
  end.

Definition tuple_unm (fuel : nat) (o : copts) (R : registry) (items : list dyn) (ts : list token)
  : res (list dyn * list token) :=
  tuple_head ts (fun rest => tuple_items (S (length rest)) fuel o R items 0 rest).

(* unmarshalTupleTyped (tuple.go:135-184): position i is read into types[i]; exactly len(types) items *)
Fixpoint typed_items (g : nat) (fuel : nat) (o : copts) (R : registry) (types : list ty) (items : list dyn) (i : nat) (ts : list token)
  : res (list dyn * list token) :=
  match g with
  | O => OutOfFuel
  | S g' =>
    match ts with
    | [] => Err EEnd
    | tk :: rest =>
        if kind tk =? KTupleEnd then
          if Nat.eqb i (length types) then Ok (items, rest) else Err ETooFew
        else match nth_error types i with
             | None => Err ETooMany
             | Some t =>
                 let cur := match nth_error items i with Some (Some (_, v)) => v | _ => zero t end in
                 bind (unm pf fuel o R t cur ts) (fun r =>
                 (* the item is stored as a Go `any`: a position of interface type keeps only the dynamic value *)
                 let it := match t with TAny => dyn_of (fst r) | _ => Some (t, fst r) end in
                 typed_items g' fuel o R types
                   (if Nat.ltb i (length items) then set_nth i it items else items ++ [it]) (S i) (snd r))
             end
    end
  end.

Definition typed_tuple_unm (fuel : nat) (o : copts) (R : registry) (types : list ty) (items : list dyn) (ts : list token)
  : res (list dyn * list token) :=
  tuple_head ts (fun rest => typed_items (S (length rest)) fuel o R types items 0 rest).

End WithParseFloat.
