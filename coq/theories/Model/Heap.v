(* Model/Heap.v — marshalling over pointer / interface / slice / map graphs (C18):
   mirror of the indirection bookkeeping of MarshalValue (marshal.go: pointerDepth,
   detectCycleEnabled at depth 1000, visitedPointers carried BY VALUE in the context, so
   the visited list is per path).  Addresses and depths are N (binary) so that chains of
   several thousand links evaluate quickly. *)
From SbModel Require Export Base.Tokens.
Local Open Scope N_scope.

Definition addr := N.

(* a value position *)
Inductive hval :=
| VInt                                  (* a scalar leaf *)
| VPtr (a : option addr)                (* *Node; None = nil pointer *)
| VSlice (a : option addr)              (* a slice header; None = nil slice *)
| VMap (a : option addr)                (* a map; None = nil map *)
| VIface (v : option hval)              (* an interface value holding v; None = nil interface *)
| VStruct (fs : list hval).             (* a struct by value (fields in order) *)

Section hval_ind2.
  Variable P : hval -> Prop.
  Hypothesis HI : P VInt.
  Hypothesis HP : forall a, P (VPtr a).
  Hypothesis HS : forall a, P (VSlice a).
  Hypothesis HM : forall a, P (VMap a).
  Hypothesis HF0 : P (VIface None).
  Hypothesis HF : forall v, P v -> P (VIface (Some v)).
  Hypothesis HT : forall fs, Forall P fs -> P (VStruct fs).
  Fixpoint hval_ind2 (v : hval) : P v :=
    match v with
    | VInt => HI | VPtr a => HP a | VSlice a => HS a | VMap a => HM a
    | VIface None => HF0
    | VIface (Some x) => HF x (hval_ind2 x)
    | VStruct fs => HT fs ((fix go (l : list hval) : Forall P l :=
                              match l with [] => Forall_nil _ | x :: r => Forall_cons _ (hval_ind2 x) (go r) end) fs)
    end.
End hval_ind2.

(* heap cells: what a pointer points to / what a slice or map holds *)
Inductive hcell :=
| CVal (v : hval)                       (* pointee of a pointer *)
| CItems (items : list hval).           (* elements of a slice, or values of a map (keys are scalar leaves) *)

Definition heap := list (addr * hcell).
Fixpoint hlookup (h : heap) (a : addr) : option hcell :=
  match h with [] => None | (b, c) :: r => if a =? b then Some c else hlookup r a end.

(* the by-value context *)
Record hctx := HC { depth : N; detect : bool; visited : list addr }.
Definition hctx0 : hctx := HC 0 false [].

Inductive hres := HOk (ks : list N) | HCyclic | HDangling | HOutOfFuel.
Definition hbind (r : hres) (k : list N -> hres) : hres := match r with HOk x => k x | e => e end.

Section WithThreshold.
Variable THRESH : N.      (* 1000 in marshal.go *)

(* ctx.pointerDepth++ ; enable detection at the threshold *)
Definition deeper (c : hctx) : hctx :=
  let d := depth c + 1 in HC d (detect c || (d =? THRESH)) (visited c).

(* entering a reference (pointer, slice or map) at address a: None = CyclicPointer *)
Definition enter (c : hctx) (a : addr) : option hctx :=
  let c' := deeper c in
  if detect c' then
    if existsb (N.eqb a) (visited c') then None
    else Some (HC (depth c') true (visited c' ++ [a]))
  else Some c'.

(* the structural part of the traversal; [deref k a c] marshals what reference a (of kind k:
   0 pointer, 1 slice, 2 map) leads to, in context c *)
Fixpoint walk (deref : N -> addr -> hctx -> hres) (c : hctx) (v : hval) {struct v} : hres :=
  match v with
  | VInt => HOk [KInt]
  | VPtr None => HOk [KNil]
  | VPtr (Some a) => match enter c a with None => HCyclic | Some c' => deref 0 a c' end
  | VSlice None => HOk [KArray; KArrayEnd]
  | VSlice (Some a) => match enter c a with None => HCyclic | Some c' => deref 1 a c' end
  | VMap None => HOk [KMap; KMapEnd]
  | VMap (Some a) => match enter c a with None => HCyclic | Some c' => deref 2 a c' end
  | VIface None => HOk [KNil]
  | VIface (Some x) => walk deref (deeper c) x          (* an interface only counts as a level of indirection *)
  | VStruct fs =>
      hbind ((fix fields (l : list hval) : hres :=
                match l with
                | [] => HOk []
                | x :: r => hbind (walk deref c x) (fun a => hbind (fields r) (fun b => HOk (KString :: a ++ b)))
                end) fs)
            (fun body => HOk (KObject :: body ++ [KObjectEnd]))
  end.

Fixpoint mar (fuel : nat) (h : heap) (c : hctx) (v : hval) {struct fuel} : hres :=
  match fuel with
  | O => HOutOfFuel
  | S f =>
      walk (fun k a c' =>
              match hlookup h a with
              | None => HDangling
              | Some (CVal v') => mar f h c' v'
              | Some (CItems items) =>
                  let body :=
                    (fix go (l : list hval) : hres :=
                       match l with
                       | [] => HOk []
                       | x :: r => hbind (mar f h c' x) (fun a => hbind (go r) (fun b =>
                                     HOk ((if k =? 2 then KString :: a else a) ++ b)))
                       end) items in
                  hbind body (fun b => HOk (if k =? 2 then KMap :: b ++ [KMapEnd] else KArray :: b ++ [KArrayEnd]))
              end) c v
  end.

End WithThreshold.

Definition go_threshold : N := 1000.

(* fuel that always suffices (Proofs/HeapP.v): threshold + number of cells + 2 *)
Definition heap_fuel (h : heap) : nat := N.to_nat go_threshold + length h + 2.
Definition marshal_heap (h : heap) (root : hval) : hres := mar go_threshold (heap_fuel h) h hctx0 root.
