(* Gen/ConstsOK.v — static tie for the ordering- and layout-significant constants.
   Consts.v is regenerated from the built package on every run; this file is
   re-checked on every run.  If a Kind is renumbered (even symmetrically in the
   encoder and the decoder) or a limit changes, these stop checking. *)
From SbModel Require Import Base.Tokens Model.Codec Spec.WireGrammar Gen.Consts.

Theorem consts_match : generated_consts = model_consts.
Proof. reflexivity. Qed.

Theorem consts_frozen : generated_consts = frozen_kinds.
Proof. reflexivity. Qed.

Theorem maxlen_match : generated_maxlen = default_maxlen.
Proof. reflexivity. Qed.

Theorem init_step_match : generated_init_step = init_step.
Proof. reflexivity. Qed.

Theorem sentinels_match : generated_min_max = [KMin; KMax; KNaN; KNil].
Proof. reflexivity. Qed.
