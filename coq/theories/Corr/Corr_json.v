(* Corr/Corr_json.v — correspondence cases for the JSON token source. *)
From SbModel Require Export Corr.Corr_marshal Model.Json.
Local Open Scope N_scope.

Record json_case := JsonCase {
  jc_doc : json;
  jc_keep : option nat;                 (* Some k: the document text ends after its first k tokens *)
  jc_tokens : list token;               (* what sb.DecodeJson delivered *)
  jc_end : eclass;                      (* how the stream ended *)
  jc_ty : ty;                           (* target type *)
  jc_floats : list (list (N * N) * N * option N);
  jc_obs : uobs                         (* sb.Unmarshal of the stream into a zero target *)
}.

Definition check_json (c : json_case) : bool :=
  let jts := match jc_keep c with Some k => firstn k (json_tokens (jc_doc c)) | None => json_tokens (jc_doc c) end in
  let '(ts, e) := decode_json jts in
  tokens_eqb ts (jc_tokens c) && eclass_eqb e (jc_end c) &&
  match e with
  | ENone =>
      match unm (pf_lookup (jc_floats c)) (2000 + 4 * length ts) default_opts [] (jc_ty c) (zero (jc_ty c)) ts, jc_obs c with
      | Ok (v, _), UOk v' => gval_eqb v v'
      | Err e1, UErr e2 => eclass_eqb e1 e2
      | _, _ => false
      end
  | _ => true
  end.

(* ---- the reference decoding semantics (Spec/JsonDecode.v) against the real encoding/json ---- *)
From SbModel Require Export Spec.JsonDecode.

Inductive sobs := SOk (v : gval) | SErr.
Record jdec_case := JdecCase {
  jd_doc : json;
  jd_ty : ty;
  jd_floats : list (list (N * N) * N * option N);
  jd_std : sobs                          (* encoding/json.Unmarshal of the document text into a zero target *)
}.
Definition check_jdec (c : jdec_case) : bool :=
  negb (jtarget (jd_ty c)) ||     (* outside the targets the reference semantics speaks about (byte slices, ...) *)
  match jdec (pf_lookup (jd_floats c)) default_opts (jd_ty c) (zero (jd_ty c)) (jd_doc c), jd_std c with
  | Ok v, SOk v' => gval_eqb v v'
  | Err _, SErr => true
  | _, _ => false
  end.
