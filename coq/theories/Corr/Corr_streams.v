(* Corr/Corr_streams.v — correspondence cases for Copy / sink combinators and for stream combinators. *)
From SbModel Require Export Corr.Corr_codec Model.Procs.
Local Open Scope N_scope.

Definition log_of (id : nat) (lg : list delivery) : list (option token) :=
  map snd (filter (fun d => Nat.eqb (fst d) id) lg).

Definition otok_eqb (a b : option token) : bool :=
  match a, b with
  | None, None => true
  | Some x, Some y => token_eqb x y
  | _, _ => false
  end.
Fixpoint otoks_eqb (a b : list (option token)) : bool :=
  match a, b with
  | [], [] => true
  | x :: a', y :: b' => otok_eqb x y && otoks_eqb a' b'
  | _, _ => false
  end.

(* per-sink logs only: the order in which different sinks are served within one pass is not
   an observable of the property *)
Definition logs_match (lg : list delivery) (obs : list (nat * list (option token))) : bool :=
  forallb (fun o => otoks_eqb (log_of (fst o) lg) (snd o)) obs &&
  forallb (fun d => existsb (fun o => Nat.eqb (fst o) (fst d)) obs) lg.

(* --- copy: Copy(source, sinks...) --- *)
Record copy_case := CopyCase {
  cp_src : proc;
  cp_sinks : list sink;
  cp_err : eclass;
  cp_logs : list (nat * list (option token));
  cp_pulls : nat
}.
Definition check_copy (c : copy_case) : bool :=
  let r := copy 2000 (Some (cp_src c)) (cp_sinks c) [] 0 in
  eclass_eqb (cr_err r) (cp_err c) && logs_match (cr_log r) (cp_logs c) && Nat.eqb (cr_pulls r) (cp_pulls c).

(* --- proc: TokensFromStream over a combinator term --- *)
Record proc_case := ProcCase {
  pc_proc : proc;
  pc_tokens : list token;                       (* tokens delivered before the end / the error *)
  pc_err : eclass;
  pc_logs : list (nat * list (option token))    (* what Tee side sinks recorded *)
}.
Definition check_proc (c : proc_case) : bool :=
  let '(ts, e, lg) := run 2000 (pc_proc c) in
  tokens_eqb ts (pc_tokens c) && eclass_eqb e (pc_err c) && logs_match lg (pc_logs c).
