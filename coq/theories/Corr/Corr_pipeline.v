(* Corr/Corr_pipeline.v — correspondence cases for pipelines of identity-preserving stages (C13). *)
From SbModel Require Export Corr.Corr_hash Corr.Corr_marshal Spec.Pipeline.
Local Open Scope N_scope.

Record pipe_case := PipeCase {
  pp_stages : list stage;
  pp_tokens : list token;
  pp_hid : N;
  pp_reg : registry;
  pp_floats : list (list (N * N) * N * option N);
  pp_obs : sobs                      (* output tokens, or the error class *)
}.
Definition check_pipe (c : pipe_case) : bool :=
  match run_pipeline (hfun (pp_hid c)) (pp_reg c) (pf_lookup (pp_floats c)) (pp_stages c) (pp_tokens c), pp_obs c with
  | Ok out, SOk o => tokens_eqb out o
  | Err e, SErrC e' => eclass_eqb e e'
  | _, _ => false
  end.
