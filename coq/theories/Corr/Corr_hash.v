(* Corr/Corr_hash.v — correspondence cases for the hash, tree and reference families. *)
From SbModel Require Export Corr.Corr_codec Base.Fnv Model.Tree.
Local Open Scope N_scope.

Definition hfun (id : N) : bytes -> bytes := if id =? 0 then fnv128 else fnv128a.

(* digest or error class *)
Inductive dobs := DSum (h : list (N * N)) | DErrC (e : eclass) | DNone.
Definition dobs_match (m : bytes + eclass) (o : dobs) : bool :=
  match m, o with
  | inl h, DSum x => bytes_eqb h (X x)
  | inr e, DErrC e' => eclass_eqb e e'
  | inr ENotFound, DNone => true     (* empty tree: FillHash is not applicable (it panics by contract) *)
  | _, _ => false
  end.

Definition ev_eqb (a : event) (b : option (list (N * N)) * nat) : bool :=
  Nat.eqb (snd a) (snd b) &&
  match fst a, fst b with
  | None, None => true
  | Some x, Some y => bytes_eqb x (X y)
  | _, _ => false
  end.
Fixpoint evs_eqb (a : list event) (b : list (option (list (N * N)) * nat)) : bool :=
  match a, b with
  | [], [] => true
  | x :: a', y :: b' => ev_eqb x y && evs_eqb a' b'
  | _, _ => false
  end.

(* --- hash: tokens, hash id -> sink digest, callback events, FillHash digest, WithHash root digest --- *)
Record hash_case := HashCase {
  hc_tokens : list token;
  hc_hid : N;
  hc_sink : dobs;                                       (* sb.Hash through sb.Copy *)
  hc_events : list (option (list (N * N)) * nat);       (* HashFunc callback sequence (sum-or-nil, token index) *)
  hc_fill : dobs;                                       (* TreeFromStream then FillHash: root hash *)
  hc_with : dobs                                        (* TreeFromStream WithHash: root hash *)
}.

Definition root_hash_of (r : option tree + eclass) : bytes + eclass :=
  match r with
  | inr e => inr e
  | inl None => inr ENotFound     (* no root: observed as DNone *)
  | inl (Some t) => match t_hash t with Some h => inl h | None => inl [] end
  end.

Definition check_hash (c : hash_case) : bool :=
  let H := hfun (hc_hid c) in
  let ts := hc_tokens c in
  dobs_match (hash_result H ts) (hc_sink c) &&
  evs_eqb (snd (hash_stream H ts)) (hc_events c) &&
  dobs_match (match build ts with
              | inr e => inr e
              | inl None => inr ENotFound
              | inl (Some t) => match fill_hash H t with inr e => inr e | inl t' => root_hash_of (inl (Some t')) end
              end) (hc_fill c) &&
  dobs_match (root_hash_of (build_with_hash H ts)) (hc_with c).

(* --- tree: tokens -> rendered trees, iteration, lookups --- *)
Inductive rtree := RN (idx : nat) (paired : option nat) (hash : option (list (N * N))) (subs : list rtree).

Fixpoint rtree_match (t : tree) (r : rtree) : bool :=
  match t, r with
  | Node i _ p h subs, RN i' p' h' subs' =>
      Nat.eqb i i' &&
      match p, p' with None, None => true | Some a, Some b => Nat.eqb a b | _, _ => false end &&
      match h, h' with
      | None, None => true
      | Some x, Some y => bytes_eqb x (X y)
      | Some [], None => true
      | _, _ => false
      end &&
      (fix go (a : list tree) (b : list rtree) : bool :=
         match a, b with
         | [], [] => true
         | x :: a', y :: b' => rtree_match x y && go a' b'
         | _, _ => false
         end) subs subs'
  end.

Inductive tobs := TOk (r : option rtree) | TErr (e : eclass).
Definition tobs_match (m : option tree + eclass) (o : tobs) : bool :=
  match m, o with
  | inl None, TOk None => true
  | inl (Some t), TOk (Some r) => rtree_match t r
  | inr e, TErr e' => eclass_eqb e e'
  | _, _ => false
  end.

Inductive sobs := SOk (ts : list token) | SErrC (e : eclass) | SNone.
Definition sobs_match (m : list token + eclass) (o : sobs) : bool :=
  match m, o with
  | inl a, SOk b => tokens_eqb a b
  | inr e, SErrC e' => eclass_eqb e e'
  | inr ENotFound, SNone => true     (* empty tree: Iter is not applicable *)
  | _, _ => false
  end.

Record tree_case := TreeCase {
  tc_tokens : list token;
  tc_hid : N;
  tc_plain : tobs;                               (* TreeFromStream(tokens) *)
  tc_with : tobs;                                (* TreeFromStream(tokens, WithHash) *)
  tc_iter : sobs;                                (* tree.Iter() *)
  tc_iterf : sobs;                               (* tree.IterFunc(never replaces) *)
  tc_finds : list (list (N * N) * sobs)          (* FindByHash(tokens, key) *)
}.

Definition check_tree (c : tree_case) : bool :=
  let H := hfun (tc_hid c) in
  let ts := tc_tokens c in
  tobs_match (build ts) (tc_plain c) &&
  tobs_match (build_with_hash H ts) (tc_with c) &&
  sobs_match (match build ts with inr e => inr e | inl None => inr ENotFound | inl (Some t) => inl (iter t) end) (tc_iter c) &&
  sobs_match (match build ts with inr e => inr e | inl None => inr ENotFound
                                | inl (Some t) => inl (iter_func (fun _ => None) t) end) (tc_iterf c) &&
  forallb (fun kv => sobs_match (find_by_hash H ts (X (fst kv))) (snd kv)) (tc_finds c).

(* --- refs: value stream, selected node indices -> substituted stream, its hash, dereferenced stream --- *)
Record ref_case := RefCase {
  rc_tokens : list token;
  rc_hid : N;
  rc_sel : list nat;                  (* token indices of the nodes replaced by references *)
  rc_decline : list nat;              (* of those, the ones the resolver declines *)
  rc_fail : list nat;                 (* of those, the ones the resolver fails on *)
  rc_subst : sobs;                    (* IterFunc with the reference function *)
  rc_subst_hash : dobs;               (* Hash of the substituted stream *)
  rc_deref : sobs;                    (* Deref of the substituted stream; error class in SErrC *)
  rc_deref_prefix : list token        (* tokens delivered before a resolver error *)
}.

Definition in_nat (i : nat) (l : list nat) : bool := existsb (Nat.eqb i) l.

Definition ref_fn (sel : list nat) (t : tree) : option token :=
  if in_nat (t_idx t) sel then
    match t_hash t with Some h => Some (T KRef (VBytes h)) | None => None end
  else None.

(* the resolver table: hash of a selected node -> what the resolver does *)
Fixpoint collect_nodes (t : tree) : list tree :=
  match t with Node _ _ _ _ subs => t :: flat_map collect_nodes subs end.

Definition resolver (nodes : list tree) (sel decl fail : list nat) (h : bytes) : resolution :=
  match find (fun n => in_nat (t_idx n) sel && bytes_eq_opt (t_hash n) h) nodes with
  | Some n => if in_nat (t_idx n) fail then RFail
              else if in_nat (t_idx n) decl then RDecline
              else RStream (iter n)
  | None => RDecline
  end.

Definition check_ref (c : ref_case) : bool :=
  let H := hfun (rc_hid c) in
  match build (rc_tokens c) with
  | inl (Some t) =>
      match fill_hash H t with
      | inl t' =>
          let sub := iter_func (ref_fn (rc_sel c)) t' in
          let '(out, e) := deref (resolver (collect_nodes t') (rc_sel c) (rc_decline c) (rc_fail c)) sub in
          sobs_match (inl sub) (rc_subst c) &&
          dobs_match (hash_result H sub) (rc_subst_hash c) &&
          match e with
          | ENone => sobs_match (inl out) (rc_deref c)
          | _ => sobs_match (inr e) (rc_deref c) && tokens_eqb out (rc_deref_prefix c)
          end
      | inr _ => false
      end
  | _ => false
  end.
