(* Corr/Corr_tuples.v — correspondence cases for sb.Tuple / sb.TypedTuple targets. *)
From SbModel Require Export Corr.Corr_marshal Model.Tuples.
Local Open Scope N_scope.

Definition dyn_eqb (a b : dyn) : bool :=
  match a, b with
  | None, None => true
  | Some (t, x), Some (t', y) => ty_eqb t t' && gval_eqb x y
  | _, _ => false
  end.
Fixpoint dyns_eqb (a b : list dyn) : bool :=
  match a, b with
  | [], [] => true
  | x :: a', y :: b' => dyn_eqb x y && dyns_eqb a' b'
  | _, _ => false
  end.

Inductive tobs := TOk (items : list dyn) | TErr (e : eclass).

Record tuple_case := TupleCase {
  tc_reg : registry;
  tc_types : option (list ty);             (* Some: a TypedTuple with these types; None: a plain Tuple *)
  tc_items : list dyn;                     (* the target's items before the call *)
  tc_tokens : list token;
  tc_floats : list (list (N * N) * N * option N);
  tc_obs : tobs
}.
Definition check_tuple (c : tuple_case) : bool :=
  let ts := tc_tokens c in
  let fuel := (2000 + 4 * length ts)%nat in
  let r := match tc_types c with
           | Some tys => typed_tuple_unm (pf_lookup (tc_floats c)) fuel default_opts (tc_reg c) tys (tc_items c) ts
           | None => tuple_unm (pf_lookup (tc_floats c)) fuel default_opts (tc_reg c) (tc_items c) ts
           end in
  match r, tc_obs c with
  | Ok (items, _), TOk items' => dyns_eqb items items'
  | Err e, TErr e' => eclass_eqb e e'
  | _, _ => false
  end.
