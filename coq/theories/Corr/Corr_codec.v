(* Corr/Corr_codec.v — correspondence cases for the codec families.
   The harness prints terms of these record types; check_* evaluates the model on
   the same input and compares with what the implementation was observed to do. *)
From SbModel Require Export Model.Codec.
Local Open Scope N_scope.

Definition X := expand.

Fixpoint mismatches_from {A} (chk : A -> bool) (i : nat) (l : list A) : list nat :=
  match l with
  | [] => []
  | c :: r => if chk c then mismatches_from chk (S i) r else i :: mismatches_from chk (S i) r
  end.
Definition mismatches {A} (chk : A -> bool) (l : list A) : list nat := mismatches_from chk 0 l.

(* --- codec_enc: tokens -> bytes written, EncodedLen --- *)
Record enc_case := EncCase {
  ec_tokens : list token;
  ec_bytes : list (N * N);     (* RLE of the bytes the writer received (same for both flavours) *)
  ec_len : N                   (* what EncodedLen reported *)
}.
Definition check_enc (c : enc_case) : bool :=
  bytes_eqb (encode (ec_tokens c)) (X (ec_bytes c)) && (encoded_len (ec_tokens c) =? ec_len c).

(* --- codec_wfault: tokens, failing write-call index -> bytes accepted, error class --- *)
Record wf_case := WfCase {
  wc_tokens : list token;
  wc_k : nat;
  wc_bytes : list (N * N);
  wc_err : eclass
}.
Definition check_wf (c : wf_case) : bool :=
  let '(acc, failed) := write_until (wc_k c) (stream_writes (wc_tokens c)) in
  bytes_eqb acc (X (wc_bytes c)) &&
  eclass_eqb (if failed then EFault else ENone) (wc_err c).

(* --- codec_dec: bytes, limit, decoder, reader ending -> tokens, ending --- *)
Record dec_case := DecCase {
  dc_cmp : bool;               (* true = DecodeForCompare *)
  dc_maxlen : N;
  dc_fault : bool;             (* the reader ends with an injected error instead of EOF *)
  dc_input : list (N * N);
  dc_toks : list token;
  dc_end : eclass;             (* ENone = clean end *)
  dc_off : N                   (* Offset carried by the error (0 when none) *)
}.
Definition check_dec (c : dec_case) : bool :=
  let bs := X (dc_input c) in
  let '(ts, e) := (if dc_cmp c then decode_cmp_all else decode_all)
                    (S (length bs)) (dc_maxlen c) (dc_fault c) bs 0 in
  tokens_eqb ts (dc_toks c) &&
  match e with
  | Done => eclass_eqb ENone (dc_end c)
  | Fail ec off => eclass_eqb ec (dc_end c) && (off =? dc_off c)
  | DOutOfFuel => false
  end.
