(* Corr/Corr_compare.v — correspondence cases for the three comparison routes. *)
From SbModel Require Export Corr.Corr_codec Model.Compare.
Local Open Scope N_scope.

(* observed outcome of one route *)
Inductive cobs := CO (c : comparison) | CE (e : eclass).

Definition cobs_eqb (a b : cobs) : bool :=
  match a, b with
  | CO Lt, CO Lt | CO Eq, CO Eq | CO Gt, CO Gt => true
  | CE x, CE y => eclass_eqb x y
  | _, _ => false
  end.

Record cmp_case := CmpCase {
  cc_a : list token;
  cc_b : list token;
  cc_tokens : cobs;      (* Compare(a, b) *)
  cc_bytes : cobs;       (* CompareBytes(enc a, enc b) *)
  cc_seg : cobs          (* Compare(DecodeForCompare(enc a), DecodeForCompare(enc b)) *)
}.

Definition of_opt (o : option comparison) : cobs := match o with Some c => CO c | None => CE EPanic end.
Definition of_cb (r : cbres) : cobs := match r with CB c => CO c | CBErr e => CE e end.

Definition check_cmp (c : cmp_case) : bool :=
  let ea := encode (cc_a c) in
  let eb := encode (cc_b c) in
  cobs_eqb (of_opt (cmp_tokens (cc_a c) (cc_b c))) (cc_tokens c) &&
  cobs_eqb (of_cb (cmp_bytes ea eb)) (cc_bytes c) &&
  cobs_eqb (of_opt (cmp_segmented default_maxlen ea eb)) (cc_seg c).

(* raw byte strings through CompareBytes (malformed input class) *)
Record cb_case := CbCase { cb_a : list (N * N); cb_b : list (N * N); cb_obs : cobs }.
Definition check_cb (c : cb_case) : bool :=
  cobs_eqb (of_cb (cmp_bytes (X (cb_a c)) (X (cb_b c)))) (cb_obs c).
