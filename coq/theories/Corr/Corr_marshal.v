(* Corr/Corr_marshal.v — correspondence cases for the typed-value families (marshal, unmarshal). *)
From SbModel Require Export Corr.Corr_codec Model.Unmarshal.
Local Open Scope N_scope.

(* equality of rendered values: maps up to permutation, nil-ness of EMPTY containers ignored
   (the property identifies nil and empty slices/maps), floats bit-exact *)
Fixpoint gval_eqb (a b : gval) {struct a} : bool :=
  let list_eqb := (fix go (p : list gval) (q : list gval) : bool :=
                     match p, q with [], [] => true | x :: p', y :: q' => gval_eqb x y && go p' q' | _, _ => false end) in
  match a, b with
  | GBool x, GBool y => Bool.eqb x y
  | GInt x, GInt y => (x =? y)%Z
  | GUint x, GUint y => x =? y
  | GF32 x, GF32 y => (x =? y) || (f32_is_nan x && f32_is_nan y)   (* the payload bits of a float32 NaN do not survive Go's float32 <-> float64 conversions (a signalling NaN is quieted by the hardware): NaN-ness is compared, not the payload *)
  | GF64 x, GF64 y => x =? y
  | GStr x, GStr y => bytes_eqb x y
  | GBytes _ x, GBytes _ y => bytes_eqb x y
  | GTime x, GTime y => bytes_eqb x y
  | GList _ l, GList _ m => list_eqb l m
  | GStruct l, GStruct m => list_eqb l m
  | GMap _ l, GMap _ m =>
      Nat.eqb (length l) (length m) &&
      (fix all (p : list (gval * gval)) : bool :=
         match p with
         | [] => true
         | (k, v) :: p' =>
             (fix ex (q : list (gval * gval)) : bool :=
                match q with
                | [] => false
                | (k', v') :: q' => (gval_eqb k k' && gval_eqb v v') || ex q'
                end) m && all p'
         end) l
  | GPtr None, GPtr None => true
  | GPtr (Some x), GPtr (Some y) => gval_eqb x y
  | GAny None, GAny None => true
  | GAny (Some (t, x)), GAny (Some (t', y)) => ty_eqb t t' && gval_eqb x y
  | GFunc None, GFunc None => true
  | GFunc (Some l), GFunc (Some m) => list_eqb l m
  | _, _ => false
  end.

Inductive mobs := MOk (ts : list token) | MErr (e : eclass).
Definition mobs_match (m : res (list token)) (o : mobs) : bool :=
  match m, o with
  | Ok a, MOk b => tokens_eqb a b
  | Err e, MErr e' => eclass_eqb e e'
  | _, _ => false
  end.

Record marshal_case := MarshalCase {
  mc_opts : copts;
  mc_ty : ty;
  mc_val : gval;
  mc_obs : mobs
}.
Definition check_marshal (c : marshal_case) : bool :=
  mobs_match (marshal (mc_opts c) (mc_ty c) (mc_val c)) (mc_obs c).

Inductive uobs := UOk (v : gval) | UErr (e : eclass).

Fixpoint pf_lookup (tbl : list (list (N * N) * N * option N)) (s : bytes) (bits : N) : option N :=
  match tbl with
  | [] => None
  | (txt, b, r) :: rest => if bytes_eqb (X txt) s && (b =? bits) then r else pf_lookup rest s bits
  end.

Record unmarshal_case := UnmarshalCase {
  uc_opts : copts;
  uc_reg : registry;
  uc_ty : ty;
  uc_cur : gval;                                        (* the target's content before the call *)
  uc_tokens : list token;
  uc_floats : list (list (N * N) * N * option N);       (* strconv.ParseFloat results for the literals in this case *)
  uc_obs : uobs
}.
Definition check_unmarshal (c : unmarshal_case) : bool :=
  let ts := uc_tokens c in
  match unm (pf_lookup (uc_floats c)) (2000 + 4 * length ts) (uc_opts c) (uc_reg c) (uc_ty c) (uc_cur c) ts, uc_obs c with
  | Ok (v, _), UOk v' => gval_eqb v v'   (* Copy stops as soon as the sink has returned nil: tokens behind the value stay unread *)
  | Err e, UErr e' => eclass_eqb e e'
  | _, _ => false
  end.
