(* Corr/Corr_utaps.v — correspondence cases for the unmarshal path model (C17): the result, the
   path carried by the error, and the log a TapUnmarshal callback records. *)
From SbModel Require Export Corr.Corr_taps Model.UnmarshalPaths.
Local Open Scope N_scope.

Fixpoint utaps_eqb (a b : list utap) : bool :=
  match a, b with
  | [], [] => true
  | (p, k, r) :: a', (p', k', r') :: b' => path_eqb p p' && (k =? k') && (r =? r') && utaps_eqb a' b'
  | _, _ => false
  end.

(* observed outcome: value, or error class with the first path attached to the error (None: no path) *)
Inductive upobs := UPOk (v : gval) | UPErr (e : eclass) (p : option path).

Record utaps_case := UtapsCase {
  up_opts : copts;
  up_reg : registry;
  up_ty : ty;
  up_cur : gval;
  up_tokens : list token;
  up_floats : list (list (N * N) * N * option N);
  up_obs : upobs;
  up_log : list utap
}.

Definition check_utaps (c : utaps_case) : bool :=
  let ts := up_tokens c in
  let r := unmp (pf_lookup (up_floats c)) (2000 + 4 * length ts) (up_opts c) (up_reg c) (up_ty c) (up_cur c) ts [] in
  utaps_eqb (snd r) (up_log c) &&
  match fst r, up_obs c with
  | POk (v, _), UPOk v' => gval_eqb v v'
  | PErr e p, UPErr e' (Some p') => eclass_eqb e e' && path_eqb p p'
  | PErr e p, UPErr e' None => false
  | _, _ => false
  end.
