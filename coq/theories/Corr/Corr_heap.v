(* Corr/Corr_heap.v — correspondence cases for marshalling over pointer/interface/slice/map graphs. *)
From SbModel Require Export Corr.Corr_codec Model.Heap.
Local Open Scope N_scope.

Inductive hobs := HKinds (ks : list (N * N)) (* RLE of the token kinds *) | HErrC (e : eclass).

Fixpoint kinds_eqb (a b : list N) : bool :=
  match a, b with
  | [], [] => true
  | x :: a', y :: b' => (x =? y) && kinds_eqb a' b'
  | _, _ => false
  end.

Record heap_case := HeapCase { hp_heap : heap; hp_root : hval; hp_obs : hobs }.
Definition check_heap (c : heap_case) : bool :=
  match marshal_heap (hp_heap c) (hp_root c), hp_obs c with
  | HOk ks, HKinds o => kinds_eqb ks (X o)
  | HCyclic, HErrC ECyclic => true
  | _, _ => false
  end.
