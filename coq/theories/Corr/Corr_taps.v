(* Corr/Corr_taps.v — correspondence cases for the paths handed to TapMarshal callbacks. *)
From SbModel Require Export Corr.Corr_marshal Model.MarshalTaps.
Local Open Scope N_scope.

Definition pelem_eqb (a b : pelem) : bool :=
  match a, b with
  | PIdx x, PIdx y => (x =? y)%Z
  | PStr x, PStr y => bytes_eqb x y
  | PKey t x, PKey t' y => ty_eqb t t' && gval_eqb x y
  | _, _ => false
  end.
Fixpoint path_eqb (a b : list pelem) : bool :=
  match a, b with
  | [], [] => true
  | x :: a', y :: b' => pelem_eqb x y && path_eqb a' b'
  | _, _ => false
  end.
Fixpoint taps_eqb (a b : list tap) : bool :=
  match a, b with
  | [], [] => true
  | x :: a', y :: b' => path_eqb (fst x) (fst y) && (snd x =? snd y) && taps_eqb a' b'
  | _, _ => false
  end.

Record taps_case := TapsCase { tp_opts : copts; tp_ty : ty; tp_val : gval; tp_obs : list tap }.
Definition check_taps (c : taps_case) : bool :=
  taps_eqb (mtaps (tp_opts c) (tp_ty c) (tp_val c) []) (tp_obs c).
