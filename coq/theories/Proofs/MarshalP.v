(* Proofs/MarshalP.v — facts about the marshaller model (Model/Marshal.v): emitted tokens
   are well formed, totality on the typed domain, the reference mapping clauses, map entries
   sorted by key stream, independence of iteration order (C08). *)
From Coq Require Import List NArith ZArith Bool Lia ZifyBool ZifyNat ZifyN Permutation Sorted.
From SbModel Require Import Base.Bytes Base.Tokens Base.Floats Model.Types Model.Compare Model.Marshal.
From SbModel Require Import Spec.LexOrder Spec.Conform.
From SbModel Require Import Proofs.CompareP.
Import ListNotations.
Local Open Scope N_scope.

(* ------------------------------------------------------------------ *)
(* induction principle for the nested inductive gval                   *)
(* ------------------------------------------------------------------ *)
Section gval_ind2.
  Variable P : gval -> Prop.
  Hypothesis Hbool : forall b, P (GBool b).
  Hypothesis Hint : forall z, P (GInt z).
  Hypothesis Huint : forall n, P (GUint n).
  Hypothesis Hf32 : forall b, P (GF32 b).
  Hypothesis Hf64 : forall b, P (GF64 b).
  Hypothesis Hstr : forall s, P (GStr s).
  Hypothesis Hbytes : forall n s, P (GBytes n s).
  Hypothesis Hlist : forall n items, Forall P items -> P (GList n items).
  Hypothesis Hmap : forall n es, Forall (fun e => P (fst e) /\ P (snd e)) es -> P (GMap n es).
  Hypothesis Hstruct : forall vals, Forall P vals -> P (GStruct vals).
  Hypothesis Hptr0 : P (GPtr None).
  Hypothesis Hptr : forall x, P x -> P (GPtr (Some x)).
  Hypothesis Hany0 : P (GAny None).
  Hypothesis Hany : forall t x, P x -> P (GAny (Some (t, x))).
  Hypothesis Hfunc0 : P (GFunc None).
  Hypothesis Hfunc : forall items, Forall P items -> P (GFunc (Some items)).
  Hypothesis Htime : forall enc, P (GTime enc).
  Fixpoint gval_ind2 (v : gval) : P v :=
    match v with
    | GBool b => Hbool b | GInt z => Hint z | GUint n => Huint n
    | GF32 b => Hf32 b | GF64 b => Hf64 b | GStr s => Hstr s | GBytes n s => Hbytes n s
    | GList n items =>
        Hlist n items ((fix go (l : list gval) : Forall P l :=
                          match l with [] => Forall_nil _ | x :: r => Forall_cons _ (gval_ind2 x) (go r) end) items)
    | GMap n es =>
        Hmap n es ((fix go (l : list (gval * gval)) : Forall (fun e => P (fst e) /\ P (snd e)) l :=
                      match l with
                      | [] => Forall_nil _
                      | e :: r =>
                          Forall_cons _
                            (match e as e0 return P (fst e0) /\ P (snd e0) with
                             | (k, x) => conj (gval_ind2 k) (gval_ind2 x)
                             end) (go r)
                      end) es)
    | GStruct vals =>
        Hstruct vals ((fix go (l : list gval) : Forall P l :=
                         match l with [] => Forall_nil _ | x :: r => Forall_cons _ (gval_ind2 x) (go r) end) vals)
    | GPtr p => match p as p0 return P (GPtr p0) with None => Hptr0 | Some x => Hptr x (gval_ind2 x) end
    | GAny d =>
        match d as d0 return P (GAny d0) with
        | None => Hany0
        | Some tx => match tx as tx0 return P (GAny (Some tx0)) with (t, x) => Hany t x (gval_ind2 x) end
        end
    | GFunc r =>
        match r as r0 return P (GFunc r0) with
        | None => Hfunc0
        | Some items =>
            Hfunc items ((fix go (l : list gval) : Forall P l :=
                            match l with [] => Forall_nil _ | x :: r => Forall_cons _ (gval_ind2 x) (go r) end) items)
        end
    | GTime enc => Htime enc
    end.
End gval_ind2.

(* ------------------------------------------------------------------ *)
(* the local fixpoints of marshal / has_type as top-level functions     *)
(* ------------------------------------------------------------------ *)
Definition marshal_list (o : copts) (et : ty) : list gval -> res (list token) :=
  fix go (l : list gval) : res (list token) :=
    match l with
    | [] => Ok []
    | x :: r => bind (marshal o et x) (fun a => bind (go r) (fun b => Ok (a ++ b)))
    end.

Definition marshal_entries (o : copts) (kt vt : ty) : list (gval * gval) -> res (list entry) :=
  fix go (l : list (gval * gval)) : res (list entry) :=
    match l with
    | [] => Ok []
    | (k, x) :: r =>
        bind (marshal default_opts kt k) (fun sortkey =>
        if bad_map_key sortkey then Err EBadMapKey else
        bind (go r) (fun rest =>
        bind (marshal o kt k) (fun kts =>
        bind (marshal o vt x) (fun vts => Ok ((sortkey, kts, vts) :: rest)))))
    end.

Definition marshal_fields (o : copts) : list gval -> list (bytes * bool * ty) -> res (list token) :=
  fix go (l : list gval) (f : list (bytes * bool * ty)) : res (list token) :=
    match l, f with
    | x :: r, fd :: fr =>
        if skip_empty o && (is_zero (snd fd) x || (is_slice_kind (snd fd) && Nat.eqb (glen x) 0)) then go r fr
        else if negb (fexported fd) then go r fr
        else bind (marshal o (snd fd) x) (fun a =>
             bind (go r fr) (fun b => Ok (T KString (VStr (fname fd)) :: a ++ b)))
    | _, _ => Ok []
    end.

Definition marshal_outs (o : copts) : list gval -> list ty -> res (list token) :=
  fix go (l : list gval) (ts : list ty) : res (list token) :=
    match l, ts with
    | x :: r', xt :: tr => bind (marshal o xt x) (fun a => bind (go r' tr) (fun b => Ok (a ++ b)))
    | _, _ => Ok []
    end.

Definition elem_ty (t : ty) : ty := match underlying t with TArray _ e | TSlice e => e | _ => TAny end.
Definition map_kt (t : ty) : ty := match underlying t with TMap k _ => k | _ => TAny end.
Definition map_vt (t : ty) : ty := match underlying t with TMap _ v => v | _ => TAny end.
Definition struct_fs (t : ty) : list (bytes * bool * ty) := match underlying t with TStruct fs => fs | _ => [] end.
Definition ptr_ty (t : ty) : ty := match underlying t with TPtr e => e | _ => TAny end.
Definition func_outs (t : ty) : list ty := match underlying t with TFunc outs => outs | _ => [] end.

Definition map_stream (es : list entry) : list token :=
  T KMap VNone :: flat_map (fun e => snd (fst e) ++ snd e) (sort_entries es) ++ [T KMapEnd VNone].

Definition marshal_body (o : copts) (t : ty) (v : gval) : res (list token) :=
  match v with
  | GBool b => Ok [T KBool (VBool b)]
  | GInt z => match underlying t with
              | TInt w => Ok [T (kind_of_int w) (VI w z)]
              | _ => Err EOther
              end
  | GUint n => match underlying t with
               | TUint w => Ok [T (kind_of_uint w) (VU w n)]
               | TUintptr => Ok [T KPointer (VPtr n)]
               | _ => Err EOther
               end
  | GF32 b => if f32_is_nan b then Ok [T KNaN VNone] else Ok [T KFloat32 (VF32 b)]
  | GF64 b => if f64_is_nan b then Ok [T KNaN VNone] else Ok [T KFloat64 (VF64 b)]
  | GStr s => Ok [T KString (VStr s)]
  | GBytes _ s => Ok [T KBytes (VBytes s)]
  | GTime enc => Ok [T KString (VStr enc)]
  | GList _ items =>
      bind (marshal_list o (elem_ty t) items)
           (fun body => Ok (T KArray VNone :: body ++ [T KArrayEnd VNone]))
  | GMap _ entries =>
      bind (marshal_entries o (map_kt t) (map_vt t) entries) (fun es => Ok (map_stream es))
  | GStruct vals =>
      bind (marshal_fields o vals (struct_fs t))
           (fun body => Ok (T KObject VNone :: body ++ [T KObjectEnd VNone]))
  | GPtr None => Ok [T KNil VNone]
  | GPtr (Some x) => marshal o (ptr_ty t) x
  | GAny None => Ok [T KNil VNone]
  | GAny (Some (t', x)) => marshal o t' x
  | GFunc r =>
      if ignore_funcs o then Ok [T KNil VNone]
      else match r with
           | None => Ok [T KTuple VNone; T KTupleEnd VNone]
           | Some items =>
               bind (marshal_outs o items (func_outs t))
                    (fun body => Ok (T KTuple VNone :: body ++ [T KTupleEnd VNone]))
           end
  end.

Lemma marshal_eq o t v :
  marshal o t v = bind (marshal_body o t v) (fun ts => Ok (reg_prefix t ++ ts)).
Proof.
  destruct v as [b|z|n|b|b|s|n s|n items|n es|vals|p|d|r|enc]; try reflexivity;
    try (destruct p; try reflexivity); try (destruct d as [[t' x]|]; reflexivity);
    unfold marshal_body, elem_ty, map_kt, map_vt, map_stream, struct_fs, ptr_ty, func_outs;
    cbn [marshal]; unfold marshal_list, marshal_entries, marshal_fields, marshal_outs;
    destruct (underlying t); reflexivity.
Qed.

Lemma marshal_list_cons o et x r :
  marshal_list o et (x :: r) =
  bind (marshal o et x) (fun a => bind (marshal_list o et r) (fun b => Ok (a ++ b))).
Proof. reflexivity. Qed.

Lemma marshal_entries_cons o kt vt k x r :
  marshal_entries o kt vt ((k, x) :: r) =
  bind (marshal default_opts kt k) (fun sortkey =>
  if bad_map_key sortkey then Err EBadMapKey else
  bind (marshal_entries o kt vt r) (fun rest =>
  bind (marshal o kt k) (fun kts =>
  bind (marshal o vt x) (fun vts => Ok ((sortkey, kts, vts) :: rest))))).
Proof. reflexivity. Qed.

Lemma marshal_fields_cons o x r fd fr :
  marshal_fields o (x :: r) (fd :: fr) =
  if skip_empty o && (is_zero (snd fd) x || (is_slice_kind (snd fd) && Nat.eqb (glen x) 0)) then marshal_fields o r fr
  else if negb (fexported fd) then marshal_fields o r fr
  else bind (marshal o (snd fd) x) (fun a =>
       bind (marshal_fields o r fr) (fun b => Ok (T KString (VStr (fname fd)) :: a ++ b))).
Proof. reflexivity. Qed.

Lemma marshal_outs_cons o x r xt tr :
  marshal_outs o (x :: r) (xt :: tr) =
  bind (marshal o xt x) (fun a => bind (marshal_outs o r tr) (fun b => Ok (a ++ b))).
Proof. reflexivity. Qed.

Lemma marshal_inv o t v ts :
  marshal o t v = Ok ts -> exists b, marshal_body o t v = Ok b /\ ts = reg_prefix t ++ b.
Proof.
  rewrite marshal_eq. destruct (marshal_body o t v) as [b|e|]; cbn [bind]; intros H; try discriminate.
  exists b. split; [reflexivity|]. inversion H. reflexivity.
Qed.

Lemma bind_ok {A B} (r : res A) (k : A -> res B) b :
  bind r k = Ok b -> exists a, r = Ok a /\ k a = Ok b.
Proof. destruct r as [a|e|]; cbn [bind]; intros H; try discriminate. exists a. split; [reflexivity|exact H]. Qed.

(* ---- has_type with named local fixpoints ---- *)
Definition typed_list (e : ty) : list gval -> bool :=
  fix all (l : list gval) : bool := match l with [] => true | x :: r => has_type e x && all r end.
Definition typed_entries (kt vt : ty) : list (gval * gval) -> bool :=
  fix all (l : list (gval * gval)) : bool :=
    match l with [] => true | (k, x) :: r => has_type kt k && has_type vt x && all r end.
Definition typed_fields : list gval -> list (bytes * bool * ty) -> bool :=
  fix all (l : list gval) (f : list (bytes * bool * ty)) : bool :=
    match l, f with
    | [], [] => true
    | x :: r, fd :: fr => has_type (snd fd) x && all r fr
    | _, _ => false
    end.
Definition typed_outs : list gval -> list ty -> bool :=
  fix all (l : list gval) (ts : list ty) : bool :=
    match l, ts with
    | [], [] => true
    | x :: r', xt :: tr => has_type xt x && all r' tr
    | _, _ => false
    end.

Lemma has_type_list t n items :
  has_type t (GList n items) =
  match underlying t with
  | TArray k e => negb n && Nat.eqb (length items) k && typed_list e items
  | TSlice e => (negb n || match items with [] => true | _ => false end) && typed_list e items
  | _ => false
  end.
Proof. reflexivity. Qed.

Lemma has_type_map t n es :
  has_type t (GMap n es) =
  match underlying t with
  | TMap kt vt => (negb n || match es with [] => true | _ => false end) && typed_entries kt vt es
  | _ => false
  end.
Proof. reflexivity. Qed.

Lemma has_type_struct t vals :
  has_type t (GStruct vals) =
  match underlying t with TStruct fs => typed_fields vals fs | _ => false end.
Proof. reflexivity. Qed.

Lemma has_type_func t r :
  has_type t (GFunc r) =
  match underlying t, r with
  | TFunc _, None => true
  | TFunc outs, Some items => typed_outs items outs
  | _, _ => false
  end.
Proof. reflexivity. Qed.

Lemma typed_list_Forall e items : typed_list e items = true -> Forall (fun x => has_type e x = true) items.
Proof.
  induction items as [|x r IH]; cbn [typed_list]; intros H; constructor.
  - apply andb_true_iff in H. apply H.
  - apply IH. apply andb_true_iff in H. apply H.
Qed.

Lemma typed_entries_Forall kt vt es : typed_entries kt vt es = true ->
  Forall (fun e => has_type kt (fst e) = true /\ has_type vt (snd e) = true) es.
Proof.
  induction es as [|[k x] r IH]; cbn [typed_entries]; intros H; constructor.
  - apply andb_true_iff in H. destruct H as [H _]. apply andb_true_iff in H. exact H.
  - apply IH. apply andb_true_iff in H. apply H.
Qed.

Lemma wf_ty_underlying t : wf_ty t = true -> wf_ty (underlying t) = true.
Proof.
  induction t as [| | | | | | | | | | | |fs _| | |outs _|n r d u IHu|] using ty_ind2; cbn [underlying]; intros Hw; try exact Hw.
  apply IHu. cbn [wf_ty] in Hw. apply andb_true_iff in Hw. apply Hw.
Qed.

(* ------------------------------------------------------------------ *)
(* 4. indirection                                                      *)
(* ------------------------------------------------------------------ *)
Lemma bind_nil_prefix (r : res (list token)) : bind r (fun ts => Ok ([] ++ ts)) = r.
Proof. destruct r; reflexivity. Qed.

Theorem marshal_ptr o t v : marshal o (TPtr t) (GPtr (Some v)) = marshal o t v.
Proof. rewrite (marshal_eq o (TPtr t)). apply bind_nil_prefix. Qed.

Theorem marshal_any o t v : marshal o TAny (GAny (Some (t, v))) = marshal o t v.
Proof. rewrite (marshal_eq o TAny). apply bind_nil_prefix. Qed.

Theorem marshal_nil_ptr o t : marshal o (TPtr t) (GPtr None) = Ok [T KNil VNone].
Proof. reflexivity. Qed.

Theorem marshal_nil_any o : marshal o TAny (GAny None) = Ok [T KNil VNone].
Proof. reflexivity. Qed.

(* the pointee / dynamic value is all that is seen, at any depth, also through named types *)
Theorem marshal_ptr_named o t e v : reg_prefix t = [] -> underlying t = TPtr e ->
  marshal o t (GPtr (Some v)) = marshal o e v.
Proof.
  intros Hr Hu. rewrite (marshal_eq o t). rewrite Hr. cbn [marshal_body]. unfold ptr_ty. rewrite Hu.
  apply bind_nil_prefix.
Qed.

Example marshal_ptr_ex :
  marshal default_opts (TPtr (TPtr (TInt W8))) (GPtr (Some (GPtr (Some (GInt 5))))) = Ok [T KInt8 (VI W8 5)] /\
  marshal default_opts TAny (GAny (Some (TPtr TBool, GPtr (Some (GBool true))))) = Ok [T KBool (VBool true)].
Proof. split; reflexivity. Qed.

(* ------------------------------------------------------------------ *)
(* 5. the reference mapping clauses                                    *)
(* ------------------------------------------------------------------ *)
(* the body depends on the type only through its underlying type *)
Lemma underlying_idem t : underlying (underlying t) = underlying t.
Proof.
  induction t as [| | | | | | | | | | | |fs _| | |outs _|n r d u IHu|] using ty_ind2; try reflexivity.
  exact IHu.
Qed.

Lemma marshal_body_underlying o t t' v : underlying t = underlying t' ->
  marshal_body o t v = marshal_body o t' v.
Proof.
  intros E. destruct v as [b|z|n|b|b|s|n s|n items|n es|vals|p|d|r|enc]; cbn [marshal_body];
    unfold elem_ty, map_kt, map_vt, struct_fs, ptr_ty, func_outs; try rewrite E; reflexivity.
Qed.

Theorem marshal_unreg o t v : reg_prefix t = [] -> marshal o t v = marshal_body o t v.
Proof. intros Hr. rewrite marshal_eq, Hr. apply bind_nil_prefix. Qed.

(* a defined type that is not registered marshals like its underlying type *)
Theorem marshal_named_unreg o n d u v : reg_prefix u = [] ->
  marshal o (TNamed n false d u) v = marshal o u v.
Proof.
  intros Hr. rewrite (marshal_unreg o (TNamed n false d u)) by reflexivity.
  rewrite (marshal_unreg o u v Hr). apply marshal_body_underlying. reflexivity.
Qed.

(* a registered type: the TypeName token, then the stream of the underlying type *)
Theorem marshal_named_reg o n d u v : reg_prefix u = [] ->
  marshal o (TNamed n true d u) v = bind (marshal o u v) (fun ts => Ok (T KTypeName (VStr n) :: ts)).
Proof.
  intros Hr. rewrite (marshal_eq o (TNamed n true d u)). rewrite (marshal_unreg o u v Hr).
  rewrite (marshal_body_underlying o (TNamed n true d u) u v) by reflexivity. reflexivity.
Qed.

(* in general only the outermost name counts *)
Theorem marshal_named_reg_gen o n d u v :
  marshal o (TNamed n true d u) v =
  bind (marshal_body o (underlying u) v) (fun ts => Ok (T KTypeName (VStr n) :: ts)).
Proof.
  rewrite (marshal_eq o (TNamed n true d u)).
  rewrite (marshal_body_underlying o (TNamed n true d u) (underlying u) v); [reflexivity|].
  cbn [underlying]. symmetry. apply underlying_idem.
Qed.

(* scalars *)
Theorem marshal_bool o b : marshal o TBool (GBool b) = Ok [T KBool (VBool b)].
Proof. reflexivity. Qed.
Theorem marshal_int o w z : marshal o (TInt w) (GInt z) = Ok [T (kind_of_int w) (VI w z)].
Proof. reflexivity. Qed.
Theorem marshal_uint o w n : marshal o (TUint w) (GUint n) = Ok [T (kind_of_uint w) (VU w n)].
Proof. reflexivity. Qed.
Theorem marshal_uintptr o n : marshal o TUintptr (GUint n) = Ok [T KPointer (VPtr n)].
Proof. reflexivity. Qed.
Theorem marshal_string o s : marshal o TString (GStr s) = Ok [T KString (VStr s)].
Proof. reflexivity. Qed.
Theorem marshal_time o enc : marshal o TTime (GTime enc) = Ok [T KString (VStr enc)].
Proof. reflexivity. Qed.

(* ... and through any chain of unregistered names: the kind is that of the underlying type *)
Theorem marshal_int_under o t w z : reg_prefix t = [] -> underlying t = TInt w ->
  marshal o t (GInt z) = Ok [T (kind_of_int w) (VI w z)].
Proof. intros Hr Hu. rewrite (marshal_unreg o t _ Hr). cbn [marshal_body]. rewrite Hu. reflexivity. Qed.
Theorem marshal_uint_under o t w n : reg_prefix t = [] -> underlying t = TUint w ->
  marshal o t (GUint n) = Ok [T (kind_of_uint w) (VU w n)].
Proof. intros Hr Hu. rewrite (marshal_unreg o t _ Hr). cbn [marshal_body]. rewrite Hu. reflexivity. Qed.
Theorem marshal_uintptr_under o t n : reg_prefix t = [] -> underlying t = TUintptr ->
  marshal o t (GUint n) = Ok [T KPointer (VPtr n)].
Proof. intros Hr Hu. rewrite (marshal_unreg o t _ Hr). cbn [marshal_body]. rewrite Hu. reflexivity. Qed.
Theorem marshal_int_named o n d w z :
  marshal o (TNamed n false d (TInt w)) (GInt z) = Ok [T (kind_of_int w) (VI w z)].
Proof. reflexivity. Qed.
Theorem marshal_int_registered o n d w z :
  marshal o (TNamed n true d (TInt w)) (GInt z) = Ok [T KTypeName (VStr n); T (kind_of_int w) (VI w z)].
Proof. reflexivity. Qed.

(* bool, string, bytes, time and floats do not look at the type at all (beyond the TypeName prefix) *)
Theorem marshal_bool_any o t b : marshal o t (GBool b) = Ok (reg_prefix t ++ [T KBool (VBool b)]).
Proof. rewrite marshal_eq. reflexivity. Qed.
Theorem marshal_string_any o t s : marshal o t (GStr s) = Ok (reg_prefix t ++ [T KString (VStr s)]).
Proof. rewrite marshal_eq. reflexivity. Qed.
Theorem marshal_bytes_any o t n s : marshal o t (GBytes n s) = Ok (reg_prefix t ++ [T KBytes (VBytes s)]).
Proof. rewrite marshal_eq. reflexivity. Qed.
Theorem marshal_f64_any o t b :
  marshal o t (GF64 b) = Ok (reg_prefix t ++ [if f64_is_nan b then T KNaN VNone else T KFloat64 (VF64 b)]).
Proof. rewrite marshal_eq. cbn [marshal_body]. destruct (f64_is_nan b); reflexivity. Qed.
Theorem marshal_f32_any o t b :
  marshal o t (GF32 b) = Ok (reg_prefix t ++ [if f32_is_nan b then T KNaN VNone else T KFloat32 (VF32 b)]).
Proof. rewrite marshal_eq. cbn [marshal_body]. destruct (f32_is_nan b); reflexivity. Qed.

(* floats: NaN becomes the NaN token, everything else keeps its exact bits *)
Theorem marshal_f64_nan o b : f64_is_nan b = true -> marshal o TF64 (GF64 b) = Ok [T KNaN VNone].
Proof. intros H. rewrite (marshal_unreg o TF64) by reflexivity. cbn [marshal_body]. rewrite H. reflexivity. Qed.
Theorem marshal_f64_num o b : f64_is_nan b = false -> marshal o TF64 (GF64 b) = Ok [T KFloat64 (VF64 b)].
Proof. intros H. rewrite (marshal_unreg o TF64) by reflexivity. cbn [marshal_body]. rewrite H. reflexivity. Qed.
Theorem marshal_f32_nan o b : f32_is_nan b = true -> marshal o TF32 (GF32 b) = Ok [T KNaN VNone].
Proof. intros H. rewrite (marshal_unreg o TF32) by reflexivity. cbn [marshal_body]. rewrite H. reflexivity. Qed.
Theorem marshal_f32_num o b : f32_is_nan b = false -> marshal o TF32 (GF32 b) = Ok [T KFloat32 (VF32 b)].
Proof. intros H. rewrite (marshal_unreg o TF32) by reflexivity. cbn [marshal_body]. rewrite H. reflexivity. Qed.

(* byte slices and byte arrays: one Bytes token *)
Theorem marshal_bytes o n s : marshal o TBytes (GBytes n s) = Ok [T KBytes (VBytes s)].
Proof. reflexivity. Qed.
Theorem marshal_byte_array o k n s : marshal o (TByteArray k) (GBytes n s) = Ok [T KBytes (VBytes s)].
Proof. reflexivity. Qed.

(* sequencing of sub-streams: left to right, the first failure wins *)
Fixpoint concat_res (l : list (res (list token))) : res (list token) :=
  match l with
  | [] => Ok []
  | r :: rest => bind r (fun a => bind (concat_res rest) (fun b => Ok (a ++ b)))
  end.

(* arrays and slices: the element streams between Array and ArrayEnd *)
Theorem marshal_list_spec o et items :
  marshal_list o et items = concat_res (map (marshal o et) items).
Proof.
  induction items as [|x r IH]; [reflexivity|].
  rewrite marshal_list_cons. cbn [map concat_res]. rewrite IH. reflexivity.
Qed.

Theorem marshal_slice o e n items :
  marshal o (TSlice e) (GList n items) =
  bind (concat_res (map (marshal o e) items)) (fun body => Ok (T KArray VNone :: body ++ [T KArrayEnd VNone])).
Proof.
  rewrite (marshal_unreg o (TSlice e)) by reflexivity. cbn [marshal_body].
  rewrite marshal_list_spec. reflexivity.
Qed.

Theorem marshal_array o k e n items :
  marshal o (TArray k e) (GList n items) =
  bind (concat_res (map (marshal o e) items)) (fun body => Ok (T KArray VNone :: body ++ [T KArrayEnd VNone])).
Proof.
  rewrite (marshal_unreg o (TArray k e)) by reflexivity. cbn [marshal_body].
  rewrite marshal_list_spec. reflexivity.
Qed.

(* structs: the exported fields in declaration order, each as its name then its value stream;
   unexported fields are skipped *)
Definition struct_body (o : copts) (fs : list (bytes * bool * ty)) (vals : list gval) : res (list token) :=
  concat_res (map (fun p => bind (marshal o (snd (fst p)) (snd p))
                                 (fun a => Ok (T KString (VStr (fname (fst p))) :: a)))
                  (filter (fun p => fexported (fst p)) (combine fs vals))).

Lemma marshal_fields_spec o : skip_empty o = false -> forall vals fs,
  marshal_fields o vals fs = struct_body o fs vals.
Proof.
  intros Hs. unfold struct_body. induction vals as [|x r IH]; intros [|fd fr]; try reflexivity.
  rewrite marshal_fields_cons. rewrite Hs. cbn [andb combine filter fst].
  destruct (fexported fd) eqn:Ex; cbn [negb].
  - cbn [map concat_res fst snd]. rewrite IH.
    destruct (marshal o (snd fd) x) as [a|e|]; cbn [bind]; try reflexivity.
  - apply IH.
Qed.

Theorem marshal_struct o fs vals : skip_empty o = false ->
  marshal o (TStruct fs) (GStruct vals) =
  bind (struct_body o fs vals) (fun body => Ok (T KObject VNone :: body ++ [T KObjectEnd VNone])).
Proof.
  intros Hs. rewrite (marshal_unreg o (TStruct fs)) by reflexivity. cbn [marshal_body].
  unfold struct_fs. cbn [underlying]. rewrite (marshal_fields_spec o Hs). reflexivity.
Qed.

Example marshal_struct_ex :
  let fs := [([65], true, TInt W8); ([98], false, TString); ([67], true, TBool)] in
  let vals := [GInt 3; GStr [120]; GBool true] in
  struct_body default_opts fs vals =
    Ok [T KString (VStr [65]); T KInt8 (VI W8 3); T KString (VStr [67]); T KBool (VBool true)] /\
  marshal default_opts (TStruct fs) (GStruct vals) =
    Ok [T KObject VNone; T KString (VStr [65]); T KInt8 (VI W8 3);
        T KString (VStr [67]); T KBool (VBool true); T KObjectEnd VNone].
Proof. split; reflexivity. Qed.

(* tuple funcs: the results between Tuple and TupleEnd *)
Lemma marshal_outs_spec o : forall items outs, length items = length outs ->
  marshal_outs o items outs = concat_res (map (fun p => marshal o (snd p) (fst p)) (combine items outs)).
Proof.
  induction items as [|x r IH]; intros [|xt tr] Hl; try reflexivity; try discriminate.
  rewrite marshal_outs_cons. cbn [combine map concat_res fst snd]. rewrite IH; [reflexivity|].
  cbn [length] in Hl. lia.
Qed.

Theorem marshal_func o outs items : ignore_funcs o = false -> length items = length outs ->
  marshal o (TFunc outs) (GFunc (Some items)) =
  bind (concat_res (map (fun p => marshal o (snd p) (fst p)) (combine items outs)))
       (fun body => Ok (T KTuple VNone :: body ++ [T KTupleEnd VNone])).
Proof.
  intros Hi Hl. rewrite (marshal_unreg o (TFunc outs)) by reflexivity. cbn [marshal_body].
  rewrite Hi. unfold func_outs. cbn [underlying]. rewrite (marshal_outs_spec o items outs Hl). reflexivity.
Qed.

Theorem marshal_func_nil o outs : ignore_funcs o = false ->
  marshal o (TFunc outs) (GFunc None) = Ok [T KTuple VNone; T KTupleEnd VNone].
Proof.
  intros Hi. rewrite (marshal_unreg o (TFunc outs)) by reflexivity. cbn [marshal_body]. rewrite Hi. reflexivity.
Qed.

Theorem marshal_func_ignored o outs r : ignore_funcs o = true ->
  marshal o (TFunc outs) (GFunc r) = Ok [T KNil VNone].
Proof.
  intros Hi. rewrite (marshal_unreg o (TFunc outs)) by reflexivity. cbn [marshal_body]. rewrite Hi. reflexivity.
Qed.

Example marshal_func_ex :
  marshal default_opts (TFunc [TInt WNat; TString]) (GFunc (Some [GInt 1; GStr [97]])) =
  Ok [T KTuple VNone; T KInt (VI WNat 1); T KString (VStr [97]); T KTupleEnd VNone].
Proof. reflexivity. Qed.

(* ------------------------------------------------------------------ *)
(* 1. every emitted token is well formed (and carries no NaN payload)  *)
(* ------------------------------------------------------------------ *)
(* all dynamic types occurring in a value are well-formed types *)
Fixpoint wf_dyn (v : gval) : bool :=
  match v with
  | GList _ items => forallb wf_dyn items
  | GStruct vals => forallb wf_dyn vals
  | GMap _ es => forallb (fun e => wf_dyn (fst e) && wf_dyn (snd e)) es
  | GPtr (Some x) => wf_dyn x
  | GAny (Some (t, x)) => wf_ty t && wf_dyn x
  | GFunc (Some items) => forallb wf_dyn items
  | _ => true
  end.

Lemma wf_cmp_intro k v :
  kind_shape k v = true -> wf_val v = true -> not_nan_payload v = true -> wf_cmp (T k v) = true.
Proof.
  intros H1 H2 H3. unfold wf_cmp, wf_token. cbn [kind val]. rewrite H1, H2, H3. reflexivity.
Qed.

Lemma wfc_int w z : in_irange w z = true -> wf_cmp (T (kind_of_int w) (VI w z)) = true.
Proof. intros H. destruct w; (apply wf_cmp_intro; [reflexivity | exact H | reflexivity]). Qed.
Lemma wfc_uint w n : in_urange w n = true -> wf_cmp (T (kind_of_uint w) (VU w n)) = true.
Proof. intros H. destruct w; (apply wf_cmp_intro; [reflexivity | exact H | reflexivity]). Qed.
Lemma wfc_ptr n : (n <? 2 ^ 64) = true -> wf_cmp (T KPointer (VPtr n)) = true.
Proof. intros H. apply wf_cmp_intro; [reflexivity | exact H | reflexivity]. Qed.
Lemma wfc_f32 b : (b <? 2 ^ 32) = true -> f32_is_nan b = false -> wf_cmp (T KFloat32 (VF32 b)) = true.
Proof.
  intros H Hn. apply wf_cmp_intro; [reflexivity | exact H |].
  cbn [not_nan_payload]. rewrite Hn. reflexivity.
Qed.
Lemma wfc_f64 b : (b <? 2 ^ 64) = true -> f64_is_nan b = false -> wf_cmp (T KFloat64 (VF64 b)) = true.
Proof.
  intros H Hn. apply wf_cmp_intro; [reflexivity | exact H |].
  cbn [not_nan_payload]. rewrite Hn. reflexivity.
Qed.
Lemma wfc_str s : wf_bytesb s = true -> wf_cmp (T KString (VStr s)) = true.
Proof. intros H. apply wf_cmp_intro; [reflexivity | exact H | reflexivity]. Qed.
Lemma wfc_typename s : wf_bytesb s = true -> wf_cmp (T KTypeName (VStr s)) = true.
Proof. intros H. apply wf_cmp_intro; [reflexivity | exact H | reflexivity]. Qed.
Lemma wfc_bytes s : wf_bytesb s = true -> wf_cmp (T KBytes (VBytes s)) = true.
Proof. intros H. apply wf_cmp_intro; [reflexivity | exact H | reflexivity]. Qed.

Lemma wf_cmps_one tk : wf_cmp tk = true -> wf_cmps [tk].
Proof. intros H. constructor; [exact H | constructor]. Qed.

Lemma wf_cmps_app a b : wf_cmps a -> wf_cmps b -> wf_cmps (a ++ b).
Proof. intros Ha Hb. apply Forall_app. split; assumption. Qed.

Lemma wf_cmps_bracket k1 k2 body :
  wf_cmp (T k1 VNone) = true -> wf_cmp (T k2 VNone) = true -> wf_cmps body ->
  wf_cmps (T k1 VNone :: body ++ [T k2 VNone]).
Proof.
  intros H1 H2 Hb. constructor; [exact H1|]. apply wf_cmps_app; [exact Hb|]. apply wf_cmps_one. exact H2.
Qed.

Lemma reg_prefix_wf t : wf_ty t = true -> wf_cmps (reg_prefix t).
Proof.
  intros Hw. destruct t; try constructor. destruct reg; [|constructor].
  cbn [reg_prefix]. apply wf_cmps_one. apply wfc_typename.
  cbn [wf_ty] in Hw. apply andb_true_iff in Hw. apply Hw.
Qed.

Definition wfP (v : gval) : Prop :=
  forall o t ts, wf_ty t = true -> has_type t v = true -> wf_dyn v = true ->
                 marshal o t v = Ok ts -> wf_cmps ts.

Lemma marshal_list_wf o e items : Forall wfP items -> wf_ty e = true ->
  typed_list e items = true -> forallb wf_dyn items = true ->
  forall body, marshal_list o e items = Ok body -> wf_cmps body.
Proof.
  intros HP He. induction HP as [|x r Hx Hr IH]; intros Ht Hd body Hb.
  - inversion Hb. constructor.
  - cbn [typed_list] in Ht. apply andb_true_iff in Ht. destruct Ht as [Htx Htr].
    cbn [forallb] in Hd. apply andb_true_iff in Hd. destruct Hd as [Hdx Hdr].
    rewrite marshal_list_cons in Hb.
    apply bind_ok in Hb. destruct Hb as [a [Ha Hb]].
    apply bind_ok in Hb. destruct Hb as [b [Hb Hab]]. inversion Hab; subst.
    apply wf_cmps_app.
    + exact (Hx o e a He Htx Hdx Ha).
    + exact (IH Htr Hdr b Hb).
Qed.

Definition wf_entry (e : entry) : Prop :=
  wf_cmps (fst (fst e)) /\ wf_cmps (snd (fst e)) /\ wf_cmps (snd e).

Lemma marshal_entries_wf o kt vt es : Forall (fun e => wfP (fst e) /\ wfP (snd e)) es ->
  wf_ty kt = true -> wf_ty vt = true ->
  typed_entries kt vt es = true -> forallb (fun e => wf_dyn (fst e) && wf_dyn (snd e)) es = true ->
  forall ents, marshal_entries o kt vt es = Ok ents -> Forall wf_entry ents.
Proof.
  intros HP Hk Hv. induction HP as [|[k x] r [Hpk Hpx] Hr IH]; intros Ht Hd ents Hb.
  - inversion Hb. constructor.
  - cbn [fst snd] in Hpk, Hpx.
    cbn [typed_entries] in Ht. apply andb_true_iff in Ht. destruct Ht as [Ht Htr].
    apply andb_true_iff in Ht. destruct Ht as [Htk Htx].
    cbn [forallb fst snd] in Hd. apply andb_true_iff in Hd. destruct Hd as [Hd Hdr].
    apply andb_true_iff in Hd. destruct Hd as [Hdk Hdx].
    rewrite marshal_entries_cons in Hb.
    apply bind_ok in Hb. destruct Hb as [sk [Hsk Hb]].
    destruct (bad_map_key sk); [discriminate|].
    apply bind_ok in Hb. destruct Hb as [rest [Hrest Hb]].
    apply bind_ok in Hb. destruct Hb as [kts [Hkts Hb]].
    apply bind_ok in Hb. destruct Hb as [vts [Hvts Hb]]. inversion Hb; subst.
    constructor.
    + unfold wf_entry. cbn [fst snd]. repeat split.
      * exact (Hpk default_opts kt sk Hk Htk Hdk Hsk).
      * exact (Hpk o kt kts Hk Htk Hdk Hkts).
      * exact (Hpx o vt vts Hv Htx Hdx Hvts).
    + exact (IH Htr Hdr rest Hrest).
Qed.

Lemma marshal_fields_wf o vals : Forall wfP vals -> forall fs,
  forallb (fun f => wf_bytesb (fname f) && wf_ty (snd f)) fs = true ->
  typed_fields vals fs = true -> forallb wf_dyn vals = true ->
  forall body, marshal_fields o vals fs = Ok body -> wf_cmps body.
Proof.
  intros HP. induction HP as [|x r Hx Hr IH]; intros [|fd fr] Hw Ht Hd body Hb;
    try (inversion Hb; constructor).
  cbn [forallb] in Hw. apply andb_true_iff in Hw. destruct Hw as [Hw Hwr].
  apply andb_true_iff in Hw. destruct Hw as [Hwn Hwt].
  cbn [typed_fields] in Ht. apply andb_true_iff in Ht. destruct Ht as [Htx Htr].
  cbn [forallb] in Hd. apply andb_true_iff in Hd. destruct Hd as [Hdx Hdr].
  rewrite marshal_fields_cons in Hb.
  destruct (skip_empty o && _); [exact (IH fr Hwr Htr Hdr body Hb)|].
  destruct (negb (fexported fd)); [exact (IH fr Hwr Htr Hdr body Hb)|].
  apply bind_ok in Hb. destruct Hb as [a [Ha Hb]].
  apply bind_ok in Hb. destruct Hb as [b [Hb Hab]]. inversion Hab; subst.
  constructor; [apply wfc_str; exact Hwn|].
  apply wf_cmps_app.
  - exact (Hx o (snd fd) a Hwt Htx Hdx Ha).
  - exact (IH fr Hwr Htr Hdr b Hb).
Qed.

Lemma marshal_outs_wf o items : Forall wfP items -> forall outs,
  forallb wf_ty outs = true -> typed_outs items outs = true -> forallb wf_dyn items = true ->
  forall body, marshal_outs o items outs = Ok body -> wf_cmps body.
Proof.
  intros HP. induction HP as [|x r Hx Hr IH]; intros [|xt tr] Hw Ht Hd body Hb;
    try (inversion Hb; constructor).
  cbn [forallb] in Hw. apply andb_true_iff in Hw. destruct Hw as [Hwt Hwr].
  cbn [typed_outs] in Ht. apply andb_true_iff in Ht. destruct Ht as [Htx Htr].
  cbn [forallb] in Hd. apply andb_true_iff in Hd. destruct Hd as [Hdx Hdr].
  rewrite marshal_outs_cons in Hb.
  apply bind_ok in Hb. destruct Hb as [a [Ha Hb]].
  apply bind_ok in Hb. destruct Hb as [b [Hb Hab]]. inversion Hab; subst.
  apply wf_cmps_app.
  - exact (Hx o xt a Hwt Htx Hdx Ha).
  - exact (IH tr Hwr Htr Hdr b Hb).
Qed.

(* insertion sort is a permutation *)
Lemma insert_entry_perm e l : Permutation (insert_entry e l) (e :: l).
Proof.
  induction l as [|x r IH]; cbn [insert_entry]; [apply Permutation_refl|].
  destruct (key_le e x); [apply Permutation_refl|].
  apply perm_trans with (x :: e :: r); [apply perm_skip; exact IH | apply perm_swap].
Qed.

Lemma sort_entries_perm l : Permutation (sort_entries l) l.
Proof.
  induction l as [|e r IH]; [apply Permutation_refl|].
  unfold sort_entries. cbn [fold_right]. fold (sort_entries r).
  apply perm_trans with (e :: sort_entries r); [apply insert_entry_perm | apply perm_skip; exact IH].
Qed.

Lemma map_stream_wf ents : Forall wf_entry ents -> wf_cmps (map_stream ents).
Proof.
  intros H. unfold map_stream. apply wf_cmps_bracket; try reflexivity.
  assert (Hs : Forall wf_entry (sort_entries ents)).
  { exact (Permutation_Forall (Permutation_sym (sort_entries_perm ents)) H). }
  induction Hs as [|e r He Hr IH]; [constructor|].
  cbn [flat_map]. destruct He as [_ [Hk Hv]].
  apply wf_cmps_app; [apply wf_cmps_app; assumption | exact IH].
Qed.

Lemma marshal_wfP v : wfP v.
Proof.
  induction v as [b|z|n|b|b|s|n s|n items IH|n es IH|vals IH| |x IH| |t' x IH| |items IH|enc] using gval_ind2;
    intros o t ts Hw Ht Hd Hm; apply marshal_inv in Hm; destruct Hm as [body [Hb Hts]]; subst ts;
    (apply wf_cmps_app; [apply reg_prefix_wf; exact Hw|]);
    apply wf_ty_underlying in Hw.
  - inversion Hb. apply wf_cmps_one. reflexivity.
  - cbn [marshal_body] in Hb. cbn [has_type] in Ht.
    destruct (underlying t); try discriminate. inversion Hb. apply wf_cmps_one. apply wfc_int. exact Ht.
  - cbn [marshal_body] in Hb. cbn [has_type] in Ht.
    destruct (underlying t); try discriminate; inversion Hb; apply wf_cmps_one.
    + apply wfc_uint. exact Ht.
    + apply wfc_ptr. exact Ht.
  - cbn [marshal_body] in Hb. cbn [has_type] in Ht.
    destruct (underlying t); try discriminate.
    destruct (f32_is_nan b) eqn:En; inversion Hb; apply wf_cmps_one; [reflexivity|].
    apply wfc_f32; assumption.
  - cbn [marshal_body] in Hb. cbn [has_type] in Ht.
    destruct (underlying t); try discriminate.
    destruct (f64_is_nan b) eqn:En; inversion Hb; apply wf_cmps_one; [reflexivity|].
    apply wfc_f64; assumption.
  - cbn [marshal_body] in Hb. cbn [has_type] in Ht.
    destruct (underlying t); try discriminate. inversion Hb. apply wf_cmps_one. apply wfc_str. exact Ht.
  - cbn [marshal_body] in Hb. cbn [has_type] in Ht. inversion Hb. apply wf_cmps_one. apply wfc_bytes.
    destruct (underlying t); try discriminate.
    + apply andb_true_iff in Ht. apply Ht.
    + apply andb_true_iff in Ht. destruct Ht as [Ht _]. apply andb_true_iff in Ht. apply Ht.
  - cbn [marshal_body] in Hb. rewrite has_type_list in Ht. unfold elem_ty in Hb. cbn [wf_dyn] in Hd.
    apply bind_ok in Hb. destruct Hb as [l [Hl Hb]]. inversion Hb.
    apply wf_cmps_bracket; try reflexivity.
    destruct (underlying t) as [| | | | | | | | |k e|e| | | | | | |]; try discriminate.
    + apply andb_true_iff in Ht. destruct Ht as [_ Ht].
      exact (marshal_list_wf o e items IH Hw Ht Hd l Hl).
    + apply andb_true_iff in Ht. destruct Ht as [_ Ht].
      exact (marshal_list_wf o e items IH Hw Ht Hd l Hl).
  - cbn [marshal_body] in Hb. rewrite has_type_map in Ht. unfold map_kt, map_vt in Hb. cbn [wf_dyn] in Hd.
    apply bind_ok in Hb. destruct Hb as [ents [Hl Hb]]. inversion Hb.
    apply map_stream_wf.
    destruct (underlying t) as [| | | | | | | | | | |kt vt| | | | | |]; try discriminate.
    apply andb_true_iff in Ht. destruct Ht as [_ Ht].
    cbn [wf_ty] in Hw. apply andb_true_iff in Hw. destruct Hw as [Hwk Hwv].
    exact (marshal_entries_wf o kt vt es IH Hwk Hwv Ht Hd ents Hl).
  - cbn [marshal_body] in Hb. rewrite has_type_struct in Ht. unfold struct_fs in Hb. cbn [wf_dyn] in Hd.
    apply bind_ok in Hb. destruct Hb as [l [Hl Hb]]. inversion Hb.
    apply wf_cmps_bracket; try reflexivity.
    destruct (underlying t) as [| | | | | | | | | | | |fs| | | | |]; try discriminate.
    cbn [wf_ty] in Hw. apply andb_true_iff in Hw. destruct Hw as [Hwf _].
    exact (marshal_fields_wf o vals IH fs Hwf Ht Hd l Hl).
  - inversion Hb. apply wf_cmps_one. reflexivity.
  - cbn [marshal_body] in Hb. cbn [has_type] in Ht. unfold ptr_ty in Hb. cbn [wf_dyn] in Hd.
    destruct (underlying t) as [| | | | | | | | | | | | |e| | | |]; try discriminate.
    exact (IH o e body Hw Ht Hd Hb).
  - inversion Hb. apply wf_cmps_one. reflexivity.
  - cbn [marshal_body] in Hb. cbn [has_type] in Ht. cbn [wf_dyn] in Hd.
    apply andb_true_iff in Hd. destruct Hd as [Hwt' Hd].
    destruct (underlying t); try discriminate.
    exact (IH o t' body Hwt' Ht Hd Hb).
  - cbn [marshal_body] in Hb. destruct (ignore_funcs o); inversion Hb.
    + apply wf_cmps_one. reflexivity.
    + constructor; [reflexivity|]. apply wf_cmps_one. reflexivity.
  - cbn [marshal_body] in Hb. rewrite has_type_func in Ht. unfold func_outs in Hb. cbn [wf_dyn] in Hd.
    destruct (ignore_funcs o); [inversion Hb; apply wf_cmps_one; reflexivity|].
    apply bind_ok in Hb. destruct Hb as [l [Hl Hb]]. inversion Hb.
    apply wf_cmps_bracket; try reflexivity.
    destruct (underlying t) as [| | | | | | | | | | | | | | |outs| |]; try discriminate.
    cbn [wf_ty] in Hw.
    exact (marshal_outs_wf o items IH outs Hw Ht Hd l Hl).
  - cbn [marshal_body] in Hb. cbn [has_type] in Ht.
    destruct (underlying t); try discriminate. inversion Hb. apply wf_cmps_one. apply wfc_str.
    apply andb_true_iff in Ht. apply Ht.
Qed.

Theorem marshal_tokens_wf o t v ts :
  wf_ty t = true -> has_type t v = true -> wf_dyn v = true -> marshal o t v = Ok ts ->
  Forall (fun tk => wf_cmp tk = true) ts.
Proof. intros Hw Ht Hd Hm. exact (marshal_wfP v o t ts Hw Ht Hd Hm). Qed.

(* the dynamic-type hypothesis is needed: a dynamic type with an ill-formed name *)
Example marshal_tokens_wf_needs_wf_dyn :
  let v := GAny (Some (TNamed [300] true [] TBool, GBool true)) in
  wf_ty TAny = true /\ has_type TAny v = true /\ wf_dyn v = false /\
  marshal default_opts TAny v = Ok [T KTypeName (VStr [300]); T KBool (VBool true)] /\
  wf_cmp (T KTypeName (VStr [300])) = false.
Proof. repeat split. Qed.

Example marshal_tokens_wf_ex :
  let t := TStruct [([65], true, TSlice TF64); ([66], true, TAny)] in
  let v := GStruct [GList false [GF64 9221120237041090561; GF64 0]; GAny (Some (TInt W8, GInt (-128)))] in
  wf_ty t = true /\ has_type t v = true /\ wf_dyn v = true /\
  marshal default_opts t v =
    Ok [T KObject VNone; T KString (VStr [65]); T KArray VNone; T KNaN VNone; T KFloat64 (VF64 0);
        T KArrayEnd VNone; T KString (VStr [66]); T KInt8 (VI W8 (-128)); T KObjectEnd VNone].
Proof. repeat split. Qed.

(* ------------------------------------------------------------------ *)
(* 2. a stream is never empty; which values give a single NaN token     *)
(* ------------------------------------------------------------------ *)
(* a NaN float, possibly behind pointers and interfaces *)
Fixpoint nan_like (v : gval) : bool :=
  match v with
  | GF32 b => f32_is_nan b
  | GF64 b => f64_is_nan b
  | GPtr (Some x) => nan_like x
  | GAny (Some (_, x)) => nan_like x
  | _ => false
  end.

Definition shape (Q : Prop) (ts : list token) : Prop :=
  exists tk rest, ts = tk :: rest /\ (rest = [] -> kind tk = KNaN -> Q).

Lemma shape_prefix (Q : Prop) t b : shape Q b -> shape Q (reg_prefix t ++ b).
Proof.
  intros H. destruct t; try exact H. destruct reg; [|exact H].
  cbn [reg_prefix app]. exists (T KTypeName (VStr name)), b. split; [reflexivity|].
  intros E. destruct H as [tk [rest [Hb _]]]. rewrite Hb in E. discriminate.
Qed.

Lemma shape_one (Q : Prop) k v : (k = KNaN -> Q) -> shape Q [T k v].
Proof. intros H. exists (T k v), []. split; [reflexivity|]. intros _ Hk. apply H. exact Hk. Qed.

Lemma shape_bracket (Q : Prop) k1 k2 body : shape Q (T k1 VNone :: body ++ [T k2 VNone]).
Proof.
  exists (T k1 VNone), (body ++ [T k2 VNone]). split; [reflexivity|].
  intros E. symmetry in E. apply app_cons_not_nil in E. contradiction.
Qed.

Ltac kne := let H := fresh "Hk" in intros H; vm_compute in H; discriminate H.

Lemma marshal_shape v : forall o t ts, marshal o t v = Ok ts -> shape (nan_like v = true) ts.
Proof.
  induction v as [b|z|n|b|b|s|n s|n items _|n es _|vals _| |x IH| |t' x IH| |items _|enc] using gval_ind2;
    intros o t ts Hm; apply marshal_inv in Hm; destruct Hm as [body [Hb Hts]]; subst ts;
    apply shape_prefix; cbn [marshal_body] in Hb.
  - inversion Hb. apply shape_one. kne.
  - destruct (underlying t) as [|w| | | | | | | | | | | | | | | |]; try discriminate. inversion Hb.
    apply shape_one. destruct w; kne.
  - destruct (underlying t) as [| |w| | | | | | | | | | | | | | |]; try discriminate; inversion Hb; apply shape_one.
    + destruct w; kne.
    + kne.
  - destruct (f32_is_nan b) eqn:En; inversion Hb; apply shape_one.
    + intros _. exact En.
    + kne.
  - destruct (f64_is_nan b) eqn:En; inversion Hb; apply shape_one.
    + intros _. exact En.
    + kne.
  - inversion Hb. apply shape_one. kne.
  - inversion Hb. apply shape_one. kne.
  - apply bind_ok in Hb. destruct Hb as [l [_ Hb]]. inversion Hb. apply shape_bracket.
  - apply bind_ok in Hb. destruct Hb as [l [_ Hb]]. inversion Hb. apply shape_bracket.
  - apply bind_ok in Hb. destruct Hb as [l [_ Hb]]. inversion Hb. apply shape_bracket.
  - inversion Hb. apply shape_one. kne.
  - exact (IH o _ body Hb).
  - inversion Hb. apply shape_one. kne.
  - exact (IH o _ body Hb).
  - destruct (ignore_funcs o); inversion Hb.
    + apply shape_one. kne.
    + apply (shape_bracket _ KTuple KTupleEnd []).
  - destruct (ignore_funcs o).
    + inversion Hb. apply shape_one. kne.
    + apply bind_ok in Hb. destruct Hb as [l [_ Hb]]. inversion Hb. apply shape_bracket.
  - inversion Hb. apply shape_one. kne.
Qed.

Theorem marshal_nonempty o t v ts : marshal o t v = Ok ts -> ts <> [].
Proof.
  intros Hm. destruct (marshal_shape v o t ts Hm) as [tk [rest [E _]]]. rewrite E. discriminate.
Qed.

(* a key stream is rejected only for a NaN float (behind pointers / interfaces) *)
Theorem bad_key_nan_like o t v ts : marshal o t v = Ok ts -> bad_map_key ts = true -> nan_like v = true.
Proof.
  intros Hm Hbad. destruct (marshal_shape v o t ts Hm) as [tk [rest [E H]]]. subst ts.
  destruct rest as [|tk2 rest]; [|discriminate]. cbn [bad_map_key] in Hbad.
  apply H; [reflexivity|]. apply N.eqb_eq. exact Hbad.
Qed.

Example marshal_nonempty_ex :
  marshal default_opts (TStruct []) (GStruct []) = Ok [T KObject VNone; T KObjectEnd VNone].
Proof. reflexivity. Qed.

(* ------------------------------------------------------------------ *)
(* 3. totality on the typed domain                                     *)
(* ------------------------------------------------------------------ *)
(* no map key anywhere in the value is a NaN float (behind pointers / interfaces) *)
Fixpoint no_bad_keys (v : gval) : bool :=
  match v with
  | GList _ items => forallb no_bad_keys items
  | GStruct vals => forallb no_bad_keys vals
  | GMap _ es => forallb (fun e => negb (nan_like (fst e)) && no_bad_keys (fst e) && no_bad_keys (snd e)) es
  | GPtr (Some x) => no_bad_keys x
  | GAny (Some (_, x)) => no_bad_keys x
  | GFunc (Some items) => forallb no_bad_keys items
  | _ => true
  end.

(* the result is Ok, or the bad-map-key error and then nb = false *)
Definition okb {A} (nb : bool) (r : res A) : Prop :=
  match r with Ok _ => True | Err e => e = EBadMapKey /\ nb = false | OutOfFuel => False end.

Lemma okb_bind {A B} nb (r : res A) (k : A -> res B) :
  okb nb r -> (forall a, r = Ok a -> okb nb (k a)) -> okb nb (bind r k).
Proof. destruct r as [a|e|]; cbn [bind okb]; intros H Hk; [apply Hk; reflexivity | exact H | exact H]. Qed.

Lemma okb_weak {A} nb1 nb (r : res A) : okb nb1 r -> (nb1 = false -> nb = false) -> okb nb r.
Proof.
  destruct r as [a|e|]; cbn [okb]; intros H Hw; [exact I | | exact H].
  destruct H as [He Hn]. split; [exact He | apply Hw; exact Hn].
Qed.

Definition totP (v : gval) : Prop :=
  forall o t, has_type t v = true -> okb (no_bad_keys v) (marshal o t v).

Lemma marshal_list_tot o e items : Forall totP items -> typed_list e items = true ->
  okb (forallb no_bad_keys items) (marshal_list o e items).
Proof.
  intros HP. induction HP as [|x r Hx Hr IH]; intros Ht; [exact I|].
  cbn [typed_list] in Ht. apply andb_true_iff in Ht. destruct Ht as [Htx Htr].
  rewrite marshal_list_cons. cbn [forallb]. apply okb_bind.
  - apply (okb_weak (no_bad_keys x)); [exact (Hx o e Htx)|]. intros E. rewrite E. reflexivity.
  - intros a _. apply okb_bind; [|intros b _; exact I].
    apply (okb_weak (forallb no_bad_keys r)); [exact (IH Htr)|]. intros E. rewrite E. apply andb_false_r.
Qed.

Definition entry_ok (e : gval * gval) : bool :=
  negb (nan_like (fst e)) && no_bad_keys (fst e) && no_bad_keys (snd e).

Lemma marshal_entries_tot o kt vt es : Forall (fun e => totP (fst e) /\ totP (snd e)) es ->
  typed_entries kt vt es = true ->
  okb (forallb entry_ok es) (marshal_entries o kt vt es).
Proof.
  intros HP. induction HP as [|[k x] r [Hpk Hpx] Hr IH]; intros Ht; [exact I|].
  cbn [fst snd] in Hpk, Hpx.
  cbn [typed_entries] in Ht. apply andb_true_iff in Ht. destruct Ht as [Ht Htr].
  apply andb_true_iff in Ht. destruct Ht as [Htk Htx].
  rewrite marshal_entries_cons. cbn [forallb]. unfold entry_ok at 1. cbn [fst snd].
  apply okb_bind.
  - apply (okb_weak (no_bad_keys k)); [exact (Hpk default_opts kt Htk)|]. intros E. rewrite E.
    rewrite andb_false_r. reflexivity.
  - intros sk Hsk. destruct (bad_map_key sk) eqn:Ebad.
    + cbn [okb]. split; [reflexivity|].
      rewrite (bad_key_nan_like default_opts kt k sk Hsk Ebad). reflexivity.
    + apply okb_bind.
      * apply (okb_weak (forallb entry_ok r)); [exact (IH Htr)|]. intros E. rewrite E. apply andb_false_r.
      * intros rest _. apply okb_bind.
        { apply (okb_weak (no_bad_keys k)); [exact (Hpk o kt Htk)|]. intros E. rewrite E.
          rewrite andb_false_r. reflexivity. }
        intros kts _. apply okb_bind; [|intros vts _; exact I].
        apply (okb_weak (no_bad_keys x)); [exact (Hpx o vt Htx)|]. intros E. rewrite E.
        rewrite andb_false_r. reflexivity.
Qed.

Lemma marshal_fields_tot o vals : Forall totP vals -> forall fs, typed_fields vals fs = true ->
  okb (forallb no_bad_keys vals) (marshal_fields o vals fs).
Proof.
  intros HP. induction HP as [|x r Hx Hr IH]; intros [|fd fr] Ht; try exact I; try discriminate.
  cbn [typed_fields] in Ht. apply andb_true_iff in Ht. destruct Ht as [Htx Htr].
  assert (Hrest : okb (no_bad_keys x && forallb no_bad_keys r) (marshal_fields o r fr)).
  { apply (okb_weak (forallb no_bad_keys r)); [exact (IH fr Htr)|]. intros E. rewrite E. apply andb_false_r. }
  rewrite marshal_fields_cons. cbn [forallb].
  destruct (skip_empty o && _); [exact Hrest|].
  destruct (negb (fexported fd)); [exact Hrest|].
  apply okb_bind.
  - apply (okb_weak (no_bad_keys x)); [exact (Hx o (snd fd) Htx)|]. intros E. rewrite E. reflexivity.
  - intros a _. apply okb_bind; [exact Hrest | intros b _; exact I].
Qed.

Lemma marshal_outs_tot o items : Forall totP items -> forall outs, typed_outs items outs = true ->
  okb (forallb no_bad_keys items) (marshal_outs o items outs).
Proof.
  intros HP. induction HP as [|x r Hx Hr IH]; intros [|xt tr] Ht; try exact I; try discriminate.
  cbn [typed_outs] in Ht. apply andb_true_iff in Ht. destruct Ht as [Htx Htr].
  rewrite marshal_outs_cons. cbn [forallb]. apply okb_bind.
  - apply (okb_weak (no_bad_keys x)); [exact (Hx o xt Htx)|]. intros E. rewrite E. reflexivity.
  - intros a _. apply okb_bind; [|intros b _; exact I].
    apply (okb_weak (forallb no_bad_keys r)); [exact (IH tr Htr)|]. intros E. rewrite E. apply andb_false_r.
Qed.

Lemma marshal_totP v : totP v.
Proof.
  induction v as [b|z|n|b|b|s|n s|n items IH|n es IH|vals IH| |x IH| |t' x IH| |items IH|enc] using gval_ind2;
    intros o t Ht; rewrite marshal_eq; (apply okb_bind; [|intros a _; exact I]); cbn [marshal_body].
  - exact I.
  - cbn [has_type] in Ht. destruct (underlying t); try discriminate. exact I.
  - cbn [has_type] in Ht. destruct (underlying t); try discriminate; exact I.
  - destruct (f32_is_nan b); exact I.
  - destruct (f64_is_nan b); exact I.
  - exact I.
  - exact I.
  - rewrite has_type_list in Ht. unfold elem_ty. cbn [no_bad_keys].
    apply okb_bind; [|intros a _; exact I].
    destruct (underlying t) as [| | | | | | | | |k e|e| | | | | | |]; try discriminate;
      apply andb_true_iff in Ht; destruct Ht as [_ Ht]; exact (marshal_list_tot o e items IH Ht).
  - rewrite has_type_map in Ht. unfold map_kt, map_vt. cbn [no_bad_keys].
    apply okb_bind; [|intros a _; exact I].
    destruct (underlying t) as [| | | | | | | | | | |kt vt| | | | | |]; try discriminate.
    apply andb_true_iff in Ht. destruct Ht as [_ Ht]. exact (marshal_entries_tot o kt vt es IH Ht).
  - rewrite has_type_struct in Ht. unfold struct_fs. cbn [no_bad_keys].
    apply okb_bind; [|intros a _; exact I].
    destruct (underlying t) as [| | | | | | | | | | | |fs| | | | |]; try discriminate.
    exact (marshal_fields_tot o vals IH fs Ht).
  - exact I.
  - cbn [has_type] in Ht. unfold ptr_ty. cbn [no_bad_keys].
    destruct (underlying t) as [| | | | | | | | | | | | |e| | | |]; try discriminate.
    exact (IH o e Ht).
  - exact I.
  - cbn [has_type] in Ht. cbn [no_bad_keys]. destruct (underlying t); try discriminate. exact (IH o t' Ht).
  - destruct (ignore_funcs o); exact I.
  - rewrite has_type_func in Ht. unfold func_outs. cbn [no_bad_keys].
    destruct (ignore_funcs o); [exact I|].
    apply okb_bind; [|intros a _; exact I].
    destruct (underlying t) as [| | | | | | | | | | | | | | |outs| |]; try discriminate.
    exact (marshal_outs_tot o items IH outs Ht).
  - exact I.
Qed.

(* on typed values the marshaller never runs out of fuel and fails only with BadMapKey *)
Theorem marshal_ok_or_bad_key o t v : has_type t v = true ->
  (exists ts, marshal o t v = Ok ts) \/ (marshal o t v = Err EBadMapKey /\ no_bad_keys v = false).
Proof.
  intros Ht. pose proof (marshal_totP v o t Ht) as H.
  destruct (marshal o t v) as [ts|e|]; cbn [okb] in H.
  - left. exists ts. reflexivity.
  - right. destruct H as [He Hn]. subst e. split; [reflexivity | exact Hn].
  - contradiction.
Qed.

Theorem marshal_total_strong o t v :
  has_type t v = true -> no_bad_keys v = true -> exists ts, marshal o t v = Ok ts.
Proof.
  intros Ht Hn. destruct (marshal_ok_or_bad_key o t v Ht) as [H|[_ H]]; [exact H|].
  rewrite Hn in H. discriminate.
Qed.

Theorem marshal_total o t v :
  wf_ty t = true -> has_type t v = true -> wf_dyn v = true -> no_bad_keys v = true ->
  exists ts, marshal o t v = Ok ts.
Proof. intros _ Ht _ Hn. exact (marshal_total_strong o t v Ht Hn). Qed.

Example marshal_total_ex :
  let t := TMap TF64 (TSlice TAny) in
  let v := GMap false [(GF64 0, GList true []); (GF64 4607182418800017408, GList false [GAny None])] in
  wf_ty t = true /\ has_type t v = true /\ wf_dyn v = true /\ no_bad_keys v = true /\
  marshal default_opts t v =
    Ok [T KMap VNone; T KFloat64 (VF64 0); T KArray VNone; T KArrayEnd VNone;
        T KFloat64 (VF64 4607182418800017408); T KArray VNone; T KNil VNone; T KArrayEnd VNone;
        T KMapEnd VNone].
Proof. repeat split. Qed.

(* no_bad_keys is sufficient, not necessary: a NaN key of a REGISTERED float type marshals to
   two tokens (TypeName, NaN) and is accepted by the model *)
Example no_bad_keys_not_necessary :
  let kt := TNamed [75] true [] TF64 in
  let v := GMap false [(GF64 9221120237041090561, GBool true)] in
  has_type (TMap kt TBool) v = true /\ no_bad_keys v = false /\
  marshal default_opts (TMap kt TBool) v =
    Ok [T KMap VNone; T KTypeName (VStr [75]); T KNaN VNone; T KBool (VBool true); T KMapEnd VNone].
Proof. repeat split. Qed.

(* ------------------------------------------------------------------ *)
(* 6. map entries come out sorted by key stream                        *)
(* ------------------------------------------------------------------ *)
Definition sk (e : entry) : list token := fst (fst e).
Definition ent_le (a b : entry) : Prop := lex (sk a) (sk b) <> Gt.
Definition ent_lt (a b : entry) : Prop := lex (sk a) (sk b) = Lt.
Definition ent_ne (a b : entry) : Prop := lex (sk a) (sk b) <> Eq.
Definition wf_sk (e : entry) : Prop := wf_cmps (sk e).

Lemma key_le_true a b : wf_sk a -> wf_sk b -> key_le a b = true -> ent_le a b.
Proof.
  unfold key_le, ent_le, wf_sk, sk. intros Ha Hb. rewrite (cmp_is_lex _ _ Ha Hb).
  destruct (lex (fst (fst a)) (fst (fst b))); intros H; discriminate.
Qed.

Lemma key_le_false a b : wf_sk a -> wf_sk b -> key_le a b = false -> ent_lt b a.
Proof.
  unfold key_le, ent_lt, wf_sk, sk. intros Ha Hb. rewrite (cmp_is_lex _ _ Ha Hb).
  rewrite (lex_antisym (fst (fst a)) (fst (fst b))).
  destruct (lex (fst (fst a)) (fst (fst b))); intros H; try discriminate. reflexivity.
Qed.

Lemma ent_le_trans a b c : wf_sk a -> wf_sk b -> wf_sk c -> ent_le a b -> ent_le b c -> ent_le a c.
Proof. unfold ent_le, wf_sk. intros Ha Hb Hc. apply lex_trans; assumption. Qed.

Lemma insert_entry_sorted e l : wf_sk e -> Forall wf_sk l ->
  StronglySorted ent_le l -> StronglySorted ent_le (insert_entry e l).
Proof.
  intros He. induction l as [|x r IH]; intros Hw Hs.
  - constructor; constructor.
  - apply StronglySorted_inv in Hs. destruct Hs as [Hsr Hxr].
    inversion Hw as [|? ? Hx Hr]; subst.
    cbn [insert_entry]. destruct (key_le e x) eqn:E.
    + pose proof (key_le_true e x He Hx E) as Hex.
      constructor; [constructor; assumption|]. constructor; [exact Hex|].
      rewrite Forall_forall in *. intros y Hy.
      apply (ent_le_trans e x y He Hx (Hr y Hy) Hex (Hxr y Hy)).
    + pose proof (key_le_false e x He Hx E) as Hxe.
      constructor; [exact (IH Hr Hsr)|].
      apply (Permutation_Forall (Permutation_sym (insert_entry_perm e r))).
      constructor; [|exact Hxr]. unfold ent_le. unfold ent_lt in Hxe. rewrite Hxe. discriminate.
Qed.

Lemma sort_entries_sorted l : Forall wf_sk l -> StronglySorted ent_le (sort_entries l).
Proof.
  induction l as [|e r IH]; intros Hw; [constructor|].
  inversion Hw as [|? ? He Hr]; subst.
  unfold sort_entries. cbn [fold_right]. fold (sort_entries r).
  apply insert_entry_sorted; [exact He | | exact (IH Hr)].
  exact (Permutation_Forall (Permutation_sym (sort_entries_perm r)) Hr).
Qed.

Lemma FOP_perm {A} (R : A -> A -> Prop) : (forall a b, R a b -> R b a) ->
  forall l l', Permutation l l' -> ForallOrdPairs R l -> ForallOrdPairs R l'.
Proof.
  intros Hsym l l' Hp. induction Hp as [|x l l' Hp IH|x y l|l l' l'' Hp1 IH1 Hp2 IH2]; intros H.
  - exact H.
  - inversion H as [|? ? Hx Hl]; subst. constructor; [exact (Permutation_Forall Hp Hx) | exact (IH Hl)].
  - inversion H as [|? ? Hy Hxl]; subst. inversion Hxl as [|? ? Hx Hl]; subst.
    inversion Hy as [|? ? Hyx Hyl]; subst.
    constructor; [constructor; [apply Hsym; exact Hyx | exact Hx] | constructor; assumption].
  - exact (IH2 (IH1 H)).
Qed.

Lemma ent_ne_sym a b : ent_ne a b -> ent_ne b a.
Proof.
  unfold ent_ne. intros H E. apply H. rewrite (lex_antisym (sk b) (sk a)), E. reflexivity.
Qed.

Lemma sorted_strict l : StronglySorted ent_le l -> ForallOrdPairs ent_ne l -> StronglySorted ent_lt l.
Proof.
  induction l as [|a l IH]; intros Hs Hd; [constructor|].
  apply StronglySorted_inv in Hs. destruct Hs as [Hsl Hal].
  inversion Hd as [|? ? Hna Hdl]; subst.
  constructor; [exact (IH Hsl Hdl)|].
  rewrite Forall_forall in *. intros y Hy. specialize (Hal y Hy). specialize (Hna y Hy).
  unfold ent_le, ent_ne, ent_lt in *. destruct (lex (sk a) (sk y)); [contradiction | reflexivity | contradiction].
Qed.

(* the entry triples of a map, in iteration order *)
Definition entry_rel (o : copts) (kt vt : ty) (p : gval * gval) (e : entry) : Prop :=
  marshal default_opts kt (fst p) = Ok (fst (fst e)) /\
  marshal o kt (fst p) = Ok (snd (fst e)) /\
  marshal o vt (snd p) = Ok (snd e).

Lemma marshal_entries_rel o kt vt m : forall es,
  marshal_entries o kt vt m = Ok es -> Forall2 (entry_rel o kt vt) m es.
Proof.
  induction m as [|[k x] r IH]; intros es H.
  - inversion H. constructor.
  - rewrite marshal_entries_cons in H.
    apply bind_ok in H. destruct H as [s [Hs H]].
    destruct (bad_map_key s); [discriminate|].
    apply bind_ok in H. destruct H as [rest [Hrest H]].
    apply bind_ok in H. destruct H as [kts [Hkts H]].
    apply bind_ok in H. destruct H as [vts [Hvts H]]. inversion H; subst.
    constructor; [|exact (IH rest Hrest)].
    unfold entry_rel. cbn [fst snd]. repeat split; assumption.
Qed.

(* the key streams (under the default options, as used for sorting) of the entries at two
   different positions never compare Eq *)
Definition keys_distinct (kt : ty) (m : list (gval * gval)) : Prop :=
  ForallOrdPairs (fun p q => forall s1 s2,
                    marshal default_opts kt (fst p) = Ok s1 ->
                    marshal default_opts kt (fst q) = Ok s2 -> lex s1 s2 <> Eq) m.

Lemma FOP_Forall2 {A B} (R : A -> B -> Prop) (P : A -> A -> Prop) (Q : B -> B -> Prop) :
  (forall a b a' b', R a a' -> R b b' -> P a b -> Q a' b') ->
  forall l l', Forall2 R l l' -> ForallOrdPairs P l -> ForallOrdPairs Q l'.
Proof.
  intros HPQ l l' H2. induction H2 as [|a a' l l' Ha Hl IH]; intros H; [constructor|].
  inversion H as [|? ? Hal Hfl]; subst. constructor; [|exact (IH Hfl)].
  clear IH Hfl H. induction Hl as [|b b' l l' Hb Hl IH]; [constructor|].
  inversion Hal as [|? ? Hab Hal']; subst.
  constructor; [exact (HPQ a b a' b' Ha Hb Hab) | exact (IH Hal')].
Qed.

Lemma keys_distinct_entries o kt vt m es :
  Forall2 (entry_rel o kt vt) m es -> keys_distinct kt m -> ForallOrdPairs ent_ne es.
Proof.
  intros H2 Hd. apply (FOP_Forall2 _ _ ent_ne) with (2 := H2) (3 := Hd).
  intros p q e f [Hp _] [Hq _] H. unfold ent_ne, sk. exact (H _ _ Hp Hq).
Qed.

Lemma entries_wf_sk o kt vt m es : wf_ty kt = true ->
  Forall (fun p => has_type kt (fst p) = true) m -> Forall (fun p => wf_dyn (fst p) = true) m ->
  Forall2 (entry_rel o kt vt) m es -> Forall wf_sk es.
Proof.
  intros Hk Ht Hd H2. induction H2 as [|p e m es [Hp _] Hr IH]; [constructor|].
  inversion Ht as [|? ? Htp Htr]; subst. inversion Hd as [|? ? Hdp Hdr]; subst.
  constructor; [|exact (IH Htr Hdr)].
  exact (marshal_tokens_wf default_opts kt (fst p) (fst (fst e)) Hk Htp Hdp Hp).
Qed.

Lemma typed_entries_keys kt vt m : typed_entries kt vt m = true ->
  Forall (fun p => has_type kt (fst p) = true) m.
Proof.
  intros H. apply typed_entries_Forall in H. rewrite Forall_forall in *. intros p Hp. apply (H p Hp).
Qed.

Lemma wf_dyn_keys m : forallb (fun e => wf_dyn (fst e) && wf_dyn (snd e)) m = true ->
  Forall (fun p => wf_dyn (fst p) = true) m.
Proof.
  intros H. rewrite forallb_forall in H. rewrite Forall_forall. intros p Hp.
  specialize (H p Hp). apply andb_true_iff in H. apply H.
Qed.

(* general form: any map type (possibly named / registered) *)
Theorem map_sorted_gen o t kt vt isnil entries ts :
  underlying t = TMap kt vt ->
  wf_ty t = true -> has_type t (GMap isnil entries) = true -> wf_dyn (GMap isnil entries) = true ->
  marshal o t (GMap isnil entries) = Ok ts ->
  exists es0 es : list entry,
    Forall2 (entry_rel o kt vt) entries es0 /\ Permutation es0 es /\
    ts = reg_prefix t ++ T KMap VNone :: flat_map (fun e => snd (fst e) ++ snd e) es ++ [T KMapEnd VNone] /\
    StronglySorted (fun a b => lex (fst (fst a)) (fst (fst b)) <> Gt) es /\
    (keys_distinct kt entries -> StronglySorted (fun a b => lex (fst (fst a)) (fst (fst b)) = Lt) es).
Proof.
  intros Hu Hw Ht Hd Hm.
  apply marshal_inv in Hm. destruct Hm as [body [Hb Hts]]. cbn [marshal_body] in Hb.
  unfold map_kt, map_vt in Hb. rewrite Hu in Hb.
  apply bind_ok in Hb. destruct Hb as [es0 [He Hb]]. inversion Hb as [Hbody]. clear Hb.
  pose proof (marshal_entries_rel o kt vt entries es0 He) as Hrel.
  apply wf_ty_underlying in Hw. rewrite Hu in Hw. cbn [wf_ty] in Hw.
  apply andb_true_iff in Hw. destruct Hw as [Hwk Hwv].
  rewrite has_type_map, Hu in Ht. apply andb_true_iff in Ht. destruct Ht as [_ Ht].
  cbn [wf_dyn] in Hd.
  pose proof (entries_wf_sk o kt vt entries es0 Hwk (typed_entries_keys kt vt entries Ht)
                (wf_dyn_keys entries Hd) Hrel) as Hwf.
  exists es0, (sort_entries es0). split; [exact Hrel|].
  split; [apply Permutation_sym; apply sort_entries_perm|].
  split; [rewrite Hts, <- Hbody; reflexivity|].
  split; [exact (sort_entries_sorted es0 Hwf)|].
  intros Hdist. apply sorted_strict; [exact (sort_entries_sorted es0 Hwf)|].
  apply (FOP_perm ent_ne ent_ne_sym es0); [apply Permutation_sym; apply sort_entries_perm|].
  exact (keys_distinct_entries o kt vt entries es0 Hrel Hdist).
Qed.

Theorem map_sorted o kt vt isnil entries ts :
  wf_ty (TMap kt vt) = true -> has_type (TMap kt vt) (GMap isnil entries) = true ->
  wf_dyn (GMap isnil entries) = true ->
  marshal o (TMap kt vt) (GMap isnil entries) = Ok ts ->
  exists es0 es : list entry,
    Forall2 (entry_rel o kt vt) entries es0 /\ Permutation es0 es /\
    ts = T KMap VNone :: flat_map (fun e => snd (fst e) ++ snd e) es ++ [T KMapEnd VNone] /\
    StronglySorted (fun a b => lex (fst (fst a)) (fst (fst b)) <> Gt) es /\
    (keys_distinct kt entries -> StronglySorted (fun a b => lex (fst (fst a)) (fst (fst b)) = Lt) es).
Proof.
  intros Hw Ht Hd Hm. exact (map_sorted_gen o (TMap kt vt) kt vt isnil entries ts eq_refl Hw Ht Hd Hm).
Qed.

Example map_sorted_ex :
  let m := [(GInt 7, GStr [112]); (GInt (-5), GStr [110]); (GInt 0, GStr [122])] in
  marshal default_opts (TMap (TInt WNat) TString) (GMap false m) =
    Ok [T KMap VNone;
        T KInt (VI WNat (-5)); T KString (VStr [110]);
        T KInt (VI WNat 0); T KString (VStr [122]);
        T KInt (VI WNat 7); T KString (VStr [112]);
        T KMapEnd VNone].
Proof. reflexivity. Qed.

(* ------------------------------------------------------------------ *)
(* 7. independence of the iteration / insertion order                  *)
(* ------------------------------------------------------------------ *)
(* two strictly sorted permutations of one another are equal *)
Lemma sorted_perm_eq {A} (R : A -> A -> Prop) : (forall a b, R a b -> R b a -> False) ->
  forall l1 l2, StronglySorted R l1 -> StronglySorted R l2 -> Permutation l1 l2 -> l1 = l2.
Proof.
  intros Hasym. induction l1 as [|a l1 IH]; intros l2 H1 H2 Hp.
  - apply Permutation_nil in Hp. subst. reflexivity.
  - destruct l2 as [|b l2].
    + apply Permutation_sym, Permutation_nil in Hp. discriminate.
    + apply StronglySorted_inv in H1. destruct H1 as [Hs1 Ha].
      apply StronglySorted_inv in H2. destruct H2 as [Hs2 Hb].
      rewrite Forall_forall in Ha, Hb.
      assert (E : a = b).
      { assert (Hin : In a (b :: l2)) by (apply (Permutation_in a Hp); left; reflexivity).
        destruct Hin as [E|Hin]; [symmetry; exact E|].
        assert (Hin' : In b (a :: l1)) by (apply (Permutation_in b (Permutation_sym Hp)); left; reflexivity).
        destruct Hin' as [E|Hin']; [exact E|].
        exfalso. exact (Hasym a b (Ha b Hin') (Hb a Hin)). }
      subst b. f_equal. apply IH; [exact Hs1 | exact Hs2 |].
      exact (Permutation_cons_inv Hp).
Qed.

Lemma ent_lt_asym a b : ent_lt a b -> ent_lt b a -> False.
Proof.
  unfold ent_lt. intros H1 H2. rewrite (lex_antisym (sk a) (sk b)), H1 in H2. discriminate.
Qed.

Lemma sort_entries_perm_eq es1 es2 : Forall wf_sk es1 -> ForallOrdPairs ent_ne es1 ->
  Permutation es1 es2 -> sort_entries es1 = sort_entries es2.
Proof.
  intros Hw Hd Hp.
  assert (Hw2 : Forall wf_sk es2) by exact (Permutation_Forall Hp Hw).
  assert (Hd2 : ForallOrdPairs ent_ne es2) by exact (FOP_perm ent_ne ent_ne_sym es1 es2 Hp Hd).
  apply (sorted_perm_eq ent_lt ent_lt_asym).
  - apply sorted_strict; [exact (sort_entries_sorted es1 Hw)|].
    exact (FOP_perm ent_ne ent_ne_sym es1 _ (Permutation_sym (sort_entries_perm es1)) Hd).
  - apply sorted_strict; [exact (sort_entries_sorted es2 Hw2)|].
    exact (FOP_perm ent_ne ent_ne_sym es2 _ (Permutation_sym (sort_entries_perm es2)) Hd2).
  - apply perm_trans with es1; [apply sort_entries_perm|].
    apply perm_trans with es2; [exact Hp | apply Permutation_sym; apply sort_entries_perm].
Qed.

(* one entry on its own, and the sequencing of the entries with every failure collapsed:
   on typed values every failure is BadMapKey, so nothing is lost *)
Definition entry_of (o : copts) (kt vt : ty) (p : gval * gval) : res entry :=
  bind (marshal default_opts kt (fst p)) (fun s =>
  if bad_map_key s then Err EBadMapKey else
  bind (marshal o kt (fst p)) (fun kts =>
  bind (marshal o vt (snd p)) (fun vts => Ok (s, kts, vts)))).

Fixpoint seqo (l : list (res entry)) : option (list entry) :=
  match l with
  | [] => Some []
  | r :: rest => match r, seqo rest with
                 | Ok e, Some es => Some (e :: es)
                 | _, _ => None
                 end
  end.

Definition typed_entry (kt vt : ty) (p : gval * gval) : Prop :=
  has_type kt (fst p) = true /\ has_type vt (snd p) = true.

Lemma entries_seqo o kt vt m : Forall (typed_entry kt vt) m ->
  marshal_entries o kt vt m =
  match seqo (map (entry_of o kt vt) m) with Some es => Ok es | None => Err EBadMapKey end.
Proof.
  intros Ht. induction Ht as [|[k x] r [Htk Htx] Hr IH]; [reflexivity|].
  cbn [fst snd] in Htk, Htx.
  rewrite marshal_entries_cons. cbn [map seqo]. unfold entry_of at 1. cbn [fst snd]. rewrite IH.
  destruct (marshal_ok_or_bad_key default_opts kt k Htk) as [[s Hs]|[Hs _]]; rewrite Hs; cbn [bind];
    [|reflexivity].
  destruct (bad_map_key s); [reflexivity|].
  destruct (marshal_ok_or_bad_key o kt k Htk) as [[kts Hkts]|[Hkts _]]; rewrite Hkts; cbn [bind].
  - destruct (marshal_ok_or_bad_key o vt x Htx) as [[vts Hvts]|[Hvts _]]; rewrite Hvts; cbn [bind].
    + destruct (seqo (map (entry_of o kt vt) r)); reflexivity.
    + destruct (seqo (map (entry_of o kt vt) r)); reflexivity.
  - destruct (seqo (map (entry_of o kt vt) r)); reflexivity.
Qed.

Definition opt_perm (a b : option (list entry)) : Prop :=
  match a, b with
  | Some x, Some y => Permutation x y
  | None, None => True
  | _, _ => False
  end.

Lemma seqo_perm l1 l2 : Permutation l1 l2 -> opt_perm (seqo l1) (seqo l2).
Proof.
  intros Hp. induction Hp as [|x l l' Hp IH|x y l|l l' l'' Hp1 IH1 Hp2 IH2].
  - apply Permutation_refl.
  - cbn [seqo]. destruct x as [e|e|]; destruct (seqo l), (seqo l'); cbn [opt_perm] in *;
      try exact I; try contradiction. apply perm_skip. exact IH.
  - cbn [seqo]. destruct x as [e|e|]; destruct y as [f|f|]; destruct (seqo l); cbn [opt_perm];
      try exact I. apply perm_swap.
  - destruct (seqo l), (seqo l'), (seqo l''); cbn [opt_perm] in *; try exact I; try contradiction.
    exact (perm_trans IH1 IH2).
Qed.

Theorem marshal_map_perm_gen o t kt vt n1 n2 m1 m2 :
  underlying t = TMap kt vt -> Permutation m1 m2 ->
  wf_ty t = true -> has_type t (GMap n1 m1) = true -> wf_dyn (GMap n1 m1) = true ->
  keys_distinct kt m1 ->
  marshal o t (GMap n1 m1) = marshal o t (GMap n2 m2).
Proof.
  intros Hu Hp Hw Ht Hd Hdist.
  apply wf_ty_underlying in Hw. rewrite Hu in Hw. cbn [wf_ty] in Hw.
  apply andb_true_iff in Hw. destruct Hw as [Hwk Hwv].
  rewrite has_type_map, Hu in Ht. apply andb_true_iff in Ht. destruct Ht as [_ Ht].
  cbn [wf_dyn] in Hd.
  assert (Ht1 : Forall (typed_entry kt vt) m1) by exact (typed_entries_Forall kt vt m1 Ht).
  assert (Ht2 : Forall (typed_entry kt vt) m2) by exact (Permutation_Forall Hp Ht1).
  rewrite !marshal_eq. cbn [marshal_body]. unfold map_kt, map_vt. rewrite Hu. f_equal.
  pose proof (entries_seqo o kt vt m1 Ht1) as E1.
  pose proof (entries_seqo o kt vt m2 Ht2) as E2.
  pose proof (seqo_perm _ _ (Permutation_map (entry_of o kt vt) Hp)) as Hperm.
  destruct (seqo (map (entry_of o kt vt) m1)) as [es1|];
    destruct (seqo (map (entry_of o kt vt) m2)) as [es2|]; cbn [opt_perm] in Hperm; try contradiction.
  - rewrite E1, E2. cbn [bind]. unfold map_stream. f_equal. f_equal. f_equal. f_equal.
    pose proof (marshal_entries_rel o kt vt m1 es1 E1) as Hrel.
    apply sort_entries_perm_eq; [| |exact Hperm].
    + exact (entries_wf_sk o kt vt m1 es1 Hwk (typed_entries_keys kt vt m1 Ht) (wf_dyn_keys m1 Hd) Hrel).
    + exact (keys_distinct_entries o kt vt m1 es1 Hrel Hdist).
  - rewrite E1, E2. reflexivity.
Qed.

Theorem marshal_map_perm o kt vt n1 n2 m1 m2 :
  Permutation m1 m2 ->
  wf_ty (TMap kt vt) = true -> has_type (TMap kt vt) (GMap n1 m1) = true -> wf_dyn (GMap n1 m1) = true ->
  keys_distinct kt m1 ->
  marshal o (TMap kt vt) (GMap n1 m1) = marshal o (TMap kt vt) (GMap n2 m2).
Proof.
  intros Hp Hw Ht Hd Hdist.
  exact (marshal_map_perm_gen o (TMap kt vt) kt vt n1 n2 m1 m2 eq_refl Hp Hw Ht Hd Hdist).
Qed.

Example marshal_map_perm_ex :
  let m1 := [(GInt 7, GStr [112]); (GInt (-5), GStr [110]); (GInt 0, GStr [122])] in
  let m2 := [(GInt 0, GStr [122]); (GInt 7, GStr [112]); (GInt (-5), GStr [110])] in
  Permutation m1 m2 /\
  wf_ty (TMap (TInt WNat) TString) = true /\ has_type (TMap (TInt WNat) TString) (GMap false m1) = true /\
  wf_dyn (GMap false m1) = true /\ keys_distinct (TInt WNat) m1 /\
  marshal default_opts (TMap (TInt WNat) TString) (GMap false m1) =
  marshal default_opts (TMap (TInt WNat) TString) (GMap false m2).
Proof.
  cbv zeta. split; [|split; [reflexivity|split; [reflexivity|split; [reflexivity|split; [|reflexivity]]]]].
  - apply perm_trans with [(GInt 7, GStr [112]); (GInt 0, GStr [122]); (GInt (-5), GStr [110])].
    + apply perm_skip. apply perm_swap.
    + apply perm_swap.
  - unfold keys_distinct. repeat constructor; cbn [fst]; intros s1 s2 H1 H2;
      inversion H1; inversion H2; discriminate.
Qed.

(* without distinct key streams the order does matter: +0 and -0 are different keys of a Go
   map with equal (Eq) key streams, and insertion sort keeps them in iteration order *)
Example marshal_map_perm_needs_distinct :
  let m1 := [(GF64 0, GBool true); (GF64 9223372036854775808, GBool false)] in
  let m2 := [(GF64 9223372036854775808, GBool false); (GF64 0, GBool true)] in
  Permutation m1 m2 /\ has_type (TMap TF64 TBool) (GMap false m1) = true /\
  marshal default_opts (TMap TF64 TBool) (GMap false m1) <>
  marshal default_opts (TMap TF64 TBool) (GMap false m2).
Proof. cbv zeta. split; [apply perm_swap|]. split; [reflexivity|]. vm_compute. discriminate. Qed.

(* ------------------------------------------------------------------ *)
(* 8. a NaN key is rejected                                            *)
(* ------------------------------------------------------------------ *)
Theorem bad_key_rejected o kt vt isnil k x rest :
  marshal default_opts kt k = Ok [T KNaN VNone] ->
  marshal o (TMap kt vt) (GMap isnil ((k, x) :: rest)) = Err EBadMapKey.
Proof.
  intros Hk. rewrite marshal_eq. cbn [marshal_body]. unfold map_kt, map_vt. cbn [underlying].
  rewrite marshal_entries_cons, Hk. reflexivity.
Qed.

(* anywhere in the map, provided the entries are typed *)
Theorem bad_key_rejected_anywhere o t kt vt isnil m k x :
  underlying t = TMap kt vt -> has_type t (GMap isnil m) = true -> In (k, x) m ->
  marshal default_opts kt k = Ok [T KNaN VNone] ->
  marshal o t (GMap isnil m) = Err EBadMapKey.
Proof.
  intros Hu Ht Hin Hk.
  rewrite has_type_map, Hu in Ht. apply andb_true_iff in Ht. destruct Ht as [_ Ht].
  pose proof (typed_entries_Forall kt vt m Ht) as Ht1.
  rewrite marshal_eq. cbn [marshal_body]. unfold map_kt, map_vt. rewrite Hu.
  rewrite (entries_seqo o kt vt m Ht1).
  assert (E : seqo (map (entry_of o kt vt) m) = None).
  { clear Ht Ht1. induction m as [|p r IH]; [contradiction|].
    cbn [map seqo]. destruct Hin as [E|Hin].
    - subst p. unfold entry_of at 1. cbn [fst snd]. rewrite Hk. reflexivity.
    - rewrite (IH Hin). destruct (entry_of o kt vt p); reflexivity. }
  rewrite E. reflexivity.
Qed.

Example bad_key_rejected_ex :
  marshal default_opts (TMap TF64 TBool) (GMap false [(GF64 1, GBool true); (GF64 9221120237041090561, GBool true)])
  = Err EBadMapKey /\
  marshal default_opts (TMap (TPtr TF32) TBool) (GMap false [(GPtr (Some (GF32 2143289344)), GBool true)])
  = Err EBadMapKey.
Proof. split; reflexivity. Qed.

Print Assumptions marshal_tokens_wf.
Print Assumptions marshal_nonempty.
Print Assumptions marshal_total.
Print Assumptions marshal_ok_or_bad_key.
Print Assumptions marshal_ptr.
Print Assumptions marshal_any.
Print Assumptions marshal_named_reg.
Print Assumptions marshal_struct.
Print Assumptions marshal_func.
Print Assumptions map_sorted.
Print Assumptions marshal_map_perm.
Print Assumptions bad_key_rejected.
Print Assumptions bad_key_rejected_anywhere.
