(* Proofs/MarshalP.v — facts about the marshaller model (Model/Marshal.v): emitted tokens
   are well formed, totality on the typed domain, the reference mapping clauses, map entries
   sorted by key stream, independence of iteration order (C08). *)
From Coq Require Import List NArith ZArith Bool Lia ZifyBool ZifyNat ZifyN Permutation Sorted.
From SbModel Require Import Base.Bytes Base.Tokens Base.Floats Model.Types Model.Compare Model.Marshal.
From SbModel Require Import Spec.LexOrder Spec.Conform.
From SbModel Require Import Proofs.CompareP.
Import ListNotations.
Local Open Scope N_scope.

(* ------------------------------------------------------------------ *)
(* induction principle for the nested inductive gval                   *)
(* ------------------------------------------------------------------ *)
Section gval_ind2.
  Variable P : gval -> Prop.
  Hypothesis Hbool : forall b, P (GBool b).
  Hypothesis Hint : forall z, P (GInt z).
  Hypothesis Huint : forall n, P (GUint n).
  Hypothesis Hf32 : forall b, P (GF32 b).
  Hypothesis Hf64 : forall b, P (GF64 b).
  Hypothesis Hstr : forall s, P (GStr s).
  Hypothesis Hbytes : forall n s, P (GBytes n s).
  Hypothesis Hlist : forall n items, Forall P items -> P (GList n items).
  Hypothesis Hmap : forall n es, Forall (fun e => P (fst e) /\ P (snd e)) es -> P (GMap n es).
  Hypothesis Hstruct : forall vals, Forall P vals -> P (GStruct vals).
  Hypothesis Hptr0 : P (GPtr None).
  Hypothesis Hptr : forall x, P x -> P (GPtr (Some x)).
  Hypothesis Hany0 : P (GAny None).
  Hypothesis Hany : forall t x, P x -> P (GAny (Some (t, x))).
  Hypothesis Hfunc0 : P (GFunc None).
  Hypothesis Hfunc : forall items, Forall P items -> P (GFunc (Some items)).
  Hypothesis Htime : forall enc, P (GTime enc).
  Fixpoint gval_ind2 (v : gval) : P v :=
    match v with
    | GBool b => Hbool b | GInt z => Hint z | GUint n => Huint n
    | GF32 b => Hf32 b | GF64 b => Hf64 b | GStr s => Hstr s | GBytes n s => Hbytes n s
    | GList n items =>
        Hlist n items ((fix go (l : list gval) : Forall P l :=
                          match l with [] => Forall_nil _ | x :: r => Forall_cons _ (gval_ind2 x) (go r) end) items)
    | GMap n es =>
        Hmap n es ((fix go (l : list (gval * gval)) : Forall (fun e => P (fst e) /\ P (snd e)) l :=
                      match l with
                      | [] => Forall_nil _
                      | e :: r =>
                          Forall_cons _
                            (match e as e0 return P (fst e0) /\ P (snd e0) with
                             | (k, x) => conj (gval_ind2 k) (gval_ind2 x)
                             end) (go r)
                      end) es)
    | GStruct vals =>
        Hstruct vals ((fix go (l : list gval) : Forall P l :=
                         match l with [] => Forall_nil _ | x :: r => Forall_cons _ (gval_ind2 x) (go r) end) vals)
    | GPtr p => match p as p0 return P (GPtr p0) with None => Hptr0 | Some x => Hptr x (gval_ind2 x) end
    | GAny d =>
        match d as d0 return P (GAny d0) with
        | None => Hany0
        | Some tx => match tx as tx0 return P (GAny (Some tx0)) with (t, x) => Hany t x (gval_ind2 x) end
        end
    | GFunc r =>
        match r as r0 return P (GFunc r0) with
        | None => Hfunc0
        | Some items =>
            Hfunc items ((fix go (l : list gval) : Forall P l :=
                            match l with [] => Forall_nil _ | x :: r => Forall_cons _ (gval_ind2 x) (go r) end) items)
        end
    | GTime enc => Htime enc
    end.
End gval_ind2.

(* ------------------------------------------------------------------ *)
(* the local fixpoints of marshal / has_type as top-level functions     *)
(* ------------------------------------------------------------------ *)
Definition marshal_list (o : copts) (et : ty) : list gval -> res (list token) :=
  fix go (l : list gval) : res (list token) :=
    match l with
    | [] => Ok []
    | x :: r => bind (marshal o et x) (fun a => bind (go r) (fun b => Ok (a ++ b)))
    end.

Definition marshal_entries (o : copts) (kt vt : ty) : list (gval * gval) -> res (list entry) :=
  fix go (l : list (gval * gval)) : res (list entry) :=
    match l with
    | [] => Ok []
    | (k, x) :: r =>
        bind (marshal default_opts kt k) (fun sortkey =>
        if bad_map_key sortkey then Err EBadMapKey else
        bind (go r) (fun rest =>
        bind (marshal o kt k) (fun kts =>
        bind (marshal o vt x) (fun vts => Ok ((sortkey, kts, vts) :: rest)))))
    end.

Definition marshal_fields (o : copts) : list gval -> list (bytes * bool * ty) -> res (list token) :=
  fix go (l : list gval) (f : list (bytes * bool * ty)) : res (list token) :=
    match l, f with
    | x :: r, fd :: fr =>
        if skip_empty o && (is_zero (snd fd) x || (is_slice_kind (snd fd) && Nat.eqb (glen x) 0)) then go r fr
        else if negb (fexported fd) then go r fr
        else bind (marshal o (snd fd) x) (fun a =>
             bind (go r fr) (fun b => Ok (T KString (VStr (fname fd)) :: a ++ b)))
    | _, _ => Ok []
    end.

Definition marshal_outs (o : copts) : list gval -> list ty -> res (list token) :=
  fix go (l : list gval) (ts : list ty) : res (list token) :=
    match l, ts with
    | x :: r', xt :: tr => bind (marshal o xt x) (fun a => bind (go r' tr) (fun b => Ok (a ++ b)))
    | _, _ => Ok []
    end.

Definition elem_ty (t : ty) : ty := match underlying t with TArray _ e | TSlice e => e | _ => TAny end.
Definition map_kt (t : ty) : ty := match underlying t with TMap k _ => k | _ => TAny end.
Definition map_vt (t : ty) : ty := match underlying t with TMap _ v => v | _ => TAny end.
Definition struct_fs (t : ty) : list (bytes * bool * ty) := match underlying t with TStruct fs => fs | _ => [] end.
Definition ptr_ty (t : ty) : ty := match underlying t with TPtr e => e | _ => TAny end.
Definition func_outs (t : ty) : list ty := match underlying t with TFunc outs => outs | _ => [] end.

Definition map_stream (es : list entry) : list token :=
  T KMap VNone :: flat_map (fun e => snd (fst e) ++ snd e) (sort_entries es) ++ [T KMapEnd VNone].

Definition marshal_body (o : copts) (t : ty) (v : gval) : res (list token) :=
  match v with
  | GBool b => Ok [T KBool (VBool b)]
  | GInt z => match underlying t with
              | TInt w => Ok [T (kind_of_int w) (VI w z)]
              | _ => Err EOther
              end
  | GUint n => match underlying t with
               | TUint w => Ok [T (kind_of_uint w) (VU w n)]
               | TUintptr => Ok [T KPointer (VPtr n)]
               | _ => Err EOther
               end
  | GF32 b => if f32_is_nan b then Ok [T KNaN VNone] else Ok [T KFloat32 (VF32 b)]
  | GF64 b => if f64_is_nan b then Ok [T KNaN VNone] else Ok [T KFloat64 (VF64 b)]
  | GStr s => Ok [T KString (VStr s)]
  | GBytes _ s => Ok [T KBytes (VBytes s)]
  | GTime enc => Ok [T KString (VStr enc)]
  | GList _ items =>
      bind (marshal_list o (elem_ty t) items)
           (fun body => Ok (T KArray VNone :: body ++ [T KArrayEnd VNone]))
  | GMap _ entries =>
      bind (marshal_entries o (map_kt t) (map_vt t) entries) (fun es => Ok (map_stream es))
  | GStruct vals =>
      bind (marshal_fields o vals (struct_fs t))
           (fun body => Ok (T KObject VNone :: body ++ [T KObjectEnd VNone]))
  | GPtr None => Ok [T KNil VNone]
  | GPtr (Some x) => marshal o (ptr_ty t) x
  | GAny None => Ok [T KNil VNone]
  | GAny (Some (t', x)) => marshal o t' x
  | GFunc r =>
      if ignore_funcs o then Ok [T KNil VNone]
      else match r with
           | None => Ok [T KTuple VNone; T KTupleEnd VNone]
           | Some items =>
               bind (marshal_outs o items (func_outs t))
                    (fun body => Ok (T KTuple VNone :: body ++ [T KTupleEnd VNone]))
           end
  end.

Lemma marshal_eq o t v :
  marshal o t v = bind (marshal_body o t v) (fun ts => Ok (reg_prefix t ++ ts)).
Proof.
  destruct v as [b|z|n|b|b|s|n s|n items|n es|vals|p|d|r|enc]; try reflexivity;
    try (destruct p; try reflexivity); try (destruct d as [[t' x]|]; reflexivity);
    unfold marshal_body, elem_ty, map_kt, map_vt, map_stream, struct_fs, ptr_ty, func_outs;
    cbn [marshal]; unfold marshal_list, marshal_entries, marshal_fields, marshal_outs;
    destruct (underlying t); reflexivity.
Qed.

Lemma marshal_list_cons o et x r :
  marshal_list o et (x :: r) =
  bind (marshal o et x) (fun a => bind (marshal_list o et r) (fun b => Ok (a ++ b))).
Proof. reflexivity. Qed.

Lemma marshal_entries_cons o kt vt k x r :
  marshal_entries o kt vt ((k, x) :: r) =
  bind (marshal default_opts kt k) (fun sortkey =>
  if bad_map_key sortkey then Err EBadMapKey else
  bind (marshal_entries o kt vt r) (fun rest =>
  bind (marshal o kt k) (fun kts =>
  bind (marshal o vt x) (fun vts => Ok ((sortkey, kts, vts) :: rest))))).
Proof. reflexivity. Qed.

Lemma marshal_fields_cons o x r fd fr :
  marshal_fields o (x :: r) (fd :: fr) =
  if skip_empty o && (is_zero (snd fd) x || (is_slice_kind (snd fd) && Nat.eqb (glen x) 0)) then marshal_fields o r fr
  else if negb (fexported fd) then marshal_fields o r fr
  else bind (marshal o (snd fd) x) (fun a =>
       bind (marshal_fields o r fr) (fun b => Ok (T KString (VStr (fname fd)) :: a ++ b))).
Proof. reflexivity. Qed.

Lemma marshal_outs_cons o x r xt tr :
  marshal_outs o (x :: r) (xt :: tr) =
  bind (marshal o xt x) (fun a => bind (marshal_outs o r tr) (fun b => Ok (a ++ b))).
Proof. reflexivity. Qed.

Lemma marshal_inv o t v ts :
  marshal o t v = Ok ts -> exists b, marshal_body o t v = Ok b /\ ts = reg_prefix t ++ b.
Proof.
  rewrite marshal_eq. destruct (marshal_body o t v) as [b|e|]; cbn [bind]; intros H; try discriminate.
  exists b. split; [reflexivity|]. inversion H. reflexivity.
Qed.

Lemma bind_ok {A B} (r : res A) (k : A -> res B) b :
  bind r k = Ok b -> exists a, r = Ok a /\ k a = Ok b.
Proof. destruct r as [a|e|]; cbn [bind]; intros H; try discriminate. exists a. split; [reflexivity|exact H]. Qed.

(* ---- has_type with named local fixpoints ---- *)
Definition typed_list (e : ty) : list gval -> bool :=
  fix all (l : list gval) : bool := match l with [] => true | x :: r => has_type e x && all r end.
Definition typed_entries (kt vt : ty) : list (gval * gval) -> bool :=
  fix all (l : list (gval * gval)) : bool :=
    match l with [] => true | (k, x) :: r => has_type kt k && has_type vt x && all r end.
Definition typed_fields : list gval -> list (bytes * bool * ty) -> bool :=
  fix all (l : list gval) (f : list (bytes * bool * ty)) : bool :=
    match l, f with
    | [], [] => true
    | x :: r, fd :: fr => has_type (snd fd) x && all r fr
    | _, _ => false
    end.
Definition typed_outs : list gval -> list ty -> bool :=
  fix all (l : list gval) (ts : list ty) : bool :=
    match l, ts with
    | [], [] => true
    | x :: r', xt :: tr => has_type xt x && all r' tr
    | _, _ => false
    end.

Lemma has_type_list t n items :
  has_type t (GList n items) =
  match underlying t with
  | TArray k e => negb n && Nat.eqb (length items) k && typed_list e items
  | TSlice e => (negb n || match items with [] => true | _ => false end) && typed_list e items
  | _ => false
  end.
Proof. reflexivity. Qed.

Lemma has_type_map t n es :
  has_type t (GMap n es) =
  match underlying t with
  | TMap kt vt => (negb n || match es with [] => true | _ => false end) && typed_entries kt vt es
  | _ => false
  end.
Proof. reflexivity. Qed.

Lemma has_type_struct t vals :
  has_type t (GStruct vals) =
  match underlying t with TStruct fs => typed_fields vals fs | _ => false end.
Proof. reflexivity. Qed.

Lemma has_type_func t r :
  has_type t (GFunc r) =
  match underlying t, r with
  | TFunc _, None => true
  | TFunc outs, Some items => typed_outs items outs
  | _, _ => false
  end.
Proof. reflexivity. Qed.

Lemma typed_list_Forall e items : typed_list e items = true -> Forall (fun x => has_type e x = true) items.
Proof.
  induction items as [|x r IH]; cbn [typed_list]; intros H; constructor.
  - apply andb_true_iff in H. apply H.
  - apply IH. apply andb_true_iff in H. apply H.
Qed.

Lemma typed_entries_Forall kt vt es : typed_entries kt vt es = true ->
  Forall (fun e => has_type kt (fst e) = true /\ has_type vt (snd e) = true) es.
Proof.
  induction es as [|[k x] r IH]; cbn [typed_entries]; intros H; constructor.
  - apply andb_true_iff in H. destruct H as [H _]. apply andb_true_iff in H. exact H.
  - apply IH. apply andb_true_iff in H. apply H.
Qed.

Lemma wf_ty_underlying t : wf_ty t = true -> wf_ty (underlying t) = true.
Proof.
  induction t using ty_ind2; cbn [underlying]; intros H; try exact H.
  apply IHt. cbn [wf_ty] in H. apply andb_true_iff in H. apply H.
Qed.
