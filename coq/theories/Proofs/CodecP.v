(* Proofs/CodecP.v — the token codec: round trip (C02), wire layout (C03),
   accepted language / totality / offsets (C04), injected faults (C15). *)
From Coq Require Import List NArith ZArith Bool Lia ZifyBool ZifyNat ZifyN.
From SbModel Require Import Base.Bytes Base.Tokens Model.Codec Spec.WireGrammar Spec.DecodeGrammar.
From SbModel Require Import Proofs.BytesP.
Import ListNotations.
Local Open Scope N_scope.

(* ------------------------------------------------------------------ *)
(* lists, lengths, takeN                                               *)
(* ------------------------------------------------------------------ *)

Lemma lenN_nil : lenN [] = 0.
Proof. reflexivity. Qed.

Lemma lenN_cons b l : lenN (b :: l) = 1 + lenN l.
Proof. unfold lenN. cbn [length]. lia. Qed.

Lemma lenN_app a b : lenN (a ++ b) = lenN a + lenN b.
Proof. unfold lenN. rewrite app_length. lia. Qed.

Lemma firstn_length_app (a r : bytes) : firstn (length a) (a ++ r) = a.
Proof.
  induction a as [|x a IH]; cbn [length firstn app].
  - destruct r; reflexivity.
  - rewrite IH. reflexivity.
Qed.

Lemma skipn_length_app (a r : bytes) : skipn (length a) (a ++ r) = r.
Proof.
  induction a as [|x a IH]; cbn [length skipn app].
  - reflexivity.
  - exact IH.
Qed.

Lemma takeN_app a r : takeN (lenN a) (a ++ r) = Some (a, r).
Proof.
  unfold takeN. rewrite lenN_app.
  assert (E : (lenN a <=? lenN a + lenN r) = true) by lia.
  rewrite E. unfold firstn_N, skipn_N, lenN. rewrite Nat2N.id.
  rewrite firstn_length_app, skipn_length_app. reflexivity.
Qed.

Lemma takeN_app' n a r : lenN a = n -> takeN n (a ++ r) = Some (a, r).
Proof. intros <-. apply takeN_app. Qed.

Lemma takeN_some n bs p r : takeN n bs = Some (p, r) -> bs = p ++ r /\ lenN p = n.
Proof.
  unfold takeN. destruct (n <=? lenN bs) eqn:E; [|discriminate].
  intros H. inversion H; subst. unfold firstn_N, skipn_N. split.
  - symmetry. apply firstn_skipn.
  - unfold lenN in *. rewrite firstn_length_le by lia. lia.
Qed.

Lemma takeN_none n bs : takeN n bs = None -> lenN bs < n.
Proof.
  unfold takeN. destruct (n <=? lenN bs) eqn:E; [discriminate|]. intros _. lia.
Qed.

Lemma takeN_short n bs : lenN bs < n -> takeN n bs = None.
Proof.
  intros H. unfold takeN. assert (E : (n <=? lenN bs) = false) by lia. rewrite E. reflexivity.
Qed.

Lemma wf_bytes_app a b : wf_bytes (a ++ b) <-> wf_bytes a /\ wf_bytes b.
Proof. unfold wf_bytes. apply Forall_app. Qed.

Lemma wf_bytesb_true s : wf_bytesb s = true -> wf_bytes s.
Proof.
  unfold wf_bytesb, wf_bytes. intros H. apply Forall_forall. intros x Hx.
  rewrite forallb_forall in H. specialize (H x Hx). unfold wf_byteb in H. unfold wf_byte. lia.
Qed.

Lemma firstn_app_short (n : nat) (a b : bytes) : (n <= length a)%nat -> firstn n (a ++ b) = firstn n a.
Proof.
  intros H. rewrite firstn_app. replace (n - length a)%nat with 0%nat by lia.
  cbn [firstn]. apply app_nil_r.
Qed.

Lemma firstn_app_long (n : nat) (a b : bytes) : (length a <= n)%nat ->
  firstn n (a ++ b) = a ++ firstn (n - length a) b.
Proof.
  intros H. rewrite firstn_app. rewrite firstn_all2 by exact H. reflexivity.
Qed.

Lemma lenN_firstn (n : nat) (a : bytes) : (n <= length a)%nat -> lenN (firstn n a) = N.of_nat n.
Proof. intros H. unfold lenN. rewrite firstn_length_le by exact H. reflexivity. Qed.

(* ------------------------------------------------------------------ *)
(* the kind tables                                                     *)
(* ------------------------------------------------------------------ *)

Lemma existsb_eqb_In k l : existsb (N.eqb k) l = true -> In k l.
Proof.
  intros H. apply existsb_exists in H. destruct H as [x [Hin Heq]].
  apply N.eqb_eq in Heq. subst x. exact Hin.
Qed.

Ltac each_kind H :=
  cbn [In] in H;
  repeat (destruct H as [H|H]; [subst; vm_compute; auto|]);
  try contradiction.

Lemma valueless_facts k : is_valueless_kind k = true ->
  fixed_kind k = None /\ is_str_kind k = false /\ is_bytes_kind k = false.
Proof.
  intros H. unfold is_valueless_kind in H. apply existsb_eqb_In in H. each_kind H.
Qed.

Lemma str_kind_In k : is_str_kind k = true -> In k [KString; KTypeName; KLiteral].
Proof.
  unfold is_str_kind. intros H.
  apply orb_true_iff in H. destruct H as [H|H].
  - apply orb_true_iff in H. destruct H as [H|H]; apply N.eqb_eq in H; subst; cbn [In]; auto.
  - apply N.eqb_eq in H. subst. cbn [In]. auto.
Qed.

Lemma bytes_kind_In k : is_bytes_kind k = true -> In k [KBytes; KRef].
Proof.
  unfold is_bytes_kind. intros H.
  apply orb_true_iff in H. destruct H as [H|H]; apply N.eqb_eq in H; subst; cbn [In]; auto.
Qed.

Lemma str_kind_facts k : is_str_kind k = true ->
  fixed_kind k = None /\ is_bytes_kind k = false /\ is_valueless_kind k = false.
Proof. intros H. apply str_kind_In in H. each_kind H. Qed.

Lemma bytes_kind_facts k : is_bytes_kind k = true ->
  fixed_kind k = None /\ is_str_kind k = false /\ is_valueless_kind k = false.
Proof. intros H. apply bytes_kind_In in H. each_kind H. Qed.

(* ------------------------------------------------------------------ *)
(* one-step equations for decode_step and read_len                     *)
(* ------------------------------------------------------------------ *)

Lemma step_nil maxlen fault off :
  decode_step maxlen fault [] off = if fault then SErr EFault off else SEnd.
Proof. reflexivity. Qed.

Lemma step_fixed maxlen fault k r off n mk : fixed_kind k = Some (n, mk) ->
  decode_step maxlen fault (k :: r) off =
  match takeN n r with
  | Some (img, r') => STok (T k (mk (le_val img))) r' (off + 1 + n)
  | None => SErr (end_err fault) (off + 1)
  end.
Proof. intros H. unfold decode_step. cbv zeta. rewrite H. reflexivity. Qed.

Lemma step_var maxlen fault k r off : fixed_kind k = None ->
  is_str_kind k || is_bytes_kind k = true ->
  decode_step maxlen fault (k :: r) off =
  match read_len maxlen fault (is_str_kind k) r (off + 1) with
  | LenErr e o => SErr e o
  | LenOk len r' o =>
      match takeN len r' with
      | Some (pl, r'') => STok (T k (if is_str_kind k then VStr pl else VBytes pl)) r'' (o + len)
      | None => SErr (end_err fault) o
      end
  end.
Proof. intros H1 H2. unfold decode_step. cbv zeta. rewrite H1, H2. reflexivity. Qed.

Lemma step_valueless maxlen fault k r off : is_valueless_kind k = true ->
  decode_step maxlen fault (k :: r) off = STok (T k VNone) r (off + 1).
Proof.
  intros H. destruct (valueless_facts k H) as [H1 [H2 H3]].
  unfold decode_step. cbv zeta. rewrite H1, H2, H3, H. reflexivity.
Qed.

Lemma step_bad maxlen fault k r off : fixed_kind k = None ->
  is_str_kind k || is_bytes_kind k = false -> is_valueless_kind k = false ->
  decode_step maxlen fault (k :: r) off = SErr EBadKind (off + 1).
Proof. intros H1 H2 H3. unfold decode_step. cbv zeta. rewrite H1, H2, H3. reflexivity. Qed.

Definition toolong (strk : bool) : eclass := if strk then EStrTooLong else EBytesTooLong.

Lemma read_len_nil maxlen fault strk off :
  read_len maxlen fault strk [] off = LenErr (end_err fault) off.
Proof. reflexivity. Qed.

Lemma read_len_short maxlen fault strk b r off : b < 128 ->
  read_len maxlen fault strk (b :: r) off =
  if maxlen <? b then LenErr (toolong strk) (off + 1) else LenOk b r (off + 1).
Proof.
  intros H. unfold read_len. cbv zeta. assert (E : (b <? 128) = true) by lia. rewrite E. reflexivity.
Qed.

Lemma read_len_long maxlen fault strk b r off : 128 <= b ->
  read_len maxlen fault strk (b :: r) off =
  if 8 <? compl8 b then LenErr (toolong strk) (off + 1)
  else match takeN (compl8 b) r with
       | None => LenErr (end_err fault) (off + 1)
       | Some (u, r') =>
           match read_uvarint u with
           | UvOk len => if maxlen <? len then LenErr (toolong strk) (off + 1 + compl8 b)
                         else LenOk len r' (off + 1 + compl8 b)
           | _ => LenErr EEnd (off + 1 + compl8 b)
           end
       end.
Proof.
  intros H. unfold read_len. cbv zeta. assert (E : (b <? 128) = false) by lia. rewrite E. reflexivity.
Qed.

(* ------------------------------------------------------------------ *)
(* uv_parse versus read_uvarint and put_uvarint                        *)
(* ------------------------------------------------------------------ *)

Lemma uv_parse_bound u v : uv_parse u v -> wf_bytes u -> v < 128 ^ N.of_nat (length u).
Proof.
  intros Hp. induction Hp as [b junk Hb | b r v Hb Hr IH]; intros Hwf; cbn [length]; rewrite pow128_succ.
  - pose proof (pow128_pos (length junk)) as HP. remember (128 ^ N.of_nat (length junk)) as P. lia.
  - apply Forall_cons_iff in Hwf; destruct Hwf as [Hb' Hr']. specialize (IH Hr'). unfold wf_byte in Hb'.
    remember (128 ^ N.of_nat (length r)) as P. lia.
Qed.

Lemma read_uv_parse u v : uv_parse u v -> forall fr i x s,
  (length u <= fr)%nat -> (i + length u <= 9)%nat ->
  read_uvarint_f fr i x s u = UvOk ((x + v * 2 ^ s) mod 2 ^ 64).
Proof.
  intros Hp. induction Hp as [b junk Hb | b r v Hb Hr IH]; intros fr i x s Hfr Hi; cbn [length] in *.
  - destruct fr as [|fr]; [lia|]. cbn [read_uvarint_f].
    assert (E : (b <? 128) = true) by lia. rewrite E.
    assert (E9 : Nat.eqb i 9 = false) by (apply Nat.eqb_neq; lia).
    rewrite E9. cbn [andb]. reflexivity.
  - destruct fr as [|fr]; [lia|]. cbn [read_uvarint_f].
    assert (E : (b <? 128) = false) by lia. rewrite E.
    rewrite IH by lia. f_equal. f_equal.
    rewrite N.pow_add_r. change (2 ^ 7) with 128.
    remember (2 ^ s) as P. remember (b - 128) as c. ring.
Qed.

Lemma read_uv_parse_inv fr : forall u i x s res,
  read_uvarint_f fr i x s u = UvOk res ->
  exists v, uv_parse u v /\ res = (x + v * 2 ^ s) mod 2 ^ 64.
Proof.
  induction fr as [|fr IH]; intros u i x s res H; cbn [read_uvarint_f] in H.
  - discriminate.
  - destruct u as [|b r].
    + destruct i; discriminate.
    + destruct (b <? 128) eqn:E.
      * destruct (Nat.eqb i 9 && (1 <? b)) eqn:E9; [discriminate|].
        inversion H; subst. exists b. split; [apply uvp_last; lia | reflexivity].
      * apply IH in H. destruct H as [v [Hv Hres]].
        exists ((b - 128) + 128 * v). split; [apply uvp_more; [lia | exact Hv]|].
        rewrite Hres. f_equal.
        rewrite N.pow_add_r. change (2 ^ 7) with 128.
        remember (2 ^ s) as P. remember (b - 128) as c. ring.
Qed.

Lemma pow128_le_64 (k : nat) : (k <= 8)%nat -> 128 ^ N.of_nat k < 2 ^ 64.
Proof.
  intros Hk. apply N.le_lt_trans with (128 ^ N.of_nat 8).
  - apply N.pow_le_mono_r; [discriminate | lia].
  - vm_compute. reflexivity.
Qed.

Lemma read_uvarint_parse u v : wf_bytes u -> (length u <= 8)%nat -> uv_parse u v ->
  read_uvarint u = UvOk v.
Proof.
  intros Hwf Hlen Hp. unfold read_uvarint.
  rewrite (read_uv_parse u v Hp) by lia.
  rewrite N.pow_0_r, N.mul_1_r, N.add_0_l. f_equal.
  apply N.mod_small.
  pose proof (uv_parse_bound u v Hp Hwf). pose proof (pow128_le_64 (length u) Hlen). lia.
Qed.

Lemma read_uvarint_parse_inv u res : wf_bytes u -> (length u <= 8)%nat ->
  read_uvarint u = UvOk res -> uv_parse u res.
Proof.
  intros Hwf Hlen H. unfold read_uvarint in H.
  apply read_uv_parse_inv in H. destruct H as [v [Hv Hres]].
  rewrite N.pow_0_r, N.mul_1_r, N.add_0_l in Hres.
  rewrite N.mod_small in Hres.
  - subst. exact Hv.
  - pose proof (uv_parse_bound u v Hv Hwf). pose proof (pow128_le_64 (length u) Hlen). lia.
Qed.

Lemma uvp_more' b r v n : 128 <= b -> uv_parse r v -> n = (b - 128) + 128 * v -> uv_parse (b :: r) n.
Proof. intros Hb Hr ->. apply uvp_more; assumption. Qed.

Lemma uv_parse_put_f fp n : n < 128 ^ N.of_nat (S fp) -> uv_parse (put_uvarint_f fp n) n.
Proof.
  revert n. induction fp as [|f IH]; intros n Hn; cbn [put_uvarint_f].
  - change (128 ^ N.of_nat 1) with 128 in Hn. rewrite N.mod_small by exact Hn.
    apply uvp_last. exact Hn.
  - destruct (n <? 128) eqn:E.
    + apply uvp_last. lia.
    + rewrite pow128_succ in Hn. apply div128_lt in Hn.
      apply (uvp_more' _ _ (n / 128)).
      * lia.
      * apply IH. exact Hn.
      * rewrite N.add_sub. pose proof (divmod128 n). lia.
Qed.

Lemma uv_parse_put n : n < 2 ^ 56 -> uv_parse (put_uvarint n) n.
Proof.
  intros Hn. apply uv_parse_put_f.
  eapply N.lt_trans; [exact Hn|]. vm_compute. reflexivity.
Qed.

(* ------------------------------------------------------------------ *)
(* read_len: completeness and soundness against len_field              *)
(* ------------------------------------------------------------------ *)

Lemma read_len_complete maxlen fault strk len lf r off : len_field maxlen len lf ->
  read_len maxlen fault strk (lf ++ r) off = LenOk len r (off + lenN lf).
Proof.
  intros H. destruct H as [b Hb Hm | l u len Hl Hu Hwf Hp Hm].
  - cbn [app]. rewrite read_len_short by exact Hb.
    assert (E : (maxlen <? b) = false) by lia. rewrite E. reflexivity.
  - cbn [app]. rewrite read_len_long by lia.
    assert (Ec : compl8 (255 - l) = l) by (unfold compl8; lia). rewrite Ec.
    assert (E8 : (8 <? l) = false) by lia. rewrite E8.
    rewrite (takeN_app' l u r Hu).
    assert (Hlen : (length u <= 8)%nat) by (unfold lenN in Hu; lia).
    rewrite (read_uvarint_parse u len Hwf Hlen Hp).
    assert (E : (maxlen <? len) = false) by lia. rewrite E.
    rewrite lenN_cons, Hu. f_equal. lia.
Qed.

Lemma read_len_sound maxlen fault strk bs off len r o : wf_bytes bs ->
  read_len maxlen fault strk bs off = LenOk len r o ->
  exists lf, bs = lf ++ r /\ o = off + lenN lf /\ len_field maxlen len lf.
Proof.
  intros Hwf H. destruct bs as [|b bs]; [discriminate|].
  apply Forall_cons_iff in Hwf; destruct Hwf as [Hb Hbs]. unfold wf_byte in Hb.
  destruct (b <? 128) eqn:Eb.
  - rewrite read_len_short in H by lia.
    destruct (maxlen <? b) eqn:Em; [discriminate|]. injection H as E1 E2 E3; subst len r o.
    exists [b]. split; [reflexivity|]. split; [reflexivity|]. apply lf_short; lia.
  - rewrite read_len_long in H by lia.
    destruct (8 <? compl8 b) eqn:E8; [discriminate|].
    destruct (takeN (compl8 b) bs) as [[u r']|] eqn:Et; [|discriminate].
    apply takeN_some in Et. destruct Et as [Hsplit Hlu].
    destruct (read_uvarint u) as [v| | |] eqn:Eu; try discriminate.
    destruct (maxlen <? v) eqn:Em; [discriminate|]. injection H as E1 E2 E3; subst len r o bs.
    apply wf_bytes_app in Hbs. destruct Hbs as [Hwu Hwr].
    assert (Hlen : (length u <= 8)%nat) by (unfold lenN in Hlu; lia).
    exists (b :: u). split; [reflexivity|]. split.
    + rewrite lenN_cons, Hlu. lia.
    + replace b with (255 - compl8 b) at 1 by (unfold compl8; lia).
      apply lf_long; try assumption; try lia.
      apply read_uvarint_parse_inv; assumption.
Qed.

(* structure only, no well-formedness needed *)
Lemma read_len_struct maxlen fault strk bs off len r o :
  read_len maxlen fault strk bs off = LenOk len r o ->
  exists lf, bs = lf ++ r /\ o = off + lenN lf /\ lf <> [].
Proof.
  intros H. destruct bs as [|b bs]; [discriminate|].
  destruct (b <? 128) eqn:Eb.
  - rewrite read_len_short in H by lia.
    destruct (maxlen <? b) eqn:Em; [discriminate|]. injection H as E1 E2 E3; subst len r o.
    exists [b]. split; [reflexivity|]. split; [reflexivity|discriminate].
  - rewrite read_len_long in H by lia.
    destruct (8 <? compl8 b) eqn:E8; [discriminate|].
    destruct (takeN (compl8 b) bs) as [[u r']|] eqn:Et; [|discriminate].
    apply takeN_some in Et. destruct Et as [Hsplit Hlu].
    destruct (read_uvarint u) as [v| | |] eqn:Eu; try discriminate.
    destruct (maxlen <? v) eqn:Em; [discriminate|]. injection H as E1 E2 E3; subst len r o bs.
    exists (b :: u). split; [reflexivity|]. split; [|discriminate].
    rewrite lenN_cons, Hlu. lia.
Qed.

Lemma read_len_err_offset maxlen fault strk bs off e o :
  read_len maxlen fault strk bs off = LenErr e o -> off <= o <= off + lenN bs.
Proof.
  intros H. destruct bs as [|b bs].
  - rewrite read_len_nil in H. inversion H; subst. rewrite lenN_nil. lia.
  - rewrite lenN_cons. destruct (b <? 128) eqn:Eb.
    + rewrite read_len_short in H by lia.
      destruct (maxlen <? b) eqn:Em; [|discriminate]. inversion H; subst. lia.
    + rewrite read_len_long in H by lia.
      destruct (8 <? compl8 b) eqn:E8; [inversion H; subst; lia|].
      destruct (takeN (compl8 b) bs) as [[u r']|] eqn:Et; [|inversion H; subst; lia].
      apply takeN_some in Et. destruct Et as [Hsplit Hlu].
      assert (Hle : compl8 b <= lenN bs) by (rewrite Hsplit, lenN_app; lia).
      destruct (read_uvarint u) as [v| | |] eqn:Eu.
      * destruct (maxlen <? v) eqn:Em; [|discriminate]. inversion H; subst. lia.
      * inversion H; subst. lia.
      * inversion H; subst. lia.
      * inversion H; subst. lia.
Qed.

(* ------------------------------------------------------------------ *)
(* C04: step_complete, step_sound, prefix freedom                      *)
(* ------------------------------------------------------------------ *)

Theorem step_complete maxlen fault t piece rest off : accepts maxlen t piece ->
  decode_step maxlen fault (piece ++ rest) off = STok t rest (off + lenN piece).
Proof.
  intros H. destruct H as [k Hk | k n mk img Hf Hl Hwf | k lf len pl Hk Hlf Hpl | k lf len pl Hk Hlf Hpl].
  - cbn [app]. rewrite step_valueless by exact Hk. reflexivity.
  - cbn [app]. rewrite (step_fixed _ _ _ _ _ _ _ Hf).
    rewrite (takeN_app' n img rest Hl). rewrite lenN_cons, Hl. f_equal. lia.
  - destruct (str_kind_facts k Hk) as [H1 [H2 H3]].
    cbn [app]. rewrite step_var by (try exact H1; rewrite Hk; reflexivity).
    rewrite Hk. rewrite <- app_assoc.
    rewrite (read_len_complete maxlen fault true len lf (pl ++ rest) (off + 1) Hlf).
    rewrite (takeN_app' len pl rest Hpl).
    rewrite lenN_cons, lenN_app, Hpl. f_equal. lia.
  - destruct (bytes_kind_facts k Hk) as [H1 [H2 H3]].
    cbn [app]. rewrite step_var by (try exact H1; rewrite Hk; apply orb_true_r).
    rewrite H2. rewrite <- app_assoc.
    rewrite (read_len_complete maxlen fault false len lf (pl ++ rest) (off + 1) Hlf).
    rewrite (takeN_app' len pl rest Hpl).
    rewrite lenN_cons, lenN_app, Hpl. f_equal. lia.
Qed.

Theorem step_sound maxlen fault bs off t rest off' : wf_bytes bs ->
  decode_step maxlen fault bs off = STok t rest off' ->
  exists piece, bs = piece ++ rest /\ off' = off + lenN piece /\ accepts maxlen t piece.
Proof.
  intros Hwf H. destruct bs as [|k r].
  - rewrite step_nil in H. destruct fault; discriminate.
  - apply Forall_cons_iff in Hwf; destruct Hwf as [Hk Hr].
    destruct (fixed_kind k) as [[n mk]|] eqn:Ef.
    + rewrite (step_fixed _ _ _ _ _ _ _ Ef) in H.
      destruct (takeN n r) as [[img r']|] eqn:Et; [|discriminate].
      apply takeN_some in Et. destruct Et as [Hsplit Hl]. inversion H; subst.
      apply wf_bytes_app in Hr. destruct Hr as [Hwi Hwr].
      exists (k :: img). split; [reflexivity|]. split.
      * rewrite lenN_cons. lia.
      * eapply acc_fixed; [exact Ef | reflexivity | exact Hwi].
    + destruct (is_str_kind k || is_bytes_kind k) eqn:Esb.
      * rewrite step_var in H by assumption.
        destruct (read_len maxlen fault (is_str_kind k) r (off + 1)) as [len r' o|e o] eqn:El; [|discriminate].
        apply read_len_sound in El; [|exact Hr]. destruct El as [lf [Hsplit [Ho Hlf]]].
        destruct (takeN len r') as [[pl r'']|] eqn:Et; [|discriminate].
        apply takeN_some in Et. destruct Et as [Hsplit' Hl]. inversion H; subst.
        exists (k :: lf ++ pl). split; [cbn [app]; rewrite <- app_assoc; reflexivity|]. split.
        { rewrite lenN_cons, lenN_app. lia. }
        destruct (is_str_kind k) eqn:Es.
        { apply (acc_str maxlen k lf (lenN pl) pl); [exact Es | exact Hlf | reflexivity]. }
        { cbn [orb] in Esb. apply (acc_bytes maxlen k lf (lenN pl) pl); [exact Esb | exact Hlf | reflexivity]. }
      * destruct (is_valueless_kind k) eqn:Ev.
        { rewrite step_valueless in H by exact Ev. inversion H; subst.
          exists [k]. split; [reflexivity|]. split; [reflexivity|]. apply acc_valueless. exact Ev. }
        { rewrite step_bad in H by assumption. discriminate. }
Qed.

Theorem accepts_prefix_free maxlen t1 t2 p1 p2 r1 r2 :
  accepts maxlen t1 p1 -> accepts maxlen t2 p2 -> p1 ++ r1 = p2 ++ r2 -> p1 = p2 /\ t1 = t2.
Proof.
  intros H1 H2 Heq.
  pose proof (step_complete maxlen false t1 p1 r1 0 H1) as S1.
  pose proof (step_complete maxlen false t2 p2 r2 0 H2) as S2.
  rewrite Heq in S1. rewrite S1 in S2. inversion S2; subst.
  split; [|reflexivity]. apply app_inv_tail in Heq. exact Heq.
Qed.
