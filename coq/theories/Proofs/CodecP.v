(* Proofs/CodecP.v — the token codec: round trip (C02), wire layout (C03),
   accepted language / totality / offsets (C04), injected faults (C15). *)
From Coq Require Import List NArith ZArith Bool Lia ZifyBool ZifyNat ZifyN.
From SbModel Require Import Base.Bytes Base.Tokens Model.Codec Spec.WireGrammar Spec.DecodeGrammar.
From SbModel Require Import Proofs.BytesP.
Import ListNotations.
Local Open Scope N_scope.

(* ------------------------------------------------------------------ *)
(* lists, lengths, takeN                                               *)
(* ------------------------------------------------------------------ *)

Lemma lenN_nil : lenN [] = 0.
Proof. reflexivity. Qed.

Lemma lenN_cons b l : lenN (b :: l) = 1 + lenN l.
Proof. unfold lenN. cbn [length]. lia. Qed.

Lemma lenN_app a b : lenN (a ++ b) = lenN a + lenN b.
Proof. unfold lenN. rewrite app_length. lia. Qed.

Lemma firstn_length_app (a r : bytes) : firstn (length a) (a ++ r) = a.
Proof.
  induction a as [|x a IH]; cbn [length firstn app].
  - destruct r; reflexivity.
  - rewrite IH. reflexivity.
Qed.

Lemma skipn_length_app (a r : bytes) : skipn (length a) (a ++ r) = r.
Proof.
  induction a as [|x a IH]; cbn [length skipn app].
  - reflexivity.
  - exact IH.
Qed.

Lemma takeN_app a r : takeN (lenN a) (a ++ r) = Some (a, r).
Proof.
  unfold takeN. rewrite lenN_app.
  assert (E : (lenN a <=? lenN a + lenN r) = true) by lia.
  rewrite E. unfold firstn_N, skipn_N, lenN. rewrite Nat2N.id.
  rewrite firstn_length_app, skipn_length_app. reflexivity.
Qed.

Lemma takeN_app' n a r : lenN a = n -> takeN n (a ++ r) = Some (a, r).
Proof. intros <-. apply takeN_app. Qed.

Lemma takeN_some n bs p r : takeN n bs = Some (p, r) -> bs = p ++ r /\ lenN p = n.
Proof.
  unfold takeN. destruct (n <=? lenN bs) eqn:E; [|discriminate].
  intros H. inversion H; subst. unfold firstn_N, skipn_N. split.
  - symmetry. apply firstn_skipn.
  - unfold lenN in *. rewrite firstn_length_le by lia. lia.
Qed.

Lemma takeN_none n bs : takeN n bs = None -> lenN bs < n.
Proof.
  unfold takeN. destruct (n <=? lenN bs) eqn:E; [discriminate|]. intros _. lia.
Qed.

Lemma takeN_short n bs : lenN bs < n -> takeN n bs = None.
Proof.
  intros H. unfold takeN. assert (E : (n <=? lenN bs) = false) by lia. rewrite E. reflexivity.
Qed.

Lemma wf_bytes_app a b : wf_bytes (a ++ b) <-> wf_bytes a /\ wf_bytes b.
Proof. unfold wf_bytes. apply Forall_app. Qed.

Lemma wf_bytesb_true s : wf_bytesb s = true -> wf_bytes s.
Proof.
  unfold wf_bytesb, wf_bytes. intros H. apply Forall_forall. intros x Hx.
  rewrite forallb_forall in H. specialize (H x Hx). unfold wf_byteb in H. unfold wf_byte. lia.
Qed.

Lemma firstn_app_short (n : nat) (a b : bytes) : (n <= length a)%nat -> firstn n (a ++ b) = firstn n a.
Proof.
  intros H. rewrite firstn_app. replace (n - length a)%nat with 0%nat by lia.
  cbn [firstn]. apply app_nil_r.
Qed.

Lemma firstn_app_long (n : nat) (a b : bytes) : (length a <= n)%nat ->
  firstn n (a ++ b) = a ++ firstn (n - length a) b.
Proof.
  intros H. rewrite firstn_app. rewrite firstn_all2 by exact H. reflexivity.
Qed.

Lemma lenN_firstn (n : nat) (a : bytes) : (n <= length a)%nat -> lenN (firstn n a) = N.of_nat n.
Proof. intros H. unfold lenN. rewrite firstn_length_le by exact H. reflexivity. Qed.

(* ------------------------------------------------------------------ *)
(* the kind tables                                                     *)
(* ------------------------------------------------------------------ *)

Lemma existsb_eqb_In k l : existsb (N.eqb k) l = true -> In k l.
Proof.
  intros H. apply existsb_exists in H. destruct H as [x [Hin Heq]].
  apply N.eqb_eq in Heq. subst x. exact Hin.
Qed.

Ltac each_kind H :=
  cbn [In] in H;
  repeat (destruct H as [H|H]; [subst; vm_compute; auto|]);
  try contradiction.

Lemma valueless_facts k : is_valueless_kind k = true ->
  fixed_kind k = None /\ is_str_kind k = false /\ is_bytes_kind k = false.
Proof.
  intros H. unfold is_valueless_kind in H. apply existsb_eqb_In in H. each_kind H.
Qed.

Lemma str_kind_In k : is_str_kind k = true -> In k [KString; KTypeName; KLiteral].
Proof.
  unfold is_str_kind. intros H.
  apply orb_true_iff in H. destruct H as [H|H].
  - apply orb_true_iff in H. destruct H as [H|H]; apply N.eqb_eq in H; subst; cbn [In]; auto.
  - apply N.eqb_eq in H. subst. cbn [In]. auto.
Qed.

Lemma bytes_kind_In k : is_bytes_kind k = true -> In k [KBytes; KRef].
Proof.
  unfold is_bytes_kind. intros H.
  apply orb_true_iff in H. destruct H as [H|H]; apply N.eqb_eq in H; subst; cbn [In]; auto.
Qed.

Lemma str_kind_facts k : is_str_kind k = true ->
  fixed_kind k = None /\ is_bytes_kind k = false /\ is_valueless_kind k = false.
Proof. intros H. apply str_kind_In in H. each_kind H. Qed.

Lemma bytes_kind_facts k : is_bytes_kind k = true ->
  fixed_kind k = None /\ is_str_kind k = false /\ is_valueless_kind k = false.
Proof. intros H. apply bytes_kind_In in H. each_kind H. Qed.

(* ------------------------------------------------------------------ *)
(* one-step equations for decode_step and read_len                     *)
(* ------------------------------------------------------------------ *)

Lemma step_nil maxlen fault off :
  decode_step maxlen fault [] off = if fault then SErr EFault off else SEnd.
Proof. reflexivity. Qed.

Lemma step_fixed maxlen fault k r off n mk : fixed_kind k = Some (n, mk) ->
  decode_step maxlen fault (k :: r) off =
  match takeN n r with
  | Some (img, r') => STok (T k (mk (le_val img))) r' (off + 1 + n)
  | None => SErr (end_err fault) (off + 1)
  end.
Proof. intros H. unfold decode_step. cbv zeta. rewrite H. reflexivity. Qed.

Lemma step_var maxlen fault k r off : fixed_kind k = None ->
  is_str_kind k || is_bytes_kind k = true ->
  decode_step maxlen fault (k :: r) off =
  match read_len maxlen fault (is_str_kind k) r (off + 1) with
  | LenErr e o => SErr e o
  | LenOk len r' o =>
      match takeN len r' with
      | Some (pl, r'') => STok (T k (if is_str_kind k then VStr pl else VBytes pl)) r'' (o + len)
      | None => SErr (end_err fault) o
      end
  end.
Proof. intros H1 H2. unfold decode_step. cbv zeta. rewrite H1, H2. reflexivity. Qed.

Lemma step_valueless maxlen fault k r off : is_valueless_kind k = true ->
  decode_step maxlen fault (k :: r) off = STok (T k VNone) r (off + 1).
Proof.
  intros H. destruct (valueless_facts k H) as [H1 [H2 H3]].
  unfold decode_step. cbv zeta. rewrite H1, H2, H3, H. reflexivity.
Qed.

Lemma step_bad maxlen fault k r off : fixed_kind k = None ->
  is_str_kind k || is_bytes_kind k = false -> is_valueless_kind k = false ->
  decode_step maxlen fault (k :: r) off = SErr EBadKind (off + 1).
Proof. intros H1 H2 H3. unfold decode_step. cbv zeta. rewrite H1, H2, H3. reflexivity. Qed.

Definition toolong (strk : bool) : eclass := if strk then EStrTooLong else EBytesTooLong.

Lemma read_len_nil maxlen fault strk off :
  read_len maxlen fault strk [] off = LenErr (end_err fault) off.
Proof. reflexivity. Qed.

Lemma read_len_short maxlen fault strk b r off : b < 128 ->
  read_len maxlen fault strk (b :: r) off =
  if maxlen <? b then LenErr (toolong strk) (off + 1) else LenOk b r (off + 1).
Proof.
  intros H. unfold read_len. cbv zeta. assert (E : (b <? 128) = true) by lia. rewrite E. reflexivity.
Qed.

Lemma read_len_long maxlen fault strk b r off : 128 <= b ->
  read_len maxlen fault strk (b :: r) off =
  if 8 <? compl8 b then LenErr (toolong strk) (off + 1)
  else match takeN (compl8 b) r with
       | None => LenErr (end_err fault) (off + 1)
       | Some (u, r') =>
           match read_uvarint u with
           | UvOk len => if maxlen <? len then LenErr (toolong strk) (off + 1 + compl8 b)
                         else LenOk len r' (off + 1 + compl8 b)
           | _ => LenErr EEnd (off + 1 + compl8 b)
           end
       end.
Proof.
  intros H. unfold read_len. cbv zeta. assert (E : (b <? 128) = false) by lia. rewrite E. reflexivity.
Qed.

(* ------------------------------------------------------------------ *)
(* uv_parse versus read_uvarint and put_uvarint                        *)
(* ------------------------------------------------------------------ *)

Lemma uv_parse_bound u v : uv_parse u v -> wf_bytes u -> v < 128 ^ N.of_nat (length u).
Proof.
  intros Hp. induction Hp as [b junk Hb | b r v Hb Hr IH]; intros Hwf; cbn [length]; rewrite pow128_succ.
  - pose proof (pow128_pos (length junk)) as HP. remember (128 ^ N.of_nat (length junk)) as P. lia.
  - apply Forall_cons_iff in Hwf; destruct Hwf as [Hb' Hr']. specialize (IH Hr'). unfold wf_byte in Hb'.
    remember (128 ^ N.of_nat (length r)) as P. lia.
Qed.

Lemma read_uv_parse u v : uv_parse u v -> forall fr i x s,
  (length u <= fr)%nat -> (i + length u <= 9)%nat ->
  read_uvarint_f fr i x s u = UvOk ((x + v * 2 ^ s) mod 2 ^ 64).
Proof.
  intros Hp. induction Hp as [b junk Hb | b r v Hb Hr IH]; intros fr i x s Hfr Hi; cbn [length] in *.
  - destruct fr as [|fr]; [lia|]. cbn [read_uvarint_f].
    assert (E : (b <? 128) = true) by lia. rewrite E.
    assert (E9 : Nat.eqb i 9 = false) by (apply Nat.eqb_neq; lia).
    rewrite E9. cbn [andb]. reflexivity.
  - destruct fr as [|fr]; [lia|]. cbn [read_uvarint_f].
    assert (E : (b <? 128) = false) by lia. rewrite E.
    rewrite IH by lia. f_equal. f_equal.
    rewrite N.pow_add_r. change (2 ^ 7) with 128.
    remember (2 ^ s) as P. remember (b - 128) as c. ring.
Qed.

Lemma read_uv_parse_inv fr : forall u i x s res,
  read_uvarint_f fr i x s u = UvOk res ->
  exists v, uv_parse u v /\ res = (x + v * 2 ^ s) mod 2 ^ 64.
Proof.
  induction fr as [|fr IH]; intros u i x s res H; cbn [read_uvarint_f] in H.
  - discriminate.
  - destruct u as [|b r].
    + destruct i; discriminate.
    + destruct (b <? 128) eqn:E.
      * destruct (Nat.eqb i 9 && (1 <? b)) eqn:E9; [discriminate|].
        inversion H; subst. exists b. split; [apply uvp_last; lia | reflexivity].
      * apply IH in H. destruct H as [v [Hv Hres]].
        exists ((b - 128) + 128 * v). split; [apply uvp_more; [lia | exact Hv]|].
        rewrite Hres. f_equal.
        rewrite N.pow_add_r. change (2 ^ 7) with 128.
        remember (2 ^ s) as P. remember (b - 128) as c. ring.
Qed.

Lemma pow128_le_64 (k : nat) : (k <= 8)%nat -> 128 ^ N.of_nat k < 2 ^ 64.
Proof.
  intros Hk. apply N.le_lt_trans with (128 ^ N.of_nat 8).
  - apply N.pow_le_mono_r; [discriminate | lia].
  - vm_compute. reflexivity.
Qed.

Lemma read_uvarint_parse u v : wf_bytes u -> (length u <= 8)%nat -> uv_parse u v ->
  read_uvarint u = UvOk v.
Proof.
  intros Hwf Hlen Hp. unfold read_uvarint.
  rewrite (read_uv_parse u v Hp) by lia.
  rewrite N.pow_0_r, N.mul_1_r, N.add_0_l. f_equal.
  apply N.mod_small.
  pose proof (uv_parse_bound u v Hp Hwf). pose proof (pow128_le_64 (length u) Hlen). lia.
Qed.

Lemma read_uvarint_parse_inv u res : wf_bytes u -> (length u <= 8)%nat ->
  read_uvarint u = UvOk res -> uv_parse u res.
Proof.
  intros Hwf Hlen H. unfold read_uvarint in H.
  apply read_uv_parse_inv in H. destruct H as [v [Hv Hres]].
  rewrite N.pow_0_r, N.mul_1_r, N.add_0_l in Hres.
  rewrite N.mod_small in Hres.
  - subst. exact Hv.
  - pose proof (uv_parse_bound u v Hv Hwf). pose proof (pow128_le_64 (length u) Hlen). lia.
Qed.

Lemma uvp_more' b r v n : 128 <= b -> uv_parse r v -> n = (b - 128) + 128 * v -> uv_parse (b :: r) n.
Proof. intros Hb Hr ->. apply uvp_more; assumption. Qed.

Lemma uv_parse_put_f fp n : n < 128 ^ N.of_nat (S fp) -> uv_parse (put_uvarint_f fp n) n.
Proof.
  revert n. induction fp as [|f IH]; intros n Hn; cbn [put_uvarint_f].
  - change (128 ^ N.of_nat 1) with 128 in Hn. rewrite N.mod_small by exact Hn.
    apply uvp_last. exact Hn.
  - destruct (n <? 128) eqn:E.
    + apply uvp_last. lia.
    + rewrite pow128_succ in Hn. apply div128_lt in Hn.
      apply (uvp_more' _ _ (n / 128)).
      * lia.
      * apply IH. exact Hn.
      * rewrite N.add_sub. pose proof (divmod128 n). lia.
Qed.

Lemma uv_parse_put n : n < 2 ^ 56 -> uv_parse (put_uvarint n) n.
Proof.
  intros Hn. apply uv_parse_put_f.
  eapply N.lt_trans; [exact Hn|]. vm_compute. reflexivity.
Qed.

(* ------------------------------------------------------------------ *)
(* read_len: completeness and soundness against len_field              *)
(* ------------------------------------------------------------------ *)

Lemma read_len_complete maxlen fault strk len lf r off : len_field maxlen len lf ->
  read_len maxlen fault strk (lf ++ r) off = LenOk len r (off + lenN lf).
Proof.
  intros H. destruct H as [b Hb Hm | l u len Hl Hu Hwf Hp Hm].
  - cbn [app]. rewrite read_len_short by exact Hb.
    assert (E : (maxlen <? b) = false) by lia. rewrite E. reflexivity.
  - cbn [app]. rewrite read_len_long by lia.
    assert (Ec : compl8 (255 - l) = l) by (unfold compl8; lia). rewrite Ec.
    assert (E8 : (8 <? l) = false) by lia. rewrite E8.
    rewrite (takeN_app' l u r Hu).
    assert (Hlen : (length u <= 8)%nat) by (unfold lenN in Hu; lia).
    rewrite (read_uvarint_parse u len Hwf Hlen Hp).
    assert (E : (maxlen <? len) = false) by lia. rewrite E.
    rewrite lenN_cons, Hu. f_equal. lia.
Qed.

Lemma read_len_sound maxlen fault strk bs off len r o : wf_bytes bs ->
  read_len maxlen fault strk bs off = LenOk len r o ->
  exists lf, bs = lf ++ r /\ o = off + lenN lf /\ len_field maxlen len lf.
Proof.
  intros Hwf H. destruct bs as [|b bs]; [discriminate|].
  apply Forall_cons_iff in Hwf; destruct Hwf as [Hb Hbs]. unfold wf_byte in Hb.
  destruct (b <? 128) eqn:Eb.
  - rewrite read_len_short in H by lia.
    destruct (maxlen <? b) eqn:Em; [discriminate|]. injection H as E1 E2 E3; subst len r o.
    exists [b]. split; [reflexivity|]. split; [reflexivity|]. apply lf_short; lia.
  - rewrite read_len_long in H by lia.
    destruct (8 <? compl8 b) eqn:E8; [discriminate|].
    destruct (takeN (compl8 b) bs) as [[u r']|] eqn:Et; [|discriminate].
    apply takeN_some in Et. destruct Et as [Hsplit Hlu].
    destruct (read_uvarint u) as [v| | |] eqn:Eu; try discriminate.
    destruct (maxlen <? v) eqn:Em; [discriminate|]. injection H as E1 E2 E3; subst len r o bs.
    apply wf_bytes_app in Hbs. destruct Hbs as [Hwu Hwr].
    assert (Hlen : (length u <= 8)%nat) by (unfold lenN in Hlu; lia).
    exists (b :: u). split; [reflexivity|]. split.
    + rewrite lenN_cons, Hlu. lia.
    + replace b with (255 - compl8 b) at 1 by (unfold compl8; lia).
      apply lf_long; try assumption; try lia.
      apply read_uvarint_parse_inv; assumption.
Qed.

(* structure only, no well-formedness needed *)
Lemma read_len_struct maxlen fault strk bs off len r o :
  read_len maxlen fault strk bs off = LenOk len r o ->
  exists lf, bs = lf ++ r /\ o = off + lenN lf /\ lf <> [].
Proof.
  intros H. destruct bs as [|b bs]; [discriminate|].
  destruct (b <? 128) eqn:Eb.
  - rewrite read_len_short in H by lia.
    destruct (maxlen <? b) eqn:Em; [discriminate|]. injection H as E1 E2 E3; subst len r o.
    exists [b]. split; [reflexivity|]. split; [reflexivity|discriminate].
  - rewrite read_len_long in H by lia.
    destruct (8 <? compl8 b) eqn:E8; [discriminate|].
    destruct (takeN (compl8 b) bs) as [[u r']|] eqn:Et; [|discriminate].
    apply takeN_some in Et. destruct Et as [Hsplit Hlu].
    destruct (read_uvarint u) as [v| | |] eqn:Eu; try discriminate.
    destruct (maxlen <? v) eqn:Em; [discriminate|]. injection H as E1 E2 E3; subst len r o bs.
    exists (b :: u). split; [reflexivity|]. split; [|discriminate].
    rewrite lenN_cons, Hlu. lia.
Qed.

Lemma read_len_err_offset maxlen fault strk bs off e o :
  read_len maxlen fault strk bs off = LenErr e o -> off <= o <= off + lenN bs.
Proof.
  intros H. destruct bs as [|b bs].
  - rewrite read_len_nil in H. inversion H; subst. rewrite lenN_nil. lia.
  - rewrite lenN_cons. destruct (b <? 128) eqn:Eb.
    + rewrite read_len_short in H by lia.
      destruct (maxlen <? b) eqn:Em; [|discriminate]. inversion H; subst. lia.
    + rewrite read_len_long in H by lia.
      destruct (8 <? compl8 b) eqn:E8; [inversion H; subst; lia|].
      destruct (takeN (compl8 b) bs) as [[u r']|] eqn:Et; [|inversion H; subst; lia].
      apply takeN_some in Et. destruct Et as [Hsplit Hlu].
      assert (Hle : compl8 b <= lenN bs) by (rewrite Hsplit, lenN_app; lia).
      destruct (read_uvarint u) as [v| | |] eqn:Eu.
      * destruct (maxlen <? v) eqn:Em; [|discriminate]. inversion H; subst. lia.
      * inversion H; subst. lia.
      * inversion H; subst. lia.
      * inversion H; subst. lia.
Qed.

(* ------------------------------------------------------------------ *)
(* C04: step_complete, step_sound, prefix freedom                      *)
(* ------------------------------------------------------------------ *)

Theorem step_complete maxlen fault t piece rest off : accepts maxlen t piece ->
  decode_step maxlen fault (piece ++ rest) off = STok t rest (off + lenN piece).
Proof.
  intros H. destruct H as [k Hk | k n mk img Hf Hl Hwf | k lf len pl Hk Hlf Hpl | k lf len pl Hk Hlf Hpl].
  - cbn [app]. rewrite step_valueless by exact Hk. reflexivity.
  - cbn [app]. rewrite (step_fixed _ _ _ _ _ _ _ Hf).
    rewrite (takeN_app' n img rest Hl). rewrite lenN_cons, Hl. f_equal. lia.
  - destruct (str_kind_facts k Hk) as [H1 [H2 H3]].
    cbn [app]. rewrite step_var by (try exact H1; rewrite Hk; reflexivity).
    rewrite Hk. rewrite <- app_assoc.
    rewrite (read_len_complete maxlen fault true len lf (pl ++ rest) (off + 1) Hlf).
    rewrite (takeN_app' len pl rest Hpl).
    rewrite lenN_cons, lenN_app, Hpl. f_equal. lia.
  - destruct (bytes_kind_facts k Hk) as [H1 [H2 H3]].
    cbn [app]. rewrite step_var by (try exact H1; rewrite Hk; apply orb_true_r).
    rewrite H2. rewrite <- app_assoc.
    rewrite (read_len_complete maxlen fault false len lf (pl ++ rest) (off + 1) Hlf).
    rewrite (takeN_app' len pl rest Hpl).
    rewrite lenN_cons, lenN_app, Hpl. f_equal. lia.
Qed.

Theorem step_sound maxlen fault bs off t rest off' : wf_bytes bs ->
  decode_step maxlen fault bs off = STok t rest off' ->
  exists piece, bs = piece ++ rest /\ off' = off + lenN piece /\ accepts maxlen t piece.
Proof.
  intros Hwf H. destruct bs as [|k r].
  - rewrite step_nil in H. destruct fault; discriminate.
  - apply Forall_cons_iff in Hwf; destruct Hwf as [Hk Hr].
    destruct (fixed_kind k) as [[n mk]|] eqn:Ef.
    + rewrite (step_fixed _ _ _ _ _ _ _ Ef) in H.
      destruct (takeN n r) as [[img r']|] eqn:Et; [|discriminate].
      apply takeN_some in Et. destruct Et as [Hsplit Hl]. inversion H; subst.
      apply wf_bytes_app in Hr. destruct Hr as [Hwi Hwr].
      exists (k :: img). split; [reflexivity|]. split.
      * rewrite lenN_cons. lia.
      * eapply acc_fixed; [exact Ef | reflexivity | exact Hwi].
    + destruct (is_str_kind k || is_bytes_kind k) eqn:Esb.
      * rewrite step_var in H by assumption.
        destruct (read_len maxlen fault (is_str_kind k) r (off + 1)) as [len r' o|e o] eqn:El; [|discriminate].
        apply read_len_sound in El; [|exact Hr]. destruct El as [lf [Hsplit [Ho Hlf]]].
        destruct (takeN len r') as [[pl r'']|] eqn:Et; [|discriminate].
        apply takeN_some in Et. destruct Et as [Hsplit' Hl]. inversion H; subst.
        exists (k :: lf ++ pl). split; [cbn [app]; rewrite <- app_assoc; reflexivity|]. split.
        { rewrite lenN_cons, lenN_app. lia. }
        destruct (is_str_kind k) eqn:Es.
        { apply (acc_str maxlen k lf (lenN pl) pl); [exact Es | exact Hlf | reflexivity]. }
        { cbn [orb] in Esb. apply (acc_bytes maxlen k lf (lenN pl) pl); [exact Esb | exact Hlf | reflexivity]. }
      * destruct (is_valueless_kind k) eqn:Ev.
        { rewrite step_valueless in H by exact Ev. inversion H; subst.
          exists [k]. split; [reflexivity|]. split; [reflexivity|]. apply acc_valueless. exact Ev. }
        { rewrite step_bad in H by assumption. discriminate. }
Qed.

Theorem accepts_prefix_free maxlen t1 t2 p1 p2 r1 r2 :
  accepts maxlen t1 p1 -> accepts maxlen t2 p2 -> p1 ++ r1 = p2 ++ r2 -> p1 = p2 /\ t1 = t2.
Proof.
  intros H1 H2 Heq.
  pose proof (step_complete maxlen false t1 p1 r1 0 H1) as S1.
  pose proof (step_complete maxlen false t2 p2 r2 0 H2) as S2.
  rewrite Heq in S1. rewrite S1 in S2. inversion S2; subst.
  split; [|reflexivity]. apply app_inv_tail in Heq. exact Heq.
Qed.

(* structure of a successful step, without well-formedness *)
Lemma step_struct maxlen fault bs off t rest off' :
  decode_step maxlen fault bs off = STok t rest off' ->
  exists piece, bs = piece ++ rest /\ piece <> [] /\ off' = off + lenN piece.
Proof.
  intros H. destruct bs as [|k r].
  - rewrite step_nil in H. destruct fault; discriminate.
  - destruct (fixed_kind k) as [[n mk]|] eqn:Ef.
    + rewrite (step_fixed _ _ _ _ _ _ _ Ef) in H.
      destruct (takeN n r) as [[img r']|] eqn:Et; [|discriminate].
      apply takeN_some in Et. destruct Et as [Hsplit Hl].
      injection H as E1 E2 E3. subst t rest off' r.
      exists (k :: img). split; [reflexivity|]. split; [discriminate|].
      rewrite lenN_cons. lia.
    + destruct (is_str_kind k || is_bytes_kind k) eqn:Esb.
      * rewrite step_var in H by assumption.
        destruct (read_len maxlen fault (is_str_kind k) r (off + 1)) as [len r' o|e o] eqn:El; [|discriminate].
        apply read_len_struct in El. destruct El as [lf [Hsplit [Ho Hlf]]].
        destruct (takeN len r') as [[pl r'']|] eqn:Et; [|discriminate].
        apply takeN_some in Et. destruct Et as [Hsplit' Hl].
        injection H as E1 E2 E3. subst t rest off' r r' o.
        exists (k :: lf ++ pl). split; [cbn [app]; rewrite <- app_assoc; reflexivity|].
        split; [discriminate|]. rewrite lenN_cons, lenN_app. lia.
      * destruct (is_valueless_kind k) eqn:Ev.
        { rewrite step_valueless in H by exact Ev. injection H as E1 E2 E3. subst t rest off'.
          exists [k]. split; [reflexivity|]. split; [discriminate|]. reflexivity. }
        { rewrite step_bad in H by assumption. discriminate. }
Qed.

Lemma step_shrinks maxlen fault bs off t rest off' :
  decode_step maxlen fault bs off = STok t rest off' -> (length rest < length bs)%nat.
Proof.
  intros H. apply step_struct in H. destruct H as [piece [Hs [Hne _]]]. subst bs.
  rewrite app_length. destruct piece as [|x p]; [congruence|]. cbn [length]. lia.
Qed.

Lemma step_end_inv maxlen fault bs off :
  decode_step maxlen fault bs off = SEnd -> bs = [] /\ fault = false.
Proof.
  intros H. destruct bs as [|k r].
  - rewrite step_nil in H. destruct fault; [discriminate|]. split; reflexivity.
  - exfalso. destruct (fixed_kind k) as [[n mk]|] eqn:Ef.
    + rewrite (step_fixed _ _ _ _ _ _ _ Ef) in H.
      destruct (takeN n r) as [[img r']|]; discriminate.
    + destruct (is_str_kind k || is_bytes_kind k) eqn:Esb.
      * rewrite step_var in H by assumption.
        destruct (read_len maxlen fault (is_str_kind k) r (off + 1)) as [len r' o|e o]; [|discriminate].
        destruct (takeN len r') as [[pl r'']|]; discriminate.
      * destruct (is_valueless_kind k) eqn:Ev.
        { rewrite step_valueless in H by exact Ev. discriminate. }
        { rewrite step_bad in H by assumption. discriminate. }
Qed.

Theorem step_err_offset maxlen fault bs off e o :
  decode_step maxlen fault bs off = SErr e o -> off <= o <= off + lenN bs.
Proof.
  intros H. destruct bs as [|k r].
  - rewrite step_nil in H. destruct fault; [|discriminate].
    injection H as E1 E2. subst. rewrite lenN_nil. lia.
  - rewrite lenN_cons. destruct (fixed_kind k) as [[n mk]|] eqn:Ef.
    + rewrite (step_fixed _ _ _ _ _ _ _ Ef) in H.
      destruct (takeN n r) as [[img r']|]; [discriminate|].
      injection H as E1 E2. subst. lia.
    + destruct (is_str_kind k || is_bytes_kind k) eqn:Esb.
      * rewrite step_var in H by assumption.
        destruct (read_len maxlen fault (is_str_kind k) r (off + 1)) as [len r' o1|e1 o1] eqn:El.
        { apply read_len_struct in El. destruct El as [lf [Hsplit [Ho Hlf]]].
          destruct (takeN len r') as [[pl r'']|]; [discriminate|].
          injection H as E1 E2. subst. rewrite lenN_app. lia. }
        { apply read_len_err_offset in El. injection H as E1 E2. subst. lia. }
      * destruct (is_valueless_kind k) eqn:Ev.
        { rewrite step_valueless in H by exact Ev. discriminate. }
        { rewrite step_bad in H by assumption. injection H as E1 E2. subst. lia. }
Qed.

(* ------------------------------------------------------------------ *)
(* fuel                                                                *)
(* ------------------------------------------------------------------ *)

Lemma decode_all_fuel maxlen fault f1 : forall f2 bs off,
  (length bs < f1)%nat -> (length bs < f2)%nat ->
  decode_all f1 maxlen fault bs off = decode_all f2 maxlen fault bs off.
Proof.
  induction f1 as [|f1 IH]; intros f2 bs off H1 H2; [lia|].
  destruct f2 as [|f2]; [lia|]. cbn [decode_all].
  destruct (decode_step maxlen fault bs off) as [|t r o|e o] eqn:Es; try reflexivity.
  apply step_shrinks in Es. rewrite (IH f2 r o) by lia. reflexivity.
Qed.

Lemma decode_all_no_fuel maxlen fault f : forall bs off,
  (length bs < f)%nat -> snd (decode_all f maxlen fault bs off) <> DOutOfFuel.
Proof.
  induction f as [|f IH]; intros bs off Hf; [lia|]. cbn [decode_all].
  destruct (decode_step maxlen fault bs off) as [|t r o|e o] eqn:Es; cbn [snd]; try discriminate.
  apply step_shrinks in Es. specialize (IH r o).
  destruct (decode_all f maxlen fault r o) as [ts d]. cbn [snd] in *. apply IH. lia.
Qed.

Theorem decode_total maxlen fault bs off :
  snd (decode_all (S (length bs)) maxlen fault bs off) <> DOutOfFuel.
Proof. apply decode_all_no_fuel. lia. Qed.

(* ------------------------------------------------------------------ *)
(* C02: the encoder's output is accepted; round trip                   *)
(* ------------------------------------------------------------------ *)

Lemma acc_fixed' maxlen k n mk img v : fixed_kind k = Some (n, mk) -> lenN img = n -> wf_bytes img ->
  v = mk (le_val img) -> accepts maxlen (T k v) (k :: img).
Proof. intros Hf Hl Hwf ->. eapply acc_fixed; eassumption. Qed.

Definition ikind (w : width) : N :=
  match w with WNat => KInt | W8 => KInt8 | W16 => KInt16 | W32 => KInt32 | W64 => KInt64 end.
Definition ukind (w : width) : N :=
  match w with WNat => KUint | W8 => KUint8 | W16 => KUint16 | W32 => KUint32 | W64 => KUint64 end.

Lemma fixed_ikind w :
  fixed_kind (ikind w) = Some (N.of_nat (wbytes w), fun n => VI w (untwos (wbytes w) n)).
Proof. destruct w; reflexivity. Qed.

Lemma fixed_ukind w : fixed_kind (ukind w) = Some (N.of_nat (wbytes w), fun n => VU w n).
Proof. destruct w; reflexivity. Qed.

Lemma shape_VI k w z : kind_shape k (VI w z) = true -> k = ikind w.
Proof. destruct w; cbn [kind_shape ikind]; intros H; apply N.eqb_eq in H; exact H. Qed.

Lemma shape_VU k w n : kind_shape k (VU w n) = true -> k = ukind w.
Proof. destruct w; cbn [kind_shape ukind]; intros H; apply N.eqb_eq in H; exact H. Qed.

Lemma wbytes_pos w : (0 < wbytes w)%nat.
Proof. destruct w; cbn [wbytes]; lia. Qed.

Lemma uint_roundtrip w n : n < 2 ^ (8 * N.of_nat w) -> le_val (le_bytes w n) = n.
Proof. intros H. rewrite le_val_le_bytes. apply N.mod_small. exact H. Qed.

Lemma int_roundtrip w z : in_irange w z = true ->
  untwos (wbytes w) (le_val (le_bytes (wbytes w) (twos (wbytes w) z))) = z.
Proof.
  intros H. pose proof (wbytes_pos w) as Hw.
  rewrite uint_roundtrip by (apply twos_bound; exact Hw).
  apply untwos_twos; [exact Hw|].
  unfold in_irange in H. apply andb_true_iff in H. destruct H as [H1 H2].
  apply Z.leb_le in H1. apply Z.ltb_lt in H2. split; assumption.
Qed.

Lemma len_prefix_field maxlen l : l <= maxlen -> l < 2 ^ 56 -> len_field maxlen l (len_prefix l).
Proof.
  intros Hm Hl. unfold len_prefix. destruct (l <? 128) eqn:E.
  - apply lf_short; lia.
  - cbv zeta. unfold compl8.
    pose proof (put_uvarint_len l Hl) as Hlen.
    apply lf_long.
    + unfold lenN. lia.
    + reflexivity.
    + apply put_uvarint_wf.
    + apply uv_parse_put. exact Hl.
    + exact Hm.
Qed.

Theorem encode_accepts maxlen t : wf_enc maxlen t -> accepts maxlen t (encode_token t).
Proof.
  destruct t as [k v]. unfold wf_enc, wf_token, encode_token. cbn [kind val].
  intros [Hwf Hlen]. apply andb_true_iff in Hwf. destruct Hwf as [Hshape Hval].
  destruct v as [|b|w z|w n|n|n|n|s|s]; cbn [enc_val].
  - apply acc_valueless. exact Hshape.
  - cbn [kind_shape] in Hshape. apply N.eqb_eq in Hshape. subst k.
    apply (acc_fixed' maxlen KBool 1 (fun n => VBool (0 <? n))).
    + reflexivity.
    + reflexivity.
    + constructor; [|constructor]. unfold wf_byte. destruct b; lia.
    + destruct b; reflexivity.
  - apply shape_VI in Hshape. subst k.
    apply (acc_fixed' maxlen _ _ _ _ _ (fixed_ikind w)).
    + apply le_bytes_lenN.
    + apply le_bytes_wf.
    + cbv beta. rewrite int_roundtrip by exact Hval. reflexivity.
  - apply shape_VU in Hshape. subst k.
    apply (acc_fixed' maxlen _ _ _ _ _ (fixed_ukind w)).
    + apply le_bytes_lenN.
    + apply le_bytes_wf.
    + cbv beta. rewrite uint_roundtrip; [reflexivity|].
      cbn [wf_val] in Hval. unfold in_urange in Hval. lia.
  - cbn [kind_shape] in Hshape. apply N.eqb_eq in Hshape. subst k.
    apply (acc_fixed' maxlen KPointer 8 (fun n => VPtr n)).
    + reflexivity.
    + apply (le_bytes_lenN 8).
    + apply le_bytes_wf.
    + cbv beta. rewrite uint_roundtrip; [reflexivity|].
      cbn [wf_val] in Hval. apply N.ltb_lt in Hval. exact Hval.
  - cbn [kind_shape] in Hshape. apply N.eqb_eq in Hshape. subst k.
    apply (acc_fixed' maxlen KFloat32 4 (fun n => VF32 n)).
    + reflexivity.
    + apply (le_bytes_lenN 4).
    + apply le_bytes_wf.
    + cbv beta. rewrite uint_roundtrip; [reflexivity|].
      cbn [wf_val] in Hval. apply N.ltb_lt in Hval. exact Hval.
  - cbn [kind_shape] in Hshape. apply N.eqb_eq in Hshape. subst k.
    apply (acc_fixed' maxlen KFloat64 8 (fun n => VF64 n)).
    + reflexivity.
    + apply (le_bytes_lenN 8).
    + apply le_bytes_wf.
    + cbv beta. rewrite uint_roundtrip; [reflexivity|].
      cbn [wf_val] in Hval. apply N.ltb_lt in Hval. exact Hval.
  - destruct Hlen as [Hm Hl].
    apply (acc_str maxlen k _ (lenN s) s); [exact Hshape | | reflexivity].
    apply len_prefix_field; assumption.
  - destruct Hlen as [Hm Hl].
    apply (acc_bytes maxlen k _ (lenN s) s); [exact Hshape | | reflexivity].
    apply len_prefix_field; assumption.
Qed.

Theorem step_exact maxlen fault t rest off : wf_enc maxlen t ->
  decode_step maxlen fault (encode_token t ++ rest) off = STok t rest (off + lenN (encode_token t)).
Proof. intros H. apply step_complete. apply encode_accepts. exact H. Qed.

Lemma encode_cons t ts : encode (t :: ts) = encode_token t ++ encode ts.
Proof. reflexivity. Qed.

Lemma encode_token_length t : (1 <= length (encode_token t))%nat.
Proof. unfold encode_token. cbn [length]. lia. Qed.

Lemma decode_all_S f maxlen fault bs off :
  decode_all (S f) maxlen fault bs off =
  match decode_step maxlen fault bs off with
  | SEnd => ([], Done)
  | SErr e o => ([], Fail e o)
  | STok t r o => let '(ts, e) := decode_all f maxlen fault r o in (t :: ts, e)
  end.
Proof. reflexivity. Qed.

(* decoding a well-formed encoded prefix, then whatever follows *)
Lemma decode_all_app maxlen fault ts : Forall (wf_enc maxlen) ts -> forall f tail off,
  (length (encode ts ++ tail) < f)%nat ->
  decode_all f maxlen fault (encode ts ++ tail) off =
  let '(ts', r) := decode_all (S (length tail)) maxlen fault tail (off + lenN (encode ts)) in
  (ts ++ ts', r).
Proof.
  intros Hts. induction Hts as [|t ts Ht Hts IH]; intros f tail off Hf.
  - cbn [encode flat_map app] in *. rewrite lenN_nil, N.add_0_r.
    rewrite (decode_all_fuel maxlen fault f (S (length tail)) tail off) by lia.
    destruct (decode_all (S (length tail)) maxlen fault tail off) as [ts' r]. reflexivity.
  - rewrite encode_cons in *. rewrite <- app_assoc in *.
    destruct f as [|f]; [lia|]. rewrite (decode_all_S f).
    rewrite (step_exact maxlen fault t (encode ts ++ tail) off Ht).
    pose proof (encode_token_length t) as Hlt.
    rewrite app_length in Hf.
    rewrite (IH f tail (off + lenN (encode_token t))) by lia.
    rewrite lenN_app, N.add_assoc.
    destruct (decode_all (S (length tail)) maxlen fault tail (off + lenN (encode_token t) + lenN (encode ts))) as [ts' r].
    reflexivity.
Qed.

Theorem decode_encode maxlen ts : Forall (wf_enc maxlen) ts -> decode maxlen (encode ts) = (ts, Done).
Proof.
  intros Hts. unfold decode.
  pose proof (decode_all_app maxlen false ts Hts (S (length (encode ts))) [] 0) as H.
  rewrite app_nil_r in H. rewrite H by lia.
  cbn [length decode_all]. rewrite step_nil. rewrite app_nil_r. reflexivity.
Qed.

Lemma val_len_correct v : val_len v = lenN (enc_val v).
Proof.
  destruct v as [|b|w z|w n|n|n|n|s|s]; cbn [val_len enc_val];
    try reflexivity; try (rewrite le_bytes_lenN; reflexivity).
  - cbv zeta. rewrite lenN_app. unfold len_prefix.
    destruct (lenN s <? 128); [reflexivity|]. cbv zeta. rewrite lenN_cons. reflexivity.
  - cbv zeta. rewrite lenN_app. unfold len_prefix.
    destruct (lenN s <? 128); [reflexivity|]. cbv zeta. rewrite lenN_cons. reflexivity.
Qed.

Lemma encoded_len_fold ts : forall a,
  fold_left (fun acc t => acc + 1 + val_len (val t)) ts a = a + lenN (encode ts).
Proof.
  induction ts as [|t ts IH]; intros a.
  - cbn [fold_left encode flat_map]. rewrite lenN_nil. lia.
  - cbn [fold_left]. rewrite IH, encode_cons, lenN_app. unfold encode_token.
    rewrite lenN_cons, val_len_correct. lia.
Qed.

Theorem encoded_len_correct ts : encoded_len ts = lenN (encode ts).
Proof. unfold encoded_len. rewrite encoded_len_fold. lia. Qed.

Theorem writes_concat t : concat (encode_writes t) = encode_token t.
Proof.
  destruct t as [k v]. unfold encode_writes, encode_token. cbn [kind val concat app].
  f_equal.
  destruct v as [|b|w z|w n|n|n|n|s|s]; cbn [val_writes enc_val concat]; try (rewrite app_nil_r; reflexivity).
  - reflexivity.
  - cbv zeta. unfold len_prefix. destruct (lenN s <? 128); cbv zeta; cbn [concat app];
      rewrite app_nil_r; reflexivity.
  - cbv zeta. unfold len_prefix. destruct (lenN s <? 128); cbv zeta; cbn [concat app];
      rewrite app_nil_r; reflexivity.
Qed.

Theorem stream_writes_concat ts : concat (stream_writes ts) = encode ts.
Proof.
  induction ts as [|t ts IH].
  - reflexivity.
  - unfold stream_writes in *. cbn [flat_map]. rewrite concat_app, IH, writes_concat. reflexivity.
Qed.

(* ------------------------------------------------------------------ *)
(* C03: wire layout                                                    *)
(* ------------------------------------------------------------------ *)

Lemma len_prefix_prefix_of l : l < 2 ^ 64 -> prefix_of l (len_prefix l).
Proof.
  intros Hl. unfold len_prefix. destruct (l <? 128) eqn:E.
  - apply pf_short. lia.
  - cbv zeta. unfold compl8. apply pf_long; [lia|]. apply put_uvarint_spec. exact Hl.
Qed.

Theorem encode_layout t : wf_token t = true ->
  (match val t with VStr s | VBytes s => lenN s < 2 ^ 64 | _ => True end) ->
  layout_token t (encode_token t).
Proof.
  destruct t as [k v]. intros _ Hl. cbn [val] in Hl.
  unfold layout_token, encode_token. cbn [kind val].
  exists (enc_val v). split; [reflexivity|].
  destruct v as [|b|w z|w n|n|n|n|s|s]; cbn [enc_val].
  - apply lv_none.
  - apply lv_bool.
  - apply lv_int. apply (le_bytes_image (wbytes w) (twos (wbytes w) z)).
  - apply lv_uint. apply le_bytes_image.
  - apply lv_ptr. apply le_bytes_image.
  - apply lv_f32. apply le_bytes_image.
  - apply lv_f64. apply le_bytes_image.
  - apply lv_str. apply len_prefix_prefix_of. exact Hl.
  - apply lv_bytes. apply len_prefix_prefix_of. exact Hl.
Qed.

Theorem encode_layout_stream ts :
  Forall (fun t => wf_token t = true /\
                   match val t with VStr s | VBytes s => lenN s < 2 ^ 64 | _ => True end) ts ->
  layout_stream ts (encode ts).
Proof.
  intros H. induction H as [|t ts [Hw Hl] Hts IH].
  - apply ls_nil.
  - rewrite encode_cons. apply ls_cons; [apply encode_layout; assumption | exact IH].
Qed.

Lemma layout_val_unique v b1 b2 : layout_val v b1 -> layout_val v b2 -> b1 = b2.
Proof.
  intros H1 H2.
  destruct H1 as [|b|w z img H1|w n img H1|n img H1|n img H1|n img H1|s p H1|s p H1];
    inversion H2 as [|b'|w' z' img' H2'|w' n' img' H2'|n' img' H2'|n' img' H2'|n' img' H2'|s' p' H2'|s' p' H2']; subst;
    try reflexivity;
    try (eapply le_image_unique; eassumption).
  - f_equal. eapply prefix_of_unique; eassumption.
  - f_equal. eapply prefix_of_unique; eassumption.
Qed.

Theorem layout_token_unique t b1 b2 : layout_token t b1 -> layout_token t b2 -> b1 = b2.
Proof.
  intros [i1 [E1 H1]] [i2 [E2 H2]]. subst. f_equal. eapply layout_val_unique; eassumption.
Qed.

(* ------------------------------------------------------------------ *)
(* C04: exactness of the whole decode                                  *)
(* ------------------------------------------------------------------ *)

Lemma decode_exact_gen maxlen fault f : forall bs off ts r,
  wf_bytes bs -> (length bs < f)%nat -> decode_all f maxlen fault bs off = (ts, r) ->
  exists pieces rest, bs = concat pieces ++ rest /\ Forall2 (accepts maxlen) ts pieces /\
    ((r = Done /\ rest = [] /\ fault = false) \/
     (exists e o, r = Fail e o /\
        decode_step maxlen fault rest (off + lenN (concat pieces)) = SErr e o)).
Proof.
  induction f as [|f IH]; intros bs off ts r Hwf Hf H; [lia|].
  rewrite decode_all_S in H.
  destruct (decode_step maxlen fault bs off) as [|t r1 o1|e o] eqn:Es.
  - apply step_end_inv in Es. destruct Es as [Hbs Hfault].
    injection H as E1 E2. subst ts r bs.
    exists [], []. split; [reflexivity|]. split; [constructor|]. left. auto.
  - pose proof (step_shrinks _ _ _ _ _ _ _ Es) as Hsh.
    apply step_sound in Es; [|exact Hwf]. destruct Es as [piece [Hsplit [Ho Hacc]]].
    destruct (decode_all f maxlen fault r1 o1) as [ts1 d1] eqn:Ed.
    injection H as E1 E2. subst ts r.
    assert (Hwf1 : wf_bytes r1) by (rewrite Hsplit in Hwf; apply wf_bytes_app in Hwf; tauto).
    destruct (IH r1 o1 ts1 d1 Hwf1 ltac:(lia) Ed) as [pieces [rest [Hcat [Hall Hend]]]].
    exists (piece :: pieces), rest. split.
    + cbn [concat]. rewrite <- app_assoc, <- Hcat. exact Hsplit.
    + split; [constructor; assumption|].
      destruct Hend as [Hdone | [e [o [Hr Hstep]]]]; [left; exact Hdone|].
      right. exists e, o. split; [exact Hr|].
      cbn [concat]. rewrite lenN_app, N.add_assoc, <- Ho. exact Hstep.
  - injection H as E1 E2. subst ts r.
    exists [], bs. split; [reflexivity|]. split; [constructor|].
    right. exists e, o. split; [reflexivity|].
    cbn [concat]. rewrite lenN_nil, N.add_0_r. exact Es.
Qed.

Theorem decode_exact maxlen fault bs off ts r : wf_bytes bs ->
  decode_all (S (length bs)) maxlen fault bs off = (ts, r) ->
  exists pieces rest, bs = concat pieces ++ rest /\ Forall2 (accepts maxlen) ts pieces /\
    ((r = Done /\ rest = [] /\ fault = false) \/
     (exists e o, r = Fail e o /\
        decode_step maxlen fault rest (off + lenN (concat pieces)) = SErr e o)).
Proof. intros Hwf H. eapply decode_exact_gen; [exact Hwf | | exact H]. lia. Qed.

(* ------------------------------------------------------------------ *)
(* C04: truncation                                                     *)
(* ------------------------------------------------------------------ *)

Lemma read_len_truncated maxlen fault strk len lf pl (m : nat) off :
  len_field maxlen len lf -> lenN pl = len -> (m < length (lf ++ pl))%nat ->
  (exists o, read_len maxlen fault strk (firstn m (lf ++ pl)) off = LenErr (end_err fault) o) \/
  (exists pl' o, read_len maxlen fault strk (firstn m (lf ++ pl)) off = LenOk len pl' o /\ lenN pl' < len).
Proof.
  intros Hlf Hpl Hm. destruct Hlf as [b Hb Hmax | l u len Hl Hu Hwf Hp Hmax].
  - cbn [app] in *. destruct m as [|m]; cbn [firstn].
    + left. exists off. apply read_len_nil.
    + right. rewrite read_len_short by exact Hb.
      assert (E : (maxlen <? b) = false) by lia. rewrite E.
      exists (firstn m pl), (off + 1). split; [reflexivity|].
      cbn [length] in Hm. rewrite lenN_firstn by lia. unfold lenN in Hpl. lia.
  - cbn [app] in *. destruct m as [|m]; cbn [firstn].
    + left. exists off. apply read_len_nil.
    + rewrite read_len_long by lia.
      assert (Ec : compl8 (255 - l) = l) by (unfold compl8; lia). rewrite Ec.
      assert (E8 : (8 <? l) = false) by lia. rewrite E8.
      cbn [length] in Hm. rewrite app_length in Hm.
      destruct (Nat.ltb m (length u)) eqn:Emu.
      * apply Nat.ltb_lt in Emu. left.
        rewrite firstn_app_short by lia.
        rewrite takeN_short; [eexists; reflexivity|].
        rewrite lenN_firstn by lia. unfold lenN in Hu. lia.
      * apply Nat.ltb_ge in Emu. right.
        rewrite firstn_app_long by lia.
        rewrite (takeN_app' l u _ Hu).
        assert (Hlen : (length u <= 8)%nat) by (unfold lenN in Hu; lia).
        rewrite (read_uvarint_parse u len Hwf Hlen Hp).
        assert (E : (maxlen <? len) = false) by lia. rewrite E.
        eexists. eexists. split; [reflexivity|].
        rewrite lenN_firstn by lia. unfold lenN in Hpl. lia.
Qed.

Theorem step_truncated maxlen fault t piece (n : nat) off :
  accepts maxlen t piece -> (0 < n < length piece)%nat ->
  exists o, decode_step maxlen fault (firstn n piece) off = SErr (end_err fault) o.
Proof.
  intros H Hn.
  destruct H as [k Hk | k n0 mk img Hf Hl Hwf | k lf len pl Hk Hlf Hpl | k lf len pl Hk Hlf Hpl].
  - cbn [length] in Hn. lia.
  - destruct n as [|m]; [lia|]. cbn [firstn length] in *.
    rewrite (step_fixed _ _ _ _ _ _ _ Hf).
    rewrite takeN_short; [eexists; reflexivity|].
    rewrite lenN_firstn by lia. unfold lenN in Hl. lia.
  - destruct n as [|m]; [lia|]. cbn [firstn length] in *.
    destruct (str_kind_facts k Hk) as [H1 [H2 H3]].
    rewrite step_var by (try exact H1; rewrite Hk; reflexivity). rewrite Hk.
    destruct (read_len_truncated maxlen fault true len lf pl m (off + 1) Hlf Hpl ltac:(lia))
      as [[o Ho] | [pl' [o [Ho Hlt]]]]; rewrite Ho.
    + eexists; reflexivity.
    + rewrite takeN_short by exact Hlt. eexists; reflexivity.
  - destruct n as [|m]; [lia|]. cbn [firstn length] in *.
    destruct (bytes_kind_facts k Hk) as [H1 [H2 H3]].
    rewrite step_var by (try exact H1; rewrite Hk; apply orb_true_r). rewrite H2.
    destruct (read_len_truncated maxlen fault false len lf pl m (off + 1) Hlf Hpl ltac:(lia))
      as [[o Ho] | [pl' [o [Ho Hlt]]]]; rewrite Ho.
    + eexists; reflexivity.
    + rewrite takeN_short by exact Hlt. eexists; reflexivity.
Qed.

Theorem no_silent_truncation maxlen ts t (n : nat) :
  Forall (wf_enc maxlen) ts -> wf_enc maxlen t -> (0 < n < length (encode_token t))%nat ->
  exists o, decode maxlen (encode ts ++ firstn n (encode_token t)) = (ts, Fail EEnd o) /\
            lenN (encode ts) <= o <= lenN (encode ts) + N.of_nat n.
Proof.
  intros Hts Ht Hn. unfold decode.
  rewrite (decode_all_app maxlen false ts Hts) by lia.
  rewrite decode_all_S.
  destruct (step_truncated maxlen false t (encode_token t) n (0 + lenN (encode ts))
              (encode_accepts maxlen t Ht) Hn) as [o Ho].
  rewrite Ho. exists o. split.
  - rewrite app_nil_r. reflexivity.
  - apply step_err_offset in Ho. rewrite lenN_firstn in Ho by lia. lia.
Qed.

(* ------------------------------------------------------------------ *)
(* C04: the length limit                                               *)
(* ------------------------------------------------------------------ *)

Lemma read_len_toolong maxlen fault strk l r off : maxlen < l -> l < 2 ^ 56 ->
  exists o, read_len maxlen fault strk (len_prefix l ++ r) off = LenErr (toolong strk) o.
Proof.
  intros Hm Hl. unfold len_prefix. destruct (l <? 128) eqn:E.
  - cbn [app]. rewrite read_len_short by lia.
    assert (Em : (maxlen <? l) = true) by lia. rewrite Em. eexists; reflexivity.
  - cbv zeta. cbn [app].
    pose proof (put_uvarint_len l Hl) as Hlen.
    assert (Hu : lenN (put_uvarint l) <= 8) by (unfold lenN; lia).
    rewrite read_len_long by (unfold compl8; lia).
    assert (Ec : compl8 (compl8 (lenN (put_uvarint l))) = lenN (put_uvarint l)) by (unfold compl8; lia).
    rewrite Ec.
    assert (E8 : (8 <? lenN (put_uvarint l)) = false) by lia. rewrite E8.
    rewrite takeN_app. rewrite (read_put_uvarint l Hl).
    assert (Em : (maxlen <? l) = true) by lia. rewrite Em. eexists; reflexivity.
Qed.

Theorem limit_boundary_reject maxlen k s rest off :
  is_str_kind k = true -> lenN s = maxlen + 1 -> lenN s < 2 ^ 56 -> wf_bytes s ->
  exists o, decode_step maxlen false (encode_token (T k (VStr s)) ++ rest) off = SErr EStrTooLong o.
Proof.
  intros Hk Hs Hl _. unfold encode_token. cbn [kind val enc_val app].
  destruct (str_kind_facts k Hk) as [H1 [H2 H3]].
  rewrite step_var by (try exact H1; rewrite Hk; reflexivity). rewrite Hk.
  rewrite <- app_assoc.
  destruct (read_len_toolong maxlen false true (lenN s) (s ++ rest) (off + 1) ltac:(lia) Hl) as [o Ho].
  rewrite Ho. exists o. reflexivity.
Qed.

Theorem limit_boundary_reject_bytes maxlen k s rest off :
  is_bytes_kind k = true -> lenN s = maxlen + 1 -> lenN s < 2 ^ 56 -> wf_bytes s ->
  exists o, decode_step maxlen false (encode_token (T k (VBytes s)) ++ rest) off = SErr EBytesTooLong o.
Proof.
  intros Hk Hs Hl _. unfold encode_token. cbn [kind val enc_val app].
  destruct (bytes_kind_facts k Hk) as [H1 [H2 H3]].
  rewrite step_var by (try exact H1; rewrite Hk; apply orb_true_r). rewrite H2.
  rewrite <- app_assoc.
  destruct (read_len_toolong maxlen false false (lenN s) (s ++ rest) (off + 1) ltac:(lia) Hl) as [o Ho].
  rewrite Ho. exists o. reflexivity.
Qed.

(* the accept side of the boundary: payload length exactly maxlen *)
Corollary limit_boundary_accept maxlen k s rest off :
  is_str_kind k = true -> lenN s = maxlen -> lenN s < 2 ^ 56 -> wf_bytes s ->
  decode_step maxlen false (encode_token (T k (VStr s)) ++ rest) off =
  STok (T k (VStr s)) rest (off + lenN (encode_token (T k (VStr s)))).
Proof.
  intros Hk Hs Hl Hwf. apply step_exact. unfold wf_enc, wf_token. cbn [kind val].
  split; [|lia]. apply andb_true_iff. split; [exact Hk|].
  cbn [wf_val]. unfold wf_bytesb. apply forallb_forall. intros x Hx.
  unfold wf_bytes in Hwf. rewrite Forall_forall in Hwf. specialize (Hwf x Hx).
  unfold wf_byte in Hwf. unfold wf_byteb. lia.
Qed.

Corollary limit_boundary_accept_bytes maxlen k s rest off :
  is_bytes_kind k = true -> lenN s = maxlen -> lenN s < 2 ^ 56 -> wf_bytes s ->
  decode_step maxlen false (encode_token (T k (VBytes s)) ++ rest) off =
  STok (T k (VBytes s)) rest (off + lenN (encode_token (T k (VBytes s)))).
Proof.
  intros Hk Hs Hl Hwf. apply step_exact. unfold wf_enc, wf_token. cbn [kind val].
  split; [|lia]. apply andb_true_iff. split; [exact Hk|].
  cbn [wf_val]. unfold wf_bytesb. apply forallb_forall. intros x Hx.
  unfold wf_bytes in Hwf. rewrite Forall_forall in Hwf. specialize (Hwf x Hx).
  unfold wf_byte in Hwf. unfold wf_byteb. lia.
Qed.

(* ------------------------------------------------------------------ *)
(* C15: injected faults, plain decoder                                 *)
(* ------------------------------------------------------------------ *)

Lemma fault_never_done_gen maxlen f : forall bs off,
  snd (decode_all f maxlen true bs off) <> Done.
Proof.
  induction f as [|f IH]; intros bs off; [cbn; discriminate|].
  rewrite decode_all_S.
  destruct (decode_step maxlen true bs off) as [|t r o|e o] eqn:Es.
  - apply step_end_inv in Es. destruct Es as [_ Hf]. discriminate.
  - specialize (IH r o). destruct (decode_all f maxlen true r o) as [ts d]. exact IH.
  - cbn [snd]. discriminate.
Qed.

Theorem fault_never_done maxlen bs off :
  snd (decode_all (S (length bs)) maxlen true bs off) <> Done.
Proof. apply fault_never_done_gen. Qed.

Lemma read_len_fault maxlen strk bs off :
  match read_len maxlen false strk bs off with
  | LenOk l r o => read_len maxlen true strk bs off = LenOk l r o
  | LenErr e o => exists e', read_len maxlen true strk bs off = LenErr e' o
  end.
Proof.
  destruct bs as [|b bs].
  - rewrite !read_len_nil. eexists; reflexivity.
  - destruct (b <? 128) eqn:Eb.
    + rewrite !read_len_short by lia. destruct (maxlen <? b); [eexists; reflexivity | reflexivity].
    + rewrite !read_len_long by lia.
      destruct (8 <? compl8 b); [eexists; reflexivity|].
      destruct (takeN (compl8 b) bs) as [[u r']|]; [|eexists; reflexivity].
      destruct (read_uvarint u) as [v| | |]; try (eexists; reflexivity).
      destruct (maxlen <? v); [eexists; reflexivity | reflexivity].
Qed.

Lemma step_fault maxlen bs off :
  match decode_step maxlen false bs off with
  | STok t r o => decode_step maxlen true bs off = STok t r o
  | _ => exists e o, decode_step maxlen true bs off = SErr e o
  end.
Proof.
  destruct bs as [|k r].
  - rewrite !step_nil. eexists; eexists; reflexivity.
  - destruct (fixed_kind k) as [[n mk]|] eqn:Ef.
    + rewrite !(step_fixed _ _ _ _ _ _ _ Ef).
      destruct (takeN n r) as [[img r']|]; [reflexivity | eexists; eexists; reflexivity].
    + destruct (is_str_kind k || is_bytes_kind k) eqn:Esb.
      * rewrite !step_var by assumption.
        pose proof (read_len_fault maxlen (is_str_kind k) r (off + 1)) as Hrl.
        destruct (read_len maxlen false (is_str_kind k) r (off + 1)) as [len r' o|e o].
        { rewrite Hrl. destruct (takeN len r') as [[pl r'']|]; [reflexivity | eexists; eexists; reflexivity]. }
        { destruct Hrl as [e' Hrl]. rewrite Hrl. eexists; eexists; reflexivity. }
      * destruct (is_valueless_kind k) eqn:Ev.
        { rewrite !step_valueless by exact Ev. reflexivity. }
        { rewrite !step_bad by assumption. eexists; eexists; reflexivity. }
Qed.

Lemma fault_tokens_same_gen maxlen f : forall bs off,
  fst (decode_all f maxlen true bs off) = fst (decode_all f maxlen false bs off).
Proof.
  induction f as [|f IH]; intros bs off; [reflexivity|].
  rewrite !decode_all_S.
  pose proof (step_fault maxlen bs off) as Hs.
  destruct (decode_step maxlen false bs off) as [|t r o|e o].
  - destruct Hs as [e' [o' Hs]]. rewrite Hs. reflexivity.
  - rewrite Hs. specialize (IH r o).
    destruct (decode_all f maxlen true r o) as [ts1 d1].
    destruct (decode_all f maxlen false r o) as [ts2 d2].
    cbn [fst] in *. rewrite IH. reflexivity.
  - destruct Hs as [e' [o' Hs]]. rewrite Hs. reflexivity.
Qed.

Theorem fault_tokens_same maxlen bs off :
  fst (decode_all (S (length bs)) maxlen true bs off) =
  fst (decode_all (S (length bs)) maxlen false bs off).
Proof. apply fault_tokens_same_gen. Qed.

Lemma fail_offset_gen maxlen fault f : forall bs off ts e o,
  decode_all f maxlen fault bs off = (ts, Fail e o) -> off <= o <= off + lenN bs.
Proof.
  induction f as [|f IH]; intros bs off ts e o H; [discriminate|].
  rewrite decode_all_S in H.
  destruct (decode_step maxlen fault bs off) as [|t r o1|e1 o1] eqn:Es.
  - discriminate.
  - apply step_struct in Es. destruct Es as [piece [Hsplit [_ Ho1]]].
    destruct (decode_all f maxlen fault r o1) as [ts1 d1] eqn:Ed.
    injection H as E1 E2. subst ts d1.
    apply IH in Ed. subst bs. rewrite lenN_app. lia.
  - injection H as E1 E2 E3. subst. apply step_err_offset in Es. exact Es.
Qed.

Theorem fail_offset_in_range maxlen fault bs off ts e o :
  decode_all (S (length bs)) maxlen fault bs off = (ts, Fail e o) -> off <= o <= off + lenN bs.
Proof. apply fail_offset_gen. Qed.

(* ------------------------------------------------------------------ *)
(* C15: the failing writer                                             *)
(* ------------------------------------------------------------------ *)

Lemma write_until_zero ws : write_until 0 ws = (concat ws, false).
Proof.
  induction ws as [|w r IH]; cbn [write_until concat].
  - reflexivity.
  - cbn [pred]. rewrite IH. reflexivity.
Qed.

Lemma write_until_SS k w r :
  write_until (S (S k)) (w :: r) = let '(acc, f) := write_until (S k) r in (w ++ acc, f).
Proof. reflexivity. Qed.

Theorem write_until_spec k ws :
  let '(acc, failed) := write_until k ws in
  (failed = true <-> (1 <= k <= length ws)%nat) /\
  (failed = true -> acc = concat (firstn (k - 1) ws)) /\
  (failed = false -> acc = concat ws).
Proof.
  revert k. induction ws as [|w r IH]; intros k.
  - cbn [write_until length]. split; [split; [discriminate|lia]|]. split; [discriminate|reflexivity].
  - destruct k as [|k].
    + rewrite write_until_zero. cbn [length].
      split; [split; [discriminate|lia]|]. split; [discriminate|reflexivity].
    + destruct k as [|k].
      * cbn [write_until length]. split; [split; [lia|reflexivity]|].
        split; [reflexivity|discriminate].
      * rewrite write_until_SS. specialize (IH (S k)).
        destruct (write_until (S k) r) as [acc f]. destruct IH as [IH1 [IH2 IH3]].
        cbn [length]. split; [rewrite IH1; lia|]. split.
        { intros Hf. rewrite (IH2 Hf).
          replace (S (S k) - 1)%nat with (S k) by lia. replace (S k - 1)%nat with k by lia.
          reflexivity. }
        { intros Hf. rewrite (IH3 Hf). reflexivity. }
Qed.

Lemma concat_firstn_skipn (n : nat) (ws : list bytes) :
  concat ws = concat (firstn n ws) ++ concat (skipn n ws).
Proof. rewrite <- concat_app, firstn_skipn. reflexivity. Qed.

Corollary writer_fault_prefix k ts :
  exists suffix, encode ts = fst (write_until k (stream_writes ts)) ++ suffix.
Proof.
  pose proof (write_until_spec k (stream_writes ts)) as H.
  destruct (write_until k (stream_writes ts)) as [acc f]. destruct H as [_ [H2 H3]].
  cbn [fst]. rewrite <- stream_writes_concat. destruct f.
  - rewrite (H2 eq_refl). eexists. apply concat_firstn_skipn.
  - rewrite (H3 eq_refl). exists []. rewrite app_nil_r. reflexivity.
Qed.

(* ------------------------------------------------------------------ *)
(* the comparison-oriented (segmenting) decoder                        *)
(* ------------------------------------------------------------------ *)

Definition seg_tok (k : N) (strk : bool) (seg : bytes) : token :=
  T k (if strk then VStr seg else VBytes seg).

Lemma segments_S f k strk fault step len avail off :
  segments (S f) k strk fault step len avail off =
  if len =? 0 then ([], inl (avail, off))
  else match takeN (N.min step len) avail with
       | None => ([], inr (end_err fault, off))
       | Some (seg, r) =>
           let '(ts, out) := segments f k strk fault (2 * step) (len - N.min step len) r
                                      (off + N.min step len) in
           (seg_tok k strk seg :: ts, out)
       end.
Proof. reflexivity. Qed.

(* enough input: the segments are exactly the payload *)
Lemma segments_ok k strk fault f : forall step pl r off,
  1 <= step -> (length pl < f)%nat ->
  exists segs, segments f k strk fault step (lenN pl) (pl ++ r) off =
               (map (seg_tok k strk) segs, inl (r, off + lenN pl)) /\ concat segs = pl.
Proof.
  induction f as [|f IH]; intros step pl r off Hstep Hf; [lia|].
  rewrite segments_S. destruct (lenN pl =? 0) eqn:E0.
  - apply N.eqb_eq in E0. destruct pl as [|x pl]; [|rewrite lenN_cons in E0; lia].
    exists []. cbn [map concat app]. rewrite lenN_nil, N.add_0_r. split; reflexivity.
  - apply N.eqb_neq in E0.
    remember (N.min step (lenN pl)) as l eqn:El.
    assert (Hl : 1 <= l <= lenN pl) by lia.
    assert (Hsplit : pl = firstn (N.to_nat l) pl ++ skipn (N.to_nat l) pl)
      by (symmetry; apply firstn_skipn).
    remember (firstn (N.to_nat l) pl) as s1 eqn:Es1.
    remember (skipn (N.to_nat l) pl) as p2 eqn:Ep2.
    assert (Hs1 : lenN s1 = l).
    { subst s1. unfold lenN in *. rewrite firstn_length_le by lia. lia. }
    assert (Hp2 : lenN pl = l + lenN p2).
    { rewrite Hsplit at 1. rewrite lenN_app, Hs1. reflexivity. }
    assert (Ht : takeN l (pl ++ r) = Some (s1, p2 ++ r)).
    { rewrite Hsplit, <- app_assoc. apply takeN_app'. exact Hs1. }
    rewrite Ht.
    replace (lenN pl - l) with (lenN p2) by lia.
    destruct (IH (2 * step) p2 r (off + l) ltac:(lia) ltac:(unfold lenN in *; lia)) as [segs [Hseg Hcat]].
    rewrite Hseg. exists (s1 :: segs). split.
    + cbn [map]. f_equal. f_equal. f_equal. lia.
    + cbn [concat]. rewrite Hcat. symmetry. exact Hsplit.
Qed.

(* too little input: the same end-of-input class, at an offset inside the input *)
Lemma segments_fail k strk fault f : forall step len avail off,
  1 <= step -> lenN avail < len -> (length avail < f)%nat ->
  exists ts o, segments f k strk fault step len avail off = (ts, inr (end_err fault, o)).
Proof.
  induction f as [|f IH]; intros step len avail off Hstep Hlen Hf; [lia|].
  rewrite segments_S.
  assert (E0 : (len =? 0) = false) by lia. rewrite E0.
  remember (N.min step len) as l eqn:El.
  destruct (takeN l avail) as [[seg r]|] eqn:Et.
  - apply takeN_some in Et. destruct Et as [Hsplit Hseg].
    assert (Hav : lenN avail = l + lenN r) by (rewrite Hsplit, lenN_app, Hseg; reflexivity).
    destruct (IH (2 * step) (len - l) r (off + l) ltac:(lia) ltac:(lia) ltac:(unfold lenN in *; lia))
      as [ts [o Hs]].
    rewrite Hs. eexists; eexists; reflexivity.
  - eexists; eexists; reflexivity.
Qed.

(* structure of any outcome, for every fuel *)
Lemma segments_struct k strk fault f : forall step len avail off ts out,
  segments f k strk fault step len avail off = (ts, out) ->
  match out with
  | inl (r, o) => exists p, avail = p ++ r /\ o = off + lenN p
  | inr (e, o) => off <= o <= off + lenN avail
  end.
Proof.
  induction f as [|f IH]; intros step len avail off ts out H.
  - cbn [segments] in H. injection H as E1 E2. subst. lia.
  - rewrite segments_S in H. destruct (len =? 0).
    + injection H as E1 E2. subst. exists []. split; [reflexivity|]. rewrite lenN_nil. lia.
    + destruct (takeN (N.min step len) avail) as [[seg r]|] eqn:Et.
      * apply takeN_some in Et. destruct Et as [Hsplit Hseg].
        destruct (segments f k strk fault (2 * step) (len - N.min step len) r (off + N.min step len))
          as [ts1 out1] eqn:Es.
        injection H as E1 E2. subst ts out.
        apply IH in Es. destruct out1 as [[r1 o1]|[e1 o1]].
        { destruct Es as [p [Hp Ho]]. exists (seg ++ p). split.
          - rewrite Hsplit, Hp, app_assoc. reflexivity.
          - rewrite lenN_app, Hseg. lia. }
        { rewrite Hsplit, lenN_app, Hseg. lia. }
      * injection H as E1 E2. subst. lia.
Qed.

Lemma cmp_step_nil maxlen fault off :
  decode_cmp_step maxlen fault [] off = if fault then CErr [] EFault off else CEnd.
Proof. reflexivity. Qed.

Lemma cmp_step_seg maxlen fault k r off : (k =? KString) || (k =? KBytes) = true ->
  decode_cmp_step maxlen fault (k :: r) off =
  match read_len maxlen fault (k =? KString) r (off + 1) with
  | LenErr e o => CErr [] e o
  | LenOk len r' o =>
      match segments (S (length r')) k (k =? KString) fault init_step len r' o with
      | (ts, inl (r'', o')) =>
          CToks (T (if k =? KString then KStringBegin else KBytesBegin) VNone
                   :: ts ++ [T (if k =? KString then KStringEnd else KBytesEnd) VNone]) r'' o'
      | (ts, inr (e, o')) =>
          CErr (T (if k =? KString then KStringBegin else KBytesBegin) VNone :: ts) e o'
      end
  end.
Proof. intros H. unfold decode_cmp_step. rewrite H. reflexivity. Qed.

Lemma cmp_step_other maxlen fault k r off : (k =? KString) || (k =? KBytes) = false ->
  decode_cmp_step maxlen fault (k :: r) off =
  match decode_step maxlen fault (k :: r) off with
  | SEnd => CEnd
  | SErr e o => CErr [] e o
  | STok t r' o => CToks [t] r' o
  end.
Proof. intros H. unfold decode_cmp_step. rewrite H. reflexivity. Qed.

Lemma decode_cmp_all_S f maxlen fault bs off :
  decode_cmp_all (S f) maxlen fault bs off =
  match decode_cmp_step maxlen fault bs off with
  | CEnd => ([], Done)
  | CErr ts e o => (ts, Fail e o)
  | CToks ts r o => let '(more, e) := decode_cmp_all f maxlen fault r o in (ts ++ more, e)
  end.
Proof. reflexivity. Qed.

Lemma cmp_step_struct maxlen fault bs off ts rest off' :
  decode_cmp_step maxlen fault bs off = CToks ts rest off' ->
  exists piece, bs = piece ++ rest /\ piece <> [] /\ off' = off + lenN piece.
Proof.
  intros H. destruct bs as [|k r].
  - rewrite cmp_step_nil in H. destruct fault; discriminate.
  - destruct ((k =? KString) || (k =? KBytes)) eqn:E.
    + rewrite cmp_step_seg in H by exact E.
      destruct (read_len maxlen fault (k =? KString) r (off + 1)) as [len r' o|e o] eqn:El; [|discriminate].
      apply read_len_struct in El. destruct El as [lf [Hsplit [Ho _]]].
      destruct (segments (S (length r')) k (k =? KString) fault init_step len r' o) as [sts out] eqn:Es.
      apply segments_struct in Es.
      destruct out as [[r'' o']|[e o']]; [|discriminate].
      destruct Es as [p [Hp Ho']]. injection H as E1 E2 E3. subst ts rest off'.
      exists (k :: lf ++ p). split.
      * cbn [app]. rewrite <- app_assoc, <- Hp, <- Hsplit. reflexivity.
      * split; [discriminate|]. rewrite lenN_cons, lenN_app. lia.
    + rewrite cmp_step_other in H by exact E.
      destruct (decode_step maxlen fault (k :: r) off) as [|t r' o|e o] eqn:Es; try discriminate.
      injection H as E1 E2 E3. subst ts rest off'.
      apply step_struct in Es. exact Es.
Qed.

Lemma cmp_step_err_offset maxlen fault bs off ts e o :
  decode_cmp_step maxlen fault bs off = CErr ts e o -> off <= o <= off + lenN bs.
Proof.
  intros H. destruct bs as [|k r].
  - rewrite cmp_step_nil in H. destruct fault; [|discriminate].
    injection H as E1 E2 E3. subst. rewrite lenN_nil. lia.
  - destruct ((k =? KString) || (k =? KBytes)) eqn:E.
    + rewrite cmp_step_seg in H by exact E. rewrite lenN_cons.
      destruct (read_len maxlen fault (k =? KString) r (off + 1)) as [len r' o1|e1 o1] eqn:El.
      * apply read_len_struct in El. destruct El as [lf [Hsplit [Ho _]]].
        destruct (segments (S (length r')) k (k =? KString) fault init_step len r' o1) as [sts out] eqn:Es.
        apply segments_struct in Es.
        destruct out as [[r'' o']|[e2 o']]; [discriminate|].
        injection H as E1 E2 E3. subst ts e o. rewrite Hsplit, lenN_app. lia.
      * apply read_len_err_offset in El. injection H as E1 E2 E3. subst. lia.
    + rewrite cmp_step_other in H by exact E.
      destruct (decode_step maxlen fault (k :: r) off) as [|t r' o1|e1 o1] eqn:Es; try discriminate.
      injection H as E1 E2 E3. subst. apply step_err_offset in Es. exact Es.
Qed.

Lemma cmp_step_end_inv maxlen fault bs off :
  decode_cmp_step maxlen fault bs off = CEnd -> bs = [] /\ fault = false.
Proof.
  intros H. destruct bs as [|k r].
  - rewrite cmp_step_nil in H. destruct fault; [discriminate|]. split; reflexivity.
  - exfalso. destruct ((k =? KString) || (k =? KBytes)) eqn:E.
    + rewrite cmp_step_seg in H by exact E.
      destruct (read_len maxlen fault (k =? KString) r (off + 1)) as [len r' o|e o]; [|discriminate].
      destruct (segments (S (length r')) k (k =? KString) fault init_step len r' o) as [sts out].
      destruct out as [[r'' o']|[e o']]; discriminate.
    + rewrite cmp_step_other in H by exact E.
      destruct (decode_step maxlen fault (k :: r) off) as [|t r' o|e o] eqn:Es; try discriminate.
      apply step_end_inv in Es. destruct Es as [Hnil _]. discriminate.
Qed.

Lemma decode_cmp_all_no_fuel maxlen fault f : forall bs off,
  (length bs < f)%nat -> snd (decode_cmp_all f maxlen fault bs off) <> DOutOfFuel.
Proof.
  induction f as [|f IH]; intros bs off Hf; [lia|]. rewrite decode_cmp_all_S.
  destruct (decode_cmp_step maxlen fault bs off) as [|ts r o|ts e o] eqn:Es; cbn [snd]; try discriminate.
  apply cmp_step_struct in Es. destruct Es as [piece [Hsplit [Hne _]]].
  specialize (IH r o).
  destruct (decode_cmp_all f maxlen fault r o) as [more d]. cbn [snd] in *. apply IH.
  subst bs. rewrite app_length in Hf. destruct piece as [|x p]; [congruence|]. cbn [length] in Hf. lia.
Qed.

Theorem decode_cmp_total maxlen fault bs off :
  snd (decode_cmp_all (S (length bs)) maxlen fault bs off) <> DOutOfFuel.
Proof. apply decode_cmp_all_no_fuel. lia. Qed.

Lemma fault_never_done_cmp_gen maxlen f : forall bs off,
  snd (decode_cmp_all f maxlen true bs off) <> Done.
Proof.
  induction f as [|f IH]; intros bs off; [cbn; discriminate|].
  rewrite decode_cmp_all_S.
  destruct (decode_cmp_step maxlen true bs off) as [|ts r o|ts e o] eqn:Es.
  - apply cmp_step_end_inv in Es. destruct Es as [_ Hf]. discriminate.
  - specialize (IH r o). destruct (decode_cmp_all f maxlen true r o) as [more d]. exact IH.
  - cbn [snd]. discriminate.
Qed.

Theorem fault_never_done_cmp maxlen bs off :
  snd (decode_cmp_all (S (length bs)) maxlen true bs off) <> Done.
Proof. apply fault_never_done_cmp_gen. Qed.

Lemma fail_offset_cmp_gen maxlen fault f : forall bs off ts e o,
  decode_cmp_all f maxlen fault bs off = (ts, Fail e o) -> off <= o <= off + lenN bs.
Proof.
  induction f as [|f IH]; intros bs off ts e o H; [discriminate|].
  rewrite decode_cmp_all_S in H.
  destruct (decode_cmp_step maxlen fault bs off) as [|ts1 r o1|ts1 e1 o1] eqn:Es.
  - discriminate.
  - apply cmp_step_struct in Es. destruct Es as [piece [Hsplit [_ Ho1]]].
    destruct (decode_cmp_all f maxlen fault r o1) as [more d1] eqn:Ed.
    injection H as E1 E2. subst ts d1.
    apply IH in Ed. subst bs. rewrite lenN_app. lia.
  - injection H as E1 E2 E3. subst. apply cmp_step_err_offset in Es. exact Es.
Qed.

Theorem fail_offset_in_range_cmp maxlen fault bs off ts e o :
  decode_cmp_all (S (length bs)) maxlen fault bs off = (ts, Fail e o) -> off <= o <= off + lenN bs.
Proof. apply fail_offset_cmp_gen. Qed.

(* ---- the two decoders agree ---- *)

Lemma step_tok_kind maxlen fault bs off t rest off' :
  decode_step maxlen fault bs off = STok t rest off' ->
  kind t <> KStringBegin /\ kind t <> KBytesBegin.
Proof.
  intros H. destruct bs as [|k r].
  - rewrite step_nil in H. destruct fault; discriminate.
  - assert (Hk : kind t = k).
    { destruct (fixed_kind k) as [[n mk]|] eqn:Ef.
      - rewrite (step_fixed _ _ _ _ _ _ _ Ef) in H.
        destruct (takeN n r) as [[img r']|]; [|discriminate].
        injection H as E1 E2 E3. subst t. reflexivity.
      - destruct (is_str_kind k || is_bytes_kind k) eqn:Esb.
        + rewrite step_var in H by assumption.
          destruct (read_len maxlen fault (is_str_kind k) r (off + 1)) as [len r' o|e o]; [|discriminate].
          destruct (takeN len r') as [[pl r'']|]; [|discriminate].
          injection H as E1 E2 E3. subst t. reflexivity.
        + destruct (is_valueless_kind k) eqn:Ev.
          * rewrite step_valueless in H by exact Ev. injection H as E1 E2 E3. subst t. reflexivity.
          * rewrite step_bad in H by assumption. discriminate. }
    rewrite Hk. split; intros ->.
    + rewrite step_bad in H by reflexivity. discriminate.
    + rewrite step_bad in H by reflexivity. discriminate.
Qed.

Lemma deseg_plain t more : kind t <> KStringBegin -> kind t <> KBytesBegin ->
  desegment (t :: more) = t :: desegment more.
Proof.
  intros H1 H2. unfold desegment. cbn [deseg].
  apply N.eqb_neq in H1. apply N.eqb_neq in H2. rewrite H1, H2. reflexivity.
Qed.

Lemma deseg_segs_str rest : forall segs a,
  deseg (Some (true, a)) (map (seg_tok KString true) segs ++ T KStringEnd VNone :: rest) =
  T KString (VStr (a ++ concat segs)) :: deseg None rest.
Proof.
  induction segs as [|s segs IH]; intros a.
  - cbn [map app deseg kind concat]. change (KStringEnd =? KStringEnd) with true. cbv iota.
    rewrite app_nil_r. reflexivity.
  - cbn [map app deseg].
    change (kind (seg_tok KString true s)) with KString.
    change (val (seg_tok KString true s)) with (VStr s).
    change (KString =? KStringEnd) with false. cbv iota.
    rewrite IH. cbn [concat]. rewrite app_assoc. reflexivity.
Qed.

Lemma deseg_segs_bytes rest : forall segs a,
  deseg (Some (false, a)) (map (seg_tok KBytes false) segs ++ T KBytesEnd VNone :: rest) =
  T KBytes (VBytes (a ++ concat segs)) :: deseg None rest.
Proof.
  induction segs as [|s segs IH]; intros a.
  - cbn [map app deseg kind concat]. change (KBytesEnd =? KBytesEnd) with true. cbv iota.
    rewrite app_nil_r. reflexivity.
  - cbn [map app deseg].
    change (kind (seg_tok KBytes false s)) with KBytes.
    change (val (seg_tok KBytes false s)) with (VBytes s).
    change (KBytes =? KBytesEnd) with false. cbv iota.
    rewrite IH. cbn [concat]. rewrite app_assoc. reflexivity.
Qed.

Definition step_rel (s : dstep) (c : cstep) : Prop :=
  match s, c with
  | SEnd, CEnd => True
  | SErr e _, CErr _ e' _ => e = e'
  | STok t r o, CToks ts r' o' =>
      r = r' /\ o = o' /\ forall more, desegment (ts ++ more) = t :: desegment more
  | _, _ => False
  end.

(* the segmenting branch, for a kind whose length field is read with flag strk *)
Lemma cmp_step_rel_seg maxlen fault k r off :
  (k = KString \/ k = KBytes) ->
  step_rel (decode_step maxlen fault (k :: r) off) (decode_cmp_step maxlen fault (k :: r) off).
Proof.
  intros Hk.
  assert (Hseg : (k =? KString) || (k =? KBytes) = true) by (destruct Hk; subst; reflexivity).
  assert (Hfix : fixed_kind k = None) by (destruct Hk; subst; reflexivity).
  assert (Hsb : is_str_kind k || is_bytes_kind k = true) by (destruct Hk; subst; reflexivity).
  assert (Hstr : is_str_kind k = (k =? KString)) by (destruct Hk; subst; reflexivity).
  rewrite step_var by assumption. rewrite cmp_step_seg by exact Hseg. rewrite Hstr.
  destruct (read_len maxlen fault (k =? KString) r (off + 1)) as [len r' o|e o] eqn:El;
    [|cbn [step_rel]; reflexivity].
  destruct (takeN len r') as [[pl r'']|] eqn:Et.
  - apply takeN_some in Et. destruct Et as [Hsplit Hpl].
    assert (Hfuel : (length pl < S (length r'))%nat) by (subst r'; rewrite app_length; lia).
    destruct (segments_ok k (k =? KString) fault (S (length r')) init_step pl r'' o
                ltac:(unfold init_step; lia) Hfuel) as [segs [Hs Hcat]].
    subst r' len. rewrite Hs. cbn [step_rel].
    split; [reflexivity|]. split; [reflexivity|]. intros more.
    destruct Hk as [-> | ->].
    + change (KString =? KString) with true. cbv iota.
      unfold desegment. cbn [app deseg kind].
      change (KStringBegin =? KStringBegin) with true. cbv iota.
      rewrite <- app_assoc. cbn [app]. rewrite deseg_segs_str. rewrite Hcat. reflexivity.
    + change (KBytes =? KString) with false. cbv iota.
      unfold desegment. cbn [app deseg kind].
      change (KBytesBegin =? KStringBegin) with false.
      change (KBytesBegin =? KBytesBegin) with true. cbv iota.
      rewrite <- app_assoc. cbn [app]. rewrite deseg_segs_bytes. rewrite Hcat. reflexivity.
  - apply takeN_none in Et.
    destruct (segments_fail k (k =? KString) fault (S (length r')) init_step len r' o
                ltac:(unfold init_step; lia) Et ltac:(lia)) as [sts [o' Hs]].
    rewrite Hs. cbn [step_rel]. reflexivity.
Qed.

Lemma cmp_step_rel maxlen fault bs off :
  step_rel (decode_step maxlen fault bs off) (decode_cmp_step maxlen fault bs off).
Proof.
  destruct bs as [|k r].
  - rewrite step_nil, cmp_step_nil. destruct fault; cbn [step_rel]; auto.
  - destruct ((k =? KString) || (k =? KBytes)) eqn:E.
    + apply cmp_step_rel_seg. apply orb_true_iff in E.
      destruct E as [E|E]; apply N.eqb_eq in E; auto.
    + rewrite cmp_step_other by exact E.
      destruct (decode_step maxlen fault (k :: r) off) as [|t r' o|e o] eqn:Es; cbn [step_rel]; auto.
      split; [reflexivity|]. split; [reflexivity|]. intros more. cbn [app].
      apply step_tok_kind in Es. destruct Es as [H1 H2]. apply deseg_plain; assumption.
Qed.

Definition all_rel (a b : list token * dend) : Prop :=
  match snd a, snd b with
  | Done, Done => desegment (fst b) = fst a
  | Fail e1 _, Fail e2 _ => e1 = e2
  | _, _ => False
  end.

Lemma cmp_rel maxlen fault f1 : forall f2 bs off,
  (length bs < f1)%nat -> (length bs < f2)%nat ->
  all_rel (decode_all f1 maxlen fault bs off) (decode_cmp_all f2 maxlen fault bs off).
Proof.
  induction f1 as [|f1 IH]; intros f2 bs off H1 H2; [lia|].
  destruct f2 as [|f2]; [lia|].
  rewrite decode_all_S, decode_cmp_all_S.
  pose proof (cmp_step_rel maxlen fault bs off) as Hrel.
  destruct (decode_step maxlen fault bs off) as [|t r o|e o] eqn:Es;
    destruct (decode_cmp_step maxlen fault bs off) as [|ts r' o'|ts e' o'] eqn:Ec;
    cbn [step_rel] in Hrel; try contradiction.
  - unfold all_rel. cbn [fst snd]. reflexivity.
  - destruct Hrel as [Hr [Ho Hdes]]. subst r' o'.
    apply step_shrinks in Es.
    specialize (IH f2 r o ltac:(lia) ltac:(lia)).
    destruct (decode_all f1 maxlen fault r o) as [ts1 d1].
    destruct (decode_cmp_all f2 maxlen fault r o) as [ts2 d2].
    unfold all_rel in *. cbn [fst snd] in *.
    destruct d1 as [|e1 o1|]; destruct d2 as [|e2 o2|]; try contradiction.
    + rewrite Hdes, IH. reflexivity.
    + exact IH.
  - unfold all_rel. cbn [fst snd]. exact Hrel.
Qed.

Lemma cmp_rel_top maxlen bs : all_rel (decode maxlen bs) (decode_cmp maxlen bs).
Proof. unfold decode, decode_cmp. apply cmp_rel; lia. Qed.

Theorem cmp_same_language maxlen bs : wf_bytes bs ->
  (snd (decode maxlen bs) = Done <-> snd (decode_cmp maxlen bs) = Done).
Proof.
  intros _. pose proof (cmp_rel_top maxlen bs) as H. unfold all_rel in H.
  destruct (snd (decode maxlen bs)) as [|e1 o1|]; destruct (snd (decode_cmp maxlen bs)) as [|e2 o2|];
    try contradiction; split; intros; (reflexivity || discriminate).
Qed.

Theorem cmp_same_class maxlen bs : wf_bytes bs ->
  match snd (decode maxlen bs), snd (decode_cmp maxlen bs) with
  | Done, Done => True
  | Fail e1 _, Fail e2 _ => e1 = e2
  | _, _ => False
  end.
Proof.
  intros _. pose proof (cmp_rel_top maxlen bs) as H. unfold all_rel in H.
  destruct (snd (decode maxlen bs)) as [|e1 o1|]; destruct (snd (decode_cmp maxlen bs)) as [|e2 o2|];
    try contradiction; auto.
Qed.

Theorem cmp_desegment maxlen bs : wf_bytes bs -> snd (decode maxlen bs) = Done ->
  desegment (fst (decode_cmp maxlen bs)) = fst (decode maxlen bs).
Proof.
  intros _ Hd. pose proof (cmp_rel_top maxlen bs) as H. unfold all_rel in H.
  rewrite Hd in H. destruct (snd (decode_cmp maxlen bs)) as [|e2 o2|]; try contradiction. exact H.
Qed.

(* ------------------------------------------------------------------ *)
(* the hypotheses are satisfiable: concrete instances                  *)
(* ------------------------------------------------------------------ *)

Definition ex_ts : list token :=
  [T KInt (VI WNat (-5)); T KString (VStr [104; 105]); T KArray VNone;
   T KBytes (VBytes (rep 200 7)); T KBool (VBool true); T KUint16 (VU W16 513); T KArrayEnd VNone].

Example ex_wf : Forall (wf_enc default_maxlen) ex_ts.
Proof. unfold ex_ts. repeat constructor; vm_compute; discriminate. Qed.

Example ex_wf_bytes : wf_bytes (encode ex_ts).
Proof. apply wf_bytesb_true. vm_compute. reflexivity. Qed.

Example ex_step_exact :
  decode_step default_maxlen false (encode_token (T KBytes (VBytes (rep 200 7))) ++ [1; 2]) 10 =
  STok (T KBytes (VBytes (rep 200 7))) [1; 2] (10 + 204).
Proof.
  apply (step_exact default_maxlen false (T KBytes (VBytes (rep 200 7))) [1; 2] 10).
  repeat constructor; vm_compute; discriminate.
Qed.

Example ex_decode_encode : decode default_maxlen (encode ex_ts) = (ex_ts, Done).
Proof. exact (decode_encode default_maxlen ex_ts ex_wf). Qed.

Example ex_encoded_len : encoded_len ex_ts = 224.
Proof. rewrite encoded_len_correct. vm_compute. reflexivity. Qed.

Example ex_layout : layout_token (T KUint16 (VU W16 513)) [130; 1; 2].
Proof. apply (encode_layout (T KUint16 (VU W16 513))); [reflexivity | exact I]. Qed.

Example ex_layout_long : layout_token (T KBytes (VBytes (rep 200 7))) (55 :: 253 :: 200 :: 1 :: rep 200 7).
Proof.
  apply (encode_layout (T KBytes (VBytes (rep 200 7)))); [reflexivity | vm_compute; reflexivity].
Qed.

(* a non-canonical but accepted encoding: over-long length varint [130; 0] = 2 *)
Example ex_noncanonical :
  exists piece, [50; 253; 130; 0; 1; 2; 30] = piece ++ [30] /\ 6 = 0 + lenN piece /\
                accepts 100 (T KString (VStr [1; 2])) piece.
Proof.
  apply (step_sound 100 false [50; 253; 130; 0; 1; 2; 30] 0).
  - apply wf_bytesb_true. vm_compute. reflexivity.
  - vm_compute. reflexivity.
Qed.

Example ex_truncation :
  exists o, decode default_maxlen (encode ex_ts ++ firstn 2 (encode_token (T KString (VStr [104; 105]))))
            = (ex_ts, Fail EEnd o) /\ lenN (encode ex_ts) <= o <= lenN (encode ex_ts) + 2.
Proof.
  apply (no_silent_truncation default_maxlen ex_ts (T KString (VStr [104; 105])) 2 ex_wf).
  - repeat constructor; vm_compute; discriminate.
  - vm_compute. lia.
Qed.

Example ex_limit :
  exists o, decode_step 3 false (encode_token (T KString (VStr [1; 2; 3; 4])) ++ [30]) 0 = SErr EStrTooLong o.
Proof.
  apply limit_boundary_reject; try reflexivity.
  apply wf_bytesb_true. reflexivity.
Qed.

Example ex_cmp : desegment (fst (decode_cmp default_maxlen (encode ex_ts))) = ex_ts.
Proof.
  rewrite (cmp_desegment default_maxlen (encode ex_ts) ex_wf_bytes); rewrite ex_decode_encode; reflexivity.
Qed.

Example ex_cmp_segments :
  map kind (fst (decode_cmp default_maxlen (encode [T KBytes (VBytes (rep 30 7))]))) =
  [KBytesBegin; KBytes; KBytes; KBytes; KBytesEnd].
Proof. vm_compute. reflexivity. Qed.

Example ex_fault :
  decode_all (S (length (encode ex_ts))) default_maxlen true (encode ex_ts) 0 =
  (ex_ts, Fail EFault 224).
Proof. vm_compute. reflexivity. Qed.

Example ex_write_until :
  write_until 4 (stream_writes ex_ts) = (firstn 10 (encode ex_ts), true).
Proof. vm_compute. reflexivity. Qed.

Print Assumptions step_exact.
Print Assumptions decode_encode.
Print Assumptions encoded_len_correct.
Print Assumptions writes_concat.
Print Assumptions stream_writes_concat.
Print Assumptions encode_layout.
Print Assumptions encode_layout_stream.
Print Assumptions layout_token_unique.
Print Assumptions decode_total.
Print Assumptions decode_cmp_total.
Print Assumptions step_sound.
Print Assumptions step_complete.
Print Assumptions accepts_prefix_free.
Print Assumptions decode_exact.
Print Assumptions step_err_offset.
Print Assumptions step_truncated.
Print Assumptions no_silent_truncation.
Print Assumptions limit_boundary_reject.
Print Assumptions limit_boundary_reject_bytes.
Print Assumptions limit_boundary_accept.
Print Assumptions limit_boundary_accept_bytes.
Print Assumptions cmp_same_language.
Print Assumptions cmp_same_class.
Print Assumptions cmp_desegment.
Print Assumptions fault_never_done.
Print Assumptions fault_never_done_cmp.
Print Assumptions fault_tokens_same.
Print Assumptions fail_offset_in_range.
Print Assumptions fail_offset_in_range_cmp.
Print Assumptions write_until_spec.
Print Assumptions writer_fault_prefix.
Print Assumptions encode_accepts.
