(* Proofs/HeapP.v — C18: marshalling over pointer / slice / map / interface graphs
   (Model/Heap.v) terminates on every heap (cyclic or not) within threshold + |heap| + 2
   dereferences; a reference revisited on the current path once detection is on is reported
   as CyclicPointer; heaps without cycles (ranked heaps, shared nodes allowed) marshal
   successfully at any depth: the visited list is per path, so there are no false positives. *)
From Coq Require Import List NArith Arith Bool Lia ZifyBool ZifyNat ZifyN Permutation.
From SbModel Require Import Base.Tokens Model.Heap.
Import ListNotations.
Local Open Scope nat_scope.

(* ================================================================== *)
(* heaps                                                              *)
(* ================================================================== *)
Definition dom (h : heap) : list addr := map fst h.

Lemma dom_length h : length (dom h) = length h.
Proof. apply map_length. Qed.

Lemma hlookup_in h a cell : hlookup h a = Some cell -> In (a, cell) h.
Proof.
  induction h as [|[b w] r IH]; cbn [hlookup]; [discriminate|].
  destruct (N.eqb_spec a b) as [->|Hne].
  - intros [= ->]. now left.
  - intros H. right. auto.
Qed.

Lemma hlookup_dom h a cell : hlookup h a = Some cell -> In a (dom h).
Proof. intros H. apply hlookup_in in H. apply (in_map fst) in H. exact H. Qed.

Lemma dom_hlookup h a : In a (dom h) -> exists cell, hlookup h a = Some cell.
Proof.
  induction h as [|[b w] r IH]; cbn [dom map fst hlookup]; [intros []|].
  intros [Hb|Hr]; destruct (N.eqb_spec a b) as [->|Hne].
  - eauto.
  - congruence.
  - eauto.
  - auto.
Qed.

Lemma existsb_eqb_false a l : existsb (N.eqb a) l = false -> ~ In a l.
Proof.
  intros H Hin. assert (Ht : existsb (N.eqb a) l = true); [|congruence].
  apply existsb_exists. exists a. split; [assumption|apply N.eqb_refl].
Qed.

Lemma existsb_eqb_true a l : In a l -> existsb (N.eqb a) l = true.
Proof. intros Hin. apply existsb_exists. exists a. split; [assumption|apply N.eqb_refl]. Qed.

Lemma nodup_snoc (l : list addr) a : NoDup l -> ~ In a l -> NoDup (l ++ [a]).
Proof.
  intros Hn Ha. eapply Permutation_NoDup; [apply Permutation_cons_append|].
  now constructor.
Qed.

Lemma hbind_fuel r k : r <> HOutOfFuel -> (forall ts, k ts <> HOutOfFuel) -> hbind r k <> HOutOfFuel.
Proof. destruct r; cbn [hbind]; auto. Qed.

(* the references occurring (structurally) in a value position *)
Fixpoint refs (v : hval) : list addr :=
  match v with
  | VInt => []
  | VPtr a => match a with Some b => [b] | None => [] end
  | VSlice a => match a with Some b => [b] | None => [] end
  | VMap a => match a with Some b => [b] | None => [] end
  | VIface None => []
  | VIface (Some x) => refs x
  | VStruct fs => flat_map refs fs
  end.

Definition cell_refs (c : hcell) : list addr :=
  match c with CVal v => refs v | CItems l => flat_map refs l end.

(* an acyclic heap: no dangling reference, and every reference goes to a strictly smaller rank *)
Definition ranked (rk : addr -> nat) (h : heap) : Prop :=
  forall a cell, In (a, cell) h ->
  forall b, In b (cell_refs cell) -> In b (dom h) /\ rk b < rk a.

(* b ranks strictly below every address of the current path *)
Definition above (rk : addr -> nat) (vis : list addr) (b : addr) : Prop :=
  forall x, In x vis -> rk b < rk x.

Definition good (h : heap) (rk : addr -> nat) (vis : list addr) (v : hval) : Prop :=
  forall b, In b (refs v) -> In b (dom h) /\ above rk vis b.

Section WithThreshold.
Variable THRESH : N.

(* ================================================================== *)
(* 2. a reference revisited on the current path is CyclicPointer      *)
(* ================================================================== *)
Theorem enter_revisit c a :
  detect (deeper THRESH c) = true -> In a (visited c) -> enter THRESH c a = None.
Proof.
  intros Hd Hin. unfold enter. rewrite Hd.
  change (visited (deeper THRESH c)) with (visited c).
  now rewrite (existsb_eqb_true a (visited c) Hin).
Qed.

(* the same at the level of the traversal, for the three kinds of reference *)
Corollary walk_revisit_cyclic deref c a :
  detect (deeper THRESH c) = true -> In a (visited c) ->
  walk THRESH deref c (VPtr (Some a)) = HCyclic /\
  walk THRESH deref c (VSlice (Some a)) = HCyclic /\
  walk THRESH deref c (VMap (Some a)) = HCyclic.
Proof.
  intros Hd Hin. cbn [walk]. now rewrite (enter_revisit c a Hd Hin).
Qed.

Corollary mar_revisit_cyclic fuel h c a :
  detect (deeper THRESH c) = true -> In a (visited c) ->
  mar THRESH (S fuel) h c (VPtr (Some a)) = HCyclic.
Proof. intros Hd Hin. cbn [mar]. now apply walk_revisit_cyclic. Qed.

(* conversely the cycle error is only ever raised for an address of the current path *)
Lemma enter_none c a : enter THRESH c a = None ->
  detect (deeper THRESH c) = true /\ In a (visited c).
Proof.
  unfold enter. destruct (detect (deeper THRESH c)) eqn:Hd; [|discriminate].
  change (visited (deeper THRESH c)) with (visited c).
  destruct (existsb (N.eqb a) (visited c)) eqn:E; [|discriminate].
  intros _. split; [reflexivity|].
  apply existsb_exists in E. destruct E as [x [Hx Hax]]. apply N.eqb_eq in Hax. now subst x.
Qed.

Lemma enter_visited c a c' : enter THRESH c a = Some c' ->
  visited c' = visited c \/ visited c' = visited c ++ [a].
Proof.
  unfold enter. destruct (detect (deeper THRESH c)).
  - destruct (existsb (N.eqb a) (visited (deeper THRESH c))); [discriminate|].
    intros [= <-]. right. reflexivity.
  - intros [= <-]. left. reflexivity.
Qed.

(* ================================================================== *)
(* 1. termination                                                     *)
(* ================================================================== *)
Hypothesis THRESH_pos : (0 < THRESH)%N.

(* potential: levels left before detection switches on, then addresses not yet on the path *)
Definition phi (h : heap) (c : hctx) : nat :=
  if detect c then length h - length (visited c)
  else (N.to_nat THRESH - N.to_nat (depth c)) + length h + 1.

Definition inv (h : heap) (c : hctx) : Prop :=
  if detect c then NoDup (visited c) /\ incl (visited c) (dom h)
  else (depth c < THRESH)%N /\ visited c = [].

Lemma inv0 h : inv h hctx0.
Proof. unfold inv, hctx0. cbn [detect depth visited]. split; [exact THRESH_pos|reflexivity]. Qed.

Lemma phi0 h : phi h hctx0 = N.to_nat THRESH + length h + 1.
Proof. unfold phi, hctx0. cbn [detect depth visited]. lia. Qed.

(* one level of indirection (interfaces): invariant kept, potential not increased *)
Lemma deeper_keeps h c : inv h c ->
  inv h (deeper THRESH c) /\ phi h (deeper THRESH c) <= phi h c.
Proof.
  unfold deeper, inv, phi. cbn [depth detect visited].
  destruct (detect c); cbn [orb]; intros Hinv.
  - split; [exact Hinv|lia].
  - destruct Hinv as [Hd Hv]. rewrite Hv.
    destruct (N.eqb_spec (depth c + 1) THRESH) as [He|Hne].
    + split; [split; [constructor|intros x []]|]. cbn [length]. lia.
    + split; [split; [lia|reflexivity]|]. lia.
Qed.

Lemma deeper_strict h c : inv h c -> detect (deeper THRESH c) = false ->
  phi h (deeper THRESH c) < phi h c.
Proof.
  unfold deeper, inv, phi. cbn [depth detect visited].
  destruct (detect c); cbn [orb]; intros Hinv Hd; [discriminate|].
  rewrite Hd. destruct Hinv as [Hlt _]. lia.
Qed.

(* entering a reference that is in the heap keeps the invariant and strictly lowers the potential *)
Lemma enter_progress h c a c' : inv h c -> In a (dom h) -> enter THRESH c a = Some c' ->
  inv h c' /\ phi h c' < phi h c.
Proof.
  intros Hinv Hdom. destruct (deeper_keeps h c Hinv) as [Hinv1 Hphi1].
  unfold enter. destruct (detect (deeper THRESH c)) eqn:Hd.
  - destruct (existsb (N.eqb a) (visited (deeper THRESH c))) eqn:E; [discriminate|].
    intros [= <-]. apply existsb_eqb_false in E.
    unfold inv in Hinv1. rewrite Hd in Hinv1. destruct Hinv1 as [Hnd Hincl].
    assert (Hnd' : NoDup (visited (deeper THRESH c) ++ [a])) by now apply nodup_snoc.
    assert (Hincl' : incl (visited (deeper THRESH c) ++ [a]) (dom h)).
    { intros x Hx. apply in_app_or in Hx. destruct Hx as [Hx|Hx]; [auto|].
      cbn [In] in Hx. destruct Hx as [<-|[]]. assumption. }
    split.
    + unfold inv. cbn [detect visited]. split; assumption.
    + pose proof (NoDup_incl_length Hnd' Hincl') as Hlen.
      rewrite dom_length, app_length in Hlen. cbn [length] in Hlen.
      remember (phi h c) as p0 eqn:Ep0. clear Ep0.
      unfold phi in Hphi1 |- *. rewrite Hd in Hphi1. cbn [detect visited].
      change (visited (deeper THRESH c)) with (visited c) in *.
      rewrite app_length. cbn [length]. lia.
  - intros [= <-]. split; [assumption|]. now apply deeper_strict.
Qed.

Lemma walk_no_oof h n deref : forall v c,
  inv h c -> phi h c <= n ->
  (forall k a c0 c', inv h c0 -> phi h c0 <= n -> enter THRESH c0 a = Some c' ->
                     deref k a c' <> HOutOfFuel) ->
  walk THRESH deref c v <> HOutOfFuel.
Proof.
  induction v as [ |a|a|a| |x IHx|fs IH] using hval_ind2; intros c Hinv Hphi Hd; cbn [walk].
  - discriminate.
  - destruct a as [a|]; [|discriminate].
    destruct (enter THRESH c a) eqn:E; [now apply (Hd 0%N a c)|discriminate].
  - destruct a as [a|]; [|discriminate].
    destruct (enter THRESH c a) eqn:E; [now apply (Hd 1%N a c)|discriminate].
  - destruct a as [a|]; [|discriminate].
    destruct (enter THRESH c a) eqn:E; [now apply (Hd 2%N a c)|discriminate].
  - discriminate.
  - destruct (deeper_keeps h c Hinv) as [Hinv1 Hphi1]. apply IHx; [assumption|lia|assumption].
  - apply hbind_fuel; [|discriminate].
    induction IH as [|x r Hx _ IHr]; [discriminate|].
    apply hbind_fuel; [now apply Hx|]. intros ts. apply hbind_fuel; [exact IHr|discriminate].
Qed.

Lemma mar_no_oof h : forall fuel c v,
  inv h c -> phi h c < fuel -> mar THRESH fuel h c v <> HOutOfFuel.
Proof.
  induction fuel as [|f IH]; intros c v Hinv Hphi; [lia|]. cbn [mar].
  apply walk_no_oof with (h := h) (n := f); [assumption|lia|].
  intros k a c0 c' Hinv0 Hphi0 He. cbv beta.
  destruct (hlookup h a) as [[v'|items]|] eqn:El; [| |discriminate].
  - destruct (enter_progress h c0 a c' Hinv0 (hlookup_dom _ _ _ El) He) as [Hinv' Hlt].
    apply IH; [assumption|lia].
  - destruct (enter_progress h c0 a c' Hinv0 (hlookup_dom _ _ _ El) He) as [Hinv' Hlt].
    clear El. apply hbind_fuel; [|intros b; destruct (k =? 2)%N; discriminate].
    induction items as [|x r IHr]; [discriminate|].
    apply hbind_fuel; [apply IH; [assumption|lia]|].
    intros ts. apply hbind_fuel; [exact IHr|discriminate].
Qed.

(* C18: a fuel that depends only on the size of the heap suffices for every root value *)
Theorem mar_terminates h root :
  mar THRESH (N.to_nat THRESH + length h + 2) h hctx0 root <> HOutOfFuel.
Proof. apply mar_no_oof; [apply inv0|rewrite phi0; lia]. Qed.

(* ================================================================== *)
(* 3. acyclic heaps marshal successfully at any depth                 *)
(* ================================================================== *)

(* no false positive: everything on the path ranks strictly above a *)
Lemma enter_ranked rk c a : above rk (visited c) a -> enter THRESH c a <> None.
Proof.
  intros Hab Hn. apply enter_none in Hn. destruct Hn as [_ Hin].
  specialize (Hab a Hin). lia.
Qed.

Lemma good_field h rk vis fs x : In x fs -> good h rk vis (VStruct fs) -> good h rk vis x.
Proof.
  intros Hx Hg b Hb. apply Hg. cbn [refs]. apply in_flat_map. exists x. split; assumption.
Qed.

Definition deref_ok (h : heap) (n : nat) (vis : list addr)
  (deref : N -> addr -> hctx -> hres) (v : hval) : Prop :=
  forall k a c0 c', In a (refs v) -> inv h c0 -> phi h c0 <= n -> visited c0 = vis ->
                    enter THRESH c0 a = Some c' -> exists ks, deref k a c' = HOk ks.

Lemma walk_ref_ok h rk n vis deref v k a c :
  In a (refs v) -> good h rk vis v -> deref_ok h n vis deref v ->
  inv h c -> phi h c <= n -> visited c = vis ->
  exists ks, match enter THRESH c a with None => HCyclic | Some c' => deref k a c' end = HOk ks.
Proof.
  intros Ha Hg Hd Hinv Hphi Hvis.
  destruct (enter THRESH c a) as [c'|] eqn:E.
  - now apply (Hd k a c c').
  - exfalso. apply (enter_ranked rk c a); [|exact E]. rewrite Hvis. now apply Hg.
Qed.

Lemma walk_ok h rk n vis deref : forall v c,
  inv h c -> phi h c <= n -> visited c = vis ->
  good h rk vis v -> deref_ok h n vis deref v ->
  exists ks, walk THRESH deref c v = HOk ks.
Proof.
  induction v as [ |a|a|a| |x IHx|fs IH] using hval_ind2; intros c Hinv Hphi Hvis Hg Hd; cbn [walk].
  - eauto.
  - destruct a as [a|]; [|eauto].
    apply (walk_ref_ok h rk n vis deref (VPtr (Some a))); auto. now left.
  - destruct a as [a|]; [|eauto].
    apply (walk_ref_ok h rk n vis deref (VSlice (Some a))); auto. now left.
  - destruct a as [a|]; [|eauto].
    apply (walk_ref_ok h rk n vis deref (VMap (Some a))); auto. now left.
  - eauto.
  - destruct (deeper_keeps h c Hinv) as [Hinv1 Hphi1].
    apply IHx; [assumption|lia|exact Hvis|exact Hg|exact Hd].
  - assert (Hg' : forall x, In x fs -> good h rk vis x).
    { intros x Hx. now apply (good_field h rk vis fs). }
    assert (Hd' : forall x, In x fs -> deref_ok h n vis deref x).
    { intros x Hx k a c0 c' Ha. apply Hd. cbn [refs]. apply in_flat_map. exists x. split; assumption. }
    clear Hg Hd.
    match goal with |- context [hbind (?F fs) _] =>
      assert (Hbody : exists body, F fs = HOk body) end.
    { induction IH as [|x r Hx _ IHr]; [eauto|].
      destruct (Hx c Hinv Hphi Hvis (Hg' x (or_introl eq_refl)) (Hd' x (or_introl eq_refl))) as [ka Hka].
      destruct IHr as [kb Hkb].
      - intros y Hy. apply Hg'. now right.
      - intros y Hy. apply Hd'. now right.
      - rewrite Hka. cbn [hbind]. rewrite Hkb. cbn [hbind]. eauto. }
    destruct Hbody as [body Hbody]. rewrite Hbody. cbn [hbind]. eauto.
Qed.

Lemma mar_ok h rk : ranked rk h -> forall fuel c v,
  inv h c -> phi h c < fuel -> good h rk (visited c) v ->
  exists ks, mar THRESH fuel h c v = HOk ks.
Proof.
  intros Hrk. induction fuel as [|f IH]; intros c v Hinv Hphi Hg; [lia|]. cbn [mar].
  apply walk_ok with (h := h) (rk := rk) (n := f) (vis := visited c); [assumption|lia|reflexivity|assumption|].
  intros k a c0 c' Ha Hinv0 Hphi0 Hvis He.
  destruct (Hg a Ha) as [Hdom Hab].
  destruct (dom_hlookup h a Hdom) as [cell El]. rewrite El.
  destruct (enter_progress h c0 a c' Hinv0 Hdom He) as [Hinv' Hlt].
  assert (Hcell : forall b, In b (cell_refs cell) -> In b (dom h) /\ above rk (visited c') b).
  { intros b Hb. destruct (Hrk a cell (hlookup_in _ _ _ El) b Hb) as [Hbd Hlt']. split; [assumption|].
    intros x Hx.
    assert (Hx' : In x (visited c0 ++ [a])).
    { destruct (enter_visited c0 a c' He) as [E|E]; rewrite E in Hx; [apply in_or_app; now left|assumption]. }
    apply in_app_or in Hx'. destruct Hx' as [Hx'|Hx'].
    - rewrite Hvis in Hx'. specialize (Hab x Hx'). lia.
    - cbn [In] in Hx'. destruct Hx' as [<-|[]]. assumption. }
  destruct cell as [v'|items].
  - apply IH; [assumption|lia|exact Hcell].
  - cbn [cell_refs] in Hcell. clear El.
    match goal with |- context [hbind (?F items) _] =>
      assert (Hbody : exists body, F items = HOk body) end.
    { induction items as [|x r IHr]; [eauto|].
      destruct (IH c' x Hinv') as [ka Hka]; [lia| |].
      - intros b Hb. apply Hcell. cbn [flat_map]. apply in_or_app. now left.
      - destruct IHr as [kb Hkb].
        + intros b Hb. apply Hcell. cbn [flat_map]. apply in_or_app. now right.
        + rewrite Hka. cbn [hbind]. rewrite Hkb. cbn [hbind]. eauto. }
    destruct Hbody as [body Hbody]. rewrite Hbody. cbn [hbind]. eauto.
Qed.

(* The hypothesis [NoDup (map fst h)] of the statement is not needed: [ranked] speaks about every
   binding of the heap, in particular about the first one, which is the one [hlookup] returns. *)
Theorem acyclic_ok_gen h rk root :
  ranked rk h -> (forall b, In b (refs root) -> In b (dom h)) ->
  exists ks, mar THRESH (N.to_nat THRESH + length h + 2) h hctx0 root = HOk ks.
Proof.
  intros Hrk Hroot. apply (mar_ok h rk Hrk); [apply inv0|rewrite phi0; lia|].
  intros b Hb. split; [now apply Hroot|intros x []].
Qed.

Theorem acyclic_ok h rk root :
  ranked rk h -> (forall b, In b (refs root) -> In b (dom h)) -> NoDup (map fst h) ->
  exists ks, mar THRESH (N.to_nat THRESH + length h + 2) h hctx0 root = HOk ks.
Proof. intros Hrk Hroot _. now apply (acyclic_ok_gen h rk). Qed.

End WithThreshold.

(* ================================================================== *)
(* the instance of marshal.go: threshold 1000                         *)
(* ================================================================== *)
Lemma go_threshold_pos : (0 < go_threshold)%N.
Proof. reflexivity. Qed.

Corollary marshal_heap_terminates h root : marshal_heap h root <> HOutOfFuel.
Proof. unfold marshal_heap, heap_fuel. apply mar_terminates. exact go_threshold_pos. Qed.

Corollary marshal_heap_acyclic_ok h rk root :
  ranked rk h -> (forall b, In b (refs root) -> In b (dom h)) ->
  exists ks, marshal_heap h root = HOk ks.
Proof.
  intros Hrk Hroot. unfold marshal_heap, heap_fuel.
  apply (acyclic_ok_gen go_threshold go_threshold_pos h rk); assumption.
Qed.

(* ================================================================== *)
(* 4. examples                                                        *)
(* ================================================================== *)
Local Open Scope N_scope.

(* a 2-cycle of pointers: detection switches on at depth 1000, the error follows *)
Definition ex_cycle2 : heap :=
  [(0, CVal (VStruct [VPtr (Some 1)])); (1, CVal (VStruct [VPtr (Some 0)]))].

Example ex_cycle2_cyclic : marshal_heap ex_cycle2 (VPtr (Some 0)) = HCyclic.
Proof. vm_compute. reflexivity. Qed.

Example ex_cycle2_small : mar 3 (3 + 2 + 2) ex_cycle2 hctx0 (VPtr (Some 0)) = HCyclic.
Proof. vm_compute. reflexivity. Qed.

(* a slice that contains itself through an interface element *)
Definition ex_self_slice : heap := [(0, CItems [VIface (Some (VSlice (Some 0)))])].

Example ex_self_slice_cyclic : marshal_heap ex_self_slice (VSlice (Some 0)) = HCyclic.
Proof. vm_compute. reflexivity. Qed.

Example ex_self_slice_small : mar 3 (3 + 1 + 2) ex_self_slice hctx0 (VSlice (Some 0)) = HCyclic.
Proof. vm_compute. reflexivity. Qed.

(* a map whose value points back to the map *)
Example ex_map_cyclic :
  marshal_heap [(0, CItems [VPtr (Some 1)]); (1, CVal (VMap (Some 0)))] (VMap (Some 0)) = HCyclic.
Proof. vm_compute. reflexivity. Qed.

(* the hypotheses of enter_revisit are satisfiable *)
Example ex_enter_revisit : enter 3 (HC 5 true [0; 1]) 1 = None.
Proof. apply enter_revisit; [reflexivity|cbn [visited In]; auto]. Qed.

(* a DAG with a shared node (2 is reached along 0.2, 0.1.2 and through the slice 3) *)
Definition ex_dag : heap :=
  [(0, CVal (VStruct [VPtr (Some 1); VPtr (Some 2); VSlice (Some 3)]));
   (1, CVal (VStruct [VIface (Some (VPtr (Some 2)))]));
   (3, CItems [VPtr (Some 2); VPtr (Some 2); VMap None]);
   (2, CVal (VStruct [VInt; VPtr None]))].

Definition ex_rk (a : addr) : nat :=
  match a with 0 => 3%nat | 1 => 2%nat | 3 => 1%nat | _ => 0%nat end.

Lemma ex_dag_ranked : ranked ex_rk ex_dag.
Proof.
  intros a cell Hin b Hb. unfold ex_dag in Hin. cbn [In] in Hin.
  destruct Hin as [E|[E|[E|[E|[]]]]]; injection E as <- <-; cbn in Hb;
    repeat (destruct Hb as [<-|Hb]; [split; [cbn; tauto|cbn; lia]|]); destruct Hb.
Qed.

Lemma ex_dag_root : forall b, In b (refs (VPtr (Some 0))) -> In b (dom ex_dag).
Proof. intros b [<-|[]]. cbn. tauto. Qed.

(* with detection on from the first level the shared node is not mistaken for a cycle *)
Example ex_dag_ok_small : exists ks, mar 1 (1 + 4 + 2) ex_dag hctx0 (VPtr (Some 0)) = HOk ks.
Proof. vm_compute. eauto. Qed.

Example ex_dag_ok_small_thm : exists ks, mar 1 (N.to_nat 1 + length ex_dag + 2) ex_dag hctx0 (VPtr (Some 0)) = HOk ks.
Proof.
  apply (acyclic_ok 1 eq_refl ex_dag ex_rk); [exact ex_dag_ranked|exact ex_dag_root|].
  cbn. repeat constructor; cbn; lia.
Qed.

Example ex_dag_ok : exists ks, marshal_heap ex_dag (VPtr (Some 0)) = HOk ks.
Proof. vm_compute. eauto. Qed.

Example ex_dag_ok_thm : exists ks, marshal_heap ex_dag (VPtr (Some 0)) = HOk ks.
Proof. apply (marshal_heap_acyclic_ok ex_dag ex_rk); [exact ex_dag_ranked|exact ex_dag_root]. Qed.

(* a dangling reference is reported, not looped on *)
Example ex_dangling : marshal_heap ex_dag (VPtr (Some 7)) = HDangling.
Proof. vm_compute. reflexivity. Qed.

Print Assumptions mar_terminates.
Print Assumptions marshal_heap_terminates.
Print Assumptions enter_revisit.
Print Assumptions acyclic_ok.
Print Assumptions marshal_heap_acyclic_ok.
