(* Proofs/UnmarshalP.v — properties of the unmarshaller model (Model/Unmarshal.v):
   C05 termination (fuel monotonicity, totality with an explicit fuel bound, consumed prefix),
   C01 round trip on the first universe, C16 assignment by name / unknown fields,
   C05 kind mismatch reporting, Nil / end-marker / EOF behaviour. *)
From Coq Require Import Lia ZifyBool ZifyNat ZifyN Arith.
From SbModel Require Import Spec.Conform.
Local Open Scope N_scope.

(* ====================================================================================== *)
(* Part 0.  One unfolding of [unm]: the loops as top-level fixpoints over the recursive    *)
(*          call [rec], and the dispatch split into small per-token-kind definitions.      *)
(*          [unm_S : unm pf (S f) o R t cur ts = ustep pf o R (unm pf f o R) t cur ts] is   *)
(*          proved by [reflexivity]: the definitions below are a transcription of the body  *)
(*          of [unm] and the kernel checks that they are convertible with it.  If the model *)
(*          changes, [unm_S] fails (after ~15 s of failed unification) and the part that    *)
(*          changed has to be transcribed again; everything after Part 0 only uses [unm_S], *)
(*          [unm_O] and treats [unm] as opaque.                                             *)
(* ====================================================================================== *)

Section Step.
Variable pf : bytes -> N -> option N.
Variable o : copts.
Variable R : registry.
Variable rec : ty -> gval -> list token -> res (gval * list token).

Fixpoint arr_loop (g : nat) (et : ty) (items : list gval) (idx : nat) (ts : list token) : res (list gval * list token) :=
  match g with
  | O => OutOfFuel
  | S g' =>
    match ts with
    | [] =>
        if Nat.leb (length items) idx then Err ETooMany
        else bind (rec et (nth idx items (zero et)) []) (fun _ => Err EEnd)
    | tk :: rest =>
        if kind tk =? KArrayEnd then Ok (items, rest)
        else if Nat.leb (length items) idx then Err ETooMany
        else bind (rec et (nth idx items (zero et)) ts) (fun r =>
             arr_loop g' et (set_nth idx (fst r) items) (S idx) (snd r))
    end
  end.

Fixpoint slice_loop (g : nat) (et : ty) (acc : list gval) (ts : list token) : res (list gval * list token) :=
  match g with
  | O => OutOfFuel
  | S g' =>
    match ts with
    | [] => bind (rec et (zero et) []) (fun _ => Err EEnd)
    | tk :: rest =>
        if kind tk =? KArrayEnd then Ok (acc, rest)
        else bind (rec et (zero et) ts) (fun r => slice_loop g' et (acc ++ [fst r]) (snd r))
    end
  end.

Fixpoint struct_loop (g : nat) (fs : list (bytes * bool * ty)) (depr : list bytes) (vals : list gval) (ts : list token)
  : res (list gval * list token) :=
  match g with
  | O => OutOfFuel
  | S g' =>
    match ts with
    | [] => Err EEnd
    | tk :: rest =>
        if kind tk =? KObjectEnd then Ok (vals, rest)
        else bind (rec TString (GStr []) ts) (fun nr =>
             let name := match fst nr with GStr s => s | _ => [] end in
             match find_field name fs 0 with
             | Some (i, ft) =>
                 bind (rec ft (nth i vals (zero ft)) (snd nr)) (fun r =>
                 struct_loop g' fs depr (set_nth i (fst r) vals) (snd r))
             | None =>
                 if strict o && negb (existsb (bytes_eqb name) depr) then Err EUnknownField
                 else bind (skip_value 0 (snd nr)) (fun rest' => struct_loop g' fs depr vals rest')
             end)
    end
  end.

Fixpoint newstruct_loop (g : nat) (fs : list (bytes * bool * ty)) (vals : list gval) (ts : list token)
  : res (gval * list token) :=
  match g with
  | O => OutOfFuel
  | S g' =>
    match ts with
    | [] => Err EEnd
    | tk :: rest =>
        if kind tk =? KObjectEnd then Ok (GAny (Some (TStruct fs, GStruct vals)), rest)
        else bind (rec TString (GStr []) ts) (fun nr =>
             let name := match fst nr with GStr s => s | _ => [] end in
             if negb (is_exported_ident name) then Err EBadField
             else if existsb (fun fd => bytes_eqb (fname fd) name) fs then Err EDupField
             else bind (rec TAny (GAny None) (snd nr)) (fun r =>
                  match fst r with
                  | GAny (Some (vt, v)) => newstruct_loop g' (fs ++ [(name, true, vt)]) (vals ++ [v]) (snd r)
                  | _ => Err EEnd
                  end))
    end
  end.

Fixpoint map_loop (g : nat) (kt vt : ty) (isnil : bool) (m : list (gval * gval)) (ts : list token)
  : res (gval * list token) :=
  match g with
  | O => OutOfFuel
  | S g' =>
    match ts with
    | [] => bind (rec kt (zero kt) []) (fun _ => Err EEnd)
    | tk :: rest =>
        if kind tk =? KMapEnd then Ok (GMap isnil m, rest)
        else bind (rec kt (zero kt) ts) (fun kr =>
             let key := iface_key kt (fst kr) in
             if negb (comparable_val key) then Err EBadMapKey
             else
             bind (rec vt (zero vt) (snd kr)) (fun vr =>
             map_loop g' kt vt false (map_set key (fst vr) m) (snd vr)))
    end
  end.

Fixpoint genmap_loop (g : nat) (m : list (gval * gval)) (ts : list token) : res (gval * list token) :=
  match g with
  | O => OutOfFuel
  | S g' =>
    match ts with
    | [] => Err EEnd
    | tk :: rest =>
        if kind tk =? KMapEnd then Ok (GAny (Some (TMap TAny TAny, GMap false m)), rest)
        else bind (rec TAny (GAny None) ts) (fun kr =>
             let key := to_comparable (fst kr) in
             match key with
             | GAny None => Err EBadMapKey
             | GAny (Some (kt, kv)) =>
                 if negb (comparable_ty kt) then Err EBadMapKey
                 else if match kv with GF64 b => f64_is_nan b | GF32 b => f32_is_nan b | _ => false end then Err EBadMapKey
                 else bind (rec TAny (GAny None) (snd kr)) (fun vr =>
                      genmap_loop g' (map_set key (fst vr) m) (snd vr))
             | _ => Err EOther
             end)
    end
  end.

Fixpoint tuple_loop (g : nat) (outs : list ty) (tys : list ty) (vals : list gval) (ts : list token)
  : res (list ty * list gval * list ty * list token) :=
  match g with
  | O => OutOfFuel
  | S g' =>
    match ts with
    | [] => Err EEnd
    | tk :: rest =>
        if kind tk =? KTupleEnd then Ok (outs, vals, tys, rest)
        else match outs with
             | ot :: outs' =>
                 bind (rec ot (zero ot) ts) (fun r => tuple_loop g' outs' (tys ++ [ot]) (vals ++ [fst r]) (snd r))
             | [] =>
                 bind (rec TAny (GAny None) ts) (fun r =>
                 tuple_loop g' [] (tys ++ [dyn_ty (fst r)]) (vals ++ [dyn_val (fst r)]) (snd r))
             end
    end
  end.

(* ---- the same body, cut into pieces ---- *)
Definition is_time (t : ty) : bool := match t with TTime => true | _ => false end.

Definition conv_tok (t : ty) (tk0 : token) : res token :=
  if kind tk0 =? KLiteral
  then match val tk0 with VStr s => convert_literal pf t s | _ => Err EOther end
  else Ok tk0.

Definition time_case (tk : token) (rest : list token) : res (gval * list token) :=
  if kind tk =? KString then
    match val tk with
    | VStr s => if valid_time_enc s then Ok (GTime s, rest) else Err EOther
    | _ => Err EOther
    end
  else Err (EMismatch (kind tk) 24).

Definition nan_case (t ut : ty) (k : N) (rest : list token) : res (gval * list token) :=
  match ut with
  | TF32 => Ok (GF32 f32_nan_bits, rest)
  | TF64 => Ok (GF64 f64_nan_bits, rest)
  | TAny => Ok (GAny (Some (TF64, GF64 f64_nan_bits)), rest)
  | _ => Err (EMismatch k (rk_of t))
  end.

Definition bytes_case (t ut : ty) (cur : gval) (tk : token) (rest : list token) : res (gval * list token) :=
  match ut, val tk with
  | TBytes, VBytes s => Ok (GBytes false s, rest)
  | TByteArray n, VBytes s =>
      let old := bytes_of_gval cur in
      if Nat.ltb n (length s) then Err ETooMany
      else Ok (GBytes false (firstn n s ++ skipn (length s) old), rest)
  | TAny, VBytes s => Ok (GAny (Some (TBytes, GBytes false s)), rest)
  | _, _ => Err (EMismatch (kind tk) (rk_of t))
  end.

Definition array_case (t ut : ty) (cur : gval) (k : N) (rest : list token) : res (gval * list token) :=
  match ut with
  | TArray n e =>
      bind (arr_loop (S (length rest)) e (items_of_gval cur) 0%nat rest) (fun r => Ok (GList false (fst r), snd r))
  | TByteArray n =>
      bind (arr_loop (S (length rest)) (TUint W8) (items_of_gval cur) 0%nat rest) (fun r => Ok (GBytes false (to_bytes (fst r)), snd r))
  | TSlice e =>
      bind (slice_loop (S (length rest)) e (items_of_gval cur) rest) (fun r =>
      Ok (GList (is_nil_container cur && match fst r with [] => true | _ => false end) (fst r), snd r))
  | TBytes =>
      bind (slice_loop (S (length rest)) (TUint W8) (items_of_gval cur) rest) (fun r =>
      Ok (GBytes (is_nil_container cur && match fst r with [] => true | _ => false end) (to_bytes (fst r)), snd r))
  | TAny =>
      bind (slice_loop (S (length rest)) TAny [] rest) (fun r =>
      Ok (GAny (Some (TSlice TAny, GList (match fst r with [] => true | _ => false end) (fst r))), snd r))
  | _ => Err (EMismatch k (rk_of t))
  end.

Definition object_case (t ut : ty) (cur : gval) (k : N) (rest : list token) : res (gval * list token) :=
  match ut with
  | TStruct fs =>
      let vals := match cur with GStruct vs => vs | _ => map (fun fd => zero (snd fd)) fs end in
      bind (struct_loop (S (length rest)) fs (depr_of t) vals rest) (fun r => Ok (GStruct (fst r), snd r))
  | TAny => newstruct_loop (S (length rest)) [] [] rest
  | _ => Err (EMismatch k (rk_of t))
  end.

Definition map_case (t ut : ty) (cur : gval) (k : N) (rest : list token) : res (gval * list token) :=
  match ut with
  | TMap kt vt =>
      let '(isnil, m) := match cur with GMap n m => (n, m) | _ => (true, []) end in
      map_loop (S (length rest)) kt vt isnil m rest
  | TAny => genmap_loop (S (length rest)) [] rest
  | _ => Err (EMismatch k (rk_of t))
  end.

Definition tuple_case (t ut : ty) (k : N) (rest : list token) : res (gval * list token) :=
  match ut with
  | TFunc outs =>
      bind (tuple_loop (S (length rest)) outs [] [] rest) (fun r =>
      let '(outs', vals, tys, rest') := r in
      match outs' with
      | _ :: _ => Err ETooFew
      | [] =>
          if Nat.ltb 50 (length vals) then Err ETooMany
          else if Nat.eqb (length vals) (length outs) then Ok (GFunc (Some vals), rest')
          else Err EBadTuple
      end)
  | TAny =>
      bind (tuple_loop (S (length rest)) [] [] [] rest) (fun r =>
      let '(_, vals, tys, rest') := r in
      if Nat.ltb 50 (length vals) then Err ETooMany
      else Ok (GAny (Some (TFunc tys, GFunc (Some vals))), rest'))
  | _ => Err (EMismatch k (rk_of t))
  end.

Definition typename_case (t ut : ty) (cur : gval) (tk : token) (rest : list token) : res (gval * list token) :=
  match ut, val tk with
  | TAny, VStr name =>
      match reg_lookup R name with
      | Some rt => bind (rec rt (zero rt) rest) (fun r => Ok (GAny (Some (rt, fst r)), snd r))
      | None => rec t cur rest
      end
  | _, _ => rec t cur rest
  end.

Definition scalar_case (t ut : ty) (tk : token) (rest : list token) : res (gval * list token) :=
  match val tk with
  | VNone => Err EBadKind
  | _ =>
      if (kind tk =? KRef) || (kind tk =? KLiteral) then Err EBadKind
      else match ut with
           | TAny => match any_of_token tk with Some d => Ok (GAny (Some d), rest) | None => Err EBadKind end
           | _ => bind (set_scalar t tk) (fun v => Ok (v, rest))
           end
  end.

Definition dispatch (t ut : ty) (cur : gval) (tk : token) (rest : list token) : res (gval * list token) :=
  let k := kind tk in
  if k =? KNaN then nan_case t ut k rest
  else if k =? KBytes then bytes_case t ut cur tk rest
  else if k =? KArray then array_case t ut cur k rest
  else if k =? KObject then object_case t ut cur k rest
  else if k =? KMap then map_case t ut cur k rest
  else if k =? KTuple then tuple_case t ut k rest
  else if k =? KTypeName then typename_case t ut cur tk rest
  else scalar_case t ut tk rest.

Definition ptr_or_dispatch (t ut : ty) (cur : gval) (tk : token) (rest : list token) : res (gval * list token) :=
  match ut with
  | TPtr e => bind (rec e (zero e) (tk :: rest)) (fun r => Ok (GPtr (Some (fst r)), snd r))
  | _ => dispatch t ut cur tk rest
  end.

Definition ustep (t : ty) (cur : gval) (ts : list token) : res (gval * list token) :=
  match ts with
  | [] => match underlying t with
          | TTime => Err (EMismatch KInvalid 24)
          | _ => Err EEnd
          end
  | tk0 :: rest =>
      bind (conv_tok t tk0) (fun tk =>
      if (kind tk =? KTypeName) && negb (match ptr_base t with TAny => true | _ => false end) then rec t cur rest
      else
      match underlying t with
      | TTime => time_case tk rest
      | ut =>
        if kind tk =? KNil then Ok (cur, rest)
        else if is_end_kind (kind tk) then Err EUnexpEndTok
        else ptr_or_dispatch t ut cur tk rest
      end)
  end.

End Step.

Lemma unm_S pf f o R t cur ts :
  unm pf (S f) o R t cur ts = ustep pf o R (unm pf f o R) t cur ts.
Proof. reflexivity. Qed.

Lemma unm_O pf o R t cur ts : unm pf 0 o R t cur ts = OutOfFuel.
Proof. reflexivity. Qed.

Global Opaque unm.

Arguments unm_S : clear implicits.

(* ====================================================================================== *)
(* Part 1.  C05: fuel monotonicity                                                         *)
(* ====================================================================================== *)

Definition le_res {A} (r1 r2 : res A) : Prop := r1 = OutOfFuel \/ r1 = r2.

Lemma le_res_refl {A} (r : res A) : le_res r r.
Proof. right; reflexivity. Qed.

Lemma bind_le {A B} (r1 r2 : res A) (k1 k2 : A -> res B) :
  le_res r1 r2 -> (forall a, le_res (k1 a) (k2 a)) -> le_res (bind r1 k1) (bind r2 k2).
Proof.
  intros [H|H] Hk; subst.
  - left; reflexivity.
  - destruct r2 as [a|e|]; cbn [bind]; [apply Hk|right; reflexivity|left; reflexivity].
Qed.

Definition rec_t := ty -> gval -> list token -> res (gval * list token).
Definition rec_le (rec1 rec2 : rec_t) : Prop := forall t cur ts, le_res (rec1 t cur ts) (rec2 t cur ts).

Ltac le_step :=
  match goal with
  | |- le_res ?x ?x => apply le_res_refl
  | |- le_res (bind _ _) (bind _ _) => apply bind_le; [|intros ?]
  | |- le_res (if ?c then _ else _) (if ?c then _ else _) => destruct c
  | |- le_res (match ?x with _ => _ end) (match ?x with _ => _ end) => destruct x
  | H : rec_le ?r1 ?r2 |- le_res (?r1 _ _ _) (?r2 _ _ _) => apply H
  | H : forall _, _ |- _ => apply H
  end.
Ltac le_auto := repeat le_step.

Section Mono.
Variable pf : bytes -> N -> option N.
Variable o : copts.
Variable R : registry.
Variables rec1 rec2 : rec_t.
Hypothesis Hrec : rec_le rec1 rec2.

Lemma arr_loop_le : forall g et items idx ts,
  le_res (arr_loop rec1 g et items idx ts) (arr_loop rec2 g et items idx ts).
Proof. induction g as [|g IH]; intros; cbn [arr_loop]; le_auto. Qed.

Lemma slice_loop_le : forall g et acc ts,
  le_res (slice_loop rec1 g et acc ts) (slice_loop rec2 g et acc ts).
Proof. induction g as [|g IH]; intros; cbn [slice_loop]; le_auto. Qed.

Lemma struct_loop_le : forall g fs depr vals ts,
  le_res (struct_loop o rec1 g fs depr vals ts) (struct_loop o rec2 g fs depr vals ts).
Proof.
  induction g as [|g IH]; intros; cbn [struct_loop]; le_auto.
Qed.

Lemma newstruct_loop_le : forall g fs vals ts,
  le_res (newstruct_loop rec1 g fs vals ts) (newstruct_loop rec2 g fs vals ts).
Proof. induction g as [|g IH]; intros; cbn [newstruct_loop]; le_auto. Qed.

Lemma map_loop_le : forall g kt vt isnil m ts,
  le_res (map_loop rec1 g kt vt isnil m ts) (map_loop rec2 g kt vt isnil m ts).
Proof. induction g as [|g IH]; intros; cbn [map_loop]; le_auto. Qed.

Lemma genmap_loop_le : forall g m ts,
  le_res (genmap_loop rec1 g m ts) (genmap_loop rec2 g m ts).
Proof. induction g as [|g IH]; intros; cbn [genmap_loop]; le_auto. Qed.

Lemma tuple_loop_le : forall g outs tys vals ts,
  le_res (tuple_loop rec1 g outs tys vals ts) (tuple_loop rec2 g outs tys vals ts).
Proof. induction g as [|g IH]; intros; cbn [tuple_loop]; le_auto. Qed.

Lemma dispatch_le t ut cur tk rest :
  le_res (dispatch o R rec1 t ut cur tk rest) (dispatch o R rec2 t ut cur tk rest).
Proof.
  unfold dispatch.
  destruct (kind tk =? KNaN); [apply le_res_refl|].
  destruct (kind tk =? KBytes); [apply le_res_refl|].
  destruct (kind tk =? KArray).
  { unfold array_case. destruct ut; le_auto; (apply arr_loop_le || apply slice_loop_le). }
  destruct (kind tk =? KObject).
  { unfold object_case. destruct ut; le_auto; (apply struct_loop_le || apply newstruct_loop_le). }
  destruct (kind tk =? KMap).
  { unfold map_case. destruct ut; le_auto; (apply map_loop_le || apply genmap_loop_le). }
  destruct (kind tk =? KTuple).
  { unfold tuple_case. destruct ut; le_auto; apply tuple_loop_le. }
  destruct (kind tk =? KTypeName).
  { unfold typename_case. destruct ut; le_auto. }
  apply le_res_refl.
Qed.

Lemma ustep_le t cur ts :
  le_res (ustep pf o R rec1 t cur ts) (ustep pf o R rec2 t cur ts).
Proof.
  unfold ustep. destruct ts as [|tk0 rest]; [apply le_res_refl|].
  apply bind_le; [apply le_res_refl|]. intros tk.
  destruct ((kind tk =? KTypeName) && negb match ptr_base t with TAny => true | _ => false end); [apply Hrec|].
  destruct (underlying t); try apply le_res_refl;
    (destruct (kind tk =? KNil); [apply le_res_refl|]);
    (destruct (is_end_kind (kind tk)); [apply le_res_refl|]);
    unfold ptr_or_dispatch; try apply dispatch_le.
  le_auto.
Qed.

End Mono.

Lemma unm_rec_le pf o R : forall f f', (f <= f')%nat -> rec_le (unm pf f o R) (unm pf f' o R).
Proof.
  induction f as [|f IH]; intros f' Hle t cur ts.
  - left. apply unm_O.
  - destruct f' as [|f']; [lia|].
    rewrite !unm_S. apply ustep_le. apply IH. lia.
Qed.

(* item 1 *)
Theorem unm_fuel_mono pf o R : forall f t cur ts r,
  unm pf f o R t cur ts = r -> r <> OutOfFuel ->
  forall f', (f <= f')%nat -> unm pf f' o R t cur ts = r.
Proof.
  intros f t cur ts r Hr Hne f' Hle.
  destruct (unm_rec_le pf o R f f' Hle t cur ts) as [H|H]; congruence.
Qed.

(* ====================================================================================== *)
(* Part 2.  C05: every successful call consumes a non-empty prefix of its input            *)
(* ====================================================================================== *)

Definition ssuffix (rest ts : list token) : Prop := exists used, ts = used ++ rest /\ used <> [].
Definition wsuffix (rest ts : list token) : Prop := exists used, ts = used ++ rest.

Definition sfx {X} (ts : list token) (r : res (X * list token)) : Prop :=
  forall x, r = Ok x -> ssuffix (snd x) ts.
Definition wsfx {X} (ts : list token) (r : res (X * list token)) : Prop :=
  forall x, r = Ok x -> wsuffix (snd x) ts.

Lemma ssuffix_length rest ts : ssuffix rest ts -> (length rest < length ts)%nat.
Proof.
  intros (used & -> & Hne). rewrite app_length. destruct used; [congruence|cbn; lia].
Qed.
Lemma wsuffix_length rest ts : wsuffix rest ts -> (length rest <= length ts)%nat.
Proof. intros (used & ->). rewrite app_length. lia. Qed.

Lemma ssuffix_w rest ts : ssuffix rest ts -> wsuffix rest ts.
Proof. intros (u & H & _); exists u; exact H. Qed.
Lemma ssuffix_trans_w a b c : ssuffix a b -> wsuffix b c -> ssuffix a c.
Proof.
  intros (u & -> & Hu) (w & ->). exists (w ++ u). split; [now rewrite app_assoc|].
  intros H. apply app_eq_nil in H. tauto.
Qed.
Lemma wsuffix_trans_s a b c : wsuffix a b -> ssuffix b c -> ssuffix a c.
Proof.
  intros (u & ->) (w & -> & Hw). exists (w ++ u). split; [now rewrite app_assoc|].
  intros H. apply app_eq_nil in H. tauto.
Qed.
Lemma wsuffix_cons a tk ts : wsuffix a ts -> ssuffix a (tk :: ts).
Proof. intros (u & ->). exists (tk :: u). split; [reflexivity|discriminate]. Qed.
Lemma ssuffix_head a tk tk' ts : ssuffix a (tk :: ts) -> ssuffix a (tk' :: ts).
Proof.
  intros (u & H & Hu). destruct u as [|x u]; [congruence|]. cbn in H. injection H as _ H.
  exists (tk' :: u). split; [cbn; now rewrite H|discriminate].
Qed.
Lemma wsuffix_refl a : wsuffix a a.
Proof. exists []; reflexivity. Qed.

Lemma sfx_w {X} ts (r : res (X * list token)) : sfx ts r -> wsfx ts r.
Proof. intros H x Hx. apply ssuffix_w, (H x Hx). Qed.
Lemma wsfx_ok {X} ts (v : X) : wsfx ts (Ok (v, ts)).
Proof. intros x [= <-]. apply wsuffix_refl. Qed.
Lemma sfx_ok_cons {X} tk ts (v : X) : sfx (tk :: ts) (Ok (v, ts)).
Proof. intros x [= <-]. apply wsuffix_cons, wsuffix_refl. Qed.
Lemma sfx_err {X} ts e : @sfx X ts (Err e).
Proof. intros x H; discriminate. Qed.
Lemma wsfx_err {X} ts e : @wsfx X ts (Err e).
Proof. intros x H; discriminate. Qed.
Lemma sfx_oof {X} ts : @sfx X ts OutOfFuel.
Proof. intros x H; discriminate. Qed.
Lemma wsfx_oof {X} ts : @wsfx X ts OutOfFuel.
Proof. intros x H; discriminate. Qed.

Lemma bind_sfx {X Y} ts (r : res (X * list token)) (k : X * list token -> res (Y * list token)) :
  sfx ts r -> (forall a, wsfx (snd a) (k a)) -> sfx ts (bind r k).
Proof.
  intros Hr Hk y Hy. destruct r as [a|e|]; cbn [bind] in Hy; try discriminate.
  eapply wsuffix_trans_s; [apply (Hk a y Hy)|apply (Hr a eq_refl)].
Qed.
Lemma sfx_cons_w {X} tk ts (r : res (X * list token)) : wsfx ts r -> sfx (tk :: ts) r.
Proof. intros H x Hx. apply wsuffix_cons, (H x Hx). Qed.
Lemma sfx_head {X} tk tk' ts (r : res (X * list token)) : sfx (tk :: ts) r -> sfx (tk' :: ts) r.
Proof. intros H x Hx. eapply ssuffix_head, (H x Hx). Qed.

Lemma wsuffix_trans_w a b c : wsuffix a b -> wsuffix b c -> wsuffix a c.
Proof. intros (u & ->) (w & ->). exists (w ++ u). now rewrite app_assoc. Qed.

(* skipValue consumes a non-empty prefix, and never runs out of fuel (it has none) *)
Lemma skip_value_suffix : forall ts d rest, skip_value d ts = Ok rest -> ssuffix rest ts.
Proof.
  induction ts as [|tk ts IH]; intros d rest; cbn [skip_value]; [discriminate|].
  destruct (is_open_kind (kind tk)); [intros H; apply wsuffix_cons, ssuffix_w, (IH _ _ H)|].
  destruct (kind tk =? KTypeName); [intros H; apply wsuffix_cons, ssuffix_w, (IH _ _ H)|].
  destruct (is_end_kind (kind tk)).
  - destruct d as [|[|d]]; [discriminate|intros [= <-]; apply wsuffix_cons, wsuffix_refl|].
    intros H; apply wsuffix_cons, ssuffix_w, (IH _ _ H).
  - destruct d as [|d]; [intros [= <-]; apply wsuffix_cons, wsuffix_refl|].
    intros H; apply wsuffix_cons, ssuffix_w, (IH _ _ H).
Qed.

Lemma skip_value_noof : forall ts d, skip_value d ts <> OutOfFuel.
Proof.
  induction ts as [|tk ts IH]; intros d; cbn [skip_value]; [discriminate|].
  destruct (is_open_kind (kind tk)); [apply IH|].
  destruct (kind tk =? KTypeName); [apply IH|].
  destruct (is_end_kind (kind tk)).
  - destruct d as [|[|d]]; [discriminate|discriminate|apply IH].
  - destruct d as [|d]; [discriminate|apply IH].
Qed.

Definition rec_sfx (rec : rec_t) : Prop := forall t cur ts, sfx ts (rec t cur ts).

Ltac sfx_step :=
  match goal with
  | |- wsfx ?ts (Ok (_, ?ts)) => apply wsfx_ok
  | |- wsfx _ (Ok _) => apply wsfx_ok
  | |- wsfx _ (Err _) => apply wsfx_err
  | |- sfx _ (Err _) => apply sfx_err
  | |- wsfx _ OutOfFuel => apply wsfx_oof
  | |- sfx _ OutOfFuel => apply sfx_oof
  | |- sfx (_ :: ?ts) (Ok (_, ?ts)) => apply sfx_ok_cons
  | |- sfx _ (bind _ _) => apply bind_sfx; [|intros ?]
  | |- wsfx _ (bind _ _) => apply sfx_w
  | |- _ _ (if ?c then _ else _) => destruct c
  | |- _ _ (match ?x with _ => _ end) => destruct x
  | H : rec_sfx ?r |- sfx _ (?r _ _ _) => apply H
  | H : rec_sfx ?r |- wsfx _ (?r _ _ _) => apply sfx_w, H
  | H : forall _, _ |- sfx _ _ => apply H
  | H : forall _, _ |- wsfx _ _ => apply sfx_w, H
  end.
Ltac sfx_auto := repeat (sfx_step; cbn [fst snd]).

Section Suffix.
Variable pf : bytes -> N -> option N.
Variable o : copts.
Variable R : registry.
Variable rec : rec_t.
Hypothesis Hrec : rec_sfx rec.

Lemma arr_loop_sfx : forall g et items idx ts, sfx ts (arr_loop rec g et items idx ts).
Proof. induction g as [|g IH]; intros; cbn [arr_loop]; sfx_auto. Qed.

Lemma slice_loop_sfx : forall g et acc ts, sfx ts (slice_loop rec g et acc ts).
Proof. induction g as [|g IH]; intros; cbn [slice_loop]; sfx_auto. Qed.

Lemma bind_assoc {A B C} (r : res A) (k1 : A -> res B) (k2 : B -> res C) :
  bind (bind r k1) k2 = bind r (fun a => bind (k1 a) k2).
Proof. destruct r; reflexivity. Qed.

Lemma struct_loop_sfx : forall g fs depr vals ts, sfx ts (struct_loop o rec g fs depr vals ts).
Proof.
  induction g as [|g IH]; intros; cbn [struct_loop]; sfx_auto.
  destruct (skip_value 0 (snd a)) as [rest'|e|] eqn:Hsk; cbn [bind]; sfx_auto.
  intros x Hx. eapply ssuffix_trans_w; [apply (IH _ _ _ _ x Hx)|apply ssuffix_w, (skip_value_suffix _ _ _ Hsk)].
Qed.

Lemma newstruct_loop_sfx : forall g fs vals ts, sfx ts (newstruct_loop rec g fs vals ts).
Proof. induction g as [|g IH]; intros; cbn [newstruct_loop]; sfx_auto. Qed.

Lemma map_loop_sfx : forall g kt vt isnil m ts, sfx ts (map_loop rec g kt vt isnil m ts).
Proof. induction g as [|g IH]; intros; cbn [map_loop]; sfx_auto. Qed.

Lemma genmap_loop_sfx : forall g m ts, sfx ts (genmap_loop rec g m ts).
Proof. induction g as [|g IH]; intros; cbn [genmap_loop]; sfx_auto. Qed.

Lemma tuple_loop_sfx : forall g outs tys vals ts, sfx ts (tuple_loop rec g outs tys vals ts).
Proof. induction g as [|g IH]; intros; cbn [tuple_loop]; sfx_auto. Qed.

Lemma dispatch_sfx t ut cur tk tk0 rest : sfx (tk0 :: rest) (dispatch o R rec t ut cur tk rest).
Proof.
  unfold dispatch.
  destruct (kind tk =? KNaN). { unfold nan_case. sfx_auto. }
  destruct (kind tk =? KBytes). { unfold bytes_case. sfx_auto. }
  destruct (kind tk =? KArray).
  { unfold array_case. destruct ut; try apply sfx_err; apply sfx_cons_w, sfx_w; sfx_auto;
      (apply arr_loop_sfx || apply slice_loop_sfx). }
  destruct (kind tk =? KObject).
  { unfold object_case. destruct ut; try apply sfx_err; apply sfx_cons_w, sfx_w; sfx_auto;
      (apply struct_loop_sfx || apply newstruct_loop_sfx). }
  destruct (kind tk =? KMap).
  { unfold map_case. destruct ut; try apply sfx_err; apply sfx_cons_w, sfx_w; sfx_auto;
      (apply map_loop_sfx || apply genmap_loop_sfx). }
  destruct (kind tk =? KTuple).
  { unfold tuple_case. destruct ut; try apply sfx_err; apply sfx_cons_w, sfx_w; sfx_auto;
      apply tuple_loop_sfx. }
  destruct (kind tk =? KTypeName).
  { unfold typename_case. destruct ut; apply sfx_cons_w, sfx_w; sfx_auto. }
  unfold scalar_case. destruct (set_scalar t tk); cbn [bind]; destruct ut; sfx_auto.
Qed.

Lemma ustep_sfx t cur ts : sfx ts (ustep pf o R rec t cur ts).
Proof.
  unfold ustep. destruct ts as [|tk0 rest]; [destruct (underlying t); sfx_auto|].
  destruct (conv_tok pf t tk0) as [tk|e|]; cbn [bind]; [|apply sfx_err|apply sfx_oof].
  destruct ((kind tk =? KTypeName) && negb match ptr_base t with TAny => true | _ => false end);
    [apply sfx_cons_w, sfx_w, Hrec|].
  destruct (underlying t);
    try (destruct (kind tk =? KNil); [apply sfx_ok_cons|];
         destruct (is_end_kind (kind tk)); [apply sfx_err|];
         unfold ptr_or_dispatch; try apply dispatch_sfx).
  - apply sfx_head with (tk := tk). sfx_auto.
  - unfold time_case. sfx_auto.
Qed.

End Suffix.

Lemma unm_rec_sfx pf o R : forall f, rec_sfx (unm pf f o R).
Proof.
  induction f as [|f IH]; intros t cur ts.
  - rewrite unm_O. apply sfx_oof.
  - rewrite unm_S. apply ustep_sfx, IH.
Qed.

(* item 3 *)
Theorem unm_suffix pf f o R t cur ts v rest :
  unm pf f o R t cur ts = Ok (v, rest) -> exists used, ts = used ++ rest /\ used <> [].
Proof. intros H. exact (unm_rec_sfx pf o R f t cur ts (v, rest) H). Qed.

Corollary unm_consumes pf f o R t cur ts v rest :
  unm pf f o R t cur ts = Ok (v, rest) -> (length rest < length ts)%nat.
Proof. intros H. apply ssuffix_length. exact (unm_suffix _ _ _ _ _ _ _ _ _ H). Qed.

(* ====================================================================================== *)
(* Part 3.  C05: totality with an explicit fuel bound                                      *)
(* ====================================================================================== *)

Fixpoint ty_depth (t : ty) : nat :=
  match t with
  | TArray _ e | TSlice e | TPtr e => S (ty_depth e)
  | TMap k v => S (Nat.max (ty_depth k) (ty_depth v))
  | TStruct fs =>
      S ((fix go (l : list (bytes * bool * ty)) : nat :=
            match l with [] => O | f :: r => Nat.max (ty_depth (snd f)) (go r) end) fs)
  | TFunc outs =>
      S ((fix go (l : list ty) : nat :=
            match l with [] => O | x :: r => Nat.max (ty_depth x) (go r) end) outs)
  | TNamed _ _ _ u => S (ty_depth u)
  | _ => 1%nat
  end.

Fixpoint reg_depth (R : registry) : nat :=
  match R with [] => O | p :: r => Nat.max (ty_depth (snd p)) (reg_depth r) end.

(* the fuel measure: every nested call either consumes a token (and may switch to a registry
   type, whose pointer chain is at most reg_depth long) or descends into the type *)
Definition mu (R : registry) (t : ty) (ts : list token) : nat :=
  (length ts * S (reg_depth R) + ty_depth t)%nat.

Lemma ty_depth_pos t : (1 <= ty_depth t)%nat.
Proof. destruct t; cbn; lia. Qed.

Lemma ty_depth_underlying t : (ty_depth (underlying t) <= ty_depth t)%nat.
Proof. induction t; cbn [underlying ty_depth]; try lia. Qed.

Lemma fields_depth fs t' : In t' (map snd fs) -> (ty_depth t' < ty_depth (TStruct fs))%nat.
Proof.
  cbn [ty_depth]. induction fs as [|f fs IH]; cbn [map In]; [tauto|].
  intros [<-|H]; [lia|]. specialize (IH H). lia.
Qed.

Lemma outs_depth outs t' : In t' outs -> (ty_depth t' < ty_depth (TFunc outs))%nat.
Proof.
  cbn [ty_depth]. induction outs as [|x outs IH]; cbn [In]; [tauto|].
  intros [<-|H]; [lia|]. specialize (IH H). lia.
Qed.

Lemma reg_lookup_depth R name rt : reg_lookup R name = Some rt -> (ty_depth rt <= reg_depth R)%nat.
Proof.
  induction R as [|[n t] R IH]; cbn [reg_lookup reg_depth snd]; [discriminate|].
  destruct (bytes_eqb n name); [intros [= ->]; lia|]. intros H. specialize (IH H). lia.
Qed.

Lemma find_field_In name fs : forall i j ft, find_field name fs i = Some (j, ft) -> In ft (map snd fs).
Proof.
  induction fs as [|f fs IH]; intros i j ft; cbn [find_field map In]; [discriminate|].
  destruct (fexported f && bytes_eqb (fname f) name); [intros [= _ <-]; now left|].
  intros H. right. eapply IH, H.
Qed.

Lemma mu_lt_tokens R t t' tk0 rest ts' :
  (length ts' <= length rest)%nat -> (ty_depth t' <= ty_depth t + reg_depth R)%nat ->
  (mu R t' ts' < mu R t (tk0 :: rest))%nat.
Proof.
  unfold mu. cbn [length]. intros H1 H2.
  pose proof (Nat.mul_le_mono_r _ _ (S (reg_depth R)) H1). lia.
Qed.

Lemma mu_lt_depth R t t' tk tk0 rest :
  (ty_depth t' < ty_depth t)%nat -> (mu R t' (tk :: rest) < mu R t (tk0 :: rest))%nat.
Proof. unfold mu. cbn [length]. lia. Qed.

Lemma bind_noof {A B} (r : res A) (k : A -> res B) :
  r <> OutOfFuel -> (forall a, r = Ok a -> k a <> OutOfFuel) -> bind r k <> OutOfFuel.
Proof. intros Hr Hk. destruct r as [a|e|]; cbn [bind]; [apply Hk; reflexivity|discriminate|congruence]. Qed.

Lemma set_scalar_noof t tk : set_scalar t tk <> OutOfFuel.
Proof.
  unfold set_scalar. destruct (val tk); destruct (underlying t); try discriminate;
    match goal with |- (if ?c then _ else _) <> _ => destruct c; discriminate end.
Qed.

Section Total.
Variable pf : bytes -> N -> option N.
Variable o : copts.
Variable R : registry.
Variable rec : rec_t.
Hypothesis Hsfx : rec_sfx rec.

(* rec does not run out of fuel on targets satisfying P over at most L tokens *)
Definition okrec (P : ty -> Prop) (L : nat) : Prop :=
  forall t' cur' ts', P t' -> (length ts' <= L)%nat -> rec t' cur' ts' <> OutOfFuel.

Lemma okrec_le P L L' : okrec P L -> (L' <= L)%nat -> okrec P L'.
Proof. intros H Hle t' cur' ts' HP Hl. apply H; [exact HP|lia]. Qed.

Lemma rec_len t cur ts a : rec t cur ts = Ok a -> (length (snd a) < length ts)%nat.
Proof. intros H. apply ssuffix_length. exact (Hsfx t cur ts a H). Qed.

Ltac tot_step :=
  match goal with
  | |- Ok _ <> OutOfFuel => discriminate
  | |- Err _ <> OutOfFuel => discriminate
  | |- bind _ _ <> OutOfFuel => apply bind_noof; [|let a := fresh "a" in let Ha := fresh "Ha" in
                                                   intros a Ha; try (pose proof (rec_len _ _ _ _ Ha))]
  | |- (if ?c then _ else _) <> OutOfFuel => destruct c
  | |- (match ?x with _ => _ end) <> OutOfFuel => destruct x eqn:?
  end.
Ltac tot_auto := repeat (tot_step; cbn [fst snd length] in * ).

Ltac tot_fin Hok IH solveP :=
  first [ apply Hok; [solve [solveP]|cbn [length]; lia]
        | apply IH; [lia|eapply okrec_le; [exact Hok|cbn [length]; lia]] ].

Lemma arr_loop_tot : forall g et items idx ts, (length ts < g)%nat -> okrec (eq et) (length ts) ->
  arr_loop rec g et items idx ts <> OutOfFuel.
Proof.
  induction g as [|g IH]; intros et items idx ts Hg Hok; [lia|]. cbn [arr_loop]. tot_auto.
  all: tot_fin Hok IH ltac:(reflexivity).
Qed.

Lemma slice_loop_tot : forall g et acc ts, (length ts < g)%nat -> okrec (eq et) (length ts) ->
  slice_loop rec g et acc ts <> OutOfFuel.
Proof.
  induction g as [|g IH]; intros et acc ts Hg Hok; [lia|]. cbn [slice_loop]. tot_auto.
  all: tot_fin Hok IH ltac:(reflexivity).
Qed.

Definition Pstruct (fs : list (bytes * bool * ty)) (t' : ty) : Prop :=
  t' = TString \/ t' = TAny \/ In t' (map snd fs).

Lemma struct_loop_tot : forall g fs depr vals ts, (length ts < g)%nat -> okrec (Pstruct fs) (length ts) ->
  struct_loop o rec g fs depr vals ts <> OutOfFuel.
Proof.
  induction g as [|g IH]; intros fs depr vals ts Hg Hok; [lia|]. cbn [struct_loop]. tot_auto.
  - apply Hok; [left; reflexivity|cbn; lia].
  - apply Hok; [right; right; eapply find_field_In; eassumption|cbn; lia].
  - apply IH; [lia|]. eapply okrec_le; [exact Hok|cbn; lia].
  - apply skip_value_noof.
  - pose proof (ssuffix_length _ _ (skip_value_suffix _ _ _ Ha0)).
    apply IH; [lia|]. eapply okrec_le; [exact Hok|cbn; lia].
Qed.

Definition Pany (t' : ty) : Prop := t' = TString \/ t' = TAny.

Lemma newstruct_loop_tot : forall g fs vals ts, (length ts < g)%nat -> okrec Pany (length ts) ->
  newstruct_loop rec g fs vals ts <> OutOfFuel.
Proof.
  induction g as [|g IH]; intros fs vals ts Hg Hok; [lia|]. cbn [newstruct_loop]. tot_auto.
  all: tot_fin Hok IH ltac:((left; reflexivity) || (right; reflexivity)).
Qed.

Lemma map_loop_tot : forall g kt vt isnil m ts, (length ts < g)%nat ->
  okrec (fun t' => t' = kt \/ t' = vt) (length ts) ->
  map_loop rec g kt vt isnil m ts <> OutOfFuel.
Proof.
  induction g as [|g IH]; intros kt vt isnil m ts Hg Hok; [lia|]. cbn [map_loop]. tot_auto.
  all: tot_fin Hok IH ltac:((left; reflexivity) || (right; reflexivity)).
Qed.

Lemma genmap_loop_tot : forall g m ts, (length ts < g)%nat -> okrec Pany (length ts) ->
  genmap_loop rec g m ts <> OutOfFuel.
Proof.
  induction g as [|g IH]; intros m ts Hg Hok; [lia|]. cbn [genmap_loop]. tot_auto.
  all: tot_fin Hok IH ltac:((left; reflexivity) || (right; reflexivity)).
Qed.

Definition Ptuple (outs : list ty) (t' : ty) : Prop := t' = TAny \/ In t' outs.

Lemma tuple_loop_tot : forall g outs tys vals ts, (length ts < g)%nat -> okrec (Ptuple outs) (length ts) ->
  tuple_loop rec g outs tys vals ts <> OutOfFuel.
Proof.
  induction g as [|g IH]; intros outs tys vals ts Hg Hok; [lia|]. cbn [tuple_loop]. tot_auto.
  - apply Hok; [left; reflexivity|cbn [length]; lia].
  - apply IH; [lia|]. eapply okrec_le; [exact Hok|cbn [length]; lia].
  - apply Hok; [right; left; reflexivity|cbn [length]; lia].
  - apply IH; [lia|]. intros t' cur' ts' HP Hl. apply Hok; [|cbn [length]; lia].
    destruct HP as [HP|HP]; [left; exact HP|right; right; exact HP].
Qed.

(* the step: no OutOfFuel if rec is total on every strictly smaller (type, stream) *)
Section StepTotal.
Variable t : ty.
Variable tk0 : token.
Variable rest : list token.
Hypothesis Hok : forall t' cur' ts', (mu R t' ts' < mu R t (tk0 :: rest))%nat -> rec t' cur' ts' <> OutOfFuel.

Lemma okrec_mu (P : ty -> Prop) :
  (forall t', P t' -> (ty_depth t' <= ty_depth t + reg_depth R)%nat) -> okrec P (length rest).
Proof.
  intros HP t' cur' ts' Ht' Hl. apply Hok. apply mu_lt_tokens; [exact Hl|apply HP, Ht'].
Qed.

Lemma dispatch_tot ut cur tk : ut = underlying t -> dispatch o R rec t ut cur tk rest <> OutOfFuel.
Proof.
  intros Hut. pose proof (ty_depth_underlying t) as Hd. rewrite <- Hut in Hd. pose proof (ty_depth_pos t) as Hpos.
  unfold dispatch.
  destruct (kind tk =? KNaN). { unfold nan_case. destruct ut; discriminate. }
  destruct (kind tk =? KBytes). { unfold bytes_case. destruct ut; try discriminate; destruct (val tk); try discriminate;
      match goal with |- (if ?c then _ else _) <> _ => destruct c; discriminate end. }
  destruct (kind tk =? KArray).
  { unfold array_case. destruct ut; try discriminate; (apply bind_noof; [|discriminate]);
      (apply arr_loop_tot || apply slice_loop_tot); try lia; apply okrec_mu; intros t' <-; cbn [ty_depth] in *; lia. }
  destruct (kind tk =? KObject).
  { unfold object_case. destruct ut; try discriminate.
    - apply bind_noof; [|discriminate]. apply struct_loop_tot; [lia|]. apply okrec_mu.
      intros t' [->|[->|Hin]]; [cbn; lia|cbn; lia|]. apply fields_depth in Hin. cbn [ty_depth] in *. lia.
    - apply newstruct_loop_tot; [lia|]. apply okrec_mu. intros t' [->| ->]; cbn; lia. }
  destruct (kind tk =? KMap).
  { unfold map_case. destruct ut; try discriminate.
    - destruct cur; apply map_loop_tot; try lia; apply okrec_mu; intros t' [->| ->]; cbn [ty_depth] in *; lia.
    - apply genmap_loop_tot; [lia|]. apply okrec_mu. intros t' [->| ->]; cbn; lia. }
  destruct (kind tk =? KTuple).
  { unfold tuple_case. destruct ut; try discriminate.
    - apply bind_noof; [apply tuple_loop_tot; [lia|]|].
      + apply okrec_mu. intros t' [->|Hin]; [cbn; lia|cbn [In] in Hin; contradiction].
      + intros [[[outs' vals] tys] rest'] _. tot_auto.
    - apply bind_noof; [apply tuple_loop_tot; [lia|]|].
      + apply okrec_mu. intros t' [->|Hin]; [cbn; lia|]. apply outs_depth in Hin. cbn [ty_depth] in *. lia.
      + intros [[[outs' vals] tys] rest'] _. tot_auto. }
  destruct (kind tk =? KTypeName).
  { assert (Hself : forall c, rec t c rest <> OutOfFuel).
    { intros c. apply Hok. apply mu_lt_tokens; lia. }
    unfold typename_case. destruct ut; try apply Hself; destruct (val tk); try apply Hself.
    destruct (reg_lookup R s) as [rt|] eqn:Hrt; [|apply Hself].
    apply bind_noof; [|discriminate]. apply Hok. apply mu_lt_tokens; [lia|].
    apply reg_lookup_depth in Hrt. lia. }
  unfold scalar_case. destruct (val tk); try discriminate;
    (destruct ((kind tk =? KRef) || (kind tk =? KLiteral)); [discriminate|]);
    destruct ut; try (apply bind_noof; [apply set_scalar_noof|discriminate]);
    destruct (any_of_token tk); discriminate.
Qed.

Lemma ustep_tot cur : ustep pf o R rec t cur (tk0 :: rest) <> OutOfFuel.
Proof.
  unfold ustep.
  assert (Hc : conv_tok pf t tk0 <> OutOfFuel).
  { unfold conv_tok. destruct (kind tk0 =? KLiteral); [|discriminate]. destruct (val tk0); try discriminate.
    unfold convert_literal. destruct (underlying t); try discriminate;
      match goal with |- match ?x with _ => _ end <> _ => destruct x; discriminate end. }
  apply bind_noof; [exact Hc|]. intros tk _.
  destruct ((kind tk =? KTypeName) && negb match ptr_base t with TAny => true | _ => false end);
    [apply Hok, mu_lt_tokens; lia|].
  destruct (underlying t) eqn:Hut;
    try (destruct (kind tk =? KNil); [discriminate|];
         destruct (is_end_kind (kind tk)); [discriminate|];
         unfold ptr_or_dispatch; try (apply dispatch_tot; symmetry; exact Hut)).
  - apply bind_noof; [|discriminate]. apply Hok. apply mu_lt_depth.
    pose proof (ty_depth_underlying t) as Hd. rewrite Hut in Hd. cbn [ty_depth] in Hd. lia.
  - unfold time_case. destruct (kind tk =? KString); [|discriminate]. destruct (val tk); try discriminate.
    destruct (valid_time_enc s); discriminate.
Qed.
End StepTotal.

Lemma ustep_tot_nil t cur : ustep pf o R rec t cur [] <> OutOfFuel.
Proof. unfold ustep. destruct (underlying t); discriminate. Qed.


End Total.

Lemma unm_total_mu pf o R : forall n t cur ts, (mu R t ts < n)%nat -> unm pf n o R t cur ts <> OutOfFuel.
Proof.
  induction n as [|n IH]; intros t cur ts Hmu; [lia|].
  rewrite unm_S. destruct ts as [|tk0 rest]; [apply ustep_tot_nil|].
  apply ustep_tot; [apply unm_rec_sfx|].
  intros t' cur' ts' Hlt. apply IH. lia.
Qed.

(* item 2, explicit bound: length ts * (reg_depth R + 1) + ty_depth t + 1 *)
Theorem unm_total_bound pf o R t cur ts :
  unm pf (length ts * S (reg_depth R) + ty_depth t + 1) o R t cur ts <> OutOfFuel.
Proof. apply unm_total_mu. unfold mu. lia. Qed.

Theorem unm_total pf o R t cur ts : exists f, unm pf f o R t cur ts <> OutOfFuel.
Proof. eexists. apply unm_total_bound. Qed.

(* more fuel than the bound changes nothing *)
Corollary unm_fuel_enough pf o R t cur ts f :
  (length ts * S (reg_depth R) + ty_depth t + 1 <= f)%nat ->
  unm pf f o R t cur ts = unm pf (length ts * S (reg_depth R) + ty_depth t + 1) o R t cur ts.
Proof.
  intros Hle. eapply unm_fuel_mono; [reflexivity|apply unm_total_bound|exact Hle].
Qed.

(* the additive bound suggested in the task (2 * length ts + ty_depth t + reg_depth R + 3) is
   false: each TypeName token can switch an `any` target to a registered pointer chain *)
Definition P3any : ty := TNamed [80] true [] (TPtr (TPtr (TPtr (TPtr (TPtr (TPtr TAny)))))).
Definition R_P3 : registry := [([80], P3any)].
Definition tn_stream (n : nat) : list token := repeat (T KTypeName (VStr [80])) n ++ [T KBool (VBool true)].

Theorem unm_total_additive_refuted :
  exists pf o R t cur ts,
    unm pf (2 * length ts + ty_depth t + reg_depth R + 3) o R t cur ts = OutOfFuel.
Proof.
  exists (fun _ _ => None), default_opts, R_P3, TAny, (GAny None), (tn_stream 10).
  vm_compute. reflexivity.
Qed.

(* ====================================================================================== *)
(* Part 4.  C05: Nil, end markers, end of stream, scalar kind mismatch                     *)
(* ====================================================================================== *)

Section Scalars.
Variable pf : bytes -> N -> option N.
Variable o : copts.
Variable R : registry.

(* item 8 *)
Theorem nil_leaves_untouched f t cur rest :
  underlying t <> TTime ->
  unm pf (S f) o R t cur (T KNil VNone :: rest) = Ok (cur, rest).
Proof.
  intros Hnt. rewrite unm_S. generalize (unm pf f o R). intros rec.
  unfold ustep. destruct (underlying t); try congruence; reflexivity.
Qed.

Theorem empty_is_eof f t cur :
  underlying t <> TTime -> unm pf (S f) o R t cur [] = Err EEnd.
Proof.
  intros Hnt. rewrite unm_S. unfold ustep. destruct (underlying t); try congruence; reflexivity.
Qed.

Theorem empty_time_mismatch f t cur :
  underlying t = TTime -> unm pf (S f) o R t cur [] = Err (EMismatch KInvalid 24).
Proof. intros Ht. rewrite unm_S. unfold ustep. rewrite Ht. reflexivity. Qed.

Lemma end_kind_cases k : is_end_kind k = true -> k = KArrayEnd \/ k = KObjectEnd \/ k = KMapEnd \/ k = KTupleEnd.
Proof. unfold is_end_kind, KArrayEnd, KObjectEnd, KMapEnd, KTupleEnd. lia. Qed.

Theorem end_token_rejected f t cur tk rest :
  underlying t <> TTime -> is_end_kind (kind tk) = true ->
  unm pf (S f) o R t cur (tk :: rest) = Err EUnexpEndTok.
Proof.
  intros Hnt Hend. rewrite unm_S. generalize (unm pf f o R). intros rec.
  unfold ustep, conv_tok.
  assert (Hl : (kind tk =? KLiteral) = false).
  { apply end_kind_cases in Hend. destruct Hend as [H|[H|[H|H]]]; rewrite H; reflexivity. }
  assert (Hn : (kind tk =? KNil) = false).
  { apply end_kind_cases in Hend. destruct Hend as [H|[H|[H|H]]]; rewrite H; reflexivity. }
  assert (Htn : (kind tk =? KTypeName) = false).
  { apply end_kind_cases in Hend. destruct Hend as [H|[H|[H|H]]]; rewrite H; reflexivity. }
  rewrite Hl. cbn [bind]. rewrite Htn, Hn, Hend. cbn [andb].
  destruct (underlying t); try congruence; reflexivity.
Qed.

(* against a time.Time target an end marker is a kind mismatch (the BinaryUnmarshaler bridge is
   tried before anything else) *)
Theorem end_token_time f t cur tk rest :
  underlying t = TTime -> is_end_kind (kind tk) = true ->
  unm pf (S f) o R t cur (tk :: rest) = Err (EMismatch (kind tk) 24).
Proof.
  intros Ht Hend. rewrite unm_S. generalize (unm pf f o R). intros rec.
  unfold ustep, conv_tok, time_case. rewrite Ht. destruct tk as [k v]. cbn [kind val] in *.
  apply end_kind_cases in Hend. destruct Hend as [H|[H|[H|H]]]; subst k; reflexivity.
Qed.

(* ---- item 7: scalar tokens against scalar targets ---- *)
Definition is_scalar_ty (t : ty) : bool :=
  match t with
  | TBool | TInt _ | TUint _ | TUintptr | TF32 | TF64 | TString => true
  | _ => false
  end.

(* a well-shaped token carrying a bool, an integer, a uintptr, a float or a string (kind String) *)
Definition scalar_tok (tk : token) : bool :=
  kind_shape (kind tk) (val tk) &&
  match val tk with
  | VBool _ | VI _ _ | VU _ _ | VPtr _ | VF32 _ | VF64 _ => true
  | VStr _ => kind tk =? KString
  | _ => false
  end.

(* the token's dynamic type is exactly the target's underlying type *)
Definition tok_matches (t : ty) (tk : token) : bool :=
  match val tk, underlying t with
  | VBool _, TBool => true
  | VI w _, TInt w' => width_eqb w w'
  | VU w _, TUint w' => width_eqb w w'
  | VPtr _, TUintptr => true
  | VF32 _, TF32 => true
  | VF64 _, TF64 => true
  | VStr _, TString => kind tk =? KString
  | _, _ => false
  end.

Definition scalar_kinds : list N :=
  [KBool; KString; KInt; KInt8; KInt16; KInt32; KInt64; KUint; KUint8; KUint16; KUint32; KUint64;
   KPointer; KFloat32; KFloat64].

Lemma scalar_tok_kind tk : scalar_tok tk = true -> existsb (N.eqb (kind tk)) scalar_kinds = true /\ val tk <> VNone.
Proof.
  unfold scalar_tok. destruct tk as [k v]. cbn [kind val]. intros H.
  apply andb_true_iff in H. destruct H as [Hs Hv].
  split; [|destruct v; discriminate].
  destruct v as [|b|w z|w n|n|b|b|s|s]; try discriminate; cbn [kind_shape] in Hs;
    try destruct w; try (apply N.eqb_eq in Hs; subst k; reflexivity).
  apply N.eqb_eq in Hv. subst k. reflexivity.
Qed.

Lemma scalar_kind_route k : existsb (N.eqb k) scalar_kinds = true ->
  (k =? KLiteral) = false /\ (k =? KNil) = false /\ is_end_kind k = false /\
  (k =? KNaN) = false /\ (k =? KBytes) = false /\ (k =? KArray) = false /\ (k =? KObject) = false /\
  (k =? KMap) = false /\ (k =? KTuple) = false /\ (k =? KTypeName) = false /\ (k =? KRef) = false.
Proof.
  unfold scalar_kinds. cbn [existsb]. intros H.
  repeat (apply orb_true_iff in H; destruct H as [H|H]);
    try (apply N.eqb_eq in H; subst k; repeat split; reflexivity).
  discriminate.
Qed.

(* a scalar token against a scalar target is decided by set_scalar alone *)
Theorem scalar_by_set_scalar f t cur tk rest :
  is_scalar_ty (underlying t) = true -> scalar_tok tk = true ->
  unm pf (S f) o R t cur (tk :: rest) = bind (set_scalar t tk) (fun v => Ok (v, rest)).
Proof.
  intros Ht Htk. rewrite unm_S. generalize (unm pf f o R). intros rec.
  destruct (scalar_tok_kind tk Htk) as [Hk Hv].
  destruct (scalar_kind_route _ Hk) as (H1 & H2 & H3 & H4 & H5 & H6 & H7 & H8 & H9 & H10 & H11).
  unfold ustep, conv_tok. rewrite H1. cbn [bind]. rewrite H10, H2, H3. cbn [andb].
  unfold ptr_or_dispatch, dispatch, scalar_case. rewrite H4, H5, H6, H7, H8, H9, H10, H11, H1. cbn [orb].
  destruct (underlying t); try discriminate; destruct (val tk); try congruence; reflexivity.
Qed.

Lemma set_scalar_matches t tk :
  set_scalar t tk = if tok_matches t tk
                    then match any_of_token tk with Some (_, v) => Ok v | None => Err EOther end
                    else Err (EMismatch (kind tk) (rk_of t)).
Proof.
  unfold set_scalar, tok_matches, any_of_token.
  destruct (val tk); destruct (underlying t); try reflexivity;
    match goal with |- (if ?c then _ else _) = _ => destruct c; reflexivity end.
Qed.

Theorem scalar_mismatch f t cur tk rest :
  is_scalar_ty (underlying t) = true -> scalar_tok tk = true -> tok_matches t tk = false ->
  unm pf (S f) o R t cur (tk :: rest) = Err (EMismatch (kind tk) (rk_of t)).
Proof.
  intros Ht Htk Hm. rewrite scalar_by_set_scalar by assumption.
  rewrite set_scalar_matches, Hm. reflexivity.
Qed.

Theorem scalar_match f t cur tk rest :
  is_scalar_ty (underlying t) = true -> scalar_tok tk = true -> tok_matches t tk = true ->
  exists v, any_of_token tk = Some (underlying t, v) /\ unm pf (S f) o R t cur (tk :: rest) = Ok (v, rest).
Proof.
  intros Ht Htk Hm. rewrite scalar_by_set_scalar by assumption.
  rewrite set_scalar_matches, Hm. unfold tok_matches in Hm. unfold any_of_token.
  destruct (val tk); destruct (underlying t); try discriminate; try (eexists; split; reflexivity).
  - destruct w, w0; try discriminate; eexists; split; reflexivity.
  - destruct w, w0; try discriminate; eexists; split; reflexivity.
Qed.

End Scalars.

Example scalar_mismatch_ex :
  unm (fun _ _ => None) 1 default_opts [] (TNamed [77] false [] (TInt W16)) (GInt 5)
      [T KInt32 (VI W32 7); T KBool (VBool true)] = Err (EMismatch KInt32 4).
Proof.
  apply (scalar_mismatch (fun _ _ => None) default_opts [] 0); reflexivity.
Qed.

(* ====================================================================================== *)
(* Part 5.  C01: round trip on the first universe                                          *)
(* ====================================================================================== *)

(* ---- induction principle for values ---- *)
Section gval_ind2.
  Variable P : gval -> Prop.
  Hypothesis Hbool : forall b, P (GBool b).
  Hypothesis Hint : forall z, P (GInt z).
  Hypothesis Huint : forall n, P (GUint n).
  Hypothesis Hf32 : forall b, P (GF32 b).
  Hypothesis Hf64 : forall b, P (GF64 b).
  Hypothesis Hstr : forall s, P (GStr s).
  Hypothesis Hbytes : forall n s, P (GBytes n s).
  Hypothesis Hlist : forall n l, Forall P l -> P (GList n l).
  Hypothesis Hmap : forall n es, P (GMap n es).
  Hypothesis Hstruct : forall l, Forall P l -> P (GStruct l).
  Hypothesis Hpnil : P (GPtr None).
  Hypothesis Hptr : forall x, P x -> P (GPtr (Some x)).
  Hypothesis Hany : forall d, P (GAny d).
  Hypothesis Hfunc : forall r, P (GFunc r).
  Hypothesis Htime : forall e, P (GTime e).
  Fixpoint gval_ind2 (v : gval) : P v :=
    match v with
    | GBool b => Hbool b | GInt z => Hint z | GUint n => Huint n | GF32 b => Hf32 b | GF64 b => Hf64 b
    | GStr s => Hstr s | GBytes n s => Hbytes n s
    | GList n l => Hlist n l ((fix go (l : list gval) : Forall P l :=
                                 match l with [] => Forall_nil _ | x :: r => Forall_cons _ (gval_ind2 x) (go r) end) l)
    | GMap n es => Hmap n es
    | GStruct l => Hstruct l ((fix go (l : list gval) : Forall P l :=
                                 match l with [] => Forall_nil _ | x :: r => Forall_cons _ (gval_ind2 x) (go r) end) l)
    | GPtr None => Hpnil
    | GPtr (Some x) => Hptr x (gval_ind2 x)
    | GAny d => Hany d | GFunc r => Hfunc r | GTime e => Htime e
    end.
End gval_ind2.

(* ---- small facts ---- *)
Lemma bytes_eqb_refl a : bytes_eqb a a = true.
Proof. induction a as [|x a IH]; cbn [bytes_eqb]; [reflexivity|]. rewrite N.eqb_refl, IH. reflexivity. Qed.

Lemma bytes_eqb_true a : forall b, bytes_eqb a b = true -> a = b.
Proof.
  induction a as [|x a IH]; intros [|y b]; cbn [bytes_eqb]; try discriminate; [reflexivity|].
  intros H. apply andb_true_iff in H. destruct H as [H1 H2]. apply N.eqb_eq in H1. f_equal; [exact H1|apply IH, H2].
Qed.

Lemma bytes_eqb_sym a b : bytes_eqb a b = bytes_eqb b a.
Proof.
  destruct (bytes_eqb a b) eqn:E.
  - apply bytes_eqb_true in E. subst. symmetry. apply bytes_eqb_refl.
  - destruct (bytes_eqb b a) eqn:E'; [|reflexivity]. apply bytes_eqb_true in E'. subst.
    rewrite bytes_eqb_refl in E. discriminate.
Qed.

Lemma bind_ok {A B} (r : res A) (k : A -> res B) y : bind r k = Ok y -> exists a, r = Ok a /\ k a = Ok y.
Proof. destruct r as [a|e|]; cbn [bind]; try discriminate. intros H. exists a. split; [reflexivity|exact H]. Qed.

Lemma set_nth_app {A} (pre : list A) x y r : set_nth (length pre) x (pre ++ y :: r) = pre ++ x :: r.
Proof. induction pre as [|p pre IH]; cbn [length app set_nth]; [reflexivity|]. f_equal. exact IH. Qed.

Lemma nth_app_here {A} (pre : list A) y r d : nth (length pre) (pre ++ y :: r) d = y.
Proof. induction pre as [|p pre IH]; cbn [length app nth]; [reflexivity|exact IH]. Qed.

(* ---- the pieces of marshal / has_type / normal as named fixpoints ---- *)
Definition melems (o : copts) (et : ty) : list gval -> res (list token) :=
  fix go (l : list gval) : res (list token) :=
    match l with
    | [] => Ok []
    | x :: r => bind (marshal o et x) (fun a => bind (go r) (fun b => Ok (a ++ b)))
    end.

Definition mfields (o : copts) : list gval -> list (bytes * bool * ty) -> res (list token) :=
  fix go (l : list gval) (f : list (bytes * bool * ty)) : res (list token) :=
    match l, f with
    | x :: r, fd :: fr =>
        if skip_empty o && (is_zero (snd fd) x || (is_slice_kind (snd fd) && Nat.eqb (glen x) 0)) then go r fr
        else if negb (fexported fd) then go r fr
        else bind (marshal o (snd fd) x) (fun a =>
             bind (go r fr) (fun b => Ok (T KString (VStr (fname fd)) :: a ++ b)))
    | _, _ => Ok []
    end.

Definition elem_ty (t : ty) : ty := match underlying t with TArray _ e | TSlice e => e | _ => TAny end.
Definition fields_of (t : ty) : list (bytes * bool * ty) := match underlying t with TStruct fs => fs | _ => [] end.
Definition pointee_ty (t : ty) : ty := match underlying t with TPtr e => e | _ => TAny end.

Lemma marshal_list o t n items :
  marshal o t (GList n items) =
  bind (bind (melems o (elem_ty t) items) (fun body => Ok (T KArray VNone :: body ++ [T KArrayEnd VNone])))
       (fun ts => Ok (reg_prefix t ++ ts)).
Proof. reflexivity. Qed.

Lemma marshal_struct o t vals :
  marshal o t (GStruct vals) =
  bind (bind (mfields o vals (fields_of t)) (fun body => Ok (T KObject VNone :: body ++ [T KObjectEnd VNone])))
       (fun ts => Ok (reg_prefix t ++ ts)).
Proof. reflexivity. Qed.

Lemma marshal_ptr o t x :
  marshal o t (GPtr (Some x)) = bind (marshal o (pointee_ty t) x) (fun ts => Ok (reg_prefix t ++ ts)).
Proof. reflexivity. Qed.

Definition all_typed (e : ty) : list gval -> bool :=
  fix all (l : list gval) : bool := match l with [] => true | x :: r => has_type e x && all r end.

Definition fields_typed : list gval -> list (bytes * bool * ty) -> bool :=
  fix all (l : list gval) (f : list (bytes * bool * ty)) : bool :=
    match l, f with
    | [], [] => true
    | x :: r, fd :: fr => has_type (snd fd) x && all r fr
    | _, _ => false
    end.

Definition nfields : list gval -> list (bytes * bool * ty) -> list gval :=
  fix go (l : list gval) (f : list (bytes * bool * ty)) : list gval :=
    match l, f with
    | x :: r, fd :: fr => (if fexported fd then normal (snd fd) x else zero (snd fd)) :: go r fr
    | _, _ => []
    end.

Definition names_nodup : list (bytes * bool * ty) -> bool :=
  fix nodup (l : list (bytes * bool * ty)) : bool :=
    match l with
    | [] => true
    | f :: r => negb (existsb (fun g => bytes_eqb (fname f) (fname g)) r) && nodup r
    end.

Lemma has_type_list t n items :
  has_type t (GList n items) =
  match underlying t with
  | TArray k e => negb n && Nat.eqb (length items) k && all_typed e items
  | TSlice e => (negb n || match items with [] => true | _ => false end) && all_typed e items
  | _ => false
  end.
Proof. reflexivity. Qed.

Lemma has_type_struct t vals :
  has_type t (GStruct vals) = match underlying t with TStruct fs => fields_typed vals fs | _ => false end.
Proof. reflexivity. Qed.

Lemma normal_list t n items :
  normal t (GList n items) =
  match underlying t with
  | TArray _ e => GList false (map (normal e) items)
  | TSlice e => GList (match items with [] => true | _ => false end) (map (normal e) items)
  | _ => GList n items
  end.
Proof. reflexivity. Qed.

Lemma normal_struct t vals :
  normal t (GStruct vals) = match underlying t with TStruct fs => GStruct (nfields vals fs) | _ => GStruct vals end.
Proof. reflexivity. Qed.

Lemma wf_ty_struct fs :
  wf_ty (TStruct fs) = forallb (fun f => wf_bytesb (fname f) && wf_ty (snd f)) fs && names_nodup fs.
Proof. reflexivity. Qed.

Lemma zero_underlying t : zero t = zero (underlying t).
Proof. induction t; cbn [zero underlying]; try reflexivity. assumption. Qed.

Lemma wf_underlying t : wf_ty t = true -> wf_ty (underlying t) = true.
Proof.
  induction t; cbn [underlying]; try (intros H; exact H).
  cbn [wf_ty]. intros H. apply andb_true_iff in H. apply IHt, H.
Qed.
Lemma simple_underlying t : simple_ty t = true -> simple_ty (underlying t) = true.
Proof. induction t; cbn [underlying]; try (intros H; exact H). cbn [simple_ty]. exact IHt. Qed.
Lemma reg_prefix_cases t : reg_prefix t = [] \/ exists n, reg_prefix t = [T KTypeName (VStr n)].
Proof. destruct t; try (left; reflexivity). destruct reg; [right; eexists; reflexivity|left; reflexivity]. Qed.

(* ---- heads of marshalled streams ---- *)
Definition head_ok (tk : token) : Prop := (kind tk =? KLiteral) = false /\ is_end_kind (kind tk) = false.

Lemma prefix_head t body tk r : body = tk :: r -> head_ok tk ->
  exists tk' r', reg_prefix t ++ body = tk' :: r' /\ head_ok tk' /\ (kind tk' = KNil -> kind tk = KNil).
Proof.
  intros -> Hh. destruct (reg_prefix_cases t) as [E|[n E]]; rewrite E; cbn [app].
  - exists tk, r. repeat split; try apply Hh. tauto.
  - eexists _, _. split; [reflexivity|]. split; [split; reflexivity|]. cbn [kind]. discriminate.
Qed.

Ltac head_const :=
  match goal with
  | |- exists tk' r', reg_prefix ?t ++ [?tk] = _ /\ _ /\ _ =>
      destruct (prefix_head t [tk] tk [] eq_refl ltac:(split; reflexivity)) as (tk' & r' & E & Hh & Hn);
      exists tk', r'; split; [exact E|]; split; [exact Hh|]; intros Hk; apply Hn in Hk; discriminate Hk
  end.

Lemma marshal_head o : forall v t ts,
  has_type t v = true -> simple_ty t = true -> marshal o t v = Ok ts ->
  exists tk r, ts = tk :: r /\ head_ok tk /\ (kind tk = KNil -> no_ptr_to_nil v = true -> v = GPtr None).
Proof.
  induction v as [b|z|n|b|b|s|n s|n l IH|n es|l IH| |x IH|d|r|e] using gval_ind2; intros t ts Hty Hs Hm.
  - cbn [marshal bind] in Hm. injection Hm as <-. head_const.
  - cbn [marshal has_type] in Hm, Hty. destruct (underlying t); try discriminate.
    cbn [bind] in Hm. injection Hm as <-. destruct w; head_const.
  - cbn [marshal has_type] in Hm, Hty. destruct (underlying t); try discriminate;
    cbn [bind] in Hm; injection Hm as <-; try destruct w; head_const.
  - cbn [marshal] in Hm. destruct (f32_is_nan b); cbn [bind] in Hm; injection Hm as <-; head_const.
  - cbn [marshal] in Hm. destruct (f64_is_nan b); cbn [bind] in Hm; injection Hm as <-; head_const.
  - cbn [marshal bind] in Hm. injection Hm as <-. head_const.
  - cbn [marshal bind] in Hm. injection Hm as <-. head_const.
  - rewrite marshal_list in Hm. apply bind_ok in Hm. destruct Hm as (ts0 & Hm & Hts). injection Hts as <-.
    apply bind_ok in Hm. destruct Hm as (body & _ & Hts). injection Hts as <-.
    destruct (prefix_head t (T KArray VNone :: body ++ [T KArrayEnd VNone]) _ _ eq_refl (conj eq_refl eq_refl)) as (tk' & r' & E & Hh & Hn).
    exists tk', r'. split; [exact E|]. split; [exact Hh|]. intros Hk. apply Hn in Hk. discriminate Hk.
  - cbn [has_type] in Hty. exfalso. pose proof (simple_underlying t Hs) as Hsu.
    destruct (underlying t); try discriminate.
  - rewrite marshal_struct in Hm. apply bind_ok in Hm. destruct Hm as (ts0 & Hm & Hts). injection Hts as <-.
    apply bind_ok in Hm. destruct Hm as (body & _ & Hts). injection Hts as <-.
    destruct (prefix_head t (T KObject VNone :: body ++ [T KObjectEnd VNone]) _ _ eq_refl (conj eq_refl eq_refl)) as (tk' & r' & E & Hh & Hn).
    exists tk', r'. split; [exact E|]. split; [exact Hh|]. intros Hk. apply Hn in Hk. discriminate Hk.
  - cbn [marshal bind] in Hm. injection Hm as <-.
    destruct (prefix_head t [T KNil VNone] _ _ eq_refl ltac:(split; reflexivity)) as (tk' & r' & E & Hh & Hn).
    exists tk', r'. split; [exact E|]. split; [exact Hh|]. reflexivity.
  - rewrite marshal_ptr in Hm. apply bind_ok in Hm. destruct Hm as (ts0 & Hm & Hts). injection Hts as <-.
    cbn [has_type] in Hty. pose proof (simple_underlying t Hs) as Hsu. unfold pointee_ty in Hm.
    destruct (underlying t) eqn:Hut; try discriminate. cbn [simple_ty] in Hsu.
    destruct (IH _ _ Hty Hsu Hm) as (tk & r & -> & Hh & Hnil).
    destruct (prefix_head t (tk :: r) tk r eq_refl Hh) as (tk' & r' & E & Hh' & Hn).
    exists tk', r'. split; [exact E|]. split; [exact Hh'|]. intros Hk Hnp. exfalso.
    apply Hn in Hk. cbn [no_ptr_to_nil] in Hnp.
    assert (Hx : no_ptr_to_nil x = true) by (destruct x as [| | | | | | | | | |[y|]| | |]; try exact Hnp; discriminate Hnp).
    specialize (Hnil Hk Hx). subst x. discriminate Hnp.
  - cbn [has_type] in Hty. exfalso. pose proof (simple_underlying t Hs) as Hsu.
    destruct (underlying t); try discriminate.
  - cbn [has_type] in Hty. exfalso. pose proof (simple_underlying t Hs) as Hsu.
    destruct (underlying t); try discriminate.
  - cbn [marshal bind] in Hm. injection Hm as <-. head_const.
Qed.

(* ---- leading TypeName tokens: a concrete target skips them all, at any pointer level ---- *)
Definition is_tn (tk : token) : bool := kind tk =? KTypeName.
Fixpoint strip (ts : list token) : list token :=
  match ts with
  | tk :: r => if is_tn tk then strip r else ts
  | [] => []
  end.
Fixpoint leadl (ts : list token) : list token :=
  match ts with
  | tk :: r => if is_tn tk then tk :: leadl r else []
  | [] => []
  end.

Lemma leadl_strip ts : leadl ts ++ strip ts = ts.
Proof. induction ts as [|tk r IH]; cbn [leadl strip]; [reflexivity|]. destruct (is_tn tk); cbn [app]; [now rewrite IH|reflexivity]. Qed.
Lemma leadl_tn ts : forallb is_tn (leadl ts) = true.
Proof. induction ts as [|tk r IH]; cbn [leadl]; [reflexivity|]. destruct (is_tn tk) eqn:E; cbn [forallb]; [now rewrite E, IH|reflexivity]. Qed.
Lemma strip_prefix t body : strip (reg_prefix t ++ body) = strip body.
Proof. destruct (reg_prefix_cases t) as [E|[n E]]; rewrite E; reflexivity. Qed.
Lemma leadl_prefix t body : length (leadl (reg_prefix t ++ body)) = (length (reg_prefix t) + length (leadl body))%nat.
Proof. destruct (reg_prefix_cases t) as [E|[n E]]; rewrite E; reflexivity. Qed.
Lemma reg_prefix_len t : (length (reg_prefix t) <= 1)%nat.
Proof. destruct (reg_prefix_cases t) as [E|[n E]]; rewrite E; cbn; lia. Qed.
Lemma strip_ntn tk r : is_tn tk = false -> strip (tk :: r) = tk :: r /\ leadl (tk :: r) = [].
Proof. intros H. cbn [strip leadl]. rewrite H. split; reflexivity. Qed.

(* ---- one step of unm on the token shapes marshal produces ---- *)
Section Steps.
Variable pf : bytes -> N -> option N.
Variable o : copts.
Variable R : registry.

Ltac step_rec f :=
  rewrite (unm_S pf f o R); generalize (unm pf f o R); intros rec;
  unfold ustep, conv_tok, ptr_or_dispatch, dispatch; cbn [kind val].

Lemma simple_ptr_base t : simple_ty t = true -> match ptr_base t with TAny => true | _ => false end = false.
Proof. induction t; cbn [ptr_base simple_ty]; try reflexivity; try discriminate; assumption. Qed.

(* a TypeName token in front of a concrete target is skipped, whatever name it carries *)
Lemma unm_typename f t cur tk rest :
  simple_ty t = true -> (kind tk =? KTypeName) = true ->
  unm pf (S f) o R t cur (tk :: rest) = unm pf f o R t cur rest.
Proof.
  intros Hs Hk. destruct tk as [k v]. cbn [kind] in Hk. apply N.eqb_eq in Hk. subst k.
  step_rec f. rewrite (simple_ptr_base t Hs). reflexivity.
Qed.

Lemma unm_skip_tns t cur s x : simple_ty t = true ->
  forall pre, forallb is_tn pre = true ->
  forall F, (length pre <= F)%nat ->
  unm pf (F - length pre) o R t cur s = Ok x -> unm pf F o R t cur (pre ++ s) = Ok x.
Proof.
  intros Hs. induction pre as [|tk pre IH]; intros Hp F HF H.
  - cbn [length app] in *. rewrite Nat.sub_0_r in H. exact H.
  - cbn [forallb] in Hp. apply andb_true_iff in Hp. destruct Hp as [Htk Hp].
    destruct F as [|F]; [cbn in HF; lia|]. cbn [app]. rewrite unm_typename by assumption.
    apply IH; [exact Hp|cbn [length] in HF; lia|exact H].
Qed.

(* a value whose own stream is [reg_prefix t ++ body] with a non-TypeName head, behind any
   number of further TypeName tokens *)
Lemma rt_nonptr f t cur pre body tk r rest x n :
  body = tk :: r -> is_tn tk = false -> forallb is_tn pre = true -> simple_ty t = true -> (1 <= n)%nat ->
  (length pre + n < f + length (leadl (reg_prefix t ++ body)))%nat ->
  (forall f1, (n <= S f1)%nat -> unm pf (S f1) o R t cur (body ++ rest) = Ok x) ->
  unm pf f o R t cur (pre ++ strip (reg_prefix t ++ body) ++ rest) = Ok x.
Proof.
  intros -> Htk Hp Hs Hn Hf Hk. rewrite strip_prefix, leadl_prefix in *.
  destruct (strip_ntn tk r Htk) as [E1 E2]. rewrite E1. rewrite E2 in Hf. cbn [length] in Hf.
  pose proof (reg_prefix_len t) as Hl.
  apply unm_skip_tns; [exact Hs|exact Hp|lia|].
  destruct (f - length pre)%nat as [|f1] eqn:E; [lia|]. apply Hk. lia.
Qed.

Lemma unm_with_prefix F t cur body x :
  simple_ty t = true -> (2 <= F)%nat ->
  unm pf (pred F) o R t cur body = Ok x ->
  unm pf F o R t cur (reg_prefix t ++ body) = Ok x.
Proof.
  intros Hs HF H. destruct F as [|F]; [lia|]. cbn [pred] in H.
  destruct (reg_prefix_cases t) as [E|[n E]]; rewrite E; cbn [app].
  - eapply unm_fuel_mono; [exact H|discriminate|lia].
  - rewrite unm_typename; [exact H|exact Hs|reflexivity].
Qed.

Lemma unm_ptr_step f t e cur tk rest :
  underlying t = TPtr e -> head_ok tk -> (kind tk =? KTypeName) = false -> kind tk <> KNil ->
  unm pf (S f) o R t cur (tk :: rest) =
  bind (unm pf f o R e (zero e) (tk :: rest)) (fun r => Ok (GPtr (Some (fst r)), snd r)).
Proof.
  intros Hut [Hl He] Ht Hn. step_rec f. rewrite Hl. cbn [bind]. rewrite Ht, He. cbn [andb].
  apply N.eqb_neq in Hn. rewrite Hn. rewrite Hut. reflexivity.
Qed.

Lemma unm_slice_step f t e cur rest :
  underlying t = TSlice e ->
  unm pf (S f) o R t cur (T KArray VNone :: rest) =
  bind (slice_loop (unm pf f o R) (S (length rest)) e (items_of_gval cur) rest) (fun r =>
    Ok (GList (is_nil_container cur && match fst r with [] => true | _ => false end) (fst r), snd r)).
Proof. intros Hut. step_rec f. rewrite Hut. reflexivity. Qed.

Lemma unm_array_step f t k e cur rest :
  underlying t = TArray k e ->
  unm pf (S f) o R t cur (T KArray VNone :: rest) =
  bind (arr_loop (unm pf f o R) (S (length rest)) e (items_of_gval cur) 0%nat rest) (fun r => Ok (GList false (fst r), snd r)).
Proof. intros Hut. step_rec f. rewrite Hut. reflexivity. Qed.

Lemma unm_struct_step f t fs cur rest :
  underlying t = TStruct fs ->
  unm pf (S f) o R t cur (T KObject VNone :: rest) =
  bind (struct_loop o (unm pf f o R) (S (length rest)) fs (depr_of t)
          match cur with GStruct vs => vs | _ => map (fun fd => zero (snd fd)) fs end rest)
       (fun r => Ok (GStruct (fst r), snd r)).
Proof. intros Hut. step_rec f. rewrite Hut. reflexivity. Qed.

Lemma unm_name f cur s rest :
  unm pf (S f) o R TString cur (T KString (VStr s) :: rest) = Ok (GStr s, rest).
Proof. step_rec f. reflexivity. Qed.

Lemma unm_bool f t cur b rest : underlying t = TBool ->
  unm pf (S f) o R t cur (T KBool (VBool b) :: rest) = Ok (GBool b, rest).
Proof. intros Hut. step_rec f. rewrite Hut. unfold scalar_case, set_scalar. cbn [kind val]. rewrite Hut. reflexivity. Qed.

Lemma unm_int f t w cur z rest : underlying t = TInt w ->
  unm pf (S f) o R t cur (T (kind_of_int w) (VI w z) :: rest) = Ok (GInt z, rest).
Proof.
  intros Hut. step_rec f. rewrite Hut. unfold scalar_case, set_scalar. cbn [kind val]. rewrite Hut.
  destruct w; reflexivity.
Qed.

Lemma unm_uint f t w cur n rest : underlying t = TUint w ->
  unm pf (S f) o R t cur (T (kind_of_uint w) (VU w n) :: rest) = Ok (GUint n, rest).
Proof.
  intros Hut. step_rec f. rewrite Hut. unfold scalar_case, set_scalar. cbn [kind val]. rewrite Hut.
  destruct w; reflexivity.
Qed.

Lemma unm_uintptr f t cur n rest : underlying t = TUintptr ->
  unm pf (S f) o R t cur (T KPointer (VPtr n) :: rest) = Ok (GUint n, rest).
Proof. intros Hut. step_rec f. rewrite Hut. unfold scalar_case, set_scalar. cbn [kind val]. rewrite Hut. reflexivity. Qed.

Lemma unm_f32 f t cur b rest : underlying t = TF32 ->
  unm pf (S f) o R t cur (T KFloat32 (VF32 b) :: rest) = Ok (GF32 b, rest).
Proof. intros Hut. step_rec f. rewrite Hut. unfold scalar_case, set_scalar. cbn [kind val]. rewrite Hut. reflexivity. Qed.

Lemma unm_f64 f t cur b rest : underlying t = TF64 ->
  unm pf (S f) o R t cur (T KFloat64 (VF64 b) :: rest) = Ok (GF64 b, rest).
Proof. intros Hut. step_rec f. rewrite Hut. unfold scalar_case, set_scalar. cbn [kind val]. rewrite Hut. reflexivity. Qed.

Lemma unm_nan32 f t cur rest : underlying t = TF32 ->
  unm pf (S f) o R t cur (T KNaN VNone :: rest) = Ok (GF32 f32_nan_bits, rest).
Proof. intros Hut. step_rec f. rewrite Hut. reflexivity. Qed.

Lemma unm_nan64 f t cur rest : underlying t = TF64 ->
  unm pf (S f) o R t cur (T KNaN VNone :: rest) = Ok (GF64 f64_nan_bits, rest).
Proof. intros Hut. step_rec f. rewrite Hut. reflexivity. Qed.

Lemma unm_string f t cur s rest : underlying t = TString ->
  unm pf (S f) o R t cur (T KString (VStr s) :: rest) = Ok (GStr s, rest).
Proof. intros Hut. step_rec f. rewrite Hut. unfold scalar_case, set_scalar. cbn [kind val]. rewrite Hut. reflexivity. Qed.

Lemma unm_bytes f t cur s rest : underlying t = TBytes ->
  unm pf (S f) o R t cur (T KBytes (VBytes s) :: rest) = Ok (GBytes false s, rest).
Proof. intros Hut. step_rec f. rewrite Hut. reflexivity. Qed.

Lemma unm_bytearray f t k cur s rest : underlying t = TByteArray k -> (length s <= k)%nat ->
  unm pf (S f) o R t cur (T KBytes (VBytes s) :: rest) =
  Ok (GBytes false (firstn k s ++ skipn (length s) (bytes_of_gval cur)), rest).
Proof.
  intros Hut Hle. apply Nat.ltb_ge in Hle. step_rec f. rewrite Hut.
  transitivity (if Nat.ltb k (length s) then @Err (gval * list token) ETooMany
                else Ok (GBytes false (firstn k s ++ skipn (length s) (bytes_of_gval cur)), rest));
    [reflexivity|rewrite Hle; reflexivity].
Qed.

Lemma unm_time f t cur s rest : underlying t = TTime -> valid_time_enc s = true ->
  unm pf (S f) o R t cur (T KString (VStr s) :: rest) = Ok (GTime s, rest).
Proof.
  intros Hut Hv. step_rec f. rewrite Hut. change (KString =? KLiteral) with false. cbn [bind].
  unfold time_case. cbn [kind val]. change (KString =? KString) with true. cbn beta iota.
  rewrite Hv. reflexivity.
Qed.

End Steps.

(* ---- the loops on marshalled element streams ---- *)
Fixpoint vsize (v : gval) : nat :=
  match v with
  | GList _ l => S ((fix go (l : list gval) : nat := match l with [] => O | x :: r => (vsize x + go r)%nat end) l)
  | GStruct l => S ((fix go (l : list gval) : nat := match l with [] => O | x :: r => (vsize x + go r)%nat end) l)
  | GPtr (Some x) => S (vsize x)
  | _ => 1%nat
  end.
Definition lsize : list gval -> nat :=
  fix go (l : list gval) : nat := match l with [] => O | x :: r => (vsize x + go r)%nat end.
Lemma vsize_list n l : vsize (GList n l) = S (lsize l). Proof. reflexivity. Qed.
Lemma vsize_struct l : vsize (GStruct l) = S (lsize l). Proof. reflexivity. Qed.
Lemma lsize_cons x l : lsize (x :: l) = (vsize x + lsize l)%nat. Proof. reflexivity. Qed.
Lemma vsize_pos v : (1 <= vsize v)%nat.
Proof. destruct v as [| | | | | | | | | |[x|]| | |]; cbn [vsize]; lia. Qed.

(* the first non-TypeName token of a marshalled stream; there are at most vsize v TypeName tokens before it *)
Lemma strip_head o : forall v t ts,
  has_type t v = true -> simple_ty t = true -> marshal o t v = Ok ts ->
  (length (leadl ts) <= vsize v)%nat /\
  exists tk r, strip ts = tk :: r /\ head_ok tk /\ is_tn tk = false /\
               (kind tk = KNil -> no_ptr_to_nil v = true -> v = GPtr None).
Proof.
  assert (Hconst : forall t tk (v : gval), is_tn tk = false -> head_ok tk -> kind tk <> KNil ->
            (length (leadl (reg_prefix t ++ [tk])) <= vsize v)%nat /\
            exists tk' r, strip (reg_prefix t ++ [tk]) = tk' :: r /\ head_ok tk' /\ is_tn tk' = false /\
                          (kind tk' = KNil -> no_ptr_to_nil v = true -> v = GPtr None)).
  { intros t tk v Htn Hh Hk. rewrite strip_prefix, leadl_prefix. destruct (strip_ntn tk [] Htn) as [E1 E2].
    rewrite E1, E2. cbn [length]. pose proof (reg_prefix_len t). pose proof (vsize_pos v). split; [lia|].
    exists tk, []. repeat split; try assumption; try apply Hh. intros Hk'; contradiction. }
  assert (Hcomp : forall t tk body (v : gval), is_tn tk = false -> head_ok tk -> kind tk <> KNil ->
            (length (leadl (reg_prefix t ++ tk :: body)) <= vsize v)%nat /\
            exists tk' r, strip (reg_prefix t ++ tk :: body) = tk' :: r /\ head_ok tk' /\ is_tn tk' = false /\
                          (kind tk' = KNil -> no_ptr_to_nil v = true -> v = GPtr None)).
  { intros t tk body v Htn Hh Hk. rewrite strip_prefix, leadl_prefix. destruct (strip_ntn tk body Htn) as [E1 E2].
    rewrite E1, E2. cbn [length]. pose proof (reg_prefix_len t). pose proof (vsize_pos v). split; [lia|].
    exists tk, body. repeat split; try assumption; try apply Hh. intros Hk'; contradiction. }
  induction v as [b|z|n|b|b|s|n s|n l IH|n es|l IH| |x IH|d|r|e] using gval_ind2; intros t ts Hty Hs Hm.
  - cbn [marshal bind] in Hm. injection Hm as <-. apply Hconst; [reflexivity|split; reflexivity|discriminate].
  - cbn [marshal has_type] in Hm, Hty. destruct (underlying t); try discriminate.
    cbn [bind] in Hm. injection Hm as <-. destruct w; (apply Hconst; [reflexivity|split; reflexivity|discriminate]).
  - cbn [marshal has_type] in Hm, Hty. destruct (underlying t); try discriminate;
    cbn [bind] in Hm; injection Hm as <-; try destruct w; (apply Hconst; [reflexivity|split; reflexivity|discriminate]).
  - cbn [marshal] in Hm. destruct (f32_is_nan b); cbn [bind] in Hm; injection Hm as <-;
      (apply Hconst; [reflexivity|split; reflexivity|discriminate]).
  - cbn [marshal] in Hm. destruct (f64_is_nan b); cbn [bind] in Hm; injection Hm as <-;
      (apply Hconst; [reflexivity|split; reflexivity|discriminate]).
  - cbn [marshal bind] in Hm. injection Hm as <-. apply Hconst; [reflexivity|split; reflexivity|discriminate].
  - cbn [marshal bind] in Hm. injection Hm as <-. apply Hconst; [reflexivity|split; reflexivity|discriminate].
  - rewrite marshal_list in Hm. apply bind_ok in Hm. destruct Hm as (ts0 & Hm & Hts). injection Hts as <-.
    apply bind_ok in Hm. destruct Hm as (body & _ & Hts). injection Hts as <-.
    apply Hcomp; [reflexivity|split; reflexivity|discriminate].
  - cbn [has_type] in Hty. exfalso. pose proof (simple_underlying t Hs) as Hsu.
    destruct (underlying t); try discriminate.
  - rewrite marshal_struct in Hm. apply bind_ok in Hm. destruct Hm as (ts0 & Hm & Hts). injection Hts as <-.
    apply bind_ok in Hm. destruct Hm as (body & _ & Hts). injection Hts as <-.
    apply Hcomp; [reflexivity|split; reflexivity|discriminate].
  - cbn [marshal bind] in Hm. injection Hm as <-.
    rewrite strip_prefix, leadl_prefix. pose proof (reg_prefix_len t). split; [cbn; lia|].
    exists (T KNil VNone), []. repeat split; reflexivity.
  - rewrite marshal_ptr in Hm. apply bind_ok in Hm. destruct Hm as (ts0 & Hm & Hts). injection Hts as <-.
    cbn [has_type] in Hty. pose proof (simple_underlying t Hs) as Hsu. unfold pointee_ty in Hm.
    destruct (underlying t) eqn:Hut; try discriminate. cbn [simple_ty] in Hsu.
    destruct (IH _ _ Hty Hsu Hm) as (Hl & tk & r & E & Hh & Htn & Hnil).
    rewrite strip_prefix, leadl_prefix. pose proof (reg_prefix_len t). split; [cbn [vsize]; lia|].
    exists tk, r. repeat split; try assumption; try apply Hh. intros Hk Hnp. exfalso.
    cbn [no_ptr_to_nil] in Hnp.
    assert (Hx : no_ptr_to_nil x = true) by (destruct x as [| | | | | | | | | |[y|]| | |]; try exact Hnp; discriminate Hnp).
    specialize (Hnil Hk Hx). subst x. discriminate Hnp.
  - cbn [has_type] in Hty. exfalso. pose proof (simple_underlying t Hs) as Hsu.
    destruct (underlying t); try discriminate.
  - cbn [has_type] in Hty. exfalso. pose proof (simple_underlying t Hs) as Hsu.
    destruct (underlying t); try discriminate.
  - cbn [marshal bind] in Hm. injection Hm as <-. apply Hconst; [reflexivity|split; reflexivity|discriminate].
Qed.

Lemma head_not_arrend tk : head_ok tk -> (kind tk =? KArrayEnd) = false.
Proof. intros [_ H]. unfold is_end_kind in H. apply orb_false_iff in H. destruct H as [H _].
  apply orb_false_iff in H. destruct H as [H _]. apply orb_false_iff in H. apply H. Qed.

Section Loops.
Variable o : copts.
Variable rec : rec_t.

(* what the recursive call does on the stream of a typed element *)
Definition elem_ok (x : gval) : Prop :=
  forall ft a rest', wf_ty ft = true -> simple_ty ft = true ->
    has_type ft x = true -> no_ptr_to_nil x = true -> marshal default_opts ft x = Ok a ->
    rec ft (zero ft) (a ++ rest') = Ok (normal ft x, rest').

Lemma melems_cons_inv e x l body : melems default_opts e (x :: l) = Ok body ->
  exists a b, marshal default_opts e x = Ok a /\ melems default_opts e l = Ok b /\ body = a ++ b.
Proof.
  change (melems default_opts e (x :: l)) with
    (bind (marshal default_opts e x) (fun a => bind (melems default_opts e l) (fun b => Ok (a ++ b)))).
  intros H. apply bind_ok in H. destruct H as (a & Ha & H). apply bind_ok in H. destruct H as (b & Hb & H).
  injection H as <-. exists a, b. repeat split; assumption.
Qed.

Lemma slice_loop_rt e : wf_ty e = true -> simple_ty e = true ->
  forall l, Forall elem_ok l -> all_typed e l = true -> forallb no_ptr_to_nil l = true ->
  forall body, melems default_opts e l = Ok body ->
  forall g acc rest, (length l < g)%nat ->
  slice_loop rec g e acc (body ++ T KArrayEnd VNone :: rest) = Ok (acc ++ map (normal e) l, rest).
Proof.
  intros Hwf Hs. induction 1 as [|x l Hx _ IH]; intros Hty Hnp body Hm g acc rest Hg.
  - injection Hm as <-. destruct g as [|g]; [clear - Hg; cbn in Hg; lia|]. cbn [app slice_loop map kind].
    rewrite app_nil_r. reflexivity.
  - apply melems_cons_inv in Hm. destruct Hm as (a & b & Ha & Hb & ->).
    change (all_typed e (x :: l)) with (has_type e x && all_typed e l) in Hty.
    apply andb_true_iff in Hty. destruct Hty as [Htx Htl].
    cbn [forallb] in Hnp. apply andb_true_iff in Hnp. destruct Hnp as [Hnx Hnl].
    destruct (marshal_head _ _ _ _ Htx Hs Ha) as (tk & r & -> & Hh & _).
    destruct g as [|g]; [clear - Hg; cbn [length] in Hg; lia|]. rewrite <- app_assoc. cbn [app slice_loop].
    rewrite (head_not_arrend tk Hh).
    change (tk :: r ++ b ++ T KArrayEnd VNone :: rest) with ((tk :: r) ++ b ++ T KArrayEnd VNone :: rest).
    rewrite (Hx e (tk :: r) _ Hwf Hs Htx Hnx Ha). cbn [bind fst snd].
    rewrite (IH Htl Hnl b Hb g) by (clear - Hg; cbn [length] in Hg; lia).
    rewrite <- app_assoc. reflexivity.
Qed.

Lemma arr_loop_rt e : wf_ty e = true -> simple_ty e = true ->
  forall l, Forall elem_ok l -> all_typed e l = true -> forallb no_ptr_to_nil l = true ->
  forall body, melems default_opts e l = Ok body ->
  forall g done rest, (length l < g)%nat ->
  arr_loop rec g e (done ++ repeat (zero e) (length l)) (length done) (body ++ T KArrayEnd VNone :: rest)
  = Ok (done ++ map (normal e) l, rest).
Proof.
  intros Hwf Hs. induction 1 as [|x l Hx _ IH]; intros Hty Hnp body Hm g done rest Hg.
  - injection Hm as <-. destruct g as [|g]; [clear - Hg; cbn in Hg; lia|]. cbn [app arr_loop map kind length repeat].
    reflexivity.
  - apply melems_cons_inv in Hm. destruct Hm as (a & b & Ha & Hb & ->).
    change (all_typed e (x :: l)) with (has_type e x && all_typed e l) in Hty.
    apply andb_true_iff in Hty. destruct Hty as [Htx Htl].
    cbn [forallb] in Hnp. apply andb_true_iff in Hnp. destruct Hnp as [Hnx Hnl].
    destruct (marshal_head _ _ _ _ Htx Hs Ha) as (tk & r & -> & Hh & _).
    destruct g as [|g]; [clear - Hg; cbn [length] in Hg; lia|]. rewrite <- app_assoc. cbn [app arr_loop length repeat].
    rewrite (head_not_arrend tk Hh).
    assert (Hlen : Nat.leb (length (done ++ zero e :: repeat (zero e) (length l))) (length done) = false).
    { apply Nat.leb_gt. rewrite app_length. cbn [length]. clear. lia. }
    rewrite Hlen, nth_app_here.
    change (tk :: r ++ b ++ T KArrayEnd VNone :: rest) with ((tk :: r) ++ b ++ T KArrayEnd VNone :: rest).
    rewrite (Hx e (tk :: r) _ Hwf Hs Htx Hnx Ha). cbn [bind fst snd].
    rewrite set_nth_app.
    specialize (IH Htl Hnl b Hb g (done ++ [normal e x]) rest ltac:(clear - Hg; cbn [length] in Hg; lia)).
    rewrite <- !app_assoc in IH. cbn [app] in IH.
    replace (length (done ++ [normal e x])) with (S (length done)) in IH by (rewrite app_length; cbn [length]; clear; lia).
    exact IH.
Qed.

(* ---- struct fields ---- *)
Lemma find_field_at : forall pre f fs i,
  names_nodup (pre ++ f :: fs) = true -> fexported f = true ->
  find_field (fname f) (pre ++ f :: fs) i = Some ((i + length pre)%nat, snd f).
Proof.
  induction pre as [|p pre IH]; intros f fs i Hnd Hex; cbn [app find_field length].
  - rewrite Hex, bytes_eqb_refl. cbn [andb]. f_equal. f_equal. lia.
  - change (names_nodup ((p :: pre) ++ f :: fs)) with
      (negb (existsb (fun g => bytes_eqb (fname p) (fname g)) (pre ++ f :: fs)) && names_nodup (pre ++ f :: fs)) in Hnd.
    apply andb_true_iff in Hnd. destruct Hnd as [Hp Hnd].
    apply negb_true_iff in Hp. rewrite existsb_app in Hp. apply orb_false_iff in Hp. destruct Hp as [_ Hp].
    cbn [existsb] in Hp. apply orb_false_iff in Hp. destruct Hp as [Hp _].
    rewrite Hp, andb_false_r. rewrite (IH f fs (S i) Hnd Hex). f_equal. f_equal. lia.
Qed.

Hypothesis Hname : forall s cur rest', rec TString cur (T KString (VStr s) :: rest') = Ok (GStr s, rest').

Lemma mfields_cons_inv x l fd fs body : mfields default_opts (x :: l) (fd :: fs) = Ok body ->
  if fexported fd
  then exists a b, marshal default_opts (snd fd) x = Ok a /\ mfields default_opts l fs = Ok b /\
                   body = T KString (VStr (fname fd)) :: a ++ b
  else mfields default_opts l fs = Ok body.
Proof.
  change (mfields default_opts (x :: l) (fd :: fs)) with
    (if negb (fexported fd) then mfields default_opts l fs
     else bind (marshal default_opts (snd fd) x) (fun a =>
          bind (mfields default_opts l fs) (fun b => Ok (T KString (VStr (fname fd)) :: a ++ b)))).
  destruct (fexported fd); cbn [negb]; [|tauto].
  intros H. apply bind_ok in H. destruct H as (a & Ha & H). apply bind_ok in H. destruct H as (b & Hb & H).
  injection H as <-. exists a, b. repeat split; assumption.
Qed.

Lemma struct_loop_rt : forall l, Forall elem_ok l ->
  forall fsall pre fs donev body, fsall = pre ++ fs -> names_nodup fsall = true ->
  forallb (fun f => wf_bytesb (fname f) && wf_ty (snd f)) fs = true ->
  forallb (fun f => simple_ty (snd f)) fs = true ->
  fields_typed l fs = true -> forallb no_ptr_to_nil l = true ->
  mfields default_opts l fs = Ok body -> length donev = length pre ->
  forall g depr rest, (length body < g)%nat ->
  struct_loop o rec g fsall depr (donev ++ map (fun fd => zero (snd fd)) fs) (body ++ T KObjectEnd VNone :: rest)
  = Ok (donev ++ nfields l fs, rest).
Proof.
  induction 1 as [|x l Hx _ IH]; intros fsall pre fs donev body Hall Hnd Hwf Hs Hty Hnp Hm Hlen g depr rest Hg.
  - destruct fs as [|fd fs]; [|discriminate Hty]. injection Hm as <-.
    destruct g as [|g]; [clear - Hg; cbn in Hg; lia|]. reflexivity.
  - destruct fs as [|fd fs]; [discriminate Hty|].
    change (fields_typed (x :: l) (fd :: fs)) with (has_type (snd fd) x && fields_typed l fs) in Hty.
    apply andb_true_iff in Hty. destruct Hty as [Htx Htl].
    cbn [forallb] in Hnp, Hwf, Hs.
    apply andb_true_iff in Hnp. destruct Hnp as [Hnx Hnl].
    apply andb_true_iff in Hwf. destruct Hwf as [Hwx Hwl]. apply andb_true_iff in Hwx. destruct Hwx as [_ Hwx].
    apply andb_true_iff in Hs. destruct Hs as [Hsx Hsl].
    apply mfields_cons_inv in Hm.
    assert (Hnext : forall y body' g', mfields default_opts l fs = Ok body' -> (length body' < g')%nat ->
              struct_loop o rec g' fsall depr ((donev ++ [y]) ++ map (fun fd => zero (snd fd)) fs)
                (body' ++ T KObjectEnd VNone :: rest) = Ok ((donev ++ [y]) ++ nfields l fs, rest)).
    { intros y body' g' Hb Hg'. apply (IH fsall (pre ++ [fd]) fs (donev ++ [y]) body'); try assumption.
      - rewrite <- app_assoc. exact Hall.
      - rewrite !app_length. cbn [length]. clear - Hlen. lia. }
    change (nfields (x :: l) (fd :: fs)) with
      ((if fexported fd then normal (snd fd) x else zero (snd fd)) :: nfields l fs).
    cbn [map].
    destruct (fexported fd) eqn:Hex.
    + destruct Hm as (a & b & Ha & Hb & ->).
      destruct g as [|g]; [clear - Hg; cbn [length] in Hg; lia|]. cbn [app struct_loop kind].
      change (KString =? KObjectEnd) with false. cbn beta iota.
      rewrite Hname. cbn [bind fst snd].
      subst fsall. rewrite (find_field_at pre fd fs 0 Hnd Hex). cbn [Nat.add].
      rewrite <- Hlen, nth_app_here. rewrite <- app_assoc.
      rewrite (Hx (snd fd) a _ Hwx Hsx Htx Hnx Ha). cbn [bind fst snd].
      rewrite set_nth_app.
      specialize (Hnext (normal (snd fd) x) b g Hb ltac:(clear - Hg; cbn [length] in Hg; rewrite app_length in Hg; lia)).
      rewrite <- !app_assoc in Hnext. cbn [app] in Hnext. exact Hnext.
    + specialize (Hnext (zero (snd fd)) body g Hm ltac:(clear - Hg; cbn [length] in Hg; lia)).
      rewrite <- !app_assoc in Hnext. cbn [app] in Hnext. exact Hnext.
Qed.

End Loops.

(* ---- the round trip ---- *)
Section RoundTrip.
Variable pf : bytes -> N -> option N.
Variable o : copts.
Variable R : registry.

(* generalised over extra TypeName tokens in front ([pre]) and stated on the stream stripped of its
   own leading TypeName tokens: a pointer target skips them before dereferencing, so the pointee never
   sees its own prefix.  The stripped stream needs [length (leadl ts)] less fuel. *)
Definition rt_ok (v : gval) : Prop :=
  forall t ts, wf_ty t = true -> simple_ty t = true ->
    has_type t v = true -> no_ptr_to_nil v = true -> marshal default_opts t v = Ok ts ->
    forall pre f rest, forallb is_tn pre = true ->
    (length pre + 2 * vsize v < f + length (leadl ts))%nat ->
    unm pf f o R t (zero t) (pre ++ strip ts ++ rest) = Ok (normal t v, rest).

Lemma rt_elem_ok f l : Forall rt_ok l -> (2 * lsize l < f)%nat -> Forall (elem_ok (unm pf f o R)) l.
Proof.
  induction 1 as [|x l Hx _ IH]; intros Hf; constructor.
  - intros ft a rest' Hwf Hs Ht Hn Hm.
    rewrite <- (leadl_strip a), <- app_assoc. apply Hx; try assumption; [apply leadl_tn|].
    rewrite lsize_cons in Hf. clear - Hf. lia.
  - apply IH. rewrite lsize_cons in Hf. clear - Hf. lia.
Qed.

Lemma melems_length e : forall l body, all_typed e l = true -> simple_ty e = true ->
  melems default_opts e l = Ok body -> (length l <= length body)%nat.
Proof.
  induction l as [|x l IH]; intros body Hty Hs Hm; [cbn; lia|].
  apply melems_cons_inv in Hm. destruct Hm as (a & b & Ha & Hb & ->).
  change (all_typed e (x :: l)) with (has_type e x && all_typed e l) in Hty.
  apply andb_true_iff in Hty. destruct Hty as [Htx Htl].
  destruct (marshal_head _ _ _ _ Htx Hs Ha) as (tk & r & -> & _ & _).
  specialize (IH b Htl Hs Hb). rewrite app_length. cbn [length]. clear - IH. lia.
Qed.

(* leaf values: [reg_prefix t ++ [tk]] *)
Ltac leaf_case Hs Hp Hf step :=
  eapply (rt_nonptr pf o R); [reflexivity|reflexivity|exact Hp|exact Hs| |exact Hf|];
  [clear; cbn [vsize]; lia|]; intros f1 _; cbn [app]; step.

Theorem roundtrip_all : forall v, rt_ok v.
Proof.
  induction v as [b|z|n|b|b|s|n s|n l IH|n es|l IH| |x IH|d|r|e] using gval_ind2;
    intros t ts Hwf Hs Hty Hnp Hm pre f rest Hp Hf;
    pose proof (simple_underlying t Hs) as Hsu; pose proof (wf_underlying t Hwf) as Hwu.
  - (* bool *)
    cbn [has_type] in Hty. destruct (underlying t) eqn:Hut; try discriminate.
    cbn [marshal bind] in Hm. injection Hm as <-.
    leaf_case Hs Hp Hf ltac:(apply unm_bool; exact Hut).
  - (* int *)
    cbn [has_type marshal] in Hty, Hm. destruct (underlying t) eqn:Hut; try discriminate.
    cbn [bind] in Hm. injection Hm as <-.
    destruct w; leaf_case Hs Hp Hf ltac:(apply (unm_int pf o R _ _ _ _ _ _ Hut)).
  - (* uint / uintptr *)
    cbn [has_type marshal] in Hty, Hm. destruct (underlying t) eqn:Hut; try discriminate;
    cbn [bind] in Hm; injection Hm as <-.
    + destruct w; leaf_case Hs Hp Hf ltac:(apply (unm_uint pf o R _ _ _ _ _ _ Hut)).
    + leaf_case Hs Hp Hf ltac:(apply unm_uintptr; exact Hut).
  - (* float32 *)
    cbn [has_type] in Hty. destruct (underlying t) eqn:Hut; try discriminate.
    cbn [marshal normal] in Hm |- *. destruct (f32_is_nan b); cbn [bind] in Hm; injection Hm as <-.
    + leaf_case Hs Hp Hf ltac:(apply unm_nan32; exact Hut).
    + leaf_case Hs Hp Hf ltac:(apply unm_f32; exact Hut).
  - (* float64 *)
    cbn [has_type] in Hty. destruct (underlying t) eqn:Hut; try discriminate.
    cbn [marshal normal] in Hm |- *. destruct (f64_is_nan b); cbn [bind] in Hm; injection Hm as <-.
    + leaf_case Hs Hp Hf ltac:(apply unm_nan64; exact Hut).
    + leaf_case Hs Hp Hf ltac:(apply unm_f64; exact Hut).
  - (* string *)
    cbn [has_type] in Hty. destruct (underlying t) eqn:Hut; try discriminate.
    cbn [marshal bind] in Hm. injection Hm as <-.
    leaf_case Hs Hp Hf ltac:(apply unm_string; exact Hut).
  - (* bytes / byte array *)
    cbn [has_type] in Hty. destruct (underlying t) eqn:Hut; try discriminate;
    cbn [marshal bind] in Hm; injection Hm as <-.
    + leaf_case Hs Hp Hf ltac:(apply unm_bytes; exact Hut).
    + leaf_case Hs Hp Hf ltac:(idtac).
      apply andb_true_iff in Hty. destruct Hty as [Hty _]. apply andb_true_iff in Hty. destruct Hty as [_ Hlen].
      apply Nat.eqb_eq in Hlen.
      rewrite (unm_bytearray pf o R _ _ _ _ _ _ Hut) by (rewrite Hlen; apply Nat.le_refl). cbn [normal].
      rewrite zero_underlying, Hut. cbn [zero bytes_of_gval].
      rewrite <- Hlen, firstn_all.
      assert (Hsk : forall k, skipn k (rep k 0) = []) by (induction k; [reflexivity|assumption]).
      rewrite Hsk, app_nil_r. reflexivity.
  - (* list: array or slice *)
    rewrite has_type_list in Hty. rewrite marshal_list in Hm. rewrite normal_list.
    apply bind_ok in Hm. destruct Hm as (ts0 & Hm & Hts). injection Hts as <-.
    apply bind_ok in Hm. destruct Hm as (body & Hm & Hts). injection Hts as <-.
    cbn [forallb no_ptr_to_nil] in Hnp. rewrite vsize_list in Hf.
    eapply (rt_nonptr pf o R); [reflexivity|reflexivity|exact Hp|exact Hs| |exact Hf|]; [clear; lia|].
    intros f' Hf'.
    pose proof (rt_elem_ok f' l IH ltac:(clear - Hf'; lia)) as Hel.
    unfold elem_ty in Hm.
    destruct (underlying t) eqn:Hut; try discriminate.
    + (* array *)
      cbn [wf_ty simple_ty] in Hwu, Hsu.
      apply andb_true_iff in Hty. destruct Hty as [Hty Hall]. apply andb_true_iff in Hty. destruct Hty as [_ Hlen].
      apply Nat.eqb_eq in Hlen.
      cbn [app]. rewrite (unm_array_step pf o R _ _ _ _ _ _ Hut).
      rewrite zero_underlying, Hut. cbn [zero items_of_gval]. rewrite <- Hlen.
      rewrite <- app_assoc. cbn [app].
      pose proof (arr_loop_rt (unm pf f' o R) _ Hwu Hsu l Hel Hall Hnp body Hm
                    (S (length (body ++ T KArrayEnd VNone :: rest))) [] rest) as Hloop.
      cbn [app length] in Hloop. rewrite Hloop; [reflexivity|].
      pose proof (melems_length _ _ _ Hall Hsu Hm) as Hl. rewrite app_length. clear - Hl. lia.
    + (* slice *)
      cbn [wf_ty simple_ty] in Hwu, Hsu.
      apply andb_true_iff in Hty. destruct Hty as [_ Hall].
      cbn [app]. rewrite (unm_slice_step pf o R _ _ _ _ _ Hut).
      rewrite zero_underlying, Hut. cbn [zero items_of_gval is_nil_container].
      rewrite <- app_assoc. cbn [app].
      rewrite (slice_loop_rt (unm pf f' o R) _ Hwu Hsu l Hel Hall Hnp body Hm).
      * cbn [bind fst snd app andb]. destruct l; reflexivity.
      * pose proof (melems_length _ _ _ Hall Hsu Hm) as Hl. rewrite app_length. clear - Hl. lia.
  - (* map: excluded *)
    cbn [has_type] in Hty. destruct (underlying t); discriminate.
  - (* struct *)
    rewrite has_type_struct in Hty. rewrite marshal_struct in Hm. rewrite normal_struct.
    apply bind_ok in Hm. destruct Hm as (ts0 & Hm & Hts). injection Hts as <-.
    apply bind_ok in Hm. destruct Hm as (body & Hm & Hts). injection Hts as <-.
    cbn [no_ptr_to_nil] in Hnp. rewrite vsize_struct in Hf.
    eapply (rt_nonptr pf o R); [reflexivity|reflexivity|exact Hp|exact Hs| |exact Hf|]; [clear; lia|].
    intros f' Hf'.
    pose proof (rt_elem_ok f' l IH ltac:(clear - Hf'; lia)) as Hel.
    unfold fields_of in Hm.
    destruct (underlying t) eqn:Hut; try discriminate.
    rewrite wf_ty_struct in Hwu. apply andb_true_iff in Hwu. destruct Hwu as [Hwfs Hnd].
    cbn [simple_ty] in Hsu.
    cbn [app]. rewrite (unm_struct_step pf o R _ _ _ _ _ Hut).
    rewrite zero_underlying, Hut. cbn [zero]. rewrite <- app_assoc. cbn [app].
    assert (Hnm : forall s cur rest', unm pf f' o R TString cur (T KString (VStr s) :: rest') = Ok (GStr s, rest')).
    { destruct f' as [|f'']; [clear - Hf'; lia|]. intros. apply unm_name. }
    pose proof (struct_loop_rt o (unm pf f' o R) Hnm l Hel fs [] fs [] body eq_refl Hnd Hwfs Hsu Hty Hnp Hm eq_refl
                  (S (length (body ++ T KObjectEnd VNone :: rest))) (depr_of t) rest) as Hloop.
    cbn [app] in Hloop. rewrite Hloop; [reflexivity|].
    rewrite app_length. clear. lia.
  - (* nil pointer *)
    cbn [has_type] in Hty. destruct (underlying t) eqn:Hut; try discriminate.
    cbn [marshal bind] in Hm. injection Hm as <-. cbn [normal].
    leaf_case Hs Hp Hf ltac:(idtac).
    rewrite nil_leaves_untouched by (rewrite Hut; discriminate).
    rewrite zero_underlying, Hut. reflexivity.
  - (* non-nil pointer *)
    cbn [has_type] in Hty. destruct (underlying t) eqn:Hut; try discriminate.
    rewrite marshal_ptr in Hm. unfold pointee_ty in Hm. rewrite Hut in Hm.
    apply bind_ok in Hm. destruct Hm as (tsx & Hm & Hts). injection Hts as <-.
    cbn [normal]. rewrite Hut. cbn [wf_ty simple_ty] in Hwu, Hsu.
    assert (Hnx : no_ptr_to_nil x = true /\ x <> GPtr None).
    { cbn [no_ptr_to_nil] in Hnp. destruct x as [| | | | | | | | | |[y|]| | |]; try (split; [exact Hnp|discriminate]).
      discriminate Hnp. }
    destruct Hnx as [Hnx Hxn].
    destruct (strip_head _ _ _ _ Hty Hsu Hm) as (Hlead & tk & r & E & Hh & Htn & Hnil).
    rewrite strip_prefix. rewrite leadl_prefix in Hf. pose proof (reg_prefix_len t) as Hpl.
    cbn [vsize] in Hf.
    apply unm_skip_tns; [exact Hs|exact Hp|clear - Hf Hlead Hpl; lia|].
    destruct (f - length pre)%nat as [|f1] eqn:Ef; [clear - Hf Hlead Hpl Ef; lia|].
    rewrite E. cbn [app].
    rewrite (unm_ptr_step pf o R f1 t _ _ tk _ Hut Hh Htn) by (intros Hk; apply Hxn, Hnil; assumption).
    change (tk :: r ++ rest) with ([] ++ (tk :: r) ++ rest). rewrite <- E.
    rewrite (IH _ _ Hwu Hsu Hty Hnx Hm [] f1 rest eq_refl) by (cbn [length]; clear - Hf Hlead Hpl Ef; lia).
    reflexivity.
  - cbn [has_type] in Hty. destruct (underlying t); discriminate.
  - cbn [has_type] in Hty. destruct (underlying t); discriminate.
  - (* time *)
    cbn [has_type] in Hty. destruct (underlying t) eqn:Hut; try discriminate.
    apply andb_true_iff in Hty. destruct Hty as [_ Hv].
    cbn [marshal bind] in Hm. injection Hm as <-. cbn [normal].
    leaf_case Hs Hp Hf ltac:(apply unm_time; assumption).
Qed.

End RoundTrip.

(* item 4.  (Since the TypeName-first repair of the unmarshaller no restriction on registered types is
   needed: a concrete target skips TypeName tokens before the time bridge and before any pointer
   dereference.) *)
Theorem roundtrip_simple_fuel pf o R t v ts rest f :
  wf_ty t = true -> simple_ty t = true ->
  has_type t v = true -> no_ptr_to_nil v = true ->
  marshal default_opts t v = Ok ts -> (2 * vsize v < f)%nat ->
  unm pf f o R t (zero t) (ts ++ rest) = Ok (normal t v, rest).
Proof.
  intros Hwf Hs Ht Hn Hm Hf. rewrite <- (leadl_strip ts), <- app_assoc.
  apply (roundtrip_all pf o R v t ts); try assumption; [apply leadl_tn|lia].
Qed.

Theorem roundtrip_simple pf o R t v ts rest :
  wf_ty t = true -> simple_ty t = true ->
  has_type t v = true -> no_ptr_to_nil v = true ->
  marshal default_opts t v = Ok ts ->
  exists f, unm pf f o R t (zero t) (ts ++ rest) = Ok (normal t v, rest).
Proof. intros. exists (S (2 * vsize v)). eapply roundtrip_simple_fuel; try eassumption. lia. Qed.

(* item 5 *)
Definition canonical_val (t : ty) (v : gval) : Prop := normal t v = v.

Corollary roundtrip_simple_exact pf o R t v ts rest :
  wf_ty t = true -> simple_ty t = true ->
  has_type t v = true -> no_ptr_to_nil v = true -> canonical_val t v ->
  marshal default_opts t v = Ok ts ->
  exists f, unm pf f o R t (zero t) (ts ++ rest) = Ok (v, rest).
Proof.
  intros Hwf Hs Ht Hn Hc Hm. destruct (roundtrip_simple pf o R t v ts rest Hwf Hs Ht Hn Hm) as (f & Hf).
  exists f. rewrite Hf, Hc. reflexivity.
Qed.

(* the two former counterexamples (defects of the Go code, since repaired): the nil value of a
   registered pointer type and a value of a registered time type now round-trip *)
Definition RegPtr : ty := TNamed [80] true [] (TPtr (TInt WNat)).
Definition RegTime : ty := TNamed [84] true [] TTime.
Definition zero_time : bytes := [1; 0; 0; 0; 0; 0; 0; 0; 0; 0; 0; 0; 0; 255; 255].

Example roundtrip_regptr_nil pf o R rest :
  marshal default_opts RegPtr (GPtr None) = Ok [T KTypeName (VStr [80]); T KNil VNone] /\
  exists f, unm pf f o R RegPtr (zero RegPtr) ([T KTypeName (VStr [80]); T KNil VNone] ++ rest) = Ok (GPtr None, rest).
Proof.
  split; [reflexivity|].
  apply (roundtrip_simple pf o R RegPtr (GPtr None)); reflexivity.
Qed.

Example roundtrip_regptr_nonnil pf o R rest :
  exists f, unm pf f o R RegPtr (zero RegPtr) ([T KTypeName (VStr [80]); T KInt (VI WNat 7)] ++ rest)
            = Ok (GPtr (Some (GInt 7)), rest).
Proof. apply (roundtrip_simple pf o R RegPtr (GPtr (Some (GInt 7)))); reflexivity. Qed.

Example roundtrip_regtime pf o R rest :
  marshal default_opts RegTime (GTime zero_time) = Ok [T KTypeName (VStr [84]); T KString (VStr zero_time)] /\
  exists f, unm pf f o R RegTime (zero RegTime) ([T KTypeName (VStr [84]); T KString (VStr zero_time)] ++ rest)
            = Ok (GTime zero_time, rest).
Proof.
  split; [reflexivity|].
  apply (roundtrip_simple pf o R RegTime (GTime zero_time)); reflexivity.
Qed.

Example roundtrip_reg_run :
  unm (fun _ _ => None) 5 default_opts [] RegPtr (zero RegPtr) [T KTypeName (VStr [80]); T KNil VNone] = Ok (GPtr None, []) /\
  unm (fun _ _ => None) 5 default_opts [] RegTime (zero RegTime) [T KTypeName (VStr [84]); T KString (VStr zero_time)]
  = Ok (GTime zero_time, []).
Proof. split; vm_compute; reflexivity. Qed.

Lemma unm_not_from (pf : bytes -> N -> option N) o R t cur ts f0 r r' :
  unm pf f0 o R t cur ts = r -> r <> OutOfFuel -> r <> r' -> r' <> OutOfFuel ->
  forall f, unm pf f o R t cur ts <> r'.
Proof.
  intros H0 Hr Hne Hr' f H.
  destruct (Nat.le_ge_cases f f0) as [Hle|Hle].
  - pose proof (unm_fuel_mono pf o R f t cur ts r' H Hr' f0 Hle). congruence.
  - pose proof (unm_fuel_mono pf o R f0 t cur ts r H0 Hr f Hle). congruence.
Qed.

(* ---- examples: a nested struct with a slice of pointers to a registered named struct that has
        an unexported field and a byte array; arrays with NaN; nil []byte; empty slice; time;
        pointer to pointer ---- *)
Definition ExInner : ty :=
  TNamed [73] true [] (TStruct [([65], true, TInt W8); ([98], false, TString); ([67], true, TByteArray 3)]).
Definition ExOuter : ty :=
  TStruct [([80], true, TSlice (TPtr ExInner)); ([81], true, TArray 2 TF32); ([82], true, TBytes);
           ([83], true, TSlice TBool); ([84], true, TTime); ([85], true, TPtr (TPtr TBool))].
Definition ex_inner : gval := GStruct [GInt 5; GStr [1; 2]; GBytes false [7; 8; 9]].
Definition ex_outer : gval :=
  GStruct [GList false [GPtr (Some ex_inner); GPtr None]; GList false [GF32 2143289345; GF32 5];
           GBytes true []; GList false []; GTime zero_time; GPtr (Some (GPtr (Some (GBool true))))].

Example roundtrip_ex_hyps :
  wf_ty ExOuter = true /\ simple_ty ExOuter = true /\
  has_type ExOuter ex_outer = true /\ no_ptr_to_nil ex_outer = true /\
  exists ts, marshal default_opts ExOuter ex_outer = Ok ts.
Proof. repeat split; try (vm_compute; reflexivity). eexists. vm_compute. reflexivity. Qed.

(* what comes back: the unexported field b is zero, NaN is canonical, the nil []byte is empty non-nil,
   the empty slice is nil *)
Example roundtrip_ex_normal :
  normal ExOuter ex_outer =
  GStruct [GList false [GPtr (Some (GStruct [GInt 5; GStr []; GBytes false [7; 8; 9]])); GPtr None];
           GList false [GF32 f32_nan_bits; GF32 5]; GBytes false []; GList true []; GTime zero_time;
           GPtr (Some (GPtr (Some (GBool true))))].
Proof. vm_compute. reflexivity. Qed.

Example roundtrip_ex_run :
  forall ts, marshal default_opts ExOuter ex_outer = Ok ts ->
  unm (fun _ _ => None) 40 (Opts false true false) [] ExOuter (zero ExOuter) (ts ++ [T KBool (VBool true)])
  = Ok (normal ExOuter ex_outer, [T KBool (VBool true)]).
Proof. intros ts H. vm_compute in H. injection H as <-. vm_compute. reflexivity. Qed.

Example roundtrip_ex_thm : forall pf o R ts rest,
  marshal default_opts ExOuter ex_outer = Ok ts ->
  exists f, unm pf f o R ExOuter (zero ExOuter) (ts ++ rest) = Ok (normal ExOuter ex_outer, rest).
Proof.
  intros pf o R ts rest H. apply roundtrip_simple; try assumption; vm_compute; reflexivity.
Qed.

(* ====================================================================================== *)
(* Part 6.  C16: struct decoding is by name; unknown fields are skipped                    *)
(* ====================================================================================== *)

(* ---- assignment by name as a left fold over the writer's fields ---- *)
Definition wfield := ((bytes * bool * ty) * gval)%type.

Definition wstep (rfs : list (bytes * bool * ty)) (vals : list gval) (p : wfield) : list gval :=
  if fexported (fst p) then
    match find_field (fname (fst p)) rfs 0 with
    | Some (i, ft) => set_nth i (normal ft (snd p)) vals
    | None => vals
    end
  else vals.

Definition apply_fields (rfs : list (bytes * bool * ty)) (wl : list wfield) (vals : list gval) : list gval :=
  fold_left (wstep rfs) wl vals.

Definition assign_l (wl : list wfield) (rfs : list (bytes * bool * ty)) (rvals : list gval) : list gval :=
  map (fun '(rf, rv) =>
         match find (fun '(wf, _) => fexported wf && fexported rf && bytes_eqb (fname wf) (fname rf)) wl with
         | Some (wf, wv) => normal (snd rf) wv
         | None => rv
         end) (combine rfs rvals).

Lemma assign_by_name_l wfs rfs wvals rvals :
  assign_by_name wfs rfs wvals rvals = assign_l (combine wfs wvals) rfs rvals.
Proof. reflexivity. Qed.

Lemma existsb_false {A} (f : A -> bool) l : existsb f l = false -> forall x, In x l -> f x = false.
Proof.
  intros H x Hx. destruct (f x) eqn:E; [|reflexivity].
  assert (existsb f l = true) by (apply existsb_exists; exists x; split; assumption). congruence.
Qed.

Lemma names_nodup_cons f l :
  names_nodup (f :: l) = negb (existsb (fun g => bytes_eqb (fname f) (fname g)) l) && names_nodup l.
Proof. reflexivity. Qed.

Lemma set_nth_length {A} (x : A) : forall l i, length (set_nth i x l) = length l.
Proof. induction l as [|y l IH]; intros [|i]; cbn [set_nth length]; try reflexivity. now rewrite IH. Qed.

Lemma nth_set_nth_other {A} (x d : A) : forall l i j, i <> j -> nth j (set_nth i x l) d = nth j l d.
Proof.
  induction l as [|y l IH]; intros [|i] [|j] Hne; cbn [set_nth nth]; try reflexivity; try congruence.
  apply IH. congruence.
Qed.

Lemma find_field_ge name : forall fs k i ft, find_field name fs k = Some (i, ft) -> (k <= i)%nat.
Proof.
  induction fs as [|f fs IH]; intros k i ft; cbn [find_field]; [discriminate|].
  destruct (fexported f && bytes_eqb (fname f) name); [intros [= <- _]; lia|].
  intros H. apply IH in H. lia.
Qed.

Lemma find_field_inj n1 n2 : forall fs k i ft1 ft2,
  find_field n1 fs k = Some (i, ft1) -> find_field n2 fs k = Some (i, ft2) -> n1 = n2.
Proof.
  induction fs as [|f fs IH]; intros k i ft1 ft2; cbn [find_field]; [discriminate|].
  destruct (fexported f && bytes_eqb (fname f) n1) eqn:E1; destruct (fexported f && bytes_eqb (fname f) n2) eqn:E2.
  - intros _ _. apply andb_true_iff in E1, E2. destruct E1 as [_ E1], E2 as [_ E2].
    apply bytes_eqb_true in E1, E2. congruence.
  - intros [= <- _] H. apply find_field_ge in H. lia.
  - intros H [= <- _]. apply find_field_ge in H. lia.
  - apply IH.
Qed.

Lemma map_snd_combine (rfs : list (bytes * bool * ty)) : forall (vals : list gval), length vals = length rfs ->
  map (fun '(rf, rv) => rv) (combine rfs vals) = vals.
Proof.
  induction rfs as [|rf rfs IH]; intros [|v vals] Hl; cbn in Hl |- *; try reflexivity; try discriminate.
  f_equal. apply IH. lia.
Qed.

Section AssignStep.
Variable wf : bytes * bool * ty.
Variable wv : gval.
Variable wl : list wfield.
Hypothesis Hfresh : forall p, In p wl -> bytes_eqb (fname wf) (fname (fst p)) = false.

Definition Fa (l : list wfield) : (bytes * bool * ty) * gval -> gval :=
  fun '(rf, rv) =>
    match find (fun '(wf, _) => fexported wf && fexported rf && bytes_eqb (fname wf) (fname rf)) l with
    | Some (wf, wv) => normal (snd rf) wv
    | None => rv
    end.

Lemma Fa_cons rf rv :
  Fa ((wf, wv) :: wl) (rf, rv) =
  if fexported wf && fexported rf && bytes_eqb (fname wf) (fname rf) then normal (snd rf) wv else Fa wl (rf, rv).
Proof. unfold Fa. cbn [find]. destruct (fexported wf && fexported rf && bytes_eqb (fname wf) (fname rf)); reflexivity. Qed.

Lemma Fa_none rf rv : bytes_eqb (fname wf) (fname rf) = true -> Fa wl (rf, rv) = rv.
Proof.
  intros E. apply bytes_eqb_true in E. unfold Fa.
  assert (H : find (fun '(wf0, _) => fexported wf0 && fexported rf && bytes_eqb (fname wf0) (fname rf)) wl = None).
  { clear - Hfresh E. induction wl as [|[wf' wv'] l IH]; [reflexivity|]. cbn [find].
    pose proof (Hfresh (wf', wv') (or_introl eq_refl)) as Hf. cbn [fst] in Hf.
    assert (Hh : bytes_eqb (fname wf') (fname rf) = false) by (rewrite <- E, bytes_eqb_sym; exact Hf).
    rewrite Hh, andb_false_r. apply IH. intros p Hp. apply Hfresh. right. exact Hp. }
  rewrite H. reflexivity.
Qed.

Lemma assign_step_gen : fexported wf = true ->
  forall rfs vals k, length vals = length rfs -> names_nodup rfs = true ->
  map (Fa ((wf, wv) :: wl)) (combine rfs vals) =
  map (Fa wl) (combine rfs match find_field (fname wf) rfs k with
                           | Some (i, ft) => set_nth (i - k) (normal ft wv) vals
                           | None => vals
                           end).
Proof.
  intros Hex. induction rfs as [|rf rfs IH]; intros vals k Hl Hnd.
  - destruct vals; reflexivity.
  - destruct vals as [|v vals]; [discriminate Hl|]. cbn [length] in Hl.
    rewrite names_nodup_cons in Hnd. apply andb_true_iff in Hnd. destruct Hnd as [Hrf Hnd].
    apply negb_true_iff in Hrf. cbn [find_field].
    destruct (fexported rf && bytes_eqb (fname rf) (fname wf)) eqn:Ec.
    + apply andb_true_iff in Ec. destruct Ec as [Hrex Ec]. rewrite Nat.sub_diag. cbn [set_nth combine map].
      rewrite Fa_cons, Hex, Hrex, (bytes_eqb_sym (fname wf)), Ec. cbn [andb].
      rewrite Fa_none by (rewrite bytes_eqb_sym; exact Ec). f_equal.
      apply map_ext_in. intros [rf' rv'] Hin. apply in_combine_l in Hin.
      rewrite Fa_cons. apply bytes_eqb_true in Ec. rewrite <- Ec.
      rewrite (existsb_false _ _ Hrf rf' Hin), andb_false_r. reflexivity.
    + assert (Hhead : Fa ((wf, wv) :: wl) (rf, v) = Fa wl (rf, v)).
      { rewrite Fa_cons, Hex, (bytes_eqb_sym (fname wf)). cbn [andb]. rewrite Ec. reflexivity. }
      specialize (IH vals (S k) ltac:(lia) Hnd).
      destruct (find_field (fname wf) rfs (S k)) as [[i ft]|] eqn:Ef.
      * pose proof (find_field_ge _ _ _ _ _ Ef) as Hge.
        replace (i - k)%nat with (S (i - S k)) by lia. cbn [set_nth combine map]. rewrite Hhead, IH. reflexivity.
      * cbn [combine map]. rewrite Hhead, IH. reflexivity.
Qed.

End AssignStep.

Lemma apply_assign rfs : names_nodup rfs = true ->
  forall wl vals, names_nodup (map fst wl) = true -> length vals = length rfs ->
  apply_fields rfs wl vals = assign_l wl rfs vals.
Proof.
  intros Hnd. induction wl as [|[wf wv] wl IH]; intros vals Hwnd Hl.
  - cbn [apply_fields fold_left]. unfold assign_l. cbn [find]. symmetry. apply map_snd_combine, Hl.
  - cbn [map fst] in Hwnd. rewrite names_nodup_cons in Hwnd. apply andb_true_iff in Hwnd. destruct Hwnd as [Hfr Hwnd].
    apply negb_true_iff in Hfr.
    change (apply_fields rfs ((wf, wv) :: wl) vals) with (apply_fields rfs wl (wstep rfs vals (wf, wv))).
    rewrite IH; [|exact Hwnd|].
    + unfold wstep. cbn [fst snd]. change (assign_l ((wf, wv) :: wl) rfs vals) with (map (Fa ((wf, wv) :: wl)) (combine rfs vals)).
      destruct (fexported wf) eqn:Hex.
      * rewrite (assign_step_gen wf wv wl) with (k := 0%nat); try assumption.
        -- destruct (find_field (fname wf) rfs 0) as [[i ft]|]; [rewrite Nat.sub_0_r|]; reflexivity.
        -- intros p Hp. apply (existsb_false _ _ Hfr (fst p)). apply in_map, Hp.
      * apply map_ext. intros [rf rv]. rewrite Fa_cons, Hex. reflexivity.
    + unfold wstep. cbn [fst snd]. destruct (fexported wf); [|exact Hl].
      destruct (find_field (fname wf) rfs 0) as [[i ft]|]; [|exact Hl]. rewrite set_nth_length. exact Hl.
Qed.

(* ---- every marshalled stream is exactly one balanced value: skipValue consumes it ---- *)
Section gval_ind3.
  Variable P : gval -> Prop.
  Hypothesis Hbool : forall b, P (GBool b).
  Hypothesis Hint : forall z, P (GInt z).
  Hypothesis Huint : forall n, P (GUint n).
  Hypothesis Hf32 : forall b, P (GF32 b).
  Hypothesis Hf64 : forall b, P (GF64 b).
  Hypothesis Hstr : forall s, P (GStr s).
  Hypothesis Hbytes : forall n s, P (GBytes n s).
  Hypothesis Hlist : forall n l, Forall P l -> P (GList n l).
  Hypothesis Hmap : forall n es, Forall (fun e => P (fst e) /\ P (snd e)) es -> P (GMap n es).
  Hypothesis Hstruct : forall l, Forall P l -> P (GStruct l).
  Hypothesis Hpnil : P (GPtr None).
  Hypothesis Hptr : forall x, P x -> P (GPtr (Some x)).
  Hypothesis Hanil : P (GAny None).
  Hypothesis Hany : forall t x, P x -> P (GAny (Some (t, x))).
  Hypothesis Hfnil : P (GFunc None).
  Hypothesis Hfunc : forall l, Forall P l -> P (GFunc (Some l)).
  Hypothesis Htime : forall e, P (GTime e).
  Fixpoint gval_ind3 (v : gval) : P v :=
    let all := (fix go (l : list gval) : Forall P l :=
                  match l with [] => Forall_nil _ | x :: r => Forall_cons _ (gval_ind3 x) (go r) end) in
    match v with
    | GBool b => Hbool b | GInt z => Hint z | GUint n => Huint n | GF32 b => Hf32 b | GF64 b => Hf64 b
    | GStr s => Hstr s | GBytes n s => Hbytes n s
    | GList n l => Hlist n l (all l)
    | GMap n es =>
        Hmap n es ((fix go (l : list (gval * gval)) : Forall (fun e => P (fst e) /\ P (snd e)) l :=
                      match l with
                      | [] => Forall_nil _
                      | e :: r => Forall_cons _ (conj (gval_ind3 (fst e)) (gval_ind3 (snd e))) (go r)
                      end) es)
    | GStruct l => Hstruct l (all l)
    | GPtr None => Hpnil
    | GPtr (Some x) => Hptr x (gval_ind3 x)
    | GAny None => Hanil
    | GAny (Some (t, x)) => Hany t x (gval_ind3 x)
    | GFunc None => Hfnil
    | GFunc (Some l) => Hfunc l (all l)
    | GTime e => Htime e
    end.
End gval_ind3.

(* a sequence of complete values / exactly one complete value *)
Definition bal (ts : list token) : Prop :=
  forall d rest, skip_value (S d) (ts ++ rest) = skip_value (S d) rest.
Definition val1 (ts : list token) : Prop :=
  (forall rest, skip_value 0 (ts ++ rest) = Ok rest) /\ bal ts.

Lemma bal_nil : bal [].
Proof. intros d rest. reflexivity. Qed.
Lemma bal_app a b : bal a -> bal b -> bal (a ++ b).
Proof. intros Ha Hb d rest. rewrite <- app_assoc, Ha, Hb. reflexivity. Qed.
Lemma val1_bal ts : val1 ts -> bal ts.
Proof. intros [_ H]; exact H. Qed.

Lemma val1_leaf tk : is_leaf_token tk = true -> val1 [tk].
Proof.
  unfold is_leaf_token. intros H. apply andb_true_iff in H. destruct H as [H H3].
  apply andb_true_iff in H. destruct H as [H1 H2]. apply negb_true_iff in H1, H2, H3.
  split; [intros rest|intros d rest]; cbn [app skip_value]; rewrite H1, H3, H2; reflexivity.
Qed.

Lemma val1_comp ko kc body :
  is_open_kind ko = true -> is_open_kind kc = false -> (kc =? KTypeName) = false -> is_end_kind kc = true ->
  bal body -> val1 (T ko VNone :: body ++ [T kc VNone]).
Proof.
  intros Ho Hc1 Hc2 Hc3 Hb. split; [intros rest|intros d rest]; cbn [app skip_value kind]; rewrite Ho;
    rewrite <- app_assoc, Hb; cbn [app skip_value kind]; rewrite Hc1, Hc2, Hc3; reflexivity.
Qed.

Lemma val1_typename n ts : val1 ts -> val1 (T KTypeName (VStr n) :: ts).
Proof. intros [H1 H2]. split; [intros rest|intros d rest]; cbn [app skip_value kind]; [apply H1|apply H2]. Qed.

Lemma val1_prefix t ts : val1 ts -> val1 (reg_prefix t ++ ts).
Proof.
  intros H. destruct (reg_prefix_cases t) as [E|[n E]]; rewrite E; cbn [app]; [exact H|apply val1_typename, H].
Qed.

Definition mentries (o : copts) (kt vt : ty) : list (gval * gval) -> res (list entry) :=
  fix go (l : list (gval * gval)) : res (list entry) :=
    match l with
    | [] => Ok []
    | (k, x) :: r =>
        bind (marshal default_opts kt k) (fun sortkey =>
        if bad_map_key sortkey then Err EBadMapKey else
        bind (go r) (fun rest =>
        bind (marshal o kt k) (fun kts =>
        bind (marshal o vt x) (fun vts => Ok ((sortkey, kts, vts) :: rest)))))
    end.
Definition kv_ty (t : ty) : ty * ty := match underlying t with TMap k v => (k, v) | _ => (TAny, TAny) end.

Lemma marshal_map o t n es :
  marshal o t (GMap n es) =
  bind (let '(kt, vt) := kv_ty t in
        bind (mentries o kt vt es) (fun es' =>
        Ok (T KMap VNone :: flat_map (fun e => snd (fst e) ++ snd e) (sort_entries es') ++ [T KMapEnd VNone])))
       (fun ts => Ok (reg_prefix t ++ ts)).
Proof. reflexivity. Qed.

Definition mouts (o : copts) : list gval -> list ty -> res (list token) :=
  fix go (l : list gval) (ts : list ty) : res (list token) :=
    match l, ts with
    | x :: r', xt :: tr => bind (marshal o xt x) (fun a => bind (go r' tr) (fun b => Ok (a ++ b)))
    | _, _ => Ok []
    end.
Definition outs_of (t : ty) : list ty := match underlying t with TFunc outs => outs | _ => [] end.

Lemma marshal_func o t items :
  marshal o t (GFunc (Some items)) =
  bind (if ignore_funcs o then Ok [T KNil VNone]
        else bind (mouts o items (outs_of t)) (fun body => Ok (T KTuple VNone :: body ++ [T KTupleEnd VNone])))
       (fun ts => Ok (reg_prefix t ++ ts)).
Proof. reflexivity. Qed.

Definition val1_of (x : gval) : Prop := forall o t ts, marshal o t x = Ok ts -> val1 ts.

Lemma melems_bal o et : forall l, Forall val1_of l -> forall body, melems o et l = Ok body -> bal body.
Proof.
  induction 1 as [|x l Hx _ IH]; intros body Hm.
  - injection Hm as <-. apply bal_nil.
  - change (melems o et (x :: l)) with (bind (marshal o et x) (fun a => bind (melems o et l) (fun b => Ok (a ++ b)))) in Hm.
    apply bind_ok in Hm. destruct Hm as (a & Ha & Hm). apply bind_ok in Hm. destruct Hm as (b & Hb & Hm).
    injection Hm as <-. apply bal_app; [apply val1_bal, (Hx _ _ _ Ha)|apply IH, Hb].
Qed.

Lemma mouts_bal o : forall l, Forall val1_of l -> forall outs body, mouts o l outs = Ok body -> bal body.
Proof.
  induction 1 as [|x l Hx _ IH]; intros outs body Hm.
  - injection Hm as <-. apply bal_nil.
  - destruct outs as [|xt outs]; [injection Hm as <-; apply bal_nil|].
    change (mouts o (x :: l) (xt :: outs)) with (bind (marshal o xt x) (fun a => bind (mouts o l outs) (fun b => Ok (a ++ b)))) in Hm.
    apply bind_ok in Hm. destruct Hm as (a & Ha & Hm). apply bind_ok in Hm. destruct Hm as (b & Hb & Hm).
    injection Hm as <-. apply bal_app; [apply val1_bal, (Hx _ _ _ Ha)|apply (IH _ _ Hb)].
Qed.

Lemma mfields_bal o : forall l, Forall val1_of l -> forall fs body, mfields o l fs = Ok body -> bal body.
Proof.
  induction 1 as [|x l Hx _ IH]; intros fs body Hm.
  - injection Hm as <-. apply bal_nil.
  - destruct fs as [|fd fs]; [injection Hm as <-; apply bal_nil|].
    change (mfields o (x :: l) (fd :: fs)) with
      (if skip_empty o && (is_zero (snd fd) x || (is_slice_kind (snd fd) && Nat.eqb (glen x) 0)) then mfields o l fs
       else if negb (fexported fd) then mfields o l fs
       else bind (marshal o (snd fd) x) (fun a =>
            bind (mfields o l fs) (fun b => Ok (T KString (VStr (fname fd)) :: a ++ b)))) in Hm.
    destruct (skip_empty o && (is_zero (snd fd) x || (is_slice_kind (snd fd) && Nat.eqb (glen x) 0))); [apply (IH _ _ Hm)|].
    destruct (negb (fexported fd)); [apply (IH _ _ Hm)|].
    apply bind_ok in Hm. destruct Hm as (a & Ha & Hm). apply bind_ok in Hm. destruct Hm as (b & Hb & Hm).
    injection Hm as <-.
    change (T KString (VStr (fname fd)) :: a ++ b) with ([T KString (VStr (fname fd))] ++ a ++ b).
    apply bal_app; [apply val1_bal, val1_leaf; reflexivity|].
    apply bal_app; [apply val1_bal, (Hx _ _ _ Ha)|apply (IH _ _ Hb)].
Qed.

Definition entry_bal (e : entry) : Prop := bal (snd (fst e)) /\ bal (snd e).

Lemma insert_entry_bal e l : entry_bal e -> Forall entry_bal l -> Forall entry_bal (insert_entry e l).
Proof.
  intros He. induction 1 as [|x l Hx Hl IH]; cbn [insert_entry]; [constructor; [exact He|constructor]|].
  destruct (key_le e x).
  - constructor; [exact He|]. constructor; assumption.
  - constructor; assumption.
Qed.
Lemma sort_entries_bal l : Forall entry_bal l -> Forall entry_bal (sort_entries l).
Proof.
  induction 1 as [|x l Hx _ IH]; [constructor|]. unfold sort_entries. cbn [fold_right].
  apply insert_entry_bal; assumption.
Qed.
Lemma entries_flat_bal l : Forall entry_bal l -> bal (flat_map (fun e => snd (fst e) ++ snd e) l).
Proof.
  induction 1 as [|x l [H1 H2] _ IH]; cbn [flat_map]; [apply bal_nil|].
  apply bal_app; [apply bal_app; assumption|exact IH].
Qed.

Lemma mentries_bal o kt vt : forall es, Forall (fun e => val1_of (fst e) /\ val1_of (snd e)) es ->
  forall es', mentries o kt vt es = Ok es' -> Forall entry_bal es'.
Proof.
  induction 1 as [|[k x] es [Hk Hx] _ IH]; intros es' Hm.
  - injection Hm as <-. constructor.
  - change (mentries o kt vt ((k, x) :: es)) with
      (bind (marshal default_opts kt k) (fun sortkey =>
       if bad_map_key sortkey then Err EBadMapKey else
       bind (mentries o kt vt es) (fun rest =>
       bind (marshal o kt k) (fun kts =>
       bind (marshal o vt x) (fun vts => Ok ((sortkey, kts, vts) :: rest)))))) in Hm.
    apply bind_ok in Hm. destruct Hm as (sk & _ & Hm). destruct (bad_map_key sk); [discriminate|].
    apply bind_ok in Hm. destruct Hm as (rest & Hr & Hm).
    apply bind_ok in Hm. destruct Hm as (kts & Hkts & Hm).
    apply bind_ok in Hm. destruct Hm as (vts & Hvts & Hm). injection Hm as <-.
    constructor; [|apply IH, Hr]. cbn [fst snd] in *.
    split; cbn [fst snd]; apply val1_bal; [apply (Hk _ _ _ Hkts)|apply (Hx _ _ _ Hvts)].
Qed.

Ltac leaf1 Hm := cbn [bind] in Hm; injection Hm as <-; apply val1_prefix, val1_leaf; reflexivity.

Theorem marshal_val1 : forall v, val1_of v.
Proof.
  induction v as [b|z|n|b|b|s|n s|n l IH|n es IH|l IH| |x IH| |t' x IH| |l IH|e] using gval_ind3;
    intros o t ts Hm.
  - cbn [marshal] in Hm. leaf1 Hm.
  - cbn [marshal] in Hm. destruct (underlying t); try discriminate Hm. destruct w; leaf1 Hm.
  - cbn [marshal] in Hm. destruct (underlying t); try discriminate Hm; try destruct w; leaf1 Hm.
  - cbn [marshal] in Hm. destruct (f32_is_nan b); leaf1 Hm.
  - cbn [marshal] in Hm. destruct (f64_is_nan b); leaf1 Hm.
  - cbn [marshal] in Hm. leaf1 Hm.
  - cbn [marshal] in Hm. leaf1 Hm.
  - rewrite marshal_list in Hm. apply bind_ok in Hm. destruct Hm as (ts0 & Hm & Hts). injection Hts as <-.
    apply bind_ok in Hm. destruct Hm as (body & Hm & Hts). injection Hts as <-.
    apply val1_prefix, val1_comp; try reflexivity. eapply melems_bal; eassumption.
  - rewrite marshal_map in Hm. apply bind_ok in Hm. destruct Hm as (ts0 & Hm & Hts). injection Hts as <-.
    destruct (kv_ty t) as [kt vt].
    apply bind_ok in Hm. destruct Hm as (es' & Hm & Hts). injection Hts as <-.
    apply val1_prefix, val1_comp; try reflexivity.
    apply entries_flat_bal, sort_entries_bal. eapply mentries_bal; eassumption.
  - rewrite marshal_struct in Hm. apply bind_ok in Hm. destruct Hm as (ts0 & Hm & Hts). injection Hts as <-.
    apply bind_ok in Hm. destruct Hm as (body & Hm & Hts). injection Hts as <-.
    apply val1_prefix, val1_comp; try reflexivity. eapply mfields_bal; eassumption.
  - cbn [marshal] in Hm. leaf1 Hm.
  - rewrite marshal_ptr in Hm. apply bind_ok in Hm. destruct Hm as (ts0 & Hm & Hts). injection Hts as <-.
    apply val1_prefix, (IH _ _ _ Hm).
  - cbn [marshal] in Hm. leaf1 Hm.
  - cbn [marshal] in Hm. apply bind_ok in Hm. destruct Hm as (ts0 & Hm & Hts). injection Hts as <-.
    apply val1_prefix, (IH _ _ _ Hm).
  - cbn [marshal] in Hm. destruct (ignore_funcs o); [leaf1 Hm|].
    cbn [bind] in Hm. injection Hm as <-. apply val1_prefix.
    apply (val1_comp KTuple KTupleEnd []); try reflexivity. apply bal_nil.
  - rewrite marshal_func in Hm. apply bind_ok in Hm. destruct Hm as (ts0 & Hm & Hts). injection Hts as <-.
    destruct (ignore_funcs o); [injection Hm as <-; apply val1_prefix, val1_leaf; reflexivity|].
    apply bind_ok in Hm. destruct Hm as (body & Hm & Hts). injection Hts as <-.
    apply val1_prefix, val1_comp; try reflexivity. eapply mouts_bal; eassumption.
  - cbn [marshal] in Hm. leaf1 Hm.
Qed.

(* skipValue consumes exactly the stream of any marshalled value *)
Corollary marshal_skip o t v ts rest : marshal o t v = Ok ts -> skip_value 0 (ts ++ rest) = Ok rest.
Proof. intros H. apply (marshal_val1 v o t ts H). Qed.

(* ---- one iteration of struct_loop on a field name ---- *)
Section FieldSteps.
Variable o : copts.
Variable rec : rec_t.
Hypothesis Hname : forall s cur rest', rec TString cur (T KString (VStr s) :: rest') = Ok (GStr s, rest').

Lemma struct_loop_known g fs depr vals name i ft rest :
  find_field name fs 0 = Some (i, ft) ->
  struct_loop o rec (S g) fs depr vals (T KString (VStr name) :: rest) =
  bind (rec ft (nth i vals (zero ft)) rest) (fun r => struct_loop o rec g fs depr (set_nth i (fst r) vals) (snd r)).
Proof.
  intros Hf. cbn [struct_loop kind]. change (KString =? KObjectEnd) with false. cbn beta iota.
  rewrite Hname. cbn [bind fst snd]. rewrite Hf. reflexivity.
Qed.

(* non-strict mode: a field the reader does not have is skipped (skipValue: one balanced value) *)
Lemma struct_loop_unknown_skipped g fs depr vals name a rest :
  strict o = false -> find_field name fs 0 = None ->
  skip_value 0 (a ++ rest) = Ok rest ->
  struct_loop o rec (S g) fs depr vals (T KString (VStr name) :: a ++ rest) = struct_loop o rec g fs depr vals rest.
Proof.
  intros Hs Hf Hsk. cbn [struct_loop kind]. change (KString =? KObjectEnd) with false. cbn beta iota.
  rewrite Hname. cbn [bind fst snd]. rewrite Hf, Hs. cbn [andb]. rewrite Hsk. reflexivity.
Qed.

(* strict mode *)
Lemma struct_loop_strict_unknown g fs depr vals name rest :
  strict o = true -> find_field name fs 0 = None -> existsb (bytes_eqb name) depr = false ->
  struct_loop o rec (S g) fs depr vals (T KString (VStr name) :: rest) = Err EUnknownField.
Proof.
  intros Hs Hf Hd. cbn [struct_loop kind]. change (KString =? KObjectEnd) with false. cbn beta iota.
  rewrite Hname. cbn [bind fst snd]. rewrite Hf, Hs, Hd. reflexivity.
Qed.

Lemma struct_loop_strict_deprecated g fs depr vals name a rest :
  find_field name fs 0 = None -> existsb (bytes_eqb name) depr = true ->
  skip_value 0 (a ++ rest) = Ok rest ->
  struct_loop o rec (S g) fs depr vals (T KString (VStr name) :: a ++ rest) = struct_loop o rec g fs depr vals rest.
Proof.
  intros Hf Hd Hsk. cbn [struct_loop kind]. change (KString =? KObjectEnd) with false. cbn beta iota.
  rewrite Hname. cbn [bind fst snd]. rewrite Hf, Hd. cbn [negb]. rewrite andb_false_r.
  rewrite Hsk. reflexivity.
Qed.

(* ---- the whole object written from a writer struct ---- *)
Variable rfs : list (bytes * bool * ty).
Variable depr : list bytes.
Hypothesis Hnonstrict : strict o = false.

Lemma struct_loop_byname : forall wvals, Forall (elem_ok rec) wvals ->
  forall wfs vals body,
  fields_typed wvals wfs = true -> names_nodup wfs = true ->
  forallb (fun f => wf_bytesb (fname f) && wf_ty (snd f)) wfs = true ->
  mfields default_opts wvals wfs = Ok body ->
  (forall wf wv i ft, In (wf, wv) (combine wfs wvals) -> fexported wf = true ->
     find_field (fname wf) rfs 0 = Some (i, ft) ->
     ft = snd wf /\ nth i vals (zero ft) = zero ft /\
     simple_ty ft = true /\ no_ptr_to_nil wv = true) ->
  forall g rest, (length body < g)%nat ->
  struct_loop o rec g rfs depr vals (body ++ T KObjectEnd VNone :: rest)
  = Ok (apply_fields rfs (combine wfs wvals) vals, rest).
Proof.
  induction 1 as [|x l Hx _ IH]; intros wfs vals body Hty Hnd Hwf Hm Hcom g rest Hg.
  - destruct wfs as [|fd wfs]; [|discriminate Hty]. injection Hm as <-.
    destruct g as [|g]; [clear - Hg; cbn in Hg; lia|]. reflexivity.
  - destruct wfs as [|fd wfs]; [discriminate Hty|].
    change (fields_typed (x :: l) (fd :: wfs)) with (has_type (snd fd) x && fields_typed l wfs) in Hty.
    apply andb_true_iff in Hty. destruct Hty as [Htx Htl].
    cbn [forallb] in Hwf.
    apply andb_true_iff in Hwf. destruct Hwf as [Hwx Hwl]. apply andb_true_iff in Hwx. destruct Hwx as [_ Hwx].
    rewrite names_nodup_cons in Hnd. apply andb_true_iff in Hnd. destruct Hnd as [Hfr Hnd]. apply negb_true_iff in Hfr.
    apply mfields_cons_inv in Hm.
    cbn [combine]. change (apply_fields rfs ((fd, x) :: combine wfs l) vals)
      with (apply_fields rfs (combine wfs l) (wstep rfs vals (fd, x))).
    unfold wstep. cbn [fst snd].
    destruct (fexported fd) eqn:Hex.
    + destruct Hm as (a & b & Ha & Hb & ->).
      destruct g as [|g]; [clear - Hg; cbn [length] in Hg; lia|]. cbn [app].
      assert (Hg' : (length b < g)%nat) by (clear - Hg; cbn [length] in Hg; rewrite app_length in Hg; lia).
      destruct (find_field (fname fd) rfs 0) as [[i ft]|] eqn:Hff.
      * destruct (Hcom fd x i ft (or_introl eq_refl) Hex Hff) as (-> & Hz & Hsx & Hnx).
        rewrite (struct_loop_known _ _ _ _ _ _ _ _ Hff). rewrite Hz, <- app_assoc.
        rewrite (Hx (snd fd) a _ Hwx Hsx Htx Hnx Ha). cbn [bind fst snd].
        apply IH; try assumption.
        intros wf wv i' ft' Hin Hex' Hff'.
        destruct (Hcom wf wv i' ft' (or_intror Hin) Hex' Hff') as (-> & Hz' & Hrest). split; [reflexivity|].
        split; [|exact Hrest].
        rewrite nth_set_nth_other; [exact Hz'|]. intros ->.
        pose proof (find_field_inj _ _ _ _ _ _ _ Hff Hff') as Hn.
        apply in_combine_l in Hin. pose proof (existsb_false _ _ Hfr wf Hin) as Hne. cbn beta in Hne.
        rewrite Hn, bytes_eqb_refl in Hne. discriminate Hne.
      * rewrite <- app_assoc.
        rewrite (struct_loop_unknown_skipped _ _ _ _ _ _ _ Hnonstrict Hff (marshal_skip _ _ _ _ _ Ha)).
        apply IH; try assumption.
        intros wf wv i' ft' Hin. apply (Hcom wf wv i' ft'). right. exact Hin.
    + apply IH; try assumption.
      intros wf wv i' ft' Hin. apply (Hcom wf wv i' ft'). right. exact Hin.
Qed.

End FieldSteps.

(* ---- top-level statements ---- *)
Lemma fields_typed_combine : forall l fs, fields_typed l fs = true -> map fst (combine fs l) = fs.
Proof.
  induction l as [|x l IH]; intros [|fd fs] H; try reflexivity; try discriminate H.
  change (fields_typed (x :: l) (fd :: fs)) with (has_type (snd fd) x && fields_typed l fs) in H.
  apply andb_true_iff in H. destruct H as [_ H]. cbn [combine map fst]. f_equal. apply IH, H.
Qed.

Lemma ptr_base_struct t fs : underlying t = TStruct fs -> ptr_base t = TStruct fs.
Proof. induction t; cbn [underlying ptr_base]; try discriminate; try (intros H; exact H). exact IHt. Qed.

Lemma unm_typename_struct pf f o R t fs cur n rest :
  underlying t = TStruct fs ->
  unm pf (S f) o R t cur (T KTypeName (VStr n) :: rest) = unm pf f o R t cur rest.
Proof.
  intros Hut. rewrite unm_S. generalize (unm pf f o R). intros rec.
  unfold ustep, conv_tok. cbn [kind val]. rewrite (ptr_base_struct t fs Hut). reflexivity.
Qed.

(* item 6.  Reading an object written from struct W into struct Rt (non-strict mode): fields are
   matched by name in any order, reader-only fields keep their content, writer-only fields are
   skipped whatever their type (maps, interfaces, funcs included).
   Correction w.r.t. the statement asked for (see [by_name_refuted]): the reader's CURRENT content
   of a common field must be that field's zero value, because unmarshalling MERGES into a non-zero
   target (slices are appended to, Nil leaves a non-nil pointer in place, ...).  The round-trip
   side conditions (simple type, no pointer to nil) are required of the common fields only. *)
Theorem by_name_fuel pf o R W Rt wfs rfs wvals rvals ts rest f :
  strict o = false ->
  underlying W = TStruct wfs -> underlying Rt = TStruct rfs ->
  wf_ty W = true -> wf_ty Rt = true ->
  has_type W (GStruct wvals) = true ->
  length rvals = length rfs ->
  marshal default_opts W (GStruct wvals) = Ok ts ->
  (forall wf wv i ft, In (wf, wv) (combine wfs wvals) -> fexported wf = true ->
     find_field (fname wf) rfs 0 = Some (i, ft) ->
     ft = snd wf /\ nth i rvals (zero ft) = zero ft /\
     simple_ty ft = true /\ no_ptr_to_nil wv = true) ->
  (2 * vsize (GStruct wvals) < f)%nat ->
  unm pf f o R Rt (GStruct rvals) (ts ++ rest) = Ok (GStruct (assign_by_name wfs rfs wvals rvals), rest).
Proof.
  intros Hns HW HR Hwf HwfR Hty Hlen Hm Hcom Hf.
  pose proof (wf_underlying _ Hwf) as Hwu. pose proof (wf_underlying _ HwfR) as HwR.
  rewrite HW in Hwu. rewrite HR in HwR.
  rewrite wf_ty_struct in Hwu, HwR. apply andb_true_iff in Hwu, HwR.
  destruct Hwu as [Hwfs Hnd]. destruct HwR as [_ HndR].
  rewrite has_type_struct, HW in Hty.
  rewrite marshal_struct in Hm. unfold fields_of in Hm. rewrite HW in Hm.
  apply bind_ok in Hm. destruct Hm as (ts0 & Hm & Hts). injection Hts as <-.
  apply bind_ok in Hm. destruct Hm as (body & Hm & Hts). injection Hts as <-.
  rewrite vsize_struct in Hf.
  destruct f as [|[|f']]; [clear - Hf; lia|clear - Hf; lia|].
  assert (Hstep : unm pf (S f') o R Rt (GStruct rvals) (T KObject VNone :: body ++ T KObjectEnd VNone :: rest)
                  = Ok (GStruct (assign_by_name wfs rfs wvals rvals), rest)).
  { rewrite (unm_struct_step pf o R _ _ _ _ _ HR).
    assert (Hnm : forall s cur rest', unm pf f' o R TString cur (T KString (VStr s) :: rest') = Ok (GStr s, rest')).
    { destruct f' as [|f'']; [clear - Hf; lia|]. intros. apply unm_name. }
    assert (Hel : Forall (elem_ok (unm pf f' o R)) wvals).
    { apply rt_elem_ok; [|clear - Hf; lia]. clear. induction wvals; constructor; [apply roundtrip_all|assumption]. }
    rewrite (struct_loop_byname o (unm pf f' o R) Hnm rfs (depr_of Rt) Hns wvals Hel wfs rvals body
               Hty Hnd Hwfs Hm Hcom).
    - cbn [bind fst snd]. rewrite assign_by_name_l. rewrite apply_assign; [reflexivity|exact HndR| |exact Hlen].
      rewrite (fields_typed_combine _ _ Hty). exact Hnd.
    - rewrite app_length. cbn [length]. clear. lia. }
  rewrite <- !app_assoc. cbn [app]. rewrite <- !app_assoc. cbn [app].
  destruct (reg_prefix_cases W) as [E|[n E]]; rewrite E; cbn [app].
  - apply (unm_fuel_mono pf o R (S f') _ _ _ _ Hstep); [discriminate|]. apply Nat.le_succ_diag_r.
  - rewrite (unm_typename_struct pf _ o R Rt rfs _ n _ HR). exact Hstep.
Qed.

Theorem by_name_partial pf o R W Rt wfs rfs wvals rvals ts rest :
  strict o = false ->
  underlying W = TStruct wfs -> underlying Rt = TStruct rfs ->
  wf_ty W = true -> wf_ty Rt = true ->
  has_type W (GStruct wvals) = true ->
  length rvals = length rfs ->
  marshal default_opts W (GStruct wvals) = Ok ts ->
  (forall wf wv i ft, In (wf, wv) (combine wfs wvals) -> fexported wf = true ->
     find_field (fname wf) rfs 0 = Some (i, ft) ->
     ft = snd wf /\ nth i rvals (zero ft) = zero ft /\
     simple_ty ft = true /\ no_ptr_to_nil wv = true) ->
  exists f, unm pf f o R Rt (GStruct rvals) (ts ++ rest)
            = Ok (GStruct (assign_by_name wfs rfs wvals rvals), rest).
Proof.
  intros. exists (S (2 * vsize (GStruct wvals))). eapply by_name_fuel; try eassumption. lia.
Qed.

(* strict mode: an unknown, non-deprecated field name is rejected ... *)
Theorem strict_unknown_rejected pf f o R t fs cur name rest :
  strict o = true -> underlying t = TStruct fs ->
  find_field name fs 0 = None -> existsb (bytes_eqb name) (depr_of t) = false ->
  unm pf (S (S f)) o R t cur (T KObject VNone :: T KString (VStr name) :: rest) = Err EUnknownField.
Proof.
  intros Hs Hut Hf Hd. rewrite (unm_struct_step pf o R _ _ _ _ _ Hut).
  rewrite struct_loop_strict_unknown; try assumption; [reflexivity|].
  intros. apply unm_name.
Qed.

(* ... at any position in the object (stated on the loop) ... *)
Theorem strict_unknown_rejected_loop pf f o R g fs depr vals name rest :
  strict o = true -> find_field name fs 0 = None -> existsb (bytes_eqb name) depr = false ->
  struct_loop o (unm pf (S f) o R) (S g) fs depr vals (T KString (VStr name) :: rest) = Err EUnknownField.
Proof. intros. apply struct_loop_strict_unknown; try assumption. intros. apply unm_name. Qed.

(* ... and a deprecated one is skipped (whatever the mode), here for the stream of any marshalled value *)
Theorem strict_deprecated_skipped pf f o R g fs depr vals name ot wt wv a rest :
  find_field name fs 0 = None -> existsb (bytes_eqb name) depr = true ->
  marshal ot wt wv = Ok a ->
  struct_loop o (unm pf (S f) o R) (S g) fs depr vals (T KString (VStr name) :: a ++ rest)
  = struct_loop o (unm pf (S f) o R) g fs depr vals rest.
Proof.
  intros Hf Hd Ha. eapply struct_loop_strict_deprecated; try eassumption; [intros; apply unm_name|].
  eapply marshal_skip, Ha.
Qed.

Theorem unknown_field_skipped pf f o R g fs depr vals name ot wt wv a rest :
  strict o = false -> find_field name fs 0 = None ->
  marshal ot wt wv = Ok a ->
  struct_loop o (unm pf (S f) o R) (S g) fs depr vals (T KString (VStr name) :: a ++ rest)
  = struct_loop o (unm pf (S f) o R) g fs depr vals rest.
Proof.
  intros Hs Hf Ha. eapply struct_loop_unknown_skipped; try eassumption; [intros; apply unm_name|].
  eapply marshal_skip, Ha.
Qed.

(* ---- examples ---- *)
(* writer: A int8, B []bool, C string and M map[string]any (both unknown to the reader), d (unexported),
   E *bool; registered *)
Definition ExWfs : list (bytes * bool * ty) :=
  [([65], true, TInt W8); ([66], true, TSlice TBool); ([67], true, TString); ([100], false, TBool); ([69], true, TPtr TBool);
   ([77], true, TMap TString TAny)].
Definition ExW : ty := TNamed [87] true [] (TStruct ExWfs).
Definition ex_wvals : list gval :=
  [GInt 5; GList false [GBool true]; GStr [1; 2]; GBool true; GPtr None;
   GMap false [(GStr [1], GAny (Some (TSlice TBool, GList false [GBool true])))]].
(* reader: E, Z (absent from the writer), B, A, c (unexported), in another order *)
Definition ExRfs : list (bytes * bool * ty) :=
  [([69], true, TPtr TBool); ([90], true, TInt W16); ([66], true, TSlice TBool); ([65], true, TInt W8); ([67], false, TString)].
Definition ExR : ty := TStruct ExRfs.
Definition ex_rvals : list gval := [GPtr None; GInt 77; GList true []; GInt 0; GStr [9]].
Definition ex_rvals_dirty : list gval := [GPtr (Some (GBool false)); GInt 77; GList false [GBool false]; GInt 3; GStr [9]].

Example by_name_ex_assign :
  assign_by_name ExWfs ExRfs ex_wvals ex_rvals = [GPtr None; GInt 77; GList false [GBool true]; GInt 5; GStr [9]].
Proof. vm_compute. reflexivity. Qed.

Example by_name_ex pf o R ts rest :
  strict o = false -> marshal default_opts ExW (GStruct ex_wvals) = Ok ts ->
  exists f, unm pf f o R ExR (GStruct ex_rvals) (ts ++ rest)
            = Ok (GStruct [GPtr None; GInt 77; GList false [GBool true]; GInt 5; GStr [9]], rest).
Proof.
  intros Hs Hm. rewrite <- by_name_ex_assign.
  apply (by_name_partial pf o R ExW ExR ExWfs ExRfs); try assumption; try (vm_compute; reflexivity).
  intros wf wv i ft Hin Hex Hff. cbn in Hin.
  repeat (destruct Hin as [Hin|Hin]; [injection Hin as <- <-; vm_compute in Hff; try discriminate Hff;
          injection Hff as <- <-; repeat split; reflexivity|]). contradiction.
Qed.

(* the unrestricted statement (arbitrary current content in the reader's common fields) is false *)
Definition ex_ts : list token :=
  Eval vm_compute in match marshal default_opts ExW (GStruct ex_wvals) with Ok ts => ts | _ => [] end.

Theorem by_name_refuted :
  exists pf o R W Rt wfs rfs wvals rvals ts,
    strict o = false /\ underlying W = TStruct wfs /\ underlying Rt = TStruct rfs /\
    wf_ty W = true /\ wf_ty Rt = true /\ simple_ty Rt = true /\
    has_type W (GStruct wvals) = true /\ has_type Rt (GStruct rvals) = true /\
    no_ptr_to_nil (GStruct wvals) = true /\ no_ptr_to_nil (GStruct rvals) = true /\
    (forall wf wv i ft, In (wf, wv) (combine wfs wvals) -> fexported wf = true ->
       find_field (fname wf) rfs 0 = Some (i, ft) ->
       ft = snd wf /\ simple_ty ft = true /\ no_ptr_to_nil wv = true) /\
    marshal default_opts W (GStruct wvals) = Ok ts /\
    forall f, unm pf f o R Rt (GStruct rvals) (ts ++ []) <> Ok (GStruct (assign_by_name wfs rfs wvals rvals), []).
Proof.
  exists (fun _ _ => None), default_opts, [], ExW, ExR, ExWfs, ExRfs, ex_wvals, ex_rvals_dirty, ex_ts.
  split; [reflexivity|]. split; [reflexivity|]. split; [reflexivity|].
  do 7 (split; [vm_compute; reflexivity|]).
  split.
  { intros wf wv i ft Hin Hex Hff. cbn in Hin.
    repeat (destruct Hin as [Hin|Hin]; [injection Hin as <- <-; vm_compute in Hff; try discriminate Hff;
            injection Hff as <- <-; repeat split; reflexivity|]). contradiction. }
  split; [vm_compute; reflexivity|].
  eapply (unm_not_from _ _ _ _ _ _ 20%nat); [vm_compute; reflexivity|discriminate| |discriminate].
  vm_compute. discriminate.
Qed.

(* strict mode on the same stream: C and M are unknown to the reader; declaring them deprecated
   (SBDeprecatedFields) makes the strict reader skip them *)
Example strict_ex :
  forall ts, marshal default_opts ExW (GStruct ex_wvals) = Ok ts ->
  unm (fun _ _ => None) 20 (Opts false true false) [] ExR (GStruct ex_rvals) ts = Err EUnknownField /\
  unm (fun _ _ => None) 20 (Opts false true false) [] (TNamed [82] false [[67]; [77]] ExR) (GStruct ex_rvals) ts
  = Ok (GStruct [GPtr None; GInt 77; GList false [GBool true]; GInt 5; GStr [9]], []).
Proof. intros ts H. vm_compute in H. injection H as <-. split; vm_compute; reflexivity. Qed.

(* all the main theorems at once (one traversal of the large [unm] term instead of two dozen) *)
Definition UnmarshalP_main_theorems :=
  (unm_S, unm_fuel_mono, unm_total_bound, unm_total, unm_total_additive_refuted, unm_suffix, unm_consumes,
   roundtrip_all, roundtrip_simple_fuel, roundtrip_simple, roundtrip_simple_exact,
   roundtrip_regptr_nil, roundtrip_regptr_nonnil, roundtrip_regtime, roundtrip_ex_thm,
   marshal_val1, marshal_skip, apply_assign, by_name_fuel, by_name_partial, by_name_refuted, by_name_ex,
   strict_unknown_rejected, strict_unknown_rejected_loop, strict_deprecated_skipped, unknown_field_skipped,
   scalar_by_set_scalar, scalar_mismatch, scalar_match,
   nil_leaves_untouched, end_token_rejected, end_token_time, empty_is_eof, empty_time_mismatch).
Print Assumptions UnmarshalP_main_theorems.
