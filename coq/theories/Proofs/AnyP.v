(* Proofs/AnyP.v — C11 "schema-less decoding is lossless": unmarshalling a canonical stream
   into an untyped (any) target and marshalling the result again yields the identical token
   stream; streams at the edges of the domain are rejected, never mis-decoded. *)
From Coq Require Import List NArith ZArith Bool Lia ZifyBool ZifyNat ZifyN Arith.
From SbModel Require Import Spec.LexOrder Spec.Conform.
From SbModel Require Import Proofs.CompareP Proofs.UnmarshalP Proofs.MarshalP.
Import ListNotations.
Local Open Scope N_scope.

(* ====================================================================================== *)
(* Part 1.  The canonical domain on abstract values                                        *)
(* ====================================================================================== *)

(* the kinds of the scalar-like leaves an `any` target accepts *)
Definition any_kinds : list N :=
  [KNil; KNaN; KBool; KInt; KInt8; KInt16; KInt32; KInt64; KUint; KUint8; KUint16; KUint32; KUint64;
   KPointer; KFloat32; KFloat64; KString; KBytes].
Definition any_kind (k : N) : bool := existsb (N.eqb k) any_kinds.

(* a leaf of the domain: one of those kinds, well formed, no NaN payload *)
Definition leaf_ok (t : token) : bool := any_kind (kind t) && wf_cmp t.

Definition is_nil_leaf (v : value) : bool := match v with Leaf t => kind t =? KNil | _ => false end.

(* a map key of the domain: a leaf that is neither Nil nor NaN *)
Definition key_ok (t : token) : bool := leaf_ok t && negb (kind t =? KNil) && negb (kind t =? KNaN).

(* strictly above the previous key, as one-token streams *)
Definition lt_prev (prev : option token) (k : token) : bool :=
  match prev with
  | None => true
  | Some p => match lex [p] [k] with Lt => true | _ => false end
  end.

(* object items: name, value, name, value, ...; names exported identifiers, pairwise distinct
   ([seen] = the names before this point); no field value is a Nil leaf *)
Definition obj_ok (ok : value -> bool) : list bytes -> list value -> bool :=
  fix obj (seen : list bytes) (l : list value) {struct l} : bool :=
    match l with
    | [] => true
    | Leaf (T k (VStr n)) :: v :: r =>
        (k =? KString) && is_exported_ident n && negb (existsb (fun s => bytes_eqb s n) seen) &&
        ok v && negb (is_nil_leaf v) && obj (seen ++ [n]) r
    | _ => false
    end.

(* map items: key, value, key, value, ...; keys are key leaves, strictly ascending *)
Definition map_ok (ok : value -> bool) : option token -> list value -> bool :=
  fix mp (prev : option token) (l : list value) {struct l} : bool :=
    match l with
    | [] => true
    | Leaf k :: v :: r => key_ok k && lt_prev prev k && ok v && mp (Some k) r
    | _ => false
    end.

Fixpoint any_okb (v : value) : bool :=
  match v with
  | Leaf t => leaf_ok t
  | Comp ko kc items =>
      if (ko =? KArray) && (kc =? KArrayEnd) then forallb any_okb items
      else if (ko =? KTuple) && (kc =? KTupleEnd) then forallb any_okb items && Nat.leb (length items) 50
      else if (ko =? KObject) && (kc =? KObjectEnd) then obj_ok any_okb [] items
      else if (ko =? KMap) && (kc =? KMapEnd) then map_ok any_okb None items
      else false
  | Named _ _ => false              (* TypeName prefixes are outside this first version of the domain *)
  end.

(* the registry plays no role as long as Named values are excluded; it is kept as a parameter
   so that the statement does not change when they are added *)
Definition any_ok (R : registry) (v : value) : Prop := any_okb v = true.

Lemma any_okb_comp ko kc items :
  any_okb (Comp ko kc items) =
  if (ko =? KArray) && (kc =? KArrayEnd) then forallb any_okb items
  else if (ko =? KTuple) && (kc =? KTupleEnd) then forallb any_okb items && Nat.leb (length items) 50
  else if (ko =? KObject) && (kc =? KObjectEnd) then obj_ok any_okb [] items
  else if (ko =? KMap) && (kc =? KMapEnd) then map_ok any_okb None items
  else false.
Proof. reflexivity. Qed.

Lemma obj_ok_cons ok seen k n v r :
  obj_ok ok seen (Leaf (T k (VStr n)) :: v :: r) =
  (k =? KString) && is_exported_ident n && negb (existsb (fun s => bytes_eqb s n) seen) &&
  ok v && negb (is_nil_leaf v) && obj_ok ok (seen ++ [n]) r.
Proof. reflexivity. Qed.

Lemma map_ok_cons ok prev k v r :
  map_ok ok prev (Leaf k :: v :: r) = key_ok k && lt_prev prev k && ok v && map_ok ok (Some k) r.
Proof. reflexivity. Qed.

Lemma obj_ok_one ok seen a : obj_ok ok seen [a] = false.
Proof. destruct a as [[k [ | | | | | | |s|]]| |]; reflexivity. Qed.

Lemma map_ok_one ok prev a : map_ok ok prev [a] = false.
Proof. destruct a; reflexivity. Qed.

Lemma obj_ok_inv ok seen a b r : obj_ok ok seen (a :: b :: r) = true ->
  exists n, a = Leaf (T KString (VStr n)) /\ is_exported_ident n = true /\
            existsb (fun s => bytes_eqb s n) seen = false /\
            ok b = true /\ is_nil_leaf b = false /\ obj_ok ok (seen ++ [n]) r = true.
Proof.
  destruct a as [[k [ | | | | | | |n|]]| |]; try (intros H; discriminate H).
  rewrite obj_ok_cons. intros H.
  apply andb_true_iff in H. destruct H as [H Hr].
  apply andb_true_iff in H. destruct H as [H Hnil].
  apply andb_true_iff in H. destruct H as [H Hb].
  apply andb_true_iff in H. destruct H as [H Hseen].
  apply andb_true_iff in H. destruct H as [Hk Hid].
  apply N.eqb_eq in Hk. subst k. apply negb_true_iff in Hnil, Hseen.
  exists n. repeat split; assumption.
Qed.

Lemma map_ok_inv ok prev a b r : map_ok ok prev (a :: b :: r) = true ->
  exists k, a = Leaf k /\ key_ok k = true /\ lt_prev prev k = true /\ ok b = true /\
            map_ok ok (Some k) r = true.
Proof.
  destruct a as [k| |]; try (intros H; discriminate H).
  rewrite map_ok_cons. intros H.
  apply andb_true_iff in H. destruct H as [H Hr].
  apply andb_true_iff in H. destruct H as [H Hb].
  apply andb_true_iff in H. destruct H as [Hk Hlt].
  exists k. repeat split; assumption.
Qed.

(* induction two items at a time *)
Lemma list_ind2 {A} (P : list A -> Prop) :
  P [] -> (forall a, P [a]) -> (forall a b r, P r -> P (a :: b :: r)) -> forall l, P l.
Proof.
  intros H0 H1 H2. fix IH 1. intros [|a [|b r]]; [exact H0|apply H1|apply H2, IH].
Qed.

(* ====================================================================================== *)
(* Part 2.  The value the untyped target holds after decoding                               *)
(* ====================================================================================== *)

Definition leaf_gval (t : token) : gval :=
  if kind t =? KNil then GAny None
  else if kind t =? KNaN then GAny (Some (TF64, GF64 f64_nan_bits))
  else GAny (any_of_token t).

Fixpoint pairs {A} (l : list A) : list (A * A) :=
  match l with a :: b :: r => (a, b) :: pairs r | _ => [] end.

Definition gname (g : gval) : bytes := match g with GAny (Some (_, GStr s)) => s | _ => [] end.

(* toComparable: a []byte key becomes a byte array (the model's own [to_comparable]) *)
Definition to_cmp (k : gval) : gval := to_comparable k.

Definition dfields (l : list gval) : list (bytes * bool * ty) :=
  map (fun p => (gname (fst p), true, dyn_ty (snd p))) (pairs l).
Definition dvals (l : list gval) : list gval := map (fun p => dyn_val (snd p)) (pairs l).
Definition dentries (l : list gval) : list (gval * gval) := map (fun p => (to_cmp (fst p), snd p)) (pairs l).

Fixpoint dec (v : value) : gval :=
  match v with
  | Leaf t => leaf_gval t
  | Comp ko kc items =>
      let l := map dec items in
      if ko =? KArray then GAny (Some (TSlice TAny, GList (match l with [] => true | _ => false end) l))
      else if ko =? KObject then GAny (Some (TStruct (dfields l), GStruct (dvals l)))
      else if ko =? KMap then GAny (Some (TMap TAny TAny, GMap false (dentries l)))
      else GAny (Some (TFunc (map dyn_ty l), GFunc (Some (map dyn_val l))))
  | Named _ v => dec v
  end.

Lemma dec_array kc items :
  dec (Comp KArray kc items) =
  GAny (Some (TSlice TAny, GList (match map dec items with [] => true | _ => false end) (map dec items))).
Proof. reflexivity. Qed.
Lemma dec_object kc items :
  dec (Comp KObject kc items) = GAny (Some (TStruct (dfields (map dec items)), GStruct (dvals (map dec items)))).
Proof. reflexivity. Qed.
Lemma dec_map kc items :
  dec (Comp KMap kc items) = GAny (Some (TMap TAny TAny, GMap false (dentries (map dec items)))).
Proof. reflexivity. Qed.
Lemma dec_tuple kc items :
  dec (Comp KTuple kc items) =
  GAny (Some (TFunc (map dyn_ty (map dec items)), GFunc (Some (map dyn_val (map dec items))))).
Proof. reflexivity. Qed.

(* ====================================================================================== *)
(* Part 3.  Leaves                                                                          *)
(* ====================================================================================== *)

Inductive leaf_view : token -> Prop :=
| LV_nil : leaf_view (T KNil VNone)
| LV_nan : leaf_view (T KNaN VNone)
| LV_bool b : leaf_view (T KBool (VBool b))
| LV_int w z : leaf_view (T (kind_of_int w) (VI w z))
| LV_uint w n : leaf_view (T (kind_of_uint w) (VU w n))
| LV_ptr n : leaf_view (T KPointer (VPtr n))
| LV_f32 b : f32_is_nan b = false -> leaf_view (T KFloat32 (VF32 b))
| LV_f64 b : f64_is_nan b = false -> leaf_view (T KFloat64 (VF64 b))
| LV_str s : leaf_view (T KString (VStr s))
| LV_bytes s : leaf_view (T KBytes (VBytes s)).

Lemma any_kind_cases k : any_kind k = true -> In k any_kinds.
Proof.
  unfold any_kind. rewrite existsb_exists. intros (x & Hin & He).
  apply N.eqb_eq in He. subst x. exact Hin.
Qed.

Ltac split_kinds Hk :=
  unfold any_kinds in Hk; cbn [In] in Hk;
  repeat (destruct Hk as [<-|Hk]); [..|contradiction Hk].

Lemma leaf_ok_view t : leaf_ok t = true -> leaf_view t.
Proof.
  destruct t as [k v]. unfold leaf_ok, wf_cmp, wf_token. cbn [kind val]. intros H.
  apply andb_true_iff in H. destruct H as [Hk H]. apply andb_true_iff in H. destruct H as [H Hnan].
  apply andb_true_iff in H. destruct H as [Hs _].
  apply any_kind_cases in Hk.
  destruct v as [|b|w z|w n|n|b|b|s|s].
  - split_kinds Hk; try (vm_compute in Hs; discriminate Hs); constructor.
  - split_kinds Hk; try (vm_compute in Hs; discriminate Hs); constructor.
  - destruct w; split_kinds Hk; try (vm_compute in Hs; discriminate Hs);
      match goal with |- leaf_view (T _ (VI ?w ?z)) => exact (LV_int w z) end.
  - destruct w; split_kinds Hk; try (vm_compute in Hs; discriminate Hs);
      match goal with |- leaf_view (T _ (VU ?w ?n)) => exact (LV_uint w n) end.
  - split_kinds Hk; try (vm_compute in Hs; discriminate Hs); constructor.
  - cbn [not_nan_payload] in Hnan. apply negb_true_iff in Hnan.
    split_kinds Hk; try (vm_compute in Hs; discriminate Hs); constructor; exact Hnan.
  - cbn [not_nan_payload] in Hnan. apply negb_true_iff in Hnan.
    split_kinds Hk; try (vm_compute in Hs; discriminate Hs); constructor; exact Hnan.
  - split_kinds Hk; try (vm_compute in Hs; discriminate Hs); constructor.
  - split_kinds Hk; try (vm_compute in Hs; discriminate Hs); constructor.
Qed.

Lemma end_kind_false k : is_end_kind k = false ->
  (k =? KArrayEnd) = false /\ (k =? KObjectEnd) = false /\ (k =? KMapEnd) = false /\ (k =? KTupleEnd) = false.
Proof.
  unfold is_end_kind. intros H.
  apply orb_false_iff in H. destruct H as [H H4].
  apply orb_false_iff in H. destruct H as [H H3].
  apply orb_false_iff in H. destruct H as [H1 H2]. repeat split; assumption.
Qed.

Lemma any_kind_not_end k : any_kind k = true -> is_end_kind k = false.
Proof. intros Hk. apply any_kind_cases in Hk. split_kinds Hk; reflexivity. Qed.

Lemma leaf_ok_kind t : leaf_ok t = true -> any_kind (kind t) = true.
Proof. unfold leaf_ok. intros H. apply andb_true_iff in H. apply H. Qed.

Lemma leaf_ok_wf t : leaf_ok t = true -> wf_cmp t = true.
Proof. unfold leaf_ok. intros H. apply andb_true_iff in H. apply H. Qed.

Lemma key_ok_inv t : key_ok t = true -> leaf_ok t = true /\ kind t <> KNil /\ kind t <> KNaN.
Proof.
  unfold key_ok. intros H. apply andb_true_iff in H. destruct H as [H Hnan].
  apply andb_true_iff in H. destruct H as [H Hnil].
  apply negb_true_iff in Hnan, Hnil. apply N.eqb_neq in Hnan, Hnil. repeat split; assumption.
Qed.

(* ---- a leaf into an `any` target, and back ---- *)
Section LeafSteps.
Variable pf : bytes -> N -> option N.
Variable o : copts.
Variable R : registry.

Ltac step_rec f :=
  rewrite (unm_S pf f o R); generalize (unm pf f o R); intros rec;
  unfold ustep, conv_tok, ptr_or_dispatch, dispatch; cbn [kind val].

Lemma leaf_unm f t rest : leaf_ok t = true ->
  unm pf (S f) o R TAny (GAny None) (t :: rest) = Ok (leaf_gval t, rest).
Proof.
  intros H. destruct (leaf_ok_view t H) as [| |b|w z|w n|n|b Hb|b Hb|s|s]; step_rec f;
    try reflexivity; destruct w; reflexivity.
Qed.

Lemma unm_any_array f cur rest :
  unm pf (S f) o R TAny cur (T KArray VNone :: rest) =
  bind (slice_loop (unm pf f o R) (S (length rest)) TAny [] rest) (fun r =>
    Ok (GAny (Some (TSlice TAny, GList (match fst r with [] => true | _ => false end) (fst r))), snd r)).
Proof. step_rec f. reflexivity. Qed.

Lemma unm_any_object f cur rest :
  unm pf (S f) o R TAny cur (T KObject VNone :: rest) =
  newstruct_loop (unm pf f o R) (S (length rest)) [] [] rest.
Proof. step_rec f. reflexivity. Qed.

Lemma unm_any_map f cur rest :
  unm pf (S f) o R TAny cur (T KMap VNone :: rest) = genmap_loop (unm pf f o R) (S (length rest)) [] rest.
Proof. step_rec f. reflexivity. Qed.

Lemma unm_any_tuple f cur rest :
  unm pf (S f) o R TAny cur (T KTuple VNone :: rest) =
  bind (tuple_loop (unm pf f o R) (S (length rest)) [] [] [] rest) (fun r =>
    let '(_, vals, tys, rest') := r in
    if Nat.ltb 50 (length vals) then Err ETooMany
    else Ok (GAny (Some (TFunc tys, GFunc (Some vals))), rest')).
Proof. step_rec f. reflexivity. Qed.

(* ---- tokens no untyped target accepts ---- *)
Theorem any_rejects_literal f cur s rest :
  unm pf (S f) o R TAny cur (T KLiteral (VStr s) :: rest) = Err EBadTarget.
Proof. step_rec f. reflexivity. Qed.

Theorem any_rejects_min f cur rest : unm pf (S f) o R TAny cur (T KMin VNone :: rest) = Err EBadKind.
Proof. step_rec f. reflexivity. Qed.

Theorem any_rejects_max f cur rest : unm pf (S f) o R TAny cur (T KMax VNone :: rest) = Err EBadKind.
Proof. step_rec f. reflexivity. Qed.

Theorem any_rejects_ref f cur v rest : unm pf (S f) o R TAny cur (T KRef v :: rest) = Err EBadKind.
Proof. step_rec f. destruct v; reflexivity. Qed.

(* a TypeName prefix whose name is not registered is dropped: the rest is decoded as if the
   prefix were absent (so such streams do not round trip) *)
Theorem any_unregistered_name_dropped f cur n ts : reg_lookup R n = None ->
  unm pf (S f) o R TAny cur (T KTypeName (VStr n) :: ts) = unm pf f o R TAny cur ts.
Proof.
  intros Hn. rewrite (unm_S pf f o R). generalize (unm pf f o R). intros rec.
  change (ustep pf o R rec TAny cur (T KTypeName (VStr n) :: ts))
    with (typename_case R rec TAny TAny cur (T KTypeName (VStr n)) ts).
  unfold typename_case. cbn [val]. rewrite Hn. reflexivity.
Qed.

End LeafSteps.

Lemma leaf_marshal t : leaf_ok t = true -> marshal default_opts TAny (leaf_gval t) = Ok [t].
Proof.
  intros H. destruct (leaf_ok_view t H) as [| |b|w z|w n|n|b Hb|b Hb|s|s]; try reflexivity.
  - destruct w; reflexivity.
  - destruct w; reflexivity.
  - change (leaf_gval (T KFloat32 (VF32 b))) with (GAny (Some (TF32, GF32 b))).
    rewrite marshal_any. apply marshal_f32_num, Hb.
  - change (leaf_gval (T KFloat64 (VF64 b))) with (GAny (Some (TF64, GF64 b))).
    rewrite marshal_any. apply marshal_f64_num, Hb.
Qed.

(* the dynamic type / value split of a decoded value marshals like the value itself *)
Lemma marshal_dyn o g : marshal o (dyn_ty g) (dyn_val g) = marshal o TAny g.
Proof.
  destruct g as [ | | | | | | | | | | |[[t x]|]| |]; try reflexivity.
  cbn [dyn_ty dyn_val]. symmetry. apply marshal_any.
Qed.

(* ---- map keys ---- *)
Definition key_gval (k : token) : gval := to_cmp (leaf_gval k).

Lemma key_gval_form k : key_ok k = true ->
  exists kt kv, key_gval k = GAny (Some (kt, kv)) /\ comparable_ty kt = true /\
                match kv with GF64 b => f64_is_nan b | GF32 b => f32_is_nan b | _ => false end = false.
Proof.
  intros H. apply key_ok_inv in H. destruct H as (H & Hnil & Hnan).
  destruct (leaf_ok_view k H) as [| |b|w z|w n|n|b Hb|b Hb|s|s];
    try (exfalso; apply Hnil; reflexivity); try (exfalso; apply Hnan; reflexivity).
  - exists TBool, (GBool b). repeat split.
  - exists (TInt w), (GInt z). destruct w; repeat split.
  - exists (TUint w), (GUint n). destruct w; repeat split.
  - exists TUintptr, (GUint n). repeat split.
  - exists TF32, (GF32 b). repeat split. exact Hb.
  - exists TF64, (GF64 b). repeat split. exact Hb.
  - exists TString, (GStr s). repeat split.
  - exists (TByteArray (length s)), (GBytes false s). repeat split.
Qed.

Lemma key_marshal o k : key_ok k = true -> marshal o TAny (key_gval k) = Ok [k].
Proof.
  intros H. apply key_ok_inv in H. destruct H as (H & Hnil & Hnan).
  destruct (leaf_ok_view k H) as [| |b|w z|w n|n|b Hb|b Hb|s|s];
    try (exfalso; apply Hnil; reflexivity); try (exfalso; apply Hnan; reflexivity); try reflexivity.
  - destruct w; reflexivity.
  - destruct w; reflexivity.
  - change (key_gval (T KFloat32 (VF32 b))) with (GAny (Some (TF32, GF32 b))).
    rewrite marshal_any. apply marshal_f32_num, Hb.
  - change (key_gval (T KFloat64 (VF64 b))) with (GAny (Some (TF64, GF64 b))).
    rewrite marshal_any. apply marshal_f64_num, Hb.
Qed.

Lemma width_eqb_true w w' : width_eqb w w' = true -> w = w'.
Proof. destruct w, w'; intros H; try discriminate H; reflexivity. Qed.

Lemma lex_one q k : lex [q] [k] = tok_ord q k.
Proof. cbn [lex]. destruct (tok_ord q k); reflexivity. Qed.

Lemma key_gval_int w z : key_gval (T (kind_of_int w) (VI w z)) = GAny (Some (TInt w, GInt z)).
Proof. destruct w; reflexivity. Qed.
Lemma key_gval_uint w n : key_gval (T (kind_of_uint w) (VU w n)) = GAny (Some (TUint w, GUint n)).
Proof. destruct w; reflexivity. Qed.

(* two keys in strict order are different Go map keys *)
Lemma key_fresh q k : key_ok q = true -> key_ok k = true -> lex [q] [k] = Lt ->
  gkey_eqb (key_gval q) (key_gval k) = false.
Proof.
  intros Hq Hk Hlt. rewrite lex_one in Hlt. unfold tok_ord in Hlt.
  apply key_ok_inv in Hq. destruct Hq as (Hq & Hqnil & Hqnan).
  apply key_ok_inv in Hk. destruct Hk as (Hk & Hknil & Hknan).
  destruct (leaf_ok_view q Hq) as [| |b|w z|w n|n|b Hb|b Hb|s|s];
    try (exfalso; apply Hqnil; reflexivity); try (exfalso; apply Hqnan; reflexivity);
  destruct (leaf_ok_view k Hk) as [| |b'|w' z'|w' n'|n'|b' Hb'|b' Hb'|s'|s'];
    try (exfalso; apply Hknil; reflexivity); try (exfalso; apply Hknan; reflexivity);
    try reflexivity; try (destruct w; reflexivity); try (destruct w'; reflexivity);
    try (rewrite key_gval_int, key_gval_uint; reflexivity); try (rewrite key_gval_uint, key_gval_int; reflexivity);
    cbn [kind val] in Hlt.
  - destruct b, b'; try reflexivity; discriminate Hlt.
  - rewrite !key_gval_int.
    change (gkey_eqb (GAny (Some (TInt w, GInt z))) (GAny (Some (TInt w', GInt z'))))
      with (width_eqb w w' && (z =? z')%Z).
    destruct (width_eqb w w') eqn:Ew; [|reflexivity]. apply width_eqb_true in Ew. subst w'.
    rewrite N.compare_refl in Hlt. cbn [val_ord] in Hlt. cbn [andb].
    apply Z.eqb_neq. intros ->. rewrite Z.compare_refl in Hlt. discriminate Hlt.
  - rewrite !key_gval_uint.
    change (gkey_eqb (GAny (Some (TUint w, GUint n))) (GAny (Some (TUint w', GUint n'))))
      with (width_eqb w w' && (n =? n')).
    destruct (width_eqb w w') eqn:Ew; [|reflexivity]. apply width_eqb_true in Ew. subst w'.
    rewrite N.compare_refl in Hlt. cbn [val_ord] in Hlt. cbn [andb].
    apply N.eqb_neq. intros ->. rewrite N.compare_refl in Hlt. discriminate Hlt.
  - change (gkey_eqb (key_gval (T KPointer (VPtr n))) (key_gval (T KPointer (VPtr n')))) with (n =? n').
    rewrite N.compare_refl in Hlt. cbn [val_ord] in Hlt.
    apply N.eqb_neq. intros ->. rewrite N.compare_refl in Hlt. discriminate Hlt.
  - change (gkey_eqb (key_gval (T KFloat32 (VF32 b))) (key_gval (T KFloat32 (VF32 b')))) with (f32_eq b b').
    rewrite N.compare_refl in Hlt. cbn [val_ord] in Hlt. unfold f32_eq.
    assert (E : (f32_key b =? f32_key b')%Z = false).
    { apply Z.eqb_neq. intros E. rewrite E, Z.compare_refl in Hlt. discriminate Hlt. }
    rewrite E. apply andb_false_r.
  - change (gkey_eqb (key_gval (T KFloat64 (VF64 b))) (key_gval (T KFloat64 (VF64 b')))) with (f64_eq b b').
    rewrite N.compare_refl in Hlt. cbn [val_ord] in Hlt. unfold f64_eq.
    assert (E : (f64_key b =? f64_key b')%Z = false).
    { apply Z.eqb_neq. intros E. rewrite E, Z.compare_refl in Hlt. discriminate Hlt. }
    rewrite E. apply andb_false_r.
  - change (gkey_eqb (key_gval (T KString (VStr s))) (key_gval (T KString (VStr s')))) with (bytes_eqb s s').
    rewrite N.compare_refl in Hlt. cbn [val_ord] in Hlt.
    destruct (bytes_eqb s s') eqn:E; [|reflexivity]. apply bytes_eqb_true in E. subst s'.
    rewrite bytes_cmp_refl in Hlt. discriminate Hlt.
  - change (gkey_eqb (key_gval (T KBytes (VBytes s))) (key_gval (T KBytes (VBytes s'))))
      with (Nat.eqb (length s) (length s') && bytes_eqb s s').
    rewrite N.compare_refl in Hlt. cbn [val_ord] in Hlt.
    destruct (bytes_eqb s s') eqn:E; [|apply andb_false_r]. apply bytes_eqb_true in E. subst s'.
    rewrite bytes_cmp_refl in Hlt. discriminate Hlt.
Qed.

(* ====================================================================================== *)
(* Part 4.  The element loops of the untyped target on canonical item streams               *)
(* ====================================================================================== *)

Lemma flatten_nonempty v : (1 <= length (flatten v))%nat.
Proof. destruct v; cbn [flatten length]; lia. Qed.

Lemma flat_len items : (length items <= length (flat_map flatten items))%nat.
Proof.
  induction items as [|x r IH]; cbn [flat_map length]; [lia|].
  rewrite app_length. pose proof (flatten_nonempty x). lia.
Qed.

Lemma pairs_len {A} (l : list A) : (length (pairs l) <= length l)%nat.
Proof. induction l as [|a|a b r IH] using list_ind2; cbn [pairs length]; lia. Qed.

Lemma open_kind_cases k : is_open_kind k = true -> k = KArray \/ k = KObject \/ k = KMap \/ k = KTuple.
Proof.
  unfold is_open_kind. intros H.
  apply orb_true_iff in H. destruct H as [H|H]; [|apply N.eqb_eq in H; tauto].
  apply orb_true_iff in H. destruct H as [H|H]; [|apply N.eqb_eq in H; tauto].
  apply orb_true_iff in H. destruct H as [H|H]; apply N.eqb_eq in H; tauto.
Qed.

Lemma is_open_not_end k : is_open_kind k = true -> is_end_kind k = false.
Proof. intros H. destruct (open_kind_cases k H) as [->|[->|[->| ->]]]; reflexivity. Qed.

Lemma any_okb_open ko kc items : any_okb (Comp ko kc items) = true -> is_open_kind ko = true.
Proof.
  rewrite any_okb_comp. unfold is_open_kind.
  destruct (ko =? KArray), (ko =? KTuple), (ko =? KObject), (ko =? KMap); intros H; try reflexivity.
  cbn [andb] in H. discriminate H.
Qed.

Lemma any_head v more : any_okb v = true ->
  exists tk tl, flatten v ++ more = tk :: tl /\ is_end_kind (kind tk) = false.
Proof.
  destruct v as [t|ko kc items|n v]; intros H.
  - exists t, more. split; [reflexivity|]. apply any_kind_not_end, leaf_ok_kind, H.
  - exists (T ko VNone), ((flat_map flatten items ++ [T kc VNone]) ++ more). split; [reflexivity|].
    cbn [kind]. apply is_open_not_end. eapply any_okb_open, H.
  - discriminate H.
Qed.

(* a decoded value is a non-nil interface unless it is the Nil leaf *)
Lemma dec_some v : any_okb v = true -> is_nil_leaf v = false -> exists t x, dec v = GAny (Some (t, x)).
Proof.
  destruct v as [t|ko kc items|n v]; intros H Hnil.
  - cbn [any_okb] in H. cbn [dec].
    destruct (leaf_ok_view t H) as [| |b|w z|w n|n|b Hb|b Hb|s|s]; try (eexists; eexists; reflexivity).
    + discriminate Hnil.
    + exists (TInt w), (GInt z). destruct w; reflexivity.
    + exists (TUint w), (GUint n). destruct w; reflexivity.
  - apply any_okb_open in H. destruct (open_kind_cases ko H) as [->|[->|[->| ->]]].
    + rewrite dec_array. eexists; eexists; reflexivity.
    + rewrite dec_object. eexists; eexists; reflexivity.
    + rewrite dec_map. eexists; eexists; reflexivity.
    + rewrite dec_tuple. eexists; eexists; reflexivity.
  - discriminate H.
Qed.

Lemma existsb_fname n fs :
  existsb (fun fd => bytes_eqb (fname fd) n) fs = existsb (fun s => bytes_eqb s n) (map fname fs).
Proof. induction fs as [|fd fs IH]; cbn [existsb map]; [reflexivity|]. rewrite IH. reflexivity. Qed.

Lemma map_set_fresh k v m : Forall (fun e => gkey_eqb (fst e) k = false) m -> map_set k v m = m ++ [(k, v)].
Proof.
  induction 1 as [|[k' v'] m Hk _ IH]; [reflexivity|].
  cbn [map_set app]. cbn [fst] in Hk. rewrite Hk, IH. reflexivity.
Qed.

Section Loops.
Variable rec : rec_t.

(* what the recursive call does on the stream of an item of the domain *)
Definition item_ok (x : value) : Prop :=
  any_okb x = true -> forall rest, rec TAny (GAny None) (flatten x ++ rest) = Ok (dec x, rest).

(* ---- arrays ---- *)
Lemma slice_loop_step g et acc ts tk tl : ts = tk :: tl -> (kind tk =? KArrayEnd) = false ->
  slice_loop rec (S g) et acc ts =
  bind (rec et (zero et) ts) (fun r => slice_loop rec g et (acc ++ [fst r]) (snd r)).
Proof. intros -> H. cbn [slice_loop]. rewrite H. reflexivity. Qed.

Lemma slice_loop_any : forall items, Forall item_ok items -> forallb any_okb items = true ->
  forall g acc rest, (length items < g)%nat ->
  slice_loop rec g TAny acc (flat_map flatten items ++ T KArrayEnd VNone :: rest) = Ok (acc ++ map dec items, rest).
Proof.
  induction 1 as [|x l Hx _ IH]; intros Hok g acc rest Hg.
  - destruct g as [|g]; [cbn [length] in Hg; lia|]. cbn [flat_map app slice_loop kind map].
    rewrite app_nil_r. reflexivity.
  - cbn [forallb] in Hok. apply andb_true_iff in Hok. destruct Hok as [Hox Hol].
    destruct g as [|g]; [cbn [length] in Hg; lia|].
    cbn [flat_map map]. rewrite <- app_assoc.
    destruct (any_head x (flat_map flatten l ++ T KArrayEnd VNone :: rest) Hox) as (tk & tl & E & He).
    rewrite (slice_loop_step g TAny acc _ tk tl E (proj1 (end_kind_false _ He))).
    change (zero TAny) with (GAny None). rewrite (Hx Hox _). cbn [bind fst snd].
    rewrite (IH Hol g (acc ++ [dec x]) rest) by (cbn [length] in Hg; lia).
    rewrite <- app_assoc. reflexivity.
Qed.

(* ---- tuples ---- *)
Lemma tuple_loop_step g tys vals ts tk tl : ts = tk :: tl -> (kind tk =? KTupleEnd) = false ->
  tuple_loop rec (S g) [] tys vals ts =
  bind (rec TAny (GAny None) ts) (fun r =>
    tuple_loop rec g [] (tys ++ [dyn_ty (fst r)]) (vals ++ [dyn_val (fst r)]) (snd r)).
Proof. intros -> H. cbn [tuple_loop]. rewrite H. reflexivity. Qed.

Lemma tuple_loop_any : forall items, Forall item_ok items -> forallb any_okb items = true ->
  forall g tys vals rest, (length items < g)%nat ->
  tuple_loop rec g [] tys vals (flat_map flatten items ++ T KTupleEnd VNone :: rest)
  = Ok ([], vals ++ map dyn_val (map dec items), tys ++ map dyn_ty (map dec items), rest).
Proof.
  induction 1 as [|x l Hx _ IH]; intros Hok g tys vals rest Hg.
  - destruct g as [|g]; [cbn [length] in Hg; lia|]. cbn [flat_map app tuple_loop kind map].
    rewrite !app_nil_r. reflexivity.
  - cbn [forallb] in Hok. apply andb_true_iff in Hok. destruct Hok as [Hox Hol].
    destruct g as [|g]; [cbn [length] in Hg; lia|].
    cbn [flat_map map]. rewrite <- app_assoc.
    destruct (any_head x (flat_map flatten l ++ T KTupleEnd VNone :: rest) Hox) as (tk & tl & E & He).
    rewrite (tuple_loop_step g tys vals _ tk tl E (proj2 (proj2 (proj2 (end_kind_false _ He))))).
    rewrite (Hx Hox _). cbn [bind fst snd].
    rewrite (IH Hol g _ _ rest) by (cbn [length] in Hg; lia).
    rewrite <- !app_assoc. reflexivity.
Qed.

(* ---- maps ---- *)
Lemma genmap_loop_step g m ts tk tl : ts = tk :: tl -> (kind tk =? KMapEnd) = false ->
  genmap_loop rec (S g) m ts =
  bind (rec TAny (GAny None) ts) (fun kr =>
    match to_cmp (fst kr) with
    | GAny None => Err EBadMapKey
    | GAny (Some (kt, kv)) =>
        if negb (comparable_ty kt) then Err EBadMapKey
        else if match kv with GF64 b => f64_is_nan b | GF32 b => f32_is_nan b | _ => false end then Err EBadMapKey
        else bind (rec TAny (GAny None) (snd kr)) (fun vr =>
             genmap_loop rec g (map_set (to_cmp (fst kr)) (fst vr) m) (snd vr))
    | _ => Err EOther
    end).
Proof. intros -> H. cbn [genmap_loop]. rewrite H. reflexivity. Qed.

(* every admissible next key is absent from the entries collected so far *)
Definition fresh_inv (prev : option token) (m : list (gval * gval)) : Prop :=
  match prev with Some p => key_ok p = true | None => True end /\
  forall k, key_ok k = true -> lt_prev prev k = true ->
            Forall (fun e => gkey_eqb (fst e) (key_gval k) = false) m.

Lemma key_ok_wfs k : key_ok k = true -> wf_cmps [k].
Proof. intros H. apply key_ok_inv in H. constructor; [apply leaf_ok_wf, H|constructor]. Qed.

Lemma lt_prev_some p k : lt_prev (Some p) k = true -> lex [p] [k] = Lt.
Proof. cbn [lt_prev]. destruct (lex [p] [k]); intros H; try discriminate H; reflexivity. Qed.

Lemma fresh_inv_step prev m k x : fresh_inv prev m -> key_ok k = true -> lt_prev prev k = true ->
  fresh_inv (Some k) (m ++ [(key_gval k, x)]).
Proof.
  intros [Hp Hinv] Hk Hlt. split; [exact Hk|]. intros k' Hk' Hlt'.
  apply lt_prev_some in Hlt'. apply Forall_app. split.
  - apply Hinv; [exact Hk'|]. destruct prev as [p|]; [|reflexivity].
    apply lt_prev_some in Hlt. cbn [lt_prev].
    rewrite (lex_lt_trans [p] [k] [k'] (key_ok_wfs p Hp) (key_ok_wfs k Hk) (key_ok_wfs k' Hk') Hlt Hlt').
    reflexivity.
  - constructor; [|constructor]. cbn [fst]. apply key_fresh; assumption.
Qed.

Lemma genmap_loop_any : forall items, Forall item_ok items ->
  forall prev, map_ok any_okb prev items = true ->
  forall g m rest, fresh_inv prev m -> (length (pairs items) < g)%nat ->
  genmap_loop rec g m (flat_map flatten items ++ T KMapEnd VNone :: rest)
  = Ok (GAny (Some (TMap TAny TAny, GMap false (m ++ dentries (map dec items)))), rest).
Proof.
  intros items. induction items as [|a|a b r IH] using list_ind2; intros HF prev Hok g m rest Hinv Hg.
  - destruct g as [|g]; [cbn [pairs length] in Hg; lia|].
    unfold dentries. cbn [flat_map app genmap_loop kind map pairs]. rewrite app_nil_r. reflexivity.
  - rewrite map_ok_one in Hok. discriminate Hok.
  - apply map_ok_inv in Hok. destruct Hok as (k & -> & Hk & Hlt & Hb & Hr).
    pose proof (Forall_inv HF) as Hkok.
    pose proof (Forall_inv (Forall_inv_tail HF)) as Hbok.
    pose proof (Forall_inv_tail (Forall_inv_tail HF)) as HFr.
    destruct g as [|g]; [cbn [pairs length] in Hg; lia|].
    cbn [flat_map]. rewrite <- !app_assoc.
    assert (Hkl : leaf_ok k = true) by (apply key_ok_inv in Hk; apply Hk).
    destruct (any_head (Leaf k) (flatten b ++ flat_map flatten r ++ T KMapEnd VNone :: rest) Hkl)
      as (tk & tl & E & He).
    rewrite (genmap_loop_step g m _ tk tl E (proj1 (proj2 (proj2 (end_kind_false _ He))))).
    rewrite (Hkok Hkl _). cbn [bind fst snd]. change (to_cmp (dec (Leaf k))) with (key_gval k).
    destruct (key_gval_form k Hk) as (kt & kv & Ek & Hc & Hn). rewrite Ek at 1. rewrite Hc. cbn [negb].
    rewrite Hn. rewrite (Hbok Hb _). cbn [bind fst snd].
    rewrite (map_set_fresh _ _ m (proj2 Hinv k Hk Hlt)).
    rewrite (IH HFr (Some k) Hr g _ rest (fresh_inv_step prev m k (dec b) Hinv Hk Hlt))
      by (cbn [pairs length] in Hg; lia).
    unfold dentries. cbn [map pairs fst snd]. change (to_cmp (dec (Leaf k))) with (key_gval k).
    rewrite <- app_assoc. reflexivity.
Qed.

(* ---- objects ---- *)
Hypothesis Hname : forall s cur rest', rec TString cur (T KString (VStr s) :: rest') = Ok (GStr s, rest').

Lemma newstruct_loop_step g fs vals n ts :
  is_exported_ident n = true -> existsb (fun fd => bytes_eqb (fname fd) n) fs = false ->
  newstruct_loop rec (S g) fs vals (T KString (VStr n) :: ts) =
  bind (rec TAny (GAny None) ts) (fun r =>
    match fst r with
    | GAny (Some (vt, v)) => newstruct_loop rec g (fs ++ [(n, true, vt)]) (vals ++ [v]) (snd r)
    | _ => Err EEnd
    end).
Proof.
  intros Hid Hdup. cbn [newstruct_loop kind]. change (KString =? KObjectEnd) with false. cbn beta iota.
  rewrite Hname. cbn [bind fst snd]. rewrite Hid, Hdup. reflexivity.
Qed.

(* a prefix of well-formed fields is consumed, one unit of loop fuel per field *)
Lemma newstruct_loop_prefix : forall pre, Forall item_ok pre ->
  forall seen, obj_ok any_okb seen pre = true ->
  forall g fs vals more, map fname fs = seen ->
  newstruct_loop rec (length (pairs pre) + g) fs vals (flat_map flatten pre ++ more)
  = newstruct_loop rec g (fs ++ dfields (map dec pre)) (vals ++ dvals (map dec pre)) more.
Proof.
  intros pre. induction pre as [|a|a b r IH] using list_ind2; intros HF seen Hok g fs vals more Hfs.
  - unfold dfields, dvals. cbn [pairs length Nat.add flat_map app map]. rewrite !app_nil_r. reflexivity.
  - rewrite obj_ok_one in Hok. discriminate Hok.
  - apply obj_ok_inv in Hok. destruct Hok as (n & -> & Hid & Hseen & Hb & Hnil & Hr).
    pose proof (Forall_inv (Forall_inv_tail HF)) as Hbok.
    pose proof (Forall_inv_tail (Forall_inv_tail HF)) as HFr.
    cbn [pairs length Nat.add flat_map]. change (flatten (Leaf (T KString (VStr n)))) with [T KString (VStr n)].
    cbn [app]. rewrite <- app_assoc.
    rewrite newstruct_loop_step; [|exact Hid|rewrite existsb_fname, Hfs; exact Hseen].
    rewrite (Hbok Hb _). cbn [bind fst snd].
    destruct (dec_some b Hb Hnil) as (vt & x & E). rewrite E.
    rewrite (IH HFr (seen ++ [n]) Hr g _ _ more) by (rewrite map_app, Hfs; reflexivity).
    unfold dfields, dvals. cbn [map pairs fst snd]. rewrite E. cbn [dyn_ty dyn_val].
    change (gname (dec (Leaf (T KString (VStr n))))) with n.
    rewrite <- !app_assoc. reflexivity.
Qed.

End Loops.

(* ====================================================================================== *)
(* Part 5.  Decoding a value of the domain into an untyped target                           *)
(* ====================================================================================== *)

Lemma comp_len ko kc items : length (flatten (Comp ko kc items)) = S (S (length (flat_map flatten items))).
Proof. cbn [flatten length]. rewrite app_length. cbn [length]. lia. Qed.

Section Decode.
Variable pf : bytes -> N -> option N.
Variable o : copts.
Variable R : registry.

Definition unm_ok (v : value) : Prop :=
  any_okb v = true -> forall f rest, (length (flatten v) <= f)%nat ->
  unm pf f o R TAny (GAny None) (flatten v ++ rest) = Ok (dec v, rest).

Lemma items_ok f items : Forall unm_ok items -> (length (flat_map flatten items) <= f)%nat ->
  Forall (item_ok (unm pf f o R)) items.
Proof.
  induction 1 as [|x l Hx _ IH]; intros Hf; constructor.
  - intros Hok rest. apply Hx; [exact Hok|]. cbn [flat_map] in Hf. rewrite app_length in Hf. lia.
  - apply IH. cbn [flat_map] in Hf. rewrite app_length in Hf. lia.
Qed.

Lemma name_ok f s cur rest' : (1 <= f)%nat ->
  unm pf f o R TString cur (T KString (VStr s) :: rest') = Ok (GStr s, rest').
Proof. intros Hf. destruct f as [|f]; [lia|]. apply unm_name. Qed.

Theorem any_unm_all : forall v, unm_ok v.
Proof.
  induction v as [t|ko kc items IH|n v IH] using value_ind2; intros Hok f rest Hf.
  - cbn [flatten length] in Hf. destruct f as [|f]; [lia|]. cbn [flatten app dec]. apply leaf_unm. exact Hok.
  - rewrite comp_len in Hf. destruct f as [|f]; [lia|].
    assert (HI : Forall (item_ok (unm pf f o R)) items) by (apply items_ok; [exact IH|lia]).
    assert (Hname : forall s cur rest', unm pf f o R TString cur (T KString (VStr s) :: rest') = Ok (GStr s, rest'))
      by (intros; apply name_ok; lia).
    pose proof (flat_len items) as Hlen. pose proof (pairs_len items) as Hpl.
    rewrite any_okb_comp in Hok.
    cbn [flatten]. cbn [app]. rewrite <- app_assoc. cbn [app].
    destruct ((ko =? KArray) && (kc =? KArrayEnd)) eqn:E1.
    { apply andb_true_iff in E1. destruct E1 as [E1 E2]. apply N.eqb_eq in E1, E2. subst ko kc.
      rewrite unm_any_array.
      rewrite (slice_loop_any _ items HI Hok) by (rewrite app_length; cbn [length]; lia).
      cbn [bind fst snd app]. rewrite dec_array. reflexivity. }
    destruct ((ko =? KTuple) && (kc =? KTupleEnd)) eqn:E2.
    { apply andb_true_iff in E2. destruct E2 as [E2 E3]. apply N.eqb_eq in E2, E3. subst ko kc.
      apply andb_true_iff in Hok. destruct Hok as [Hok H50].
      rewrite unm_any_tuple.
      rewrite (tuple_loop_any _ items HI Hok) by (rewrite app_length; cbn [length]; lia).
      cbn [bind app]. rewrite !map_length.
      assert (E : Nat.ltb 50 (length items) = false) by (apply Nat.ltb_ge; apply Nat.leb_le in H50; exact H50).
      rewrite E, dec_tuple. reflexivity. }
    destruct ((ko =? KObject) && (kc =? KObjectEnd)) eqn:E3.
    { apply andb_true_iff in E3. destruct E3 as [E3 E4]. apply N.eqb_eq in E3, E4. subst ko kc.
      rewrite unm_any_object.
      remember (flat_map flatten items ++ T KObjectEnd VNone :: rest) as X eqn:EX.
      assert (HX : (length (pairs items) <= length X)%nat)
        by (subst X; rewrite app_length; cbn [length]; lia).
      replace (S (length X)) with (length (pairs items) + S (length X - length (pairs items)))%nat by lia.
      subst X.
      rewrite (newstruct_loop_prefix _ Hname items HI [] Hok _ [] [] _ eq_refl).
      cbn [newstruct_loop kind app]. rewrite dec_object. reflexivity. }
    destruct ((ko =? KMap) && (kc =? KMapEnd)) eqn:E4; [|discriminate Hok].
    { apply andb_true_iff in E4. destruct E4 as [E4 E5]. apply N.eqb_eq in E4, E5. subst ko kc.
      rewrite unm_any_map.
      rewrite (genmap_loop_any _ items HI None Hok _ [] rest).
      - cbn [app]. rewrite dec_map. reflexivity.
      - split; [exact I|]. intros; constructor.
      - rewrite app_length. cbn [length]. lia. }
  - discriminate Hok.
Qed.

End Decode.

(* ====================================================================================== *)
(* Part 6.  Marshalling the decoded value again                                             *)
(* ====================================================================================== *)

Definition mar_ok (v : value) : Prop := any_okb v = true -> marshal default_opts TAny (dec v) = Ok (flatten v).

Lemma dfields_cons a b l : dfields (a :: b :: l) = (gname a, true, dyn_ty b) :: dfields l.
Proof. reflexivity. Qed.
Lemma dvals_cons a b l : dvals (a :: b :: l) = dyn_val b :: dvals l.
Proof. reflexivity. Qed.
Lemma dentries_cons a b l : dentries (a :: b :: l) = (to_cmp a, b) :: dentries l.
Proof. reflexivity. Qed.

Lemma marshal_list_any items : Forall mar_ok items -> forallb any_okb items = true ->
  marshal_list default_opts TAny (map dec items) = Ok (flat_map flatten items).
Proof.
  induction 1 as [|x l Hx _ IH]; intros Hok; [reflexivity|].
  cbn [forallb] in Hok. apply andb_true_iff in Hok. destruct Hok as [Hox Hol].
  cbn [map flat_map]. rewrite marshal_list_cons, (Hx Hox). cbn [bind]. rewrite (IH Hol). reflexivity.
Qed.

Lemma marshal_outs_any items : Forall mar_ok items -> forallb any_okb items = true ->
  marshal_outs default_opts (map dyn_val (map dec items)) (map dyn_ty (map dec items)) = Ok (flat_map flatten items).
Proof.
  induction 1 as [|x l Hx _ IH]; intros Hok; [reflexivity|].
  cbn [forallb] in Hok. apply andb_true_iff in Hok. destruct Hok as [Hox Hol].
  cbn [map flat_map]. rewrite marshal_outs_cons, marshal_dyn, (Hx Hox). cbn [bind]. rewrite (IH Hol). reflexivity.
Qed.

Lemma marshal_fields_any : forall items, Forall mar_ok items ->
  forall seen, obj_ok any_okb seen items = true ->
  marshal_fields default_opts (dvals (map dec items)) (dfields (map dec items)) = Ok (flat_map flatten items).
Proof.
  intros items. induction items as [|a|a b r IH] using list_ind2; intros HF seen Hok.
  - reflexivity.
  - rewrite obj_ok_one in Hok. discriminate Hok.
  - apply obj_ok_inv in Hok. destruct Hok as (n & -> & Hid & Hseen & Hb & Hnil & Hr).
    pose proof (Forall_inv (Forall_inv_tail HF)) as Hbok.
    pose proof (Forall_inv_tail (Forall_inv_tail HF)) as HFr.
    cbn [map]. rewrite dfields_cons, dvals_cons, marshal_fields_cons.
    change (skip_empty default_opts) with false. cbn [andb fexported fname fst snd negb].
    rewrite marshal_dyn, (Hbok Hb). cbn [bind]. rewrite (IH HFr _ Hr). reflexivity.
Qed.

(* the entries of a decoded map: sort key, emitted key, emitted value *)
Definition ents (items : list value) : list entry :=
  map (fun p => (flatten (fst p), flatten (fst p), flatten (snd p))) (pairs items).

Lemma marshal_entries_any : forall items, Forall mar_ok items ->
  forall prev, map_ok any_okb prev items = true ->
  marshal_entries default_opts TAny TAny (dentries (map dec items)) = Ok (ents items).
Proof.
  intros items. induction items as [|a|a b r IH] using list_ind2; intros HF prev Hok.
  - reflexivity.
  - rewrite map_ok_one in Hok. discriminate Hok.
  - apply map_ok_inv in Hok. destruct Hok as (k & -> & Hk & Hlt & Hb & Hr).
    pose proof (Forall_inv (Forall_inv_tail HF)) as Hbok.
    pose proof (Forall_inv_tail (Forall_inv_tail HF)) as HFr.
    cbn [map]. rewrite dentries_cons. change (to_cmp (dec (Leaf k))) with (key_gval k).
    rewrite marshal_entries_cons, (key_marshal _ k Hk). cbn [bind].
    change (bad_map_key [k]) with (kind k =? KNaN).
    destruct (key_ok_inv k Hk) as (_ & _ & Hnan). apply N.eqb_neq in Hnan. rewrite Hnan.
    rewrite (IH HFr _ Hr). cbn [bind]. rewrite (Hbok Hb). reflexivity.
Qed.

Lemma ents_stream : forall items prev, map_ok any_okb prev items = true ->
  flat_map (fun e : list token * list token * list token => snd (fst e) ++ snd e) (ents items) = flat_map flatten items.
Proof.
  intros items. induction items as [|a|a b r IH] using list_ind2; intros prev Hok.
  - reflexivity.
  - rewrite map_ok_one in Hok. discriminate Hok.
  - apply map_ok_inv in Hok. destruct Hok as (k & -> & Hk & Hlt & Hb & Hr).
    unfold ents. cbn [pairs map flat_map fst snd]. fold (ents r). rewrite (IH _ Hr).
    rewrite <- app_assoc. reflexivity.
Qed.

(* entries whose sort keys are strictly ascending, each above [prev] *)
Fixpoint chain (prev : option (list token)) (l : list entry) : Prop :=
  match l with
  | [] => True
  | e :: r => match prev with Some p => cmp_tokens p (fst (fst e)) = Some Lt | None => True end /\
              chain (Some (fst (fst e))) r
  end.

(* insertion sort leaves an ascending list as it is *)
Lemma sort_chain : forall l prev, chain prev l -> sort_entries l = l.
Proof.
  induction l as [|e r IH]; intros prev H; [reflexivity|]. destruct H as [_ Hr].
  change (sort_entries (e :: r)) with (insert_entry e (sort_entries r)). rewrite (IH _ Hr).
  destruct r as [|x r']; [reflexivity|]. destruct Hr as [Hex _].
  cbn [insert_entry]. unfold key_le. rewrite Hex. reflexivity.
Qed.

Lemma ents_chain : forall items prev, map_ok any_okb prev items = true ->
  match prev with Some p => key_ok p = true | None => True end ->
  chain (option_map (fun p => [p]) prev) (ents items).
Proof.
  intros items. induction items as [|a|a b r IH] using list_ind2; intros prev Hok Hp.
  - exact I.
  - rewrite map_ok_one in Hok. discriminate Hok.
  - apply map_ok_inv in Hok. destruct Hok as (k & -> & Hk & Hlt & Hb & Hr).
    unfold ents. cbn [pairs map fst snd]. fold (ents r). cbn [chain fst flatten]. split.
    + destruct prev as [p|]; cbn [option_map]; [|exact I].
      rewrite (cmp_is_lex [p] [k] (key_ok_wfs p Hp) (key_ok_wfs k Hk)), (lt_prev_some p k Hlt). reflexivity.
    + apply (IH (Some k) Hr Hk).
Qed.

Theorem any_mar_all : forall v, mar_ok v.
Proof.
  induction v as [t|ko kc items IH|n v IH] using value_ind2; intros Hok.
  - apply leaf_marshal. exact Hok.
  - rewrite any_okb_comp in Hok. cbn [flatten].
    destruct ((ko =? KArray) && (kc =? KArrayEnd)) eqn:E1.
    { apply andb_true_iff in E1. destruct E1 as [E1 E2]. apply N.eqb_eq in E1, E2. subst ko kc.
      rewrite dec_array, marshal_any, (marshal_unreg _ (TSlice TAny)) by reflexivity.
      cbn [marshal_body]. change (elem_ty (TSlice TAny)) with TAny.
      rewrite (marshal_list_any items IH Hok). reflexivity. }
    destruct ((ko =? KTuple) && (kc =? KTupleEnd)) eqn:E2.
    { apply andb_true_iff in E2. destruct E2 as [E2 E3]. apply N.eqb_eq in E2, E3. subst ko kc.
      apply andb_true_iff in Hok. destruct Hok as [Hok _].
      rewrite dec_tuple, marshal_any, (marshal_unreg _ (TFunc _)) by reflexivity.
      cbn [marshal_body]. change (ignore_funcs default_opts) with false. cbn beta iota.
      change (func_outs (TFunc (map dyn_ty (map dec items)))) with (map dyn_ty (map dec items)).
      rewrite (marshal_outs_any items IH Hok). reflexivity. }
    destruct ((ko =? KObject) && (kc =? KObjectEnd)) eqn:E3.
    { apply andb_true_iff in E3. destruct E3 as [E3 E4]. apply N.eqb_eq in E3, E4. subst ko kc.
      rewrite dec_object, marshal_any, (marshal_unreg _ (TStruct _)) by reflexivity.
      cbn [marshal_body]. change (struct_fs (TStruct (dfields (map dec items)))) with (dfields (map dec items)).
      rewrite (marshal_fields_any items IH [] Hok). reflexivity. }
    destruct ((ko =? KMap) && (kc =? KMapEnd)) eqn:E4; [|discriminate Hok].
    { apply andb_true_iff in E4. destruct E4 as [E4 E5]. apply N.eqb_eq in E4, E5. subst ko kc.
      rewrite dec_map, marshal_any, (marshal_unreg _ (TMap TAny TAny)) by reflexivity.
      cbn [marshal_body]. change (map_kt (TMap TAny TAny)) with TAny. change (map_vt (TMap TAny TAny)) with TAny.
      rewrite (marshal_entries_any items IH None Hok). cbn [bind]. unfold map_stream.
      rewrite (sort_chain _ _ (ents_chain items None Hok I)), (ents_stream items None Hok). reflexivity. }
  - discriminate Hok.
Qed.

(* ====================================================================================== *)
(* Part 7.  C11: schema-less decoding is lossless                                           *)
(* ====================================================================================== *)

(* the decoding half, with the decoded value and a sufficient fuel made explicit *)
Theorem any_unm pf o R v f rest : any_ok R v -> (length (flatten v) <= f)%nat ->
  unm pf f o R TAny (GAny None) (flatten v ++ rest) = Ok (dec v, rest).
Proof. intros Hok Hf. apply any_unm_all; assumption. Qed.

(* the re-encoding half *)
Theorem any_marshal R v : any_ok R v -> marshal default_opts TAny (dec v) = Ok (flatten v).
Proof. intros Hok. apply any_mar_all. exact Hok. Qed.

Theorem any_roundtrip pf o R v rest : any_ok R v ->
  exists f g, unm pf f o R TAny (GAny None) (flatten v ++ rest) = Ok (g, rest) /\
              marshal default_opts TAny g = Ok (flatten v).
Proof.
  intros Hok. exists (length (flatten v)), (dec v). split.
  - apply (any_unm pf o R v _ rest Hok). lia.
  - apply (any_marshal R v Hok).
Qed.

(* more fuel never changes the outcome: the result above is the one every sufficient fuel gives *)
Corollary any_roundtrip_stable pf o R v rest : any_ok R v ->
  exists g, marshal default_opts TAny g = Ok (flatten v) /\
            exists f0, forall f, (f0 <= f)%nat -> unm pf f o R TAny (GAny None) (flatten v ++ rest) = Ok (g, rest).
Proof.
  intros Hok. exists (dec v). split; [apply (any_marshal R v Hok)|].
  exists (length (flatten v)). intros f Hf. apply (any_unm pf o R v f rest Hok Hf).
Qed.

(* ====================================================================================== *)
(* Part 8.  The edges of the domain are rejected, never mis-decoded                          *)
(*          (Literal / Min / Max / Ref tokens and unregistered TypeName: Part 3)             *)
(* ====================================================================================== *)

Definition field_names (items : list value) : list bytes :=
  map (fun p => match fst p with Leaf (T _ (VStr n)) => n | _ => [] end) (pairs items).

Lemma dfields_names : forall items seen, obj_ok any_okb seen items = true ->
  map fname (dfields (map dec items)) = field_names items.
Proof.
  intros items. induction items as [|a|a b r IH] using list_ind2; intros seen Hok.
  - reflexivity.
  - rewrite obj_ok_one in Hok. discriminate Hok.
  - apply obj_ok_inv in Hok. destruct Hok as (n & -> & _ & _ & _ & _ & Hr).
    cbn [map]. rewrite dfields_cons. unfold field_names. cbn [map pairs fname fst]. fold (field_names r).
    rewrite (IH _ Hr). reflexivity.
Qed.

Lemma all_unm_ok pf o R items : Forall (unm_ok pf o R) items.
Proof. apply Forall_forall. intros x _. apply any_unm_all. Qed.

(* an object field holding Nil (the fields before it being fine): end-of-stream error *)
Theorem any_rejects_nil_field pf o R pre n more f :
  obj_ok any_okb [] pre = true -> is_exported_ident n = true ->
  existsb (fun s => bytes_eqb s n) (field_names pre) = false ->
  (length (flat_map flatten pre) + 3 <= f)%nat ->
  unm pf f o R TAny (GAny None)
      (T KObject VNone :: flat_map flatten pre ++ T KString (VStr n) :: T KNil VNone :: more) = Err EEnd.
Proof.
  intros Hok Hid Hdup Hf. destruct f as [|f]; [lia|].
  assert (HI : Forall (item_ok (unm pf f o R)) pre) by (apply items_ok; [apply all_unm_ok|lia]).
  assert (Hname : forall s cur rest', unm pf f o R TString cur (T KString (VStr s) :: rest') = Ok (GStr s, rest'))
    by (intros; apply name_ok; lia).
  pose proof (flat_len pre) as Hlen. pose proof (pairs_len pre) as Hpl.
  rewrite unm_any_object.
  remember (flat_map flatten pre ++ T KString (VStr n) :: T KNil VNone :: more) as X eqn:EX.
  assert (HX : (length (pairs pre) <= length X)%nat) by (subst X; rewrite app_length; cbn [length]; lia).
  replace (S (length X)) with (length (pairs pre) + S (length X - length (pairs pre)))%nat by lia.
  subst X.
  rewrite (newstruct_loop_prefix _ Hname pre HI [] Hok _ [] [] _ eq_refl). cbn [app].
  rewrite (newstruct_loop_step _ Hname); [|exact Hid|rewrite existsb_fname, (dfields_names pre [] Hok); exact Hdup].
  destruct f as [|f]; [lia|]. rewrite (leaf_unm pf o R f (T KNil VNone) more eq_refl). reflexivity.
Qed.

(* a map whose first key is an array, a map or a tuple: not a valid map key *)
Theorem any_rejects_composite_key pf o R ko kc items more f :
  any_okb (Comp ko kc items) = true -> ko <> KObject ->
  (length (flatten (Comp ko kc items)) + 1 <= f)%nat ->
  unm pf f o R TAny (GAny None) (T KMap VNone :: flatten (Comp ko kc items) ++ more) = Err EBadMapKey.
Proof.
  intros Hok Hno Hf. destruct f as [|f]; [lia|].
  rewrite unm_any_map.
  destruct (any_head (Comp ko kc items) more Hok) as (tk & tl & E & He).
  rewrite (genmap_loop_step _ _ [] _ tk tl E (proj1 (proj2 (proj2 (end_kind_false _ He))))).
  rewrite (any_unm_all pf o R (Comp ko kc items) Hok f more) by lia. cbn [bind fst snd].
  destruct (open_kind_cases ko (any_okb_open ko kc items Hok)) as [->|[->|[->| ->]]].
  - rewrite dec_array. reflexivity.
  - contradiction Hno. reflexivity.
  - rewrite dec_map. reflexivity.
  - rewrite dec_tuple. reflexivity.
Qed.

(* a Nil or NaN map key *)
Theorem any_rejects_nil_key pf o R more f :
  unm pf (S (S f)) o R TAny (GAny None) (T KMap VNone :: T KNil VNone :: more) = Err EBadMapKey.
Proof.
  rewrite unm_any_map. rewrite (genmap_loop_step _ _ [] _ (T KNil VNone) more eq_refl eq_refl).
  rewrite (leaf_unm pf o R f (T KNil VNone) more eq_refl). reflexivity.
Qed.

Theorem any_rejects_nan_key pf o R more f :
  unm pf (S (S f)) o R TAny (GAny None) (T KMap VNone :: T KNaN VNone :: more) = Err EBadMapKey.
Proof.
  rewrite unm_any_map. rewrite (genmap_loop_step _ _ [] _ (T KNaN VNone) more eq_refl eq_refl).
  rewrite (leaf_unm pf o R f (T KNaN VNone) more eq_refl). reflexivity.
Qed.

(* a tuple of more than 50 items *)
Theorem any_rejects_big_tuple pf o R items rest f :
  forallb any_okb items = true -> (50 < length items)%nat ->
  (length (flatten (Comp KTuple KTupleEnd items)) <= f)%nat ->
  unm pf f o R TAny (GAny None) (flatten (Comp KTuple KTupleEnd items) ++ rest) = Err ETooMany.
Proof.
  intros Hok H50 Hf. rewrite comp_len in Hf. destruct f as [|f]; [lia|].
  assert (HI : Forall (item_ok (unm pf f o R)) items) by (apply items_ok; [apply all_unm_ok|lia]).
  pose proof (flat_len items) as Hlen.
  cbn [flatten]. cbn [app]. rewrite <- app_assoc. cbn [app].
  rewrite unm_any_tuple.
  rewrite (tuple_loop_any _ items HI Hok) by (rewrite app_length; cbn [length]; lia).
  cbn [bind app]. rewrite !map_length.
  assert (E : Nat.ltb 50 (length items) = true) by (apply Nat.ltb_lt; exact H50).
  rewrite E. reflexivity.
Qed.

(* ====================================================================================== *)
(* Part 9.  Examples                                                                        *)
(* ====================================================================================== *)

Definition pf0 : bytes -> N -> option N := fun _ _ => None.

(* { A: [nil, {1: "x", 2: 0x010203}], B: (true, 3.5) } *)
Definition ex_any : value :=
  Comp KObject KObjectEnd
    [Leaf (T KString (VStr [65]));
     Comp KArray KArrayEnd
       [Leaf (T KNil VNone);
        Comp KMap KMapEnd [Leaf (T KInt (VI WNat 1)); Leaf (T KString (VStr [120]));
                           Leaf (T KInt (VI WNat 2)); Leaf (T KBytes (VBytes [1; 2; 3]))]];
     Leaf (T KString (VStr [66]));
     Comp KTuple KTupleEnd [Leaf (T KBool (VBool true)); Leaf (T KFloat64 (VF64 4615063718147915776))]].

Definition ex_any_g : gval :=
  GAny (Some (TStruct [([65], true, TSlice TAny); ([66], true, TFunc [TBool; TF64])],
              GStruct
                [GList false
                   [GAny None;
                    GAny (Some (TMap TAny TAny,
                                GMap false
                                  [(GAny (Some (TInt WNat, GInt 1)), GAny (Some (TString, GStr [120])));
                                   (GAny (Some (TInt WNat, GInt 2)), GAny (Some (TBytes, GBytes false [1; 2; 3])))]))];
                 GFunc (Some [GBool true; GF64 4615063718147915776])])).

(* the hypothesis of any_roundtrip holds of it, and the witnesses are these *)
Example any_roundtrip_ex :
  any_ok [] ex_any /\ dec ex_any = ex_any_g /\
  unm pf0 (length (flatten ex_any)) default_opts [] TAny (GAny None) (flatten ex_any ++ [T KBool (VBool false)])
    = Ok (ex_any_g, [T KBool (VBool false)]) /\
  marshal default_opts TAny ex_any_g = Ok (flatten ex_any).
Proof. split; [|split; [|split]]; vm_compute; reflexivity. Qed.

(* the hypotheses of the rejection theorems are satisfiable *)
Example any_rejects_nil_field_ex :
  let pre := [Leaf (T KString (VStr [65])); Leaf (T KInt (VI WNat 1))] in
  obj_ok any_okb [] pre = true /\ is_exported_ident [66] = true /\
  existsb (fun s => bytes_eqb s [66]) (field_names pre) = false /\
  unm pf0 20 default_opts [] TAny (GAny None)
    (T KObject VNone :: flat_map flatten pre ++ [T KString (VStr [66]); T KNil VNone; T KObjectEnd VNone]) = Err EEnd.
Proof. split; [|split; [|split]]; vm_compute; reflexivity. Qed.

Example any_rejects_composite_key_ex :
  any_okb (Comp KArray KArrayEnd []) = true /\
  unm pf0 20 default_opts [] TAny (GAny None)
    (T KMap VNone :: flatten (Comp KArray KArrayEnd []) ++ [T KInt (VI WNat 1); T KMapEnd VNone]) = Err EBadMapKey.
Proof. split; vm_compute; reflexivity. Qed.

Example any_rejects_big_tuple_ex :
  let items := repeat (Leaf (T KNil VNone)) 51 in
  forallb any_okb items = true /\
  unm pf0 200 default_opts [] TAny (GAny None) (flatten (Comp KTuple KTupleEnd items)) = Err ETooMany /\
  exists g, unm pf0 200 default_opts [] TAny (GAny None)
              (flatten (Comp KTuple KTupleEnd (repeat (Leaf (T KNil VNone)) 50))) = Ok (g, []).
Proof. split; [|split]; [vm_compute; reflexivity|vm_compute; reflexivity|]. eexists. vm_compute. reflexivity. Qed.

Example any_rejects_tokens_ex :
  unm pf0 20 default_opts [] TAny (GAny None) [T KLiteral (VStr [49])] = Err EBadTarget /\
  unm pf0 20 default_opts [] TAny (GAny None) [T KMin VNone] = Err EBadKind /\
  unm pf0 20 default_opts [] TAny (GAny None) [T KMax VNone] = Err EBadKind /\
  unm pf0 20 default_opts [] TAny (GAny None) [T KRef (VBytes [1])] = Err EBadKind /\
  unm pf0 20 default_opts [] TAny (GAny None) [T KTypeName (VStr [80]); T KInt (VI WNat 1)]
    = Ok (GAny (Some (TInt WNat, GInt 1)), []).
Proof. split; [|split; [|split; [|split]]]; vm_compute; reflexivity. Qed.

(* why the keys of the domain are ascending: a map stream with descending keys is accepted but
   comes back reordered, so it does not round trip *)
Example any_unsorted_map_normalized :
  let ts := [T KMap VNone; T KInt (VI WNat 2); T KNil VNone; T KInt (VI WNat 1); T KNil VNone; T KMapEnd VNone] in
  let g := GAny (Some (TMap TAny TAny, GMap false [(GAny (Some (TInt WNat, GInt 2)), GAny None);
                                                  (GAny (Some (TInt WNat, GInt 1)), GAny None)])) in
  unm pf0 20 default_opts [] TAny (GAny None) ts = Ok (g, []) /\
  marshal default_opts TAny g =
    Ok [T KMap VNone; T KInt (VI WNat 1); T KNil VNone; T KInt (VI WNat 2); T KNil VNone; T KMapEnd VNone].
Proof. split; vm_compute; reflexivity. Qed.

Definition AnyP_main_theorems :=
  (any_roundtrip, any_roundtrip_stable, any_unm, any_marshal,
   any_rejects_nil_field, any_rejects_composite_key, any_rejects_nil_key, any_rejects_nan_key,
   any_rejects_big_tuple, any_rejects_literal, any_rejects_min, any_rejects_max, any_rejects_ref,
   any_unregistered_name_dropped).
Print Assumptions AnyP_main_theorems.
