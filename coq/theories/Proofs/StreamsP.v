(* Proofs/StreamsP.v — C13: the stream combinators are transparent (running a stream term
   yields its denotation); C15: faults are propagated, never turned into a clean end, and
   what was delivered before a fault is a prefix of the fault-free stream. *)
From Coq Require Import List NArith ZArith Bool Arith Lia ZifyBool ZifyNat ZifyN Permutation.
From SbModel Require Import Base.Bytes Base.Tokens Base.Values Model.Codec Model.Sinks Model.Tree
  Model.Procs Spec.StreamSpec.
From SbModel Require Import Proofs.CodecP Proofs.SinksP.
Import ListNotations.

(* ------------------------------------------------------------------ *)
(* Proc.Next as a loop over an arbitrary step function                 *)
(* ------------------------------------------------------------------ *)
Definition nextG (st : proc -> pres) : nat -> proc -> list delivery -> pres :=
  fix next (g : nat) (q : proc) (lg : list delivery) {struct g} : pres :=
    match g with
    | O => PErr EDiverge lg
    | S g' =>
      match q with
      | PNil => POk None PNil lg
      | _ => match st q with
             | PErr e lg' => PErr e (lg ++ lg')
             | POk (Some t) q' lg' => POk (Some t) q' (lg ++ lg')
             | POk None q' lg' => next g' q' (lg ++ lg')
             end
      end
    end.

Definition padd (lg : list delivery) (r : pres) : pres :=
  match r with
  | POk t p l => POk t p (lg ++ l)
  | PErr e l => PErr e (lg ++ l)
  end.

Lemma padd_nil r : padd [] r = r.
Proof. destruct r; reflexivity. Qed.

Lemma padd_padd a b r : padd a (padd b r) = padd (a ++ b) r.
Proof. destruct r; cbn [padd]; now rewrite app_assoc. Qed.

Lemma nextG_S st g p lg : p <> PNil ->
  nextG st (S g) p lg =
  match st p with
  | PErr e lg' => PErr e (lg ++ lg')
  | POk (Some t) q' lg' => POk (Some t) q' (lg ++ lg')
  | POk None q' lg' => nextG st g q' (lg ++ lg')
  end.
Proof. intros H. destruct p; try congruence; reflexivity. Qed.

Lemma next_S g p lg : p <> PNil ->
  next (S g) p lg =
  match pstep (S g) p with
  | PErr e lg' => PErr e (lg ++ lg')
  | POk (Some t) q' lg' => POk (Some t) q' (lg ++ lg')
  | POk None q' lg' => next g q' (lg ++ lg')
  end.
Proof. intros H. destruct p; try congruence; reflexivity. Qed.

(* one call of each closure *)
Lemma pstep_nil f : pstep (S f) PNil = POk None PNil [].
Proof. reflexivity. Qed.
Lemma pstep_tokens_nil f c : pstep (S f) (PTokens [] c) = POk None c [].
Proof. reflexivity. Qed.
Lemma pstep_tokens_cons f t r c : pstep (S f) (PTokens (t :: r) c) = POk (Some t) (PTokens r c) [].
Proof. reflexivity. Qed.
Lemma pstep_fail f e : pstep (S f) (PFail e) = PErr e [].
Proof. reflexivity. Qed.
Lemma pstep_iter f s c :
  pstep (S f) (PIterStream s c) =
  match nextG (pstep f) f s [] with
  | PErr e lg => PErr e lg
  | POk None _ lg => POk None c lg
  | POk (Some t) s' lg => POk (Some t) (PIterStream s' c) lg
  end.
Proof. reflexivity. Qed.
Lemma pstep_tee f s sinks c :
  pstep (S f) (PTee s sinks c) =
  match nextG (pstep f) f s [] with
  | PErr e lg => PErr e lg
  | POk t s' lg =>
      match tee_pass (S (length sinks)) t [] sinks lg with
      | inr (e, lg') => PErr e lg'
      | inl (sinks', lg') =>
          match t, sinks' with
          | None, [] => POk None c lg'
          | _, _ => POk t (PTee s' sinks' c) lg'
          end
      end
  end.
Proof. reflexivity. Qed.
Definition pc (rest : list proc) : proc := match rest with [] => PNil | _ => PConcat rest end.
Lemma pstep_concat_nil f : pstep (S f) (PConcat []) = POk None PNil [].
Proof. reflexivity. Qed.
Lemma pstep_concat f s rest :
  pstep (S f) (PConcat (s :: rest)) =
  match nextG (pstep f) f s [] with
  | PErr e lg => PErr e lg
  | POk (Some t) s' lg => POk (Some t) (PConcat (s' :: rest)) lg
  | POk None _ lg => POk None (pc rest) lg
  end.
Proof.
  cbn [pstep]. change (fix next (g : nat) (q : proc) (lg : list delivery) {struct g} : pres := _)
    with (nextG (pstep f)).
  destruct (nextG (pstep f) f s []) as [[t|] s' lg|e lg]; try reflexivity. destruct rest; reflexivity.
Qed.
Lemma pstep_filter f s pr c :
  pstep (S f) (PFilter s pr c) =
  match nextG (pstep f) f s [] with
  | PErr e lg => PErr e lg
  | POk None _ lg => POk None c lg
  | POk (Some t) s' lg =>
      if holds pr t then POk (Some t) (PFilter s' pr c) lg else POk None (PFilter s' pr c) lg
  end.
Proof. reflexivity. Qed.
Lemma pstep_deref f s res c :
  pstep (S f) (PDeref s res c) =
  match nextG (pstep f) f s [] with
  | PErr e lg => PErr e lg
  | POk None _ lg => POk None c lg
  | POk (Some t) s' lg =>
      if (kind t =? KRef)%N then
        match val t with
        | VBytes h =>
            match lookup_res res h with
            | RFail => PErr EFault lg
            | RDecline => POk (Some t) (PDeref s' res c) lg
            | RStream sub => POk None (PIterStream (PTokens sub PNil) (PDeref s' res c)) lg
            end
        | _ => PErr EPanic lg
        end
      else POk (Some t) (PDeref s' res c) lg
  end.
Proof. reflexivity. Qed.
Lemma pstep_decode f maxlen fault bs off c :
  pstep (S f) (PDecode maxlen fault bs off c) =
  match decode_step maxlen fault bs off with
  | SEnd => POk None c []
  | SErr e o => PErr e []
  | STok t r o => POk (Some t) (PDecode maxlen fault r o c) []
  end.
Proof. reflexivity. Qed.

(* ------------------------------------------------------------------ *)
(* fuel-independent behaviour                                          *)
(* ------------------------------------------------------------------ *)
(* the closure call has this result whenever it is given enough fuel *)
Definition stable (p : proc) (r : pres) : Prop :=
  exists k, forall fuel, k <= fuel -> pstep fuel p = r.

(* Proc.Next, given enough fuel (log relative to the call) *)
Inductive nxt : proc -> pres -> Prop :=
| NX_nil : nxt PNil (POk None PNil [])
| NX_err p e l : p <> PNil -> stable p (PErr e l) -> nxt p (PErr e l)
| NX_tok p t p' l : p <> PNil -> stable p (POk (Some t) p' l) -> nxt p (POk (Some t) p' l)
| NX_skip p p' l r : p <> PNil -> stable p (POk None p' l) -> nxt p' r -> nxt p (padd l r).

Lemma nxt_nextG p r : nxt p r ->
  exists n, forall f g lg, n <= f -> n <= g -> nextG (pstep f) g p lg = padd lg r.
Proof.
  induction 1 as [|p e l Hne [k Hk]|p t p' l Hne [k Hk]|p p' l r Hne [k Hk] Hn [n IH]].
  - exists 1. intros f g lg _ Hg. destruct g as [|g]; [lia|]. cbn [nextG padd]. now rewrite app_nil_r.
  - exists (S k). intros f g lg Hf Hg. destruct g as [|g]; [lia|].
    rewrite nextG_S by assumption. rewrite Hk by lia. reflexivity.
  - exists (S k). intros f g lg Hf Hg. destruct g as [|g]; [lia|].
    rewrite nextG_S by assumption. rewrite Hk by lia. reflexivity.
  - exists (S (k + n)). intros f g lg Hf Hg. destruct g as [|g]; [lia|].
    rewrite nextG_S by assumption. rewrite Hk by lia. rewrite IH by lia. now rewrite padd_padd.
Qed.

Lemma nxt_next p r : nxt p r ->
  exists n, forall fuel lg, n <= fuel -> next fuel p lg = padd lg r.
Proof.
  induction 1 as [|p e l Hne [k Hk]|p t p' l Hne [k Hk]|p p' l r Hne [k Hk] Hn [n IH]].
  - exists 1. intros g lg Hg. destruct g as [|g]; [lia|]. cbn [next padd]. now rewrite app_nil_r.
  - exists (S k). intros g lg Hg. destruct g as [|g]; [lia|].
    rewrite next_S by assumption. rewrite Hk by lia. reflexivity.
  - exists (S k). intros g lg Hg. destruct g as [|g]; [lia|].
    rewrite next_S by assumption. rewrite Hk by lia. reflexivity.
  - exists (S (k + n)). intros g lg Hg. destruct g as [|g]; [lia|].
    rewrite next_S by assumption. rewrite Hk by lia. rewrite IH by lia. now rewrite padd_padd.
Qed.

Lemma nxt_inner p r : nxt p r -> exists n, forall f, n <= f -> nextG (pstep f) f p [] = r.
Proof.
  intros H. destruct (nxt_nextG p r H) as [n Hn]. exists n. intros f Hf.
  rewrite Hn by lia. apply padd_nil.
Qed.

(* how the stream ends *)
Definition ends (e : eclass) (p : proc) : Prop :=
  (e = ENone /\ exists l, nxt p (POk None PNil l)) \/ (e <> ENone /\ exists l, nxt p (PErr e l)).

(* p yields exactly the tokens ts and then ends with e *)
Fixpoint behaves (ts : list token) (e : eclass) (p : proc) : Prop :=
  match ts with
  | [] => ends e p
  | t :: r => exists p' l, nxt p (POk (Some t) p' l) /\ behaves r e p'
  end.
Definition beh (d : list token * eclass) (p : proc) : Prop := behaves (fst d) (snd d) p.

Lemma beh_nil : behaves [] ENone PNil.
Proof. left. split; [reflexivity|]. exists []. constructor. Qed.

Lemma beh_skip p p' l ts e :
  p <> PNil -> stable p (POk None p' l) -> behaves ts e p' -> behaves ts e p.
Proof.
  intros Hne Hst H. destruct ts as [|t r]; cbn [behaves] in *.
  - destruct H as [[He [l0 H]]|[He [l0 H]]].
    + left. split; [assumption|]. exists (l ++ l0). exact (NX_skip _ _ _ _ Hne Hst H).
    + right. split; [assumption|]. exists (l ++ l0). exact (NX_skip _ _ _ _ Hne Hst H).
  - destruct H as (p'' & l0 & H & Hb). exists p'', (l ++ l0). split; [|exact Hb].
    exact (NX_skip _ _ _ _ Hne Hst H).
Qed.

Lemma beh_tok p p' l t ts e :
  p <> PNil -> stable p (POk (Some t) p' l) -> behaves ts e p' -> behaves (t :: ts) e p.
Proof. intros Hne Hst H. exists p', l. split; [now constructor|exact H]. Qed.

Lemma beh_err p e l : p <> PNil -> stable p (PErr e l) -> e <> ENone -> behaves [] e p.
Proof. intros Hne Hst He. right. split; [assumption|]. exists l. now constructor. Qed.

(* ---- seq_den ---- *)
Lemma seq_den_cons t ts e d :
  seq_den (t :: ts, e) d = (t :: fst (seq_den (ts, e) d), snd (seq_den (ts, e) d)).
Proof. unfold seq_den. cbn [fst snd]. destruct e; reflexivity. Qed.

Lemma seq_den_nil d : seq_den ([], ENone) d = d.
Proof. destruct d; reflexivity. Qed.

Lemma seq_den_err ts e d : e <> ENone -> seq_den (ts, e) d = (ts, e).
Proof. intros H. unfold seq_den. cbn [fst snd]. destruct e; try reflexivity. congruence. Qed.

Lemma seq_den_app a b e d : seq_den (a, ENone) (seq_den (b, e) d) = seq_den (a ++ b, e) d.
Proof. unfold seq_den. cbn [fst snd]. destruct e; cbn [fst snd]; rewrite ?app_assoc; reflexivity. Qed.

Lemma beh_cons t ts e d p :
  beh (seq_den (t :: ts, e) d) p <->
  exists p' l, nxt p (POk (Some t) p' l) /\ beh (seq_den (ts, e) d) p'.
Proof. rewrite seq_den_cons. unfold beh. cbn [fst snd behaves]. reflexivity. Qed.

Ltac stab H eqn :=
  let n := fresh "n" in let Hn := fresh "Hn" in let fuel := fresh "fuel" in let Hf := fresh "Hf" in
  destruct (nxt_inner _ _ H) as [n Hn]; exists (S n); intros fuel Hf;
  destruct fuel as [|fuel]; [lia|]; rewrite eqn, Hn by lia; try reflexivity.

(* ---- IterTokens ---- *)
Lemma beh_tokens ts c d : beh d c -> beh (seq_den (ts, ENone) d) (PTokens ts c).
Proof.
  intros Hc. induction ts as [|t ts IH].
  - rewrite seq_den_nil. eapply (beh_skip _ c []); [discriminate| |exact Hc].
    exists 1. intros fuel Hf. destruct fuel; [lia|reflexivity].
  - apply beh_cons. exists (PTokens ts c), []. split; [|exact IH].
    apply NX_tok; [discriminate|]. exists 1. intros fuel Hf. destruct fuel; [lia|reflexivity].
Qed.

Lemma behaves_tokens ts : behaves ts ENone (PTokens ts PNil).
Proof.
  pose proof (beh_tokens ts PNil ([], ENone) beh_nil) as H. unfold seq_den in H. cbn [fst snd] in H.
  unfold beh in H. cbn [fst snd] in H. now rewrite app_nil_r in H.
Qed.

(* ---- a failing source ---- *)
Lemma beh_fail e : e <> ENone -> behaves [] e (PFail e).
Proof.
  intros He. apply (beh_err _ e []); [discriminate| |exact He].
  exists 1. intros fuel Hf. destruct fuel; [lia|reflexivity].
Qed.

(* ---- IterStream ---- *)
Lemma beh_iter : forall ts e s c d, behaves ts e s -> beh d c -> beh (seq_den (ts, e) d) (PIterStream s c).
Proof.
  induction ts as [|t ts IH]; intros e s c d Hs Hc.
  - destruct Hs as [[-> [l H]]|[He [l H]]].
    + rewrite seq_den_nil. eapply (beh_skip _ c l); [discriminate| |exact Hc]. stab H pstep_iter.
    + rewrite seq_den_err by assumption. apply (beh_err _ e l); [discriminate| |exact He]. stab H pstep_iter.
  - destruct Hs as (s' & l & H & Hs'). apply beh_cons. exists (PIterStream s' c), l.
    split; [|now apply IH]. apply NX_tok; [discriminate|]. stab H pstep_iter.
Qed.

(* ---- Filter ---- *)
Lemma beh_filter pr : forall ts e s c d,
  behaves ts e s -> beh d c -> beh (seq_den (filter (holds pr) ts, e) d) (PFilter s pr c).
Proof.
  induction ts as [|t ts IH]; intros e s c d Hs Hc.
  - cbn [filter]. destruct Hs as [[-> [l H]]|[He [l H]]].
    + rewrite seq_den_nil. eapply (beh_skip _ c l); [discriminate| |exact Hc]. stab H pstep_filter.
    + rewrite seq_den_err by assumption. apply (beh_err _ e l); [discriminate| |exact He]. stab H pstep_filter.
  - destruct Hs as (s' & l & H & Hs'). cbn [filter]. destruct (holds pr t) eqn:Eh.
    + apply beh_cons. exists (PFilter s' pr c), l. split; [|now apply IH].
      apply NX_tok; [discriminate|]. stab H pstep_filter. now rewrite Eh.
    + eapply (beh_skip _ (PFilter s' pr c) l); [discriminate| |now apply IH].
      stab H pstep_filter. now rewrite Eh.
Qed.

(* ---- Concat ---- *)
Lemma beh_concat_cons : forall ts e s rest d,
  behaves ts e s -> beh d (pc rest) -> beh (seq_den (ts, e) d) (PConcat (s :: rest)).
Proof.
  induction ts as [|t ts IH]; intros e s rest d Hs Hc.
  - destruct Hs as [[-> [l H]]|[He [l H]]].
    + rewrite seq_den_nil. eapply (beh_skip _ (pc rest) l); [discriminate| |exact Hc]. stab H pstep_concat.
    + rewrite seq_den_err by assumption. apply (beh_err _ e l); [discriminate| |exact He]. stab H pstep_concat.
  - destruct Hs as (s' & l & H & Hs'). apply beh_cons. exists (PConcat (s' :: rest)), l.
    split; [|now apply IH]. apply NX_tok; [discriminate|]. stab H pstep_concat.
Qed.

Lemma beh_concat ss : Forall (fun s => beh (den s) s) ss -> beh (den (PConcat ss)) (PConcat ss).
Proof.
  induction 1 as [|s rest Hs Hrest IH].
  - cbn [den fold_right]. eapply (beh_skip _ PNil []); [discriminate| |exact beh_nil].
    exists 1. intros fuel Hf. destruct fuel; [lia|reflexivity].
  - cbn [den fold_right]. change (fold_right (fun s0 acc => seq_den (den s0) acc) ([], ENone) rest)
      with (den (PConcat rest)).
    destruct (den s) as [ts e] eqn:Ed. apply beh_concat_cons; [exact Hs|].
    destruct rest as [|s2 rest2]; [exact beh_nil|exact IH].
Qed.

(* ---- Deref ---- *)
Definition deref_den (res : list (bytes * resolution)) (ts : list token) (e : eclass) : list token * eclass :=
  let '(out, e') := deref_list res ts in (out, match e' with ENone => e | _ => e' end).

Lemma deref_den_pass res t ts e :
  deref_list res (t :: ts) = seq_den ([t], ENone) (deref_list res ts) ->
  deref_den res (t :: ts) e = (t :: fst (deref_den res ts e), snd (deref_den res ts e)).
Proof.
  intros H. unfold deref_den. rewrite H. destruct (deref_list res ts) as [out e']. reflexivity.
Qed.

Lemma beh_deref res : forall ts e s c d,
  behaves ts e s -> beh d c -> beh (seq_den (deref_den res ts e) d) (PDeref s res c).
Proof.
  induction ts as [|t ts IH]; intros e s c d Hs Hc.
  - unfold deref_den. cbn [deref_list]. destruct Hs as [[-> [l H]]|[He [l H]]].
    + rewrite seq_den_nil. eapply (beh_skip _ c l); [discriminate| |exact Hc]. stab H pstep_deref.
    + rewrite seq_den_err by assumption. apply (beh_err _ e l); [discriminate| |exact He]. stab H pstep_deref.
  - destruct Hs as (s' & l & H & Hs'). specialize (IH e s' c d Hs' Hc).
    assert (Hpass : deref_list res (t :: ts) = seq_den ([t], ENone) (deref_list res ts) ->
                    stable (PDeref s res c) (POk (Some t) (PDeref s' res c) l) ->
                    beh (seq_den (deref_den res (t :: ts) e) d) (PDeref s res c)).
    { intros E Hst. rewrite (deref_den_pass _ _ _ _ E).
      destruct (deref_den res ts e) as [out e2]. cbn [fst snd].
      apply beh_cons. exists (PDeref s' res c), l. split; [|exact IH]. apply NX_tok; [discriminate|exact Hst]. }
    destruct (kind t =? KRef)%N eqn:Ek.
    + destruct (val t) as [| | | | | | | |h] eqn:Ev;
        try (unfold deref_den; cbn [deref_list]; rewrite Ek, Ev; rewrite seq_den_err by discriminate;
             apply (beh_err _ EPanic l); [discriminate| |discriminate]; stab H pstep_deref; now rewrite Ek, Ev).
      destruct (lookup_res res h) as [sub| |] eqn:El.
      * (* the reference is replaced by the resolved stream *)
        eapply (beh_skip _ (PIterStream (PTokens sub PNil) (PDeref s' res c)) l); [discriminate| |].
        { stab H pstep_deref. now rewrite Ek, Ev, El. }
        pose proof (beh_iter sub ENone (PTokens sub PNil) (PDeref s' res c) _ (behaves_tokens sub) IH) as Hi.
        unfold deref_den in *. cbn [deref_list]. rewrite Ek, Ev, El.
        destruct (deref_list res ts) as [out e']. unfold seq_den at 2. cbn [fst snd].
        rewrite seq_den_app in Hi. exact Hi.
      * apply Hpass.
        { cbn [deref_list]. now rewrite Ek, Ev, El. }
        stab H pstep_deref. now rewrite Ek, Ev, El.
      * unfold deref_den. cbn [deref_list]. rewrite Ek, Ev, El. rewrite seq_den_err by discriminate.
        apply (beh_err _ EFault l); [discriminate| |discriminate]. stab H pstep_deref. now rewrite Ek, Ev, El.
    + apply Hpass.
      { cbn [deref_list]. now rewrite Ek. }
      stab H pstep_deref. now rewrite Ek.
Qed.

(* ---- Tee with recording side sinks ---- *)
Definition tsk (k : sink) : Prop := match k with SRec _ _ | SDiscard => True | _ => False end.

Lemma feed_tsk s t : tsk s ->
  is_nil s = false /\ exists s' lg, feed s t = FOk s' lg /\ (is_nil s' = false -> tsk s') /\
                                   (t = None -> is_nil s' = true).
Proof.
  destruct s as [|id l| | | | | |]; cbn [tsk]; try (intros []; fail); intros _; (split; [reflexivity|]).
  - destruct t as [t|].
    + rewrite feed_rec. eexists; eexists. split; [reflexivity|]. split; [|discriminate].
      destruct (life_after l); [intros _; exact I|discriminate].
    + eexists; eexists. split; [reflexivity|]. split; [discriminate|reflexivity].
  - destruct t as [t|]; eexists; eexists; (split; [reflexivity|]).
    + split; [intros _; exact I|discriminate].
    + split; [discriminate|reflexivity].
Qed.

Lemma tee_pass_S f t done s rest lg :
  tee_pass (S f) t done (s :: rest) lg =
  if is_nil s then inr (EPanic, lg)
  else match feed s t with
       | FErr e lg' => inr (e, lg ++ lg')
       | FOk s' lg' =>
           if is_nil s' then tee_pass f t done (swapl rest) (lg ++ lg')
           else tee_pass f t (done ++ [s']) rest (lg ++ lg')
       end.
Proof. reflexivity. Qed.

Lemma tee_pass_tsk t : forall fuel done todo lg,
  length todo < fuel -> Forall tsk todo ->
  exists out lg', tee_pass fuel t done todo lg = inl (out, lg') /\
    (Forall tsk done -> Forall tsk out) /\ (t = None -> out = done).
Proof.
  induction fuel as [|f IH]; intros done todo lg Hf Hs; [lia|].
  destruct todo as [|s rest].
  - exists done, lg. cbn [tee_pass]. auto.
  - rewrite tee_pass_S. inversion Hs as [|? ? Hs1 Hs2]; subst.
    destruct (feed_tsk s t Hs1) as (En & s' & lg0 & Ef & Ht & Hn). rewrite En, Ef.
    destruct (is_nil s') eqn:En'.
    + destruct (IH done (swapl rest) (lg ++ lg0)) as (out & lg' & E & H1 & H2).
      * rewrite swapl_length. cbn [length] in Hf. lia.
      * eapply Permutation_Forall; [symmetry; apply swapl_perm|assumption].
      * exists out, lg'. auto.
    + destruct (IH (done ++ [s']) rest (lg ++ lg0)) as (out & lg' & E & H1 & H2);
        [cbn [length] in Hf; lia|assumption|].
      exists out, lg'. split; [exact E|]. split.
      * intros Hd. apply H1. apply Forall_app. split; [assumption|]. constructor; [now apply Ht|constructor].
      * intros ->. discriminate (Hn eq_refl).
Qed.

Lemma beh_tee : forall ts e s sinks c d,
  behaves ts e s -> Forall tsk sinks -> beh d c -> beh (seq_den (ts, e) d) (PTee s sinks c).
Proof.
  induction ts as [|t ts IH]; intros e s sinks c d Hs Hk Hc.
  - destruct Hs as [[-> [l H]]|[He [l H]]].
    + rewrite seq_den_nil.
      destruct (tee_pass_tsk None (S (length sinks)) [] sinks l (Nat.lt_succ_diag_r _) Hk)
        as (out & lg' & E & _ & Hout). rewrite (Hout eq_refl) in E.
      eapply (beh_skip _ c lg'); [discriminate| |exact Hc]. stab H pstep_tee. now rewrite E.
    + rewrite seq_den_err by assumption. apply (beh_err _ e l); [discriminate| |exact He]. stab H pstep_tee.
  - destruct Hs as (s' & l & H & Hs').
    destruct (tee_pass_tsk (Some t) (S (length sinks)) [] sinks l (Nat.lt_succ_diag_r _) Hk)
      as (out & lg' & E & Hout & _).
    apply beh_cons. exists (PTee s' out c), lg'. split.
    + apply NX_tok; [discriminate|]. stab H pstep_tee. now rewrite E.
    + apply IH; [assumption|apply Hout; constructor|assumption].
Qed.

(* ---- the decoder as a source ---- *)
Lemma step_err_not_none maxlen fault bs off e o :
  decode_step maxlen fault bs off = SErr e o -> e <> ENone.
Proof.
  assert (Hend : forall f, end_err f <> ENone) by (intros [|]; discriminate).
  unfold decode_step. destruct bs as [|k r].
  - destruct fault; cbn iota; [|discriminate]. intros [= <- _]. discriminate.
  - cbv zeta. destruct (fixed_kind k) as [[n mk]|]; cbn iota.
    + destruct (takeN n r) as [[img r']|]; cbn iota; [discriminate|]. intros [= <- _]. apply Hend.
    + destruct (is_str_kind k || is_bytes_kind k); cbn iota.
      * destruct (read_len maxlen fault (is_str_kind k) r (off + 1)) as [len r' o1|e1 o1] eqn:El; cbn iota.
        { destruct (takeN len r') as [[pl r'']|]; cbn iota; [discriminate|]. intros [= <- _]. apply Hend. }
        intros [= <- _]. revert El. unfold read_len. destruct r as [|b r2]; cbn iota.
        { intros [= <- _]. apply Hend. }
        cbv zeta. destruct (b <? 128)%N; cbn iota.
        { destruct (maxlen <? b)%N; cbn iota; [|discriminate]. intros [= <- _].
          destruct (is_str_kind k); discriminate. }
        destruct (8 <? compl8 b)%N; cbn iota.
        { intros [= <- _]. destruct (is_str_kind k); discriminate. }
        destruct (takeN (compl8 b) r2) as [[u r']|]; cbn iota.
        { destruct (read_uvarint u) as [len| | |]; cbn iota; try (intros [= <- _]; discriminate).
          destruct (maxlen <? len)%N; cbn iota; [|discriminate]. intros [= <- _].
          destruct (is_str_kind k); discriminate. }
        intros [= <- _]. apply Hend.
      * destruct (is_valueless_kind k); cbn iota; [discriminate|]. intros [= <- _]. discriminate.
Qed.

Lemma beh_decode maxlen fault c d : beh d c -> forall n bs off, length bs < n ->
  beh (let '(ts, dd) := decode_all n maxlen fault bs off in seq_den (ts, dend_class dd) d)
      (PDecode maxlen fault bs off c).
Proof.
  intros Hc. induction n as [|n IH]; intros bs off Hn; [lia|].
  rewrite decode_all_S. destruct (decode_step maxlen fault bs off) as [|t r o|e o] eqn:Es.
  - cbn [dend_class]. rewrite seq_den_nil. eapply (beh_skip _ c []); [discriminate| |exact Hc].
    exists 1. intros fuel Hf. destruct fuel; [lia|]. now rewrite pstep_decode, Es.
  - pose proof (step_shrinks _ _ _ _ _ _ _ Es) as Hlen.
    specialize (IH r o ltac:(lia)). destruct (decode_all n maxlen fault r o) as [ts dd].
    apply beh_cons. exists (PDecode maxlen fault r o c), []. split; [|exact IH].
    apply NX_tok; [discriminate|]. exists 1. intros fuel Hf. destruct fuel; [lia|]. now rewrite pstep_decode, Es.
  - pose proof (step_err_not_none _ _ _ _ _ _ Es) as He. cbn [dend_class].
    rewrite seq_den_err by assumption. apply (beh_err _ e []); [discriminate| |exact He].
    exists 1. intros fuel Hf. destruct fuel; [lia|]. now rewrite pstep_decode, Es.
Qed.

(* ------------------------------------------------------------------ *)
(* structural induction on stream terms                                *)
(* ------------------------------------------------------------------ *)
Section proc_ind2.
  Variable P : proc -> Prop.
  Hypothesis HNil : P PNil.
  Hypothesis HTok : forall ts c, P c -> P (PTokens ts c).
  Hypothesis HFail : forall e, P (PFail e).
  Hypothesis HIter : forall s c, P s -> P c -> P (PIterStream s c).
  Hypothesis HTee : forall s k c, P s -> P c -> P (PTee s k c).
  Hypothesis HConcat : forall ss, Forall P ss -> P (PConcat ss).
  Hypothesis HFilter : forall s pr c, P s -> P c -> P (PFilter s pr c).
  Hypothesis HDeref : forall s r c, P s -> P c -> P (PDeref s r c).
  Hypothesis HDecode : forall m f bs off c, P c -> P (PDecode m f bs off c).
  Fixpoint proc_ind2 (p : proc) : P p :=
    match p with
    | PNil => HNil
    | PTokens ts c => HTok ts c (proc_ind2 c)
    | PFail e => HFail e
    | PIterStream s c => HIter s c (proc_ind2 s) (proc_ind2 c)
    | PTee s k c => HTee s k c (proc_ind2 s) (proc_ind2 c)
    | PConcat ss =>
        HConcat ss ((fix go (l : list proc) : Forall P l :=
                       match l with [] => Forall_nil _ | x :: r => Forall_cons _ (proc_ind2 x) (go r) end) ss)
    | PFilter s pr c => HFilter s pr c (proc_ind2 s) (proc_ind2 c)
    | PDeref s r c => HDeref s r c (proc_ind2 s) (proc_ind2 c)
    | PDecode m f bs off c => HDecode m f bs off c (proc_ind2 c)
    end.
End proc_ind2.

(* a failing source really fails: its error is not the nil error *)
Definition is_none (e : eclass) : bool := match e with ENone => true | _ => false end.
Fixpoint real_faults (p : proc) : bool :=
  match p with
  | PNil => true
  | PFail e => negb (is_none e)
  | PTokens _ c => real_faults c
  | PIterStream s c => real_faults s && real_faults c
  | PTee s _ c => real_faults s && real_faults c
  | PConcat ss => forallb real_faults ss
  | PFilter s _ c => real_faults s && real_faults c
  | PDeref s _ c => real_faults s && real_faults c
  | PDecode _ _ _ _ c => real_faults c
  end.

Lemma den_deref s res c :
  den (PDeref s res c) = seq_den (deref_den res (fst (den s)) (snd (den s))) (den c).
Proof.
  cbn [den]. unfold deref_den. destruct (den s) as [ts e]. cbn [fst snd].
  destruct (deref_list res ts) as [out e']. reflexivity.
Qed.

(* every tame term behaves as its denotation says *)
Theorem beh_den p : tame p = true -> real_faults p = true -> beh (den p) p.
Proof.
  induction p as [|ts c IHc|e|s c IHs IHc|s k c IHs IHc|ss IHss|s pr c IHs IHc|s r c IHs IHc|m f bs off c IHc]
    using proc_ind2; cbn [tame real_faults]; intros Ht Hr.
  - exact beh_nil.
  - cbn [den]. apply beh_tokens. now apply IHc.
  - cbn [den]. apply beh_fail. destruct e; try discriminate.
  - apply andb_prop in Ht. apply andb_prop in Hr. destruct Ht as [Ht1 Ht2], Hr as [Hr1 Hr2].
    cbn [den]. specialize (IHs Ht1 Hr1). destruct (den s) as [ts e]. apply beh_iter; [exact IHs|now apply IHc].
  - apply andb_prop in Ht. destruct Ht as [Ht Htk]. apply andb_prop in Ht.
    apply andb_prop in Hr. destruct Ht as [Ht1 Ht2], Hr as [Hr1 Hr2].
    cbn [den]. specialize (IHs Ht1 Hr1). destruct (den s) as [ts e]. apply beh_tee; [exact IHs| |now apply IHc].
    rewrite forallb_forall in Htk. apply Forall_forall. intros x Hx. specialize (Htk x Hx).
    destruct x; try discriminate Htk; exact I.
  - apply beh_concat. rewrite forallb_forall in Ht, Hr. rewrite Forall_forall in IHss.
    apply Forall_forall. intros x Hx. apply IHss; auto.
  - apply andb_prop in Ht. apply andb_prop in Hr. destruct Ht as [Ht1 Ht2], Hr as [Hr1 Hr2].
    cbn [den]. specialize (IHs Ht1 Hr1). destruct (den s) as [ts e]. apply beh_filter; [exact IHs|now apply IHc].
  - apply andb_prop in Ht. apply andb_prop in Hr. destruct Ht as [Ht1 Ht2], Hr as [Hr1 Hr2].
    rewrite den_deref. apply beh_deref; [exact (IHs Ht1 Hr1)|now apply IHc].
  - cbn [den]. apply (beh_decode m f c (den c) (IHc Ht Hr) (S (length bs)) bs off). lia.
Qed.

Lemma behaves_run : forall ts e p, behaves ts e p ->
  exists n, forall fuel, n <= fuel -> exists lg, run fuel p = (ts, e, lg).
Proof.
  induction ts as [|t ts IH]; intros e p H.
  - destruct H as [[-> [l H]]|[He [l H]]]; destruct (nxt_next _ _ H) as [n Hn]; exists (S n);
      intros fuel Hf; (destruct fuel as [|fuel]; [lia|]); cbn [run]; rewrite Hn by lia; cbn [padd app];
      exists l; reflexivity.
  - destruct H as (p' & l & H & Hb). destruct (nxt_next _ _ H) as [n Hn].
    destruct (IH e p' Hb) as [n' Hn']. exists (S (n + n')). intros fuel Hf.
    destruct fuel as [|fuel]; [lia|]. cbn [run]. rewrite Hn by lia. cbn [padd app].
    destruct (Hn' fuel ltac:(lia)) as [lg' E]. rewrite E. eexists. reflexivity.
Qed.

(* ================================================================== *)
(* I. running a stream term yields its denotation                      *)
(* ================================================================== *)
(* The statement with [tame p] alone is false: a "failing" source whose error is the nil
   error (PFail ENone) stops the run while the denotation continues with the continuation. *)
Theorem run_den_refuted :
  exists p, tame p = true /\ forall fuel, 3 <= fuel ->
    let '(ts, e, _) := run fuel p in (ts, e) <> den p.
Proof.
  exists (PIterStream (PFail ENone) (PTokens [T KNil VNone] PNil)). split; [reflexivity|].
  intros fuel Hf. destruct fuel as [|[|[|f]]]; try lia. cbn. discriminate.
Qed.

Theorem run_den_partial p : tame p = true -> real_faults p = true ->
  exists n, forall fuel, n <= fuel ->
    let '(ts, e, _) := run fuel p in (ts, e) = den p.
Proof.
  intros Ht Hr. pose proof (beh_den p Ht Hr) as H. unfold beh in H.
  destruct (behaves_run _ _ _ H) as [n Hn]. exists n. intros fuel Hf.
  destruct (Hn fuel Hf) as [lg E]. rewrite E. now destruct (den p).
Qed.

Example run_den_ex :
  let t1 := T KBool (VBool true) in let t2 := T KNil VNone in
  let r := T KRef (VBytes [1%N]) in
  let p := PTee (PConcat [PFilter (PTokens [t1; t2; t1] PNil) (PKindIn [KBool]) PNil;
                           PDeref (PTokens [t2; r; t2] PNil) [([1%N], RStream [t1; t1])] PNil;
                           PDecode 10 false [30%N; 40%N; 1%N] 0 (PTokens [t2] (PFail EFault))])
                [SRec 1 (Fin 2); SRec 2 ToEnd] PNil in
  tame p = true /\ real_faults p = true /\
  (let (x, _) := run 20 p in x) = den p /\
  den p = ([t1; t1; t2; t1; t1; t2; t2; t1; t2], EFault).
Proof. vm_compute. repeat split. Qed.

(* ---- corollaries: the combinators are transparent ---- *)
Theorem tee_transparent s sinks : den (PTee s sinks PNil) = den s.
Proof.
  cbn [den]. unfold seq_den. cbn [fst snd]. destruct (den s) as [ts e]. cbn [fst snd].
  destruct e; try reflexivity. now rewrite app_nil_r.
Qed.

Theorem iter_stream_transparent s : den (PIterStream s PNil) = den s.
Proof.
  cbn [den]. unfold seq_den. cbn [fst snd]. destruct (den s) as [ts e]. cbn [fst snd].
  destruct e; try reflexivity. now rewrite app_nil_r.
Qed.

Theorem iter_stream_then s c : den (PIterStream s c) = seq_den (den s) (den c).
Proof. reflexivity. Qed.

Theorem concat_is_concat ss :
  den (PConcat ss) = fold_right (fun s acc => seq_den (den s) acc) ([], ENone) ss.
Proof. reflexivity. Qed.

Theorem concat_tokens tss :
  den (PConcat (map (fun ts => PTokens ts PNil) tss)) = (concat tss, ENone).
Proof.
  induction tss as [|ts tss IH]; [reflexivity|].
  cbn [map]. rewrite concat_is_concat. cbn [fold_right]. rewrite <- concat_is_concat, IH.
  cbn [den]. unfold seq_den. cbn [fst snd concat]. now rewrite app_nil_r.
Qed.

Theorem filter_is_filter ts p : den (PFilter (PTokens ts PNil) p PNil) = (filter (holds p) ts, ENone).
Proof.
  cbn [den]. unfold seq_den. cbn [fst snd]. rewrite app_nil_r. cbn [fst snd]. now rewrite app_nil_r.
Qed.

(* and operationally, e.g. for Tee with recording side sinks *)
Corollary run_tee_transparent s sinks :
  tame (PTee s sinks PNil) = true -> real_faults s = true ->
  exists n, forall fuel, n <= fuel ->
    let '(ts, e, _) := run fuel (PTee s sinks PNil) in (ts, e) = den s.
Proof.
  intros Ht Hr. rewrite <- (tee_transparent s sinks). apply run_den_partial; [exact Ht|].
  cbn [real_faults]. now rewrite Hr.
Qed.

(* ================================================================== *)
(* J. faults (C15)                                                     *)
(* ================================================================== *)
Lemma enone_dec e : {e = ENone} + {e <> ENone}.
Proof. destruct e; (left; reflexivity) || (right; discriminate). Qed.

Lemma seq_den_clean ts d : seq_den (ts, ENone) d = (ts ++ fst d, snd d).
Proof. reflexivity. Qed.

Lemma seq_den_fst_prefix a b : exists y, fst (seq_den a b) = fst a ++ y.
Proof.
  destruct a as [ta ea]. destruct (enone_dec ea) as [->|He].
  - rewrite seq_den_clean. now exists (fst b).
  - rewrite seq_den_err by assumption. exists []. cbn [fst]. now rewrite app_nil_r.
Qed.

(* a' is the fault-free version of a *)
Definition hp (a a' : list token * eclass) : Prop :=
  (snd a = ENone -> a = a') /\ is_prefix (fst a) (fst a').

Lemma hp_refl a : hp a a.
Proof. split; [reflexivity|]. exists []. now rewrite app_nil_r. Qed.

Lemma hp_seq a a' b b' : hp a a' -> hp b b' -> hp (seq_den a b) (seq_den a' b').
Proof.
  intros [Ha1 [x Ha2]] [Hb1 [y Hb2]]. destruct a as [ta ea]. cbn [fst snd] in *.
  destruct (enone_dec ea) as [->|He].
  - rewrite <- (Ha1 eq_refl). rewrite !seq_den_clean. split.
    + cbn [snd]. intros H. now rewrite (Hb1 H).
    + cbn [fst]. exists y. rewrite Hb2. now rewrite app_assoc.
  - rewrite seq_den_err by assumption. split.
    + cbn [snd]. intros H. congruence.
    + cbn [fst]. destruct (seq_den_fst_prefix a' b') as [z Hz]. exists (x ++ z).
      rewrite Hz, Ha2. now rewrite app_assoc.
Qed.

Lemma hp_filter pr ts e ts' e' :
  hp (ts, e) (ts', e') -> hp (filter (holds pr) ts, e) (filter (holds pr) ts', e').
Proof.
  intros [H1 [x H2]]. cbn [fst snd] in *. split.
  - cbn [snd]. intros H. specialize (H1 H). now injection H1 as -> ->.
  - cbn [fst]. exists (filter (holds pr) x). rewrite H2. apply filter_app.
Qed.

Lemma deref_list_app res : forall a b,
  deref_list res (a ++ b) = seq_den (deref_list res a) (deref_list res b).
Proof.
  induction a as [|t a IH]; intros b.
  - cbn [app deref_list]. now rewrite seq_den_nil.
  - cbn [app deref_list]. rewrite IH.
    assert (Hassoc : forall x, seq_den (x, ENone) (seq_den (deref_list res a) (deref_list res b))
                     = seq_den (seq_den (x, ENone) (deref_list res a)) (deref_list res b)).
    { intros x. destruct (deref_list res a) as [out e1]. rewrite seq_den_app. reflexivity. }
    destruct (kind t =? KRef)%N; [|apply Hassoc].
    destruct (val t) as [| | | | | | | |h]; try (rewrite seq_den_err by discriminate; reflexivity).
    destruct (lookup_res res h) as [sub| |]; [apply Hassoc|apply Hassoc|].
    rewrite seq_den_err by discriminate. reflexivity.
Qed.

Lemma deref_den_snd res ts e :
  snd (deref_den res ts e) = ENone -> snd (deref_list res ts) = ENone /\ e = ENone.
Proof.
  unfold deref_den. destruct (deref_list res ts) as [out e1]. cbn [snd].
  destruct (enone_dec e1) as [->|He]; [auto|]. destruct e1; try congruence; discriminate.
Qed.

Lemma hp_deref res ts e ts' e' :
  hp (ts, e) (ts', e') -> hp (deref_den res ts e) (deref_den res ts' e').
Proof.
  intros [H1 [x H2]]. cbn [fst snd] in *. split.
  - intros H. apply deref_den_snd in H. destruct H as [_ He]. specialize (H1 He). now injection H1 as -> ->.
  - subst ts'. unfold deref_den. rewrite deref_list_app.
    destruct (seq_den_fst_prefix (deref_list res ts) (deref_list res x)) as [z Hz].
    destruct (deref_list res ts) as [out e1].
    destruct (seq_den (out, e1) (deref_list res x)) as [out2 e2]. cbn [fst] in *. now exists z.
Qed.

Lemma heal_hp p : hp (den p) (den (heal p)).
Proof.
  induction p as [|ts c IHc|e|s c IHs IHc|s k c IHs IHc|ss IHss|s pr c IHs IHc|s r c IHs IHc|m f bs off c IHc]
    using proc_ind2; cbn [heal].
  - apply hp_refl.
  - cbn [den]. apply hp_seq; [apply hp_refl|exact IHc].
  - cbn [den]. split; [cbn [snd]; now intros ->|]. now exists [].
  - cbn [den]. now apply hp_seq.
  - cbn [den]. now apply hp_seq.
  - induction IHss as [|s rest Hs Hrest IH]; [apply hp_refl|].
    cbn [map den fold_right] in *. apply hp_seq; [exact Hs|exact IH].
  - cbn [den]. destruct (den s) as [ts e], (den (heal s)) as [ts' e'].
    apply hp_seq; [now apply hp_filter|exact IHc].
  - rewrite !den_deref. apply hp_seq; [|exact IHc].
    destruct (den s) as [ts e], (den (heal s)) as [ts' e']. now apply hp_deref.
  - cbn [den]. destruct (decode_all (S (length bs)) m f bs off) as [ts d].
    apply hp_seq; [apply hp_refl|exact IHc].
Qed.

(* what a faulty stream delivers is a prefix of the fault-free stream *)
Theorem den_fault_prefix p : is_prefix (fst (den p)) (fst (den (heal p))).
Proof. exact (proj2 (heal_hp p)). Qed.

(* a fault is never turned into a clean end of stream *)
Theorem den_clean_means_no_fault p : snd (den p) = ENone -> den p = den (heal p).
Proof. exact (proj1 (heal_hp p)). Qed.

Example den_fault_ex :
  let t1 := T KBool (VBool true) in let t2 := T KNil VNone in
  let p := PConcat [PFilter (PTokens [t1; t2] (PFail EFault)) (PKindIn [KBool]) (PTokens [t2] PNil);
                    PTokens [t1] PNil] in
  den p = ([t1], EFault) /\ den (heal p) = ([t1; t2; t1], ENone).
Proof. vm_compute. split; reflexivity. Qed.

(* ---- every combinator context propagates a source error ---- *)
Lemma seq_den_propagates a b e :
  snd a = e -> e <> ENone -> seq_den a b = (fst a, e).
Proof. intros H He. destruct a as [ta ea]. cbn [fst snd] in *. subst ea. now apply seq_den_err. Qed.

Theorem den_fail_iter s c e :
  snd (den s) = e -> e <> ENone -> den (PIterStream s c) = (fst (den s), e).
Proof. intros H He. cbn [den]. now apply seq_den_propagates. Qed.

Theorem den_fail_tee s k c e :
  snd (den s) = e -> e <> ENone -> den (PTee s k c) = (fst (den s), e).
Proof. intros H He. cbn [den]. now apply seq_den_propagates. Qed.

Theorem den_fail_filter s pr c e :
  snd (den s) = e -> e <> ENone -> den (PFilter s pr c) = (filter (holds pr) (fst (den s)), e).
Proof.
  intros H He. cbn [den]. destruct (den s) as [ts e0]. cbn [fst snd] in *. subst e0. now apply seq_den_err.
Qed.

Theorem den_fail_tokens ts c e :
  snd (den c) = e -> snd (den (PTokens ts c)) = e.
Proof. intros H. cbn [den]. rewrite seq_den_clean. exact H. Qed.

(* ConcatStreams: the first failing element ends the concatenation with its error *)
Theorem den_fail_concat pre s post e :
  Forall (fun a => snd (den a) = ENone) pre -> snd (den s) = e -> e <> ENone ->
  den (PConcat (pre ++ s :: post)) = (flat_map (fun a => fst (den a)) pre ++ fst (den s), e).
Proof.
  intros Hpre H He. induction Hpre as [|a pre Ha Hpre IH].
  - cbn [app den fold_right flat_map]. now apply seq_den_propagates.
  - cbn [app den fold_right flat_map] in *. rewrite IH.
    destruct (den a) as [ta ea]. cbn [fst snd] in *. subst ea. rewrite seq_den_clean. cbn [fst snd].
    now rewrite app_assoc.
Qed.

(* Deref: the source's error, unless a resolver failed earlier *)
Theorem den_fail_deref s res c e :
  snd (den s) = e -> e <> ENone -> snd (deref_list res (fst (den s))) = ENone ->
  den (PDeref s res c) = (fst (deref_list res (fst (den s))), e).
Proof.
  intros H He Hd. rewrite den_deref. unfold deref_den.
  destruct (deref_list res (fst (den s))) as [out e1]. cbn [fst snd] in *. subst e1. rewrite H.
  now apply seq_den_err.
Qed.

Theorem den_fail_deref_any s res c :
  snd (den s) <> ENone -> snd (den (PDeref s res c)) <> ENone.
Proof.
  intros He. rewrite den_deref. unfold deref_den.
  destruct (deref_list res (fst (den s))) as [out e1].
  destruct (enone_dec e1) as [->|He1].
  - rewrite seq_den_err by assumption. exact He.
  - assert (E : match e1 with ENone => snd (den s) | _ => e1 end = e1) by (destruct e1; congruence).
    rewrite E, seq_den_err by assumption. exact He1.
Qed.

(* and operationally: running a tame term with a failing source reports that error *)
Corollary run_fail_propagates p e :
  tame p = true -> real_faults p = true -> snd (den p) = e ->
  exists n, forall fuel, n <= fuel -> snd (fst (run fuel p)) = e.
Proof.
  intros Ht Hr He. destruct (run_den_partial p Ht Hr) as [n Hn]. exists n. intros fuel Hf.
  specialize (Hn fuel Hf). destruct (run fuel p) as [[ts e0] lg]. cbn [fst snd]. rewrite <- He, <- Hn. reflexivity.
Qed.

Print Assumptions run_den_partial.
Print Assumptions run_den_refuted.
Print Assumptions den_fault_prefix.
Print Assumptions den_clean_means_no_fault.
Print Assumptions den_fail_concat.
Print Assumptions den_fail_deref.
Print Assumptions run_fail_propagates.
