(* Proofs/UnmarshalPathsP.v — properties of the unmarshal model with explicit context paths
   (Model/UnmarshalPaths.v, C17):
     unmp_erase            forgetting paths and log gives the pure model [unm] back;
     unmp_shift            paths are relative to the context: a longer context path prefixes every
                           reported path;
     unmp_paths_extend     every tap path and the error path extend the context path;
     unmp_first_tap        the first tap is the call itself;
     unmp_roundtrip_paths  reading the canonical stream of a value back reports exactly the element
                           paths of Spec/UnmarshalPathsSpec.v. *)
From Coq Require Import Lia ZifyBool ZifyNat ZifyN Arith.
From SbModel Require Import Spec.UnmarshalPathsSpec Proofs.UnmarshalP.
Local Open Scope N_scope.

(* ====================================================================================== *)
(* Part 0.  One unfolding of [unmp]: the loops as top-level fixpoints over the recursive   *)
(*          call [prec] and the context path [p] (a section variable, as in the model the  *)
(*          loops capture it).  [unmp_S] is proved by [reflexivity]; everything afterwards  *)
(*          only uses [unmp_S], [unmp_O] and treats [unmp] as opaque.                      *)
(* ====================================================================================== *)

Definition prec_t := ty -> gval -> list token -> path -> pr (gval * list token).

Section PStep.
Variable pf : bytes -> N -> option N.
Variable o : copts.
Variable R : registry.
Variable prec : prec_t.
Variable p : path.

Fixpoint parr_loop (g : nat) (et : ty) (items : list gval) (idx : nat) (ts : list token) : pr (list gval * list token) :=
  match g with
  | O => pfuel
  | S g' =>
    let ep := p ++ [PIdx (Z.of_nat idx)] in
    match ts with
    | tk :: rest =>
        if kind tk =? KArrayEnd then pok (items, rest)
        else if Nat.leb (length items) idx then perr ETooMany p
        else pbind (prec et (nth idx items (zero et)) ts ep) (fun r =>
             parr_loop g' et (set_nth idx (fst r) items) (S idx) (snd r))
    | [] =>
        if Nat.leb (length items) idx then perr ETooMany p
        else pbind (prec et (nth idx items (zero et)) [] ep) (fun _ => perr EEnd ep)
    end
  end.

Fixpoint pslice_loop (g : nat) (et : ty) (acc : list gval) (ts : list token) : pr (list gval * list token) :=
  match g with
  | O => pfuel
  | S g' =>
    let ep := p ++ [PIdx (Z.of_nat (length acc))] in
    match ts with
    | [] => pbind (prec et (zero et) [] ep) (fun _ => perr EEnd ep)
    | tk :: rest =>
        if kind tk =? KArrayEnd then pok (acc, rest)
        else pbind (prec et (zero et) ts ep) (fun r => pslice_loop g' et (acc ++ [fst r]) (snd r))
    end
  end.

Fixpoint pstruct_loop (g : nat) (fs : list (bytes * bool * ty)) (depr : list bytes) (vals : list gval) (ts : list token)
  : pr (list gval * list token) :=
  match g with
  | O => pfuel
  | S g' =>
    match ts with
    | [] => perr EEnd p
    | tk :: rest =>
        if kind tk =? KObjectEnd then pok (vals, rest)
        else pbind (prec TString (GStr []) ts p) (fun nr =>
             let name := match fst nr with GStr s => s | _ => [] end in
             match find_field name fs 0 with
             | Some (i, ft) =>
                 pbind (prec ft (nth i vals (zero ft)) (snd nr) (p ++ [PStr name])) (fun r =>
                 pstruct_loop g' fs depr (set_nth i (fst r) vals) (snd r))
             | None =>
                 if strict o && negb (existsb (bytes_eqb name) depr) then perr EUnknownField p
                 else pbind (plift (p ++ [PStr name]) (skip_value 0 (snd nr))) (fun rest' => pstruct_loop g' fs depr vals rest')
             end)
    end
  end.

Fixpoint pnewstruct_loop (g : nat) (fs : list (bytes * bool * ty)) (vals : list gval) (ts : list token)
  : pr (gval * list token) :=
  match g with
  | O => pfuel
  | S g' =>
    match ts with
    | [] => perr EEnd p
    | tk :: rest =>
        if kind tk =? KObjectEnd then pok (GAny (Some (TStruct fs, GStruct vals)), rest)
        else pbind (prec TString (GStr []) ts p) (fun nr =>
             let name := match fst nr with GStr s => s | _ => [] end in
             if negb (is_exported_ident name) then perr EBadField p
             else if existsb (fun fd => bytes_eqb (fname fd) name) fs then perr EDupField p
             else pbind (prec TAny (GAny None) (snd nr) (p ++ [PStr name])) (fun r =>
                  match fst r with
                  | GAny (Some (vt, v)) => pnewstruct_loop g' (fs ++ [(name, true, vt)]) (vals ++ [v]) (snd r)
                  | _ => perr EEnd p
                  end))
    end
  end.

Fixpoint pmap_loop (g : nat) (kt vt : ty) (isnil : bool) (m : list (gval * gval)) (ts : list token)
  : pr (gval * list token) :=
  match g with
  | O => pfuel
  | S g' =>
    match ts with
    | [] => pbind (prec kt (zero kt) [] p) (fun _ => perr EEnd p)
    | tk :: rest =>
        if kind tk =? KMapEnd then pok (GMap isnil m, rest)
        else pbind (prec kt (zero kt) ts p) (fun kr =>
             let key := iface_key kt (fst kr) in
             if negb (comparable_val key) then perr EBadMapKey p
             else
             pbind (prec vt (zero vt) (snd kr) (p ++ [key_elem kt key])) (fun vr =>
             pmap_loop g' kt vt false (map_set key (fst vr) m) (snd vr)))
    end
  end.

Fixpoint pgenmap_loop (g : nat) (m : list (gval * gval)) (ts : list token) : pr (gval * list token) :=
  match g with
  | O => pfuel
  | S g' =>
    match ts with
    | [] => perr EEnd p
    | tk :: rest =>
        if kind tk =? KMapEnd then pok (GAny (Some (TMap TAny TAny, GMap false m)), rest)
        else pbind (prec TAny (GAny None) ts p) (fun kr =>
             let key := to_comparable (fst kr) in
             match key with
             | GAny None => perr EBadMapKey p
             | GAny (Some (kt, kv)) =>
                 if negb (comparable_ty kt) then perr EBadMapKey p
                 else if match kv with GF64 b => f64_is_nan b | GF32 b => f32_is_nan b | _ => false end then perr EBadMapKey p
                 else pbind (prec TAny (GAny None) (snd kr) (p ++ [key_elem TAny key])) (fun vr =>
                      pgenmap_loop g' (map_set key (fst vr) m) (snd vr))
             | _ => perr EOther p
             end)
    end
  end.

Fixpoint ptuple_loop (g : nat) (outs : list ty) (tys : list ty) (vals : list gval) (ts : list token)
  : pr (list ty * list gval * list ty * list token) :=
  match g with
  | O => pfuel
  | S g' =>
    let ep := p ++ [PIdx (Z.of_nat (length tys))] in
    match ts with
    | [] => perr EEnd p
    | tk :: rest =>
        if kind tk =? KTupleEnd then pok (outs, vals, tys, rest)
        else match outs with
             | ot :: outs' =>
                 pbind (prec ot (zero ot) ts ep) (fun r => ptuple_loop g' outs' (tys ++ [ot]) (vals ++ [fst r]) (snd r))
             | [] =>
                 pbind (prec TAny (GAny None) ts ep) (fun r =>
                 ptuple_loop g' [] (tys ++ [dyn_ty (fst r)]) (vals ++ [dyn_val (fst r)]) (snd r))
             end
    end
  end.

(* ---- the same body, cut into pieces (as Proofs/UnmarshalP.v does for [unm]) ---- *)
Definition ptime_case (tk : token) (rest : list token) : pr (gval * list token) :=
  if kind tk =? KString then
    match val tk with
    | VStr s => if valid_time_enc s then pok (GTime s, rest) else perr EOther p
    | _ => perr EOther p
    end
  else perr (EMismatch (kind tk) 24) p.

Definition pnan_case (t ut : ty) (k : N) (rest : list token) : pr (gval * list token) :=
  match ut with
  | TF32 => pok (GF32 f32_nan_bits, rest)
  | TF64 => pok (GF64 f64_nan_bits, rest)
  | TAny => pok (GAny (Some (TF64, GF64 f64_nan_bits)), rest)
  | _ => perr (EMismatch k (rk_of t)) p
  end.

Definition pbytes_case (t ut : ty) (cur : gval) (tk : token) (rest : list token) : pr (gval * list token) :=
  match ut, val tk with
  | TBytes, VBytes s => pok (GBytes false s, rest)
  | TByteArray n, VBytes s =>
      let old := bytes_of_gval cur in
      if Nat.ltb n (length s) then perr ETooMany p
      else pok (GBytes false (firstn n s ++ skipn (length s) old), rest)
  | TAny, VBytes s => pok (GAny (Some (TBytes, GBytes false s)), rest)
  | _, _ => perr (EMismatch (kind tk) (rk_of t)) p
  end.

Definition parray_case (t ut : ty) (cur : gval) (k : N) (rest : list token) : pr (gval * list token) :=
  match ut with
  | TArray n e =>
      pbind (parr_loop (S (length rest)) e (items_of_gval cur) 0%nat rest) (fun r => pok (GList false (fst r), snd r))
  | TByteArray n =>
      pbind (parr_loop (S (length rest)) (TUint W8) (items_of_gval cur) 0%nat rest) (fun r => pok (GBytes false (to_bytes (fst r)), snd r))
  | TSlice e =>
      pbind (pslice_loop (S (length rest)) e (items_of_gval cur) rest) (fun r =>
      pok (GList (is_nil_container cur && match fst r with [] => true | _ => false end) (fst r), snd r))
  | TBytes =>
      pbind (pslice_loop (S (length rest)) (TUint W8) (items_of_gval cur) rest) (fun r =>
      pok (GBytes (is_nil_container cur && match fst r with [] => true | _ => false end) (to_bytes (fst r)), snd r))
  | TAny =>
      pbind (pslice_loop (S (length rest)) TAny [] rest) (fun r =>
      pok (GAny (Some (TSlice TAny, GList (match fst r with [] => true | _ => false end) (fst r))), snd r))
  | _ => perr (EMismatch k (rk_of t)) p
  end.

Definition pobject_case (t ut : ty) (cur : gval) (k : N) (rest : list token) : pr (gval * list token) :=
  match ut with
  | TStruct fs =>
      let vals := match cur with GStruct vs => vs | _ => map (fun fd => zero (snd fd)) fs end in
      pbind (pstruct_loop (S (length rest)) fs (depr_of t) vals rest) (fun r => pok (GStruct (fst r), snd r))
  | TAny => pnewstruct_loop (S (length rest)) [] [] rest
  | _ => perr (EMismatch k (rk_of t)) p
  end.

Definition pmap_case (t ut : ty) (cur : gval) (k : N) (rest : list token) : pr (gval * list token) :=
  match ut with
  | TMap kt vt =>
      let '(isnil, m) := match cur with GMap n m => (n, m) | _ => (true, []) end in
      pmap_loop (S (length rest)) kt vt isnil m rest
  | TAny => pgenmap_loop (S (length rest)) [] rest
  | _ => perr (EMismatch k (rk_of t)) p
  end.

Definition ptuple_case (t ut : ty) (k : N) (rest : list token) : pr (gval * list token) :=
  match ut with
  | TFunc outs =>
      pbind (ptuple_loop (S (length rest)) outs [] [] rest) (fun r =>
      let '(outs', vals, tys, rest') := r in
      match outs' with
      | _ :: _ => perr ETooFew p
      | [] =>
          if Nat.ltb 50 (length vals) then perr ETooMany p
          else if Nat.eqb (length vals) (length outs) then pok (GFunc (Some vals), rest')
          else perr EBadTuple p
      end)
  | TAny =>
      pbind (ptuple_loop (S (length rest)) [] [] [] rest) (fun r =>
      let '(_, vals, tys, rest') := r in
      if Nat.ltb 50 (length vals) then perr ETooMany p
      else pok (GAny (Some (TFunc tys, GFunc (Some vals))), rest'))
  | _ => perr (EMismatch k (rk_of t)) p
  end.

Definition ptypename_case (t ut : ty) (cur : gval) (tk : token) (rest : list token) : pr (gval * list token) :=
  match ut, val tk with
  | TAny, VStr name =>
      match reg_lookup R name with
      | Some rt => pbind (prec rt (zero rt) rest p) (fun r => pok (GAny (Some (rt, fst r)), snd r))
      | None => prec t cur rest p
      end
  | _, _ => prec t cur rest p
  end.

Definition pscalar_case (t ut : ty) (tk : token) (rest : list token) : pr (gval * list token) :=
  match val tk with
  | VNone => perr EBadKind p
  | _ =>
      if (kind tk =? KRef) || (kind tk =? KLiteral) then perr EBadKind p
      else match ut with
           | TAny => match any_of_token tk with Some d => pok (GAny (Some d), rest) | None => perr EBadKind p end
           | _ => pbind (plift p (set_scalar t tk)) (fun v => pok (v, rest))
           end
  end.

Definition pdispatch (t ut : ty) (cur : gval) (tk : token) (rest : list token) : pr (gval * list token) :=
  let k := kind tk in
  if k =? KNaN then pnan_case t ut k rest
  else if k =? KBytes then pbytes_case t ut cur tk rest
  else if k =? KArray then parray_case t ut cur k rest
  else if k =? KObject then pobject_case t ut cur k rest
  else if k =? KMap then pmap_case t ut cur k rest
  else if k =? KTuple then ptuple_case t ut k rest
  else if k =? KTypeName then ptypename_case t ut cur tk rest
  else pscalar_case t ut tk rest.

Definition pptr_or_dispatch (t ut : ty) (cur : gval) (tk : token) (rest : list token) : pr (gval * list token) :=
  match ut with
  | TPtr e => pbind (prec e (zero e) (tk :: rest) p) (fun r => pok (GPtr (Some (fst r)), snd r))
  | _ => pdispatch t ut cur tk rest
  end.

Definition pbody (t : ty) (cur : gval) (tk : token) (rest : list token) : pr (gval * list token) :=
  if (kind tk =? KTypeName) && negb (match ptr_base t with TAny => true | _ => false end) then prec t cur rest p
  else
  match underlying t with
  | TTime => ptime_case tk rest
  | ut =>
    if kind tk =? KNil then pok (cur, rest)
    else if is_end_kind (kind tk) then perr EUnexpEndTok p
    else pptr_or_dispatch t ut cur tk rest
  end.

Definition pstep (t : ty) (cur : gval) (ts : list token) : pr (gval * list token) :=
  match ts with
  | [] => match underlying t with
          | TTime => perr (EMismatch KInvalid 24) p
          | _ => perr EEnd p
          end
  | tk0 :: rest =>
      ptap (p, kind tk0, rk_of t) (pbind (plift p (conv_tok pf t tk0)) (fun tk => pbody t cur tk rest))
  end.

End PStep.

Lemma unmp_S pf f o R t cur ts p :
  unmp pf (S f) o R t cur ts p = pstep pf o R (unmp pf f o R) p t cur ts.
Proof. reflexivity. Qed.

Lemma unmp_O pf o R t cur ts p : unmp pf 0 o R t cur ts p = pfuel.
Proof. reflexivity. Qed.

Global Opaque unmp.

Arguments unmp_S : clear implicits.

(* ====================================================================================== *)
(* Part 1.  Forgetting paths and log gives the pure model back                             *)
(* ====================================================================================== *)

Lemma erase_pbind {A B} (r : pr A) (k : A -> pr B) :
  erase (pbind r k) = bind (erase r) (fun a => erase (k a)).
Proof. destruct r as [[a|e ep|] l]; reflexivity. Qed.

Lemma erase_plift {A} (p : path) (r : res A) : erase (plift p r) = r.
Proof. destruct r; reflexivity. Qed.

Lemma erase_ptap {A} (e : utap) (r : pr A) : erase (ptap e r) = erase r.
Proof. reflexivity. Qed.

Lemma bind_ext {A B} (r1 r2 : res A) (k1 k2 : A -> res B) :
  r1 = r2 -> (forall a, k1 a = k2 a) -> bind r1 k1 = bind r2 k2.
Proof. intros -> Hk. destruct r2; cbn [bind]; [apply Hk|reflexivity|reflexivity]. Qed.

Lemma erase_ok {A} (r : pr A) (x : A) : erase r = Ok x -> fst r = POk x.
Proof. unfold erase. destruct (fst r); [intros [= ->]; reflexivity|discriminate|discriminate]. Qed.

Ltac er_step :=
  match goal with
  | |- erase (pbind _ _) = bind _ _ => rewrite erase_pbind; apply bind_ext; [|intros ?]
  | |- erase (plift _ _) = _ => apply erase_plift
  | |- erase (if ?c then _ else _) = (if ?c then _ else _) => destruct c
  | |- erase (match ?x with _ => _ end) = (match ?x with _ => _ end) => destruct x
  | H : forall _ _ _ _, erase _ = _ |- erase _ = _ => apply H
  | H : forall _, _ |- erase _ = _ => apply H
  | |- erase _ = _ => reflexivity
  end.
Ltac er_auto := repeat (cbv beta zeta; er_step).

Section Erase.
Variable pf : bytes -> N -> option N.
Variable o : copts.
Variable R : registry.
Variable prec : prec_t.
Variable rec : rec_t.
Hypothesis Hrec : forall t cur ts p, erase (prec t cur ts p) = rec t cur ts.

Lemma parr_loop_erase p : forall g et items idx ts,
  erase (parr_loop prec p g et items idx ts) = arr_loop rec g et items idx ts.
Proof. induction g as [|g IH]; intros; cbn [parr_loop arr_loop]; er_auto. Qed.

Lemma pslice_loop_erase p : forall g et acc ts,
  erase (pslice_loop prec p g et acc ts) = slice_loop rec g et acc ts.
Proof. induction g as [|g IH]; intros; cbn [pslice_loop slice_loop]; er_auto. Qed.

Lemma pstruct_loop_erase p : forall g fs depr vals ts,
  erase (pstruct_loop o prec p g fs depr vals ts) = struct_loop o rec g fs depr vals ts.
Proof. induction g as [|g IH]; intros; cbn [pstruct_loop struct_loop]; er_auto. Qed.

Lemma pnewstruct_loop_erase p : forall g fs vals ts,
  erase (pnewstruct_loop prec p g fs vals ts) = newstruct_loop rec g fs vals ts.
Proof. induction g as [|g IH]; intros; cbn [pnewstruct_loop newstruct_loop]; er_auto. Qed.

Lemma pmap_loop_erase p : forall g kt vt isnil m ts,
  erase (pmap_loop prec p g kt vt isnil m ts) = map_loop rec g kt vt isnil m ts.
Proof. induction g as [|g IH]; intros; cbn [pmap_loop map_loop]; er_auto. Qed.

Lemma pgenmap_loop_erase p : forall g m ts,
  erase (pgenmap_loop prec p g m ts) = genmap_loop rec g m ts.
Proof. induction g as [|g IH]; intros; cbn [pgenmap_loop genmap_loop]; er_auto. Qed.

Lemma ptuple_loop_erase p : forall g outs tys vals ts,
  erase (ptuple_loop prec p g outs tys vals ts) = tuple_loop rec g outs tys vals ts.
Proof. induction g as [|g IH]; intros; cbn [ptuple_loop tuple_loop]; er_auto. Qed.

Lemma pdispatch_erase p t ut cur tk rest :
  erase (pdispatch o R prec p t ut cur tk rest) = dispatch o R rec t ut cur tk rest.
Proof.
  unfold pdispatch, dispatch. cbv zeta.
  destruct (kind tk =? KNaN). { unfold pnan_case, nan_case. destruct ut; reflexivity. }
  destruct (kind tk =? KBytes). { unfold pbytes_case, bytes_case. er_auto. }
  destruct (kind tk =? KArray).
  { unfold parray_case, array_case. destruct ut; er_auto; (apply parr_loop_erase || apply pslice_loop_erase). }
  destruct (kind tk =? KObject).
  { unfold pobject_case, object_case. destruct ut; er_auto; (apply pstruct_loop_erase || apply pnewstruct_loop_erase). }
  destruct (kind tk =? KMap).
  { unfold pmap_case, map_case. destruct ut; er_auto; (apply pmap_loop_erase || apply pgenmap_loop_erase). }
  destruct (kind tk =? KTuple).
  { unfold ptuple_case, tuple_case. destruct ut; er_auto; apply ptuple_loop_erase. }
  destruct (kind tk =? KTypeName).
  { unfold ptypename_case, typename_case. destruct ut; er_auto. }
  unfold pscalar_case, scalar_case. er_auto.
Qed.

Lemma pstep_erase p t cur ts :
  erase (pstep pf o R prec p t cur ts) = ustep pf o R rec t cur ts.
Proof.
  unfold pstep, ustep. destruct ts as [|tk0 rest]; [destruct (underlying t); reflexivity|].
  rewrite erase_ptap, erase_pbind, erase_plift. apply bind_ext; [reflexivity|]. intros tk.
  unfold pbody.
  destruct ((kind tk =? KTypeName) && negb match ptr_base t with TAny => true | _ => false end); [apply Hrec|].
  destruct (underlying t);
    try (destruct (kind tk =? KNil); [reflexivity|];
         destruct (is_end_kind (kind tk)); [reflexivity|];
         unfold pptr_or_dispatch, ptr_or_dispatch; try apply pdispatch_erase).
  - er_auto.
  - unfold ptime_case, time_case. er_auto.
Qed.

End Erase.

Theorem unmp_erase : forall pf f o R t cur ts p,
  erase (unmp pf f o R t cur ts p) = unm pf f o R t cur ts.
Proof.
  intros pf f o R. induction f as [|f IH]; intros t cur ts p.
  - rewrite unmp_O, unm_O. reflexivity.
  - rewrite unmp_S, unm_S. apply pstep_erase. exact IH.
Qed.

(* ====================================================================================== *)
(* Part 2.  Paths are relative to the context path                                         *)
(* ====================================================================================== *)

Definition shiftpr {A} (q : path) (r : pr A) : pr A := (shift_res q (fst r), shift_log q (snd r)).

Lemma shiftpr_pbind {A B} q (r : pr A) (k : A -> pr B) :
  shiftpr q (pbind r k) = pbind (shiftpr q r) (fun a => shiftpr q (k a)).
Proof.
  destruct r as [[a|e ep|] l]; unfold shiftpr; cbn [pbind fst snd shift_res]; try reflexivity.
  unfold shift_log. rewrite map_app. reflexivity.
Qed.

Lemma shiftpr_plift {A} q p (r : res A) : shiftpr q (plift p r) = plift (q ++ p) r.
Proof. destruct r; reflexivity. Qed.

Lemma shiftpr_ptap {A} q p k rk (r : pr A) : shiftpr q (ptap (p, k, rk) r) = ptap (q ++ p, k, rk) (shiftpr q r).
Proof. reflexivity. Qed.

Lemma pbind_ext {A B} (r1 r2 : pr A) (k1 k2 : A -> pr B) :
  r1 = r2 -> (forall a, k1 a = k2 a) -> pbind r1 k1 = pbind r2 k2.
Proof. intros -> Hk. destruct r2 as [[a|e ep|] l]; cbn [pbind]; [rewrite Hk; reflexivity|reflexivity|reflexivity]. Qed.

Ltac sh_step q p :=
  match goal with
  | |- pbind _ _ = shiftpr _ (pbind _ _) => rewrite shiftpr_pbind; apply pbind_ext; [|intros ?]
  | |- plift _ _ = shiftpr _ (plift _ _) => rewrite shiftpr_plift; reflexivity
  | |- (if ?c then _ else _) = shiftpr _ (if ?c then _ else _) => destruct c
  | |- (match ?x with _ => _ end) = shiftpr _ (match ?x with _ => _ end) => destruct x
  | H : forall _ _ _ _, _ = shiftpr _ _ |- _ = shiftpr _ _ => apply H
  | H : forall _, _ |- _ = shiftpr _ _ => apply H
  | |- _ = shiftpr _ _ => reflexivity
  end.
Ltac sh_auto q p := repeat (cbv beta zeta; try rewrite <- !(app_assoc q p); sh_step q p).

Section Shift.
Variable pf : bytes -> N -> option N.
Variable o : copts.
Variable R : registry.
Variable prec : prec_t.
Variable q : path.
Hypothesis Hrec : forall t cur ts p, prec t cur ts (q ++ p) = shiftpr q (prec t cur ts p).

Lemma parr_loop_shift p : forall g et items idx ts,
  parr_loop prec (q ++ p) g et items idx ts = shiftpr q (parr_loop prec p g et items idx ts).
Proof. induction g as [|g IH]; intros; cbn [parr_loop]; sh_auto q p. Qed.

Lemma pslice_loop_shift p : forall g et acc ts,
  pslice_loop prec (q ++ p) g et acc ts = shiftpr q (pslice_loop prec p g et acc ts).
Proof. induction g as [|g IH]; intros; cbn [pslice_loop]; sh_auto q p. Qed.

Lemma pstruct_loop_shift p : forall g fs depr vals ts,
  pstruct_loop o prec (q ++ p) g fs depr vals ts = shiftpr q (pstruct_loop o prec p g fs depr vals ts).
Proof. induction g as [|g IH]; intros; cbn [pstruct_loop]; sh_auto q p. Qed.

Lemma pnewstruct_loop_shift p : forall g fs vals ts,
  pnewstruct_loop prec (q ++ p) g fs vals ts = shiftpr q (pnewstruct_loop prec p g fs vals ts).
Proof. induction g as [|g IH]; intros; cbn [pnewstruct_loop]; sh_auto q p. Qed.

Lemma pmap_loop_shift p : forall g kt vt isnil m ts,
  pmap_loop prec (q ++ p) g kt vt isnil m ts = shiftpr q (pmap_loop prec p g kt vt isnil m ts).
Proof. induction g as [|g IH]; intros; cbn [pmap_loop]; sh_auto q p. Qed.

Lemma pgenmap_loop_shift p : forall g m ts,
  pgenmap_loop prec (q ++ p) g m ts = shiftpr q (pgenmap_loop prec p g m ts).
Proof. induction g as [|g IH]; intros; cbn [pgenmap_loop]; sh_auto q p. Qed.

Lemma ptuple_loop_shift p : forall g outs tys vals ts,
  ptuple_loop prec (q ++ p) g outs tys vals ts = shiftpr q (ptuple_loop prec p g outs tys vals ts).
Proof. induction g as [|g IH]; intros; cbn [ptuple_loop]; sh_auto q p. Qed.

Lemma pdispatch_shift p t ut cur tk rest :
  pdispatch o R prec (q ++ p) t ut cur tk rest = shiftpr q (pdispatch o R prec p t ut cur tk rest).
Proof.
  unfold pdispatch. cbv zeta.
  destruct (kind tk =? KNaN). { unfold pnan_case. destruct ut; reflexivity. }
  destruct (kind tk =? KBytes). { unfold pbytes_case. sh_auto q p. }
  destruct (kind tk =? KArray).
  { unfold parray_case. destruct ut; sh_auto q p; (apply parr_loop_shift || apply pslice_loop_shift). }
  destruct (kind tk =? KObject).
  { unfold pobject_case. destruct ut; sh_auto q p; (apply pstruct_loop_shift || apply pnewstruct_loop_shift). }
  destruct (kind tk =? KMap).
  { unfold pmap_case. destruct ut; sh_auto q p; (apply pmap_loop_shift || apply pgenmap_loop_shift). }
  destruct (kind tk =? KTuple).
  { unfold ptuple_case. destruct ut; sh_auto q p; apply ptuple_loop_shift. }
  destruct (kind tk =? KTypeName).
  { unfold ptypename_case. destruct ut; sh_auto q p. }
  unfold pscalar_case. sh_auto q p.
Qed.

Lemma pstep_shift p t cur ts :
  pstep pf o R prec (q ++ p) t cur ts = shiftpr q (pstep pf o R prec p t cur ts).
Proof.
  unfold pstep. destruct ts as [|tk0 rest]; [destruct (underlying t); reflexivity|].
  rewrite shiftpr_ptap, shiftpr_pbind, shiftpr_plift. f_equal. apply pbind_ext; [reflexivity|]. intros tk.
  unfold pbody.
  destruct ((kind tk =? KTypeName) && negb match ptr_base t with TAny => true | _ => false end); [apply Hrec|].
  destruct (underlying t);
    try (destruct (kind tk =? KNil); [reflexivity|];
         destruct (is_end_kind (kind tk)); [reflexivity|];
         unfold pptr_or_dispatch; try apply pdispatch_shift).
  - sh_auto q p.
  - unfold ptime_case. sh_auto q p.
Qed.

End Shift.

Lemma unmp_shiftpr pf o R q : forall f t cur ts p,
  unmp pf f o R t cur ts (q ++ p) = shiftpr q (unmp pf f o R t cur ts p).
Proof.
  induction f as [|f IH]; intros t cur ts p.
  - rewrite !unmp_O. reflexivity.
  - rewrite !unmp_S. apply pstep_shift. exact IH.
Qed.

Theorem unmp_shift : forall pf f o R t cur ts q p,
  unmp pf f o R t cur ts (q ++ p) =
  (shift_res q (fst (unmp pf f o R t cur ts p)), shift_log q (snd (unmp pf f o R t cur ts p))).
Proof. intros. apply unmp_shiftpr. Qed.

Corollary unmp_paths_extend : forall pf f o R t cur ts p,
  Forall (fun e => exists s, fst (fst e) = p ++ s) (snd (unmp pf f o R t cur ts p)) /\
  (forall e ep, fst (unmp pf f o R t cur ts p) = PErr e ep -> exists s, ep = p ++ s).
Proof.
  intros pf f o R t cur ts p.
  pose proof (unmp_shift pf f o R t cur ts p []) as H. rewrite app_nil_r in H. rewrite H.
  cbn [fst snd]. split.
  - unfold shift_log. apply Forall_forall. intros e He. apply in_map_iff in He.
    destruct He as (e0 & <- & _). cbn [fst snd]. eexists. reflexivity.
  - intros e ep He. destruct (fst (unmp pf f o R t cur ts [])) as [a|e0 ep0|]; cbn [shift_res] in He; try discriminate.
    injection He as _ <-. eexists. reflexivity.
Qed.

Theorem unmp_first_tap : forall pf f o R t cur tk rest p,
  exists l, snd (unmp pf (S f) o R t cur (tk :: rest) p) = (p, kind tk, rk_of t) :: l.
Proof. intros. rewrite unmp_S. unfold pstep, ptap. cbn [snd]. eexists. reflexivity. Qed.

(* ====================================================================================== *)
(* Part 3.  The declarative path statement on the canonical stream of a value              *)
(* ====================================================================================== *)

(* a successful outcome together with the (path, target kind) projection of its log *)
Definition pres_is {A} (r : pr A) (a : A) (L : list (path * N)) : Prop :=
  fst r = POk a /\ log_paths (snd r) = L.

Lemma log_paths_app l1 l2 : log_paths (l1 ++ l2) = log_paths l1 ++ log_paths l2.
Proof. apply map_app. Qed.

Lemma pres_is_pbind {A B} (r : pr A) (k : A -> pr B) a b L1 L2 L :
  pres_is r a L1 -> L = L1 ++ L2 -> pres_is (k a) b L2 -> pres_is (pbind r k) b L.
Proof.
  intros [H1 H2] -> [H3 H4]. destruct r as [r0 l]. cbn [fst snd] in H1, H2. subst r0. cbn [pbind fst snd].
  split; [exact H3|]. change (log_paths (l ++ snd (k a)) = L1 ++ L2). rewrite log_paths_app, H2, H4. reflexivity.
Qed.

Lemma pres_is_pok {A} (a : A) : pres_is (pok a) a [].
Proof. split; reflexivity. Qed.

Lemma pres_is_ptap {A} p k rk (r : pr A) a L :
  pres_is r a L -> pres_is (ptap (p, k, rk) r) a ((p, rk) :: L).
Proof.
  intros [H1 H2]. split; [exact H1|]. unfold ptap. cbn [snd]. unfold log_paths in *. cbn [map fst snd].
  rewrite H2. reflexivity.
Qed.

Lemma log_tap_bind_pok {A B} p k rk (r : pr A) (g : A -> B) a L :
  pres_is r a L -> log_paths (snd (ptap (p, k, rk) (pbind r (fun x => pok (g x))))) = (p, rk) :: L.
Proof.
  intros H.
  destruct (pres_is_ptap p k rk _ _ _
              (pres_is_pbind r (fun x => pok (g x)) a (g a) L [] (L ++ []) H eq_refl (pres_is_pok _))) as [_ H2].
  rewrite H2, app_nil_r. reflexivity.
Qed.

Lemma pbind_pok {A B} (a : A) (k : A -> pr B) : pbind (pok a) k = k a.
Proof. unfold pbind, pok. destruct (k a) as [x l]. reflexivity. Qed.

(* ---- the pieces of [upaths] as named fixpoints ---- *)
Definition upl (et : ty) (p : path) : list gval -> nat -> list (path * N) :=
  fix go (l : list gval) (i : nat) : list (path * N) :=
    match l with
    | [] => []
    | x :: r => upaths et x (p ++ [PIdx (Z.of_nat i)]) ++ go r (S i)
    end.

Definition ups (p : path) : list gval -> list (bytes * bool * ty) -> list (path * N) :=
  fix go (l : list gval) (f : list (bytes * bool * ty)) : list (path * N) :=
    match l, f with
    | x :: r, fd :: fr =>
        if negb (fexported fd) then go r fr
        else (p, 24) :: upaths (snd fd) x (p ++ [PStr (fname fd)]) ++ go r fr
    | _, _ => []
    end.

Lemma upaths_list t n items p : upaths t (GList n items) p = (p, rk_of t) :: upl (elem_ty t) p items 0.
Proof. reflexivity. Qed.
Lemma upaths_struct t vals p : upaths t (GStruct vals) p = (p, rk_of t) :: ups p vals (fields_of t).
Proof. reflexivity. Qed.
Lemma upaths_ptr t x p : upaths t (GPtr (Some x)) p = (p, rk_of t) :: upaths (pointee_ty t) x p.
Proof. reflexivity. Qed.
Lemma upl_cons et p x l i : upl et p (x :: l) i = upaths et x (p ++ [PIdx (Z.of_nat i)]) ++ upl et p l (S i).
Proof. reflexivity. Qed.
Lemma ups_cons p x l fd fs :
  ups p (x :: l) (fd :: fs) =
  if negb (fexported fd) then ups p l fs
  else (p, 24) :: upaths (snd fd) x (p ++ [PStr (fname fd)]) ++ ups p l fs.
Proof. reflexivity. Qed.

(* ---- no registered type: no TypeName token ---- *)
Lemma noreg_prefix t : noreg_ty t = true -> reg_prefix t = [].
Proof.
  destruct t as [ | | | | | | | | | | | | | | | |n r d u| ]; try reflexivity.
  destruct r; [cbn [noreg_ty negb andb]; discriminate|reflexivity].
Qed.

Lemma noreg_underlying t : noreg_ty t = true -> noreg_ty (underlying t) = true.
Proof.
  induction t; cbn [underlying]; try (intros H; exact H).
  cbn [noreg_ty]. intros H. apply andb_true_iff in H. apply IHt, H.
Qed.

Lemma marshal_head_nr o : forall v t ts,
  has_type t v = true -> simple_ty t = true -> noreg_ty t = true -> marshal o t v = Ok ts ->
  exists tk r, ts = tk :: r /\ (kind tk =? KTypeName) = false.
Proof.
  induction v as [b|z|n|b|b|s|n s|n l IH|n es|l IH| |x IH|d|r|e] using gval_ind2; intros t ts Hty Hs Hnr Hm;
    pose proof (noreg_prefix t Hnr) as Hpre.
  - cbn [marshal bind] in Hm. rewrite Hpre in Hm. injection Hm as <-. eexists _, _. split; reflexivity.
  - cbn [marshal has_type] in Hm, Hty. destruct (underlying t); try discriminate.
    cbn [bind] in Hm. rewrite Hpre in Hm. injection Hm as <-. destruct w; eexists _, _; split; reflexivity.
  - cbn [marshal has_type] in Hm, Hty. destruct (underlying t); try discriminate;
    cbn [bind] in Hm; rewrite Hpre in Hm; injection Hm as <-; try destruct w; eexists _, _; split; reflexivity.
  - cbn [marshal] in Hm. destruct (f32_is_nan b); cbn [bind] in Hm; rewrite Hpre in Hm; injection Hm as <-;
      eexists _, _; split; reflexivity.
  - cbn [marshal] in Hm. destruct (f64_is_nan b); cbn [bind] in Hm; rewrite Hpre in Hm; injection Hm as <-;
      eexists _, _; split; reflexivity.
  - cbn [marshal bind] in Hm. rewrite Hpre in Hm. injection Hm as <-. eexists _, _. split; reflexivity.
  - cbn [marshal bind] in Hm. rewrite Hpre in Hm. injection Hm as <-. eexists _, _. split; reflexivity.
  - rewrite marshal_list in Hm. apply bind_ok in Hm. destruct Hm as (ts0 & Hm & Hts). rewrite Hpre in Hts. injection Hts as <-.
    apply bind_ok in Hm. destruct Hm as (body & _ & Hts). injection Hts as <-. eexists _, _. split; reflexivity.
  - cbn [has_type] in Hty. exfalso. pose proof (simple_underlying t Hs) as Hsu.
    destruct (underlying t); try discriminate.
  - rewrite marshal_struct in Hm. apply bind_ok in Hm. destruct Hm as (ts0 & Hm & Hts). rewrite Hpre in Hts. injection Hts as <-.
    apply bind_ok in Hm. destruct Hm as (body & _ & Hts). injection Hts as <-. eexists _, _. split; reflexivity.
  - cbn [marshal bind] in Hm. rewrite Hpre in Hm. injection Hm as <-. eexists _, _. split; reflexivity.
  - rewrite marshal_ptr in Hm. apply bind_ok in Hm. destruct Hm as (ts0 & Hm & Hts). rewrite Hpre in Hts. injection Hts as <-.
    cbn [has_type] in Hty. pose proof (simple_underlying t Hs) as Hsu. pose proof (noreg_underlying t Hnr) as Hnu.
    unfold pointee_ty in Hm.
    destruct (underlying t) eqn:Hut; try discriminate. cbn [simple_ty noreg_ty] in Hsu, Hnu.
    cbn [app]. exact (IH _ _ Hty Hsu Hnu Hm).
  - cbn [has_type] in Hty. exfalso. pose proof (simple_underlying t Hs) as Hsu.
    destruct (underlying t); try discriminate.
  - cbn [has_type] in Hty. exfalso. pose proof (simple_underlying t Hs) as Hsu.
    destruct (underlying t); try discriminate.
  - cbn [marshal bind] in Hm. rewrite Hpre in Hm. injection Hm as <-. eexists _, _. split; reflexivity.
Qed.

(* ---- one step of unmp on the token shapes marshal produces ---- *)
Definition leaf_kind (k : N) : bool :=
  negb (k =? KLiteral) && negb (k =? KTypeName) && negb (k =? KArray) && negb (k =? KObject) &&
  negb (k =? KMap) && negb (k =? KTuple).

Ltac nil_crush :=
  repeat match goal with
         | |- snd (if ?c then _ else _) = [] => destruct c
         | |- snd (match ?x with _ => _ end) = [] => destruct x
         | |- snd (pbind (plift _ (set_scalar ?t ?tk)) _) = [] => destruct (set_scalar t tk)
         end; try reflexivity.

Section PSteps.
Variable pf : bytes -> N -> option N.
Variable o : copts.
Variable R : registry.

Ltac pstep_rec f :=
  rewrite (unmp_S pf f o R); generalize (unmp pf f o R); intros prec; unfold pstep, conv_tok.

(* a token that opens no composite and is no literal / type name, against a non-pointer target:
   no nested call, so nothing is logged after the call's own tap *)
Lemma pbody_leaf_log prec p t cur tk rest :
  leaf_kind (kind tk) = true -> (forall e, underlying t <> TPtr e) ->
  snd (pbody o R prec p t cur tk rest) = [].
Proof.
  unfold leaf_kind. intros Hk Hnp.
  apply andb_true_iff in Hk. destruct Hk as [Hk Htup]. apply negb_true_iff in Htup.
  apply andb_true_iff in Hk. destruct Hk as [Hk Hmap]. apply negb_true_iff in Hmap.
  apply andb_true_iff in Hk. destruct Hk as [Hk Hobj]. apply negb_true_iff in Hobj.
  apply andb_true_iff in Hk. destruct Hk as [Hk Harr]. apply negb_true_iff in Harr.
  apply andb_true_iff in Hk. destruct Hk as [Hlit Htn]. apply negb_true_iff in Hlit. apply negb_true_iff in Htn.
  unfold pbody. rewrite Htn. cbn [andb].
  destruct (underlying t) eqn:Hut; try (exfalso; exact (Hnp _ eq_refl));
    try (destruct (kind tk =? KNil); [reflexivity|];
         destruct (is_end_kind (kind tk)); [reflexivity|];
         unfold pptr_or_dispatch, pdispatch; cbv beta iota zeta;
         rewrite Harr, Hobj, Hmap, Htup, Htn;
         unfold pnan_case, pbytes_case, pscalar_case; cbv beta iota zeta; nil_crush).
  unfold ptime_case. nil_crush.
Qed.

Lemma unmp_leaf_log f t cur tk rest p :
  leaf_kind (kind tk) = true -> (forall e, underlying t <> TPtr e) ->
  snd (unmp pf (S f) o R t cur (tk :: rest) p) = [(p, kind tk, rk_of t)].
Proof.
  intros Hk Hnp. pstep_rec f.
  assert (Hl : (kind tk =? KLiteral) = false).
  { unfold leaf_kind in Hk. destruct (kind tk =? KLiteral); [discriminate Hk|reflexivity]. }
  rewrite Hl. cbn [plift]. rewrite pbind_pok. unfold ptap. cbn [snd].
  rewrite pbody_leaf_log by assumption. reflexivity.
Qed.

Lemma unmp_nil_log f t cur rest p : underlying t <> TTime ->
  snd (unmp pf (S f) o R t cur (T KNil VNone :: rest) p) = [(p, KNil, rk_of t)].
Proof.
  intros Hnt. pstep_rec f. cbn [kind val]. change (KNil =? KLiteral) with false. cbn [plift].
  rewrite pbind_pok. unfold ptap, pbody. cbn [snd kind]. change (KNil =? KTypeName) with false. cbn [andb].
  destruct (underlying t); try congruence; reflexivity.
Qed.

Lemma unmp_ptr_step f t e cur tk rest p :
  underlying t = TPtr e -> head_ok tk -> (kind tk =? KTypeName) = false -> kind tk <> KNil ->
  unmp pf (S f) o R t cur (tk :: rest) p =
  ptap (p, kind tk, rk_of t)
       (pbind (unmp pf f o R e (zero e) (tk :: rest) p) (fun r => pok (GPtr (Some (fst r)), snd r))).
Proof.
  intros Hut [Hl He] Ht Hn. pstep_rec f. rewrite Hl. cbn [plift]. rewrite pbind_pok.
  unfold pbody. rewrite Ht, He. cbn [andb].
  apply N.eqb_neq in Hn. rewrite Hn, Hut. reflexivity.
Qed.

Lemma unmp_slice_step f t e cur rest p :
  underlying t = TSlice e ->
  unmp pf (S f) o R t cur (T KArray VNone :: rest) p =
  ptap (p, KArray, rk_of t)
       (pbind (pslice_loop (unmp pf f o R) p (S (length rest)) e (items_of_gval cur) rest) (fun r =>
          pok (GList (is_nil_container cur && match fst r with [] => true | _ => false end) (fst r), snd r))).
Proof.
  intros Hut. pstep_rec f. cbn [kind val]. change (KArray =? KLiteral) with false. cbn [plift].
  rewrite pbind_pok. unfold pbody. cbn [kind]. rewrite Hut. reflexivity.
Qed.

Lemma unmp_array_step f t k e cur rest p :
  underlying t = TArray k e ->
  unmp pf (S f) o R t cur (T KArray VNone :: rest) p =
  ptap (p, KArray, rk_of t)
       (pbind (parr_loop (unmp pf f o R) p (S (length rest)) e (items_of_gval cur) 0%nat rest) (fun r =>
          pok (GList false (fst r), snd r))).
Proof.
  intros Hut. pstep_rec f. cbn [kind val]. change (KArray =? KLiteral) with false. cbn [plift].
  rewrite pbind_pok. unfold pbody. cbn [kind]. rewrite Hut. reflexivity.
Qed.

Lemma unmp_struct_step f t fs cur rest p :
  underlying t = TStruct fs ->
  unmp pf (S f) o R t cur (T KObject VNone :: rest) p =
  ptap (p, KObject, rk_of t)
       (pbind (pstruct_loop o (unmp pf f o R) p (S (length rest)) fs (depr_of t)
                 match cur with GStruct vs => vs | _ => map (fun fd => zero (snd fd)) fs end rest)
              (fun r => pok (GStruct (fst r), snd r))).
Proof.
  intros Hut. pstep_rec f. cbn [kind val]. change (KObject =? KLiteral) with false. cbn [plift].
  rewrite pbind_pok. unfold pbody. cbn [kind]. rewrite Hut. reflexivity.
Qed.

Lemma unmp_name f cur s rest p :
  unmp pf (S f) o R TString cur (T KString (VStr s) :: rest) p = (POk (GStr s, rest), [(p, KString, 24)]).
Proof. pstep_rec f. reflexivity. Qed.

End PSteps.

(* ---- the loops on marshalled element streams ---- *)
Section PLoops.
Variable o : copts.
Variable prec : prec_t.

(* what the recursive call does on the stream of a typed element, under any context path *)
Definition pelem_ok (x : gval) : Prop :=
  forall ft a rest' p, wf_ty ft = true -> simple_ty ft = true -> noreg_ty ft = true ->
    has_type ft x = true -> no_ptr_to_nil x = true -> marshal default_opts ft x = Ok a ->
    pres_is (prec ft (zero ft) (a ++ rest') p) (normal ft x, rest') (upaths ft x p).

Lemma pslice_loop_rt e p : wf_ty e = true -> simple_ty e = true -> noreg_ty e = true ->
  forall l, Forall pelem_ok l -> all_typed e l = true -> forallb no_ptr_to_nil l = true ->
  forall body, melems default_opts e l = Ok body ->
  forall g acc rest, (length l < g)%nat ->
  pres_is (pslice_loop prec p g e acc (body ++ T KArrayEnd VNone :: rest))
          (acc ++ map (normal e) l, rest) (upl e p l (length acc)).
Proof.
  intros Hwf Hs Hnr. induction 1 as [|x l Hx _ IH]; intros Hty Hnp body Hm g acc rest Hg.
  - injection Hm as <-. destruct g as [|g]; [clear - Hg; cbn in Hg; lia|]. cbn [app pslice_loop map kind].
    rewrite app_nil_r. split; reflexivity.
  - apply melems_cons_inv in Hm. destruct Hm as (a & b & Ha & Hb & ->).
    change (all_typed e (x :: l)) with (has_type e x && all_typed e l) in Hty.
    apply andb_true_iff in Hty. destruct Hty as [Htx Htl].
    cbn [forallb] in Hnp. apply andb_true_iff in Hnp. destruct Hnp as [Hnx Hnl].
    destruct (marshal_head _ _ _ _ Htx Hs Ha) as (tk & r & -> & Hh & _).
    destruct g as [|g]; [clear - Hg; cbn [length] in Hg; lia|]. rewrite <- app_assoc. cbn [app pslice_loop].
    rewrite (head_not_arrend tk Hh).
    change (tk :: r ++ b ++ T KArrayEnd VNone :: rest) with ((tk :: r) ++ b ++ T KArrayEnd VNone :: rest).
    rewrite upl_cons.
    eapply pres_is_pbind; [apply (Hx e (tk :: r) _ _ Hwf Hs Hnr Htx Hnx Ha)|reflexivity|]. cbn [fst snd].
    specialize (IH Htl Hnl b Hb g (acc ++ [normal e x]) rest ltac:(clear - Hg; cbn [length] in Hg; lia)).
    rewrite <- app_assoc in IH. cbn [app] in IH.
    replace (length (acc ++ [normal e x])) with (S (length acc)) in IH by (rewrite app_length; cbn [length]; clear; lia).
    cbn [map]. exact IH.
Qed.

Lemma parr_loop_rt e p : wf_ty e = true -> simple_ty e = true -> noreg_ty e = true ->
  forall l, Forall pelem_ok l -> all_typed e l = true -> forallb no_ptr_to_nil l = true ->
  forall body, melems default_opts e l = Ok body ->
  forall g done rest, (length l < g)%nat ->
  pres_is (parr_loop prec p g e (done ++ repeat (zero e) (length l)) (length done) (body ++ T KArrayEnd VNone :: rest))
          (done ++ map (normal e) l, rest) (upl e p l (length done)).
Proof.
  intros Hwf Hs Hnr. induction 1 as [|x l Hx _ IH]; intros Hty Hnp body Hm g done rest Hg.
  - injection Hm as <-. destruct g as [|g]; [clear - Hg; cbn in Hg; lia|]. cbn [app parr_loop map kind length repeat].
    split; reflexivity.
  - apply melems_cons_inv in Hm. destruct Hm as (a & b & Ha & Hb & ->).
    change (all_typed e (x :: l)) with (has_type e x && all_typed e l) in Hty.
    apply andb_true_iff in Hty. destruct Hty as [Htx Htl].
    cbn [forallb] in Hnp. apply andb_true_iff in Hnp. destruct Hnp as [Hnx Hnl].
    destruct (marshal_head _ _ _ _ Htx Hs Ha) as (tk & r & -> & Hh & _).
    destruct g as [|g]; [clear - Hg; cbn [length] in Hg; lia|]. rewrite <- app_assoc. cbn [app parr_loop length repeat].
    rewrite (head_not_arrend tk Hh).
    assert (Hlen : Nat.leb (length (done ++ zero e :: repeat (zero e) (length l))) (length done) = false).
    { apply Nat.leb_gt. rewrite app_length. cbn [length]. clear. lia. }
    rewrite Hlen, nth_app_here.
    change (tk :: r ++ b ++ T KArrayEnd VNone :: rest) with ((tk :: r) ++ b ++ T KArrayEnd VNone :: rest).
    rewrite upl_cons.
    eapply pres_is_pbind; [apply (Hx e (tk :: r) _ _ Hwf Hs Hnr Htx Hnx Ha)|reflexivity|]. cbn [fst snd].
    rewrite set_nth_app.
    specialize (IH Htl Hnl b Hb g (done ++ [normal e x]) rest ltac:(clear - Hg; cbn [length] in Hg; lia)).
    rewrite <- !app_assoc in IH. cbn [app] in IH.
    replace (length (done ++ [normal e x])) with (S (length done)) in IH by (rewrite app_length; cbn [length]; clear; lia).
    cbn [map]. exact IH.
Qed.

(* ---- struct fields ---- *)
Hypothesis Hname : forall s cur rest' p,
  pres_is (prec TString cur (T KString (VStr s) :: rest') p) (GStr s, rest') [(p, 24)].

Lemma pstruct_loop_rt p : forall l, Forall pelem_ok l ->
  forall fsall pre fs donev body, fsall = pre ++ fs -> names_nodup fsall = true ->
  forallb (fun f => wf_bytesb (fname f) && wf_ty (snd f)) fs = true ->
  forallb (fun f => simple_ty (snd f)) fs = true ->
  forallb (fun f => noreg_ty (snd f)) fs = true ->
  fields_typed l fs = true -> forallb no_ptr_to_nil l = true ->
  mfields default_opts l fs = Ok body -> length donev = length pre ->
  forall g depr rest, (length body < g)%nat ->
  pres_is (pstruct_loop o prec p g fsall depr (donev ++ map (fun fd => zero (snd fd)) fs) (body ++ T KObjectEnd VNone :: rest))
          (donev ++ nfields l fs, rest) (ups p l fs).
Proof.
  induction 1 as [|x l Hx _ IH]; intros fsall pre fs donev body Hall Hnd Hwf Hs Hnr Hty Hnp Hm Hlen g depr rest Hg.
  - destruct fs as [|fd fs]; [|discriminate Hty]. injection Hm as <-.
    destruct g as [|g]; [clear - Hg; cbn in Hg; lia|]. split; reflexivity.
  - destruct fs as [|fd fs]; [discriminate Hty|].
    change (fields_typed (x :: l) (fd :: fs)) with (has_type (snd fd) x && fields_typed l fs) in Hty.
    apply andb_true_iff in Hty. destruct Hty as [Htx Htl].
    cbn [forallb] in Hnp, Hwf, Hs, Hnr.
    apply andb_true_iff in Hnp. destruct Hnp as [Hnx Hnl].
    apply andb_true_iff in Hwf. destruct Hwf as [Hwx Hwl]. apply andb_true_iff in Hwx. destruct Hwx as [_ Hwx].
    apply andb_true_iff in Hs. destruct Hs as [Hsx Hsl].
    apply andb_true_iff in Hnr. destruct Hnr as [Hnrx Hnrl].
    apply mfields_cons_inv in Hm.
    assert (Hnext : forall y body' g', mfields default_opts l fs = Ok body' -> (length body' < g')%nat ->
              pres_is (pstruct_loop o prec p g' fsall depr ((donev ++ [y]) ++ map (fun fd => zero (snd fd)) fs)
                         (body' ++ T KObjectEnd VNone :: rest))
                      ((donev ++ [y]) ++ nfields l fs, rest) (ups p l fs)).
    { intros y body' g' Hb Hg'. apply (IH fsall (pre ++ [fd]) fs (donev ++ [y]) body'); try assumption.
      - rewrite <- app_assoc. exact Hall.
      - rewrite !app_length. cbn [length]. clear - Hlen. lia. }
    change (nfields (x :: l) (fd :: fs)) with
      ((if fexported fd then normal (snd fd) x else zero (snd fd)) :: nfields l fs).
    rewrite ups_cons.
    cbn [map].
    destruct (fexported fd) eqn:Hex; cbn [negb].
    + destruct Hm as (a & b & Ha & Hb & ->).
      destruct g as [|g]; [clear - Hg; cbn [length] in Hg; lia|]. cbn [app pstruct_loop kind].
      change (KString =? KObjectEnd) with false. cbn beta iota.
      eapply pres_is_pbind; [apply Hname|reflexivity|]. cbn [fst snd].
      subst fsall. rewrite (find_field_at pre fd fs 0 Hnd Hex). cbn [Nat.add].
      rewrite <- Hlen, nth_app_here. rewrite <- app_assoc.
      eapply pres_is_pbind; [apply (Hx (snd fd) a _ _ Hwx Hsx Hnrx Htx Hnx Ha)|reflexivity|]. cbn [fst snd].
      rewrite set_nth_app.
      specialize (Hnext (normal (snd fd) x) b g Hb ltac:(clear - Hg; cbn [length] in Hg; rewrite app_length in Hg; lia)).
      rewrite <- !app_assoc in Hnext. cbn [app] in Hnext. exact Hnext.
    + specialize (Hnext (zero (snd fd)) body g Hm ltac:(clear - Hg; cbn [length] in Hg; lia)).
      rewrite <- !app_assoc in Hnext. cbn [app] in Hnext. exact Hnext.
Qed.

End PLoops.

(* ---- the round trip with paths ---- *)
Section PRoundTrip.
Variable pf : bytes -> N -> option N.
Variable o : copts.
Variable R : registry.

(* the result: by erasure from the round trip of the pure model *)
Lemma unmp_rt_fst t v ts rest f p :
  wf_ty t = true -> simple_ty t = true ->
  has_type t v = true -> no_ptr_to_nil v = true ->
  marshal default_opts t v = Ok ts -> (2 * vsize v < f)%nat ->
  fst (unmp pf f o R t (zero t) (ts ++ rest) p) = POk (normal t v, rest).
Proof.
  intros Hwf Hs Hty Hnp Hm Hf. apply erase_ok. rewrite unmp_erase.
  apply roundtrip_simple_fuel; assumption.
Qed.

Definition rtp_ok (v : gval) : Prop :=
  forall t ts, wf_ty t = true -> simple_ty t = true -> noreg_ty t = true ->
    has_type t v = true -> no_ptr_to_nil v = true -> marshal default_opts t v = Ok ts ->
    forall f rest p, (2 * vsize v < f)%nat ->
    log_paths (snd (unmp pf f o R t (zero t) (ts ++ rest) p)) = upaths t v p.

Lemma rtp_elem_ok f l : Forall rtp_ok l -> (2 * lsize l < f)%nat -> Forall (pelem_ok (unmp pf f o R)) l.
Proof.
  induction 1 as [|x l Hx _ IH]; intros Hf; constructor.
  - intros ft a rest' p Hwf Hs Hnr Ht Hn Hm. rewrite lsize_cons in Hf. split.
    + apply unmp_rt_fst; try assumption. clear - Hf. lia.
    + apply Hx; try assumption. clear - Hf. lia.
  - apply IH. rewrite lsize_cons in Hf. clear - Hf. lia.
Qed.

Ltac pleaf Hnr Hm Hf Hut :=
  rewrite (noreg_prefix _ Hnr) in Hm; injection Hm as <-;
  match type of Hf with (_ < ?f)%nat => destruct f as [|f']; [clear - Hf; lia|] end;
  cbn [app]; rewrite unmp_leaf_log; [reflexivity|reflexivity|rewrite Hut; discriminate].

Theorem roundtrip_paths_all : forall v, rtp_ok v.
Proof.
  induction v as [b|z|n|b|b|s|n s|n l IH|n es|l IH| |x IH|d|r|e] using gval_ind2;
    intros t ts Hwf Hs Hnr Hty Hnp Hm f rest p Hf;
    pose proof (simple_underlying t Hs) as Hsu; pose proof (wf_underlying t Hwf) as Hwu;
    pose proof (noreg_underlying t Hnr) as Hnu.
  - (* bool *)
    cbn [has_type] in Hty. destruct (underlying t) eqn:Hut; try discriminate.
    cbn [marshal bind] in Hm. pleaf Hnr Hm Hf Hut.
  - (* int *)
    cbn [has_type marshal] in Hty, Hm. destruct (underlying t) eqn:Hut; try discriminate.
    cbn [bind] in Hm. destruct w; pleaf Hnr Hm Hf Hut.
  - (* uint / uintptr *)
    cbn [has_type marshal] in Hty, Hm. destruct (underlying t) eqn:Hut; try discriminate;
    cbn [bind] in Hm.
    + destruct w; pleaf Hnr Hm Hf Hut.
    + pleaf Hnr Hm Hf Hut.
  - (* float32 *)
    cbn [has_type] in Hty. destruct (underlying t) eqn:Hut; try discriminate.
    cbn [marshal] in Hm. destruct (f32_is_nan b); cbn [bind] in Hm; pleaf Hnr Hm Hf Hut.
  - (* float64 *)
    cbn [has_type] in Hty. destruct (underlying t) eqn:Hut; try discriminate.
    cbn [marshal] in Hm. destruct (f64_is_nan b); cbn [bind] in Hm; pleaf Hnr Hm Hf Hut.
  - (* string *)
    cbn [has_type] in Hty. destruct (underlying t) eqn:Hut; try discriminate.
    cbn [marshal bind] in Hm. pleaf Hnr Hm Hf Hut.
  - (* bytes / byte array *)
    cbn [has_type] in Hty. destruct (underlying t) eqn:Hut; try discriminate;
    cbn [marshal bind] in Hm; pleaf Hnr Hm Hf Hut.
  - (* list: array or slice *)
    rewrite has_type_list in Hty. rewrite marshal_list in Hm. rewrite upaths_list.
    apply bind_ok in Hm. destruct Hm as (ts0 & Hm & Hts). rewrite (noreg_prefix t Hnr) in Hts. injection Hts as <-.
    apply bind_ok in Hm. destruct Hm as (body & Hm & Hts). injection Hts as <-.
    cbn [forallb no_ptr_to_nil] in Hnp. rewrite vsize_list in Hf.
    destruct f as [|f']; [clear - Hf; lia|].
    pose proof (rtp_elem_ok f' l IH ltac:(clear - Hf; lia)) as Hel.
    unfold elem_ty in *.
    destruct (underlying t) eqn:Hut; try discriminate.
    + (* array *)
      cbn [wf_ty simple_ty noreg_ty] in Hwu, Hsu, Hnu.
      apply andb_true_iff in Hty. destruct Hty as [Hty Hall]. apply andb_true_iff in Hty. destruct Hty as [_ Hlen].
      apply Nat.eqb_eq in Hlen.
      cbn [app]. rewrite (unmp_array_step pf o R _ _ _ _ _ _ _ Hut).
      rewrite zero_underlying, Hut. cbn [zero items_of_gval]. rewrite <- Hlen.
      rewrite <- app_assoc. cbn [app].
      pose proof (parr_loop_rt (unmp pf f' o R) _ p Hwu Hsu Hnu l Hel Hall Hnp body Hm
                    (S (length (body ++ T KArrayEnd VNone :: rest))) [] rest) as Hloop.
      cbn [app length] in Hloop.
      assert (Hl : (length l < S (length (body ++ T KArrayEnd VNone :: rest)))%nat).
      { pose proof (melems_length _ _ _ Hall Hsu Hm) as Hl. rewrite app_length. clear - Hl. lia. }
      specialize (Hloop Hl).
      exact (log_tap_bind_pok p KArray (rk_of t) _ (fun r => (GList false (fst r), snd r)) _ _ Hloop).
    + (* slice *)
      cbn [wf_ty simple_ty noreg_ty] in Hwu, Hsu, Hnu.
      apply andb_true_iff in Hty. destruct Hty as [_ Hall].
      cbn [app]. rewrite (unmp_slice_step pf o R _ _ _ _ _ _ Hut).
      rewrite zero_underlying, Hut. cbn [zero items_of_gval is_nil_container].
      rewrite <- app_assoc. cbn [app].
      pose proof (pslice_loop_rt (unmp pf f' o R) _ p Hwu Hsu Hnu l Hel Hall Hnp body Hm
                    (S (length (body ++ T KArrayEnd VNone :: rest))) [] rest) as Hloop.
      cbn [app length] in Hloop.
      assert (Hl : (length l < S (length (body ++ T KArrayEnd VNone :: rest)))%nat).
      { pose proof (melems_length _ _ _ Hall Hsu Hm) as Hl. rewrite app_length. clear - Hl. lia. }
      specialize (Hloop Hl).
      exact (log_tap_bind_pok p KArray (rk_of t) _
               (fun r => (GList (true && match fst r with [] => true | _ => false end) (fst r), snd r)) _ _ Hloop).
  - (* map: excluded *)
    cbn [has_type] in Hty. destruct (underlying t); discriminate.
  - (* struct *)
    rewrite has_type_struct in Hty. rewrite marshal_struct in Hm. rewrite upaths_struct.
    apply bind_ok in Hm. destruct Hm as (ts0 & Hm & Hts). rewrite (noreg_prefix t Hnr) in Hts. injection Hts as <-.
    apply bind_ok in Hm. destruct Hm as (body & Hm & Hts). injection Hts as <-.
    cbn [no_ptr_to_nil] in Hnp. rewrite vsize_struct in Hf.
    destruct f as [|f']; [clear - Hf; lia|].
    pose proof (rtp_elem_ok f' l IH ltac:(clear - Hf; lia)) as Hel.
    unfold fields_of in *.
    destruct (underlying t) eqn:Hut; try discriminate.
    rewrite wf_ty_struct in Hwu. apply andb_true_iff in Hwu. destruct Hwu as [Hwfs Hnd].
    cbn [simple_ty noreg_ty] in Hsu, Hnu.
    cbn [app]. rewrite (unmp_struct_step pf o R _ _ _ _ _ _ Hut).
    rewrite zero_underlying, Hut. cbn [zero]. rewrite <- app_assoc. cbn [app].
    assert (Hnm : forall s cur rest' p', pres_is (unmp pf f' o R TString cur (T KString (VStr s) :: rest') p')
                                                 (GStr s, rest') [(p', 24)]).
    { destruct f' as [|f'']; [clear - Hf; lia|]. intros. rewrite unmp_name. split; reflexivity. }
    pose proof (pstruct_loop_rt o (unmp pf f' o R) Hnm p l Hel fs [] fs [] body eq_refl Hnd Hwfs Hsu Hnu Hty Hnp Hm eq_refl
                  (S (length (body ++ T KObjectEnd VNone :: rest))) (depr_of t) rest) as Hloop.
    cbn [app] in Hloop.
    assert (Hl : (length body < S (length (body ++ T KObjectEnd VNone :: rest)))%nat).
    { rewrite app_length. clear. lia. }
    specialize (Hloop Hl).
    exact (log_tap_bind_pok p KObject (rk_of t) _ (fun r => (GStruct (fst r), snd r)) _ _ Hloop).
  - (* nil pointer *)
    cbn [has_type] in Hty. destruct (underlying t) eqn:Hut; try discriminate.
    cbn [marshal bind] in Hm. rewrite (noreg_prefix t Hnr) in Hm. injection Hm as <-.
    destruct f as [|f']; [clear - Hf; lia|]. cbn [app].
    rewrite unmp_nil_log by (rewrite Hut; discriminate). reflexivity.
  - (* non-nil pointer *)
    cbn [has_type] in Hty. destruct (underlying t) eqn:Hut; try discriminate.
    rewrite marshal_ptr in Hm. rewrite upaths_ptr. unfold pointee_ty in *. rewrite Hut in *.
    apply bind_ok in Hm. destruct Hm as (tsx & Hm & Hts). rewrite (noreg_prefix t Hnr) in Hts. injection Hts as <-.
    cbn [wf_ty simple_ty noreg_ty] in Hwu, Hsu, Hnu.
    assert (Hnx : no_ptr_to_nil x = true /\ x <> GPtr None).
    { cbn [no_ptr_to_nil] in Hnp. destruct x as [| | | | | | | | | |[y|]| | |]; try (split; [exact Hnp|discriminate]).
      discriminate Hnp. }
    destruct Hnx as [Hnx Hxn].
    destruct (marshal_head _ _ _ _ Hty Hsu Hm) as (tk & r & E & Hh & Hnil).
    destruct (marshal_head_nr _ _ _ _ Hty Hsu Hnu Hm) as (tk' & r' & E' & Htn).
    rewrite E in E'. injection E' as <- <-.
    cbn [vsize] in Hf.
    destruct f as [|f1]; [clear - Hf; lia|].
    cbn [app]. rewrite E. cbn [app].
    rewrite (unmp_ptr_step pf o R f1 t _ _ tk _ p Hut Hh Htn) by (intros Hk; apply Hxn, Hnil; assumption).
    change (tk :: r ++ rest) with ((tk :: r) ++ rest). rewrite <- E.
    assert (Hf1 : (2 * vsize x < f1)%nat) by (clear - Hf; lia).
    assert (Hin : pres_is (unmp pf f1 o R t0 (zero t0) (tsx ++ rest) p) (normal t0 x, rest) (upaths t0 x p)).
    { split; [apply unmp_rt_fst; assumption|apply IH; assumption]. }
    exact (log_tap_bind_pok p (kind tk) (rk_of t) _ (fun r => (GPtr (Some (fst r)), snd r)) _ _ Hin).
  - cbn [has_type] in Hty. destruct (underlying t); discriminate.
  - cbn [has_type] in Hty. destruct (underlying t); discriminate.
  - (* time *)
    cbn [has_type] in Hty. destruct (underlying t) eqn:Hut; try discriminate.
    cbn [marshal bind] in Hm. pleaf Hnr Hm Hf Hut.
Qed.

End PRoundTrip.

Theorem unmp_roundtrip_paths : forall pf o R t v ts rest f p,
  wf_ty t = true -> simple_ty t = true -> noreg_ty t = true ->
  has_type t v = true -> no_ptr_to_nil v = true ->
  marshal default_opts t v = Ok ts -> (2 * vsize v < f)%nat ->
  fst (unmp pf f o R t (zero t) (ts ++ rest) p) = POk (normal t v, rest) /\
  log_paths (snd (unmp pf f o R t (zero t) (ts ++ rest) p)) = upaths t v p.
Proof.
  intros pf o R t v ts rest f p Hwf Hs Hnr Hty Hnp Hm Hf. split.
  - apply unmp_rt_fst; assumption.
  - apply (roundtrip_paths_all pf o R v); assumption.
Qed.

(* ---- a concrete instance: a named struct with an exported and an unexported scalar field, a slice of
   pointers to a struct (one of them nil), an array, a pointer to pointer, a named byte array, a time ---- *)
Definition exInner : ty := TStruct [([88], true, TInt WNat); ([121], false, TString)].
Definition exT : ty :=
  TNamed [79] false []
    (TStruct [([65], true, TInt W32);
              ([98], false, TBool);
              ([83], true, TSlice (TPtr exInner));
              ([82], true, TArray 2 TString);
              ([80], true, TPtr (TPtr TBool));
              ([78], true, TNamed [75] false [] (TByteArray 2));
              ([84], true, TTime)]).
Definition exV : gval :=
  GStruct [GInt 7;
           GBool true;
           GList false [GPtr (Some (GStruct [GInt 1; GStr [104]])); GPtr None];
           GList false [GStr [97]; GStr []];
           GPtr (Some (GPtr (Some (GBool true))));
           GBytes false [1; 2];
           GTime zero_time].
Definition exTs : list token := match marshal default_opts exT exV with Ok ts => ts | _ => [] end.


(* the hypotheses of [unmp_roundtrip_paths] hold of (exT, exV), for every parse-float oracle, options,
   registry, continuation of the stream and context path *)
Example unmp_roundtrip_paths_ex pf o R rest p :
  marshal default_opts exT exV = Ok exTs /\
  fst (unmp pf 100 o R exT (zero exT) (exTs ++ rest) p) = POk (normal exT exV, rest) /\
  log_paths (snd (unmp pf 100 o R exT (zero exT) (exTs ++ rest) p)) = upaths exT exV p.
Proof.
  split; [vm_compute; reflexivity|].
  apply unmp_roundtrip_paths; try (vm_compute; reflexivity). vm_compute. lia.
Qed.

(* and its conclusion, computed: under the context path ["r"] the callback sees the struct, each exported
   field's name (read into a string, kind 24) under the struct's path and its value under path ++ [name],
   slice and array elements under path ++ [index], pointees under the pointer's path; the unexported
   fields are not visited *)
Example unmp_roundtrip_paths_computed :
  fst (unmp (fun _ _ => None) 100 default_opts [] exT (zero exT) (exTs ++ [T KBool (VBool true)]) [PStr [114]])
    = POk (normal exT exV, [T KBool (VBool true)]) /\
  log_paths (snd (unmp (fun _ _ => None) 100 default_opts [] exT (zero exT) (exTs ++ [T KBool (VBool true)]) [PStr [114]]))
    = upaths exT exV [PStr [114]] /\
  upaths exT exV [PStr [114]] =
    [([PStr [114]], 25); ([PStr [114]], 24); ([PStr [114]; PStr [65]], 5);
     ([PStr [114]], 24); ([PStr [114]; PStr [83]], 23);
     ([PStr [114]; PStr [83]; PIdx 0], 22);
     ([PStr [114]; PStr [83]; PIdx 0], 25);
     ([PStr [114]; PStr [83]; PIdx 0], 24);
     ([PStr [114]; PStr [83]; PIdx 0; PStr [88]], 2);
     ([PStr [114]; PStr [83]; PIdx 1], 22); ([PStr [114]], 24);
     ([PStr [114]; PStr [82]], 17); ([PStr [114]; PStr [82]; PIdx 0], 24);
     ([PStr [114]; PStr [82]; PIdx 1], 24); ([PStr [114]], 24);
     ([PStr [114]; PStr [80]], 22); ([PStr [114]; PStr [80]], 22);
     ([PStr [114]; PStr [80]], 1); ([PStr [114]], 24);
     ([PStr [114]; PStr [78]], 17); ([PStr [114]], 24);
     ([PStr [114]; PStr [84]], 25)].
Proof. split; [|split]; vm_compute; reflexivity. Qed.

(* erasure, shifting and the first tap on the same instance *)
Example unmp_erase_ex :
  erase (unmp (fun _ _ => None) 100 default_opts [] exT (zero exT) exTs [PStr [114]])
  = unm (fun _ _ => None) 100 default_opts [] exT (zero exT) exTs.
Proof. apply unmp_erase. Qed.

Example unmp_shift_ex :
  snd (unmp (fun _ _ => None) 100 default_opts [] exT (zero exT) exTs ([PStr [114]] ++ [PIdx 3]))
  = shift_log [PStr [114]] (snd (unmp (fun _ _ => None) 100 default_opts [] exT (zero exT) exTs [PIdx 3])).
Proof. rewrite unmp_shift. reflexivity. Qed.

(* an error path extends the context path: a string where field A's int32 is expected *)
Example unmp_paths_extend_ex :
  fst (unmp (fun _ _ => None) 100 default_opts [] exT (zero exT)
         [T KObject VNone; T KString (VStr [65]); T KString (VStr [66])] [PStr [114]])
  = PErr (EMismatch KString 5) [PStr [114]; PStr [65]].
Proof. vm_compute. reflexivity. Qed.

Print Assumptions unmp_erase.
Print Assumptions unmp_shift.
Print Assumptions unmp_paths_extend.
Print Assumptions unmp_first_tap.
Print Assumptions unmp_roundtrip_paths.
