(* Proofs/JsonLawsP.v — laws of the reference semantics of JSON decoding (Spec/JsonDecode.v, jdec)
   that a user of JSON relies on, and their transport to the unmarshaller through
   unm_mirror_jdec (Proofs/JsonDecodeP.v):

     - null leaves a position as it is;
     - without the strict option a member naming no exported field is ignored, whatever it holds
       and wherever it stands; under the strict option (and not declared deprecated) it is rejected;
     - two adjacent members with different names may be swapped (objects are unordered);
     - an array document appends exactly one element per item to what the slice held.

   The member / item loops are the top-level fixpoints jmembers / jitems of JsonDecodeP.v. *)
From Coq Require Import Lia ZifyBool ZifyNat ZifyN Arith List Bool.
From SbModel Require Import Spec.JsonDecode Spec.Conform Proofs.UnmarshalP Proofs.JsonDecodeP.
Import ListNotations.
Local Open Scope N_scope.

(* ====================================================================================== *)
(* Part 1.  Lists, field lookup, well-formed types                                         *)
(* ====================================================================================== *)

Lemma set_nth_comm {A} (a b : A) : forall l i j, i <> j ->
  set_nth i a (set_nth j b l) = set_nth j b (set_nth i a l).
Proof.
  induction l as [|y l IH]; intros [|i] [|j] Hne; cbn [set_nth]; try reflexivity; try congruence.
  f_equal. apply IH. congruence.
Qed.

(* different names resolve to different field indices: find_field returns the FIRST exported field
   of that name, so no well-formedness of the struct is needed *)
Lemma find_field_index_distinct n1 n2 fs i1 ft1 i2 ft2 :
  n1 <> n2 -> find_field n1 fs 0 = Some (i1, ft1) -> find_field n2 fs 0 = Some (i2, ft2) -> i1 <> i2.
Proof.
  intros Hne H1 H2 Heq. subst i2. apply Hne. exact (find_field_inj n1 n2 fs 0%nat i1 ft1 ft2 H1 H2).
Qed.

(* wf_ty reaches the struct a document fills: through the pointer levels and the definitions *)
Lemma wf_ptr_strip t : forall n b, ptr_strip t = (n, b) -> wf_ty t = true -> wf_ty b = true.
Proof.
  induction t; intros n' b'; cbn [ptr_strip]; try (intros [= _ <-] Hw; exact Hw).
  - destruct (ptr_strip t) as [n0 b0] eqn:Hps. intros [= _ <-] Hw. cbn [wf_ty] in Hw.
    exact (IHt n0 b0 eq_refl Hw).
  - destruct (ptr_strip t) as [[|n0] b0] eqn:Hps.
    + intros [= _ <-] Hw. exact Hw.
    + intros [= _ <-] Hw. cbn [wf_ty] in Hw. apply andb_true_iff in Hw.
      exact (IHt (S n0) b0 eq_refl (proj2 Hw)).
Qed.

Lemma wf_ptr_strip_struct t n b fs :
  ptr_strip t = (n, b) -> underlying b = TStruct fs -> wf_ty t = true -> names_nodup fs = true.
Proof.
  intros Hps Hut Hw. pose proof (wf_underlying b (wf_ptr_strip t n b Hps Hw)) as Hwu.
  rewrite Hut, wf_ty_struct in Hwu. apply andb_true_iff in Hwu. exact (proj2 Hwu).
Qed.

(* ====================================================================================== *)
(* Part 2.  Laws of the member loop and of the item loop                                   *)
(* ====================================================================================== *)

Section Members.
Variable dec : ty -> gval -> json -> res gval.
Variable o : copts.
Variable fs : list (bytes * bool * ty).
Variable depr : list bytes.

Lemma jmembers_app l1 : forall l2 vals,
  jmembers dec o fs depr (l1 ++ l2) vals =
  bind (jmembers dec o fs depr l1 vals) (fun vals' => jmembers dec o fs depr l2 vals').
Proof.
  induction l1 as [|m l1 IH]; intros l2 vals; cbn [app jmembers bind]; [reflexivity|].
  destruct (find_field (fst m) fs 0) as [[i ft]|].
  - destruct (dec ft (nth i vals (zero ft)) (snd m)) as [v|e|]; cbn [bind];
      [apply IH|reflexivity|reflexivity].
  - destruct (strict o && negb (existsb (bytes_eqb (fst m)) depr)); [reflexivity|apply IH].
Qed.

Lemma jmembers_skip name x l vals :
  find_field name fs 0 = None -> strict o = false ->
  jmembers dec o fs depr ((name, x) :: l) vals = jmembers dec o fs depr l vals.
Proof. intros Hff Hs. cbn [jmembers fst]. rewrite Hff, Hs. reflexivity. Qed.

Lemma jmembers_skip_depr name x l vals :
  find_field name fs 0 = None -> existsb (bytes_eqb name) depr = true ->
  jmembers dec o fs depr ((name, x) :: l) vals = jmembers dec o fs depr l vals.
Proof. intros Hff Hd. cbn [jmembers fst]. rewrite Hff, Hd, andb_false_r. reflexivity. Qed.

Lemma jmembers_reject name x l vals :
  find_field name fs 0 = None -> strict o = true -> existsb (bytes_eqb name) depr = false ->
  jmembers dec o fs depr ((name, x) :: l) vals = Err EUnknownField.
Proof. intros Hff Hs Hd. cbn [jmembers fst]. rewrite Hff, Hs, Hd. reflexivity. Qed.

(* two adjacent members with different names: a successful run does not depend on their order *)
Lemma jmembers_swap m1 m2 l vals r :
  fst m1 <> fst m2 ->
  jmembers dec o fs depr (m1 :: m2 :: l) vals = Ok r ->
  jmembers dec o fs depr (m2 :: m1 :: l) vals = Ok r.
Proof.
  intros Hne. cbn [jmembers].
  destruct (find_field (fst m1) fs 0) as [[i1 ft1]|] eqn:H1;
    destruct (find_field (fst m2) fs 0) as [[i2 ft2]|] eqn:H2.
  - pose proof (find_field_index_distinct _ _ _ _ _ _ _ Hne H1 H2) as Hi.
    destruct (dec ft1 (nth i1 vals (zero ft1)) (snd m1)) as [v1|e1|] eqn:D1; cbn [bind];
      [|intros H; discriminate H|intros H; discriminate H].
    rewrite (nth_set_nth_other v1 (zero ft2) vals i1 i2 Hi).
    destruct (dec ft2 (nth i2 vals (zero ft2)) (snd m2)) as [v2|e2|] eqn:D2; cbn [bind];
      [|intros H; discriminate H|intros H; discriminate H].
    rewrite (nth_set_nth_other v2 (zero ft1) vals i2 i1) by congruence.
    rewrite D1. cbn [bind]. rewrite (set_nth_comm v1 v2 vals i1 i2 Hi). intros H. exact H.
  - destruct (strict o && negb (existsb (bytes_eqb (fst m2)) depr)).
    + destruct (dec ft1 (nth i1 vals (zero ft1)) (snd m1)); cbn [bind]; intros H; discriminate H.
    + intros H. exact H.
  - destruct (strict o && negb (existsb (bytes_eqb (fst m1)) depr)).
    + intros H. discriminate H.
    + intros H. exact H.
  - destruct (strict o && negb (existsb (bytes_eqb (fst m1)) depr));
      destruct (strict o && negb (existsb (bytes_eqb (fst m2)) depr));
      intros H; first [discriminate H | exact H].
Qed.

Lemma jmembers_swap_at l1 m1 m2 l2 vals r :
  fst m1 <> fst m2 ->
  jmembers dec o fs depr (l1 ++ m1 :: m2 :: l2) vals = Ok r ->
  jmembers dec o fs depr (l1 ++ m2 :: m1 :: l2) vals = Ok r.
Proof.
  intros Hne. rewrite !jmembers_app.
  destruct (jmembers dec o fs depr l1 vals) as [vals1|e|]; cbn [bind];
    [|intros H; exact H|intros H; exact H].
  apply jmembers_swap. exact Hne.
Qed.

(* one result per item, appended *)
Lemma jitems_appends e items : forall acc r,
  jitems dec e items acc = Ok r -> exists vs, r = acc ++ vs /\ length vs = length items.
Proof.
  induction items as [|x items IH]; intros acc r; cbn [jitems].
  - intros [= <-]. exists []. split; [symmetry; apply app_nil_r|reflexivity].
  - destruct (dec e (zero e) x) as [v|er|]; cbn [bind]; [|intros H; discriminate H|intros H; discriminate H].
    intros H. destruct (IH _ _ H) as (vs & -> & Hl). exists (v :: vs).
    split; [rewrite <- app_assoc; reflexivity|cbn [length]; lia].
Qed.

End Members.

(* ====================================================================================== *)
(* Part 3.  jdec on an object / on an array                                                *)
(* ====================================================================================== *)

(* the content the document meets: the position itself, or a fresh pointee *)
Definition slot (n : nat) (b : ty) (cur : gval) : gval := match n with O => cur | S _ => zero b end.

(* the field values the member loop starts from *)
Definition vals0 (fs : list (bytes * bool * ty)) (cur0 : gval) : list gval :=
  match cur0 with GStruct vs => vs | _ => map (fun fd => zero (snd fd)) fs end.

Lemma jdec_obj pf o t cur ms n b fs :
  ptr_strip t = (n, b) -> underlying b = TStruct fs ->
  jdec pf o t cur (JObj ms) =
  bind (jmembers (jdec pf o) o fs (depr_of b) ms (vals0 fs (slot n b cur)))
       (fun vals => Ok (wrap_ptr n (GStruct vals))).
Proof.
  intros Hps Hut. rewrite (jdec_eq pf o t cur (JObj ms) n b Hps) by discriminate.
  unfold jbase. rewrite Hut. cbv zeta. fold (slot n b cur). fold (vals0 fs (slot n b cur)).
  destruct (jmembers (jdec pf o) o fs (depr_of b) ms (vals0 fs (slot n b cur))); reflexivity.
Qed.

Lemma jdec_obj_not_struct pf o t cur ms n b :
  ptr_strip t = (n, b) -> (forall fs, underlying b <> TStruct fs) ->
  jdec pf o t cur (JObj ms) = Err (EMismatch KObject (rk_of b)).
Proof.
  intros Hps Hut. rewrite (jdec_eq pf o t cur (JObj ms) n b Hps) by discriminate.
  unfold jbase. destruct (underlying b) eqn:E; try reflexivity. exfalso. exact (Hut _ eq_refl).
Qed.

Lemma jdec_arr pf o t cur items n b e :
  ptr_strip t = (n, b) -> underlying b = TSlice e ->
  jdec pf o t cur (JArr items) =
  bind (jitems (jdec pf o) e items (items_of_gval (slot n b cur)))
       (fun acc => Ok (wrap_ptr n (GList (is_nil_container (slot n b cur) &&
                                          match acc with [] => true | _ => false end) acc))).
Proof.
  intros Hps Hut. rewrite (jdec_eq pf o t cur (JArr items) n b Hps) by discriminate.
  unfold jbase. rewrite Hut. fold (slot n b cur).
  destruct (jitems (jdec pf o) e items (items_of_gval (slot n b cur))); reflexivity.
Qed.

(* ====================================================================================== *)
(* Part 4.  The laws                                                                       *)
(* ====================================================================================== *)

(* 1 *)
Theorem jdec_null_identity : forall pf o t cur, jdec pf o t cur JNull = Ok cur.
Proof. intros pf o t cur. reflexivity. Qed.

(* 2 *)
Theorem jdec_unknown_member_ignored : forall pf o t cur l1 name x l2 n b fs,
  ptr_strip t = (n, b) -> underlying b = TStruct fs -> find_field name fs 0 = None -> strict o = false ->
  jdec pf o t cur (JObj (l1 ++ (name, x) :: l2)) = jdec pf o t cur (JObj (l1 ++ l2)).
Proof.
  intros pf o t cur l1 name x l2 n b fs Hps Hut Hff Hs.
  rewrite !(jdec_obj pf o t cur _ n b fs Hps Hut), !jmembers_app.
  destruct (jmembers (jdec pf o) o fs (depr_of b) l1 (vals0 fs (slot n b cur))) as [vals1|e|];
    cbn [bind]; [|reflexivity|reflexivity].
  rewrite (jmembers_skip (jdec pf o) o fs (depr_of b) name x l2 vals1 Hff Hs). reflexivity.
Qed.

(* the same for a name the target's type declares deprecated, strict or not *)
Theorem jdec_deprecated_member_ignored : forall pf o t cur l1 name x l2 n b fs,
  ptr_strip t = (n, b) -> underlying b = TStruct fs -> find_field name fs 0 = None ->
  existsb (bytes_eqb name) (depr_of b) = true ->
  jdec pf o t cur (JObj (l1 ++ (name, x) :: l2)) = jdec pf o t cur (JObj (l1 ++ l2)).
Proof.
  intros pf o t cur l1 name x l2 n b fs Hps Hut Hff Hd.
  rewrite !(jdec_obj pf o t cur _ n b fs Hps Hut), !jmembers_app.
  destruct (jmembers (jdec pf o) o fs (depr_of b) l1 (vals0 fs (slot n b cur))) as [vals1|e|];
    cbn [bind]; [|reflexivity|reflexivity].
  rewrite (jmembers_skip_depr (jdec pf o) o fs (depr_of b) name x l2 vals1 Hff Hd). reflexivity.
Qed.

(* 3.  "The members of l1 decode successfully" is stated as: the object made of l1 alone decodes
   successfully, [exists v, jdec pf o t cur (JObj l1) = Ok v].  That premise makes the one on the
   names of l1 redundant (it is kept, unused, to match the requested statement; the _strong form
   below drops it). *)
Theorem jdec_strict_unknown_rejected_strong : forall pf o t cur l1 name x l2 n b fs,
  ptr_strip t = (n, b) -> underlying b = TStruct fs -> find_field name fs 0 = None -> strict o = true ->
  existsb (bytes_eqb name) (depr_of b) = false ->
  (exists v, jdec pf o t cur (JObj l1) = Ok v) ->
  jdec pf o t cur (JObj (l1 ++ (name, x) :: l2)) = Err EUnknownField.
Proof.
  intros pf o t cur l1 name x l2 n b fs Hps Hut Hff Hs Hd (v & Hv).
  rewrite (jdec_obj pf o t cur _ n b fs Hps Hut) in Hv.
  rewrite (jdec_obj pf o t cur _ n b fs Hps Hut), jmembers_app.
  destruct (jmembers (jdec pf o) o fs (depr_of b) l1 (vals0 fs (slot n b cur))) as [vals1|e|];
    cbn [bind] in Hv |- *; [|discriminate Hv|discriminate Hv].
  rewrite (jmembers_reject (jdec pf o) o fs (depr_of b) name x l2 vals1 Hff Hs Hd). reflexivity.
Qed.

Theorem jdec_strict_unknown_rejected : forall pf o t cur l1 name x l2 n b fs,
  ptr_strip t = (n, b) -> underlying b = TStruct fs -> find_field name fs 0 = None -> strict o = true ->
  existsb (bytes_eqb name) (depr_of b) = false ->
  (forall m, In m l1 -> exists i ft, find_field (fst m) fs 0 = Some (i, ft)) ->
  (exists v, jdec pf o t cur (JObj l1) = Ok v) ->
  jdec pf o t cur (JObj (l1 ++ (name, x) :: l2)) = Err EUnknownField.
Proof.
  intros pf o t cur l1 name x l2 n b fs Hps Hut Hff Hs Hd _ Hv.
  exact (jdec_strict_unknown_rejected_strong pf o t cur l1 name x l2 n b fs Hps Hut Hff Hs Hd Hv).
Qed.

(* 4.  No well-formedness of the target is needed: find_field resolves a name to the first exported
   field of that name, so different names give different indices in any struct. *)
Theorem jdec_members_commute_any : forall pf o t cur l1 m1 m2 l2 v,
  fst m1 <> fst m2 ->
  jdec pf o t cur (JObj (l1 ++ m1 :: m2 :: l2)) = Ok v ->
  jdec pf o t cur (JObj (l1 ++ m2 :: m1 :: l2)) = Ok v.
Proof.
  intros pf o t cur l1 m1 m2 l2 v Hne.
  destruct (ptr_strip t) as [n b] eqn:Hps.
  rewrite !(jdec_eq pf o t cur _ n b Hps) by discriminate. unfold jbase.
  destruct (underlying b) as [| | | | | | | | | | | |fs| | | | |] eqn:Hut; try (intros H; exact H).
  cbv zeta. fold (slot n b cur). fold (vals0 fs (slot n b cur)).
  destruct (jmembers (jdec pf o) o fs (depr_of b) (l1 ++ m1 :: m2 :: l2) (vals0 fs (slot n b cur)))
    as [r|e|] eqn:Hm; cbn [bind]; [|intros H; discriminate H|intros H; discriminate H].
  rewrite (jmembers_swap_at (jdec pf o) o fs (depr_of b) l1 m1 m2 l2 _ r Hne Hm). cbn [bind].
  intros H. exact H.
Qed.

Theorem jdec_members_commute : forall pf o t cur l1 m1 m2 l2 v,
  fst m1 <> fst m2 ->
  wf_ty t = true ->
  jdec pf o t cur (JObj (l1 ++ m1 :: m2 :: l2)) = Ok v ->
  jdec pf o t cur (JObj (l1 ++ m2 :: m1 :: l2)) = Ok v.
Proof.
  intros pf o t cur l1 m1 m2 l2 v Hne _. apply jdec_members_commute_any. exact Hne.
Qed.

(* 5 *)
Theorem jdec_array_appends : forall pf o t cur items n b e v,
  ptr_strip t = (n, b) -> underlying b = TSlice e ->
  jdec pf o t cur (JArr items) = Ok v ->
  exists vs,
    v = wrap_ptr n (GList (is_nil_container (match n with O => cur | S _ => zero b end) &&
                           match (items_of_gval (match n with O => cur | S _ => zero b end)) ++ vs with
                           | [] => true | _ => false end)
                          ((items_of_gval (match n with O => cur | S _ => zero b end)) ++ vs)) /\
    length vs = length items.
Proof.
  intros pf o t cur items n b e v Hps Hut. rewrite (jdec_arr pf o t cur items n b e Hps Hut).
  fold (slot n b cur).
  destruct (jitems (jdec pf o) e items (items_of_gval (slot n b cur))) as [acc|er|] eqn:Hj; cbn [bind];
    [|intros H; discriminate H|intros H; discriminate H].
  intros [= <-]. destruct (jitems_appends (jdec pf o) e items _ _ Hj) as (vs & -> & Hl).
  exists vs. split; [reflexivity|exact Hl].
Qed.

(* the same with the local definition [slot] *)
Corollary jdec_array_appends_slot : forall pf o t cur items n b e v,
  ptr_strip t = (n, b) -> underlying b = TSlice e ->
  jdec pf o t cur (JArr items) = Ok v ->
  exists vs,
    v = wrap_ptr n (GList (is_nil_container (slot n b cur) &&
                           match items_of_gval (slot n b cur) ++ vs with [] => true | _ => false end)
                          (items_of_gval (slot n b cur) ++ vs)) /\
    length vs = length items.
Proof. exact jdec_array_appends. Qed.

(* ====================================================================================== *)
(* Part 5.  Transport to the unmarshaller                                                  *)
(* ====================================================================================== *)

(* the converse of unm_mirror_jdec_ok *)
Lemma unm_ok_jdec pf o R t cur j rest v :
  jtarget t = true ->
  (exists f0, forall f, (f0 <= f)%nat -> unm pf f o R t cur (mirror j ++ rest) = Ok (v, rest)) ->
  jdec pf o t cur j = Ok v.
Proof.
  intros Ht (f0 & H0). destruct (unm_mirror_jdec pf o R t cur j rest Ht) as (f1 & H1).
  specialize (H0 (Nat.max f0 f1) (Nat.le_max_l f0 f1)).
  specialize (H1 (Nat.max f0 f1) (Nat.le_max_r f0 f1)).
  rewrite H0 in H1. destruct (jdec pf o t cur j) as [v'|e|]; [|discriminate H1|discriminate H1].
  injection H1 as ->. reflexivity.
Qed.

(* 6 *)
Corollary unm_json_member_order : forall pf o R t cur l1 m1 m2 l2 v rest,
  jtarget t = true -> wf_ty t = true -> fst m1 <> fst m2 ->
  (exists f0, forall f, (f0 <= f)%nat ->
     unm pf f o R t cur (mirror (JObj (l1 ++ m1 :: m2 :: l2)) ++ rest) = Ok (v, rest)) ->
  exists f0, forall f, (f0 <= f)%nat ->
     unm pf f o R t cur (mirror (JObj (l1 ++ m2 :: m1 :: l2)) ++ rest) = Ok (v, rest).
Proof.
  intros pf o R t cur l1 m1 m2 l2 v rest Ht Hw Hne Hu.
  apply unm_mirror_jdec_ok; [exact Ht|].
  apply jdec_members_commute; [exact Hne|exact Hw|].
  exact (unm_ok_jdec pf o R t cur _ rest v Ht Hu).
Qed.

Corollary unm_json_unknown_member : forall pf o R t cur l1 name x l2 n b fs rest,
  jtarget t = true ->
  ptr_strip t = (n, b) -> underlying b = TStruct fs -> find_field name fs 0 = None -> strict o = false ->
  exists f0, forall f, (f0 <= f)%nat ->
    unm pf f o R t cur (mirror (JObj (l1 ++ (name, x) :: l2)) ++ rest) =
    unm pf f o R t cur (mirror (JObj (l1 ++ l2)) ++ rest).
Proof.
  intros pf o R t cur l1 name x l2 n b fs rest Ht Hps Hut Hff Hs.
  destruct (unm_mirror_jdec pf o R t cur (JObj (l1 ++ (name, x) :: l2)) rest Ht) as (f1 & H1).
  destruct (unm_mirror_jdec pf o R t cur (JObj (l1 ++ l2)) rest Ht) as (f2 & H2).
  exists (Nat.max f1 f2). intros f Hf.
  rewrite (H1 f) by lia. rewrite (H2 f) by lia.
  rewrite (jdec_unknown_member_ignored pf o t cur l1 name x l2 n b fs Hps Hut Hff Hs). reflexivity.
Qed.

(* under the strict option the unmarshaller rejects the stream *)
Corollary unm_json_strict_unknown_member : forall pf o R t cur l1 name x l2 n b fs rest,
  jtarget t = true ->
  ptr_strip t = (n, b) -> underlying b = TStruct fs -> find_field name fs 0 = None -> strict o = true ->
  existsb (bytes_eqb name) (depr_of b) = false ->
  (exists v, jdec pf o t cur (JObj l1) = Ok v) ->
  exists f0, forall f, (f0 <= f)%nat ->
    unm pf f o R t cur (mirror (JObj (l1 ++ (name, x) :: l2)) ++ rest) = Err EUnknownField.
Proof.
  intros pf o R t cur l1 name x l2 n b fs rest Ht Hps Hut Hff Hs Hd Hv.
  apply unm_mirror_jdec_err; [exact Ht|].
  exact (jdec_strict_unknown_rejected_strong pf o t cur l1 name x l2 n b fs Hps Hut Hff Hs Hd Hv).
Qed.

(* ====================================================================================== *)
(* Part 6.  Examples                                                                       *)
(* ====================================================================================== *)

(* type P struct { A int8; B []*int16; C string; d bool }, declaring "Old" deprecated; target *P *)
Definition lx_struct : list (bytes * bool * ty) :=
  [([65], true, TInt W8); ([66], true, TSlice (TPtr (TInt W16))); ([67], true, TString); ([100], false, TBool)].
Definition lx_named : ty := TNamed [80] false [[79; 108; 100]] (TStruct lx_struct).
Definition lx_ty : ty := TPtr lx_named.

Example lx_target : jtarget lx_ty = true /\ wf_ty lx_ty = true /\
  ptr_strip lx_ty = (1%nat, lx_named) /\ underlying lx_named = TStruct lx_struct.
Proof. repeat split; reflexivity. Qed.

Definition lx_A : bytes * json := ([65], JNum [53]).                                  (* "A": 5 *)
Definition lx_B : bytes * json := ([66], JArr [JNum [55]; JNull; JNum [45; 51]]).     (* "B": [7, null, -3] *)
Definition lx_C : bytes * json := ([67], JStr [104; 105]).                            (* "C": "hi" *)
Definition lx_X : json := JArr [JNum [49]; JObj [([65], JStr [120])]].                (* [1, {"A": "x"}] *)

Definition lx_val : gval :=
  GPtr (Some (GStruct [GInt 5; GList false [GPtr (Some (GInt 7)); GPtr None; GPtr (Some (GInt (-3)))];
                       GStr [104; 105]; GBool false])).

(* 2: {"A":5, "X":[1,{"A":"x"}], "B":[7,null,-3], "C":"hi"} against {"A":5, "B":..., "C":"hi"};
   "d" names an unexported field: unknown as well *)
Example lx_unknown_hyps :
  find_field [88] lx_struct 0 = None /\ find_field [100] lx_struct 0 = None /\ strict default_opts = false.
Proof. repeat split; reflexivity. Qed.

Example lx_unknown_ignored :
  jdec ex_pf default_opts lx_ty (GPtr None) (JObj ([lx_A] ++ ([88], lx_X) :: [lx_B; lx_C])) =
  jdec ex_pf default_opts lx_ty (GPtr None) (JObj ([lx_A] ++ [lx_B; lx_C])).
Proof.
  apply (jdec_unknown_member_ignored ex_pf default_opts lx_ty (GPtr None) [lx_A] [88] lx_X [lx_B; lx_C]
           1%nat lx_named lx_struct); reflexivity.
Qed.

Example lx_unknown_ignored_value :
  jdec ex_pf default_opts lx_ty (GPtr None) (JObj ([lx_A] ++ ([88], lx_X) :: [lx_B; lx_C])) = Ok lx_val /\
  jdec ex_pf default_opts lx_ty (GPtr None) (JObj ([lx_A] ++ ([100], JBool true) :: [lx_B; lx_C])) = Ok lx_val /\
  jdec ex_pf default_opts lx_ty (GPtr None) (JObj ([lx_A] ++ [lx_B; lx_C])) = Ok lx_val.
Proof. vm_compute. repeat split; reflexivity. Qed.

Example lx_unknown_unm :
  unm ex_pf 200 default_opts [] lx_ty (GPtr None)
      (mirror (JObj ([lx_A] ++ ([88], lx_X) :: [lx_B; lx_C])) ++ [T KNil VNone]) =
  unm ex_pf 200 default_opts [] lx_ty (GPtr None)
      (mirror (JObj ([lx_A] ++ [lx_B; lx_C])) ++ [T KNil VNone]).
Proof. vm_compute. reflexivity. Qed.

(* 3: strict; "X" rejected after "A" decoded; the deprecated name "Old" passes *)
Example lx_strict_rejected :
  jdec ex_pf (Opts false true false) lx_ty (GPtr None) (JObj ([lx_A] ++ ([88], lx_X) :: [lx_B; lx_C])) =
  Err EUnknownField.
Proof.
  apply (jdec_strict_unknown_rejected ex_pf (Opts false true false) lx_ty (GPtr None) [lx_A] [88] lx_X
           [lx_B; lx_C] 1%nat lx_named lx_struct); try reflexivity.
  - intros m [<- | []]. exists 0%nat, (TInt W8). reflexivity.
  - eexists. vm_compute. reflexivity.
Qed.

Example lx_strict_deprecated :
  jdec ex_pf (Opts false true false) lx_ty (GPtr None)
       (JObj ([lx_A] ++ ([79; 108; 100], lx_X) :: [lx_B; lx_C])) = Ok lx_val.
Proof. vm_compute. reflexivity. Qed.

(* 4: {"A":5, "B":[...], "C":"hi"} and {"A":5, "C":"hi", "B":[...]} *)
Example lx_commute_value :
  jdec ex_pf default_opts lx_ty (GPtr None) (JObj ([lx_A] ++ lx_B :: lx_C :: [])) = Ok lx_val.
Proof. vm_compute. reflexivity. Qed.

Example lx_commute :
  jdec ex_pf default_opts lx_ty (GPtr None) (JObj ([lx_A] ++ lx_C :: lx_B :: [])) = Ok lx_val.
Proof.
  apply jdec_members_commute; [discriminate|reflexivity|exact lx_commute_value].
Qed.

Example lx_commute_direct :
  jdec ex_pf default_opts lx_ty (GPtr None) (JObj ([lx_A] ++ lx_C :: lx_B :: [])) = Ok lx_val.
Proof. vm_compute. reflexivity. Qed.

(* the premise on the names is needed: with a repeated name the later member wins *)
Example lx_same_name_order_matters :
  jdec ex_pf default_opts lx_ty (GPtr None) (JObj [([65], JNum [53]); ([65], JNum [54])]) <>
  jdec ex_pf default_opts lx_ty (GPtr None) (JObj [([65], JNum [54]); ([65], JNum [53])]).
Proof. vm_compute. discriminate. Qed.

(* 5: [7, null, -3] into a []*int16 holding one element already; and into a nil slice behind a pointer *)
Definition lx_slice : ty := TSlice (TPtr (TInt W16)).

Example lx_array_appends :
  jdec ex_pf default_opts lx_slice (GList false [GPtr (Some (GInt 1))]) (snd lx_B) =
  Ok (GList false ([GPtr (Some (GInt 1))] ++ [GPtr (Some (GInt 7)); GPtr None; GPtr (Some (GInt (-3)))])).
Proof. vm_compute. reflexivity. Qed.

Example lx_array_appends_thm : exists vs,
  GList false [GPtr (Some (GInt 1)); GPtr (Some (GInt 7)); GPtr None; GPtr (Some (GInt (-3)))] =
  GList false ([GPtr (Some (GInt 1))] ++ vs) /\ length vs = 3%nat.
Proof.
  destruct (jdec_array_appends ex_pf default_opts lx_slice (GList false [GPtr (Some (GInt 1))])
              [JNum [55]; JNull; JNum [45; 51]] 0%nat lx_slice (TPtr (TInt W16))
              (GList false [GPtr (Some (GInt 1)); GPtr (Some (GInt 7)); GPtr None; GPtr (Some (GInt (-3)))])
              eq_refl eq_refl) as (vs & Hv & Hl).
  - vm_compute. reflexivity.
  - exists vs. split; [exact Hv|exact Hl].
Qed.

Example lx_array_ptr_nil_stays_nil :
  jdec ex_pf default_opts (TPtr lx_slice) (GPtr None) (JArr []) = Ok (GPtr (Some (GList true []))) /\
  jdec ex_pf default_opts (TPtr lx_slice) (GPtr None) (JArr [JNull]) = Ok (GPtr (Some (GList false [GPtr None]))).
Proof. vm_compute. split; reflexivity. Qed.

Print Assumptions jdec_null_identity.
Print Assumptions jdec_unknown_member_ignored.
Print Assumptions jdec_deprecated_member_ignored.
Print Assumptions jdec_strict_unknown_rejected.
Print Assumptions jdec_strict_unknown_rejected_strong.
Print Assumptions jdec_members_commute.
Print Assumptions jdec_members_commute_any.
Print Assumptions jdec_array_appends.
Print Assumptions unm_json_member_order.
Print Assumptions unm_json_unknown_member.
Print Assumptions unm_json_strict_unknown_member.
