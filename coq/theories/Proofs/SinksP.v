(* Proofs/SinksP.v — C14: Copy delivers every token exactly once and in order to every live
   sink (also with a failing source / a failing sink), and the sink combinators
   (FilterSink, ConcatSinks, CollectValueTokens, AltSink) do what they promise. *)
From Coq Require Import List NArith ZArith Bool Arith Lia ZifyBool ZifyNat ZifyN Permutation.
From SbModel Require Import Base.Tokens Base.Values Model.Sinks Model.Procs Spec.StreamSpec.
Import ListNotations.

(* ------------------------------------------------------------------ *)
(* generalities                                                        *)
(* ------------------------------------------------------------------ *)

(* swap-with-last deletion, on the part of the slice after the deleted element *)
Definition swapl (rest : list sink) : list sink :=
  match rest with [] => [] | _ => last rest SNil :: removelast rest end.

Lemma swapl_perm rest : Permutation (swapl rest) rest.
Proof.
  destruct rest as [|x l]; [constructor|].
  unfold swapl.
  assert (H : x :: l <> []) by discriminate.
  rewrite (app_removelast_last SNil H) at 3.
  apply Permutation_cons_append.
Qed.

Lemma swapl_length rest : length (swapl rest) = length rest.
Proof. apply Permutation_length, swapl_perm. Qed.

Definition log_of (id : nat) (lg : list delivery) : list (option token) :=
  map snd (filter (fun d => Nat.eqb (fst d) id) lg).

Lemma log_of_app id a b : log_of id (a ++ b) = log_of id a ++ log_of id b.
Proof. unfold log_of. now rewrite filter_app, map_app. Qed.

Lemma log_of_one id i t : log_of id [(i, t)] = if Nat.eqb i id then [t] else [].
Proof. unfold log_of. cbn [filter fst]. destruct (Nat.eqb i id); reflexivity. Qed.

(* the sinks Copy is analysed with: nil, recorders, and the failing test sink *)
Definition sid (s : sink) : option nat :=
  match s with SRec i _ | SFail i _ => Some i | _ => None end.
Definition simple (s : sink) : Prop :=
  match s with SNil | SRec _ _ | SFail _ _ => True | _ => False end.
Definition has_id (id : nat) (s : sink) : bool :=
  match sid s with Some i => Nat.eqb i id | None => false end.
Definition ids (l : list sink) : list nat :=
  flat_map (fun s => match sid s with Some i => [i] | None => [] end) l.
Definition feeds_ok (t : option token) (s : sink) : Prop :=
  match feed s t with FOk _ _ => True | FErr _ _ => False end.

(* the live sinks after every one of them has been offered t *)
Definition upd1 (t : option token) (s : sink) : list sink :=
  if is_nil s then []
  else match feed s t with
       | FOk s' _ => if is_nil s' then [] else [s']
       | FErr _ _ => []
       end.
Definition upd (t : option token) (l : list sink) : list sink := flat_map (upd1 t) l.

Lemma ids_perm a b : Permutation a b -> Permutation (ids a) (ids b).
Proof. intros H. unfold ids. now apply Permutation_flat_map. Qed.

Lemma upd_perm t a b : Permutation a b -> Permutation (upd t a) (upd t b).
Proof. intros H. unfold upd. now apply Permutation_flat_map. Qed.

Lemma ids_cons s l : ids (s :: l) = match sid s with Some i => [i] | None => [] end ++ ids l.
Proof. reflexivity. Qed.

Lemma in_ids id l : In id (ids l) <-> exists s, In s l /\ sid s = Some id.
Proof.
  unfold ids. rewrite in_flat_map. split.
  - intros (s & Hs & Hi). exists s. split; [assumption|].
    destruct (sid s) as [i|]; [|destruct Hi]. destruct Hi as [->|[]]. reflexivity.
  - intros (s & Hs & Hi). exists s. split; [assumption|]. rewrite Hi. now left.
Qed.

Lemma filter_perm_len (f : sink -> bool) a b :
  Permutation a b -> length (filter f a) = length (filter f b).
Proof.
  induction 1 as [|x a b Hp IH|x y a|a b c H1 IH1 H2 IH2]; cbn [filter].
  - reflexivity.
  - destruct (f x); cbn [length]; now rewrite IH.
  - destruct (f x), (f y); reflexivity.
  - now rewrite IH1.
Qed.

Lemma map_const_len {A B} (c : B) (a b : list A) :
  length a = length b -> map (fun _ => c) a = map (fun _ => c) b.
Proof.
  revert b; induction a as [|x a IH]; intros [|y b] H; cbn in *; try discriminate; [reflexivity|].
  f_equal. apply IH. lia.
Qed.

Lemma filter_has_id_none id l : ~ In id (ids l) -> filter (has_id id) l = [].
Proof.
  induction l as [|x l IH]; [reflexivity|]. rewrite ids_cons. intros Hn. cbn [filter].
  unfold has_id at 1. destruct (sid x) as [i|] eqn:Ei.
  - destruct (Nat.eqb_spec i id) as [E|E].
    + exfalso. apply Hn. subst i. now left.
    + apply IH. intros H. apply Hn. now right.
  - apply IH. intros H. apply Hn. exact H.
Qed.

Lemma filter_has_id_single id l s :
  NoDup (ids l) -> In s l -> sid s = Some id -> filter (has_id id) l = [s].
Proof.
  induction l as [|x l IH]; [intros _ []|]. rewrite ids_cons. intros Hnd Hin Hs. cbn [filter].
  destruct Hin as [->|Hin].
  - rewrite Hs in Hnd. cbn [app] in Hnd. inversion Hnd as [|? ? Hnin Hnd']; subst.
    unfold has_id at 1. rewrite Hs, Nat.eqb_refl. f_equal. now apply filter_has_id_none.
  - unfold has_id at 1. destruct (sid x) as [i|] eqn:Ei.
    + cbn [app] in Hnd. inversion Hnd as [|? ? Hnin Hnd']; subst.
      destruct (Nat.eqb_spec i id) as [E|E].
      * exfalso. apply Hnin. subst i. apply in_ids. now exists s.
      * now apply IH.
    + now apply IH.
Qed.

(* one call of a simple sink *)
Lemma feed_simple s t : simple s -> is_nil s = false ->
  exists id, sid s = Some id /\
    ((exists s', feed s t = FOk s' [(id, t)] /\ simple s' /\ (is_nil s' = false -> sid s' = Some id))
     \/ feed s t = FErr EFault [(id, t)]).
Proof.
  destruct s as [|id l|id k| | | | |]; cbn [simple is_nil]; try (intros []; fail); try discriminate; intros _ _;
    exists id; (split; [reflexivity|]).
  - left. cbn [feed]. destruct t as [t|].
    + destruct l as [k|].
      * destruct k as [|[|k']]; eexists; (split; [reflexivity|]); cbn [simple is_nil sid];
          (split; [exact I|intros H; try discriminate H; reflexivity]).
      * eexists; (split; [reflexivity|]); cbn [simple is_nil sid]; (split; [exact I|reflexivity]).
    + eexists; (split; [reflexivity|]); cbn [simple is_nil sid]; (split; [exact I|discriminate]).
  - cbn [feed]. destruct k as [|[|k']]; [right; reflexivity|right; reflexivity|].
    left. destruct t as [t|]; eexists; (split; [reflexivity|]); cbn [simple is_nil sid];
      (split; [exact I|intros H; try discriminate H; reflexivity]).
Qed.

Lemma copy_pass_S f t done s rest lg :
  copy_pass (S f) t done (s :: rest) lg =
  if is_nil s then copy_pass f t done (swapl rest) lg
  else match feed s t with
       | FErr e lg' => inr (e, lg ++ lg')
       | FOk s' lg' =>
           if is_nil s' then copy_pass f t done (swapl rest) (lg ++ lg')
           else copy_pass f t (done ++ [s']) rest (lg ++ lg')
       end.
Proof. reflexivity. Qed.

(* ---- one pass: every live sink is fed exactly once; the survivors are a permutation of
        the updated sinks, however swap-with-last reorders them ---- *)
Lemma pass_spec t : forall fuel done todo lg,
  length todo < fuel -> Forall simple todo -> Forall (feeds_ok t) todo ->
  exists out lg', copy_pass fuel t done todo lg = inl (out, lg') /\
    Permutation out (done ++ upd t todo) /\
    forall id, log_of id lg' = log_of id lg ++ map (fun _ => t) (filter (has_id id) todo).
Proof.
  induction fuel as [|f IH]; intros done todo lg Hf Hs Hok; [lia|].
  destruct todo as [|s rest].
  - exists done, lg. cbn [copy_pass]. split; [reflexivity|]. split.
    + cbn. now rewrite app_nil_r.
    + intros id. cbn. now rewrite app_nil_r.
  - rewrite copy_pass_S.
    inversion Hs as [|? ? Hs1 Hs2]; subst. inversion Hok as [|? ? Hok1 Hok2]; subst.
    assert (Hswap : forall lg0,
      exists out lg', copy_pass f t done (swapl rest) lg0 = inl (out, lg') /\
        Permutation out (done ++ upd t rest) /\
        forall id, log_of id lg' = log_of id lg0 ++ map (fun _ => t) (filter (has_id id) rest)).
    { intros lg0.
      destruct (IH done (swapl rest) lg0) as (out & lg' & E & Hp & Hl).
      - rewrite swapl_length. cbn [length] in Hf. lia.
      - eapply Permutation_Forall; [symmetry; apply swapl_perm|assumption].
      - eapply Permutation_Forall; [symmetry; apply swapl_perm|assumption].
      - exists out, lg'. split; [exact E|]. split.
        + rewrite Hp. apply Permutation_app_head, upd_perm, swapl_perm.
        + intros id. rewrite Hl. f_equal. apply map_const_len, filter_perm_len, swapl_perm. }
    destruct (is_nil s) eqn:En.
    + destruct (Hswap lg) as (out & lg' & E & Hp & Hl). exists out, lg'.
      split; [exact E|]. split.
      * unfold upd. cbn [flat_map]. unfold upd1 at 1. rewrite En. exact Hp.
      * intros id. rewrite Hl. cbn [filter].
        destruct s; try discriminate. reflexivity.
    + destruct (feed_simple s t Hs1 En) as (i & Hi & [(s' & Ef & Hs' & Hi')|Ef]);
        [|unfold feeds_ok in Hok1; rewrite Ef in Hok1; destruct Hok1].
      rewrite Ef.
      assert (Hfl : forall id, log_of id (lg ++ [(i, t)]) ++ map (fun _ => t) (filter (has_id id) rest)
                    = log_of id lg ++ map (fun _ => t) (filter (has_id id) (s :: rest))).
      { intros id. rewrite log_of_app, log_of_one. cbn [filter]. unfold has_id at 2. rewrite Hi.
        rewrite <- app_assoc. destruct (Nat.eqb i id); reflexivity. }
      destruct (is_nil s') eqn:En'.
      * destruct (Hswap (lg ++ [(i, t)])) as (out & lg' & E & Hp & Hl). exists out, lg'.
        split; [exact E|]. split.
        -- unfold upd. cbn [flat_map]. unfold upd1 at 1. rewrite En, Ef, En'. exact Hp.
        -- intros id. rewrite Hl. apply Hfl.
      * destruct (IH (done ++ [s']) rest (lg ++ [(i, t)])) as (out & lg' & E & Hp & Hl);
          [cbn [length] in Hf; lia|assumption|assumption|].
        exists out, lg'. split; [exact E|]. split.
        -- unfold upd. cbn [flat_map]. unfold upd1 at 1. rewrite En, Ef, En'.
           rewrite Hp, <- app_assoc. reflexivity.
        -- intros id. rewrite Hl. apply Hfl.
Qed.

(* ---- facts about the survivors of a pass ---- *)
Lemma in_upd_inv t l s' : In s' (upd t l) ->
  exists s lg, In s l /\ is_nil s = false /\ feed s t = FOk s' lg /\ is_nil s' = false.
Proof.
  unfold upd. rewrite in_flat_map. intros (s & Hs & Hin). unfold upd1 in Hin.
  destruct (is_nil s) eqn:En; [destruct Hin|].
  destruct (feed s t) as [s1 lg|e lg] eqn:Ef; [|destruct Hin].
  destruct (is_nil s1) eqn:En1; [destruct Hin|]. destruct Hin as [<-|[]].
  exists s, lg. auto.
Qed.

Lemma in_upd t l s s' lg :
  In s l -> is_nil s = false -> feed s t = FOk s' lg -> is_nil s' = false -> In s' (upd t l).
Proof.
  intros Hs En Ef En'. unfold upd. rewrite in_flat_map. exists s. split; [assumption|].
  unfold upd1. rewrite En, Ef, En'. now left.
Qed.

Lemma feed_sid s t s' lg : simple s -> is_nil s = false -> feed s t = FOk s' lg ->
  simple s' /\ (is_nil s' = false -> sid s' = sid s) /\ exists id, sid s = Some id /\ lg = [(id, t)].
Proof.
  intros Hs En Ef. destruct (feed_simple s t Hs En) as (i & Hi & [(s1 & Ef1 & Hs1 & Hi1)|Ef1]);
    rewrite Ef1 in Ef; [|discriminate].
  injection Ef as E1 E2. subst s1 lg. split; [assumption|]. split.
  - intros H. rewrite Hi. now apply Hi1.
  - now exists i.
Qed.

Lemma upd_simple t l : Forall simple l -> Forall simple (upd t l).
Proof.
  intros H. apply Forall_forall. intros s' Hin.
  destruct (in_upd_inv _ _ _ Hin) as (s & lg & Hs & En & Ef & En').
  rewrite Forall_forall in H. exact (proj1 (feed_sid s t s' lg (H s Hs) En Ef)).
Qed.

Lemma upd_ids_incl t l id : Forall simple l -> In id (ids (upd t l)) -> In id (ids l).
Proof.
  intros H Hin. apply in_ids in Hin. destruct Hin as (s' & Hs' & Hi).
  destruct (in_upd_inv _ _ _ Hs') as (s & lg & Hs & En & Ef & En').
  rewrite Forall_forall in H.
  destruct (feed_sid s t s' lg (H s Hs) En Ef) as (_ & Hsid & _).
  apply in_ids. exists s. split; [assumption|]. rewrite <- Hsid by assumption. exact Hi.
Qed.

Lemma upd_nodup t l : Forall simple l -> NoDup (ids l) -> NoDup (ids (upd t l)).
Proof.
  induction l as [|x l IH]; intros Hs Hnd; [constructor|].
  inversion Hs as [|? ? Hs1 Hs2]; subst.
  unfold upd. cbn [flat_map]. fold (upd t l). rewrite ids_cons in Hnd.
  assert (Hnd' : NoDup (ids l)).
  { destruct (sid x); [now inversion Hnd|exact Hnd]. }
  unfold upd1. destruct (is_nil x) eqn:En; [now apply IH|].
  destruct (feed x t) as [x' lg|e lg] eqn:Ef; [|now apply IH].
  destruct (is_nil x') eqn:En'; [now apply IH|].
  destruct (feed_sid x t x' lg Hs1 En Ef) as (_ & Hsid & (i & Hi & _)).
  cbn [app]. rewrite ids_cons, (Hsid En'), Hi. cbn [app].
  rewrite Hi in Hnd. cbn [app] in Hnd. inversion Hnd as [|? ? Hnin _]; subst.
  constructor; [|now apply IH].
  intros Hc. apply Hnin. eapply upd_ids_incl; eassumption.
Qed.

Lemma same_id_same_sink l a b id :
  NoDup (ids l) -> In a l -> In b l -> sid a = Some id -> sid b = Some id -> a = b.
Proof.
  intros Hnd Ha Hb Hia Hib.
  pose proof (filter_has_id_single id l a Hnd Ha Hia) as F1.
  pose proof (filter_has_id_single id l b Hnd Hb Hib) as F2.
  rewrite F1 in F2. now injection F2.
Qed.

(* ---- Proc.Next on a token-list source ---- *)
Lemma next_tokens_cons f t r c : next (S f) (PTokens (t :: r) c) [] = POk (Some t) (PTokens r c) [].
Proof. reflexivity. Qed.
Lemma next_tokens_nil_nil f : next (S (S f)) (PTokens [] PNil) [] = POk None PNil [].
Proof. reflexivity. Qed.
Lemma next_tokens_nil_fail f e : next (S (S f)) (PTokens [] (PFail e)) [] = PErr e [].
Proof. reflexivity. Qed.

(* ---- one iteration of Copy's outer loop ---- *)
Lemma copy_nil_sinks f src lg p : copy (S f) src [] lg p = CR ENone lg p.
Proof. reflexivity. Qed.

Lemma copy_tok f p0 p' t sinks lg pulls out lg1 :
  sinks <> [] -> next (S f) p0 [] = POk (Some t) p' [] ->
  copy_pass (S (S (length sinks))) (Some t) [] sinks lg = inl (out, lg1) ->
  copy (S f) (Some p0) sinks lg pulls = copy f (Some p') out lg1 (S pulls).
Proof.
  intros Hne Hn Hp. destruct sinks as [|s0 sinks0]; [congruence|].
  cbn [copy]. rewrite Hn, app_nil_r, Hp. destruct out; reflexivity.
Qed.

Lemma copy_tok_err f p0 p' t sinks lg pulls e lg1 :
  sinks <> [] -> next (S f) p0 [] = POk (Some t) p' [] ->
  copy_pass (S (S (length sinks))) (Some t) [] sinks lg = inr (e, lg1) ->
  copy (S f) (Some p0) sinks lg pulls = CR e lg1 (S pulls).
Proof.
  intros Hne Hn Hp. destruct sinks as [|s0 sinks0]; [congruence|].
  cbn [copy]. rewrite Hn, app_nil_r, Hp. reflexivity.
Qed.

Lemma copy_eos f p0 p' sinks lg pulls lg1 :
  sinks <> [] -> next (S f) p0 [] = POk None p' [] ->
  copy_pass (S (S (length sinks))) None [] sinks lg = inl ([], lg1) ->
  copy (S f) (Some p0) sinks lg pulls = CR ENone lg1 pulls.
Proof.
  intros Hne Hn Hp. destruct sinks as [|s0 sinks0]; [congruence|].
  cbn [copy]. rewrite Hn, app_nil_r, Hp. reflexivity.
Qed.

Lemma copy_eos_err f p0 p' sinks lg pulls e lg1 :
  sinks <> [] -> next (S f) p0 [] = POk None p' [] ->
  copy_pass (S (S (length sinks))) None [] sinks lg = inr (e, lg1) ->
  copy (S f) (Some p0) sinks lg pulls = CR e lg1 pulls.
Proof.
  intros Hne Hn Hp. destruct sinks as [|s0 sinks0]; [congruence|].
  cbn [copy]. rewrite Hn, app_nil_r, Hp. reflexivity.
Qed.

Lemma copy_src_err f p0 sinks lg pulls e :
  sinks <> [] -> next (S f) p0 [] = PErr e [] ->
  copy (S f) (Some p0) sinks lg pulls = CR e lg pulls.
Proof.
  intros Hne Hn. destruct sinks as [|s0 sinks0]; [congruence|].
  cbn [copy]. rewrite Hn, app_nil_r. reflexivity.
Qed.

(* the step on a token, for simple sinks none of which fails on it *)
Lemma copy_step t r c f sinks lg p :
  sinks <> [] -> Forall simple sinks -> Forall (feeds_ok (Some t)) sinks -> NoDup (ids sinks) ->
  exists out lg1,
    copy (S f) (Some (PTokens (t :: r) c)) sinks lg p = copy f (Some (PTokens r c)) out lg1 (S p) /\
    Forall simple out /\ NoDup (ids out) /\ Permutation out (upd (Some t) sinks) /\
    (forall s id, In s sinks -> sid s = Some id ->
       log_of id lg1 = log_of id lg ++ [Some t] /\
       forall s' lg', feed s (Some t) = FOk s' lg' ->
         if is_nil s' then ~ In id (ids out) else In s' out) /\
    (forall id, ~ In id (ids sinks) -> log_of id lg1 = log_of id lg /\ ~ In id (ids out)).
Proof.
  intros Hne Hs Hok Hnd.
  destruct (pass_spec (Some t) (S (S (length sinks))) [] sinks lg) as (out & lg1 & Ep & Hperm & Hlog);
    [lia|assumption|assumption|].
  cbn [app] in Hperm.
  exists out, lg1. split; [apply (copy_tok f _ (PTokens r c) t); [assumption|apply next_tokens_cons|exact Ep]|].
  assert (Hincl : forall id, In id (ids out) -> In id (ids sinks)).
  { intros id Hin. apply (upd_ids_incl (Some t)); [assumption|].
    eapply Permutation_in; [apply ids_perm; exact Hperm|exact Hin]. }
  split; [eapply Permutation_Forall; [symmetry; exact Hperm|now apply upd_simple]|].
  split; [eapply Permutation_NoDup; [symmetry; apply ids_perm; exact Hperm|now apply upd_nodup]|].
  split; [exact Hperm|]. split.
  - intros s id Hin Hid. split.
    + rewrite Hlog, (filter_has_id_single id sinks s) by assumption. reflexivity.
    + intros s' lg' Ef.
      assert (En : is_nil s = false) by (destruct s; try discriminate; reflexivity).
      destruct (is_nil s') eqn:En'.
      * intros Hc. apply (Permutation_in _ (ids_perm _ _ Hperm)) in Hc.
        apply in_ids in Hc. destruct Hc as (s2' & Hs2' & Hi2).
        destruct (in_upd_inv _ _ _ Hs2') as (s2 & lg2 & Hs2 & En2 & Ef2 & En2').
        rewrite Forall_forall in Hs.
        destruct (feed_sid s2 (Some t) s2' lg2 (Hs s2 Hs2) En2 Ef2) as (_ & Hsid & _).
        assert (s2 = s).
        { eapply same_id_same_sink; try eassumption. rewrite <- Hsid by assumption. exact Hi2. }
        subst s2. rewrite Ef in Ef2. injection Ef2 as E1 E2. subst s2'. congruence.
      * eapply Permutation_in; [symmetry; exact Hperm|]. eapply in_upd; eassumption.
  - intros id Hn. split.
    + rewrite Hlog, filter_has_id_none by assumption. cbn [map]. now rewrite app_nil_r.
    + intros Hc. apply Hn, Hincl, Hc.
Qed.

(* ---- recorders ---- *)
Definition rn (s : sink) : Prop := is_rec_or_nil s = true.

Lemma rn_simple s : rn s -> simple s.
Proof. destruct s; cbn; intros H; try discriminate H; exact I. Qed.

Lemma rn_feeds_ok t s : rn s -> feeds_ok t s.
Proof.
  destruct s as [|id l| | | | | |]; cbn; intros H; try discriminate H; unfold feeds_ok; cbn [feed]; [exact I|].
  destruct t as [t|]; [|exact I]. destruct l as [k|]; [|exact I]. destruct k as [|[|k']]; exact I.
Qed.

Lemma Forall_rn_simple l : Forall rn l -> Forall simple l.
Proof. apply Forall_impl, rn_simple. Qed.
Lemma Forall_rn_ok t l : Forall rn l -> Forall (feeds_ok t) l.
Proof. apply Forall_impl, rn_feeds_ok. Qed.

Definition life_after (l : life) : option life :=
  match l with
  | ToEnd => Some ToEnd
  | Fin k => match k with O | 1 => None | S k' => Some (Fin k') end
  end.

Lemma feed_rec id l t :
  feed (SRec id l) (Some t) =
  FOk (match life_after l with Some l' => SRec id l' | None => SNil end) [(id, Some t)].
Proof. destruct l as [k|]; [|reflexivity]. destruct k as [|[|k']]; reflexivity. Qed.

Lemma feed_rec_eos id l : feed (SRec id l) None = FOk SNil [(id, None)].
Proof. reflexivity. Qed.

(* survivors of recorders are recorders *)
Lemma upd_rn t l : Forall rn l -> Forall rn (upd t l).
Proof.
  intros H. apply Forall_forall. intros s' Hin.
  destruct (in_upd_inv _ _ _ Hin) as (s & lg & Hs & En & Ef & En').
  rewrite Forall_forall in H. specialize (H s Hs).
  destruct s as [|id l0| | | | | |]; try discriminate H; [discriminate En|].
  destruct t as [t|].
  - rewrite feed_rec in Ef. injection Ef as E1 E2. subst s'. destruct (life_after l0); [reflexivity|discriminate].
  - rewrite feed_rec_eos in Ef. injection Ef as E1 E2. subst s'. discriminate.
Qed.

Lemma upd_none_rn l : Forall rn l -> upd None l = [].
Proof.
  induction l as [|x l IH]; intros H; [reflexivity|]. inversion H as [|? ? H1 H2]; subst.
  unfold upd. cbn [flat_map]. fold (upd None l). rewrite IH by assumption. rewrite app_nil_r.
  destruct x; try discriminate H1; reflexivity.
Qed.

(* expected, with the reaction to the end of the source as a parameter: [None] for a clean
   end, [] for a source fault *)
Definition expg (eos : list (option token)) (ts : list token) (l : life) : list (option token) :=
  match l with
  | ToEnd => map Some ts ++ eos
  | Fin k => let k' := Nat.max k 1 in
             if Nat.leb k' (length ts) then map Some (firstn k' ts) else map Some ts ++ eos
  end.

Lemma expected_expg ts l : expected ts l = expg [None] ts l.
Proof. reflexivity. Qed.

Lemma expg_nil eos l : expg eos [] l = eos.
Proof.
  destruct l as [k|]; [|reflexivity]. unfold expg. cbn [length].
  destruct (Nat.leb_spec (Nat.max k 1) 0) as [H|H]; [lia|reflexivity].
Qed.

Lemma expg_cons eos t r l :
  expg eos (t :: r) l =
  match life_after l with Some l' => Some t :: expg eos r l' | None => [Some t] end.
Proof.
  destruct l as [k|]; [|reflexivity].
  destruct k as [|[|k']]; cbn [life_after]; try reflexivity.
  unfold expg. cbn [length].
  replace (Nat.max (S (S k')) 1) with (S (S k')) by lia.
  replace (Nat.max (S k') 1) with (S k') by lia.
  change (Nat.leb (S (S k')) (S (length r))) with (Nat.leb (S k') (length r)).
  destruct (Nat.leb (S k') (length r)); reflexivity.
Qed.

(* the step specialised to recorders *)
Lemma copy_step_rn t r c f sinks lg p :
  sinks <> [] -> Forall rn sinks -> NoDup (ids sinks) ->
  exists out lg1,
    copy (S f) (Some (PTokens (t :: r) c)) sinks lg p = copy f (Some (PTokens r c)) out lg1 (S p) /\
    Forall rn out /\ NoDup (ids out) /\ Permutation out (upd (Some t) sinks) /\
    (forall id l, In (SRec id l) sinks ->
       log_of id lg1 = log_of id lg ++ [Some t] /\
       match life_after l with Some l' => In (SRec id l') out | None => ~ In id (ids out) end) /\
    (forall id, ~ In id (ids sinks) -> log_of id lg1 = log_of id lg /\ ~ In id (ids out)).
Proof.
  intros Hne Hrn Hnd.
  destruct (copy_step t r c f sinks lg p Hne (Forall_rn_simple _ Hrn) (Forall_rn_ok _ _ Hrn) Hnd)
    as (out & lg1 & E & Hs & Hnd' & Hperm & Hin & Hout).
  exists out, lg1. split; [exact E|].
  split; [eapply Permutation_Forall; [symmetry; exact Hperm|now apply upd_rn]|].
  split; [assumption|]. split; [assumption|]. split; [|assumption].
  intros id l Hl. destruct (Hin (SRec id l) id Hl eq_refl) as [H1 H2]. split; [exact H1|].
  specialize (H2 _ _ (feed_rec id l t)). destruct (life_after l); exact H2.
Qed.

(* ---- how many tokens Copy pulls ---- *)
Definition pulls_spec (n : nat) (sinks : list sink) : nat :=
  match sinks with
  | [] => 0
  | _ => if forallb is_nil sinks then Nat.min 1 n else needed n sinks
  end.

Lemma needed_cons n s l : needed n (s :: l) = Nat.max (needs n s) (needed n l).
Proof. reflexivity. Qed.

Lemma needed_app n a b : needed n (a ++ b) = Nat.max (needed n a) (needed n b).
Proof.
  induction a as [|x a IH]; [reflexivity|]. cbn [app]. rewrite !needed_cons, IH. lia.
Qed.

Lemma needed_perm n a b : Permutation a b -> needed n a = needed n b.
Proof.
  induction 1 as [|x a b Hp IH|x y a|a b c H1 IH1 H2 IH2]; rewrite ?needed_cons; try lia.
Qed.

Lemma needed_zero l : needed 0 l = 0.
Proof.
  induction l as [|s l IH]; [reflexivity|]. rewrite needed_cons, IH.
  destruct s as [|id lf| | | | | |]; try reflexivity. destruct lf as [k|]; cbn [needs]; lia.
Qed.

Lemma upd_all_nil t l : forallb is_nil l = true -> upd t l = [].
Proof.
  induction l as [|x l IH]; intros En; [reflexivity|]. cbn [forallb] in En.
  apply andb_prop in En. destruct En as [E1 E2]. unfold upd. cbn [flat_map]. fold (upd t l).
  rewrite IH by assumption. unfold upd1. rewrite E1. reflexivity.
Qed.

Lemma needed_step n t l : Forall rn l ->
  needed (S n) l = if forallb is_nil l then 0 else S (needed n (upd (Some t) l)).
Proof.
  induction l as [|s l IH]; intros H; [reflexivity|]. inversion H as [|? ? H1 H2]; subst.
  rewrite needed_cons, IH by assumption. cbn [forallb].
  unfold upd. cbn [flat_map]. fold (upd (Some t) l). rewrite needed_app.
  assert (Hz : forallb is_nil l = true -> needed n (upd (Some t) l) = 0).
  { intros E. rewrite upd_all_nil by assumption. reflexivity. }
  destruct s as [|id lf| | | | | |]; try discriminate H1.
  - cbn [is_nil needs upd1 needed fold_right andb]. destruct (forallb is_nil l); lia.
  - cbn [is_nil andb]. unfold upd1. cbn [is_nil]. rewrite feed_rec.
    destruct lf as [k|].
    + destruct k as [|[|k']]; cbn [life_after is_nil needs needed fold_right];
        destruct (forallb is_nil l); try specialize (Hz eq_refl); lia.
    + cbn [life_after is_nil needs needed fold_right].
      destruct (forallb is_nil l); try specialize (Hz eq_refl); lia.
Qed.

Lemma upd_no_nil t l : forallb is_nil (upd t l) = true -> upd t l = [].
Proof.
  destruct (upd t l) as [|s' r] eqn:E; [reflexivity|]. intros H.
  assert (Hin : In s' (upd t l)) by (rewrite E; now left).
  destruct (in_upd_inv _ _ _ Hin) as (s & lg & _ & _ & _ & En').
  cbn [forallb] in H. rewrite En' in H. discriminate.
Qed.

Lemma forallb_nil_perm a b : Permutation a b -> forallb is_nil a = forallb is_nil b.
Proof.
  induction 1 as [|x a b Hp IH|x y a|a b c H1 IH1 H2 IH2]; cbn [forallb].
  - reflexivity.
  - now rewrite IH.
  - destruct (is_nil x), (is_nil y); reflexivity.
  - now rewrite IH1.
Qed.

Lemma pulls_spec_step n t sinks out : sinks <> [] -> Forall rn sinks ->
  Permutation out (upd (Some t) sinks) ->
  pulls_spec (S n) sinks = S (pulls_spec n out).
Proof.
  intros Hne Hrn Hperm. destruct sinks as [|s0 l0]; [congruence|].
  unfold pulls_spec at 1. rewrite (needed_step n t) by assumption.
  destruct (forallb is_nil (s0 :: l0)) eqn:En.
  - rewrite (upd_all_nil _ _ En) in Hperm. apply Permutation_sym, Permutation_nil in Hperm. subst out. cbn. lia.
  - f_equal. rewrite <- (needed_perm n _ _ Hperm). unfold pulls_spec.
    destruct out as [|o1 out']; [reflexivity|].
    destruct (forallb is_nil (o1 :: out')) eqn:En'; [|reflexivity].
    rewrite (forallb_nil_perm _ _ Hperm) in En'. apply upd_no_nil in En'.
    rewrite En' in Hperm. apply Permutation_sym, Permutation_nil in Hperm. discriminate.
Qed.

(* ---- A + B: a clean source ---- *)
Lemma copy_clean_gen : forall ts sinks lg p fuel,
  Forall rn sinks -> NoDup (ids sinks) -> length ts + 2 <= fuel ->
  let r := copy fuel (Some (PTokens ts PNil)) sinks lg p in
  cr_err r = ENone /\
  (forall id l, In (SRec id l) sinks -> log_of id (cr_log r) = log_of id lg ++ expected ts l) /\
  (forall id, ~ In id (ids sinks) -> log_of id (cr_log r) = log_of id lg) /\
  cr_pulls r = p + pulls_spec (length ts) sinks.
Proof.
  induction ts as [|t ts IH]; intros sinks lg p fuel Hrn Hnd Hf.
  - destruct fuel as [|[|f]]; [cbn in Hf; lia|cbn in Hf; lia|].
    destruct sinks as [|s0 l0].
    { rewrite copy_nil_sinks. cbv zeta. cbn [cr_err cr_log cr_pulls]. split; [reflexivity|].
      split; [intros id l []|]. split; [reflexivity|]. cbn [pulls_spec]. lia. }
    remember (s0 :: l0) as sinks eqn:Es.
    assert (Hne : sinks <> []) by (subst; discriminate).
    destruct (pass_spec None (S (S (length sinks))) [] sinks lg) as (out & lg1 & Ep & Hperm & Hlog);
      [lia|now apply Forall_rn_simple|now apply Forall_rn_ok|].
    rewrite upd_none_rn in Hperm by assumption. cbn [app] in Hperm. apply Permutation_sym, Permutation_nil in Hperm. subst out.
    rewrite (copy_eos _ _ PNil sinks lg p lg1 Hne (next_tokens_nil_nil f) Ep).
    cbn [cr_err cr_log cr_pulls]. split; [reflexivity|]. split; [|split].
    + intros id l Hin. rewrite Hlog, (filter_has_id_single id sinks (SRec id l)) by (assumption || reflexivity).
      rewrite expected_expg, expg_nil. reflexivity.
    + intros id Hn. rewrite Hlog, filter_has_id_none by assumption. cbn [map]. now rewrite app_nil_r.
    + cbn [length]. unfold pulls_spec. rewrite needed_zero. subst sinks.
      destruct (forallb is_nil (s0 :: l0)); cbn; lia.
  - destruct fuel as [|f]; [cbn in Hf; lia|].
    destruct sinks as [|s0 l0].
    { rewrite copy_nil_sinks. cbv zeta. cbn [cr_err cr_log cr_pulls]. split; [reflexivity|].
      split; [intros id l []|]. split; [reflexivity|]. cbn [pulls_spec]. lia. }
    remember (s0 :: l0) as sinks eqn:Es.
    assert (Hne : sinks <> []) by (subst; discriminate).
    destruct (copy_step_rn t ts PNil f sinks lg p Hne Hrn Hnd)
      as (out & lg1 & E & Hrn' & Hnd' & Hperm & Hin & Hout).
    rewrite E.
    destruct (IH out lg1 (S p) f Hrn' Hnd' ltac:(cbn [length] in Hf; lia)) as (He & Hl & Ho & Hp).
    split; [exact He|]. split; [|split].
    + intros id l Hl0. destruct (Hin id l Hl0) as [H1 H2].
      rewrite !expected_expg, expg_cons.
      destruct (life_after l) as [l'|].
      * rewrite (Hl id l' H2), H1, expected_expg, <- app_assoc. reflexivity.
      * rewrite (Ho id H2), H1. reflexivity.
    + intros id Hn. destruct (Hout id Hn) as [H1 H2]. rewrite (Ho id H2). exact H1.
    + rewrite Hp. cbn [length]. rewrite (pulls_spec_step (length ts) t sinks out Hne Hrn Hperm). lia.
Qed.

Lemma ids_rec l : Forall rn l ->
  ids l = flat_map (fun s => match rec_id s with Some i => [i] | None => [] end) l.
Proof.
  induction l as [|s l IH]; intros H; [reflexivity|]. inversion H as [|? ? H1 H2]; subst.
  rewrite ids_cons. cbn [flat_map]. rewrite <- IH by assumption.
  destruct s; try discriminate H1; reflexivity.
Qed.

Lemma in_ids_rn id l : Forall rn l -> In id (ids l) -> exists lf, In (SRec id lf) l.
Proof.
  intros H Hin. apply in_ids in Hin. destruct Hin as (s & Hs & Hi).
  rewrite Forall_forall in H. specialize (H s Hs).
  destruct s as [|i lf| | | | | |]; try discriminate H; try discriminate Hi.
  injection Hi as ->. now exists lf.
Qed.

Lemma log_of_in d lg : In d lg -> log_of (fst d) lg <> [].
Proof.
  intros Hin. apply in_split in Hin. destruct Hin as (a & b & ->).
  rewrite log_of_app. change (d :: b) with ([d] ++ b). rewrite log_of_app.
  destruct d as [i t]. rewrite log_of_one. cbn [fst]. rewrite Nat.eqb_refl.
  destruct (log_of i a); discriminate.
Qed.

(* ================================================================== *)
(* A. Copy delivers each token exactly once, in order                  *)
(* ================================================================== *)
Theorem copy_delivery ts sinks :
  (forall s, In s sinks -> is_rec_or_nil s = true) ->
  NoDup (flat_map (fun s => match rec_id s with Some i => [i] | None => [] end) sinks) ->
  exists n, forall fuel, n <= fuel ->
    let r := copy fuel (Some (PTokens ts PNil)) sinks [] 0 in
    cr_err r = ENone /\
    (forall id l, In (SRec id l) sinks ->
       map snd (filter (fun d => Nat.eqb (fst d) id) (cr_log r)) = expected ts l) /\
    (forall d, In d (cr_log r) -> exists l, In (SRec (fst d) l) sinks).
Proof.
  intros Hrn Hnd. apply Forall_forall in Hrn. fold rn in Hrn. rewrite <- ids_rec in Hnd by assumption.
  exists (length ts + 2). intros fuel Hf.
  destruct (copy_clean_gen ts sinks [] 0 fuel Hrn Hnd Hf) as (He & Hl & Ho & _).
  cbv zeta. split; [exact He|]. split.
  - intros id l Hin. exact (Hl id l Hin).
  - intros d Hd. apply in_ids_rn; [assumption|].
    destruct (in_dec Nat.eq_dec (fst d) (ids sinks)) as [Hi|Hi]; [exact Hi|].
    exfalso. apply (log_of_in d _ Hd). rewrite (Ho _ Hi). reflexivity.
Qed.

Example copy_delivery_ex :
  let t1 := T KBool (VBool true) in let t2 := T KNil VNone in let t3 := T KInt (VI WNat 7) in
  let r := copy 5 (Some (PTokens [t1; t2; t3] PNil))
                [SRec 2 ToEnd; SNil; SRec 1 (Fin 2); SRec 3 (Fin 1); SRec 4 (Fin 9)] [] 0 in
  cr_err r = ENone /\ cr_pulls r = 3 /\
  log_of 2 (cr_log r) = [Some t1; Some t2; Some t3; None] /\
  log_of 1 (cr_log r) = [Some t1; Some t2] /\
  log_of 3 (cr_log r) = [Some t1] /\
  log_of 4 (cr_log r) = [Some t1; Some t2; Some t3; None] /\
  length (cr_log r) = 11.
Proof. vm_compute. repeat split. Qed.

(* ================================================================== *)
(* B. Copy pulls what the longest-lived consumer needs                 *)
(* ================================================================== *)
Theorem copy_pulls ts sinks :
  (forall s, In s sinks -> is_rec_or_nil s = true) ->
  NoDup (flat_map (fun s => match rec_id s with Some i => [i] | None => [] end) sinks) ->
  exists n, forall fuel, n <= fuel ->
    cr_pulls (copy fuel (Some (PTokens ts PNil)) sinks [] 0) =
    match sinks with
    | [] => 0
    | _ => if forallb is_nil sinks then Nat.min 1 (length ts) else needed (length ts) sinks
    end.
Proof.
  intros Hrn Hnd. apply Forall_forall in Hrn. fold rn in Hrn. rewrite <- ids_rec in Hnd by assumption.
  exists (length ts + 2). intros fuel Hf.
  destruct (copy_clean_gen ts sinks [] 0 fuel Hrn Hnd Hf) as (_ & _ & _ & Hp).
  exact Hp.
Qed.

Theorem copy_no_sinks fuel src lg p : 1 <= fuel -> copy fuel src [] lg p = CR ENone lg p.
Proof. intros H. destruct fuel as [|f]; [lia|]. apply copy_nil_sinks. Qed.

Example copy_pulls_ex :
  let t1 := T KBool (VBool true) in
  map (fun sinks => cr_pulls (copy 9 (Some (PTokens [t1; t1; t1; t1] PNil)) sinks [] 0))
      [[]; [SNil]; [SNil; SRec 1 (Fin 2)]; [SRec 1 (Fin 0); SRec 2 (Fin 3)]; [SRec 1 (Fin 7)]; [SRec 1 ToEnd; SNil]]
  = [0; 1; 2; 3; 4; 4].
Proof. vm_compute. reflexivity. Qed.

(* ================================================================== *)
(* C. a failing source                                                 *)
(* ================================================================== *)
Definition outlives (n : nat) (l : life) : Prop :=
  match l with ToEnd => True | Fin k => n < k end.

Lemma outlives_step n l : outlives (S n) l -> exists l', life_after l = Some l' /\ outlives n l'.
Proof.
  destruct l as [k|]; cbn [outlives].
  - intros H. destruct k as [|[|k']]; [lia|lia|]. exists (Fin (S k')). cbn [life_after outlives]. split; [reflexivity|lia].
  - intros _. exists ToEnd. split; reflexivity.
Qed.

Lemma copy_fault_gen e : forall ts sinks lg p fuel,
  Forall rn sinks -> NoDup (ids sinks) -> length ts + 2 <= fuel ->
  let r := copy fuel (Some (PTokens ts (PFail e))) sinks lg p in
  (forall id l, In (SRec id l) sinks -> log_of id (cr_log r) = log_of id lg ++ expg [] ts l) /\
  (forall id, ~ In id (ids sinks) -> log_of id (cr_log r) = log_of id lg) /\
  ((exists id l, In (SRec id l) sinks /\ outlives (length ts) l) ->
     cr_err r = e /\ cr_pulls r = p + length ts).
Proof.
  induction ts as [|t ts IH]; intros sinks lg p fuel Hrn Hnd Hf.
  - destruct fuel as [|[|f]]; [cbn in Hf; lia|cbn in Hf; lia|].
    destruct sinks as [|s0 l0].
    { rewrite copy_nil_sinks. cbv zeta. cbn [cr_err cr_log cr_pulls]. split; [intros id l []|].
      split; [reflexivity|]. intros (id & l & [] & _). }
    rewrite (copy_src_err _ _ (s0 :: l0) lg p e ltac:(discriminate) (next_tokens_nil_fail f e)).
    cbv zeta. cbn [cr_err cr_log cr_pulls]. split; [|split].
    + intros id l _. rewrite expg_nil. now rewrite app_nil_r.
    + reflexivity.
    + intros _. cbn [length]. split; [reflexivity|lia].
  - destruct fuel as [|f]; [cbn in Hf; lia|].
    destruct sinks as [|s0 l0].
    { rewrite copy_nil_sinks. cbv zeta. cbn [cr_err cr_log cr_pulls]. split; [intros id l []|].
      split; [reflexivity|]. intros (id & l & [] & _). }
    remember (s0 :: l0) as sinks eqn:Es.
    assert (Hne : sinks <> []) by (subst; discriminate).
    destruct (copy_step_rn t ts (PFail e) f sinks lg p Hne Hrn Hnd)
      as (out & lg1 & E & Hrn' & Hnd' & Hperm & Hin & Hout).
    rewrite E.
    destruct (IH out lg1 (S p) f Hrn' Hnd' ltac:(cbn [length] in Hf; lia)) as (Hl & Ho & He).
    split; [|split].
    + intros id l Hl0. destruct (Hin id l Hl0) as [H1 H2]. rewrite expg_cons.
      destruct (life_after l) as [l'|].
      * rewrite (Hl id l' H2), H1, <- app_assoc. reflexivity.
      * rewrite (Ho id H2), H1. reflexivity.
    + intros id Hn. destruct (Hout id Hn) as [H1 H2]. rewrite (Ho id H2). exact H1.
    + intros (id & l & Hl0 & Hlive). cbn [length] in Hlive.
      destruct (outlives_step _ _ Hlive) as (l' & El' & Hlive').
      destruct (Hin id l Hl0) as [_ H2]. rewrite El' in H2.
      destruct (He (ex_intro _ id (ex_intro _ l' (conj H2 Hlive')))) as [He1 He2].
      split; [exact He1|]. rewrite He2. cbn [length]. lia.
Qed.

Lemma expg_fault ts id l : expg [] ts l = map Some (firstn (needs (length ts) (SRec id l)) ts).
Proof.
  destruct l as [k|]; cbn [expg needs].
  - destruct (Nat.leb_spec (Nat.max k 1) (length ts)) as [H|H].
    + now rewrite Nat.min_l by exact H.
    + rewrite Nat.min_r by lia. now rewrite firstn_all, app_nil_r.
  - now rewrite firstn_all, app_nil_r.
Qed.

Lemma expg_prefix ts l : exists q, expected ts l = expg [] ts l ++ q.
Proof.
  rewrite expected_expg. destruct l as [k|]; cbn [expg].
  - destruct (Nat.leb (Nat.max k 1) (length ts)).
    + exists []. now rewrite app_nil_r.
    + exists [None]. now rewrite app_nil_r.
  - exists [None]. now rewrite app_nil_r.
Qed.

(* a recorder that would still be live when the fault occurs: ToEnd or Fin k with k > length ts *)
Theorem copy_source_fault ts sinks e :
  (forall s, In s sinks -> is_rec_or_nil s = true) ->
  NoDup (flat_map (fun s => match rec_id s with Some i => [i] | None => [] end) sinks) ->
  (exists id l, In (SRec id l) sinks /\ outlives (length ts) l) ->
  exists n, forall fuel, n <= fuel ->
    let r := copy fuel (Some (PTokens ts (PFail e))) sinks [] 0 in
    cr_err r = e /\ cr_pulls r = length ts /\
    (forall id l, In (SRec id l) sinks ->
       log_of id (cr_log r) = map Some (firstn (needs (length ts) (SRec id l)) ts) /\
       ~ In None (log_of id (cr_log r)) /\
       exists q, expected ts l = log_of id (cr_log r) ++ q).
Proof.
  intros Hrn Hnd Hlive. apply Forall_forall in Hrn. fold rn in Hrn. rewrite <- ids_rec in Hnd by assumption.
  exists (length ts + 2). intros fuel Hf.
  destruct (copy_fault_gen e ts sinks [] 0 fuel Hrn Hnd Hf) as (Hl & _ & He).
  destruct (He Hlive) as [He1 He2]. cbv zeta.
  split; [exact He1|]. split; [exact He2|].
  intros id l Hin. rewrite (Hl id l Hin). cbn [log_of filter map app]. split; [apply expg_fault|]. split.
  - rewrite (expg_fault ts id l). intros Hc. apply in_map_iff in Hc. destruct Hc as (x & Hx & _). discriminate.
  - apply expg_prefix.
Qed.

Example copy_source_fault_ex :
  let t1 := T KBool (VBool true) in let t2 := T KNil VNone in
  let r := copy 5 (Some (PTokens [t1; t2] (PFail EFault))) [SRec 1 (Fin 1); SRec 2 ToEnd; SRec 3 (Fin 5)] [] 0 in
  cr_err r = EFault /\ log_of 1 (cr_log r) = [Some t1] /\ log_of 2 (cr_log r) = [Some t1; Some t2]
  /\ log_of 3 (cr_log r) = [Some t1; Some t2].
Proof. vm_compute. repeat split. Qed.

(* ================================================================== *)
(* D. a failing sink                                                   *)
(* ================================================================== *)
Lemma feed_fail_now fid k t : k <= 1 -> feed (SFail fid k) t = FErr EFault [(fid, t)].
Proof. intros H. destruct k as [|[|k']]; [reflexivity|reflexivity|lia]. Qed.

Lemma feed_fail_later fid k t : feed (SFail fid (S (S k))) (Some t) = FOk (SFail fid (S k)) [(fid, Some t)].
Proof. reflexivity. Qed.

Lemma pass_err_spec t fid k : k <= 1 -> forall fuel done todo lg,
  length todo < fuel -> Forall (fun s => rn s \/ s = SFail fid k) todo -> NoDup (ids todo) ->
  In (SFail fid k) todo ->
  exists lg', copy_pass fuel t done todo lg = inr (EFault, lg') /\
    log_of fid lg' = log_of fid lg ++ [t] /\
    forall id, id <> fid -> exists b : bool,
      log_of id lg' = log_of id lg ++ (if b then [t] else []) /\ (~ In id (ids todo) -> b = false).
Proof.
  intros Hk. induction fuel as [|f IH]; intros done todo lg Hf Hs Hnd Hin; [lia|].
  destruct todo as [|s rest]; [destruct Hin|].
  rewrite copy_pass_S. inversion Hs as [|? ? Hs1 Hs2]; subst.
  assert (Hrec : s <> SFail fid k -> forall done' rest' lg0, Permutation rest' rest ->
    exists lg', copy_pass f t done' rest' lg0 = inr (EFault, lg') /\
      log_of fid lg' = log_of fid lg0 ++ [t] /\
      forall id, id <> fid -> exists b : bool,
        log_of id lg' = log_of id lg0 ++ (if b then [t] else []) /\ (~ In id (ids rest) -> b = false)).
  { intros Hne done' rest' lg0 Hp.
    destruct (IH done' rest' lg0) as (lg' & E & H1 & H2).
    - rewrite (Permutation_length Hp). cbn [length] in Hf. lia.
    - eapply Permutation_Forall; [symmetry; exact Hp|assumption].
    - eapply Permutation_NoDup; [symmetry; apply ids_perm; exact Hp|].
      rewrite ids_cons in Hnd. destruct (sid s); [now inversion Hnd|exact Hnd].
    - eapply Permutation_in; [symmetry; exact Hp|]. destruct Hin as [Hin|Hin]; [congruence|exact Hin].
    - exists lg'. split; [exact E|]. split; [exact H1|].
      intros id Hid. destruct (H2 id Hid) as (b & Hb1 & Hb2). exists b. split; [exact Hb1|].
      intros Hn. apply Hb2. intros Hc. apply Hn.
      eapply Permutation_in; [apply ids_perm; exact Hp|exact Hc]. }
  destruct Hs1 as [Hs1|Hs1].
  - (* a recorder or nil *)
    assert (Hne : s <> SFail fid k) by (intros ->; discriminate Hs1).
    destruct s as [|i l| | | | | |]; try discriminate Hs1.
    + cbn [is_nil]. destruct (Hrec Hne done (swapl rest) lg (swapl_perm rest)) as (lg' & E & H1 & H2).
      exists lg'. split; [exact E|]. split; [exact H1|]. exact H2.
    + cbn [is_nil].
      assert (Hfid : In fid (ids rest)).
      { apply in_ids. exists (SFail fid k). split; [|reflexivity].
        destruct Hin as [Hin|Hin]; [congruence|exact Hin]. }
      assert (Hi : ~ In i (ids rest)).
      { rewrite ids_cons in Hnd. cbn [sid app] in Hnd. now inversion Hnd. }
      assert (Hif : i <> fid) by (intros ->; contradiction).
      destruct (feed_simple (SRec i l) t I eq_refl) as (i' & Hi' & [(s' & Ef & _ & _)|Ef]).
      2:{ exfalso. pose proof (rn_feeds_ok t (SRec i l) eq_refl) as Hok. unfold feeds_ok in Hok.
          rewrite Ef in Hok. exact Hok. }
      injection Hi' as <-. rewrite Ef.
      assert (Hfin : forall lg', log_of fid lg' = log_of fid (lg ++ [(i, t)]) ++ [t] ->
                (forall id, id <> fid -> exists b : bool,
                   log_of id lg' = log_of id (lg ++ [(i, t)]) ++ (if b then [t] else []) /\
                   (~ In id (ids rest) -> b = false)) ->
                log_of fid lg' = log_of fid lg ++ [t] /\
                forall id, id <> fid -> exists b : bool,
                  log_of id lg' = log_of id lg ++ (if b then [t] else []) /\
                  (~ In id (ids (SRec i l :: rest)) -> b = false)).
      { intros lg' H1 H2. split.
        - rewrite H1, log_of_app, log_of_one. apply Nat.eqb_neq in Hif. rewrite Hif. now rewrite app_nil_r.
        - intros id Hid. destruct (H2 id Hid) as (b & Hb1 & Hb2).
          destruct (Nat.eq_dec i id) as [->|Hne'].
          + exists true. split.
            * rewrite Hb1, (Hb2 Hi), log_of_app, log_of_one, Nat.eqb_refl, app_nil_r. reflexivity.
            * intros Hn. exfalso. apply Hn. rewrite ids_cons. cbn [sid app]. now left.
          + exists b. split.
            * rewrite Hb1, log_of_app, log_of_one. apply Nat.eqb_neq in Hne'. rewrite Hne'.
              now rewrite app_nil_r.
            * intros Hn. apply Hb2. intros Hc. apply Hn. rewrite ids_cons. cbn [sid app]. now right. }
      destruct (is_nil s') eqn:En'.
      * destruct (Hrec Hne done (swapl rest) (lg ++ [(i, t)]) (swapl_perm rest)) as (lg' & E & H1 & H2).
        exists lg'. split; [exact E|]. now apply Hfin.
      * destruct (Hrec Hne (done ++ [s']) rest (lg ++ [(i, t)]) (Permutation_refl _)) as (lg' & E & H1 & H2).
        exists lg'. split; [exact E|]. now apply Hfin.
  - (* the failing sink *)
    subst s. cbn [is_nil]. rewrite (feed_fail_now fid k t Hk).
    exists (lg ++ [(fid, t)]). split; [reflexivity|]. split.
    + now rewrite log_of_app, log_of_one, Nat.eqb_refl.
    + intros id Hid. exists false. split; [|reflexivity].
      rewrite log_of_app, log_of_one. assert (H : fid <> id) by congruence.
      apply Nat.eqb_neq in H. now rewrite H.
Qed.

Lemma calls_of_cons t ts : calls_of (t :: ts) = Some t :: calls_of ts.
Proof. reflexivity. Qed.

Lemma expected_head t ts l : exists q, expected (t :: ts) l = Some t :: q.
Proof. rewrite expected_expg, expg_cons. destruct (life_after l); eexists; reflexivity. Qed.

Lemma copy_sink_fault_gen fid : forall ts k sinks lg p fuel,
  1 <= k <= length ts + 1 ->
  Forall (fun s => rn s \/ s = SFail fid k) sinks -> NoDup (ids sinks) -> In (SFail fid k) sinks ->
  length ts + 2 <= fuel ->
  let r := copy fuel (Some (PTokens ts PNil)) sinks lg p in
  cr_err r = EFault /\
  log_of fid (cr_log r) = log_of fid lg ++ firstn k (calls_of ts) /\
  (forall id l, In (SRec id l) sinks ->
     exists q q', log_of id (cr_log r) = log_of id lg ++ q /\ expected ts l = q ++ q') /\
  (forall id, ~ In id (ids sinks) -> log_of id (cr_log r) = log_of id lg).
Proof.
  induction ts as [|t ts IH]; intros k sinks lg p fuel Hk Hs Hnd Hin Hf.
  - cbn [length] in Hk. assert (k = 1) by lia. subst k.
    destruct fuel as [|[|f]]; [cbn in Hf; lia|cbn in Hf; lia|].
    assert (Hne : sinks <> []) by (intros ->; destruct Hin).
    destruct (pass_err_spec None fid 1 (le_n 1) (S (S (length sinks))) [] sinks lg) as (lg1 & Ep & H1 & H2);
      [lia|assumption|assumption|assumption|].
    rewrite (copy_eos_err _ _ PNil sinks lg p EFault lg1 Hne (next_tokens_nil_nil f) Ep).
    cbv zeta. cbn [cr_err cr_log cr_pulls]. split; [reflexivity|]. split; [exact H1|]. split.
    + intros id l Hl.
      assert (Hid : id <> fid).
      { intros ->. pose proof (same_id_same_sink sinks _ _ fid Hnd Hl Hin eq_refl eq_refl). discriminate. }
      destruct (H2 id Hid) as (b & Hb & _). rewrite expected_expg, expg_nil.
      destruct b; [exists [None], []|exists [], [None]]; (split; [exact Hb|reflexivity]).
    + intros id Hn.
      assert (Hid : id <> fid).
      { intros ->. apply Hn. apply in_ids. exists (SFail fid 1). split; [assumption|reflexivity]. }
      destruct (H2 id Hid) as (b & Hb & Hb'). rewrite Hb, (Hb' Hn). now rewrite app_nil_r.
  - destruct fuel as [|f]; [cbn in Hf; lia|].
    assert (Hne : sinks <> []) by (intros ->; destruct Hin).
    destruct k as [|[|k']]; [lia| |].
    + (* the failing call is this one *)
      destruct (pass_err_spec (Some t) fid 1 (le_n 1) (S (S (length sinks))) [] sinks lg) as (lg1 & Ep & H1 & H2);
        [lia|assumption|assumption|assumption|].
      rewrite (copy_tok_err f _ (PTokens ts PNil) t sinks lg p EFault lg1 Hne (next_tokens_cons f t ts PNil) Ep).
      cbv zeta. cbn [cr_err cr_log cr_pulls]. split; [reflexivity|]. split; [exact H1|]. split.
      * intros id l Hl.
        assert (Hid : id <> fid).
        { intros ->. pose proof (same_id_same_sink sinks _ _ fid Hnd Hl Hin eq_refl eq_refl). discriminate. }
        destruct (H2 id Hid) as (b & Hb & _). destruct (expected_head t ts l) as (q & Hq).
        destruct b; [exists [Some t], q|exists [], (Some t :: q)]; (split; [exact Hb|exact Hq]).
      * intros id Hn.
        assert (Hid : id <> fid).
        { intros ->. apply Hn. apply in_ids. exists (SFail fid 1). split; [assumption|reflexivity]. }
        destruct (H2 id Hid) as (b & Hb & Hb'). rewrite Hb, (Hb' Hn). now rewrite app_nil_r.
    + (* not yet *)
      assert (Hsimple : Forall simple sinks).
      { eapply Forall_impl; [|exact Hs]. intros s [H| ->]; [now apply rn_simple|exact I]. }
      assert (Hok : Forall (feeds_ok (Some t)) sinks).
      { eapply Forall_impl; [|exact Hs]. intros s [H| ->]; [now apply rn_feeds_ok|exact I]. }
      destruct (copy_step t ts PNil f sinks lg p Hne Hsimple Hok Hnd)
        as (out & lg1 & E & Hs' & Hnd' & Hperm & Hin' & Hout).
      rewrite E.
      assert (Hs'' : Forall (fun s => rn s \/ s = SFail fid (S k')) out).
      { apply Forall_forall. intros s' Hs0.
        apply (Permutation_in _ Hperm) in Hs0.
        destruct (in_upd_inv _ _ _ Hs0) as (s & lg0 & Hs1 & En & Ef & En').
        rewrite Forall_forall in Hs. destruct (Hs s Hs1) as [Hr| ->].
        - left. destruct s as [|i l| | | | | |]; try discriminate Hr; [discriminate En|].
          rewrite feed_rec in Ef. injection Ef as E1 E2. subst s'.
          destruct (life_after l); [reflexivity|discriminate En'].
        - right. rewrite feed_fail_later in Ef. now injection Ef as <- _. }
      assert (Hin'' : In (SFail fid (S k')) out).
      { destruct (Hin' _ fid Hin eq_refl) as [_ H2]. exact (H2 _ _ (feed_fail_later fid k' t)). }
      destruct (IH (S k') out lg1 (S p) f ltac:(cbn [length] in Hk; lia) Hs'' Hnd' Hin''
                   ltac:(cbn [length] in Hf; lia)) as (He & Hfl & Hl & Ho).
      split; [exact He|]. split; [|split].
      * rewrite Hfl. destruct (Hin' _ fid Hin eq_refl) as [H1 _]. rewrite H1, <- app_assoc.
        rewrite calls_of_cons. reflexivity.
      * intros id l Hl0. destruct (Hin' _ id Hl0 eq_refl) as [H1 H2].
        specialize (H2 _ _ (feed_rec id l t)). rewrite expected_expg, expg_cons.
        destruct (life_after l) as [l'|]; cbn [is_nil] in H2.
        -- destruct (Hl id l' H2) as (q & q' & Hq1 & Hq2). exists (Some t :: q), q'. split.
           ++ rewrite Hq1, H1, <- app_assoc. reflexivity.
           ++ rewrite <- expected_expg, Hq2. reflexivity.
        -- exists [Some t], []. split; [|reflexivity]. rewrite (Ho id H2). exact H1.
      * intros id Hn. destruct (Hout id Hn) as [H1 H2]. rewrite (Ho id H2). exact H1.
Qed.

(* recorders plus one sink whose k-th call fails *)
Theorem copy_sink_fault ts recs fid k :
  (forall s, In s recs -> is_rec_or_nil s = true) ->
  NoDup (fid :: flat_map (fun s => match rec_id s with Some i => [i] | None => [] end) recs) ->
  1 <= k <= length ts + 1 ->
  exists n, forall fuel, n <= fuel ->
    let r := copy fuel (Some (PTokens ts PNil)) (recs ++ [SFail fid k]) [] 0 in
    cr_err r = EFault /\
    log_of fid (cr_log r) = firstn k (calls_of ts) /\ length (log_of fid (cr_log r)) = k /\
    (forall id l, In (SRec id l) recs -> exists q, expected ts l = log_of id (cr_log r) ++ q).
Proof.
  intros Hrn Hnd Hk. apply Forall_forall in Hrn. fold rn in Hrn. rewrite <- ids_rec in Hnd by assumption.
  exists (length ts + 2). intros fuel Hf.
  assert (Hs : Forall (fun s => rn s \/ s = SFail fid k) (recs ++ [SFail fid k])).
  { apply Forall_app. split; [eapply Forall_impl; [|exact Hrn]; intros s H; now left|].
    constructor; [now right|constructor]. }
  assert (Hnd' : NoDup (ids (recs ++ [SFail fid k]))).
  { eapply Permutation_NoDup; [|exact Hnd]. unfold ids. rewrite flat_map_app. cbn [flat_map sid app].
    apply Permutation_cons_append. }
  assert (Hin : In (SFail fid k) (recs ++ [SFail fid k])) by (apply in_or_app; right; now left).
  destruct (copy_sink_fault_gen fid ts k _ [] 0 fuel Hk Hs Hnd' Hin Hf) as (He & Hfl & Hl & _).
  cbv zeta. split; [exact He|]. split; [exact Hfl|]. split.
  - rewrite Hfl. cbn [log_of filter map app]. rewrite firstn_length. unfold calls_of.
    rewrite app_length, map_length. cbn [length]. lia.
  - intros id l Hl0. destruct (Hl id l (in_or_app _ _ _ (or_introl Hl0))) as (q & q' & Hq1 & Hq2).
    exists q'. rewrite Hq1. exact Hq2.
Qed.

Example copy_sink_fault_ex :
  let t1 := T KBool (VBool true) in let t2 := T KNil VNone in
  let r := copy 6 (Some (PTokens [t1; t2; t1] PNil)) ([SRec 1 ToEnd; SRec 2 (Fin 2)] ++ [SFail 7 3]) [] 0 in
  cr_err r = EFault /\ log_of 7 (cr_log r) = [Some t1; Some t2; Some t1] /\
  log_of 1 (cr_log r) = [Some t1; Some t2; Some t1] /\ log_of 2 (cr_log r) = [Some t1; Some t2].
Proof. vm_compute. repeat split. Qed.

(* ================================================================== *)
(* sink combinators, through sink_run                                  *)
(* ================================================================== *)
Lemma sink_run_nil calls lg : sink_run SNil calls lg = SRDone lg calls.
Proof. destruct calls; reflexivity. Qed.

Lemma sink_run_cons s c r lg : is_nil s = false ->
  sink_run s (c :: r) lg =
  match feed s c with FErr e lg' => SRErr e (lg ++ lg') | FOk s' lg' => sink_run s' r (lg ++ lg') end.
Proof. intros H. cbn [sink_run]. now rewrite H. Qed.

(* ---- E. FilterSink ---- *)
Lemma filter_sink_gen id p : forall ts lg,
  sink_run (SFilter (SRec id ToEnd) p) (calls_of ts) lg =
  SRDone (lg ++ map (fun t => (id, Some t)) (filter (holds p) ts) ++ [(id, None)]) [].
Proof.
  induction ts as [|t ts IH]; intros lg.
  - reflexivity.
  - rewrite calls_of_cons, sink_run_cons by reflexivity. cbn [feed is_nil filter].
    destruct (holds p t).
    + cbn [is_nil]. rewrite IH. cbn [map app]. now rewrite <- app_assoc.
    + rewrite IH. now rewrite app_nil_r.
Qed.

Theorem filter_sink id p ts :
  sink_run (SFilter (SRec id ToEnd) p) (calls_of ts) [] =
  SRDone (map (fun t => (id, Some t)) (filter (holds p) ts) ++ [(id, None)]) [].
Proof. apply (filter_sink_gen id p ts []). Qed.

Example filter_sink_ex :
  sink_run (SFilter (SRec 1 ToEnd) (PNot (PKindIn [KNil])))
           (calls_of [T KNil VNone; T KBool (VBool true); T KNil VNone; T KInt (VI WNat 3)]) [] =
  SRDone [(1, Some (T KBool (VBool true))); (1, Some (T KInt (VI WNat 3))); (1, None)] [].
Proof. reflexivity. Qed.

(* ---- F. ConcatSinks: one value after another ---- *)
Lemma feed_concat h r c :
  feed (SConcat (h :: r)) c =
  match feed h c with FErr e lg => FErr e lg | FOk h' lg => FOk (mk_concat (h' :: r)) lg end.
Proof. reflexivity. Qed.

Lemma mk_concat_cons_nil h r : is_nil h = true -> mk_concat (h :: r) = mk_concat r.
Proof. intros H. unfold mk_concat. cbn [drop_nil]. now rewrite H. Qed.

Lemma mk_concat_cons h r : is_nil h = false -> mk_concat (h :: r) = SConcat (h :: r).
Proof. intros H. unfold mk_concat. cbn [drop_nil]. now rewrite H. Qed.

(* the concatenation runs its head until that finishes, then goes on with the others on the
   calls the head has not consumed: the call on which the head finished is not offered again *)
Lemma concat_run r : forall calls h lg, is_nil h = false ->
  sink_run (SConcat (h :: r)) calls lg =
  match sink_run h calls lg with
  | SRDone lg' rest => sink_run (mk_concat r) rest lg'
  | SRLive h' lg' => SRLive (SConcat (h' :: r)) lg'
  | SRErr e lg' => SRErr e lg'
  end.
Proof.
  induction calls as [|c cs IH]; intros h lg Hh.
  - cbn [sink_run is_nil]. now rewrite Hh.
  - rewrite !sink_run_cons by (assumption || reflexivity). rewrite feed_concat.
    destruct (feed h c) as [h' lg1|e lg1]; [|reflexivity].
    destruct (is_nil h') eqn:En.
    + rewrite mk_concat_cons_nil by assumption.
      destruct h'; try discriminate En. now rewrite sink_run_nil.
    + rewrite mk_concat_cons by assumption. now apply IH.
Qed.

Lemma rec_fin_run id extra : forall ts k lg, 1 <= k <= length ts ->
  sink_run (SRec id (Fin k)) (map Some ts ++ extra) lg =
  SRDone (lg ++ map (fun t => (id, Some t)) (firstn k ts)) (map Some (skipn k ts) ++ extra).
Proof.
  induction ts as [|t ts IH]; intros k lg Hk; [cbn in Hk; lia|].
  cbn [map app]. rewrite sink_run_cons by reflexivity.
  destruct k as [|[|k']]; [lia| |].
  - cbn [feed firstn skipn map]. now rewrite sink_run_nil.
  - cbn [feed]. rewrite IH by (cbn [length] in Hk; lia).
    cbn [firstn skipn map]. now rewrite <- app_assoc.
Qed.

Lemma rec_run id : forall ts l lg, exists rest,
  sink_run (SRec id l) (calls_of ts) lg = SRDone (lg ++ map (fun c => (id, c)) (expected ts l)) rest.
Proof.
  induction ts as [|t ts IH]; intros l lg.
  - exists []. rewrite expected_expg, expg_nil. reflexivity.
  - rewrite calls_of_cons, sink_run_cons by reflexivity. rewrite feed_rec, expected_expg, expg_cons.
    destruct (life_after l) as [l'|].
    + destruct (IH l' (lg ++ [(id, Some t)])) as [rest E]. exists rest. rewrite E.
      cbn [map]. rewrite <- app_assoc. reflexivity.
    + exists (calls_of ts). now rewrite sink_run_nil.
Qed.

Lemma calls_of_skipn k ts : map Some (skipn k ts) ++ [None] = calls_of (skipn k ts).
Proof. reflexivity. Qed.

Theorem concat_sinks_seq a k b l ts : 1 <= k <= length ts ->
  exists rest,
    sink_run (mk_concat [SRec a (Fin k); SRec b l]) (calls_of ts) [] =
    SRDone (map (fun t => (a, Some t)) (firstn k ts) ++
            map (fun c => (b, c)) (expected (skipn k ts) l)) rest.
Proof.
  intros Hk. rewrite mk_concat_cons by reflexivity. unfold calls_of at 1.
  rewrite concat_run by reflexivity. rewrite rec_fin_run by assumption.
  rewrite mk_concat_cons by reflexivity. rewrite calls_of_skipn, concat_run by reflexivity.
  match goal with |- context [sink_run (SRec b l) _ ?lg0] =>
    destruct (rec_run b (skipn k ts) l lg0) as [rest E] end.
  rewrite E. exists rest. cbn [mk_concat drop_nil]. now rewrite sink_run_nil.
Qed.

(* n-ary: sinks finishing after k1, k2, ... tokens, then a last recorder *)
Fixpoint chunks (specs : list (nat * nat)) (ts : list token) : list delivery * list token :=
  match specs with
  | [] => ([], ts)
  | (i, k) :: r => let '(lg, rem) := chunks r (skipn k ts) in
                   (map (fun t => (i, Some t)) (firstn k ts) ++ lg, rem)
  end.
Fixpoint fits (specs : list (nat * nat)) (ts : list token) : Prop :=
  match specs with
  | [] => True
  | (i, k) :: r => 1 <= k <= length ts /\ fits r (skipn k ts)
  end.

Theorem concat_sinks_nary b l : forall specs ts lg, fits specs ts ->
  exists rest,
    sink_run (mk_concat (map (fun s => SRec (fst s) (Fin (snd s))) specs ++ [SRec b l])) (calls_of ts) lg =
    SRDone (lg ++ fst (chunks specs ts) ++ map (fun c => (b, c)) (expected (snd (chunks specs ts)) l)) rest.
Proof.
  induction specs as [|[i k] specs IH]; intros ts lg Hfit.
  - cbn [map app chunks fst snd]. rewrite mk_concat_cons by reflexivity.
    rewrite concat_run by reflexivity. destruct (rec_run b ts l lg) as [rest E]. rewrite E.
    exists rest. cbn [mk_concat drop_nil]. now rewrite sink_run_nil.
  - destruct Hfit as [Hk Hfit]. cbn [map app fst snd chunks]. rewrite mk_concat_cons by reflexivity.
    unfold calls_of at 1. rewrite concat_run by reflexivity. rewrite rec_fin_run by assumption.
    rewrite calls_of_skipn.
    destruct (IH (skipn k ts) (lg ++ map (fun t => (i, Some t)) (firstn k ts)) Hfit) as [rest E].
    cbn [fst snd] in E. rewrite E. exists rest.
    destruct (chunks specs (skipn k ts)) as [lg2 rem]. cbn [fst snd]. now rewrite <- !app_assoc.
Qed.

Example concat_sinks_ex :
  let t n := T KInt (VI WNat n) in
  sink_run (mk_concat [SRec 1 (Fin 2); SRec 2 (Fin 1); SRec 3 ToEnd]) (calls_of [t 1%Z; t 2%Z; t 3%Z; t 4%Z]) [] =
  SRDone [(1, Some (t 1%Z)); (1, Some (t 2%Z)); (2, Some (t 3%Z)); (3, Some (t 4%Z)); (3, None)] [].
Proof. reflexivity. Qed.

(* ---- G. CollectValueTokens ---- *)
Fixpoint pop_names (st : list cframe) : list cframe :=
  match st with CFName :: r => pop_names r | _ => st end.
Definition finish (st : list cframe) : list cframe * bool :=
  let st' := pop_names st in (st', match st' with [] => true | _ => false end).

Lemma collect_value_step_eq stack t :
  collect_value_step stack t =
  let k := kind t in
  if is_end_kind k then
    match stack with
    | CFEnd e :: r => if (e =? k)%N then inl (finish r) else inr EUnexpEndTok
    | _ => inr EUnexpEndTok
    end
  else if is_open_kind k then inl (CFEnd (end_of k) :: stack, false)
  else if (k =? KTypeName)%N then inl (CFName :: stack, false)
  else inl (finish stack).
Proof. reflexivity. Qed.

Definition cv_sink (id : nat) (st : list cframe) : sink :=
  match st with [] => SNil | _ => SCollectValue id st end.

Lemma feed_cv_finish id st st0 t : collect_value_step st t = inl (finish st0) ->
  feed (SCollectValue id st) (Some t) = FOk (cv_sink id (pop_names st0)) [(id, Some t)].
Proof. intros H. cbn [feed]. rewrite H. unfold finish. destruct (pop_names st0); reflexivity. Qed.

Lemma feed_cv_push id st fr t : collect_value_step st t = inl (fr :: st, false) ->
  feed (SCollectValue id st) (Some t) = FOk (SCollectValue id (fr :: st)) [(id, Some t)].
Proof. intros H. cbn [feed]. now rewrite H. Qed.

Lemma open_cases ko : is_open_kind ko = true ->
  ko = KArray \/ ko = KObject \/ ko = KMap \/ ko = KTuple.
Proof. unfold is_open_kind. rewrite !orb_true_iff, !N.eqb_eq. tauto. Qed.

Lemma open_not_end ko : is_open_kind ko = true -> is_end_kind ko = false.
Proof. intros H. destruct (open_cases ko H) as [->|[->|[->| ->]]]; reflexivity. Qed.

Lemma end_of_is_end ko : is_open_kind ko = true -> is_end_kind (end_of ko) = true.
Proof. intros H. destruct (open_cases ko H) as [->|[->|[->| ->]]]; reflexivity. Qed.

Lemma step_open st ko v : is_open_kind ko = true ->
  collect_value_step st (T ko v) = inl (CFEnd (end_of ko) :: st, false).
Proof.
  intros H. rewrite collect_value_step_eq. cbn [kind]. cbv zeta. now rewrite (open_not_end ko H), H.
Qed.

Lemma step_close st ko v : is_open_kind ko = true ->
  collect_value_step (CFEnd (end_of ko) :: st) (T (end_of ko) v) = inl (finish st).
Proof.
  intros H. rewrite collect_value_step_eq. cbn [kind]. cbv zeta.
  now rewrite (end_of_is_end ko H), N.eqb_refl.
Qed.

Lemma step_name st n : collect_value_step st (T KTypeName (VStr n)) = inl (CFName :: st, false).
Proof. reflexivity. Qed.

Lemma step_leaf st t : is_leaf_token t = true -> collect_value_step st t = inl (finish st).
Proof.
  unfold is_leaf_token. intros H. apply andb_prop in H. destruct H as [H H3].
  apply andb_prop in H. destruct H as [H1 H2]. rewrite negb_true_iff in H1, H2, H3.
  rewrite collect_value_step_eq. cbv zeta. now rewrite H2, H1, H3.
Qed.

Definition tlog (id : nat) (ts : list token) : list delivery := map (fun t => (id, Some t)) ts.

Lemma tlog_app id a b : tlog id (a ++ b) = tlog id a ++ tlog id b.
Proof. apply map_app. Qed.

(* feeding one well-formed value on top of any stack: the type names waiting for it are
   popped (also directly nested ones), everything below is left as it was *)
Lemma cv_value id : forall v, wf_value v = true -> forall st rest lg,
  sink_run (SCollectValue id st) (map Some (flatten v) ++ rest) lg =
  sink_run (cv_sink id (pop_names st)) rest (lg ++ tlog id (flatten v)).
Proof.
  induction v as [t|ko kc items IH|n v IH] using value_ind2; intros Hwf st rest lg.
  - cbn [wf_value] in Hwf. apply andb_prop in Hwf. destruct Hwf as [Hl _].
    cbn [flatten map app]. rewrite sink_run_cons by reflexivity.
    now rewrite (feed_cv_finish id st st t (step_leaf st t Hl)).
  - cbn [wf_value] in Hwf. apply andb_prop in Hwf. destruct Hwf as [Hwf Hitems].
    apply andb_prop in Hwf. destruct Hwf as [Ho Hc]. apply N.eqb_eq in Hc. subst kc.
    cbn [flatten map app]. rewrite sink_run_cons by reflexivity.
    rewrite (feed_cv_push id st _ _ (step_open st ko VNone Ho)).
    assert (Hit : forall lg0 tail,
      sink_run (SCollectValue id (CFEnd (end_of ko) :: st)) (map Some (flat_map flatten items) ++ tail) lg0 =
      sink_run (SCollectValue id (CFEnd (end_of ko) :: st)) tail (lg0 ++ tlog id (flat_map flatten items))).
    { clear -IH Hitems. induction IH as [|x r Hx Hr IHr]; intros lg0 tail.
      - cbn [flat_map map app tlog]. now rewrite app_nil_r.
      - cbn [forallb] in Hitems. apply andb_prop in Hitems. destruct Hitems as [Hwx Hwr].
        cbn [flat_map]. rewrite map_app, <- app_assoc, (Hx Hwx). cbn [pop_names cv_sink].
        rewrite (IHr Hwr). now rewrite tlog_app, app_assoc. }
    rewrite map_app, <- app_assoc, Hit. cbn [map app]. rewrite sink_run_cons by reflexivity.
    rewrite (feed_cv_finish id _ st _ (step_close st ko VNone Ho)).
    f_equal. unfold tlog. cbn [map]. rewrite map_app. cbn [map]. now rewrite <- !app_assoc.
  - cbn [wf_value] in Hwf. apply andb_prop in Hwf. destruct Hwf as [_ Hv].
    cbn [flatten map app]. rewrite sink_run_cons by reflexivity.
    rewrite (feed_cv_push id st _ _ (step_name st n)). rewrite (IH Hv). cbn [pop_names].
    f_equal. unfold tlog. cbn [map]. now rewrite <- app_assoc.
Qed.

Theorem collect_value id v rest : wf_value v = true ->
  sink_run (SCollectValue id []) (map Some (flatten v) ++ rest) [] =
  SRDone (map (fun t => (id, Some t)) (flatten v)) rest.
Proof. intros H. rewrite (cv_value id v H). cbn [pop_names cv_sink app]. apply sink_run_nil. Qed.

(* exactly one value is collected: directly nested type names, and more tokens behind *)
Example collect_value_ex :
  let v := Named [1%N] (Named [2%N] (Comp KArray KArrayEnd
             [Named [3%N] (Named [4%N] (Leaf (T KNil VNone))); Comp KMap KMapEnd []; Leaf (T KBool (VBool true))])) in
  let more := [Some (T KNil VNone); Some (T KArrayEnd VNone); None] in
  wf_value v = true /\
  sink_run (SCollectValue 5 []) (map Some (flatten v) ++ more) [] =
  SRDone (map (fun t => (5, Some t)) (flatten v)) more.
Proof. vm_compute. split; reflexivity. Qed.

Theorem collect_value_stray_end id t rest : is_end_kind (kind t) = true ->
  sink_run (SCollectValue id []) (Some t :: rest) [] = SRErr EUnexpEndTok [(id, Some t)].
Proof.
  intros H. rewrite sink_run_cons by reflexivity. cbn [feed]. rewrite collect_value_step_eq.
  cbv zeta. now rewrite H.
Qed.

(* a compound whose end marker never comes: the end of the stream is an error *)
Theorem collect_value_unclosed id ko kc items : wf_value (Comp ko kc items) = true ->
  sink_run (SCollectValue id []) (map Some (T ko VNone :: flat_map flatten items) ++ [None]) [] =
  SRErr EEnd (map (fun t => (id, Some t)) (T ko VNone :: flat_map flatten items)).
Proof.
  intros Hwf. cbn [wf_value] in Hwf. apply andb_prop in Hwf. destruct Hwf as [Hwf Hitems].
  apply andb_prop in Hwf. destruct Hwf as [Ho _].
  cbn [map app]. rewrite sink_run_cons by reflexivity.
  rewrite (feed_cv_push id [] _ _ (step_open [] ko VNone Ho)).
  assert (Hit : forall its, forallb wf_value its = true -> forall lg0 tail,
    sink_run (SCollectValue id [CFEnd (end_of ko)]) (map Some (flat_map flatten its) ++ tail) lg0 =
    sink_run (SCollectValue id [CFEnd (end_of ko)]) tail (lg0 ++ tlog id (flat_map flatten its))).
  { clear. induction its as [|x r IHr]; intros Hw lg0 tail.
    - cbn [flat_map map app tlog]. now rewrite app_nil_r.
    - cbn [forallb] in Hw. apply andb_prop in Hw. destruct Hw as [Hwx Hwr].
      cbn [flat_map]. rewrite map_app, <- app_assoc, (cv_value id x Hwx). cbn [pop_names cv_sink].
      rewrite (IHr Hwr). now rewrite tlog_app, app_assoc. }
  rewrite (Hit items Hitems). cbn [sink_run is_nil feed app]. now rewrite app_nil_r.
Qed.

(* ---- H. AltSink ---- *)
(* "the run of s over these calls ends in an error", without the logs *)
Fixpoint fails (s : sink) (calls : list (option token)) : bool :=
  match calls with
  | [] => false
  | c :: r => if is_nil s then false
              else match feed s c with FErr _ _ => true | FOk s' _ => fails s' r end
  end.

Lemma fails_is_nil s calls : is_nil s = true -> fails s calls = false.
Proof. intros H. destruct calls; cbn [fails]; [reflexivity|now rewrite H]. Qed.

Lemma sink_run_fails : forall calls s lg,
  match sink_run s calls lg with SRErr _ _ => fails s calls = true | _ => fails s calls = false end.
Proof.
  induction calls as [|c r IH]; intros s lg; cbn [sink_run fails].
  - destruct (is_nil s); reflexivity.
  - destruct (is_nil s); [reflexivity|]. destruct (feed s c) as [s' lg'|e lg']; [apply IH|reflexivity].
Qed.

Lemma sink_ok_fails s ts : sink_ok s ts <-> fails s (calls_of ts) = false.
Proof.
  unfold sink_ok. pose proof (sink_run_fails (calls_of ts) s []) as H.
  destruct (sink_run s (calls_of ts) []); rewrite H; split; intros H0; try exact I; try reflexivity;
    try (destruct H0; fail); discriminate H0.
Qed.

Definition swapr (rest : list (bool * fres)) : list (bool * fres) :=
  match rest with [] => [] | _ => last rest (true, FErr EOther []) :: removelast rest end.

Lemma swapr_perm rest : Permutation (swapr rest) rest.
Proof.
  destruct rest as [|x l]; [constructor|].
  unfold swapr.
  assert (H : x :: l <> []) by discriminate.
  rewrite (app_removelast_last (true, FErr EOther []) H) at 3.
  apply Permutation_cons_append.
Qed.

Definition alt_end (done : list sink) (le : option eclass) (lg : list delivery) : fres :=
  match done with
  | [] => match le with Some e => FErr e lg | None => FOk SNil lg end
  | [one] => FOk one lg
  | _ => FOk (SAlt done) lg
  end.

Lemma alt_loop_nil f done lg le : alt_loop (S f) done [] lg le = alt_end done le lg.
Proof. reflexivity. Qed.

Lemma alt_loop_S f done b r rest lg le :
  alt_loop (S f) done ((b, r) :: rest) lg le =
  if b then FErr EPanic lg
  else match r with
       | FErr e lg' => alt_loop f done (swapr rest) (lg ++ lg') (Some e)
       | FOk a' lg' => if is_nil a' then FOk SNil (lg ++ lg')
                       else alt_loop f (done ++ [a']) rest (lg ++ lg') le
       end.
Proof. reflexivity. Qed.

Lemma feed_alt ss t :
  feed (SAlt ss) t = alt_loop (S (length ss)) [] (map (fun a => (is_nil a, feed a t)) ss) [] None.
Proof.
  reflexivity.
Qed.

(* reactions of the alternatives to one call *)
Definition nilret (x : bool * fres) : bool :=
  match snd x with FOk a' _ => is_nil a' | FErr _ _ => false end.
Definition surv (x : bool * fres) : list sink :=
  match snd x with FOk a' _ => [a'] | FErr _ _ => [] end.
Definition iserr (x : bool * fres) : bool :=
  match snd x with FErr _ _ => true | FOk _ _ => false end.

Lemma existsb_perm {A} (f : A -> bool) a b : Permutation a b -> existsb f a = existsb f b.
Proof.
  induction 1 as [|x a b Hp IH|x y a|a b c H1 IH1 H2 IH2]; cbn [existsb].
  - reflexivity.
  - now rewrite IH.
  - destruct (f x), (f y); reflexivity.
  - now rewrite IH1.
Qed.

Lemma forallb_perm {A} (f : A -> bool) a b : Permutation a b -> forallb f a = forallb f b.
Proof.
  induction 1 as [|x a b Hp IH|x y a|a b c H1 IH1 H2 IH2]; cbn [forallb].
  - reflexivity.
  - now rewrite IH.
  - destruct (f x), (f y); reflexivity.
  - now rewrite IH1.
Qed.

(* the loop of alt_sink.go: success as soon as one alternative returns nil; otherwise the
   survivors, in some order; an error only if nobody survives *)
Lemma alt_loop_spec : forall fuel done todo lg le,
  length todo < fuel -> Forall (fun x => fst x = false) todo ->
  if existsb nilret todo then exists lg', alt_loop fuel done todo lg le = FOk SNil lg'
  else exists done' lg' le',
         alt_loop fuel done todo lg le = alt_end done' le' lg' /\
         Permutation done' (done ++ flat_map surv todo) /\
         (le <> None \/ existsb iserr todo = true -> le' <> None).
Proof.
  induction fuel as [|f IH]; intros done todo lg le Hf Hb; [lia|].
  destruct todo as [|[b r] rest].
  - cbn [existsb]. exists done, lg, le. rewrite alt_loop_nil. split; [reflexivity|]. split.
    + cbn [flat_map]. now rewrite app_nil_r.
    + cbn [existsb]. intros [H|H]; [exact H|discriminate H].
  - inversion Hb as [|? ? Hb1 Hb2]; subst. cbn [fst] in Hb1. subst b.
    rewrite alt_loop_S. cbn [existsb flat_map]. unfold nilret at 1, surv at 1, iserr at 1. cbn [snd].
    destruct r as [a' lg1|e lg1].
    + destruct (is_nil a') eqn:En.
      * cbn [orb]. now exists (lg ++ lg1).
      * cbn [orb]. specialize (IH (done ++ [a']) rest (lg ++ lg1) le ltac:(cbn [length] in Hf; lia) Hb2).
        destruct (existsb nilret rest); [exact IH|].
        destruct IH as (done' & lg' & le' & E & Hp & Hle). exists done', lg', le'.
        split; [exact E|]. split; [now rewrite Hp, <- app_assoc|exact Hle].
    + cbn [orb app].
      assert (Hb3 : Forall (fun x => fst x = false) (swapr rest)).
      { eapply Permutation_Forall; [symmetry; apply swapr_perm|exact Hb2]. }
      specialize (IH done (swapr rest) (lg ++ lg1) (Some e)
                     ltac:(rewrite (Permutation_length (swapr_perm rest)); cbn [length] in Hf; lia) Hb3).
      rewrite (existsb_perm nilret _ _ (swapr_perm rest)) in IH.
      destruct (existsb nilret rest); [exact IH|].
      destruct IH as (done' & lg' & le' & E & Hp & Hle). exists done', lg', le'.
      split; [exact E|]. split.
      * rewrite Hp. apply Permutation_app_head. apply Permutation_flat_map, swapr_perm.
      * intros _. apply Hle. left. discriminate.
Qed.

Lemma forallb_false_intro {A} (f : A -> bool) l x : In x l -> f x = false -> forallb f l = false.
Proof.
  intros Hin Hx. destruct (forallb f l) eqn:E; [|reflexivity].
  rewrite forallb_forall in E. rewrite (E x Hin) in Hx. discriminate.
Qed.

Lemma forallb_false_iff {A} (f : A -> bool) l :
  forallb f l = false <-> exists x, In x l /\ f x = false.
Proof.
  split.
  - induction l as [|x l IH]; cbn [forallb]; [discriminate|].
    destruct (f x) eqn:Ex.
    + intros H. destruct (IH H) as (y & Hy & Hfy). exists y. split; [now right|assumption].
    + intros _. exists x. split; [now left|assumption].
  - intros (x & Hin & Hx). eapply forallb_false_intro; eassumption.
Qed.

Theorem fails_alt : forall calls alts,
  alts <> [] -> Forall (fun a => is_nil a = false) alts ->
  fails (SAlt alts) calls = forallb (fun a => fails a calls) alts.
Proof.
  induction calls as [|c r IH]; intros alts Hne Hnn.
  - destruct alts as [|a alts]; [congruence|reflexivity].
  - assert (Hl : fails (SAlt alts) (c :: r) =
                 match feed (SAlt alts) c with FErr _ _ => true | FOk s' _ => fails s' r end) by reflexivity.
    rewrite Hl, feed_alt. clear Hl.
    set (g := fun a : sink => (is_nil a, feed a c)).
    assert (Hb : Forall (fun x => fst x = false) (map g alts)).
    { apply Forall_forall. intros x Hx. apply in_map_iff in Hx. destruct Hx as (a & <- & Ha).
      rewrite Forall_forall in Hnn. exact (Hnn a Ha). }
    pose proof (alt_loop_spec (S (length alts)) [] (map g alts) [] None
                  ltac:(rewrite map_length; lia) Hb) as Hspec.
    (* what one call does to each alternative's own run *)
    assert (Hstep : forall a, In a alts ->
              fails a (c :: r) = forallb (fun a' => fails a' r) (surv (g a))).
    { intros a Ha. rewrite Forall_forall in Hnn. cbn [fails]. rewrite (Hnn a Ha).
      unfold surv, g. cbn [snd]. destruct (feed a c); cbn [forallb]; [now rewrite andb_true_r|reflexivity]. }
    assert (Hall : forallb (fun a => fails a (c :: r)) alts
                   = forallb (fun a' => fails a' r) (flat_map surv (map g alts))).
    { clear -Hstep. induction alts as [|a alts IHa]; [reflexivity|].
      cbn [forallb map flat_map]. rewrite forallb_app, <- IHa.
      - f_equal. apply Hstep. now left.
      - intros a0 Ha0. apply Hstep. now right. }
    destruct (existsb nilret (map g alts)) eqn:Enil.
    + (* some alternative finishes: success, and that alternative accepts on its own *)
      destruct Hspec as [lg' ->]. rewrite fails_is_nil by reflexivity.
      apply existsb_exists in Enil. destruct Enil as (x & Hx & Hnil).
      apply in_map_iff in Hx. destruct Hx as (a & <- & Ha).
      symmetry. apply (forallb_false_intro _ _ a Ha).
      change (fails a (c :: r) = false). rewrite (Hstep a Ha). unfold nilret, surv in *. destruct (snd (g a)) as [a' lg1|e lg1]; [|discriminate].
      cbn [forallb]. now rewrite fails_is_nil.
    + destruct Hspec as (done' & lg' & le' & -> & Hp & Hle). cbn [app] in Hp.
      rewrite Hall, <- (forallb_perm _ _ _ Hp).
      assert (Hnn' : Forall (fun a => is_nil a = false) done').
      { eapply Permutation_Forall; [symmetry; exact Hp|]. apply Forall_forall. intros a' Ha'.
        apply in_flat_map in Ha'. destruct Ha' as (x & Hx & Hin).
        assert (Hx' : nilret x = false).
        { destruct (nilret x) eqn:E; [|reflexivity].
          assert (existsb nilret (map g alts) = true) by (apply existsb_exists; eauto). congruence. }
        unfold nilret, surv in *. destruct (snd x) as [a0 lg1|e lg1]; [|destruct Hin].
        destruct Hin as [<-|[]]. exact Hx'. }
      destruct done' as [|a1 [|a2 rest']]; cbn [alt_end].
      * (* nobody survived: every alternative failed on this call *)
        assert (Herr : existsb iserr (map g alts) = true).
        { apply Permutation_nil in Hp. destruct alts as [|a alts]; [congruence|].
          cbn [map flat_map existsb] in *. unfold surv in Hp at 1. unfold iserr at 1.
          destruct (snd (g a)); [discriminate Hp|reflexivity]. }
        destruct le' as [e|]; [reflexivity|]. exfalso. apply Hle; [now right|reflexivity].
      * cbn [forallb]. now rewrite andb_true_r.
      * apply IH; [discriminate|exact Hnn'].
Qed.

(* AltSink accepts a stream exactly when one of its alternatives does *)
Theorem alt_sink alts ts : alts <> [] -> (forall a, In a alts -> is_nil a = false) ->
  (sink_ok (SAlt alts) ts <-> exists a, In a alts /\ sink_ok a ts).
Proof.
  intros Hne Hnn. apply Forall_forall in Hnn.
  rewrite sink_ok_fails, (fails_alt _ alts Hne Hnn), forallb_false_iff.
  split; intros (a & Ha & H); exists a; (split; [exact Ha|]); now apply sink_ok_fails.
Qed.

(* the documented edge: no alternative at all accepts everything *)
Example alt_empty_accepts ts : sink_ok (SAlt []) ts.
Proof.
  apply sink_ok_fails. destruct ts as [|t ts]; [reflexivity|].
  rewrite calls_of_cons. cbn [fails is_nil]. rewrite feed_alt. cbn [length map alt_loop].
  now apply fails_is_nil.
Qed.

Example alt_sink_ex :
  let t1 := T KBool (VBool true) in
  let alts := [SFail 1 2; SFilter (SFail 3 1) (PKindIn [KNil])] in
  (fails (SAlt alts) (calls_of [t1; t1]), fails (SAlt alts) (calls_of []),
   fails (SAlt (alts ++ [SRec 4 (Fin 3)])) (calls_of [t1; t1]),
   fails (SAlt (SRec 4 (Fin 3) :: alts)) (calls_of [t1; t1])) = (true, false, false, false).
Proof. vm_compute. reflexivity. Qed.

Print Assumptions copy_delivery.
Print Assumptions copy_pulls.
Print Assumptions copy_source_fault.
Print Assumptions copy_sink_fault.
Print Assumptions filter_sink.
Print Assumptions concat_sinks_seq.
Print Assumptions concat_sinks_nary.
Print Assumptions collect_value.
Print Assumptions collect_value_stray_end.
Print Assumptions collect_value_unclosed.
Print Assumptions alt_sink.
